package main

import (
	"fmt"
	"math/big"
	"strings"
)

// Gallina term printers.  Every numeral is printed with an explicit scope so the
// cases file does not depend on the open scope.

func gN(n uint64) string { return fmt.Sprintf("%d%%N", n) }

func gNbig(n *big.Int) string { return n.String() + "%N" }

func gZ(z int64) string {
	if z < 0 {
		return fmt.Sprintf("(%d)%%Z", z)
	}
	return fmt.Sprintf("%d%%Z", z)
}

func gNat(n int) string { return fmt.Sprintf("%d%%nat", n) }

func gBool(b bool) string {
	if b {
		return "true"
	}
	return "false"
}

func gStr(s string) string {
	if len(s) == 0 {
		return "(@nil N)"
	}
	var sb strings.Builder
	sb.WriteString("[")
	for i := 0; i < len(s); i++ {
		if i > 0 {
			sb.WriteString(";")
		}
		fmt.Fprintf(&sb, "%d", s[i])
	}
	sb.WriteString("]%N")
	return sb.String()
}

func gList(items []string) string {
	if len(items) == 0 {
		return "[]"
	}
	return "[" + strings.Join(items, "; ") + "]"
}

func gOpt(s *string) string {
	if s == nil {
		return "None"
	}
	return "(Some " + *s + ")"
}

func gSome(s string) string { return "(Some " + s + ")" }

func gPair(a, b string) string { return "(" + a + ", " + b + ")" }
