package main

import (
	"encoding/json"
	"fmt"
	"sort"
	"strings"
)

// S-api: one replica, no remote operations — every call is also made on the obvious plain structure
// (int32, Go map, Go slice) and the returned values, the readable state and the error/no-error
// outcome must coincide; invalid calls must not panic, change anything readable, or queue anything.

func init() {
	slices["api-counter"] = func(c *Ctx) { sliceAPI(c, "counter") }
	slices["api-map"] = func(c *Ctx) { sliceAPI(c, "map") }
	slices["api-list"] = func(c *Ctx) { sliceAPI(c, "list") }
}

type plain struct {
	ctr int32
	mp  map[string]interface{}
	li  []interface{}
}

func canon(v interface{}) string {
	b, _ := json.Marshal(v)
	var x interface{}
	_ = json.Unmarshal(b, &x)
	b, _ = json.Marshal(x)
	return string(b)
}

func (p *plain) view(kind string) string {
	switch kind {
	case "counter":
		return canon(p.ctr)
	case "map":
		if p.mp == nil {
			return "{}"
		}
		return canon(p.mp)
	}
	if p.li == nil {
		return "[]"
	}
	return canon(p.li)
}

func (p *plain) size(kind string) int {
	switch kind {
	case "counter":
		return int(p.ctr)
	case "map":
		return len(p.mp)
	}
	return len(p.li)
}

func sliceAPI(c *Ctx, kind string) {
	n := c.N
	if n == 0 {
		n = 150
		if c.Tier == "thorough" {
			n = 6000
		}
	}
	c.Res.Rule = "random call sequences (valid and invalid arguments: boundary and out-of-range indices, empty keys, empty and large batches, nested values, reads) on ONE real " + kind + " replica, mirrored on the plain structure; also replayed on the model; non-trivial = at least one invalid call and one valid mutation; distinct by script"
	var cases []string
	ty := map[string]string{"counter": "chist", "map": "mhist", "list": "lhist"}[kind]
	for h := 0; h < n; h++ {
		w := newWorld(c, kind, 1)
		r := w.reps[0]
		p := &plain{mp: map[string]interface{}{}}
		sawInvalid, sawValid := false, false
		pan, msg := guarded(func() {
			steps := 10 + c.Rng.Intn(40)
			for s := 0; s < steps; s++ {
				beforeView := r.viewJSON()
				beforePending := len(r.pendingOps())
				cs := w.rndCall(r)
				var res string
				var err error
				w.cur = cs.desc
				res, err = cs.run(r)
				v, sz := r.view()
				w.evs = append(w.evs, fmt.Sprintf("ELocal %s %s %s %s %s", gNat(0), cs.gal, obsOf(res, err, false), v, sz))
				w.desc = append(w.desc, cs.desc)
				c.Count("ev-call")
				// the plain structure
				pres, perr := plainCall(p, kind, cs.desc)
				if (err != nil) != perr {
					c.Violate("C03", "error-mismatch-"+kind, fmt.Sprintf("%s: %s returned error=%v but the plain structure says error=%v", kind, cs.desc, err != nil, perr), w.desc)
				}
				if err == nil && !perr && pres != "" && pres != res {
					c.Violate("C03", "result-mismatch-"+kind, fmt.Sprintf("%s: %s returned %s, the plain structure %s", kind, cs.desc, res, pres), w.desc)
				}
				if canon(jsonOf(r)) != p.view(kind) {
					c.Violate("C03", "state-mismatch-"+kind, fmt.Sprintf("%s: after %s the datatype reads %s, the plain structure %s", kind, cs.desc, r.viewJSON(), p.view(kind)), w.desc)
				}
				if kind != "counter" && sizeOf(r) != p.size(kind) {
					c.Violate("C03", "size-mismatch-"+kind, fmt.Sprintf("%s: after %s Size() = %d, the plain structure has %d", kind, cs.desc, sizeOf(r), p.size(kind)), w.desc)
				}
				if err != nil {
					sawInvalid = true
					c.Count("invalid-call")
					if r.viewJSON() != beforeView || len(r.pendingOps()) != beforePending {
						c.Violate("C03", "invalid-call-changed-something-"+kind, fmt.Sprintf("%s: the failing call %s changed the readable state or queued an operation", kind, cs.desc), w.desc)
					}
				} else {
					sawValid = true
				}
				// reads
				if kind == "list" && len(p.li) > 0 && c.Rng.Intn(3) == 0 {
					i := c.Rng.Intn(len(p.li)+2) - 1
					got, gerr := r.li.Get(i)
					if i < 0 || i >= len(p.li) {
						if isNilErr(gerr) {
							c.Violate("C03", "read-out-of-range-accepted", fmt.Sprintf("Get(%d) on a list of %d succeeded", i, len(p.li)), w.desc)
						}
					} else if !isNilErr(gerr) || canon(got) != canon(p.li[i]) {
						c.Violate("C03", "read-mismatch-list", fmt.Sprintf("Get(%d) = %v, the plain slice has %v", i, got, p.li[i]), w.desc)
					}
					c.Count("read")
				}
				if kind == "map" && c.Rng.Intn(3) == 0 {
					k := keyPool[c.Rng.Intn(len(keyPool))]
					got := r.mp.Get(k)
					want, ok := p.mp[k]
					if (got == nil) != !ok || (ok && canon(got) != canon(want)) {
						c.Violate("C03", "read-mismatch-map", fmt.Sprintf("Get(%q) = %v, the plain map has %v (present=%v)", k, got, want, ok), w.desc)
					}
					c.Count("read")
				}
				w.noteOwnOps(r)
			}
		})
		if pan {
			c.Violate("C03", "panic-"+kind, fmt.Sprintf("%s: %s panicked: %s", kind, w.cur, msg), w.desc)
			c.Count("history-ended-by-panic")
			continue
		}
		cases = append(cases, fmt.Sprintf("mkHist %s [\n     %s]", gList([]string{gStr(r.cuid)}), strings.Join(w.evs, ";\n     ")))
		c.Distinct(strings.Join(w.desc, "|"), sawValid && (sawInvalid || kind == "counter"))
		c.Sample(map[string]interface{}{"kind": kind, "script": w.desc})
	}
	c.Res.Cases = len(cases)
	c.WriteCases("Api_"+kind, "Base Time Ops Counter Map List Snapshot Datatype Replicas CheckCrdt", ty, "check_"+kind, cases, 25)
}

func jsonOf(r *replica) interface{} { return r.dt.GetSnapshot().ToJSON() }
func sizeOf(r *replica) int {
	switch r.kind {
	case "map":
		return r.mp.Size()
	case "list":
		return r.li.Size()
	}
	return 0
}

// plainCall interprets the textual form of a call on the plain structure; returns the Gallina result
// ("" when not compared) and whether the plain structure rejects the call.
func plainCall(p *plain, kind, desc string) (string, bool) {
	switch kind {
	case "counter":
		var d int32
		fmt.Sscanf(desc, "IncreaseBy(%d)", &d)
		p.ctr += d
		return "(RVal " + gVal(p.ctr) + ")", false
	case "map":
		if strings.HasPrefix(desc, "Remove(") {
			var k string
			fmt.Sscanf(desc, "Remove(%q)", &k)
			if k == "" {
				return "", true
			}
			old, ok := p.mp[k]
			if !ok {
				return "", true
			}
			delete(p.mp, k)
			return "(RVal " + gVal(old) + ")", false
		}
		// Put("k",value): the value is taken from the last call of the generator
		k := lastPutKey
		if k == "" {
			return "", true
		}
		old, ok := p.mp[k]
		p.mp[k] = lastPutVal
		if !ok {
			return "RNil", false
		}
		return "(RVal " + gVal(old) + ")", false
	}
	// list
	switch {
	case strings.HasPrefix(desc, "InsertMany("):
		pos, vs := lastListPos, lastListVals
		if pos < 0 || pos > len(p.li) {
			return "", true
		}
		nl := append([]interface{}{}, p.li[:pos]...)
		nl = append(nl, vs...)
		nl = append(nl, p.li[pos:]...)
		p.li = nl
		return "(RVals " + gVals(vs) + ")", false
	case strings.HasPrefix(desc, "DeleteMany("):
		var pos, n int
		fmt.Sscanf(desc, "DeleteMany(%d,%d)", &pos, &n)
		if pos < 0 || n < 1 || pos >= len(p.li) || pos+n > len(p.li) {
			return "", true
		}
		old := append([]interface{}{}, p.li[pos:pos+n]...)
		p.li = append(append([]interface{}{}, p.li[:pos]...), p.li[pos+n:]...)
		return "(RVals " + gVals(old) + ")", false
	default: // Update
		pos, vs := lastListPos, lastListVals
		n := len(vs)
		if pos < 0 || n < 1 || pos >= len(p.li) || pos+n > len(p.li) {
			return "", true
		}
		old := append([]interface{}{}, p.li[pos:pos+n]...)
		for i, v := range vs {
			p.li[pos+i] = v
		}
		return "(RVals " + gVals(old) + ")", false
	}
}

// the generator records the arguments of its last call for the plain interpreter
var lastPutKey string
var lastPutVal interface{}
var lastListPos int
var lastListVals []interface{}

var _ = sort.Strings
