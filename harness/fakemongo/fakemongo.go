// Package fakemongo is a throw-away in-memory MongoDB wire-protocol server (spike).
package fakemongo

import (
	"encoding/binary"
	"fmt"
	"io"
	"net"
	"sort"
	"strings"
	"sync"
	"time"

	"go.mongodb.org/mongo-driver/bson"
	"go.mongodb.org/mongo-driver/bson/primitive"
)

type Cmd struct {
	N    int
	Name string
	Coll string
	Doc  bson.D
}

type Server struct {
	mu      sync.Mutex
	ln      net.Listener
	colls   map[string][]bson.D // "db.coll" -> docs
	exists  map[string]bool
	Log     []Cmd
	n       int
	FailAt  int  // fail the command with this index (1-based, counting data commands) ; 0 = never
	Failed  *Cmd // the command that was made to fail, once it happened
	reqid   int32
	Verbose bool
	hmu     sync.Mutex
	hold    *holdPlan
}

// holdPlan: the next data command with this name on this collection waits until released (a slow query)
type holdPlan struct {
	name, coll string
	reached    chan struct{}
	release    chan struct{}
	fail       bool // answered with a server error (the store was briefly unavailable)
}

// HoldNext arms a hold: the next command `name` on collection `coll` signals `reached` and then blocks until `release`
// is called.  Only one hold at a time.
func (s *Server) HoldNext(name, coll string) (reached <-chan struct{}, release func()) {
	h := &holdPlan{name: name, coll: coll, reached: make(chan struct{}), release: make(chan struct{})}
	s.hmu.Lock()
	s.hold = h
	s.hmu.Unlock()
	var once sync.Once
	return h.reached, func() {
		once.Do(func() {
			s.hmu.Lock()
			if s.hold == h {
				s.hold = nil
			}
			s.hmu.Unlock()
			close(h.release)
		})
	}
}

// FailNextOn: the next command `name` on collection `coll` is answered with a server error; `reached` is closed when it
// arrived
func (s *Server) FailNextOn(name, coll string) (reached <-chan struct{}) {
	h := &holdPlan{name: name, coll: coll, reached: make(chan struct{}), release: make(chan struct{}), fail: true}
	close(h.release)
	s.hmu.Lock()
	s.hold = h
	s.hmu.Unlock()
	return h.reached
}

// Disarm removes a hold / failure plan that was not reached
func (s *Server) Disarm() {
	s.hmu.Lock()
	s.hold = nil
	s.hmu.Unlock()
}

func New() (*Server, error) {
	ln, err := net.Listen("tcp", "127.0.0.1:0")
	if err != nil {
		return nil, err
	}
	s := &Server{ln: ln, colls: map[string][]bson.D{}, exists: map[string]bool{}}
	go func() {
		for {
			c, err := ln.Accept()
			if err != nil {
				return
			}
			go s.serve(c)
		}
	}()
	return s, nil
}

func (s *Server) Addr() string { return s.ln.Addr().String() }

func (s *Server) Dump(db string) map[string][]bson.D {
	s.mu.Lock()
	defer s.mu.Unlock()
	out := map[string][]bson.D{}
	for k, v := range s.colls {
		if strings.HasPrefix(k, db+".") {
			out[k[len(db)+1:]] = append([]bson.D{}, v...)
		}
	}
	return out
}

// Reset drops all data and the command log (a fresh store).
func (s *Server) Reset() {
	s.mu.Lock()
	defer s.mu.Unlock()
	s.colls = map[string][]bson.D{}
	s.Log = nil
	s.n = 0
	s.FailAt = 0
	s.Failed = nil
}

// SawAfter reports whether a command `name` on collection `coll` was logged after command number n.
func (s *Server) SawAfter(n int, name, coll string) bool {
	s.mu.Lock()
	defer s.mu.Unlock()
	for i := len(s.Log) - 1; i >= 0; i-- {
		if s.Log[i].N <= n {
			return false
		}
		if s.Log[i].Name == name && s.Log[i].Coll == coll {
			return true
		}
	}
	return false
}

// FailNext makes the k-th data command from now fail with a server error (k >= 1).
func (s *Server) FailNext(k int) {
	s.mu.Lock()
	defer s.mu.Unlock()
	s.FailAt = s.n + k
	s.Failed = nil
}

// TakeFailed disarms the fault plan and returns the command that was failed, if it came to that.
func (s *Server) TakeFailed() *Cmd {
	s.mu.Lock()
	defer s.mu.Unlock()
	f := s.Failed
	s.FailAt, s.Failed = 0, nil
	return f
}

// CountAfter: how many commands `name` on collection `coll` were handled after command number n
func (s *Server) CountAfter(n int, name, coll string) int {
	s.mu.Lock()
	defer s.mu.Unlock()
	k := 0
	for _, c := range s.Log {
		if c.N > n && c.Name == name && c.Coll == coll {
			k++
		}
	}
	return k
}

func (s *Server) CmdCount() int { s.mu.Lock(); defer s.mu.Unlock(); return s.n }

func get(d bson.D, k string) (interface{}, bool) {
	for _, e := range d {
		if e.Key == k {
			return e.Value, true
		}
	}
	return nil, false
}

func num(v interface{}) (float64, bool) {
	switch x := v.(type) {
	case int32:
		return float64(x), true
	case int64:
		return float64(x), true
	case float64:
		return x, true
	case int:
		return float64(x), true
	case primitive.DateTime:
		return float64(x), true
	}
	return 0, false
}

func cmp(a, b interface{}) (int, bool) {
	if x, ok := num(a); ok {
		if y, ok2 := num(b); ok2 {
			switch {
			case x < y:
				return -1, true
			case x > y:
				return 1, true
			}
			return 0, true
		}
		return 0, false
	}
	switch x := a.(type) {
	case string:
		if y, ok := b.(string); ok {
			return strings.Compare(x, y), true
		}
	case bool:
		if y, ok := b.(bool); ok {
			if x == y {
				return 0, true
			}
			return 1, true
		}
	case primitive.ObjectID:
		if y, ok := b.(primitive.ObjectID); ok {
			return strings.Compare(x.Hex(), y.Hex()), true
		}
	case nil:
		if b == nil {
			return 0, true
		}
	}
	return 0, false
}

func equalVal(a, b interface{}) bool {
	if c, ok := cmp(a, b); ok {
		return c == 0
	}
	ab, _ := bson.Marshal(bson.D{{Key: "v", Value: a}})
	bb, _ := bson.Marshal(bson.D{{Key: "v", Value: b}})
	return string(ab) == string(bb)
}

func match(doc, filter bson.D) bool {
	for _, f := range filter {
		v, present := get(doc, f.Key)
		if ops, ok := f.Value.(bson.D); ok && len(ops) > 0 && strings.HasPrefix(ops[0].Key, "$") {
			for _, o := range ops {
				switch o.Key {
				case "$gte", "$lte", "$gt", "$lt":
					if !present {
						return false
					}
					c, ok := cmp(v, o.Value)
					if !ok {
						return false
					}
					if (o.Key == "$gte" && c < 0) || (o.Key == "$lte" && c > 0) || (o.Key == "$gt" && c <= 0) || (o.Key == "$lt" && c >= 0) {
						return false
					}
				case "$exists":
					want, _ := o.Value.(bool)
					if present != want {
						return false
					}
				default:
					panic("fakemongo: unsupported operator " + o.Key)
				}
			}
			continue
		}
		if !present || !equalVal(v, f.Value) {
			return false
		}
	}
	return true
}

func setField(d bson.D, k string, v interface{}) bson.D {
	for i := range d {
		if d[i].Key == k {
			d[i].Value = v
			return d
		}
	}
	return append(d, bson.E{Key: k, Value: v})
}

func cloneD(d bson.D) bson.D {
	b, _ := bson.Marshal(d)
	var out bson.D
	_ = bson.Unmarshal(b, &out)
	return out
}

func sameD(a, b bson.D) bool {
	x, _ := bson.Marshal(a)
	y, _ := bson.Marshal(b)
	return string(x) == string(y)
}

// applyUpdate returns the updated doc. u is either operator doc or replacement.
func applyUpdate(doc bson.D, u bson.D, isInsert bool) bson.D {
	if len(u) == 0 || !strings.HasPrefix(u[0].Key, "$") {
		out := bson.D{}
		if id, ok := get(doc, "_id"); ok {
			out = append(out, bson.E{Key: "_id", Value: id})
		}
		for _, e := range u {
			if e.Key != "_id" {
				out = append(out, e)
			}
		}
		return out
	}
	out := cloneD(doc)
	for _, op := range u {
		fields, _ := op.Value.(bson.D)
		switch op.Key {
		case "$set":
			for _, f := range fields {
				out = setField(out, f.Key, f.Value)
			}
		case "$inc":
			for _, f := range fields {
				cur, _ := get(out, f.Key)
				a, _ := num(cur)
				b, _ := num(f.Value)
				out = setField(out, f.Key, int32(a+b))
			}
		case "$currentDate":
			for _, f := range fields {
				out = setField(out, f.Key, primitive.NewDateTimeFromTime(time.Now()))
			}
		default:
			panic("fakemongo: unsupported update operator " + op.Key)
		}
	}
	return out
}

func eqFieldsFromFilter(q bson.D) bson.D {
	out := bson.D{}
	for _, f := range q {
		if ops, ok := f.Value.(bson.D); ok && len(ops) > 0 && strings.HasPrefix(ops[0].Key, "$") {
			continue
		}
		out = append(out, f)
	}
	return out
}

func cursor(ns string, docs []bson.D) bson.D {
	arr := bson.A{}
	for _, d := range docs {
		arr = append(arr, d)
	}
	return bson.D{{Key: "cursor", Value: bson.D{{Key: "id", Value: int64(0)}, {Key: "ns", Value: ns}, {Key: "firstBatch", Value: arr}}}, {Key: "ok", Value: float64(1)}}
}

func asDocs(v interface{}) []bson.D {
	var out []bson.D
	if a, ok := v.(bson.A); ok {
		for _, x := range a {
			if d, ok := x.(bson.D); ok {
				out = append(out, d)
			}
		}
	}
	return out
}

func (s *Server) handle(cmd bson.D) bson.D {
	name := cmd[0].Key
	switch name {
	case "isMaster", "ismaster", "hello":
		return bson.D{{Key: "ismaster", Value: true}, {Key: "isWritablePrimary", Value: true}, {Key: "msg", Value: "isdbgrid"},
			{Key: "maxBsonObjectSize", Value: int32(16777216)}, {Key: "maxMessageSizeBytes", Value: int32(48000000)},
			{Key: "maxWriteBatchSize", Value: int32(100000)}, {Key: "localTime", Value: primitive.NewDateTimeFromTime(time.Now())},
			{Key: "logicalSessionTimeoutMinutes", Value: int32(30)}, {Key: "connectionId", Value: int32(1)},
			{Key: "minWireVersion", Value: int32(0)}, {Key: "maxWireVersion", Value: int32(13)},
			{Key: "saslSupportedMechs", Value: bson.A{"PLAIN"}}, {Key: "ok", Value: float64(1)}}
	case "saslStart":
		return bson.D{{Key: "conversationId", Value: int32(1)}, {Key: "done", Value: true}, {Key: "payload", Value: primitive.Binary{}}, {Key: "ok", Value: float64(1)}}
	case "ping", "endSessions", "commitTransaction", "abortTransaction":
		return bson.D{{Key: "ok", Value: float64(1)}}
	}
	dbv, _ := get(cmd, "$db")
	db, _ := dbv.(string)
	collName, _ := cmd[0].Value.(string)
	ns := db + "." + collName
	s.hmu.Lock()
	if h := s.hold; h != nil && h.name == name && h.coll == collName {
		s.hold = nil
		s.hmu.Unlock()
		close(h.reached)
		<-h.release
		if h.fail {
			s.mu.Lock()
			s.n++
			s.Log = append(s.Log, Cmd{N: s.n, Name: name, Coll: collName, Doc: cmd})
			s.mu.Unlock()
			return bson.D{{Key: "ok", Value: float64(0)}, {Key: "errmsg", Value: "injected failure"}, {Key: "code", Value: int32(96)}, {Key: "codeName", Value: "OperationFailed"}}
		}
	} else {
		s.hmu.Unlock()
	}
	s.mu.Lock()
	defer s.mu.Unlock()
	s.n++
	s.Log = append(s.Log, Cmd{N: s.n, Name: name, Coll: collName, Doc: cmd})
	if s.Verbose {
		fmt.Printf("  [mongo #%d] %s %s\n", s.n, name, collName)
	}
	if s.FailAt == s.n {
		s.Failed = &Cmd{N: s.n, Name: name, Coll: collName}
		return bson.D{{Key: "ok", Value: float64(0)}, {Key: "errmsg", Value: "injected failure"}, {Key: "code", Value: int32(96)}, {Key: "codeName", Value: "OperationFailed"}}
	}
	switch name {
	case "createIndexes":
		s.exists[ns] = true
		return bson.D{{Key: "ok", Value: float64(1)}}
	case "drop":
		delete(s.colls, ns)
		delete(s.exists, ns)
		return bson.D{{Key: "ok", Value: float64(1)}}
	case "listCollections":
		f, _ := get(cmd, "filter")
		filter, _ := f.(bson.D)
		var names []string
		for k := range s.exists {
			if strings.HasPrefix(k, db+".") {
				names = append(names, k[len(db)+1:])
			}
		}
		sort.Strings(names)
		var docs []bson.D
		for _, n := range names {
			d := bson.D{{Key: "name", Value: n}, {Key: "type", Value: "collection"}}
			if match(d, filter) {
				docs = append(docs, d)
			}
		}
		return cursor(db+".$cmd.listCollections", docs)
	case "insert":
		s.exists[ns] = true
		n := 0
		var werrs bson.A
		for i, d := range asDocs(mustGet(cmd, "documents")) {
			id, _ := get(d, "_id")
			dup := false
			for _, e := range s.colls[ns] {
				eid, _ := get(e, "_id")
				if equalVal(eid, id) {
					dup = true
				}
			}
			if dup {
				werrs = append(werrs, bson.D{{Key: "index", Value: int32(i)}, {Key: "code", Value: int32(11000)}, {Key: "errmsg", Value: fmt.Sprintf("E11000 duplicate key error collection: %s dup key: { _id: %v }", ns, id)}})
				break // ordered
			}
			s.colls[ns] = append(s.colls[ns], cloneD(d))
			n++
		}
		res := bson.D{{Key: "n", Value: int32(n)}, {Key: "ok", Value: float64(1)}}
		if len(werrs) > 0 {
			res = append(res, bson.E{Key: "writeErrors", Value: werrs})
		}
		return res
	case "delete":
		n := 0
		for _, del := range asDocs(mustGet(cmd, "deletes")) {
			qv, _ := get(del, "q")
			q, _ := qv.(bson.D)
			lim, _ := get(del, "limit")
			l, _ := num(lim)
			var keep []bson.D
			removed := 0
			for _, d := range s.colls[ns] {
				if match(d, q) && (l == 0 || removed < int(l)) {
					removed++
					continue
				}
				keep = append(keep, d)
			}
			s.colls[ns] = keep
			n += removed
		}
		return bson.D{{Key: "n", Value: int32(n)}, {Key: "ok", Value: float64(1)}}
	case "update":
		s.exists[ns] = true
		n, nMod := 0, 0
		var upserted bson.A
		for i, up := range asDocs(mustGet(cmd, "updates")) {
			qv, _ := get(up, "q")
			q, _ := qv.(bson.D)
			uv, _ := get(up, "u")
			u, _ := uv.(bson.D)
			upsert, _ := get(up, "upsert")
			ups, _ := upsert.(bool)
			multi, _ := get(up, "multi")
			mul, _ := multi.(bool)
			found := false
			for j, d := range s.colls[ns] {
				if match(d, q) {
					found = true
					n++
					nd := applyUpdate(d, u, false)
					if !sameD(nd, d) {
						nMod++
					}
					s.colls[ns][j] = nd
					if !mul {
						break
					}
				}
			}
			if !found && ups {
				base := eqFieldsFromFilter(q)
				nd := applyUpdate(base, u, true)
				if _, ok := get(nd, "_id"); !ok {
					nd = append(bson.D{{Key: "_id", Value: primitive.NewObjectID()}}, nd...)
				}
				s.colls[ns] = append(s.colls[ns], nd)
				id, _ := get(nd, "_id")
				upserted = append(upserted, bson.D{{Key: "index", Value: int32(i)}, {Key: "_id", Value: id}})
				n++
			}
		}
		res := bson.D{{Key: "n", Value: int32(n)}, {Key: "nModified", Value: int32(nMod)}, {Key: "ok", Value: float64(1)}}
		if len(upserted) > 0 {
			res = append(res, bson.E{Key: "upserted", Value: upserted})
		}
		return res
	case "find":
		fv, _ := get(cmd, "filter")
		filter, _ := fv.(bson.D)
		var docs []bson.D
		for _, d := range s.colls[ns] {
			if match(d, filter) {
				docs = append(docs, cloneD(d))
			}
		}
		if sv, ok := get(cmd, "sort"); ok {
			if sd, ok := sv.(bson.D); ok && len(sd) > 0 {
				key := sd[0].Key
				dir, _ := num(sd[0].Value)
				sort.SliceStable(docs, func(i, j int) bool {
					a, _ := get(docs[i], key)
					b, _ := get(docs[j], key)
					c, _ := cmp(a, b)
					if dir < 0 {
						return c > 0
					}
					return c < 0
				})
			}
		}
		if lv, ok := get(cmd, "limit"); ok {
			if l, _ := num(lv); l > 0 && int(l) < len(docs) {
				docs = docs[:int(l)]
			}
		}
		return cursor(ns, docs)
	case "findAndModify":
		s.exists[ns] = true
		qv, _ := get(cmd, "query")
		q, _ := qv.(bson.D)
		uv, _ := get(cmd, "update")
		u, _ := uv.(bson.D)
		upsert, _ := get(cmd, "upsert")
		ups, _ := upsert.(bool)
		newv, _ := get(cmd, "new")
		retNew, _ := newv.(bool)
		for j, d := range s.colls[ns] {
			if match(d, q) {
				nd := applyUpdate(d, u, false)
				s.colls[ns][j] = nd
				val := d
				if retNew {
					val = nd
				}
				return bson.D{{Key: "lastErrorObject", Value: bson.D{{Key: "n", Value: int32(1)}, {Key: "updatedExisting", Value: true}}}, {Key: "value", Value: val}, {Key: "ok", Value: float64(1)}}
			}
		}
		if ups {
			nd := applyUpdate(eqFieldsFromFilter(q), u, true)
			s.colls[ns] = append(s.colls[ns], nd)
			id, _ := get(nd, "_id")
			var val interface{}
			if retNew {
				val = nd
			}
			return bson.D{{Key: "lastErrorObject", Value: bson.D{{Key: "n", Value: int32(1)}, {Key: "updatedExisting", Value: false}, {Key: "upserted", Value: id}}}, {Key: "value", Value: val}, {Key: "ok", Value: float64(1)}}
		}
		return bson.D{{Key: "lastErrorObject", Value: bson.D{{Key: "n", Value: int32(0)}, {Key: "updatedExisting", Value: false}}}, {Key: "value", Value: nil}, {Key: "ok", Value: float64(1)}}
	}
	return bson.D{{Key: "ok", Value: float64(0)}, {Key: "errmsg", Value: "no such command: " + name}, {Key: "code", Value: int32(59)}}
}

func mustGet(d bson.D, k string) interface{} { v, _ := get(d, k); return v }

func (s *Server) serve(c net.Conn) {
	defer c.Close()
	for {
		hdr := make([]byte, 16)
		if _, err := io.ReadFull(c, hdr); err != nil {
			return
		}
		l := int32(binary.LittleEndian.Uint32(hdr[0:]))
		rid := int32(binary.LittleEndian.Uint32(hdr[4:]))
		op := int32(binary.LittleEndian.Uint32(hdr[12:]))
		body := make([]byte, l-16)
		if _, err := io.ReadFull(c, body); err != nil {
			return
		}
		var cmd bson.D
		switch op {
		case 2004:
			i := 4
			for body[i] != 0 {
				i++
			}
			i += 1 + 8
			if err := bson.Unmarshal(body[i:], &cmd); err != nil {
				return
			}
			res, _ := bson.Marshal(s.handle(cmd))
			out := make([]byte, 16+20+len(res))
			binary.LittleEndian.PutUint32(out[0:], uint32(len(out)))
			binary.LittleEndian.PutUint32(out[8:], uint32(rid))
			binary.LittleEndian.PutUint32(out[12:], 1)
			binary.LittleEndian.PutUint32(out[16:], 8)
			binary.LittleEndian.PutUint32(out[32:], 1)
			copy(out[36:], res)
			c.Write(out)
		case 2013:
			i := 4
			for i < len(body) {
				kind := body[i]
				i++
				if kind == 0 {
					dl := int(binary.LittleEndian.Uint32(body[i:]))
					if err := bson.Unmarshal(body[i:i+dl], &cmd); err != nil {
						return
					}
					i += dl
				} else {
					sl := int(binary.LittleEndian.Uint32(body[i:]))
					sec := body[i+4 : i+sl]
					j := 0
					for sec[j] != 0 {
						j++
					}
					id := string(sec[:j])
					j++
					arr := bson.A{}
					for j < len(sec) {
						dl := int(binary.LittleEndian.Uint32(sec[j:]))
						var d bson.D
						_ = bson.Unmarshal(sec[j:j+dl], &d)
						arr = append(arr, d)
						j += dl
					}
					cmd = append(cmd, bson.E{Key: id, Value: arr})
					i += sl
				}
			}
			res, err := bson.Marshal(s.handle(cmd))
			if err != nil {
				panic(err)
			}
			out := make([]byte, 16+4+1+len(res))
			binary.LittleEndian.PutUint32(out[0:], uint32(len(out)))
			binary.LittleEndian.PutUint32(out[8:], uint32(rid))
			binary.LittleEndian.PutUint32(out[12:], 2013)
			copy(out[21:], res)
			c.Write(out)
		default:
			return
		}
	}
}
