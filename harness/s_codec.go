package main

import (
	"bytes"
	gocontext "context"
	"encoding/json"
	"fmt"
	"math"
	"math/big"
	"reflect"
	"sort"
	"strings"

	"github.com/orda-io/orda/client/pkg/iface"
	"github.com/orda-io/orda/client/pkg/model"
	"github.com/orda-io/orda/client/pkg/operations"
	"github.com/orda-io/orda/client/pkg/types"
	"github.com/orda-io/orda/server/schema"
	"github.com/orda-io/orda/server/service"
	"go.mongodb.org/mongo-driver/bson"
	"google.golang.org/protobuf/proto"
)

// S-codec: operation -> model.Operation -> protobuf bytes -> model.Operation -> OperationDoc -> BSON bytes
// -> OperationDoc -> model.Operation -> operation, and the server's encoding-echo service.

func init() { slices["codec"] = sliceCodec }

// ordered JSON -> Gallina [json], keeping the field order of objects
func gJSONBytes(b []byte) string {
	dec := json.NewDecoder(bytes.NewReader(b))
	dec.UseNumber()
	return gJSONTok(dec)
}

func numToZ(n json.Number) string {
	s := n.String()
	if !strings.ContainsAny(s, ".eE") {
		if strings.HasPrefix(s, "-") {
			return "(" + s + ")%Z"
		}
		return s + "%Z"
	}
	f, _, err := big.ParseFloat(s, 10, 200, big.ToNearestEven)
	if err != nil || !f.IsInt() {
		panic("non-integer number in harness value: " + s)
	}
	i, _ := f.Int(nil)
	if i.Sign() < 0 {
		return "(" + i.String() + ")%Z"
	}
	return i.String() + "%Z"
}

func gJSONTok(dec *json.Decoder) string {
	t, err := dec.Token()
	if err != nil {
		panic(err)
	}
	switch v := t.(type) {
	case json.Delim:
		if v == '{' {
			var items []string
			for dec.More() {
				k, _ := dec.Token()
				items = append(items, gPair(gStr(k.(string)), gJSONTok(dec)))
			}
			_, _ = dec.Token()
			return "(JObj " + gList(items) + ")"
		}
		var items []string
		for dec.More() {
			items = append(items, gJSONTok(dec))
		}
		_, _ = dec.Token()
		return "(JArr " + gList(items) + ")"
	case json.Number:
		return "(JNum " + numToZ(v) + ")"
	case string:
		return "(JStr " + gStr(v) + ")"
	case bool:
		return "(JBool " + gBool(v) + ")"
	case nil:
		return "JNull"
	}
	panic("token")
}

// model value of a (converted) Go value
func gValExact(v interface{}) string {
	b, err := json.Marshal(v)
	if err != nil {
		panic(err)
	}
	dec := json.NewDecoder(bytes.NewReader(b))
	dec.UseNumber()
	var x interface{}
	_ = dec.Decode(&x)
	return gValNum(x)
}

func gValNum(x interface{}) string {
	switch t := x.(type) {
	case json.Number:
		return "(VNum " + numToZ(t) + ")"
	case []interface{}:
		items := make([]string, len(t))
		for i, e := range t {
			items[i] = gValNum(e)
		}
		return "(VArr " + gList(items) + ")"
	case map[string]interface{}:
		keys := make([]string, 0, len(t))
		for k := range t {
			keys = append(keys, k)
		}
		sort.Strings(keys)
		items := make([]string, len(keys))
		for i, k := range keys {
			items[i] = gPair(gStr(k), gValNum(t[k]))
		}
		return "(VObj " + gList(items) + ")"
	}
	return gValParsed(x)
}

func canonBody(b []byte) string {
	var x interface{}
	dec := json.NewDecoder(bytes.NewReader(b))
	dec.UseNumber()
	if err := dec.Decode(&x); err != nil {
		return "!" + string(b)
	}
	out, _ := json.Marshal(x)
	return string(out)
}

func sameMop(a, b *model.Operation) bool {
	return a.OpType == b.OpType && a.ID.Era == b.ID.Era && a.ID.Lamport == b.ID.Lamport && a.ID.CUID == b.ID.CUID && a.ID.Seq == b.ID.Seq &&
		canonBody(a.Body) == canonBody(b.Body)
}

func sliceCodec(c *Ctx) {
	n := c.N
	if n == 0 {
		n = 1500
		if c.Tier == "thorough" {
			n = 60000
		}
	}
	rng := c.Rng
	c.Res.Rule = "operations of all 13 body-carrying types built with the public constructors; values: Go integers of every width and pointers to them, float32/64 with integral values, bools, strings over arbitrary code points (ASCII control, quotes, slashes, <>&, BMP, astral, separators U+2028/9), nested maps/slices/structs, empty containers, integers around 2^53 and 2^63; timestamps/ids from boundary values; each goes through ToModelOperation -> protobuf bytes -> OperationDoc -> BSON bytes -> back -> ModelToOperation and through the encoding-echo service; non-trivial = the value is nested or non-ASCII or beyond 2^53; distinct by rendered operation. Non-integral floats are not generated (the model's numbers are integers)."
	svc := service.NewOrdaService(nil)
	strs := []string{"", "a", "key/3", "a~b", "héllo ∑", "  ", "quote\"back\\slash", "<tag>&amp;", "\x01\x1f", "😀 astral", "タイムスタンプ", "tab\there\nnewline", "é́"}
	rStr := func() string {
		if rng.Intn(3) == 0 {
			var sb strings.Builder
			for i := 0; i < rng.Intn(6); i++ {
				r := rune(rng.Intn(0x2fff))
				if rng.Intn(6) == 0 {
					r = rune(0x1f600 + rng.Intn(60))
				}
				if r >= 0xd800 && r < 0xe000 {
					r = 'x'
				}
				sb.WriteRune(r)
			}
			return sb.String()
		}
		return strs[rng.Intn(len(strs))]
	}
	nestedBig := false // a Go integer beyond 2^53 inside a container value (not converted to float64 by the client)
	var rVal func(depth int) (interface{}, bool)
	rVal = func(depth int) (interface{}, bool) {
		switch k := rng.Intn(24); k {
		case 22, 23: // a pointer to an integer of any width
			switch rng.Intn(10) {
			case 0:
				v := int(rng.Intn(1 << 30))
				return &v, false
			case 1:
				v := int8(rng.Intn(256) - 128)
				return &v, false
			case 2:
				v := int16(rng.Intn(65536) - 32768)
				return &v, false
			case 3:
				v := int32(rng.Uint32())
				return &v, false
			case 4:
				v := uint(rng.Uint32())
				return &v, false
			case 5:
				v := uint8(rng.Intn(256))
				return &v, false
			case 6:
				v := uint16(rng.Intn(65536))
				return &v, false
			case 7:
				v := uint32(rng.Uint32())
				return &v, false
			case 8:
				v := float32(rng.Intn(1 << 20))
				return &v, false
			default:
				v := rng.Intn(2) == 0
				return &v, false
			}
		case 0:
			return int(rng.Int63n(1<<40) - 1<<39), false
		case 1:
			return int8(rng.Intn(256) - 128), false
		case 2:
			return int16(rng.Intn(65536) - 32768), false
		case 3:
			return int32(rng.Uint32()), false
		case 4:
			v := int64(rng.Uint64())
			if depth > 0 && (v > 1<<53 || v < -(1<<53)) {
				nestedBig = true
			}
			return v, v > 1<<53 || v < -(1<<53)
		case 5:
			return uint(rng.Uint32()), false
		case 6:
			return uint8(rng.Intn(256)), false
		case 7:
			return uint16(rng.Intn(65536)), false
		case 8:
			return uint32(rng.Uint32()), false
		case 9:
			v := rng.Uint64()
			if depth > 0 && v > 1<<53 {
				nestedBig = true
			}
			return v, v > 1<<53
		case 10:
			v := int64(1<<53) + int64(rng.Intn(5)) - 2
			if depth > 0 && v > 1<<53 {
				nestedBig = true
			}
			return v, true
		case 11:
			v := int64(rng.Intn(100))
			return &v, false
		case 12:
			v := uint64(math.MaxUint64 - uint64(rng.Intn(3)))
			if depth > 0 {
				nestedBig = true
			}
			return &v, true
		case 13:
			return float32(rng.Intn(1 << 20)), false
		case 14:
			return float64(rng.Int63n(1<<50)) * float64(1-2*rng.Intn(2)), false
		case 15:
			return rng.Intn(2) == 0, false
		case 16, 17:
			s := rStr()
			return s, len(s) != len([]rune(s))
		case 18:
			s := rStr()
			return &s, false
		case 19:
			if depth > 2 {
				return "leaf", false
			}
			m := map[string]interface{}{}
			for i := 0; i < rng.Intn(4); i++ {
				v, _ := rVal(depth + 1)
				m[rStr()] = v
			}
			return m, true
		case 20:
			if depth > 2 {
				return 0, false
			}
			l := []interface{}{}
			for i := 0; i < rng.Intn(4); i++ {
				v, _ := rVal(depth + 1)
				l = append(l, v)
			}
			return l, true
		default:
			return struct {
				A int
				B string
				C []int
			}{rng.Intn(9), rStr(), []int{1, rng.Intn(5)}}, true
		}
	}
	rTs := func() *model.Timestamp {
		u32 := func() uint32 { return boundaryU32[rng.Intn(len(boundaryU32))] }
		if rng.Intn(2) == 0 {
			return model.NewTimestamp(0, uint64(rng.Intn(50)), cuidPool[rng.Intn(len(cuidPool))], uint32(rng.Intn(13)))
		}
		return model.NewTimestamp(u32(), boundaryU64[rng.Intn(len(boundaryU64))]&(1<<63-1), cuidPool[rng.Intn(len(cuidPool))], u32())
	}
	rTss := func() []*model.Timestamp {
		var l []*model.Timestamp
		for i := 0; i < rng.Intn(4); i++ {
			l = append(l, rTs())
		}
		return l
	}
	var cases []string
	for i := 0; i < n; i++ {
		nontriv := false
		nestedBig = false
		conv := func(raw interface{}) interface{} {
			v := types.ConvertToJSONSupportedValue(raw)
			// the sender executes with v, everybody else with what decoding yields: a scalar (of any Go width, or a
			// pointer to one) must already be the plain JSON scalar here
			rk := reflect.ValueOf(raw)
			for rk.Kind() == reflect.Ptr {
				rk = rk.Elem()
			}
			switch rk.Kind() {
			case reflect.Int, reflect.Int8, reflect.Int16, reflect.Int32, reflect.Int64, reflect.Uint, reflect.Uint8, reflect.Uint16, reflect.Uint32, reflect.Uint64, reflect.Float32, reflect.Float64:
				if _, ok := v.(float64); !ok {
					c.Violate("C14", "scalar-not-normalised", fmt.Sprintf("a value of Go type %T is kept as %T in the operation body: the sender executes with it while every receiver decodes a float64", raw, v), fmt.Sprintf("%T", raw))
				}
			case reflect.String:
				if _, ok := v.(string); !ok {
					c.Violate("C14", "scalar-not-normalised", fmt.Sprintf("a value of Go type %T is kept as %T in the operation body", raw, v), fmt.Sprintf("%T", raw))
				}
			case reflect.Bool:
				if _, ok := v.(bool); !ok {
					c.Violate("C14", "scalar-not-normalised", fmt.Sprintf("a value of Go type %T is kept as %T in the operation body", raw, v), fmt.Sprintf("%T", raw))
				}
			}
			return v
		}
		vals := func() ([]interface{}, string) {
			var l []interface{}
			var g []string
			for j := 0; j < rng.Intn(4); j++ {
				raw, nt := rVal(0)
				nontriv = nontriv || nt
				v := conv(raw)
				l = append(l, v)
				g = append(g, gValExact(v))
			}
			return l, gList(g)
		}
		id := &model.OperationID{Era: boundaryU32[rng.Intn(3)], Lamport: boundaryU64[rng.Intn(len(boundaryU64))] & (1<<63 - 1), CUID: cuidPool[rng.Intn(len(cuidPool))], Seq: uint64(rng.Intn(1000))}
		gid := gOpid(id)
		var op iface.Operation
		var gal string
		dtype := model.TypeOfDatatype_LIST
		switch rng.Intn(13) {
		case 0:
			tag := rStr()
			nops := rng.Intn(50) - 5
			t := operations.NewTransactionOperation(tag)
			t.SetNumOfOps(nops)
			op, gal = t, fmt.Sprintf("(OTx %s %s %s)", gid, gStr(tag), gZ(int64(nops)))
		case 1:
			d := int32(rng.Uint32())
			op, gal = operations.NewIncreaseOperation(d), fmt.Sprintf("(OInc %s %s)", gid, gZ(int64(d)))
			dtype = model.TypeOfDatatype_COUNTER
		case 2:
			raw, nt := rVal(0)
			nontriv = nt
			v := conv(raw)
			k := rStr()
			op, gal = operations.NewPutOperation(k, v), fmt.Sprintf("(OPut %s %s %s)", gid, gStr(k), gValExact(v))
			dtype = model.TypeOfDatatype_MAP
		case 3:
			k := rStr()
			op, gal = operations.NewRemoveOperation(k), fmt.Sprintf("(ORemove %s %s)", gid, gStr(k))
			dtype = model.TypeOfDatatype_MAP
		case 4:
			vs, g := vals()
			t := rTs()
			o := operations.NewInsertOperation(rng.Intn(5), vs)
			o.GetBody().T = t
			op, gal = o, fmt.Sprintf("(OIns %s %s %s)", gid, gTs(t), g)
		case 5:
			ts := rTss()
			o := operations.NewDeleteOperation(1, 2)
			o.GetBody().T = ts
			op, gal = o, fmt.Sprintf("(ODel %s %s)", gid, gTsList(ts))
		case 6:
			vs, g := vals()
			ts := rTss()
			o := operations.NewUpdateOperation(0, vs)
			o.GetBody().T = ts
			op, gal = o, fmt.Sprintf("(OUpd %s %s %s)", gid, gTsList(ts), g)
		case 7:
			raw, nt := rVal(0)
			nontriv = nt
			v := conv(raw)
			p, k := rTs(), rStr()
			op, gal = operations.NewDocPutInObjOperation(p, k, v), fmt.Sprintf("(ODocPut %s %s %s %s)", gid, gTs(p), gStr(k), gValExact(v))
			dtype = model.TypeOfDatatype_DOCUMENT
		case 8:
			p, k := rTs(), rStr()
			op, gal = operations.NewDocRemoveInObjOperation(p, k), fmt.Sprintf("(ODocRmv %s %s %s)", gid, gTs(p), gStr(k))
			dtype = model.TypeOfDatatype_DOCUMENT
		case 9:
			vs, g := vals()
			p, t := rTs(), rTs()
			o := operations.NewDocInsertToArrayOperation(p, 0, vs)
			o.GetBody().T = t
			op, gal = o, fmt.Sprintf("(ODocIns %s %s %s %s)", gid, gTs(p), gTs(t), g)
			dtype = model.TypeOfDatatype_DOCUMENT
		case 10:
			p, ts := rTs(), rTss()
			o := operations.NewDocDeleteInArrayOperation(p, 0, 1)
			o.GetBody().T = ts
			op, gal = o, fmt.Sprintf("(ODocDel %s %s %s)", gid, gTs(p), gTsList(ts))
			dtype = model.TypeOfDatatype_DOCUMENT
		case 11:
			vs, g := vals()
			p, ts := rTs(), rTss()
			o := operations.NewDocUpdateInArrayOperation(p, 0, vs)
			o.GetBody().T = ts
			op, gal = o, fmt.Sprintf("(ODocUpd %s %s %s %s)", gid, gTs(p), gTsList(ts), g)
			dtype = model.TypeOfDatatype_DOCUMENT
		default:
			raw, nt := rVal(0)
			nontriv = nt
			v := conv(raw)
			k := rStr()
			op, gal = operations.NewPutOperation(k, v), fmt.Sprintf("(OPut %s %s %s)", gid, gStr(k), gValExact(v))
			dtype = model.TypeOfDatatype_MAP
		}
		op.SetID(id)
		desc := fmt.Sprintf("%s", op)
		var mop, back *model.Operation
		var docName string
		pan, msg := guarded(func() {
			mop = op.ToModelOperation()
			// protobuf
			pb, err := proto.Marshal(mop)
			if err != nil {
				panic(err)
			}
			mop2 := &model.Operation{}
			if err := proto.Unmarshal(pb, mop2); err != nil {
				panic(err)
			}
			// MongoDB document
			doc := schema.NewOperationDoc(mop2, "duid", 7, 1)
			bs, err := bson.Marshal(doc)
			if err != nil {
				panic(err)
			}
			var doc2 schema.OperationDoc
			if err := bson.Unmarshal(bs, &doc2); err != nil {
				panic(err)
			}
			docName = doc2.OpType
			mop3 := doc2.GetOperation()
			op3 := operations.ModelToOperation(mop3)
			back = op3.ToModelOperation()
		})
		if pan {
			c.Violate("C14", "codec-panic", fmt.Sprintf("encoding/decoding %s panicked: %s", desc, msg), desc)
			continue
		}
		if !sameMop(mop, back) && nestedBig {
			c.Violate("C14", "nested-integer-beyond-2^53", fmt.Sprintf("%s: an integer beyond 2^53 inside a container value is sent exactly but decoded as the nearest float64: body %s came back as %s", desc, string(mop.Body), string(back.Body)), desc)
			c.Count("known-nested-big-integer")
			continue // the model's numbers are exact: such values are outside what it covers
		} else if !sameMop(mop, back) {
			c.Violate("C14", "roundtrip-differs", fmt.Sprintf("%s came back from wire+store as type %v id %s body %s (sent body %s)", desc, back.OpType, back.ID.ToString(), string(back.Body), string(mop.Body)), desc)
		}
		// the encoding-echo service
		var echo *model.EncodingMessage
		pan, msg = guarded(func() {
			var err error
			echo, err = svc.TestEncodingOperation(gocontext.TODO(), &model.EncodingMessage{Type: dtype, Op: proto.Clone(mop).(*model.Operation)})
			if err != nil {
				panic(err)
			}
		})
		if pan {
			c.Violate("C14", "echo-panic", fmt.Sprintf("the encoding-echo service panicked or failed on %s: %s", desc, msg), desc)
		} else if !sameMop(mop, echo.Op) {
			c.Violate("C14", "echo-differs", fmt.Sprintf("echo of %s: type %v id %s body %s (sent %s)", desc, echo.Op.OpType, echo.Op.ID.ToString(), string(echo.Op.Body), string(mop.Body)), desc)
		}
		cases = append(cases, fmt.Sprintf("mkCcase %s %s %s %s", gal, gN(uint64(mop.OpType)), gJSONBytes(mop.Body), gStr(docName)))
		c.Count("type-" + mop.OpType.String())
		c.Distinct(desc, nontriv)
		c.Sample(desc)
	}
	c.Res.Cases = len(cases)
	c.WriteCases("Codec", "Base Time Ops Codec CheckCodec", "ccase", "check_ccase", cases, 400)
}
