package main

// Slice concsrv-<kind> (C12): the real OrdaService is called from many goroutines at the same moment — every client
// sends one message with the packs of all its datatypes (the server fans the packs of a message out to goroutines
// itself), each call with its own context that is cancelled when the call returns, as gRPC does.  Afterwards the
// one-at-a-time order is read off the responses (the log position each reports) and the round is replayed in that
// order on the sequential model of the server; the stored collections, the C06 log oracle, the C11 snapshot oracle
// and, at quiescence, the equality of all clients and the server's rebuilt copy are checked; a watchdog detects
// requests that never return.  Built with -race, the race detector's reports that touch server code are violations.

import (
	gocontext "context"
	"fmt"
	"runtime"
	"sort"
	"strings"
	"sync"
	"time"

	"github.com/orda-io/orda/client/pkg/model"
)

func init() {
	slices["concsrv-counter"] = func(c *Ctx) { sliceConcSrv(c, "counter") }
	slices["concsrv-map"] = func(c *Ctx) { sliceConcSrv(c, "map") }
	slices["concsrv-list"] = func(c *Ctx) { sliceConcSrv(c, "list") }
}

type roundItem struct {
	x    *wdt
	req  *model.PushPullPack
	resp *model.PushPullPack
}

// round: every chosen client syncs all its datatypes now, all clients at the same moment
func (w *wworld) round(clients []*wclient) bool {
	type call struct {
		wc   *wclient
		msg  *model.PushPullMessage
		reqs map[string]*model.PushPullPack
		xs   map[string]*wdt
		resp *model.PushPullMessage
		err  error
	}
	var calls []*call
	for _, wc := range clients {
		cl := &call{wc: wc, reqs: map[string]*model.PushPullPack{}, xs: map[string]*wdt{}}
		var packs []*model.PushPullPack
		keys := make([]string, 0, len(wc.dts))
		for k := range wc.dts {
			keys = append(keys, k)
		}
		sort.Strings(keys)
		for _, k := range keys {
			x := wc.dts[k]
			p := x.rep.dt.CreatePushPullPack()
			packs = append(packs, cloneP(p))
			cl.reqs[k] = cloneP(p)
			cl.xs[k] = x
		}
		if len(packs) == 0 {
			continue
		}
		cl.msg = &model.PushPullMessage{Header: model.NewMessageHeader(model.RequestType_PUSHPULLS), Collection: wc.col, Cuid: wc.cuid, PushPullPacks: packs}
		calls = append(calls, cl)
	}
	if len(calls) < 2 {
		return true
	}
	base := runtime.NumGoroutine()
	var wg sync.WaitGroup
	start := make(chan struct{})
	// varied timing: in half of the rounds the calls are staggered by 0..4 ms (drawn from the run's PRNG), so that a
	// request can arrive while an earlier one holds the lock and a still earlier one has just released it
	stagger := w.c.Rng.Intn(2) == 0
	steps := []time.Duration{0, 0, 100 * time.Microsecond, 300 * time.Microsecond, 700 * time.Microsecond, 1500 * time.Microsecond, 2500 * time.Microsecond, 4 * time.Millisecond}
	if stagger {
		w.c.Count("rounds-staggered")
	}
	for _, cl := range calls {
		wg.Add(1)
		var delay time.Duration
		if stagger {
			delay = steps[w.c.Rng.Intn(len(steps))]
		}
		go func(cl *call, delay time.Duration) {
			defer wg.Done()
			ctx, cancel := gocontext.WithCancel(gocontext.Background())
			<-start
			if delay > 0 {
				time.Sleep(delay)
			}
			cl.resp, cl.err = w.e.svc.ProcessPushPull(ctx, cl.msg)
			cancel() // as gRPC does when the call returns
		}(cl, delay)
	}
	close(start)
	done := make(chan struct{})
	go func() { wg.Wait(); close(done) }()
	select {
	case <-done:
	case <-time.After(20 * time.Second):
		w.c.Violate("C12", "request-not-answered", fmt.Sprintf("%d simultaneous push-pull requests: not all returned within 20s", len(calls)), w.desc)
		panic("request not answered")
	}
	w.settle(base)
	var items []roundItem
	for _, cl := range calls {
		if cl.err != nil {
			w.c.Violate("C12", "rpc-error-under-concurrency", fmt.Sprintf("a registered client got an RPC error for a regular sync sent together with %d others: %v", len(calls)-1, cl.err), w.desc)
			panic("rpc error")
		}
		if len(cl.resp.PushPullPacks) != len(cl.reqs) {
			w.c.Violate("C12", "pack-not-answered", fmt.Sprintf("a message with %d packs was answered with %d", len(cl.reqs), len(cl.resp.PushPullPacks)), w.desc)
			panic("pack not answered")
		}
		for _, rp := range cl.resp.PushPullPacks {
			x := cl.xs[rp.Key]
			if x == nil {
				w.c.Violate("C12", "pack-not-answered", fmt.Sprintf("response names key %q which was not asked for", rp.Key), w.desc)
				panic("foreign key in response")
			}
			items = append(items, roundItem{x, cl.reqs[rp.Key], rp})
			if rp.GetPushPullPackOption().HasErrorBit() {
				w.c.Count("round-refusals")
				for _, o := range rp.Operations {
					if strings.Contains(string(o.Body), "fail to lock") {
						w.c.Violate("C12", "lock-not-obtained", fmt.Sprintf("a sync of key %q sent together with %d others was refused because its lock could not be obtained", rp.Key, len(calls)-1), w.desc)
					}
				}
			}
		}
	}
	// the one-at-a-time order: by the log position the response reports; at equal positions a request that carried
	// operations stands before one that only pulled
	cls := func(it roundItem) int {
		// did the server store operations of this request (its answer acknowledges more than the client had acknowledged)?
		if !it.resp.GetPushPullPackOption().HasErrorBit() && it.resp.CheckPoint.Cseq+uint64(len(it.req.Operations)) > it.req.CheckPoint.Cseq {
			return 0
		}
		return 1
	}
	sort.SliceStable(items, func(i, j int) bool {
		a, b := items[i], items[j]
		if a.resp.CheckPoint.Sseq != b.resp.CheckPoint.Sseq {
			return a.resp.CheckPoint.Sseq < b.resp.CheckPoint.Sseq
		}
		return cls(a) < cls(b)
	})
	after := w.dbDigest()
	after.gal = strings.TrimSuffix(strings.TrimSpace(after.gal), ")")
	after.gal = after.gal[:strings.LastIndex(after.gal, " ")] + " false)" // snapshot updates raced: the model adopts the observed ones
	w.checkLog(after)
	w.checkSnapshots()
	var gi []string
	for _, it := range items {
		gi = append(gi, fmt.Sprintf("(%s, %s, %s, %s)", gStr(it.x.owner.col), gStr(it.x.owner.cuid), gPpp(it.req), gPpp(it.resp)))
	}
	w.evs = append(w.evs, fmt.Sprintf("WRound %s %s", gList(gi), after.gal))
	w.desc = append(w.desc, fmt.Sprintf("%d clients sync %d datatypes at the same moment", len(calls), len(items)))
	w.c.Count("ev-round")
	w.c.CountN("round-requests", len(items))
	pushing := 0
	for _, it := range items {
		if len(it.req.Operations) > 0 {
			pushing++
		}
	}
	if pushing >= 2 {
		w.nontriv = true
	}
	for _, it := range items {
		w.applyRespAs(it.x, it.resp, "answer of a concurrent round", false)
	}
	return true
}

func sliceConcSrv(c *Ctx, kind string) {
	n := c.N
	if n == 0 {
		n = 30
	}
	c.Res.Rule = "3..8 real clients (manual sync) in 1..2 collections on 1..3 keys of one " + kind + "; after a sequential start (create/subscribe), rounds in which local calls are made everywhere and then ALL clients call ProcessPushPull at the same moment or, in half of the rounds, staggered by 0..4 ms, each message carrying the packs of all the client's datatypes and its own context cancelled on return; the one-at-a-time order is read off the responses and the round is replayed on the sequential server model (responses, stored collections), then the answers are applied by the clients; C06/C11 oracles after every round, equality of clients and server copy at quiescence, 20s watchdog; non-trivial = at least two requests of a round carried operations"
	var cases []string
	ty := map[string]string{"counter": "ccall", "map": "mcall", "list": "lcall"}[kind]
	for h := 0; h < n; h++ {
		w := &wworld{c: c, e: getEnv(), kind: kind, inRound: true}
		p, msg := guarded(func() {
			ncol := 1 + c.Rng.Intn(2)
			for i := 0; i < ncol; i++ {
				name := fmt.Sprintf("col%d", i)
				w.cols = append(w.cols, name)
				if _, err := w.e.svc.CreateCollection(gocontext.TODO(), &model.CollectionMessage{Collection: name}); err != nil {
					panic(err)
				}
				w.evs = append(w.evs, fmt.Sprintf("WCollection %s", gStr(name)))
			}
			ncl := 3 + c.Rng.Intn(6)
			// key names never used before in this process: the server keeps its per-key locks by name for its lifetime, so
			// only a new name exercises the first use of a lock by simultaneous requests
			keys := []string{fmt.Sprintf("k%d", h), fmt.Sprintf("j%d", h), fmt.Sprintf("i%d", h)}[:1+c.Rng.Intn(3)]
			for i := 0; i < ncl; i++ {
				wc := w.newClient(w.cols[c.Rng.Intn(ncol)])
				first := true
				for _, key := range keys {
					if !first && c.Rng.Intn(2) == 0 {
						continue
					}
					w.newDt(wc, key, 2) // subscribe-or-create: whoever comes first creates
					if first {
						if _, err := w.e.svc.ProcessClient(gocontext.TODO(), model.NewClientMessage(wc.cm)); err != nil {
							panic(err)
						}
						w.evs = append(w.evs, fmt.Sprintf("WClient %s %s None", gStr(wc.col), gStr(wc.cuid)))
					}
					first = false
				}
			}
			// a sequential start for some, the others join in the first concurrent round; in a cold start nobody goes first:
			// all first requests on the new keys arrive at the same moment
			if cold := c.Rng.Intn(2) == 0; cold {
				c.Count("cold-start")
			} else {
				for _, x := range w.dts {
					if c.Rng.Intn(2) == 0 {
						w.sync(x, 0)
					}
				}
			}
			rounds := 2 + c.Rng.Intn(4)
			for r := 0; r < rounds; r++ {
				for _, x := range w.dts {
					for k := c.Rng.Intn(3); k > 0; k-- {
						w.cur = "local"
						w.local(x)
					}
				}
				// a key nobody has used yet: several clients ask for it (subscribe-or-create) for the first time in this round
				if c.Rng.Intn(2) == 0 {
					fresh := fmt.Sprintf("n%d_%d", h, r)
					k := 0
					for _, wc := range w.clients {
						if wc.dts[fresh] == nil && c.Rng.Intn(4) != 0 {
							w.newDt(wc, fresh, 2)
							k++
						}
					}
					if k >= 2 {
						c.Count("round-with-new-key")
					}
				}
				w.cur = "round"
				var part []*wclient
				for _, wc := range w.clients {
					if c.Rng.Intn(5) != 0 {
						part = append(part, wc)
					}
				}
				w.round(part)
			}
			w.cur = "quiesce"
			w.concurrent = true
			w.quiesce()
		})
		if p {
			c.Count("history-ended-by-panic")
			if !strings.Contains(msg, "not answered") && !strings.Contains(msg, "rpc error") && !strings.Contains(msg, "response") {
				c.Violate("C12", "harness-panic-"+w.cur, "panic while driving the implementation: "+msg, w.desc)
			}
			theEnv = nil
			continue
		}
		// the model replays the history inside coqc; a history whose events exceed 4 MB of Gallina text (many clients, keys and
		// large batches: every sync carries the whole backlog) costs minutes and gigabytes there.  Such a history is still
		// judged by the Go oracles above; it is counted and left out of the case file.
		if evs := strings.Join(w.evs, ";\n     "); len(evs) > 4<<20 {
			c.Count("history-too-large-for-model-replay")
		} else {
			cases = append(cases, "[\n     "+evs+"]")
		}
		c.Distinct(strings.Join(w.desc, "|"), w.nontriv)
		c.Sample(map[string]interface{}{"kind": kind, "script": w.desc})
	}
	c.Res.Cases = len(cases)
	c.WriteCases("ConcSrv_"+kind, "Base Time Ops Counter Map List Snapshot Datatype Replicas CheckCrdt Server SnapSrv Wire Net CheckWire", "(list (wev "+ty+"))", "check_wire_"+kind, cases, 3)
}
