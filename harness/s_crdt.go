package main

import (
	"bytes"
	"encoding/json"
	"fmt"
	"sort"
	"strconv"
	"strings"
	"time"

	"github.com/orda-io/orda/client/pkg/iface"
	"github.com/orda-io/orda/client/pkg/model"
	"github.com/orda-io/orda/client/pkg/operations"
	"github.com/orda-io/orda/client/pkg/orda"
)

// S-crdt-{counter,map,list}: N real replicas of one datatype, the harness playing the
// reference log server: push appends a replica's pending operations to one total log,
// deliver hands a replica the next log entries (foreign ones applied in log order).

func init() {
	slices["crdt-counter"] = func(c *Ctx) { sliceCrdt(c, "counter") }
	slices["crdt-map"] = func(c *Ctx) { sliceCrdt(c, "map") }
	slices["crdt-list"] = func(c *Ctx) { sliceCrdt(c, "list") }
}

// ---------- values ----------

// gVal renders a Go JSON-ish value (after a JSON round trip) as a Gallina [val].
func gVal(v interface{}) string {
	b, err := json.Marshal(v)
	if err != nil {
		panic(err)
	}
	dec := json.NewDecoder(bytes.NewReader(b))
	dec.UseNumber()
	var x interface{}
	if err := dec.Decode(&x); err != nil {
		panic(err)
	}
	return gValParsed(x)
}

func gValParsed(x interface{}) string {
	switch t := x.(type) {
	case json.Number:
		s := t.String()
		if strings.ContainsAny(s, ".eE") {
			panic("non-integer number in harness value: " + s)
		}
		if strings.HasPrefix(s, "-") {
			return "(VNum (" + s + ")%Z)"
		}
		return "(VNum " + s + "%Z)"
	case string:
		return "(VStr " + gStr(t) + ")"
	case bool:
		return "(VBool " + gBool(t) + ")"
	case []interface{}:
		items := make([]string, len(t))
		for i, e := range t {
			items[i] = gValParsed(e)
		}
		return "(VArr " + gList(items) + ")"
	case map[string]interface{}:
		keys := make([]string, 0, len(t))
		for k := range t {
			keys = append(keys, k)
		}
		sort.Strings(keys)
		items := make([]string, len(keys))
		for i, k := range keys {
			items[i] = gPair(gStr(k), gValParsed(t[k]))
		}
		return "(VObj " + gList(items) + ")"
	case nil:
		return "(VStr [60;110;105;108;62]%N)" // "<nil>": orda values are never null; rendered so that it differs from every real value
	}
	panic(fmt.Sprintf("unsupported value %T", x))
}

func gVals(vs []interface{}) string {
	items := make([]string, len(vs))
	for i, v := range vs {
		items[i] = gVal(v)
	}
	return gList(items)
}

func gTsList(ts []*model.Timestamp) string {
	items := make([]string, len(ts))
	for i, t := range ts {
		items[i] = gTs(t)
	}
	return gList(items)
}

// gOp renders a wire operation as a Gallina [op], decoding the body with the implementation's own decoder.
func gOp(mop *model.Operation) string {
	id := gOpid(mop.ID)
	op := operations.ModelToOperation(mop)
	switch o := op.(type) {
	case *operations.SnapshotOperation:
		return "(OSnap " + id + ")"
	case *operations.TransactionOperation:
		return fmt.Sprintf("(OTx %s %s %s)", id, gStr(o.GetBody().Tag), gZ(int64(o.GetBody().NumOfOps)))
	case *operations.IncreaseOperation:
		return fmt.Sprintf("(OInc %s %s)", id, gZ(int64(o.GetBody())))
	case *operations.PutOperation:
		return fmt.Sprintf("(OPut %s %s %s)", id, gStr(o.GetBody().Key), gVal(o.GetBody().Value))
	case *operations.RemoveOperation:
		return fmt.Sprintf("(ORemove %s %s)", id, gStr(o.GetBody().Key))
	case *operations.InsertOperation:
		t := o.GetBody().T
		if t == nil {
			t = &model.Timestamp{}
		}
		return fmt.Sprintf("(OIns %s %s %s)", id, gTs(t), gVals(o.GetBody().V))
	case *operations.DeleteOperation:
		return fmt.Sprintf("(ODel %s %s)", id, gTsList(o.GetBody().T))
	case *operations.UpdateOperation:
		return fmt.Sprintf("(OUpd %s %s %s)", id, gTsList(o.GetBody().T), gVals(o.GetBody().V))
	case *operations.DocPutInObjOperation:
		return fmt.Sprintf("(ODocPut %s %s %s %s)", id, gTs(o.GetBody().P), gStr(o.GetBody().K), gVal(o.GetBody().V))
	case *operations.DocRemoveInObjOperation:
		return fmt.Sprintf("(ODocRmv %s %s %s)", id, gTs(o.GetBody().P), gStr(o.GetBody().K))
	case *operations.DocInsertToArrayOperation:
		t := o.GetBody().T
		if t == nil {
			t = &model.Timestamp{}
		}
		return fmt.Sprintf("(ODocIns %s %s %s %s)", id, gTs(o.GetBody().P), gTs(t), gVals(o.GetBody().V))
	case *operations.DocDeleteInArrayOperation:
		return fmt.Sprintf("(ODocDel %s %s %s)", id, gTs(o.GetBody().P), gTsList(o.GetBody().T))
	case *operations.DocUpdateInArrayOperation:
		return fmt.Sprintf("(ODocUpd %s %s %s %s)", id, gTs(o.GetBody().P), gTsList(o.GetBody().T), gVals(o.GetBody().V))
	}
	panic(fmt.Sprintf("gOp: unsupported operation %T", op))
}

func gOps(ops []*model.Operation) string {
	items := make([]string, len(ops))
	for i, o := range ops {
		items[i] = gOp(o)
	}
	return gList(items)
}

// ---------- replicas ----------

type replica struct {
	idx    int
	cuid   string
	kind   string
	dt     iface.Datatype
	ctr    orda.Counter
	mp     orda.Map
	li     orda.List
	doc    orda.Document
	cursor int    // log position
	cseq   uint64 // acknowledged own operations
	// bookkeeping for oracles
	seenOwn int    // own operations seen so far (seq of the newest)
	ownIDs  map[int]string // seq -> identifier and type of the own operation seen with that sequence number
	maxLam  uint64 // greatest lamport of any operation applied here
}

func typeOf(kind string) model.TypeOfDatatype {
	switch kind {
	case "counter":
		return model.TypeOfDatatype_COUNTER
	case "map":
		return model.TypeOfDatatype_MAP
	case "list":
		return model.TypeOfDatatype_LIST
	}
	return model.TypeOfDatatype_DOCUMENT
}

func newReplica(idx int, kind string, create bool) *replica {
	cl := orda.NewClient(orda.NewLocalClientConfig("col"), fmt.Sprintf("c%d", idx))
	r := &replica{idx: idx, kind: kind}
	var d interface{}
	switch kind {
	case "counter":
		if create {
			r.ctr = cl.CreateCounter("k", nil)
		} else {
			r.ctr = cl.SubscribeCounter("k", nil)
		}
		d = r.ctr
	case "map":
		if create {
			r.mp = cl.CreateMap("k", nil)
		} else {
			r.mp = cl.SubscribeMap("k", nil)
		}
		d = r.mp
	case "list":
		if create {
			r.li = cl.CreateList("k", nil)
		} else {
			r.li = cl.SubscribeList("k", nil)
		}
		d = r.li
	}
	r.dt = d.(iface.Datatype)
	r.cuid = r.dt.GetCUID()
	return r
}

func (r *replica) view() (string, string) {
	v := r.dt.GetSnapshot().ToJSON()
	var size int64
	switch r.kind {
	case "counter":
		size = int64(r.ctr.Get())
	case "map":
		size = int64(r.mp.Size())
	case "list":
		size = int64(r.li.Size())
	}
	return gVal(v), gZ(size)
}

func (r *replica) viewJSON() string {
	b, _ := json.Marshal(r.dt.GetSnapshot().ToJSON())
	return string(b)
}

type logEntry struct {
	op     *model.Operation
	author int
}

type world struct {
	c    *Ctx
	kind string
	reps []*replica
	log  []logEntry
	evs  []string
	desc []string // human-readable script, for samples/replays
	// stats
	conflict bool
	cur      string                  // kind of the event being executed
	broken   bool                    // a replica left the log discipline (end of history)
	seenGone map[int]map[string]bool // C04: per replica, tags that were readable and then were not
	present  map[int]map[string]bool
	order    map[[2]string]bool // C04: relative order of two tags, wherever both were readable
}

func newWorld(c *Ctx, kind string, n int) *world {
	w := &world{c: c, kind: kind}
	for i := 0; i < n; i++ {
		w.reps = append(w.reps, newReplica(i, kind, i == 0))
	}
	// subscribers join at log position 1 with the creator's initial snapshot
	_, snap, err := w.reps[0].dt.GetMetaAndSnapshot()
	if err != nil {
		panic(err)
	}
	for i := 1; i < n; i++ {
		sop := operations.NewSnapshotOperation(typeOf(kind), snap)
		pack := &model.PushPullPack{
			Key: "k", DUID: w.reps[0].dt.GetDUID(), Option: uint32(model.PushPullBitSubscribe),
			CheckPoint: &model.CheckPoint{Sseq: 1, Cseq: 0}, Era: 0, Type: typeOf(kind),
			Operations: []*model.Operation{sop.ToModelOperation()},
		}
		w.reps[i].dt.ApplyPushPullPack(pack)
		w.reps[i].cursor = 1
		w.reps[i].maxLam = 0
	}
	// the creator's snapshot operation is log entry 1
	w.push(0)
	return w
}

// pendingOps = operations not yet acknowledged
func (r *replica) pendingOps() []*model.Operation {
	return r.dt.CreatePushPullPack().Operations
}

// ---------- oracles evaluated on the implementation alone ----------

// noteOwnOps checks C15 on the operations issued since the last look.
func (w *world) noteOwnOps(r *replica) {
	ops := r.pendingOps()
	if r.ownIDs == nil {
		r.ownIDs = map[int]string{}
	}
	for i, o := range ops {
		seq := int(o.ID.Seq)
		id := fmt.Sprintf("%d:%d:%s:%d/%v", o.ID.Era, o.ID.Lamport, o.ID.CUID, o.ID.Seq, o.OpType)
		if i > 0 && o.ID.Seq <= ops[i-1].ID.Seq {
			w.c.Violate("C15", "seq-not-increasing", fmt.Sprintf("%s replica %d holds pending operations with sequence numbers %d then %d", w.kind, r.idx, ops[i-1].ID.Seq, o.ID.Seq), w.desc)
		}
		if seq <= r.seenOwn {
			// an operation seen before keeps its identifier; a different operation under a used sequence number is a reuse
			if old, ok := r.ownIDs[seq]; ok && old != id {
				w.c.Violate("C15", "identifier-reused", fmt.Sprintf("%s replica %d: sequence number %d was issued to %s and is now carried by %s", w.kind, r.idx, seq, old, id), w.desc)
			}
			continue
		}
		r.ownIDs[seq] = id
		if seq != r.seenOwn+1 {
			w.c.Violate("C15", "seq-gap", fmt.Sprintf("%s replica %d issued operation seq %d after seq %d", w.kind, r.idx, seq, r.seenOwn), w.desc)
		}
		if o.ID.Lamport <= r.maxLam {
			w.c.Violate("C15", "clock-not-dominating", fmt.Sprintf("%s replica %d issued operation with lamport %d although it has applied lamport %d", w.kind, r.idx, o.ID.Lamport, r.maxLam), w.desc)
		}
		if o.ID.CUID != r.cuid {
			w.c.Violate("C15", "foreign-cuid", "own operation carries a foreign client id", w.desc)
		}
		r.seenOwn = seq
		r.maxLam = o.ID.Lamport
	}
}

// appliedVector: how many operations of each author this replica has applied
func (w *world) appliedVector(r *replica) string {
	v := make([]int, len(w.reps))
	for i := 0; i < r.cursor && i < len(w.log); i++ {
		if w.log[i].author != r.idx {
			v[w.log[i].author]++
		}
	}
	v[r.idx] = r.seenOwn
	return fmt.Sprint(v)
}

// checkConvergence: C01 — replicas with equal applied sets expose identical state
func (w *world) checkConvergence() {
	for i := 0; i < len(w.reps); i++ {
		for j := i + 1; j < len(w.reps); j++ {
			a, b := w.reps[i], w.reps[j]
			if w.appliedVector(a) != w.appliedVector(b) {
				continue
			}
			w.c.Count("quiescent-pair-comparisons")
			va, sa := a.view()
			vb, sb := b.view()
			if va != vb || sa != sb {
				w.c.Violate("C01", "divergence-"+w.kind, fmt.Sprintf("%s replicas %d and %d have applied the same operations %s but expose %s (size %s) vs %s (size %s)", w.kind, i, j, w.appliedVector(a), a.viewJSON(), sa, b.viewJSON(), sb), w.desc)
			}
		}
	}
}

// checkElements: C04 — on every replica after every step: no tag twice, a tag that disappeared never
// comes back, and two tags stand in the same relative order on every replica at every moment
func (w *world) checkElements() {
	if w.kind != "list" {
		return
	}
	if w.seenGone == nil {
		w.seenGone, w.present, w.order = map[int]map[string]bool{}, map[int]map[string]bool{}, map[[2]string]bool{}
	}
	for _, r := range w.reps {
		if w.seenGone[r.idx] == nil {
			w.seenGone[r.idx], w.present[r.idx] = map[string]bool{}, map[string]bool{}
		}
		raw, _ := r.dt.GetSnapshot().ToJSON().([]interface{})
		var tags []string
		now := map[string]bool{}
		for _, v := range raw {
			t := fmt.Sprint(v)
			if now[t] {
				w.c.Violate("C04", "element-duplicated", fmt.Sprintf("replica %d shows element %s twice: %s", r.idx, t, r.viewJSON()), w.desc)
			}
			now[t] = true
			tags = append(tags, t)
			if w.seenGone[r.idx][t] {
				w.c.Violate("C04", "element-resurrected", fmt.Sprintf("replica %d shows element %s again after it had disappeared there: %s", r.idx, t, r.viewJSON()), w.desc)
			}
		}
		for t := range w.present[r.idx] {
			if !now[t] {
				w.seenGone[r.idx][t] = true
			}
		}
		w.present[r.idx] = now
		for i := 0; i < len(tags); i++ {
			for j := i + 1; j < len(tags); j++ {
				a, b := tags[i], tags[j]
				if before, ok := w.order[[2]string{b, a}]; ok && before {
					w.c.Violate("C04", "elements-reordered", fmt.Sprintf("replica %d shows %s before %s, but %s stood before %s at another replica or moment", r.idx, a, b, b, a), w.desc)
				}
				w.order[[2]string{a, b}] = true
			}
		}
	}
	w.c.Count("element-observations")
}

// checkOutcome: C02 — once every replica has every operation of the log, each exposes exactly the
// outcome the specification assigns to that SET of operations (spec.go)
func (w *world) checkOutcome() {
	var ops []*model.Operation
	for _, e := range w.log {
		ops = append(ops, e.op)
	}
	want := specOutcome(w.kind, ops)
	for _, r := range w.reps {
		if r.cursor != len(w.log) || len(r.pendingOps()) != 0 {
			return
		}
	}
	for _, r := range w.reps {
		if got := canon(r.dt.GetSnapshot().ToJSON()); got != want {
			w.c.Violate("C02", "wrong-outcome-"+w.kind, fmt.Sprintf("%s replica %d exposes %s; the operations it has applied determine %s", w.kind, r.idx, got, want), w.desc)
		}
	}
	w.c.Count("outcomes-compared-with-spec")
}

// ---------- snapshots (C10) ----------

func gOptVal(v interface{}) string {
	if v == nil {
		return "None"
	}
	return gSome(gVal(v))
}

func gTsJSON(m map[string]interface{}) string {
	u := func(k string) uint64 {
		if n, ok := m[k].(json.Number); ok {
			x, _ := strconv.ParseUint(n.String(), 10, 64)
			return x
		}
		return 0
	}
	c, _ := m["c"].(string)
	return fmt.Sprintf("(mkTs %s %s %s %s)", gN(u("e")), gN(u("l")), gStr(c), gN(u("d")))
}

// gSnapshot renders the bytes of json.Marshal(snapshot) as a Gallina [jsnap]
func gSnapshot(kind string, snap []byte) string {
	dec := json.NewDecoder(bytes.NewReader(snap))
	dec.UseNumber()
	var x map[string]interface{}
	if err := dec.Decode(&x); err != nil {
		panic(err)
	}
	num := func(v interface{}) string {
		n, _ := v.(json.Number)
		z, _ := strconv.ParseInt(n.String(), 10, 64)
		return gZ(z)
	}
	tsOf := func(v interface{}) string {
		m, _ := v.(map[string]interface{})
		if m == nil {
			m = map[string]interface{}{}
		}
		return gTsJSON(m)
	}
	switch kind {
	case "counter":
		return "(JCounter " + num(x["Counter"]) + ")"
	case "map":
		mm, _ := x["Map"].(map[string]interface{})
		keys := make([]string, 0, len(mm))
		for k := range mm {
			keys = append(keys, k)
		}
		sort.Strings(keys)
		items := []string{}
		for _, k := range keys {
			e, _ := mm[k].(map[string]interface{})
			items = append(items, fmt.Sprintf("(%s, (%s, %s))", gStr(k), gOptValParsed(e["v"]), tsOf(e["t"])))
		}
		return fmt.Sprintf("(JMap %s %s)", gList(items), num(x["Size"]))
	}
	nodes, _ := x["Nodes"].([]interface{})
	items := []string{}
	for _, n := range nodes {
		e, _ := n.(map[string]interface{})
		items = append(items, fmt.Sprintf("(%s, %s, %s)", gOptValParsed(e["V"]), tsOf(e["T"]), tsOf(e["O"])))
	}
	return fmt.Sprintf("(JList %s %s)", gList(items), num(x["Size"]))
}

func gOptValParsed(v interface{}) string {
	if v == nil {
		return "None"
	}
	return gSome(gValParsed(v))
}

// snapshotCheck: export meta+snapshot of replica r, record it for the model, import it into a fresh
// object and run original and restored side by side on a continuation (C10 oracle)
func (w *world) snapshotCheck(ri int) {
	r := w.reps[ri]
	meta, snap, err := r.dt.GetMetaAndSnapshot()
	if err != nil {
		w.c.Violate("C10", "export-failed", fmt.Sprint(err), w.desc)
		return
	}
	var m struct {
		OpID *model.OperationID `json:"opID"`
	}
	_ = json.Unmarshal(meta, &m)
	if m.OpID == nil {
		m.OpID = &model.OperationID{}
	}
	w.evs = append(w.evs, fmt.Sprintf("ESnap %s %s %s", gNat(ri), gSnapshot(w.kind, snap), gOpid(m.OpID)))
	w.desc = append(w.desc, fmt.Sprintf("snapshot r%d", ri))
	w.c.Count("ev-snapshot")
	// restore into a fresh object
	fresh := newReplica(100+ri, w.kind, true)
	if err := fresh.dt.SetMetaAndSnapshot(meta, snap); err != nil {
		w.c.Violate("C10", "import-failed", fmt.Sprint(err), w.desc)
		return
	}
	if fresh.viewJSON() != r.viewJSON() {
		w.c.Violate("C10", "restored-view-differs-"+w.kind, fmt.Sprintf("%s: original reads %s, restored %s", w.kind, r.viewJSON(), fresh.viewJSON()), w.desc)
	}
	_, snap2, _ := fresh.dt.GetMetaAndSnapshot()
	if gSnapshot(w.kind, snap2) != gSnapshot(w.kind, snap) {
		w.c.Violate("C10", "reexport-differs-"+w.kind, fmt.Sprintf("%s: exporting the restored instance gives %s instead of %s", w.kind, string(snap2), string(snap)), w.desc)
	}
	// continuation on a CLONE of the original (restored from the same bytes into another object would hide
	// a defective export; so the original itself continues) and on the restored instance: the same remote
	// operations, addressed at everything the snapshot contains
	other := w.reps[(ri+1)%len(w.reps)]
	var cont []*model.Operation
	before := len(other.pendingOps())
	for k := 0; k < 6; k++ {
		cs := w.rndCall(other)
		_, _ = cs.run(other)
	}
	cont = other.pendingOps()[before:]
	// deliver other's continuation to both (as whole units)
	if len(cont) > 0 {
		_, e1 := r.dt.ReceiveRemoteModelOperations(cont, false)
		_, e2 := fresh.dt.ReceiveRemoteModelOperations(cont, false)
		if (e1 == nil) != (e2 == nil) || r.viewJSON() != fresh.viewJSON() {
			w.c.Violate("C10", "continuation-differs-"+w.kind, fmt.Sprintf("%s: after the same %d remote operations the original reads %s and the restored instance %s", w.kind, len(cont), r.viewJSON(), fresh.viewJSON()), w.desc)
		}
		_, s1, _ := r.dt.GetMetaAndSnapshot()
		_, s2, _ := fresh.dt.GetMetaAndSnapshot()
		if gSnapshot(w.kind, s1) != gSnapshot(w.kind, s2) {
			w.c.Violate("C10", "continuation-snapshot-differs-"+w.kind, fmt.Sprintf("%s: after the same remote operations the snapshots differ", w.kind), w.desc)
		}
		w.c.Count("continuations-compared")
	}
	// the model must follow: r received other's unpushed operations out of band
	w.evs = append(w.evs, fmt.Sprintf("ERecv %s %s %s %s %s", gNat(ri), gOps(cont), gBool(true), func() string { v, _ := r.view(); return v }(), func() string { _, s := r.view(); return s }()))
	w.desc = append(w.desc, fmt.Sprintf("r%d and its restored copy receive %d operations of r%d", ri, len(cont), other.idx))
	w.broken = true // r has applied operations that are not in the log yet: the history ends here
	// ... and the same LOCAL calls on both (the model is not told: the history has ended; original against restored):
	// plain calls, valid and invalid, then a user transaction that is aborted, then one more call
	w.localContinuation(r, fresh)
}

// localContinuation runs the same local calls on the original and on the instance restored from its snapshot and
// compares outcome, readable state, size and exported snapshot after each (C10: every later LOCAL operation too)
func (w *world) localContinuation(r, fresh *replica) {
	same := func(what string) bool {
		v1, s1 := r.view()
		v2, s2 := fresh.view()
		if v1 != v2 || s1 != s2 {
			w.c.Violate("C10", "local-continuation-differs-"+w.kind, fmt.Sprintf("%s: after %s the original reads %s (size %s) and the restored instance %s (size %s)", w.kind, what, r.viewJSON(), s1, fresh.viewJSON(), s2), w.desc)
			return false
		}
		_, e1, _ := r.dt.GetMetaAndSnapshot()
		_, e2, _ := fresh.dt.GetMetaAndSnapshot()
		if gSnapshot(w.kind, e1) != gSnapshot(w.kind, e2) {
			w.c.Violate("C10", "local-continuation-snapshot-differs-"+w.kind, fmt.Sprintf("%s: after %s the snapshots of the original and of the restored instance differ: %s vs %s", w.kind, what, string(e1), string(e2)), w.desc)
			return false
		}
		return true
	}
	both := func(cs callSpec) bool {
		var r1, r2 string
		var e1, e2 error
		p1, _ := guarded(func() { r1, e1 = cs.run(r) })
		p2, _ := guarded(func() { r2, e2 = cs.run(fresh) })
		w.c.Count("local-continuation-calls")
		if obsOf(r1, e1, p1) != obsOf(r2, e2, p2) {
			w.c.Violate("C10", "local-continuation-outcome-differs-"+w.kind, fmt.Sprintf("%s: %s gives %s on the original and %s on the restored instance", w.kind, cs.desc, obsOf(r1, e1, p1), obsOf(r2, e2, p2)), w.desc)
			return false
		}
		return same(cs.desc)
	}
	for k := 0; k < 3; k++ {
		if !both(w.rndCall(r)) {
			return
		}
	}
	// an aborted user transaction on both
	inner := []callSpec{w.rndCall(r), w.rndCall(r)}
	abort := func(x *replica) {
		body := func(sub *replica) error {
			for _, cs := range inner {
				guarded(func() { _, _ = cs.run(sub) })
			}
			return fmt.Errorf("abort")
		}
		guarded(func() {
			switch w.kind {
			case "counter":
				_ = x.ctr.Transaction("c10", func(c orda.CounterInTx) error { sub := *x; sub.ctr = txCounter{c, x.ctr}; return body(&sub) })
			case "map":
				_ = x.mp.Transaction("c10", func(m orda.MapInTx) error { sub := *x; sub.mp = txMap{m, x.mp}; return body(&sub) })
			case "list":
				_ = x.li.Transaction("c10", func(l orda.ListInTx) error { sub := *x; sub.li = txList{l, x.li}; return body(&sub) })
			}
		})
	}
	abort(r)
	abort(fresh)
	w.c.Count("local-continuation-aborts")
	if !same("an aborted transaction {" + inner[0].desc + "; " + inner[1].desc + "}") {
		return
	}
	both(w.rndCall(r))
}

// ---------- events ----------

func (w *world) push(ri int) {
	r := w.reps[ri]
	w.noteOwnOps(r)
	ops := r.pendingOps()
	for _, o := range ops {
		w.log = append(w.log, logEntry{o, ri})
	}
	r.cseq += uint64(len(ops))
	r.dt.SetCheckPoint(uint64(r.cursor), r.cseq)
	w.evs = append(w.evs, fmt.Sprintf("EPush %s %s", gNat(ri), gOps(ops)))
	w.desc = append(w.desc, fmt.Sprintf("push r%d (%d ops)", ri, len(ops)))
	w.c.Count("ev-push")
	w.c.CountN("pushed-ops", len(ops))
}

// unitEnd returns the end (exclusive) of the unit starting at log index i
func (w *world) unitEnd(i int) int {
	mop := w.log[i].op
	if mop.OpType == model.TypeOfOperation_TRANSACTION {
		tx := operations.ModelToOperation(mop).(*operations.TransactionOperation)
		return i + int(tx.GetNumOfOps())
	}
	return i + 1
}

func (w *world) deliver(ri int, units int) {
	r := w.reps[ri]
	end := r.cursor
	for u := 0; u < units && end < len(w.log); u++ {
		end = w.unitEnd(end)
	}
	if end > len(w.log) {
		end = len(w.log)
	}
	var foreign []*model.Operation
	for i := r.cursor; i < end; i++ {
		if w.log[i].author != ri {
			foreign = append(foreign, w.log[i].op)
			if w.log[i].op.ID.Lamport > r.maxLam {
				r.maxLam = w.log[i].op.ID.Lamport
			}
		}
	}
	n := end - r.cursor
	_, err := r.dt.ReceiveRemoteModelOperations(foreign, false)
	r.cursor = end
	v, s := r.view()
	w.evs = append(w.evs, fmt.Sprintf("EDeliver %s %s %s %s %s", gNat(ri), gNat(n), gBool(err == nil), v, s))
	w.desc = append(w.desc, fmt.Sprintf("deliver r%d %d log entries (%d foreign)", ri, n, len(foreign)))
	w.c.Count("ev-deliver")
	w.c.CountN("delivered-foreign-ops", len(foreign))
	if len(foreign) > 0 && len(r.pendingOps()) > 0 {
		w.conflict = true // foreign operations arrived while own operations were unpushed: concurrency
		w.c.Count("deliver-with-concurrent-own-ops")
	}
}

// malformed: hand replica ri a mutated copy of the next foreign transaction unit in the log
// (truncated, or with a count of 0 / negative / too large).  The cursor is not moved and the
// unit must be refused as a whole: nothing of it may be applied.
func (w *world) malformed(ri int) bool {
	r := w.reps[ri]
	// find the next foreign multi-operation unit at or after the cursor
	for i := r.cursor; i < len(w.log); i = w.unitEnd(i) {
		end := w.unitEnd(i)
		if w.log[i].author == ri || end-i < 2 || end > len(w.log) {
			continue
		}
		var unit []*model.Operation
		for j := i; j < end; j++ {
			unit = append(unit, w.log[j].op)
		}
		hdr := operations.ModelToOperation(unit[0]).(*operations.TransactionOperation)
		mk := func(n int) *model.Operation {
			t := operations.NewTransactionOperation(hdr.GetBody().Tag)
			t.SetNumOfOps(n)
			t.SetID(unit[0].ID)
			return t.ToModelOperation()
		}
		var ops []*model.Operation
		kind := w.c.Rng.Intn(4)
		switch kind {
		case 0: // truncated: the last operation is missing
			ops = append([]*model.Operation{}, unit[:len(unit)-1]...)
		case 1: // count too large
			ops = append([]*model.Operation{mk(len(unit) + 1 + w.c.Rng.Intn(3))}, unit[1:]...)
		case 2: // zero count
			ops = append([]*model.Operation{mk(0)}, unit[1:]...)
		case 3: // negative count
			ops = append([]*model.Operation{mk(-1 - w.c.Rng.Intn(3))}, unit[1:]...)
		}
		beforeV, beforeS := r.view()
		var err error
		done := make(chan bool, 1)
		var p bool
		var msg string
		go func() {
			p, msg = guarded(func() { _, err = r.dt.ReceiveRemoteModelOperations(ops, false) })
			done <- true
		}()
		select {
		case <-done:
		case <-time.After(3 * time.Second):
			w.c.Violate("C09", "malformed-unit-hangs", fmt.Sprintf("%s: delivering a transaction unit with a bad count (kind %d) never returns", w.kind, kind), w.desc)
			panic("hang in ReceiveRemoteModelOperations")
		}
		if p {
			w.c.Violate("C09", "malformed-unit-panics", fmt.Sprintf("%s: delivering a malformed transaction unit (kind %d) panicked: %s", w.kind, kind, msg), w.desc)
			panic("panic in ReceiveRemoteModelOperations: " + msg)
		}
		v, sz := r.view()
		if v != beforeV || sz != beforeS || err == nil {
			w.c.Violate("C09", "malformed-unit-applied", fmt.Sprintf("%s: a malformed transaction unit (kind %d) was accepted (err=%v) or changed the state", w.kind, kind, err), w.desc)
		}
		w.evs = append(w.evs, fmt.Sprintf("ERecv %s %s %s %s %s", gNat(ri), gOps(ops), gBool(err == nil), v, sz))
		w.desc = append(w.desc, fmt.Sprintf("malformed unit (kind %d) to r%d", kind, ri))
		w.c.Count("ev-malformed-unit")
		return true
	}
	return false
}

func obsOf(res string, err error, panicked bool) string {
	if panicked {
		return "OPanic"
	}
	if err != nil {
		return "OFail"
	}
	return "(OOk " + res + ")"
}

// guarded runs f, converting a panic into an outcome
func guarded(f func()) (panicked bool, msg string) {
	defer func() {
		if e := recover(); e != nil {
			panicked = true
			msg = fmt.Sprint(e)
		}
	}()
	f()
	return
}

func isNilErr(e interface{ Error() string }) bool {
	return e == nil || fmt.Sprintf("%v", e) == "<nil>"
}

// ---------- generators ----------

var keyPool = []string{"a", "b", "c", "k1", "k2", "key/3", ""}

func (w *world) rndVal() interface{} {
	switch w.c.Rng.Intn(8) {
	case 0:
		return w.c.Rng.Intn(5)
	case 1:
		return int64(w.c.Rng.Intn(2000000)) - 1000000
	case 2:
		return fmt.Sprintf("s%d", w.c.Rng.Intn(50))
	case 3:
		return w.c.Rng.Intn(2) == 0
	case 4:
		return "héllo ∑"
	case 5:
		return []interface{}{w.c.Rng.Intn(3), "x"}
	case 6:
		return map[string]interface{}{"n": w.c.Rng.Intn(3)}
	}
	return float64(w.c.Rng.Intn(1000))
}

var tagCounter int
var retouchPos = -1

// unique tags as list values let the C04 oracle follow each element
func (w *world) rndTag() interface{} {
	tagCounter++
	return fmt.Sprintf("t%d", tagCounter)
}

type callSpec struct {
	gal  string // Gallina call
	desc string
	run  func(r *replica) (string, error) // returns the Gallina result
}

func (w *world) rndCall(r *replica) callSpec {
	rng := w.c.Rng
	switch w.kind {
	case "counter":
		d := int32(rng.Intn(21) - 10)
		switch rng.Intn(10) {
		case 0:
			d = 2147483647
		case 1:
			d = -2147483648
		case 2:
			d = int32(rng.Uint32())
		}
		return callSpec{fmt.Sprintf("(CInc %s)", gZ(int64(d))), fmt.Sprintf("IncreaseBy(%d)", d), func(r *replica) (string, error) {
			v, err := r.ctr.IncreaseBy(d)
			if !isNilErr(err) {
				return "", err
			}
			return "(RVal " + gVal(v) + ")", nil
		}}
	case "map":
		k := keyPool[rng.Intn(len(keyPool))]
		if rng.Intn(3) == 0 {
			return callSpec{fmt.Sprintf("(MRemove %s)", gStr(k)), fmt.Sprintf("Remove(%q)", k), func(r *replica) (string, error) {
				v, err := r.mp.Remove(k)
				if !isNilErr(err) {
					return "", err
				}
				if v == nil {
					return "RNil", nil
				}
				return "(RVal " + gVal(v) + ")", nil
			}}
		}
		v := w.rndVal()
		lastPutKey, lastPutVal = k, v
		return callSpec{fmt.Sprintf("(MPut %s %s)", gStr(k), gVal(v)), fmt.Sprintf("Put(%q,%v)", k, v), func(r *replica) (string, error) {
			old, err := r.mp.Put(k, v)
			if !isNilErr(err) {
				return "", err
			}
			if old == nil {
				return "RNil", nil
			}
			return "(RVal " + gVal(old) + ")", nil
		}}
	case "list":
		size := r.li.Size()
		pos := 0
		if size > 0 {
			pos = rng.Intn(size + 1)
		}
		switch rng.Intn(12) { // occasionally out of range
		case 0:
			pos = size + 1 + rng.Intn(2)
		case 1:
			pos = -1
		case 2, 3, 4:
			// come back to the element touched last time (updated, or next to a deleted one): operations on
			// elements that already carry a later timestamp or a tombstone
			if retouchPos >= 0 && retouchPos <= size {
				pos = retouchPos
			}
		}
		retouchPos = pos
		k := rng.Intn(10)
		if size < 3 && rng.Intn(4) != 0 {
			k = 0
		}
		switch {
		case k < 5: // insert
			n := 1
			if rng.Intn(4) == 0 {
				n = 2 + rng.Intn(3)
			}
			if rng.Intn(25) == 0 {
				n = 11 + rng.Intn(3) // two-digit delimiters
			}
			if rng.Intn(40) == 0 {
				n = 0
			}
			vs := make([]interface{}, n)
			for i := range vs {
				vs[i] = w.rndTag()
			}
			lastListPos, lastListVals = pos, vs
			return callSpec{fmt.Sprintf("(LInsert %s %s)", gZ(int64(pos)), gVals(vs)), fmt.Sprintf("InsertMany(%d,%v)", pos, vs), func(r *replica) (string, error) {
				ret, err := r.li.InsertMany(pos, vs...)
				if !isNilErr(err) {
					return "", err
				}
				if ret == nil {
					return "(RVals [])", nil
				}
				return "(RVals " + gVals(ret.([]interface{})) + ")", nil
			}}
		case k < 8: // delete
			n := 1
			if rng.Intn(4) == 0 {
				n = rng.Intn(4)
			}
			return callSpec{fmt.Sprintf("(LDelete %s %s)", gZ(int64(pos)), gZ(int64(n))), fmt.Sprintf("DeleteMany(%d,%d)", pos, n), func(r *replica) (string, error) {
				ret, err := r.li.DeleteMany(pos, n)
				if !isNilErr(err) {
					return "", err
				}
				return "(RVals " + gVals(ret) + ")", nil
			}}
		default: // update
			n := 1
			if rng.Intn(4) == 0 {
				n = rng.Intn(4)
			}
			vs := make([]interface{}, n)
			for i := range vs {
				vs[i] = w.rndTag()
			}
			lastListPos, lastListVals = pos, vs
			return callSpec{fmt.Sprintf("(LUpdate %s %s)", gZ(int64(pos)), gVals(vs)), fmt.Sprintf("Update(%d,%v)", pos, vs), func(r *replica) (string, error) {
				ret, err := r.li.Update(pos, vs...)
				if !isNilErr(err) {
					return "", err
				}
				return "(RVals " + gVals(ret) + ")", nil
			}}
		}
	}
	panic("kind")
}

func (w *world) local(ri int) {
	r := w.reps[ri]
	cs := w.rndCall(r)
	var res string
	var err error
	p, msg := guarded(func() { res, err = cs.run(r) })
	if p {
		w.c.Violate("C03", "panic-"+w.kind, fmt.Sprintf("%s call %s panicked: %s", w.kind, cs.desc, msg), w.desc)
	}
	v, s := r.view()
	w.evs = append(w.evs, fmt.Sprintf("ELocal %s %s %s %s %s", gNat(ri), cs.gal, obsOf(res, err, p), v, s))
	w.desc = append(w.desc, fmt.Sprintf("r%d.%s", ri, cs.desc))
	w.c.Count("ev-local")
	if err != nil {
		w.c.Count("local-error")
	}
	w.noteOwnOps(r)
}

type txObs struct {
	opid    string
	duid    string
	view    string
	size    string
	pending int
}

func (r *replica) txObs() txObs {
	m, _ := r.dt.GetMeta()
	var meta struct {
		DUID string
		OpID json.RawMessage `json:"opID"`
	}
	_ = json.Unmarshal(m, &meta)
	_, sz := r.view()
	return txObs{string(meta.OpID), meta.DUID, r.viewJSON(), sz, len(r.pendingOps())}
}

func (w *world) tx(ri int) {
	r := w.reps[ri]
	n := 1 + w.c.Rng.Intn(4)
	fail := w.c.Rng.Intn(3) == 0
	tag := fmt.Sprintf("tx%d", w.c.Rng.Intn(100))
	var calls, obs, descs []string
	before := r.txObs()
	body := func(run func(cs callSpec)) error {
		for i := 0; i < n; i++ {
			run(w.rndCall(r))
		}
		if fail {
			return fmt.Errorf("abort")
		}
		return nil
	}
	runIn := func(sub *replica) func(cs callSpec) {
		return func(cs callSpec) {
			var res string
			var err error
			p, _ := guarded(func() { res, err = cs.run(sub) })
			calls = append(calls, cs.gal)
			obs = append(obs, obsOf(res, err, p))
			descs = append(descs, cs.desc)
		}
	}
	var txErr error
	switch w.kind {
	case "counter":
		txErr = r.ctr.Transaction(tag, func(c orda.CounterInTx) error {
			sub := *r
			sub.ctr = txCounter{c, r.ctr}
			return body(runIn(&sub))
		})
	case "map":
		txErr = r.mp.Transaction(tag, func(m orda.MapInTx) error {
			sub := *r
			sub.mp = txMap{m, r.mp}
			return body(runIn(&sub))
		})
	case "list":
		txErr = r.li.Transaction(tag, func(l orda.ListInTx) error {
			sub := *r
			sub.li = txList{l, r.li}
			return body(runIn(&sub))
		})
	}
	_ = txErr
	after := r.txObs()
	if fail {
		w.c.Count("tx-aborted")
		if before != after {
			w.c.Violate("C09", "abort-not-restored-"+w.kind, fmt.Sprintf("%s aborted transaction [%s] changed the datatype: before %+v after %+v", w.kind, strings.Join(descs, "; "), before, after), w.desc)
		}
	} else {
		w.c.Count("tx-committed")
		// the committed unit is contiguous and announces its own length
		ops := r.pendingOps()
		newOps := ops[before.pending:]
		if len(newOps) > 0 {
			if newOps[0].OpType != model.TypeOfOperation_TRANSACTION {
				w.c.Violate("C09", "unit-header-missing", "committed transaction does not start with a TRANSACTION operation", w.desc)
			} else if n := operations.ModelToOperation(newOps[0]).(*operations.TransactionOperation).GetNumOfOps(); int(n) != len(newOps) {
				w.c.Violate("C09", "unit-length-wrong", fmt.Sprintf("transaction header announces %d operations, unit has %d", n, len(newOps)), w.desc)
			}
		}
	}
	v, s := r.view()
	w.evs = append(w.evs, fmt.Sprintf("ETx %s %s %s %s %s %s %s", gNat(ri), gStr(tag), gList(calls), gBool(fail), gList(obs), v, s))
	w.desc = append(w.desc, fmt.Sprintf("r%d.Transaction{%s; fail=%v}", ri, strings.Join(descs, "; "), fail))
	w.c.Count("ev-tx")
	w.noteOwnOps(r)
}

// wrappers so that a transaction body can reuse callSpec.run
type txCounter struct {
	orda.CounterInTx
	full orda.Counter
}

func (t txCounter) Transaction(tag string, f func(orda.CounterInTx) error) error { return nil }
func (t txCounter) GetType() model.TypeOfDatatype                                { return t.full.GetType() }
func (t txCounter) GetState() model.StateOfDatatype                              { return t.full.GetState() }
func (t txCounter) GetKey() string                                               { return t.full.GetKey() }
func (t txCounter) ToJSON() interface{}                                          { return t.full.ToJSON() }

type txMap struct {
	orda.MapInTx
	full orda.Map
}

func (t txMap) Transaction(tag string, f func(orda.MapInTx) error) error { return nil }
func (t txMap) GetType() model.TypeOfDatatype                            { return t.full.GetType() }
func (t txMap) GetState() model.StateOfDatatype                          { return t.full.GetState() }
func (t txMap) GetKey() string                                           { return t.full.GetKey() }
func (t txMap) ToJSON() interface{}                                      { return t.full.ToJSON() }

type txList struct {
	orda.ListInTx
	full orda.List
}

func (t txList) Transaction(tag string, f func(orda.ListInTx) error) error { return nil }
func (t txList) GetType() model.TypeOfDatatype                             { return t.full.GetType() }
func (t txList) GetState() model.StateOfDatatype                           { return t.full.GetState() }
func (t txList) GetKey() string                                            { return t.full.GetKey() }
func (t txList) ToJSON() interface{}                                       { return t.full.ToJSON() }

// ---------- the slice ----------

func sliceCrdt(c *Ctx, kind string) {
	n := c.N
	if n == 0 {
		n = 300
		if c.Tier == "thorough" {
			n = 6000
		}
	}
	c.Res.Rule = "random histories on 2..4 real replicas of one " + kind + ": local calls (valid and invalid arguments, batches incl. >= 11 elements), user transactions (commit/abort), push to one total log, delivery of the next log units in log order, arbitrarily interleaved; a history is non-trivial when some replica received foreign operations while it had unpushed operations of its own (true concurrency); distinct by the full event script"
	var cases []string
	ty := map[string]string{"counter": "chist", "map": "mhist", "list": "lhist"}[kind]
	chk := "check_" + kind
	for h := 0; h < n; h++ {
		nrep := 2 + c.Rng.Intn(3)
		w := newWorld(c, kind, nrep)
		// a panic escaping the implementation ends the history (the datatype may hold its lock)
		p, msg := guarded(func() {
			steps := 8 + c.Rng.Intn(30)
			for s := 0; s < steps; s++ {
				ri := c.Rng.Intn(nrep)
				switch k := c.Rng.Intn(100); {
				case k < 55:
					w.cur = "local call"
					w.local(ri)
				case k < 63:
					w.cur = "transaction"
					w.tx(ri)
				case k < 78:
					w.cur = "push"
					w.push(ri)
				case k < 84:
					w.cur = "transaction"
					if !w.malformed(ri) {
						w.cur = "delivery"
						w.deliver(ri, 1)
					}
				default:
					w.cur = "delivery"
					w.deliver(ri, 1+c.Rng.Intn(3))
				}
				w.checkConvergence()
				w.checkElements()
			}
			// drain: everybody pushes, everybody receives everything
			for ri := range w.reps {
				w.cur = "push"
				w.push(ri)
			}
			for ri := range w.reps {
				w.cur = "delivery"
				w.deliver(ri, 1<<20)
			}
			w.checkConvergence()
			w.checkElements()
			w.checkOutcome()
			if len(w.reps) > 1 {
				w.cur = "snapshot"
				w.snapshotCheck(c.Rng.Intn(nrep))
			}
		})
		if p {
			prop := map[string]string{"local call": "C03", "transaction": "C09", "push": "C15", "delivery": "C01", "snapshot": "C10"}[w.cur]
			c.Violate(prop, "panic-in-"+strings.ReplaceAll(w.cur, " ", "-")+"-"+kind, fmt.Sprintf("%s: the implementation panicked during a %s: %s", kind, w.cur, msg), w.desc)
			c.Count("history-ended-by-panic")
			continue
		}
		cu := make([]string, nrep)
		for i, r := range w.reps {
			cu[i] = gStr(r.cuid)
		}
		evs := strings.Join(w.evs, ";\n     ")
		cases = append(cases, fmt.Sprintf("mkHist %s [\n     %s]", gList(cu), evs))
		c.Distinct(strings.Join(w.desc, "|"), w.conflict)
		c.Sample(map[string]interface{}{"kind": kind, "replicas": nrep, "script": w.desc})
		c.Count(fmt.Sprintf("replicas-%d", nrep))
	}
	c.Res.Cases = len(cases)
	c.WriteCases("Crdt_"+kind, "Base Time Ops Counter Map List Snapshot Datatype Replicas CheckCrdt", ty, chk, cases, 25)
}
