module verifharness

go 1.18

require (
	github.com/orda-io/orda/client v0.0.0
	github.com/orda-io/orda/server v0.0.0
	github.com/sirupsen/logrus v1.9.0
	github.com/wI2L/jsondiff v0.2.0
	go.mongodb.org/mongo-driver v1.10.1
	google.golang.org/grpc v1.49.0
	google.golang.org/protobuf v1.28.1
)

require (
	github.com/TylerBrock/colorjson v0.0.0-20200706003622-8a50f05110d2 // indirect
	github.com/cespare/xxhash/v2 v2.1.2 // indirect
	github.com/dgryski/go-rendezvous v0.0.0-20200823014737-9f7001d12a5f // indirect
	github.com/eclipse/paho.mqtt.golang v1.4.1 // indirect
	github.com/fatih/color v1.13.0 // indirect
	github.com/go-redis/redis/v8 v8.11.5 // indirect
	github.com/go-redsync/redsync/v4 v4.5.1 // indirect
	github.com/golang/protobuf v1.5.2 // indirect
	github.com/golang/snappy v0.0.4 // indirect
	github.com/gorilla/websocket v1.5.0 // indirect
	github.com/grpc-ecosystem/grpc-gateway/v2 v2.11.3 // indirect
	github.com/hashicorp/errwrap v1.1.0 // indirect
	github.com/hashicorp/go-multierror v1.1.1 // indirect
	github.com/klauspost/compress v1.15.9 // indirect
	github.com/logrusorgru/aurora v2.0.3+incompatible // indirect
	github.com/matoous/go-nanoid/v2 v2.0.0 // indirect
	github.com/mattn/go-colorable v0.1.13 // indirect
	github.com/mattn/go-isatty v0.0.16 // indirect
	github.com/mitchellh/mapstructure v1.5.0 // indirect
	github.com/montanaflynn/stats v0.6.6 // indirect
	github.com/pkg/errors v0.9.1 // indirect
	github.com/tidwall/gjson v1.14.3 // indirect
	github.com/tidwall/match v1.1.1 // indirect
	github.com/tidwall/pretty v1.2.0 // indirect
	github.com/viney-shih/go-lock v1.1.2 // indirect
	github.com/xdg-go/pbkdf2 v1.0.0 // indirect
	github.com/xdg-go/scram v1.1.1 // indirect
	github.com/xdg-go/stringprep v1.0.3 // indirect
	github.com/youmark/pkcs8 v0.0.0-20201027041543-1326539a0a0a // indirect
	github.com/ztrue/tracerr v0.3.0 // indirect
	golang.org/x/crypto v0.0.0-20220826181053-bd7e27e6170d // indirect
	golang.org/x/net v0.0.0-20220826154423-83b083e8dc8b // indirect
	golang.org/x/sync v0.0.0-20220819030929-7fc1605a5dde // indirect
	golang.org/x/sys v0.0.0-20220825204002-c680a09ffe64 // indirect
	golang.org/x/text v0.3.7 // indirect
	google.golang.org/genproto v0.0.0-20220822174746-9e6da59bd2fc // indirect
)

replace (
	github.com/orda-io/orda/client => /repo/client
	github.com/orda-io/orda/server => /repo/server
)
