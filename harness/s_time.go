package main

import (
	"fmt"
	"math"

	"github.com/orda-io/orda/client/pkg/model"
)

// S-time: Timestamp / OperationID kernel.

func init() { slices["time"] = sliceTime }

var boundaryU64 = []uint64{0, 1, 2, 9, 10, 11, 12, 19, 99, 100, 101, 110, 111, 1000, 1 << 31, 1<<31 - 1, 1<<32 - 1, 1 << 32, 1<<53 + 1, 1<<63 - 1, 1 << 63, 1<<63 + 5, math.MaxUint64 - 1, math.MaxUint64}
var boundaryU32 = []uint32{0, 1, 2, 9, 10, 11, 99, 100, 1<<31 - 1, 1 << 31, 1<<31 + 1, math.MaxUint32}
var cuidPool = []string{"0000000000000000", "aaaaaaaaaaaaaaaa", "aaaaaaaaaaaaaaab", "AAAAAAAAAAAAAAAA", "_-0123456789abcd", "zzzzzzzzzzzzzzzz", "1000000000000000", "0100000000000000", "", "a", "ab"}

func gTs(t *model.Timestamp) string {
	return fmt.Sprintf("(mkTs %s %s %s %s)", gN(uint64(t.Era)), gN(t.Lamport), gStr(t.CUID), gN(uint64(t.Delimiter)))
}
func gOpid(o *model.OperationID) string {
	return fmt.Sprintf("(mkOpid %s %s %s %s)", gN(uint64(o.Era)), gN(o.Lamport), gStr(o.CUID), gN(o.Seq))
}
func gCmp(r int) string {
	if r > 0 {
		return "Gt"
	} else if r < 0 {
		return "Lt"
	}
	return "Eq"
}

func sliceTime(c *Ctx) {
	n := c.N
	if n == 0 {
		n = 3000
		if c.Tier == "thorough" {
			n = 60000
		}
	}
	c.Res.Rule = "timestamps/operation ids drawn from boundary values (0,1,9,10,11,99,100,2^31±1,2^32-1,2^53+1,2^63±,2^64-1), small grids and uniform 64-bit values; kinds: compare, key-equality, next, rollback, sync-lamport; a case is non-trivial when its two arguments differ; distinct by full argument tuple. Plus an exhaustive key-collision grid evaluated on the implementation alone."
	rU64 := func() uint64 {
		switch c.Rng.Intn(4) {
		case 0:
			return boundaryU64[c.Rng.Intn(len(boundaryU64))]
		case 1:
			return uint64(c.Rng.Intn(130))
		case 2:
			return boundaryU64[c.Rng.Intn(len(boundaryU64))] + uint64(c.Rng.Intn(5)) - 2
		}
		return c.Rng.Uint64()
	}
	rU32 := func() uint32 {
		switch c.Rng.Intn(4) {
		case 0:
			return boundaryU32[c.Rng.Intn(len(boundaryU32))]
		case 1:
			return uint32(c.Rng.Intn(130))
		case 2:
			return 0
		}
		return c.Rng.Uint32()
	}
	rC := func() string { return cuidPool[c.Rng.Intn(len(cuidPool))] }
	rTs := func() *model.Timestamp { return model.NewTimestamp(rU32(), rU64(), rC(), rU32()) }
	near := func(t *model.Timestamp) *model.Timestamp {
		// a timestamp whose concatenated digits are close to t's
		u := t.Clone()
		switch c.Rng.Intn(6) {
		case 0: // move a digit from delimiter to lamport: (1,10) ~ (11,0)
			u.Lamport = t.Lamport*10 + uint64(t.Delimiter/10)
			u.Delimiter = t.Delimiter % 10
		case 1:
			u.Era = t.Era*10 + uint32(t.Lamport%10)
			u.Lamport = t.Lamport / 10
		case 2:
			u.Lamport = t.Lamport + uint64(c.Rng.Intn(3))
		case 3:
			u.CUID = rC()
		case 4:
			u.Delimiter = t.Delimiter + uint32(c.Rng.Intn(3))
		case 5:
			if len(t.CUID) > 0 && t.CUID[0] >= '0' && t.CUID[0] <= '9' {
				u.Delimiter = t.Delimiter*10 + uint32(t.CUID[0]-'0')
				u.CUID = t.CUID[1:]
			}
		}
		return u
	}
	var cases []string
	var bounded []*model.Timestamp
	for i := 0; i < n; i++ {
		kind := c.Rng.Intn(6)
		switch kind {
		case 0: // compare
			a, b := rTs(), rTs()
			if c.Rng.Intn(3) == 0 {
				b = near(a)
			}
			r := a.Compare(b)
			cases = append(cases, fmt.Sprintf("TCmp %s %s %s", gTs(a), gTs(b), gCmp(r)))
			c.Count("compare")
			fp := fmt.Sprint("cmp", a.ToString(), b.ToString())
			c.Distinct(fp, a.ToString() != b.ToString())
			c.Sample(map[string]interface{}{"kind": "compare", "a": a.ToString(), "b": b.ToString(), "result": r})
			if a.Era < 1<<31 && a.Lamport < 1<<63 {
				bounded = append(bounded, a)
			}
		case 1: // key equality
			a := rTs()
			b := near(a)
			if c.Rng.Intn(4) == 0 {
				b = rTs()
			}
			eq := a.Hash() == b.Hash()
			cases = append(cases, fmt.Sprintf("THashEq %s %s %s", gTs(a), gTs(b), gBool(eq)))
			c.Count("hasheq")
			c.Distinct(fmt.Sprint("h", a.ToString(), b.ToString()), a.ToString() != b.ToString())
			same := a.Era == b.Era && a.Lamport == b.Lamport && a.Delimiter == b.Delimiter && a.CUID == b.CUID
			if eq && !same {
				c.Violate("C15", "hash-collision", fmt.Sprintf("distinct timestamps %s and %s share the key %q", a.ToString(), b.ToString(), a.Hash()), map[string]interface{}{"a": a.ToString(), "b": b.ToString()})
			}
		case 2: // opid next
			o := &model.OperationID{Era: rU32(), Lamport: rU64(), CUID: rC(), Seq: rU64()}
			before := gOpid(o)
			ret := o.Next()
			cases = append(cases, fmt.Sprintf("TNext %s %s %s", before, gOpid(o), gOpid(ret)))
			c.Count("next")
			c.Distinct("n"+before, true)
		case 3: // rollback
			o := &model.OperationID{Era: rU32(), Lamport: rU64(), CUID: rC(), Seq: rU64()}
			before := gOpid(o)
			o.RollBack()
			cases = append(cases, fmt.Sprintf("TRollback %s %s", before, gOpid(o)))
			c.Count("rollback")
			c.Distinct("r"+before, true)
		case 4: // sync lamport
			o := &model.OperationID{Era: rU32(), Lamport: rU64(), CUID: rC(), Seq: rU64()}
			other := rU64()
			if c.Rng.Intn(3) == 0 {
				other = o.Lamport + uint64(c.Rng.Intn(3)) - 1
			}
			before := gOpid(o)
			ret := o.SyncLamport(other)
			cases = append(cases, fmt.Sprintf("TSync %s %s %s %s", before, gN(other), gOpid(o), gN(ret)))
			c.Count("sync")
			c.Distinct("s"+before+fmt.Sprint(other), true)
		case 5: // opid compare + GetTimestamp
			a := &model.OperationID{Era: rU32(), Lamport: rU64(), CUID: rC(), Seq: rU64()}
			b := &model.OperationID{Era: rU32(), Lamport: rU64(), CUID: rC(), Seq: rU64()}
			if c.Rng.Intn(3) == 0 {
				b.Era, b.Lamport = a.Era, a.Lamport+uint64(c.Rng.Intn(3))-1
			}
			r := a.Compare(b)
			cases = append(cases, fmt.Sprintf("TOCmp %s %s %s %s", gOpid(a), gOpid(b), gCmp(r), gTs(a.GetTimestamp())))
			c.Count("opid-compare")
			c.Distinct("oc"+gOpid(a)+gOpid(b), true)
		}
	}
	c.Res.Cases = len(cases)
	c.WriteCases("Time", "Base Time CheckTime", "tcase", "check_tcase", cases, 1000)

	// --- oracle on the implementation alone: total order on bounded clocks (sampled triples)
	for i := 0; i+2 < len(bounded); i += 3 {
		a, b, d := bounded[i], bounded[i+1], bounded[i+2]
		if a.Compare(b) != -b.Compare(a) {
			c.Violate("C15", "compare-antisym", fmt.Sprintf("Compare not antisymmetric on %s %s", a.ToString(), b.ToString()), nil)
		}
		if a.Compare(b) < 0 && b.Compare(d) < 0 && !(a.Compare(d) < 0) {
			c.Violate("C15", "compare-trans", fmt.Sprintf("Compare not transitive on %s %s %s", a.ToString(), b.ToString(), d.ToString()), nil)
		}
		c.Count("order-triples")
	}
	// --- exhaustive key-collision grid on the implementation
	g := 120
	if c.Tier == "thorough" {
		g = 320
	}
	keys := make(map[string][4]uint64, g*g*6)
	cl := []string{"0000000000000000", "1000000000000000", "aaaaaaaaaaaaaaaa"}
	for e := uint32(0); e < 2; e++ {
		for l := 0; l < g; l++ {
			for d := 0; d < g; d++ {
				for ci, cu := range cl {
					t := model.NewTimestamp(e, uint64(l), cu, uint32(d))
					k := t.Hash()
					cur := [4]uint64{uint64(e), uint64(l), uint64(d), uint64(ci)}
					if prev, ok := keys[k]; ok && prev != cur {
						c.Violate("C15", "hash-collision", fmt.Sprintf("distinct timestamps (era,lamport,delimiter,client#) %v and %v share the key %q", prev, cur, k), map[string]interface{}{"a": prev, "b": cur})
					}
					keys[k] = cur
				}
			}
		}
	}
	c.CountN("collision-grid-timestamps", len(keys))
	c.Res.Notes = append(c.Res.Notes, fmt.Sprintf("exhaustive key grid: era<2, lamport<%d, delimiter<%d, 3 client ids: %d timestamps, all keys distinct iff no hash-collision violation", g, g, 2*g*g*3))
}
