package main

// Slice doc (Document parts of C01, C03, C04, C09, C10 and C19): 2..4 real Document replicas.  Local calls address a
// random container of the current tree (PutToObject / DeleteInObject / InsertToArray / UpdateManyInArray /
// DeleteManyInArray, valid and invalid), user transactions (commit / abort), PatchByJSON to a target derived from the
// current value, pushes into one log and deliveries in log order, snapshot export/import.
// Oracles (Go, independent of the implementation's tree): a plain JSON value per replica transformed by the same
// call (the replica must read exactly that afterwards; a failing call changes nothing), equality of replicas that
// applied the same operations, abort leaves value / operation id / buffer unchanged, PatchByJSON reads exactly the
// target and is one unit, a restored snapshot reads the same and continues the same.

import (
	"encoding/json"
	"fmt"
	"reflect"
	"sort"
	"strings"

	"github.com/orda-io/orda/client/pkg/iface"
	"github.com/orda-io/orda/client/pkg/model"
	"github.com/orda-io/orda/client/pkg/operations"
	"github.com/orda-io/orda/client/pkg/orda"
	"github.com/wI2L/jsondiff"
)

func init() {
	slices["doc"] = sliceDoc
}

type drep struct {
	idx     int
	doc     orda.Document
	dt      iface.Datatype
	cursor  int
	cseq    uint64
	handles []dhandle // child documents obtained earlier and kept by the application
}

// a handle to a nested container, kept while the document changes
type dhandle struct {
	doc  orda.Document
	desc string
}

type dworld struct {
	c     *Ctx
	reps  []*drep
	log   []logEntry
	desc  []string
	evs   []string
	nontr bool
	cur   string
}

func gPath(p []interface{}) string {
	items := make([]string, len(p))
	for i, x := range p {
		switch t := x.(type) {
		case string:
			items[i] = "(PKey " + gStr(t) + ")"
		case int:
			items[i] = "(PIdx " + gZ(int64(t)) + ")"
		}
	}
	return gList(items)
}

func (r *drep) gView() string { return gVal(r.doc.GetValue()) }

func jsonStr(v interface{}) string {
	b, err := json.Marshal(v)
	if err != nil {
		return "<unmarshalable: " + err.Error() + ">"
	}
	return string(b)
}

func plainCopy(v interface{}) interface{} {
	var x interface{}
	_ = json.Unmarshal([]byte(jsonStr(v)), &x)
	return x
}

func (r *drep) value() interface{} { return plainCopy(r.doc.GetValue()) }

var docSerial int
var docRetouch = -1
var docLastDel = -1

func (w *dworld) rndJSON(depth int) interface{} {
	rng := w.c.Rng
	docSerial++
	k := rng.Intn(10)
	if depth >= 2 && k >= 6 {
		k = rng.Intn(6)
	}
	switch k {
	case 0, 1:
		return float64(docSerial)
	case 2, 3:
		return fmt.Sprintf("s%d", docSerial)
	case 4:
		return rng.Intn(2) == 0
	case 5:
		return "héllo/∑~" + fmt.Sprint(docSerial)
	case 6, 7:
		m := map[string]interface{}{}
		keys := []string{"a", "b", "c", "x/y", "t~k", "n", "v~1", "~0~1/"}
		for i, n := 0, rng.Intn(4); i < n; i++ {
			m[keys[rng.Intn(len(keys))]] = w.rndJSON(depth + 1)
		}
		return m
	default:
		l := []interface{}{}
		for i, n := 0, rng.Intn(4); i < n; i++ {
			l = append(l, w.rndJSON(depth+1))
		}
		return l
	}
}

// containers lists the paths of all containers of a plain JSON value (the root is the empty path)
func containers(v interface{}, path []interface{}, out *[][]interface{}) {
	switch t := v.(type) {
	case map[string]interface{}:
		*out = append(*out, append([]interface{}{}, path...))
		keys := make([]string, 0, len(t))
		for k := range t {
			keys = append(keys, k)
		}
		sort.Strings(keys)
		for _, k := range keys {
			containers(t[k], append(path, k), out)
		}
	case []interface{}:
		*out = append(*out, append([]interface{}{}, path...))
		for i, e := range t {
			containers(e, append(path, i), out)
		}
	}
}

func getAt(v interface{}, path []interface{}) interface{} {
	for _, p := range path {
		switch t := p.(type) {
		case string:
			v = v.(map[string]interface{})[t]
		case int:
			v = v.([]interface{})[t]
		}
	}
	return v
}

// setAt returns v with the container at path replaced by f(container)
func setAt(v interface{}, path []interface{}, f func(interface{}) interface{}) interface{} {
	if len(path) == 0 {
		return f(v)
	}
	switch t := path[0].(type) {
	case string:
		m := v.(map[string]interface{})
		m[t] = setAt(m[t], path[1:], f)
		return m
	case int:
		l := v.([]interface{})
		l[t] = setAt(l[t], path[1:], f)
		return l
	}
	return v
}

// walk returns the Document standing at path
func walk(d orda.Document, path []interface{}) (orda.Document, bool) {
	cur := d
	for _, p := range path {
		var next orda.Document
		var err error
		switch t := p.(type) {
		case string:
			next, err = cur.GetFromObject(t)
		case int:
			next, err = cur.GetFromArray(t)
		}
		if !isNilErr(err) || next == nil {
			return nil, false
		}
		cur = next
	}
	return cur, true
}

func pathStr(p []interface{}) string {
	var sb strings.Builder
	for _, x := range p {
		sb.WriteString(fmt.Sprintf("/%v", x))
	}
	if sb.Len() == 0 {
		return "/"
	}
	return sb.String()
}

// one random call: returns a description, the plain transformation (nil result = the call must fail) and the action
type dcall struct {
	gal   string
	desc  string
	plain func(v interface{}) (interface{}, bool) // applied to a copy of the current value; ok=false: the call must fail
	run   func(root orda.Document) error
}

func (w *dworld) rndCall(cur interface{}) dcall {
	rng := w.c.Rng
	var cs [][]interface{}
	containers(cur, nil, &cs)
	path := cs[rng.Intn(len(cs))]
	// prefer the containers every replica shares from the start (concurrent operations on the same array / object)
	if rng.Intn(2) == 0 {
		var shared [][]interface{}
		for _, c := range cs {
			if len(c) == 1 && (c[0] == "arr" || c[0] == "obj") {
				shared = append(shared, c)
			}
		}
		if len(shared) > 0 {
			path = shared[rng.Intn(len(shared))]
		}
	}
	target := getAt(cur, path)
	ps := pathStr(path)
	_, isObj := target.(map[string]interface{})
	wrongKind := rng.Intn(12) == 0
	if isObj != wrongKind {
		// object call
		if isObj && rng.Intn(3) == 0 {
			obj := target.(map[string]interface{})
			keys := make([]string, 0, len(obj))
			for k := range obj {
				keys = append(keys, k)
			}
			sort.Strings(keys)
			key := "missing"
			if len(keys) > 0 && rng.Intn(5) != 0 {
				key = keys[rng.Intn(len(keys))]
			}
			return dcall{fmt.Sprintf("(UCall (DRmv %s %s))", gPath(path), gStr(key)), fmt.Sprintf("%s.DeleteInObject(%q)", ps, key), func(v interface{}) (interface{}, bool) {
				m, ok := getAt(v, path).(map[string]interface{})
				if !ok {
					return v, false
				}
				if _, has := m[key]; !has {
					return v, false
				}
				return setAt(v, path, func(c interface{}) interface{} { delete(c.(map[string]interface{}), key); return c }), true
			}, func(root orda.Document) error {
				d, ok := walk(root, path)
				if !ok {
					return fmt.Errorf("path not found")
				}
				_, err := d.DeleteInObject(key)
				if isNilErr(err) {
					return nil
				}
				return err
			}}
		}
		key := []string{"a", "b", "c", "x/y", "t~k", "n", "z", "v~1", "w~0/~01"}[rng.Intn(9)]
		val := w.rndJSON(0)
		return dcall{fmt.Sprintf("(UCall (DPut %s %s %s))", gPath(path), gStr(key), gVal(val)), fmt.Sprintf("%s.PutToObject(%q,%s)", ps, key, jsonStr(val)), func(v interface{}) (interface{}, bool) {
			if _, ok := getAt(v, path).(map[string]interface{}); !ok {
				return v, false
			}
			return setAt(v, path, func(c interface{}) interface{} { c.(map[string]interface{})[key] = plainCopy(val); return c }), true
		}, func(root orda.Document) error {
			d, ok := walk(root, path)
			if !ok {
				return fmt.Errorf("path not found")
			}
			_, err := d.PutToObject(key, plainCopy(val))
			if isNilErr(err) {
				return nil
			}
			return err
		}}
	}
	// array call
	size := 0
	if l, ok := target.([]interface{}); ok {
		size = len(l)
	}
	pos := 0
	if size > 0 {
		pos = rng.Intn(size + 1)
	}
	switch rng.Intn(14) {
	case 0:
		pos = size + 1
	case 1:
		pos = -1
	case 2, 3, 4, 5:
		if docRetouch >= 0 && docRetouch <= size { // come back to the place touched last
			pos = docRetouch
		}
	}
	k := rng.Intn(10)
	if k >= 5 && docLastDel > 0 && docLastDel <= size && rng.Intn(2) == 0 {
		pos = docLastDel - 1 // a delete / update that starts just before the place of the last delete: batches reach across the tombstone
	} else if k >= 5 && docRetouch > 0 && docRetouch <= size && rng.Intn(3) == 0 {
		pos = docRetouch - 1
	}
	docRetouch = pos
	if k >= 5 && k < 8 {
		docLastDel = pos
	}
	switch {
	case k < 5:
		n := 1 + rng.Intn(3)
		vals := make([]interface{}, n)
		for i := range vals {
			vals[i] = w.rndJSON(1)
		}
		return dcall{fmt.Sprintf("(UCall (DIns %s %s %s))", gPath(path), gZ(int64(pos)), gVals(vals)), fmt.Sprintf("%s.InsertToArray(%d,%s)", ps, pos, jsonStr(vals)), func(v interface{}) (interface{}, bool) {
			l, ok := getAt(v, path).([]interface{})
			if !ok || pos < 0 || pos > len(l) {
				return v, false
			}
			return setAt(v, path, func(c interface{}) interface{} {
				l := c.([]interface{})
				out := append([]interface{}{}, l[:pos]...)
				out = append(out, plainCopy(vals).([]interface{})...)
				return append(out, l[pos:]...)
			}), true
		}, func(root orda.Document) error {
			d, ok := walk(root, path)
			if !ok {
				return fmt.Errorf("path not found")
			}
			_, err := d.InsertToArray(pos, plainCopy(vals).([]interface{})...)
			if isNilErr(err) {
				return nil
			}
			return err
		}}
	case k < 8:
		n := 1
		if rng.Intn(3) == 0 {
			n = rng.Intn(4)
		}
		return dcall{fmt.Sprintf("(UCall (DDel %s %s %s))", gPath(path), gZ(int64(pos)), gZ(int64(n))), fmt.Sprintf("%s.DeleteManyInArray(%d,%d)", ps, pos, n), func(v interface{}) (interface{}, bool) {
			l, ok := getAt(v, path).([]interface{})
			if !ok || pos < 0 || n < 1 || pos+n > len(l) {
				return v, false
			}
			return setAt(v, path, func(c interface{}) interface{} {
				l := c.([]interface{})
				return append(append([]interface{}{}, l[:pos]...), l[pos+n:]...)
			}), true
		}, func(root orda.Document) error {
			d, ok := walk(root, path)
			if !ok {
				return fmt.Errorf("path not found")
			}
			_, err := d.DeleteManyInArray(pos, n)
			if isNilErr(err) {
				return nil
			}
			return err
		}}
	default:
		n := 1 + rng.Intn(3)
		vals := make([]interface{}, n)
		for i := range vals {
			vals[i] = w.rndJSON(1)
		}
		return dcall{fmt.Sprintf("(UCall (DUpd %s %s %s))", gPath(path), gZ(int64(pos)), gVals(vals)), fmt.Sprintf("%s.UpdateManyInArray(%d,%s)", ps, pos, jsonStr(vals)), func(v interface{}) (interface{}, bool) {
			l, ok := getAt(v, path).([]interface{})
			if !ok || pos < 0 || pos+n > len(l) {
				return v, false
			}
			return setAt(v, path, func(c interface{}) interface{} {
				l := c.([]interface{})
				for i := range vals {
					l[pos+i] = plainCopy(vals[i])
				}
				return l
			}), true
		}, func(root orda.Document) error {
			d, ok := walk(root, path)
			if !ok {
				return fmt.Errorf("path not found")
			}
			_, err := d.UpdateManyInArray(pos, plainCopy(vals).([]interface{})...)
			if isNilErr(err) {
				return nil
			}
			return err
		}}
	}
}

func (r *drep) pending() []*model.Operation { return r.dt.CreatePushPullPack().Operations }

func (r *drep) metaOpID() string {
	m, _ := r.dt.GetMeta()
	var meta struct {
		OpID json.RawMessage `json:"opID"`
	}
	_ = json.Unmarshal(m, &meta)
	return string(meta.OpID)
}

func (w *dworld) local(ri int) {
	w.localWith(ri, w.rndCall(plainCopy(w.reps[ri].value())))
	w.keepHandle(ri)
}

// keepHandle: the application keeps a child document of a nested container for later use
func (w *dworld) keepHandle(ri int) {
	r := w.reps[ri]
	if w.c.Rng.Intn(2) != 0 || len(r.handles) >= 12 {
		return
	}
	var cs [][]interface{}
	containers(plainCopy(r.value()), nil, &cs)
	var nested [][]interface{}
	for _, c := range cs {
		if len(c) >= 2 {
			nested = append(nested, c)
		}
	}
	if len(nested) == 0 {
		return
	}
	path := nested[w.c.Rng.Intn(len(nested))]
	if d, ok := walk(r.doc, path); ok {
		r.handles = append(r.handles, dhandle{d, pathStr(path)})
	}
}

// staleCall: a mutating call on a kept child document whose container has been deleted meanwhile (itself or through an
// ancestor): C03 — it returns an error, changes nothing readable and adds nothing to the operations awaiting push
func (w *dworld) staleCall(ri int) {
	r := w.reps[ri]
	var dead []dhandle
	for _, h := range r.handles {
		if h.doc.IsGarbage() {
			dead = append(dead, h)
		}
	}
	if len(dead) == 0 {
		return
	}
	h := dead[w.c.Rng.Intn(len(dead))]
	before := r.value()
	hv := jsonStr(h.doc.GetValue())
	nb := len(r.pending())
	id := r.metaOpID()
	var err error
	var what string
	p, msg := guarded(func() {
		if h.doc.GetTypeOfJSON() == orda.TypeJSONArray {
			switch w.c.Rng.Intn(3) {
			case 0:
				what = "InsertToArray(0,1)"
				_, err = h.doc.InsertToArray(0, 1)
			case 1:
				what = "UpdateManyInArray(0,2)"
				_, err = h.doc.UpdateManyInArray(0, 2)
			default:
				what = "DeleteInArray(0)"
				_, err = h.doc.DeleteInArray(0)
			}
		} else {
			if w.c.Rng.Intn(2) == 0 {
				what = "PutToObject(zz,1)"
				_, err = h.doc.PutToObject("zz", 1)
			} else {
				keys := []string{"zz"}
				if m, ok := h.doc.GetValue().(map[string]interface{}); ok {
					for k := range m {
						keys = append(keys, k)
					}
					sort.Strings(keys)
				}
				k := keys[w.c.Rng.Intn(len(keys))]
				what = fmt.Sprintf("DeleteInObject(%q)", k)
				_, err = h.doc.DeleteInObject(k)
			}
		}
	})
	w.desc = append(w.desc, fmt.Sprintf("r%d: %s on a kept child document of %s whose container has been deleted", ri, what, h.desc))
	if p {
		w.c.Violate("C03", "panic-document", fmt.Sprintf("%s on a child document of a deleted container panicked: %s", what, msg), w.desc)
		panic("document call panicked")
	}
	if isNilErr(err) {
		w.c.Violate("C03", "deleted-container-call-accepted", fmt.Sprintf("%s on a child document (%s) whose container has been deleted returned no error", what, h.desc), w.desc)
	}
	if after := r.value(); !reflect.DeepEqual(after, before) {
		w.c.Violate("C03", "deleted-container-call-changed-value", fmt.Sprintf("%s on a deleted container changed the document from %s to %s", what, jsonStr(before), jsonStr(after)), w.desc)
	}
	if hv2 := jsonStr(h.doc.GetValue()); hv2 != hv {
		w.c.Violate("C03", "deleted-container-call-changed-value", fmt.Sprintf("%s on a deleted container changed what its child document reads from %s to %s", what, hv, hv2), w.desc)
	}
	if n := len(r.pending()); n != nb {
		w.c.Violate("C03", "document-failed-call-left-operations", fmt.Sprintf("%s on a deleted container queued %d operations", what, n-nb), w.desc)
	}
	if id2 := r.metaOpID(); id2 != id {
		w.c.Violate("C03", "deleted-container-call-consumed-id", fmt.Sprintf("%s on a deleted container moved the next operation identifier from %s to %s", what, id, id2), w.desc)
	}
	w.c.Count("doc-call-on-deleted-container")
}

func (w *dworld) localWith(ri int, cs dcall) {
	r := w.reps[ri]
	before := r.value()
	nb := len(r.pending())
	idb := r.metaOpID()
	want, ok := cs.plain(plainCopy(before))
	var err error
	p, msg := guarded(func() { err = cs.run(r.doc) })
	w.desc = append(w.desc, fmt.Sprintf("r%d%s", ri, cs.desc))
	if p {
		w.c.Violate("C03", "panic-document", fmt.Sprintf("Document call %s panicked: %s", cs.desc, msg), w.desc)
		panic("document call panicked")
	}
	after := r.value()
	if ok && err != nil {
		w.c.Violate("C03", "document-valid-call-failed", fmt.Sprintf("the valid call %s on %s failed: %v", cs.desc, jsonStr(before), err), w.desc)
	} else if !ok && err == nil {
		w.c.Violate("C03", "document-invalid-call-accepted", fmt.Sprintf("the invalid call %s on %s was accepted and the document now reads %s", cs.desc, jsonStr(before), jsonStr(after)), w.desc)
	} else if !reflect.DeepEqual(after, want) {
		w.c.Violate("C03", "document-differs-from-plain-json", fmt.Sprintf("after %s on %s the document reads %s, the plain JSON value reads %s", cs.desc, jsonStr(before), jsonStr(after), jsonStr(want)), w.desc)
		if strings.Contains(cs.gal, "(DIns ") || strings.Contains(cs.gal, "(DDel ") || strings.Contains(cs.gal, "(DUpd ") {
			// an array call that leaves other elements than the slice operation does: an element lost, duplicated, brought back or displaced
			w.c.Violate("C04", "document-array-elements-differ", fmt.Sprintf("after %s on %s the document reads %s, the array operation on the plain value gives %s", cs.desc, jsonStr(before), jsonStr(after), jsonStr(want)), w.desc)
		}
	}
	if !ok && len(r.pending()) != nb {
		w.c.Violate("C03", "document-failed-call-left-operations", fmt.Sprintf("the failing call %s queued %d operations", cs.desc, len(r.pending())-nb), w.desc)
	}
	if !ok && err != nil && r.metaOpID() != idb {
		w.c.Violate("C03", "document-failed-call-left-a-trace", fmt.Sprintf("the failing call %s changed the operation id from %s to %s (the next operation will not carry the next sequence number)", cs.desc, idb, r.metaOpID()), w.desc)
	}
	w.c.Count("doc-local")
	w.checkIdentifiers(r)
	if !ok {
		w.c.Count("doc-local-invalid")
	}
	obs := "(OOk RNil)"
	if err != nil {
		obs = "OFail"
	}
	w.evs = append(w.evs, fmt.Sprintf("ELocal %s %s %s %s 0%%Z", gNat(ri), cs.gal, obs, r.gView()))
}

// checkIdentifiers reads the exported node table of a replica's Document and checks that it is a tree over distinct
// identifiers (C15): every child reference of a live container (object member, array slot) names a node of the table
// whose parent is that container, no node is referenced twice, and the order identifiers of an array are distinct
func (w *dworld) checkIdentifiers(r *drep) {
	_, snap, err := r.dt.GetMetaAndSnapshot()
	if err != nil {
		return
	}
	var doc struct {
		NM []struct {
			C json.RawMessage `json:"c"`
			T string          `json:"t"`
			P json.RawMessage `json:"p"`
			D json.RawMessage `json:"d"`
			A *struct {
				N [][2]json.RawMessage `json:"n"`
			} `json:"a"`
			O *struct {
				M map[string]json.RawMessage `json:"m"`
			} `json:"o"`
		} `json:"nm"`
	}
	if json.Unmarshal(snap, &doc) != nil {
		return
	}
	key := func(raw json.RawMessage) string {
		var m map[string]interface{}
		if len(raw) == 0 || json.Unmarshal(raw, &m) != nil || m == nil {
			return ""
		}
		b, _ := json.Marshal(m)
		return string(b)
	}
	parentOf := map[string]string{}
	for _, n := range doc.NM {
		parentOf[key(n.C)] = key(n.P)
	}
	referencedBy := map[string]string{}
	bad := func(sig, what string) {
		w.c.Violate("C15", sig, what, w.desc)
	}
	for _, n := range doc.NM {
		self := key(n.C)
		ref := func(child, slot string) bool {
			if child == "" {
				return true
			}
			if prev, dup := referencedBy[child]; dup {
				bad("document-identifier-shared", fmt.Sprintf("the element identified by %s is referenced twice: by %s and by %s of container %s (two distinct elements share one identifier)", child, prev, slot, self))
				return false
			}
			referencedBy[child] = self + " " + slot
			if p, known := parentOf[child]; known && p != self {
				bad("document-identifier-shared", fmt.Sprintf("container %s holds %s under %s, but the node with that identifier belongs to %s (two distinct elements share one identifier)", self, child, slot, p))
				return false
			}
			return true
		}
		if n.O != nil {
			ks := make([]string, 0, len(n.O.M))
			for k := range n.O.M {
				ks = append(ks, k)
			}
			sort.Strings(ks)
			for _, k := range ks {
				if !ref(key(n.O.M[k]), "member "+k) {
					return
				}
			}
		}
		if n.A != nil {
			orders := map[string]bool{}
			for i, pair := range n.A.N {
				o := key(pair[0])
				if orders[o] {
					bad("document-array-order-identifier-shared", fmt.Sprintf("array %s holds two slots with the order identifier %s", self, o))
					return
				}
				orders[o] = true
				if !ref(key(pair[1]), fmt.Sprintf("slot %d", i)) {
					return
				}
			}
		}
	}
	w.c.Count("doc-identifiers-checked")
}

// nullCalls: calls the model cannot express (its values have no null) and that must be refused without a trace — a null
// value, alone or inside a list or a map, given to PutToObject / InsertToArray / UpdateManyInArray, and GetByPath with an
// array index below 0 or beyond the array: an error, no panic, the readable value, the operations awaiting push and the
// operation id as before (C03).  The unrepaired code panicked on each of them, after the operation id had been taken.
func (w *dworld) nullCalls(ri int) {
	r := w.reps[ri]
	before := r.value()
	nb := len(r.pending())
	idb := r.metaOpID()
	var cs [][]interface{}
	containers(before, nil, &cs)
	path := cs[w.c.Rng.Intn(len(cs))]
	sub, ok := walk(r.doc, path)
	if !ok {
		return
	}
	nulls := []interface{}{nil, []interface{}{1, nil}, map[string]interface{}{"a": nil, "b": 1}, []interface{}{map[string]interface{}{"x": []interface{}{nil}}}}
	v := nulls[w.c.Rng.Intn(len(nulls))]
	var err error
	what := ""
	p, msg := guarded(func() {
		switch t := getAt(before, path).(type) {
		case map[string]interface{}:
			what = fmt.Sprintf("%s.PutToObject(\"k\",%s)", pathStr(path), jsonStr(v))
			_, err = sub.PutToObject("k", v)
		case []interface{}:
			if len(t) > 0 && w.c.Rng.Intn(2) == 0 {
				what = fmt.Sprintf("%s.UpdateManyInArray(0,%s)", pathStr(path), jsonStr(v))
				_, err = sub.UpdateManyInArray(0, v)
			} else {
				what = fmt.Sprintf("%s.InsertToArray(0,%s)", pathStr(path), jsonStr(v))
				_, err = sub.InsertToArray(0, v)
			}
		}
	})
	w.desc = append(w.desc, fmt.Sprintf("r%d%s", ri, what))
	after := r.value()
	switch {
	case p:
		w.c.Violate("C03", "panic-document", fmt.Sprintf("Document call %s with a null value panicked: %s", what, msg), w.desc)
		panic("document call panicked")
	case what != "" && isNilErr(err):
		w.c.Violate("C03", "document-invalid-call-accepted", fmt.Sprintf("the call %s with a null value was accepted and the document now reads %s", what, jsonStr(after)), w.desc)
	case !reflect.DeepEqual(after, before) || len(r.pending()) != nb || r.metaOpID() != idb:
		w.c.Violate("C03", "document-failed-call-left-a-trace", fmt.Sprintf("the refused call %s changed the document, its pending operations (%d -> %d) or its operation id (%s -> %s)", what, nb, len(r.pending()), idb, r.metaOpID()), w.desc)
	}
	// paths through an array with an index that is not there
	for _, cp := range cs {
		l, isArr := getAt(before, cp).([]interface{})
		plainKeys := true // GetByPath splits at '/': keys holding one would name another path
		for _, x := range cp {
			if k, isKey := x.(string); isKey && (strings.Contains(k, "/") || k == "") {
				plainKeys = false
			}
		}
		if !isArr || !plainKeys {
			continue
		}
		for _, idx := range []int{len(l), len(l) + 5, -1} {
			ps := pathStr(append(append([]interface{}{}, cp...), idx))
			var perr error
			pp, pmsg := guarded(func() { _, perr = r.doc.GetByPath(ps) })
			if pp {
				w.desc = append(w.desc, fmt.Sprintf("r%d.GetByPath(%q)", ri, ps))
				w.c.Violate("C03", "panic-document", fmt.Sprintf("GetByPath(%q) on %s panicked: %s", ps, jsonStr(before), pmsg), w.desc)
				panic("document call panicked")
			}
			if isNilErr(perr) {
				w.c.Violate("C03", "document-invalid-call-accepted", fmt.Sprintf("GetByPath(%q) on %s returned no error", ps, jsonStr(before)), w.desc)
			}
		}
		break
	}
	w.c.Count("doc-null-calls")
}

func (w *dworld) tx(ri int) {
	r := w.reps[ri]
	before := r.value()
	nb := len(r.pending())
	idb := r.metaOpID()
	fail := w.c.Rng.Intn(3) == 0
	n := 1 + w.c.Rng.Intn(3)
	cur := plainCopy(before)
	var descs, gcalls, gobs []string
	tag := fmt.Sprintf("tx%d", w.c.Rng.Intn(1000))
	p, msg := guarded(func() {
		_ = r.doc.Transaction(tag, func(d orda.DocumentInTx) error {
			root := d.(orda.Document)
			for i := 0; i < n; i++ {
				cs := w.rndCall(plainCopy(cur))
				want, ok := cs.plain(plainCopy(cur))
				err := cs.run(root)
				descs = append(descs, cs.desc)
				gcalls = append(gcalls, cs.gal)
				if err == nil {
					gobs = append(gobs, "(OOk RNil)")
				} else {
					gobs = append(gobs, "OFail")
				}
				if ok && err == nil {
					cur = want
				} else if ok != (err == nil) {
					w.c.Violate("C03", "document-call-in-transaction", fmt.Sprintf("inside a transaction the call %s on %s: valid=%v, error=%v", cs.desc, jsonStr(cur), ok, err), w.desc)
				}
			}
			if fail {
				return fmt.Errorf("abort")
			}
			return nil
		})
	})
	w.desc = append(w.desc, fmt.Sprintf("r%d.Transaction{%s; fail=%v}", ri, strings.Join(descs, "; "), fail))
	if p {
		w.c.Violate("C09", "panic-document-transaction", "a Document transaction panicked: "+msg, w.desc)
		panic("document transaction panicked")
	}
	after := r.value()
	w.evs = append(w.evs, fmt.Sprintf("ETx %s %s %s %s %s %s 0%%Z", gNat(ri), gStr(tag), gList(gcalls), gBool(fail), gList(gobs), r.gView()))
	if fail {
		if !reflect.DeepEqual(after, before) || len(r.pending()) != nb || r.metaOpID() != idb {
			w.c.Violate("C09", "abort-not-restored-document", fmt.Sprintf("an aborted Document transaction left value %s (before %s), %d queued operations (before %d), operation id %s (before %s)", jsonStr(after), jsonStr(before), len(r.pending()), nb, r.metaOpID(), idb), w.desc)
		}
		w.c.Count("doc-tx-aborted")
		return
	}
	if !reflect.DeepEqual(after, cur) {
		w.c.Violate("C03", "document-differs-from-plain-json", fmt.Sprintf("after a committed transaction the document reads %s, the plain JSON value reads %s", jsonStr(after), jsonStr(cur)), w.desc)
	}
	newOps := r.pending()[nb:]
	if len(newOps) > 0 {
		if newOps[0].OpType != model.TypeOfOperation_TRANSACTION {
			w.c.Violate("C09", "unit-header-missing", "a committed Document transaction does not start with a TRANSACTION operation", w.desc)
		} else if k := operations.ModelToOperation(newOps[0]).(*operations.TransactionOperation).GetNumOfOps(); int(k) != len(newOps) {
			w.c.Violate("C09", "unit-length-wrong", fmt.Sprintf("transaction header announces %d operations, unit has %d", k, len(newOps)), w.desc)
		}
	}
	w.c.Count("doc-tx-committed")
}

// mutate returns a target derived from v: values changed, keys added/removed, types changed at a path, arrays grown/shrunk/reordered
func (w *dworld) mutate(v interface{}, depth int) interface{} {
	rng := w.c.Rng
	switch t := v.(type) {
	case map[string]interface{}:
		out := map[string]interface{}{}
		for k, e := range t {
			switch rng.Intn(6) {
			case 0: // dropped
			case 1:
				out[k] = w.rndJSON(depth + 1)
			default:
				out[k] = w.mutate(e, depth+1)
			}
		}
		if rng.Intn(3) == 0 {
			out[[]string{"new", "a/b", "m~n", "k", "q~1", "~~0"}[rng.Intn(6)]] = w.rndJSON(depth + 1)
		}
		return out
	case []interface{}:
		out := []interface{}{}
		for _, e := range t {
			switch rng.Intn(6) {
			case 0:
			case 1:
				out = append(out, w.rndJSON(depth+1))
			default:
				out = append(out, w.mutate(e, depth+1))
			}
		}
		for rng.Intn(3) == 0 {
			out = append(out, w.rndJSON(depth+1))
		}
		if len(out) > 1 && rng.Intn(4) == 0 { // the same elements in another order
			rng.Shuffle(len(out), func(i, j int) { out[i], out[j] = out[j], out[i] })
		}
		return out
	}
	if rng.Intn(4) == 0 {
		return w.rndJSON(depth + 1)
	}
	return v
}

func (w *dworld) patch(ri int) {
	r := w.reps[ri]
	before := r.value()
	nb := len(r.pending())
	target := w.mutate(plainCopy(before), 0)
	tj := jsonStr(target)
	var err error
	var patches []jsondiff.Operation
	p, msg := guarded(func() { patches, err = r.doc.PatchByJSON(tj) })
	w.desc = append(w.desc, fmt.Sprintf("r%d.PatchByJSON(%s) on %s", ri, tj, jsonStr(before)))
	if p {
		w.c.Violate("C19", "panic-patch", fmt.Sprintf("PatchByJSON(%s) on %s panicked: %s", tj, jsonStr(before), msg), w.desc)
		panic("patch panicked")
	}
	after := r.value()
	if !isNilErr(err) {
		w.c.Violate("C19", "patch-failed", fmt.Sprintf("PatchByJSON(%s) on %s failed: %v (document now %s)", tj, jsonStr(before), err, jsonStr(after)), w.desc)
	} else if !reflect.DeepEqual(after, plainCopy(target)) {
		w.c.Violate("C19", "patch-misses-target", fmt.Sprintf("PatchByJSON(%s) on %s leaves the document at %s", tj, jsonStr(before), jsonStr(after)), w.desc)
	}
	newOps := r.pending()[nb:]
	if isNilErr(err) {
		var gp, gobs []string
		for _, po := range patches {
			ty := map[string]string{"add": "PAdd", "remove": "PRemove", "replace": "PReplace"}[string(po.Type)]
			if ty == "" {
				w.c.Violate("C19", "patch-operation-unsupported", fmt.Sprintf("the diff produced a %q operation", po.Type), w.desc)
				panic("unsupported patch operation")
			}
			val := "(VNum 0%Z)"
			if po.Value != nil {
				val = gVal(po.Value)
			}
			gp = append(gp, fmt.Sprintf("(UPatch (mkPatch %s %s %s))", ty, gStr(po.Path.String()), val))
			gobs = append(gobs, "(OOk RNil)")
		}
		switch {
		case len(patches) == 1:
			w.evs = append(w.evs, fmt.Sprintf("ELocal %s %s (OOk RNil) %s 0%%Z", gNat(ri), gp[0], r.gView()))
		case len(patches) > 1 && len(newOps) > 0 && newOps[0].OpType == model.TypeOfOperation_TRANSACTION:
			tag := operations.ModelToOperation(newOps[0]).(*operations.TransactionOperation).GetBody().Tag
			w.evs = append(w.evs, fmt.Sprintf("ETx %s %s %s false %s %s 0%%Z", gNat(ri), gStr(tag), gList(gp), gList(gobs), r.gView()))
		}
	} else {
		panic("patch failed") // the model cannot follow a patch that stopped half-way
	}
	if len(newOps) > 1 {
		if newOps[0].OpType != model.TypeOfOperation_TRANSACTION {
			w.c.Violate("C19", "patch-not-one-unit", fmt.Sprintf("PatchByJSON emitted %d operations that are not one transaction unit", len(newOps)), w.desc)
		} else if k := operations.ModelToOperation(newOps[0]).(*operations.TransactionOperation).GetNumOfOps(); int(k) != len(newOps) {
			w.c.Violate("C19", "patch-not-one-unit", fmt.Sprintf("the unit of PatchByJSON announces %d operations, %d were emitted", k, len(newOps)), w.desc)
		}
	}
	if !reflect.DeepEqual(before, plainCopy(target)) {
		w.nontr = true
	}
	w.c.Count("doc-patch")
	w.c.CountN("doc-patch-operations", len(newOps))
}

func (w *dworld) push(ri int) {
	r := w.reps[ri]
	ops := r.pending()
	for _, o := range ops {
		w.log = append(w.log, logEntry{o, ri})
	}
	r.cseq += uint64(len(ops))
	r.dt.SetCheckPoint(uint64(r.cursor), r.cseq)
	w.evs = append(w.evs, fmt.Sprintf("EPush %s %s", gNat(ri), gOps(ops)))
	w.desc = append(w.desc, fmt.Sprintf("push r%d (%d ops)", ri, len(ops)))
}

func (w *dworld) unitEnd(i int) int {
	mop := w.log[i].op
	if mop.OpType == model.TypeOfOperation_TRANSACTION {
		return i + int(operations.ModelToOperation(mop).(*operations.TransactionOperation).GetNumOfOps())
	}
	return i + 1
}

func (w *dworld) deliver(ri int, units int) {
	r := w.reps[ri]
	end := r.cursor
	for u := 0; u < units && end < len(w.log); u++ {
		end = w.unitEnd(end)
	}
	if end > len(w.log) {
		end = len(w.log)
	}
	var foreign []*model.Operation
	for i := r.cursor; i < end; i++ {
		if w.log[i].author != ri {
			foreign = append(foreign, w.log[i].op)
		}
	}
	hadOwn := len(r.pending()) > 0
	n := end - r.cursor
	_, derr := r.dt.ReceiveRemoteModelOperations(foreign, false)
	if derr != nil {
		w.c.Violate("C01", "document-delivery-failed", fmt.Sprintf("replica %d cannot apply %d operations of the log: %v", ri, len(foreign), derr), w.desc)
	}
	r.cursor = end
	w.evs = append(w.evs, fmt.Sprintf("EDeliver %s %s %s %s 0%%Z", gNat(ri), gNat(n), gBool(derr == nil), r.gView()))
	w.desc = append(w.desc, fmt.Sprintf("deliver r%d up to %d (%d foreign)", ri, end, len(foreign)))
	if len(foreign) > 0 && hadOwn {
		w.nontr = true
	}
}

// replicas that have applied exactly the same operations read the same value
func (w *dworld) checkConvergence() {
	// what a replica has applied: the log up to its cursor plus its own operations; two replicas have applied the same
	// set when their cursors agree and neither has own operations beyond the cursor
	clean := func(r *drep) bool {
		if len(r.pending()) > 0 {
			return false
		}
		for i := r.cursor; i < len(w.log); i++ {
			if w.log[i].author == r.idx {
				return false
			}
		}
		return true
	}
	for i, a := range w.reps {
		for _, b := range w.reps[i+1:] {
			if a.cursor == b.cursor && clean(a) && clean(b) {
				va, vb := a.value(), b.value()
				if !reflect.DeepEqual(va, vb) {
					w.c.Violate("C01", "divergence-document", fmt.Sprintf("replicas %d and %d have applied the same %d log entries and read %s / %s", a.idx, b.idx, a.cursor, jsonStr(va), jsonStr(vb)), w.desc)
				}
				w.c.Count("doc-convergence-compared")
			}
		}
	}
}

func (w *dworld) snapshotCheck(ri int) {
	r := w.reps[ri]
	meta, snap, err := r.dt.GetMetaAndSnapshot()
	if err != nil {
		w.c.Violate("C10", "document-snapshot-export-failed", err.Error(), w.desc)
		return
	}
	cl := orda.NewClient(orda.NewLocalClientConfig("col"), "restored")
	nd := cl.CreateDocument("k", nil)
	ni := nd.(iface.Datatype)
	p, msg := guarded(func() { err = ni.SetMetaAndSnapshot(meta, snap) })
	if p || err != nil {
		w.c.Violate("C10", "document-snapshot-import-failed", fmt.Sprintf("a snapshot exported by a replica cannot be imported: %v %s", err, msg), w.desc)
		return
	}
	if !reflect.DeepEqual(plainCopy(nd.GetValue()), r.value()) {
		w.c.Violate("C10", "restored-document-differs", fmt.Sprintf("the restored document reads %s, the original %s", jsonStr(nd.GetValue()), jsonStr(r.value())), w.desc)
	}
	// continuation: the rest of the log applied to both
	var rest []*model.Operation
	for i := r.cursor; i < len(w.log); i++ {
		if w.log[i].author != ri {
			rest = append(rest, w.log[i].op)
		}
	}
	if len(rest) > 0 {
		n := len(w.log) - r.cursor
		_, e1 := r.dt.ReceiveRemoteModelOperations(rest, false)
		_, e2 := ni.ReceiveRemoteModelOperations(rest, false)
		r.cursor = len(w.log)
		w.evs = append(w.evs, fmt.Sprintf("EDeliver %s %s %s %s 0%%Z", gNat(ri), gNat(n), gBool(e1 == nil), r.gView()))
		if (e1 == nil) != (e2 == nil) || !reflect.DeepEqual(plainCopy(nd.GetValue()), r.value()) {
			w.c.Violate("C10", "document-continuation-differs", fmt.Sprintf("after %d further operations the restored document reads %s, the original %s", len(rest), jsonStr(nd.GetValue()), jsonStr(r.value())), w.desc)
		}
	}
	// ... and local calls on the restored instance alone (the original must stay as the model knows it): error paths answer
	// with an error as on any document, and an aborted transaction brings the restored instance back to the imported state
	want := r.value()
	var conts [][]interface{}
	containers(want, nil, &conts)
	for _, cp := range conts {
		if _, isObj := getAt(want, cp).(map[string]interface{}); !isObj {
			continue
		}
		sub, ok := walk(nd, cp)
		if !ok {
			continue
		}
		var derr error
		pp, pmsg := guarded(func() { _, derr = sub.DeleteInObject("never-there") })
		if pp || isNilErr(derr) {
			w.c.Violate("C10", "restored-document-error-path-differs", fmt.Sprintf("deleting a missing key of the object at %s of a restored document: panic=%v %s err=%v (any document answers with an error)", pathStr(cp), pp, pmsg, derr), w.desc)
			return
		}
	}
	pa, amsg := guarded(func() {
		_ = nd.Transaction("c10", func(d orda.DocumentInTx) error {
			root := d.(orda.Document)
			if _, isObj := want.(map[string]interface{}); isObj {
				_, _ = root.PutToObject("c10-a", w.rndJSON(1))
				_, _ = root.PutToObject("c10-b", "x")
			} else {
				_, _ = root.InsertToArray(0, "x", w.rndJSON(1))
			}
			return fmt.Errorf("abort")
		})
	})
	if pa || !reflect.DeepEqual(plainCopy(nd.GetValue()), want) {
		w.c.Violate("C10", "restored-document-abort-differs", fmt.Sprintf("after an aborted transaction the restored document reads %s, the original (and the restored one before it) %s %s", jsonStr(nd.GetValue()), jsonStr(want), amsg), w.desc)
	}
	w.c.Count("doc-snapshot-checked")
}

func newDocWorld(c *Ctx, n int) *dworld {
	w := &dworld{c: c}
	for i := 0; i < n; i++ {
		cl := orda.NewClient(orda.NewLocalClientConfig("col"), fmt.Sprintf("c%d", i))
		var d orda.Document
		if i == 0 {
			d = cl.CreateDocument("k", nil)
		} else {
			d = cl.SubscribeDocument("k", nil)
		}
		w.reps = append(w.reps, &drep{idx: i, doc: d, dt: d.(iface.Datatype)})
	}
	_, snap, err := w.reps[0].dt.GetMetaAndSnapshot()
	if err != nil {
		panic(err)
	}
	for i := 1; i < n; i++ {
		sop := operations.NewSnapshotOperation(model.TypeOfDatatype_DOCUMENT, snap)
		w.reps[i].dt.ApplyPushPullPack(&model.PushPullPack{Key: "k", DUID: w.reps[0].dt.GetDUID(), Option: uint32(model.PushPullBitSubscribe),
			CheckPoint: &model.CheckPoint{Sseq: 1, Cseq: 0}, Type: model.TypeOfDatatype_DOCUMENT, Operations: []*model.Operation{sop.ToModelOperation()}})
		w.reps[i].cursor = 1
	}
	w.push(0)
	// a shared start: one array and one object that every replica knows
	w.localWith(0, dcall{"(UCall (DPut [] " + gStr("arr") + " " + gVal([]interface{}{"x", "y", "z"}) + "))", "/.PutToObject(\"arr\",[x y z])",
		func(v interface{}) (interface{}, bool) {
			v.(map[string]interface{})["arr"] = []interface{}{"x", "y", "z"}
			return v, true
		},
		func(root orda.Document) error {
			_, err := root.PutToObject("arr", []interface{}{"x", "y", "z"})
			if isNilErr(err) {
				return nil
			}
			return err
		}})
	w.localWith(0, dcall{"(UCall (DPut [] " + gStr("obj") + " " + gVal(map[string]interface{}{"a": 1.0}) + "))", "/.PutToObject(\"obj\",{a:1})",
		func(v interface{}) (interface{}, bool) {
			v.(map[string]interface{})["obj"] = map[string]interface{}{"a": 1.0}
			return v, true
		},
		func(root orda.Document) error {
			_, err := root.PutToObject("obj", map[string]interface{}{"a": 1.0})
			if isNilErr(err) {
				return nil
			}
			return err
		}})
	w.push(0)
	for i := 1; i < n; i++ {
		w.deliver(i, 1<<20)
	}
	return w
}

func sliceDoc(c *Ctx) {
	n := c.N
	if n == 0 {
		n = 200
	}
	c.Res.Rule = "random histories on 2..4 real Document replicas: calls on a random container of the current tree (put/delete in objects, insert/update/delete in arrays, valid and invalid, nested values up to depth 3, keys needing JSON-pointer escaping), transactions (commit/abort), PatchByJSON to targets derived from the current value (values changed, keys dropped/added, types changed, arrays grown/shrunk/reordered), pushes to one log, deliveries in log order, snapshot export/import with continuation; oracles: plain JSON value transformed by the same call, equality of replicas with equal applied sets, abort restores value/id/buffer, patch reads exactly the target as one unit; non-trivial = foreign operations arrived while own ones were unpushed, or a patch changed the value"
	var cases []string
	for h := 0; h < n; h++ {
		nrep := 2 + c.Rng.Intn(3)
		w := newDocWorld(c, nrep)
		p, msg := guarded(func() {
			steps := 8 + c.Rng.Intn(25)
			for s := 0; s < steps; s++ {
				ri := c.Rng.Intn(nrep)
				switch k := c.Rng.Intn(100); {
				case k < 6:
					w.cur = "local call"
					w.staleCall(ri)
				case k < 9:
					w.cur = "null value / path out of range"
					w.nullCalls(ri)
				case k < 52:
					w.cur = "local call"
					w.local(ri)
				case k < 59:
					w.cur = "transaction"
					w.tx(ri)
				case k < 67:
					w.cur = "patch"
					w.patch(ri)
				case k < 82:
					w.cur = "push"
					w.push(ri)
				default:
					w.cur = "delivery"
					w.deliver(ri, 1+c.Rng.Intn(3))
				}
				w.checkConvergence()
			}
			for ri := range w.reps {
				w.push(ri)
			}
			if nrep > 1 {
				w.cur = "snapshot"
				w.snapshotCheck(c.Rng.Intn(nrep))
			}
			for ri := range w.reps {
				w.cur = "delivery"
				w.deliver(ri, 1<<20)
			}
			w.checkConvergence()
		})
		if p {
			if !strings.Contains(msg, "panicked") {
				prop := map[string]string{"local call": "C03", "transaction": "C09", "patch": "C19", "push": "C15", "delivery": "C01", "snapshot": "C10"}[w.cur]
				c.Violate(prop, "panic-in-document-"+strings.ReplaceAll(w.cur, " ", "-"), fmt.Sprintf("the implementation panicked during a %s: %s", w.cur, msg), w.desc)
			}
			c.Count("history-ended-by-panic")
			continue
		}
		cu := make([]string, nrep)
		for i, r := range w.reps {
			cu[i] = gStr(r.dt.GetCUID())
		}
		cases = append(cases, fmt.Sprintf("mkHist %s [\n     %s]", gList(cu), strings.Join(w.evs, ";\n     ")))
		c.Distinct(strings.Join(w.desc, "|"), w.nontr)
		c.Sample(map[string]interface{}{"replicas": nrep, "script": w.desc})
	}
	c.Res.Cases = len(cases)
	c.WriteCases("Doc", "Base Time Ops Counter Map List Snapshot Datatype Replicas CheckCrdt Doc CheckDoc", "dhist", "check_doc", cases, 25)
}
