package main

import (
	"io"

	"encoding/json"
	"flag"
	"fmt"
	ordalog "github.com/orda-io/orda/client/pkg/log"
	"math/rand"
	"os"
	"path/filepath"
	"sort"
	"strings"
)

// Violation is a property failure observed on the implementation (oracle) —
// independent of the Coq model.
type Violation struct {
	Property  string      `json:"property"`
	Signature string      `json:"signature"`
	What      string      `json:"what"`
	Replay    interface{} `json:"replay"`
}

// Result is what one slice run reports to bin/check.
type Result struct {
	Slice        string         `json:"slice"`
	Seed         int64          `json:"seed"`
	Tier         string         `json:"tier"`
	Cases        int            `json:"cases"`
	Nontrivial   int            `json:"distinct_nontrivial"`
	Rule         string         `json:"rule"`
	Samples      []interface{}  `json:"samples"`
	Distribution map[string]int `json:"distribution"`
	Violations   []Violation    `json:"violations"`
	CaseFiles    []string       `json:"case_files"`
	Exhaustive   bool           `json:"exhaustive,omitempty"`
	Notes        []string       `json:"notes,omitempty"`
}

// Ctx is handed to a slice.
type Ctx struct {
	Seed     int64
	Tier     string
	N        int
	Out      string
	Rng      *rand.Rand
	Res      *Result
	Replay   string // path of a replay file, when replaying
	Faults   bool   // inject message faults (duplicate request, dropped response)
	DbFaults bool   // make storage commands fail
	seen     map[string]bool
}

func (c *Ctx) Count(k string)         { c.Res.Distribution[k]++ }
func (c *Ctx) CountN(k string, n int) { c.Res.Distribution[k] += n }

// Distinct registers a case fingerprint; nontrivial says whether it counts.
func (c *Ctx) Distinct(fp string, nontrivial bool) {
	if !nontrivial {
		return
	}
	if !c.seen[fp] {
		c.seen[fp] = true
		c.Res.Nontrivial++
	}
}

func (c *Ctx) Sample(s interface{}) {
	if len(c.Res.Samples) < 3 {
		c.Res.Samples = append(c.Res.Samples, s)
	}
}

func (c *Ctx) Violate(prop, sig, what string, replay interface{}) {
	// at most three examples per (property, signature), so that one frequent violation does not crowd out the others
	k := 0
	for _, v := range c.Res.Violations {
		if v.Property == prop && v.Signature == sig {
			k++
		}
	}
	if k < 3 && len(c.Res.Violations) < 120 {
		c.Res.Violations = append(c.Res.Violations, Violation{prop, sig, what, replay})
	}
}

// Suspect leaves a note on disk before a step that may take the whole process down (the service runs in this process): if
// the process dies, the check finds the note and reports it as the violation, with the history as replay.  ClearSuspect
// removes it when the step came back.
func (c *Ctx) Suspect(prop, sig, what string, replay interface{}) {
	b, _ := json.Marshal(Violation{prop, sig, what, replay})
	_ = os.WriteFile(filepath.Join(c.Out, "suspect.json"), b, 0o644)
}
func (c *Ctx) ClearSuspect() { _ = os.Remove(filepath.Join(c.Out, "suspect.json")) }

// WriteCases writes Gallina case shards: header imports, a list named `cases`
// of type `ty`, and the mismatch evaluation with checker `chk`.
func (c *Ctx) WriteCases(name, imports, ty, chk string, cases []string, shard int) {
	if shard <= 0 {
		shard = 500
	}
	for i, k := 0, 0; i < len(cases); i, k = i+shard, k+1 {
		j := i + shard
		if j > len(cases) {
			j = len(cases)
		}
		fn := filepath.Join(c.Out, fmt.Sprintf("%s_%d.v", name, k))
		var sb strings.Builder
		sb.WriteString("From Orda.Model Require Import " + imports + ".\n")
		sb.WriteString("Definition cases : list " + ty + " := [\n")
		for x := i; x < j; x++ {
			sb.WriteString("  " + cases[x])
			if x+1 < j {
				sb.WriteString(";")
			}
			sb.WriteString("\n")
		}
		sb.WriteString("].\n")
		sb.WriteString("Definition M := Eval vm_compute in mismatches " + chk + " cases.\nPrint M.\n")
		if err := os.WriteFile(fn, []byte(sb.String()), 0o644); err != nil {
			panic(err)
		}
		c.Res.CaseFiles = append(c.Res.CaseFiles, fmt.Sprintf("%s:%d", fn, i))
	}
}

type sliceFn func(c *Ctx)

var slices = map[string]sliceFn{}

func main() {
	// the implementation creates an INFO logger per context writing to os.Stderr at creation time
	if dn, err := os.OpenFile(os.DevNull, os.O_WRONLY, 0); err == nil && os.Getenv("VERIF_LOGS") == "" {
		os.Stderr = dn
		ordalog.Logger.Logger.SetOutput(io.Discard) // the package-level logger was created before the redirection
	}
	seed := flag.Int64("seed", 1, "PRNG seed")
	tier := flag.String("tier", "quick", "quick|thorough")
	n := flag.Int("n", 0, "number of cases (0 = tier default)")
	out := flag.String("out", "", "output directory")
	replay := flag.String("replay", "", "replay file")
	faults := flag.Bool("faults", false, "inject message faults")
	dbfaults := flag.Bool("dbfaults", false, "make storage commands fail")
	flag.Parse()
	if flag.NArg() < 1 {
		names := []string{}
		for k := range slices {
			names = append(names, k)
		}
		sort.Strings(names)
		fmt.Println("usage: harness [flags] <slice>; slices:", strings.Join(names, " "))
		os.Exit(2)
	}
	name := flag.Arg(0)
	fn, ok := slices[name]
	if !ok {
		fmt.Println("unknown slice", name)
		os.Exit(2)
	}
	if *out == "" {
		fmt.Println("-out required")
		os.Exit(2)
	}
	_ = os.MkdirAll(*out, 0o755)
	res := &Result{Slice: name, Seed: *seed, Tier: *tier, Distribution: map[string]int{}, Samples: []interface{}{}, Violations: []Violation{}, CaseFiles: []string{}}
	c := &Ctx{Seed: *seed, Tier: *tier, N: *n, Out: *out, Rng: rand.New(rand.NewSource(*seed)), Res: res, Replay: *replay, Faults: *faults, DbFaults: *dbfaults, seen: map[string]bool{}}
	fn(c)
	b, _ := json.MarshalIndent(res, "", " ")
	if err := os.WriteFile(filepath.Join(*out, name+".json"), b, 0o644); err != nil {
		panic(err)
	}
	fmt.Printf("slice=%s cases=%d nontrivial=%d violations=%d\n", name, res.Cases, res.Nontrivial, len(res.Violations))
}
