package main

// Slice conc-<kind> (C20): several goroutines use ONE real datatype at the same time, together with a
// goroutine that keeps building push-pull packs (what a background sync does).  Afterwards the order in
// which the calls took effect is read off the push buffer (every call carries a unique value), the calls
// are replayed in that order on the sequential model (their returned values, the emitted operations and
// the final state must agree: the concurrent run is equivalent to that one-at-a-time run), and Go oracles
// check that nothing was lost, duplicated, reordered, interleaved into a transaction, and that nothing
// deadlocked or panicked.  A second concurrent phase adds remote operations applied while the goroutines
// run; its result is judged against a replica that applied everything sequentially.

import (
	"fmt"
	"runtime"
	"strings"
	"sync"
	"sync/atomic"
	"time"

	"github.com/orda-io/orda/client/pkg/model"
	"github.com/orda-io/orda/client/pkg/operations"
	"github.com/orda-io/orda/client/pkg/orda"
)

func init() {
	slices["conc-counter"] = func(c *Ctx) { sliceConc(c, "counter") }
	slices["conc-map"] = func(c *Ctx) { sliceConc(c, "map") }
	slices["conc-list"] = func(c *Ctx) { sliceConc(c, "list") }
}

type ccall struct {
	spec callSpec
	key  string // identifies the operation this call emits
}

type cunit struct {
	g     int
	tx    bool
	fail  bool
	tag   string
	calls []ccall
	yield int // what the goroutine does before this unit: 0 nothing, 1 Gosched, 2 a short sleep
	obs   []string
	pos   int
	ran   bool
}

var concSerial int

// concScript prepares the units of one goroutine; validity of every call is independent of what the others do
func (w *world) concScript(g, n int, phase string) []*cunit {
	rng := w.c.Rng
	var units []*cunit
	ownPresent := false
	ownKey := fmt.Sprintf("own%d", g)
	ownElems := 0
	mk := func(inFailing bool, inTxInserted *int) ccall {
		concSerial++
		id := concSerial
		switch w.kind {
		case "counter":
			d := int32(id)
			if rng.Intn(2) == 0 {
				d = -d
			}
			return ccall{callSpec{fmt.Sprintf("(CInc %s)", gZ(int64(d))), fmt.Sprintf("IncreaseBy(%d)", d), func(r *replica) (string, error) {
				v, err := r.ctr.IncreaseBy(d)
				if !isNilErr(err) {
					return "", err
				}
				return "(RVal " + gVal(v) + ")", nil
			}}, fmt.Sprintf("inc:%d", d)}
		case "map":
			if !inFailing && ownPresent && rng.Intn(3) == 0 {
				ownPresent = false
				return ccall{callSpec{fmt.Sprintf("(MRemove %s)", gStr(ownKey)), fmt.Sprintf("Remove(%q)", ownKey), func(r *replica) (string, error) {
					v, err := r.mp.Remove(ownKey)
					if !isNilErr(err) {
						return "", err
					}
					if v == nil {
						return "RNil", nil
					}
					return "(RVal " + gVal(v) + ")", nil
				}}, "rm:" + ownKey}
			}
			k := []string{"a", "b", "c"}[rng.Intn(3)]
			if !inFailing && rng.Intn(3) == 0 {
				k = ownKey
				ownPresent = true
			}
			v := fmt.Sprintf("v%d", id)
			return ccall{callSpec{fmt.Sprintf("(MPut %s %s)", gStr(k), gVal(v)), fmt.Sprintf("Put(%q,%v)", k, v), func(r *replica) (string, error) {
				old, err := r.mp.Put(k, v)
				if !isNilErr(err) {
					return "", err
				}
				if old == nil {
					return "RNil", nil
				}
				return "(RVal " + gVal(old) + ")", nil
			}}, "put:" + v}
		default:
			bound := ownElems // includes what this (committing) transaction has inserted so far
			if inFailing {
				bound = 0
				if inTxInserted != nil {
					bound = *inTxInserted
				}
			}
			pos := 0
			if bound > 0 {
				pos = rng.Intn(bound + 1)
			}
			nv := 1 + rng.Intn(2)
			vs := make([]interface{}, nv)
			for i := range vs {
				concSerial++
				vs[i] = fmt.Sprintf("e%d", concSerial)
			}
			if inTxInserted != nil {
				*inTxInserted += nv
			}
			if !inFailing {
				ownElems += nv
			}
			return ccall{callSpec{fmt.Sprintf("(LInsert %s %s)", gZ(int64(pos)), gVals(vs)), fmt.Sprintf("InsertMany(%d,%v)", pos, vs), func(r *replica) (string, error) {
				ret, err := r.li.InsertMany(pos, vs...)
				if !isNilErr(err) {
					return "", err
				}
				if ret == nil {
					return "(RVals [])", nil
				}
				return "(RVals " + gVals(ret.([]interface{})) + ")", nil
			}}, fmt.Sprintf("ins:%v", vs[0])}
		}
	}
	for i := 0; i < n; i++ {
		u := &cunit{g: g, yield: rng.Intn(3), pos: -1}
		if rng.Intn(4) == 0 {
			u.tx = true
			u.fail = rng.Intn(3) == 0
			concSerial++
			u.tag = fmt.Sprintf("%s%d", phase, concSerial)
			inTx := 0
			for j, m := 0, 1+rng.Intn(3); j < m; j++ {
				u.calls = append(u.calls, mk(u.fail, &inTx))
			}
			if u.fail && w.kind == "list" {
				// the elements of an aborted transaction vanish
			}
		} else {
			u.calls = []ccall{mk(false, nil)}
		}
		units = append(units, u)
	}
	return units
}

func (w *world) runUnit(r *replica, u *cunit) {
	run := func(sub *replica, cc ccall) {
		var res string
		var err error
		p, _ := guarded(func() { res, err = cc.spec.run(sub) })
		u.obs = append(u.obs, obsOf(res, err, p))
	}
	if !u.tx {
		run(r, u.calls[0])
		u.ran = true
		return
	}
	body := func(sub *replica) error {
		for _, cc := range u.calls {
			run(sub, cc)
		}
		if u.fail {
			return fmt.Errorf("abort")
		}
		return nil
	}
	switch w.kind {
	case "counter":
		_ = r.ctr.Transaction(u.tag, func(c orda.CounterInTx) error {
			sub := *r
			sub.ctr = txCounter{c, r.ctr}
			return body(&sub)
		})
	case "map":
		_ = r.mp.Transaction(u.tag, func(m orda.MapInTx) error {
			sub := *r
			sub.mp = txMap{m, r.mp}
			return body(&sub)
		})
	case "list":
		_ = r.li.Transaction(u.tag, func(l orda.ListInTx) error {
			sub := *r
			sub.li = txList{l, r.li}
			return body(&sub)
		})
	}
	u.ran = true
}

func opKey(mop *model.Operation, rmCount map[string]int) string {
	switch o := operations.ModelToOperation(mop).(type) {
	case *operations.TransactionOperation:
		return "tx:" + o.GetBody().Tag
	case *operations.IncreaseOperation:
		return fmt.Sprintf("inc:%d", o.GetBody())
	case *operations.PutOperation:
		return fmt.Sprintf("put:%v", o.GetBody().Value)
	case *operations.RemoveOperation:
		return "rm:" + o.GetBody().Key
	case *operations.InsertOperation:
		if len(o.GetBody().V) > 0 {
			return fmt.Sprintf("ins:%v", o.GetBody().V[0])
		}
	}
	return "?"
}

// concurrent runs the scripts on replica r; feed, when not nil, is called concurrently (remote operations / pack building)
func (w *world) concurrent(r *replica, scripts [][]*cunit, background func(stop *int32)) bool {
	var wg sync.WaitGroup
	var panics int32
	var panicMsg atomic.Value
	var stop int32
	for _, sc := range scripts {
		wg.Add(1)
		go func(sc []*cunit) {
			defer wg.Done()
			defer func() {
				if x := recover(); x != nil {
					atomic.AddInt32(&panics, 1)
					panicMsg.Store(fmt.Sprint(x))
				}
			}()
			for _, u := range sc {
				switch u.yield {
				case 1:
					runtime.Gosched()
				case 2:
					time.Sleep(time.Duration(1+len(u.calls)) * time.Microsecond)
				}
				w.runUnit(r, u)
			}
		}(sc)
	}
	bgDone := make(chan struct{})
	go func() {
		defer close(bgDone)
		defer func() {
			if x := recover(); x != nil {
				atomic.AddInt32(&panics, 1)
				panicMsg.Store(fmt.Sprint(x))
			}
		}()
		if background != nil {
			background(&stop)
		}
	}()
	done := make(chan struct{})
	go func() { wg.Wait(); close(done) }()
	select {
	case <-done:
	case <-time.After(10 * time.Second):
		n := 0
		for _, sc := range scripts {
			for _, u := range sc {
				if u.ran {
					n++
				}
			}
		}
		w.c.Violate("C20", "deadlock-"+w.kind, fmt.Sprintf("%d goroutines using one %s did not finish within 10s (%d units had completed)", len(scripts), w.kind, n), w.desc)
		return false
	}
	atomic.StoreInt32(&stop, 1)
	select {
	case <-bgDone:
	case <-time.After(10 * time.Second):
		w.c.Violate("C20", "deadlock-background-"+w.kind, "the background goroutine (pack building / remote operations) did not finish within 10s", w.desc)
		return false
	}
	if panics > 0 {
		m, _ := panicMsg.Load().(string)
		w.c.Violate("C20", "panic-"+w.kind, fmt.Sprintf("a goroutine using the shared %s panicked: %s", w.kind, m), w.desc)
		return false
	}
	return true
}

// checkBuffer: the operations queued since index `from` are exactly those of the successful units, once each, with
// consecutive sequence numbers and growing clocks, every transaction contiguous; fills in the units' positions
func (w *world) checkBuffer(ops []*model.Operation, from int, scripts [][]*cunit) bool {
	ok := true
	bad := func(sig, msg string) {
		ok = false
		w.c.Violate("C20", sig+"-"+w.kind, msg, w.desc)
	}
	for i := 1; i < len(ops); i++ {
		if ops[i].ID.Seq != ops[i-1].ID.Seq+1 {
			bad("identifier-order", fmt.Sprintf("queued operations %d and %d carry sequence numbers %d and %d", i-1, i, ops[i-1].ID.Seq, ops[i].ID.Seq))
			break
		}
		if ops[i].ID.Lamport <= ops[i-1].ID.Lamport {
			bad("identifier-order", fmt.Sprintf("queued operations %d and %d carry clocks %d and %d", i-1, i, ops[i-1].ID.Lamport, ops[i].ID.Lamport))
			break
		}
	}
	at := map[string][]int{}
	for i := from; i < len(ops); i++ {
		k := opKey(ops[i], nil)
		at[k] = append(at[k], i)
	}
	used := 0
	for _, sc := range scripts {
		rmSeen := map[string]int{}
		for _, u := range sc {
			first := true
			expectAt := -1
			if u.tx {
				idx := at["tx:"+u.tag]
				if u.fail {
					if len(idx) > 0 {
						bad("aborted-transaction-left-operations", fmt.Sprintf("the aborted transaction %s left a TRANSACTION operation in the buffer", u.tag))
					}
				} else if len(idx) != 1 {
					bad("operation-lost-or-duplicated", fmt.Sprintf("the committed transaction %s has %d TRANSACTION operations in the buffer", u.tag, len(idx)))
					continue
				} else {
					u.pos = idx[0]
					expectAt = idx[0] + 1
					used++
					if n := operations.ModelToOperation(ops[idx[0]]).(*operations.TransactionOperation).GetNumOfOps(); int(n) != len(u.calls)+1 {
						bad("transaction-interleaved", fmt.Sprintf("transaction %s made %d calls but its unit announces %d operations", u.tag, len(u.calls), n))
					}
				}
			}
			for _, cc := range u.calls {
				idx := at[cc.key]
				if strings.HasPrefix(cc.key, "rm:") {
					// the k-th remove of the goroutine's own key is the k-th such operation
					k := rmSeen[cc.key]
					rmSeen[cc.key]++
					if k < len(idx) {
						idx = idx[k : k+1]
					} else {
						idx = nil
					}
				}
				if u.fail {
					if len(idx) > 0 {
						bad("aborted-transaction-left-operations", fmt.Sprintf("call %s of the aborted transaction %s left an operation in the buffer", cc.spec.desc, u.tag))
					}
					continue
				}
				if len(idx) != 1 {
					what := "lost"
					if len(idx) > 1 {
						what = "queued more than once"
					}
					bad("operation-"+strings.ReplaceAll(what, " ", "-"), fmt.Sprintf("the operation of the call %s (goroutine %d, returned %v) is %s: %d occurrences in the buffer", cc.spec.desc, u.g, u.obs, what, len(idx)))
					continue
				}
				used++
				if u.tx {
					if idx[0] != expectAt {
						bad("transaction-interleaved", fmt.Sprintf("call %s of transaction %s stands at buffer index %d, expected %d (right after the previous operation of the unit)", cc.spec.desc, u.tag, idx[0], expectAt))
					}
					expectAt++
				} else if first {
					u.pos = idx[0]
				}
				first = false
			}
		}
	}
	if ok && used != len(ops)-from {
		bad("operation-duplicated", fmt.Sprintf("%d operations were queued by %d successful calls and transaction headers", len(ops)-from, used))
	}
	return ok
}

func sliceConc(c *Ctx, kind string) {
	n := c.N
	if n == 0 {
		n = 40
	}
	c.Res.Rule = "2..8 goroutines issue calls and transactions (commit/abort) with unique values on ONE real " + kind + " with randomized yields while another goroutine keeps building push-pull packs; the order of effect is read off the push buffer and the calls are replayed in that order on the sequential model (returned values, emitted operations, final state); then a second concurrent phase with remote operations applied meanwhile, judged against a replica that applied everything sequentially; watchdog for deadlock; non-trivial = the buffer order differs from every per-goroutine concatenation (real interleaving)"
	var cases []string
	ty := map[string]string{"counter": "chist", "map": "mhist", "list": "lhist"}[kind]
	for h := 0; h < n; h++ {
		w := newWorld(c, kind, 2)
		r := w.reps[0]
		okCase := true
		p, msg := guarded(func() {
			for s, m := 0, c.Rng.Intn(4); s < m; s++ {
				w.local(0)
			}
			// ---- phase A: local calls only, with a concurrent pack builder ----
			ng := 2 + c.Rng.Intn(7)
			var scripts [][]*cunit
			for g := 0; g < ng; g++ {
				scripts = append(scripts, w.concScript(g, 3+c.Rng.Intn(8), "A"))
			}
			from := len(r.pendingOps())
			w.desc = append(w.desc, fmt.Sprintf("%d goroutines run %d units concurrently", ng, countUnits(scripts)))
			packsOK := true
			builder := func(stop *int32) {
				for atomic.LoadInt32(stop) == 0 {
					ops := r.dt.CreatePushPullPack().Operations
					for i := 1; i < len(ops); i++ {
						if ops[i] == nil || ops[i-1] == nil || ops[i].ID.Seq != ops[i-1].ID.Seq+1 {
							packsOK = false
						}
					}
					runtime.Gosched()
				}
			}
			if !w.concurrent(r, scripts, builder) {
				okCase = false
				return
			}
			if !packsOK {
				w.c.Violate("C20", "pack-inconsistent-"+kind, "a push-pull pack built while other goroutines were issuing operations carries a gap or a nil operation", w.desc)
			}
			ops := r.pendingOps()
			if !w.checkBuffer(ops, from, scripts) {
				okCase = false
				return
			}
			// linearization: the units in the order of their first operation
			var order []*cunit
			for _, sc := range scripts {
				for _, u := range sc {
					if u.pos >= 0 {
						order = append(order, u)
					}
				}
			}
			for i := 1; i < len(order); i++ {
				for j := i; j > 0 && order[j].pos < order[j-1].pos; j-- {
					order[j], order[j-1] = order[j-1], order[j]
				}
			}
			switches := 0
			for i, u := range order {
				if i > 0 && order[i-1].g != u.g {
					switches++
				}
				var calls []string
				for _, cc := range u.calls {
					calls = append(calls, cc.spec.gal)
				}
				if u.tx {
					w.evs = append(w.evs, fmt.Sprintf("ETxQ 0%%nat %s %s %s", gStr(u.tag), gList(calls), gList(u.obs)))
				} else {
					w.evs = append(w.evs, fmt.Sprintf("ELocalQ 0%%nat %s %s", calls[0], u.obs[0]))
				}
			}
			if switches >= ng {
				w.conflict = true
			}
			w.c.CountN("goroutine-switches-in-buffer-order", switches)
			w.c.Count(fmt.Sprintf("goroutines-%d", ng))
			w.push(0)  // the whole buffer, operation by operation, against the model's
			w.local(0) // and the state after it
			// ---- phase B: remote operations are applied while the goroutines run ----
			for s, m := 0, 2+c.Rng.Intn(6); s < m; s++ {
				w.local(1)
			}
			w.push(1)
			var scriptsB [][]*cunit
			for g := 0; g < ng; g++ {
				scriptsB = append(scriptsB, w.concScript(g, 2+c.Rng.Intn(5), "B"))
			}
			fromB := len(r.pendingOps())
			var foreign []*model.Operation
			for i := r.cursor; i < len(w.log); i++ {
				if w.log[i].author != 0 {
					foreign = append(foreign, w.log[i].op)
				}
			}
			feeder := func(stop *int32) {
				for i := 0; i < len(foreign); {
					j := w.unitEndIn(foreign, i)
					if _, err := r.dt.ReceiveRemoteModelOperations(foreign[i:j], false); err != nil {
						panic(err)
					}
					i = j
					runtime.Gosched()
				}
			}
			if !w.concurrent(r, scriptsB, feeder) {
				okCase = false
				return
			}
			r.cursor = len(w.log)
			opsB := r.pendingOps()
			if !w.checkBuffer(opsB, fromB, scriptsB) {
				okCase = false
				return
			}
			// everything reaches replica 1 sequentially: it is the one-at-a-time reference
			for _, o := range opsB {
				w.log = append(w.log, logEntry{o, 0})
			}
			var forOne []*model.Operation
			for i := w.reps[1].cursor; i < len(w.log); i++ {
				if w.log[i].author != 1 {
					forOne = append(forOne, w.log[i].op)
				}
			}
			if _, err := w.reps[1].dt.ReceiveRemoteModelOperations(forOne, false); err != nil {
				w.c.Violate("C20", "concurrent-operations-not-applicable-"+kind, "the operations issued concurrently cannot be applied by another replica: "+err.Error(), w.desc)
				return
			}
			w.reps[1].cursor = len(w.log)
			v0, s0 := r.view()
			v1, s1 := w.reps[1].view()
			if v0 != v1 || s0 != s1 {
				w.c.Violate("C20", "update-lost-"+kind, fmt.Sprintf("after concurrent use (local calls from %d goroutines, remote operations applied meanwhile) the datatype reads %s, a replica that applied the same operations one at a time reads %s", ng, r.viewJSON(), w.reps[1].viewJSON()), w.desc)
			}
			w.c.Count("phase-b-compared")
		})
		if p {
			c.Violate("C20", "panic-"+kind, "panic while driving the implementation: "+msg, w.desc)
			continue
		}
		if !okCase {
			continue
		}
		cu := []string{gStr(w.reps[0].cuid), gStr(w.reps[1].cuid)}
		cases = append(cases, fmt.Sprintf("mkHist %s [\n     %s]", gList(cu), strings.Join(w.evs, ";\n     ")))
		c.Distinct(strings.Join(w.evs, "|"), w.conflict)
		c.Sample(map[string]interface{}{"kind": kind, "script": w.desc})
	}
	c.Res.Cases = len(cases)
	c.WriteCases("Conc_"+kind, "Base Time Ops Counter Map List Snapshot Datatype Replicas CheckCrdt", ty, "check_"+kind, cases, 10)
}

func countUnits(s [][]*cunit) int {
	n := 0
	for _, sc := range s {
		n += len(sc)
	}
	return n
}

// unitEndIn: end (exclusive) of the transaction unit starting at ops[i]
func (w *world) unitEndIn(ops []*model.Operation, i int) int {
	if ops[i].OpType == model.TypeOfOperation_TRANSACTION {
		n := int(operations.ModelToOperation(ops[i]).(*operations.TransactionOperation).GetNumOfOps())
		if n >= 1 && i+n <= len(ops) {
			return i + n
		}
	}
	return i + 1
}
