package main

import (
	"encoding/json"
	"fmt"
	"sort"
	"strings"

	"github.com/orda-io/orda/client/pkg/model"
	"github.com/orda-io/orda/client/pkg/operations"
)

// The C02 specification, written directly from the property text and independent of both the
// implementation's mechanism and the Coq model: the outcome as a function of the SET of operations.

func tsLess(a, b *model.Timestamp) bool { // logical clock, then client id
	if a.Era != b.Era {
		return a.Era < b.Era
	}
	if a.Lamport != b.Lamport {
		return a.Lamport < b.Lamport
	}
	return strings.Compare(a.CUID, b.CUID) < 0
}

func tsKey(t *model.Timestamp) string {
	return fmt.Sprintf("%d|%d|%s|%d", t.Era, t.Lamport, t.CUID, t.Delimiter)
}

// specOutcome returns the canonical JSON of the state every replica must expose once it has exactly ops.
func specOutcome(kind string, ops []*model.Operation) string {
	switch kind {
	case "counter":
		var sum int32
		for _, m := range ops {
			if o, ok := operations.ModelToOperation(m).(*operations.IncreaseOperation); ok {
				sum += o.GetBody() // int32 arithmetic wraps
			}
		}
		return canon(sum)
	case "map":
		type ent struct {
			ts  *model.Timestamp
			val interface{}
		}
		best := map[string]ent{}
		for _, m := range ops {
			switch o := operations.ModelToOperation(m).(type) {
			case *operations.PutOperation:
				t := m.ID.GetTimestamp()
				if b, ok := best[o.GetBody().Key]; !ok || tsLess(b.ts, t) {
					best[o.GetBody().Key] = ent{t, o.GetBody().Value}
				}
			case *operations.RemoveOperation:
				t := m.ID.GetTimestamp()
				if b, ok := best[o.GetBody().Key]; !ok || tsLess(b.ts, t) {
					best[o.GetBody().Key] = ent{t, nil}
				}
			}
		}
		out := map[string]interface{}{}
		for k, e := range best {
			if e.val != nil {
				out[k] = e.val
			}
		}
		return canon(out)
	}
	// list: RGA — every element stands after its anchor, concurrent siblings newest first
	type elem struct {
		id      *model.Timestamp
		val     interface{}
		valTs   *model.Timestamp
		deleted bool
		kids    []*elem
	}
	head := &elem{id: model.OldestTimestamp()}
	byID := map[string]*elem{tsKey(head.id): head}
	var ups, dels []*model.Operation
	for _, m := range ops {
		switch o := operations.ModelToOperation(m).(type) {
		case *operations.InsertOperation:
			anchor := byID[tsKey(o.GetBody().T)]
			base := m.ID.GetTimestamp()
			for i, v := range o.GetBody().V {
				id := &model.Timestamp{Era: base.Era, Lamport: base.Lamport, CUID: base.CUID, Delimiter: uint32(i)}
				e := &elem{id: id, val: v, valTs: id}
				byID[tsKey(id)] = e
				if anchor != nil {
					anchor.kids = append(anchor.kids, e)
				}
				anchor = e // the rest of a batch follows its predecessor
			}
		case *operations.UpdateOperation:
			ups = append(ups, m)
		case *operations.DeleteOperation:
			dels = append(dels, m)
		}
	}
	for _, m := range ups {
		o := operations.ModelToOperation(m).(*operations.UpdateOperation)
		t := m.ID.GetTimestamp()
		for i, tg := range o.GetBody().T {
			if e := byID[tsKey(tg)]; e != nil && i < len(o.GetBody().V) && tsLess(e.valTs, t) {
				e.val, e.valTs = o.GetBody().V[i], t
			}
		}
	}
	for _, m := range dels {
		o := operations.ModelToOperation(m).(*operations.DeleteOperation)
		for _, tg := range o.GetBody().T {
			if e := byID[tsKey(tg)]; e != nil {
				e.deleted = true
			}
		}
	}
	out := []interface{}{}
	var walk func(e *elem)
	walk = func(e *elem) {
		sort.SliceStable(e.kids, func(i, j int) bool { return tsLess(e.kids[j].id, e.kids[i].id) })
		for _, k := range e.kids {
			if !k.deleted {
				out = append(out, k.val)
			}
			walk(k)
		}
	}
	walk(head)
	b, _ := json.Marshal(out)
	var x interface{}
	_ = json.Unmarshal(b, &x)
	b, _ = json.Marshal(x)
	return string(b)
}
