package main

import (
	gocontext "context"
	"encoding/json"
	"fmt"
	"reflect"
	"runtime"
	"sort"
	"strconv"
	"strings"
	"sync"
	"time"

	"verifharness/fakemongo"
	"verifharness/fakemqtt"

	"github.com/orda-io/orda/client/pkg/context"
	"github.com/orda-io/orda/client/pkg/errors"
	"github.com/orda-io/orda/client/pkg/iface"
	"github.com/orda-io/orda/client/pkg/model"
	"github.com/orda-io/orda/client/pkg/operations"
	"github.com/orda-io/orda/client/pkg/orda"
	"github.com/orda-io/orda/server/constants"
	"github.com/orda-io/orda/server/managers"
	"github.com/orda-io/orda/server/mongodb"
	"github.com/orda-io/orda/server/notification"
	"github.com/orda-io/orda/server/redis"
	"github.com/orda-io/orda/server/schema"
	"github.com/orda-io/orda/server/service"
	"github.com/orda-io/orda/server/snapshot"
	"go.mongodb.org/mongo-driver/bson"
	"go.mongodb.org/mongo-driver/bson/primitive"
)

// S-wire / S-req / S-fault-net: real clients (manual sync) and the real OrdaService running
// in process over the in-memory MongoDB / MQTT stand-ins; the harness carries the messages.

func init() {
	slices["wire-counter"] = func(c *Ctx) { sliceWire(c, "counter") }
	slices["wire-map"] = func(c *Ctx) { sliceWire(c, "map") }
	slices["wire-list"] = func(c *Ctx) { sliceWire(c, "list") }
	slices["wire-doc"] = func(c *Ctx) { sliceWire(c, "doc") }
}

type wenv struct {
	fm  *fakemongo.Server
	mq  *fakemqtt.Broker
	svc *service.OrdaService
	mgr *managers.Managers
	ctx iface.OrdaContext
}

var theEnv *wenv

func getEnv() *wenv {
	if theEnv != nil {
		// the post-response work of the previous history's last requests must not write into the next history's store:
		// wait until the store has seen no command and no goroutine has come or gone for a while
		lastG, lastC, since := runtime.NumGoroutine(), theEnv.fm.CmdCount(), time.Now()
		for deadline := time.Now().Add(2 * time.Second); time.Now().Before(deadline); {
			time.Sleep(200 * time.Microsecond)
			if g, c := runtime.NumGoroutine(), theEnv.fm.CmdCount(); g != lastG || c != lastC {
				lastG, lastC, since = g, c, time.Now()
			} else if time.Since(since) > 15*time.Millisecond {
				break
			}
		}
		theEnv.fm.Reset()
		theEnv.mq.Reset()
		return theEnv
	}
	fm, err := fakemongo.New()
	if err != nil {
		panic(err)
	}
	mq, err := fakemqtt.New()
	if err != nil {
		panic(err)
	}
	ctx := context.NewOrdaContext(gocontext.TODO(), "T")
	repo, oerr := mongodb.New(ctx, &mongodb.Config{Host: fm.Addr(), OrdaDB: "orda", User: "u", Password: "p", Options: "authMechanism=PLAIN&connect=direct&serverSelectionTimeoutMS=3000"})
	if oerr != nil {
		panic(oerr)
	}
	nt, oerr := notification.NewNotifier(ctx, mq.Addr())
	if oerr != nil {
		panic(oerr)
	}
	rd, _ := redis.New(ctx, nil)
	mgr := &managers.Managers{Mongo: repo, Notifier: nt, Redis: rd}
	theEnv = &wenv{fm: fm, mq: mq, svc: service.NewOrdaService(mgr), mgr: mgr, ctx: ctx}
	theEnv.fm.Reset()
	return theEnv
}

// ---------- handler log ----------
type hlog struct {
	mu      sync.Mutex
	states  []string
	errs    []int
	remotes int
}

func (h *hlog) snapshot() (int, int) {
	h.mu.Lock()
	defer h.mu.Unlock()
	return len(h.states), len(h.errs)
}

type wclient struct {
	cl    orda.Client
	col   string
	cuid  string
	alias string
	cm    *model.Client
	dts   map[string]*wdt
}

type wdt struct {
	idx   int
	owner *wclient
	key   string
	kind  string
	rep   *replica // reuses the replica call machinery (ctr/mp/li, dt)
	h     *hlog
	lastS uint64 // last observed checkpoint (monotonicity oracle)
	lastC uint64
	held  []*model.PushPullPack // responses that were held back instead of delivered
}

type wworld struct {
	c          *Ctx
	e          *wenv
	kind       string
	cols       []string
	clients    []*wclient
	dts        []*wdt
	evs        []string
	desc       []string
	cur        string
	nontriv    bool
	pubSeen    int
	dirty      bool // an accepted mutated request happened: the quiescence oracle does not apply
	msgfaults  bool // this world duplicates requests and loses / delays responses
	dbfault    bool // a storage command was made to fail: leftovers beyond the end of a log are tolerated by the store oracle
	snapSeen   map[string]bool
	jobs       []wjob
	holdMode   int           // racing snapshot updates: 1 = this sync's background update is held in its first query, 2 = the sync after it, 3 = this sync's background update finds the store unavailable in its first query and comes to nothing
	holdRel    func()        // releases the held query
	holdOn     bool          // the hold of mode 1 was reached
	concurrent bool // requests were served concurrently: quiescence is judged under C12
	inRound    bool // this world serves rounds of simultaneous requests (C12)
	realVer    map[string]uint64
	base       int  // goroutines before the last request was sent
	snapOff    bool // a storage fault hit the post-response work: the next digest tells the checker to adopt the observed snapshots
	faulty     bool // a message fault (duplicated request / dropped response) happened: quiescence is judged under C07
}

func (w *wworld) newClient(col string) *wclient {
	alias := fmt.Sprintf("c%d", len(w.clients))
	cl := orda.NewClient(&orda.ClientConfig{CollectionName: col, SyncType: model.SyncType_MANUALLY}, alias)
	wc := &wclient{cl: cl, col: col, alias: alias, dts: map[string]*wdt{}}
	w.clients = append(w.clients, wc)
	return wc
}

func (w *wworld) newDt(wc *wclient, key string, mode int) *wdt {
	h := &hlog{}
	hs := orda.NewHandlers(
		func(dt orda.Datatype, o, n model.StateOfDatatype) {
			h.mu.Lock()
			h.states = append(h.states, fmt.Sprintf("%v->%v", o, n))
			h.mu.Unlock()
		},
		func(dt orda.Datatype, opList []interface{}) { h.mu.Lock(); h.remotes++; h.mu.Unlock() },
		func(dt orda.Datatype, errs ...errors.OrdaError) {
			h.mu.Lock()
			for _, e := range errs {
				h.errs = append(h.errs, int(e.GetCode()))
			}
			h.mu.Unlock()
		})
	r := &replica{kind: w.kind}
	var d interface{}
	switch w.kind {
	case "counter":
		switch mode {
		case 0:
			r.ctr = wc.cl.CreateCounter(key, hs)
		case 1:
			r.ctr = wc.cl.SubscribeCounter(key, hs)
		default:
			r.ctr = wc.cl.SubscribeOrCreateCounter(key, hs)
		}
		d = r.ctr
	case "map":
		switch mode {
		case 0:
			r.mp = wc.cl.CreateMap(key, hs)
		case 1:
			r.mp = wc.cl.SubscribeMap(key, hs)
		default:
			r.mp = wc.cl.SubscribeOrCreateMap(key, hs)
		}
		d = r.mp
	case "list":
		switch mode {
		case 0:
			r.li = wc.cl.CreateList(key, hs)
		case 1:
			r.li = wc.cl.SubscribeList(key, hs)
		default:
			r.li = wc.cl.SubscribeOrCreateList(key, hs)
		}
		d = r.li
	case "doc":
		switch mode {
		case 0:
			r.doc = wc.cl.CreateDocument(key, hs)
		case 1:
			r.doc = wc.cl.SubscribeDocument(key, hs)
		default:
			r.doc = wc.cl.SubscribeOrCreateDocument(key, hs)
		}
		d = r.doc
	}
	r.dt = d.(iface.Datatype)
	r.cuid = r.dt.GetCUID()
	if wc.cuid == "" {
		wc.cuid = r.cuid
		wc.cm = &model.Client{CUID: r.cuid, Alias: wc.alias, Collection: wc.col, Type: model.ClientType_PERSISTENT, SyncType: model.SyncType_MANUALLY}
	}
	x := &wdt{idx: len(w.dts), owner: wc, key: key, kind: w.kind, rep: r, h: h}
	wc.dts[key] = x
	w.dts = append(w.dts, x)
	w.evs = append(w.evs, fmt.Sprintf("WNewDt %s %s %s %s %s", gStr(wc.col), gStr(r.cuid), gN(uint64(mode)), gStr(r.dt.GetDUID()), gStr(key)))
	w.desc = append(w.desc, fmt.Sprintf("dt%d = %s.%s(%q) in %s", x.idx, wc.alias, []string{"Create", "Subscribe", "SubscribeOrCreate"}[mode], key, wc.col))
	return x
}

// ---------- Gallina rendering ----------
func gCp(c *model.CheckPoint) string {
	if c == nil {
		return "(mkCp 0%N 0%N)"
	}
	return fmt.Sprintf("(mkCp %s %s)", gN(c.Sseq), gN(c.Cseq))
}

func gPpp(p *model.PushPullPack) string {
	errc := "None"
	ops := p.Operations
	opt := model.PushPullPackOption(p.Option)
	if opt.HasErrorBit() && len(ops) > 0 {
		if eo, ok := operations.ModelToOperation(ops[len(ops)-1]).(*operations.ErrorOperation); ok {
			errc = gSome(gN(uint64(eo.GetCode())))
			ops = ops[:len(ops)-1]
		}
	}
	return fmt.Sprintf("(mkPpp %s %s %s %s %s %s %s)", gStr(p.Key), gStr(p.DUID), gN(uint64(p.Option)), gCp(p.CheckPoint), gN(uint64(p.Type)), gOps(ops), errc)
}

func bget(d bson.D, k string) interface{} {
	for _, e := range d {
		if e.Key == k {
			return e.Value
		}
	}
	return nil
}

func bnum(v interface{}) uint64 {
	switch t := v.(type) {
	case int32:
		return uint64(t)
	case int64:
		return uint64(t)
	case float64:
		return uint64(t)
	case uint64:
		return t
	}
	return 0
}

var typeNum = map[string]uint64{"COUNTER": 0, "MAP": 1, "LIST": 2, "DOCUMENT": 3}

func gClients(v interface{}) string {
	d, _ := v.(bson.D)
	items := []string{}
	for _, e := range d {
		sub, _ := e.Value.(bson.D)
		cp, _ := bget(sub, "cp").(bson.D)
		items = append(items, gPair(gStr(e.Key), fmt.Sprintf("(mkCp %s %s)", gN(bnum(bget(cp, "s"))), gN(bnum(bget(cp, "c"))))))
	}
	return gList(items)
}

// gBson renders a value read back from the store as a Gallina [val]
func gBson(v interface{}) string {
	switch t := v.(type) {
	case int32:
		return gValParsed(json.Number(strconv.FormatInt(int64(t), 10)))
	case int64:
		return gValParsed(json.Number(strconv.FormatInt(t, 10)))
	case float64:
		if t != float64(int64(t)) {
			panic("non-integer number in stored document")
		}
		return gValParsed(json.Number(strconv.FormatInt(int64(t), 10)))
	case string, bool, nil:
		return gValParsed(t)
	case bson.A:
		items := make([]string, len(t))
		for i, e := range t {
			items[i] = gBson(e)
		}
		return "(VArr " + gList(items) + ")"
	case bson.D:
		es := append(bson.D{}, t...)
		sort.Slice(es, func(i, j int) bool { return es[i].Key < es[j].Key })
		items := make([]string, len(es))
		for i, e := range es {
			items[i] = gPair(gStr(e.Key), gBson(e.Value))
		}
		return "(VObj " + gList(items) + ")"
	}
	panic(fmt.Sprintf("unsupported stored value %T", v))
}

type dbView struct {
	gal  string
	text string // canonical text, for before/after comparisons in oracles
	dts  []bson.D
	ops  []bson.D
}

func (w *wworld) dbDigest() dbView {
	dump := w.e.fm.Dump("orda")
	var dts, ops []string
	var txt strings.Builder
	for _, d := range dump["-_-Datatypes"] {
		sseq, _ := bget(d, "sseq").(bson.D)
		dts = append(dts, fmt.Sprintf("(mkDdoc %s %s %s %s %s %s %s)", gStr(bget(d, "_id").(string)), gStr(bget(d, "key").(string)),
			gN(bnum(bget(d, "colNum"))), gN(typeNum[bget(d, "type").(string)]), gN(bnum(bget(sseq, "end"))), gClients(bget(d, "rwClients")), gClients(bget(d, "roClients"))))
		fmt.Fprintf(&txt, "D|%v|%v|%v|%v|%v|%v|%v\n", bget(d, "_id"), bget(d, "key"), bget(d, "colNum"), bget(d, "type"), bget(sseq, "end"), gClients(bget(d, "rwClients")), gClients(bget(d, "roClients")))
	}
	for _, o := range dump["-_-Operations"] {
		id, _ := bget(o, "id").(bson.D)
		oid := fmt.Sprintf("(mkOpid %s %s %s %s)", gN(bnum(bget(id, "era"))), gN(bnum(bget(id, "lamport"))), gStr(bget(id, "cuid").(string)), gN(bnum(bget(id, "seq"))))
		ops = append(ops, fmt.Sprintf("(%s, %s, %s, %s)", gStr(bget(o, "duid").(string)), gN(bnum(bget(o, "colNum"))), gN(bnum(bget(o, "sseq"))), oid))
		fmt.Fprintf(&txt, "O|%v|%v|%v|%v|%v\n", bget(o, "_id"), bget(o, "duid"), bget(o, "colNum"), bget(o, "sseq"), oid)
	}
	kindOf := map[string]string{}
	for _, d := range dump["-_-Datatypes"] {
		kindOf[bget(d, "_id").(string)] = strings.ToLower(bget(d, "type").(string))
	}
	// the world checks one kernel: datatypes of another type (created by a request with a mutated type) are left out
	colNum := map[string]uint64{}
	for _, cd := range dump["-_-Collections"] {
		colNum[fmt.Sprint(bget(cd, "_id"))] = bnum(bget(cd, "num"))
	}
	kindAt := map[string]string{}
	for _, d := range dump["-_-Datatypes"] {
		kindAt[fmt.Sprintf("%d|%v", bnum(bget(d, "colNum")), bget(d, "key"))] = strings.ToLower(bget(d, "type").(string))
	}
	var snaps, real []string
	if w.kind == "doc" {
		w.snapOff = true // the marshalled form of a Document snapshot is not modelled: the replay oracle judges it
	}
	for _, sn := range dump["-_-Snapshots"] {
		du := bget(sn, "duid").(string)
		if kindOf[du] != w.kind {
			continue
		}
		var raw []byte
		switch b := bget(sn, "snapshot").(type) {
		case primitive.Binary:
			raw = b.Data
		case []byte:
			raw = b
		case string:
			raw = []byte(b)
		}
		snaps = append(snaps, fmt.Sprintf("(mkSnapdoc %s %s %s %s)", gStr(du), gN(bnum(bget(sn, "colNum"))), gN(bnum(bget(sn, "sseq"))), gSnapshot(kindOf[du], raw)))
	}
	for _, col := range w.cols {
		for _, d := range dump[col] {
			if kindAt[fmt.Sprintf("%d|%v", colNum[col], bget(d, "_id"))] != w.kind {
				continue
			}
			var view string
			switch w.kind {
			case "counter":
				view = gBson(bget(d, "counter"))
			case "list":
				view = gBson(bget(d, "list"))
			default:
				var rest bson.D
				for _, e := range d {
					if e.Key != "_id" && e.Key != "_orda_ver_" {
						rest = append(rest, e)
					}
				}
				view = gBson(rest)
			}
			real = append(real, fmt.Sprintf("(mkRealdoc %s %s %s %s)", gStr(col), gStr(fmt.Sprint(bget(d, "_id"))), view, gN(bnum(bget(d, "_orda_ver_")))))
		}
	}
	chk := !w.snapOff
	w.snapOff = false
	return dbView{gal: fmt.Sprintf("(mkDbdig %s %s %s %s %s)", gList(dts), gList(ops), gList(snaps), gList(real), gBool(chk)), text: txt.String(), dts: dump["-_-Datatypes"], ops: dump["-_-Operations"]}
}

// ---------- C11 oracle: stored snapshots and user documents equal the replay of the log up to their version ----------
var replayWhy string

func (w *wworld) replayTo(duid, key string, kind model.TypeOfDatatype, v uint64) (iface.Datatype, bool) {
	replayWhy = ""
	cl := orda.NewClient(orda.NewLocalClientConfig("oracle"), "oracle")
	dt := cl.CreateDatatype(key, kind, nil).(iface.Datatype)
	dt.SetDUID(duid)
	if v == 0 {
		return dt, true
	}
	// (GetOperations drops its upper bound — the filter it builds for `to` is discarded; every caller in the server
	// passes "infinity", so the range is cut here)
	ops, sseqs, err := w.e.mgr.Mongo.GetOperations(w.e.ctx, duid, 1, constants.InfinitySseq)
	for len(sseqs) > 0 && sseqs[len(sseqs)-1] > v {
		ops, sseqs = ops[:len(ops)-1], sseqs[:len(sseqs)-1]
	}
	if err != nil || uint64(len(ops)) != v {
		replayWhy = fmt.Sprintf("the store returns %d operations for the range 1..%d (error: %v)", len(ops), v, err)
		return nil, false
	}
	if _, err := dt.ReceiveRemoteModelOperations(ops, false); err != nil {
		replayWhy = "applying them fails: " + err.Error()
		return nil, false
	}
	return dt, true
}

func jsonEq(a, b []byte) bool {
	var x, y interface{}
	if json.Unmarshal(a, &x) != nil || json.Unmarshal(b, &y) != nil {
		return false
	}
	return reflect.DeepEqual(x, y)
}

func realFields(d bson.D) string {
	var rest bson.D
	for _, e := range d {
		if e.Key != "_id" && e.Key != "_orda_ver_" {
			rest = append(rest, e)
		}
	}
	return gBson(rest)
}

func (w *wworld) checkSnapshots() {
	dump := w.e.fm.Dump("orda")
	if w.snapSeen == nil {
		w.snapSeen = map[string]bool{}
		w.realVer = map[string]uint64{}
	}
	type dinfo struct {
		duid, key string
		col       uint64
		kind      model.TypeOfDatatype
		end       uint64
	}
	byDuid := map[string]dinfo{}
	byKey := map[string]dinfo{}
	for _, d := range dump["-_-Datatypes"] {
		sseq, _ := bget(d, "sseq").(bson.D)
		di := dinfo{bget(d, "_id").(string), bget(d, "key").(string), bnum(bget(d, "colNum")), model.TypeOfDatatype(model.TypeOfDatatype_value[bget(d, "type").(string)]), bnum(bget(sseq, "end"))}
		byDuid[di.duid] = di
		byKey[fmt.Sprintf("%d|%s", di.col, di.key)] = di
	}
	for _, sn := range dump["-_-Snapshots"] {
		id := fmt.Sprint(bget(sn, "_id"))
		if w.snapSeen[id] {
			continue
		}
		w.snapSeen[id] = true
		di, ok := byDuid[bget(sn, "duid").(string)]
		v := bnum(bget(sn, "sseq"))
		if !ok {
			continue
		}
		if v > di.end {
			w.c.Violate("C11", "snapshot-beyond-log", fmt.Sprintf("snapshot %s has version %d but the log of the datatype ends at %d", id, v, di.end), w.desc)
			continue
		}
		want, ok := w.replayTo(di.duid, di.key, di.kind, v)
		if !ok {
			w.c.Violate("C11", "snapshot-version-not-replayable", fmt.Sprintf("snapshot %s: operations 1..%d cannot be replayed: %s", id, v, replayWhy), w.desc)
			continue
		}
		var raw []byte
		if b, ok := bget(sn, "snapshot").(primitive.Binary); ok {
			raw = b.Data
		}
		_, wantSnap, _ := want.GetMetaAndSnapshot()
		if di.kind == model.TypeOfDatatype_DOCUMENT {
			// the node table of a Document snapshot is written in Go's map order: compare what the snapshot restores to
			cl := orda.NewClient(orda.NewLocalClientConfig("oracle"), "oracle2")
			got := cl.CreateDatatype(di.key, di.kind, nil).(iface.Datatype)
			meta, _ := bget(sn, "meta").(string)
			if err := got.SetMetaAndSnapshot([]byte(meta), raw); err != nil {
				w.c.Violate("C11", "snapshot-not-restorable", fmt.Sprintf("snapshot %s (key %q) cannot be restored: %v", id, di.key, err), w.desc)
			} else if a, b := jsonStr(got.GetSnapshot().ToJSON()), jsonStr(want.GetSnapshot().ToJSON()); a != b {
				w.c.Violate("C11", "snapshot-differs-from-replay", fmt.Sprintf("snapshot %s (key %q) restores to %s but replaying operations 1..%d gives %s", id, di.key, a, v, b), w.desc)
			}
		} else if !jsonEq(raw, wantSnap) {
			w.c.Violate("C11", "snapshot-differs-from-replay", fmt.Sprintf("snapshot %s (key %q) is %s but replaying operations 1..%d gives %s", id, di.key, raw, v, wantSnap), w.desc)
		}
		w.c.Count("snapshot-compared")
	}
	colNum := map[string]uint64{}
	for _, cd := range dump["-_-Collections"] {
		colNum[fmt.Sprint(bget(cd, "_id"))] = bnum(bget(cd, "num"))
	}
	for _, col := range w.cols {
		for _, d := range dump[col] {
			key := fmt.Sprint(bget(d, "_id"))
			ver := bnum(bget(d, "_orda_ver_"))
			k := col + "|" + key
			if old, seen := w.realVer[k]; seen && ver == old {
				continue
			} else if seen && ver < old {
				w.c.Violate("C11", "user-document-version-decreased", fmt.Sprintf("the document of key %q in %s went from version %d to %d", key, col, old, ver), w.desc)
			}
			w.realVer[k] = ver
			di, ok := byKey[fmt.Sprintf("%d|%s", colNum[col], key)]
			if !ok {
				w.c.Violate("C11", "user-document-without-datatype", fmt.Sprintf("collection %s (number %d) holds a document %q that names no datatype; datatypes: %v", col, colNum[col], key, dump["-_-Datatypes"]), w.desc)
				continue
			}
			want, ok := w.replayTo(di.duid, di.key, di.kind, ver)
			if !ok || ver > di.end {
				w.c.Violate("C11", "user-document-version-not-replayable", fmt.Sprintf("document %q in %s records version %d; the log ends at %d", key, col, ver, di.end), w.desc)
				continue
			}
			m, err := bson.Marshal(want.ToJSON())
			var wd bson.D
			if err == nil {
				err = bson.Unmarshal(m, &wd)
			}
			if err != nil || realFields(wd) != realFields(d) {
				w.c.Violate("C11", "user-document-differs-from-replay", fmt.Sprintf("document %q in %s at version %d is %s but replaying operations 1..%d gives %s", key, col, ver, realFields(d), ver, realFields(wd)), w.desc)
			}
			w.c.Count("user-document-compared")
		}
	}
}

// reset: ResetCollection at the end of a history; that collection's datatypes, operations, snapshots, clients and user
// documents go, everything of the other collections stays exactly as it was (C17)
func (w *wworld) reset() {
	col := w.cols[w.c.Rng.Intn(len(w.cols))]
	part := func(d map[string][]bson.D, num uint64, mine bool) string {
		var sb strings.Builder
		for _, coll := range []string{"-_-Datatypes", "-_-Operations", "-_-Snapshots", "-_-Clients"} {
			for _, x := range d[coll] {
				if (bnum(bget(x, "colNum")) == num) == mine {
					b, _ := bson.MarshalExtJSON(x, false, false)
					sb.WriteString(coll + string(b) + "\n")
				}
			}
		}
		return sb.String()
	}
	colDoc, _ := w.e.mgr.Mongo.GetCollection(w.e.ctx, col)
	if colDoc == nil {
		return
	}
	num := uint64(colDoc.Num)
	before := w.e.fm.Dump("orda")
	base := runtime.NumGoroutine()
	if _, err := w.e.svc.ResetCollection(gocontext.TODO(), &model.CollectionMessage{Collection: col}); err != nil {
		w.c.Violate("C17", "reset-failed", fmt.Sprintf("ResetCollection(%s) failed: %v", col, err), w.desc)
		return
	}
	w.settle(base)
	after := w.e.fm.Dump("orda")
	w.desc = append(w.desc, "ResetCollection("+col+")")
	if rest := part(after, num, true); rest != "" {
		w.c.Violate("C17", "reset-left-documents", fmt.Sprintf("after ResetCollection(%s) documents of that collection remain: %s", col, rest), w.desc)
	}
	if len(after[col]) != 0 {
		w.c.Violate("C17", "reset-left-documents", fmt.Sprintf("after ResetCollection(%s) the user collection still holds %d documents", col, len(after[col])), w.desc)
	}
	if part(before, num, false) != part(after, num, false) {
		w.c.Violate("C17", "reset-touched-other-collection", fmt.Sprintf("ResetCollection(%s) changed documents of another collection", col), w.desc)
	}
	for _, other := range w.cols {
		if other != col && len(before[other]) != len(after[other]) {
			w.c.Violate("C17", "reset-touched-other-collection", fmt.Sprintf("ResetCollection(%s) changed the user collection %s", col, other), w.desc)
		}
	}
	var cls []string
	for _, cd := range after["-_-Clients"] {
		cls = append(cls, gPair(gStr(fmt.Sprint(bget(cd, "_id"))), gN(bnum(bget(cd, "colNum")))))
	}
	dg := w.dbDigest()
	w.evs = append(w.evs, fmt.Sprintf("WReset %s %s %s", gStr(col), gList(cls), dg.gal))
	w.c.Count("ev-reset-collection")
}

// restPatch calls the REST patch endpoint for a key of a Document world (an existing datatype or a new key): the answer
// must be the target, the stored log must stay well-formed, and the clients converge to it later (quiescence oracle)
func (w *wworld) restPatch() {
	col := w.cols[w.c.Rng.Intn(len(w.cols))]
	key := []string{"k", "j", "restonly"}[w.c.Rng.Intn(3)]
	colDoc, _ := w.e.mgr.Mongo.GetCollection(w.e.ctx, col)
	if colDoc == nil {
		return
	}
	cur := interface{}(map[string]interface{}{})
	if ddoc, _ := w.e.mgr.Mongo.GetDatatypeByKey(w.e.ctx, colDoc.Num, key); ddoc != nil {
		if ddoc.Type != "DOCUMENT" {
			return
		}
		sd, _, err := snapshot.NewManager(w.e.ctx, w.e.mgr, ddoc, colDoc).GetLatestDatatype()
		if err != nil {
			return
		}
		cur = plainCopy(sd.GetSnapshot().ToJSON())
	}
	dw := &dworld{c: w.c}
	target := dw.mutate(plainCopy(cur), 0)
	if _, ok := target.(map[string]interface{}); !ok {
		return
	}
	tj := jsonStr(target)
	before := w.dbDigest()
	base := runtime.NumGoroutine()
	pubsBefore := len(w.e.mq.Published())
	cmdBefore := w.e.fm.CmdCount()
	type out struct {
		resp *model.PatchMessage
		err  error
	}
	ch := make(chan out, 1)
	go func() {
		ctx, cancel := gocontext.WithCancel(gocontext.Background())
		r, err := w.e.svc.PatchDocument(ctx, &model.PatchMessage{Collection: col, Key: key, Json: tj})
		cancel()
		ch <- out{r, err}
	}()
	var o out
	select {
	case o = <-ch:
	case <-time.After(8 * time.Second):
		w.c.Violate("C19", "rest-patch-not-answered", fmt.Sprintf("PatchDocument(%s/%s) was not answered within 8s", col, key), w.desc)
		panic("request not answered")
	}
	if mid := w.dbDigest(); len(mid.ops) > len(before.ops) {
		// operations were stored: the handler's goroutine publishes and updates the snapshot after the answer
		w.waitPost(col, pubsBefore, cmdBefore)
	}
	w.settle(base)
	w.desc = append(w.desc, fmt.Sprintf("REST patch of %s/%s from %s to %s", col, key, jsonStr(cur), tj))
	if o.err != nil {
		w.c.Violate("C19", "rest-patch-failed", fmt.Sprintf("PatchDocument(%s/%s) from %s to %s failed: %v", col, key, jsonStr(cur), tj, o.err), w.desc)
		panic("rest patch failed")
	}
	var got interface{}
	_ = json.Unmarshal([]byte(o.resp.Json), &got)
	if !reflect.DeepEqual(got, plainCopy(target)) {
		w.c.Violate("C19", "rest-patch-misses-target", fmt.Sprintf("PatchDocument(%s/%s) from %s to %s answers %s", col, key, jsonStr(cur), tj, o.resp.Json), w.desc)
	}
	after := w.dbDigest()
	w.checkLog(after)
	w.checkSnapshots()
	// the stored copy reads the target now
	if ddoc, _ := w.e.mgr.Mongo.GetDatatypeByKey(w.e.ctx, colDoc.Num, key); ddoc != nil {
		if sd, _, err := snapshot.NewManager(w.e.ctx, w.e.mgr, ddoc, colDoc).GetLatestDatatype(); err == nil {
			if v := plainCopy(sd.GetSnapshot().ToJSON()); !reflect.DeepEqual(v, plainCopy(target)) {
				w.c.Violate("C19", "rest-patch-not-stored", fmt.Sprintf("after PatchDocument(%s/%s) to %s the stored log rebuilds to %s", col, key, tj, jsonStr(v)), w.desc)
			}
		}
	} else if !reflect.DeepEqual(plainCopy(target), plainCopy(cur)) {
		w.c.Violate("C19", "rest-patch-not-stored", fmt.Sprintf("PatchDocument(%s/%s) to %s created no datatype", col, key, tj), w.desc)
	}
	// the model takes the new operation documents over as observed
	var newops []string
	for _, o := range after.ops[len(before.ops):] {
		du := bget(o, "duid").(string)
		sq := bnum(bget(o, "sseq"))
		ops, sseqs, _ := w.e.mgr.Mongo.GetOperations(w.e.ctx, du, sq, constants.InfinitySseq)
		if len(ops) == 0 || sseqs[0] != sq {
			panic("stored operation not readable")
		}
		newops = append(newops, fmt.Sprintf("(mkOdoc %s %s %s %s)", gStr(du), gN(bnum(bget(o, "colNum"))), gN(sq), gOp(ops[0])))
	}
	w.evs = append(w.evs, fmt.Sprintf("WRest %s %s", gList(newops), after.gal))
	w.c.Count("ev-rest-patch")
	if len(newops) > 0 {
		w.c.Count("rest-patch-stored-operations")
	}
}

// staleUpdate runs UpdateSnapshot once more with a datatype document captured after an earlier push: the
// background update of that handler happening (again) only now, after later pushes
func (w *wworld) staleUpdate() {
	if len(w.jobs) == 0 {
		return
	}
	j := w.jobs[w.c.Rng.Intn(len(w.jobs))]
	colDoc, _ := w.e.mgr.Mongo.GetCollection(w.e.ctx, j.col)
	if colDoc == nil {
		return
	}
	doc := *j.doc
	_ = snapshot.NewManager(w.e.ctx, w.e.mgr, &doc, colDoc).UpdateSnapshot()
	after := w.dbDigest()
	w.checkSnapshots()
	d := j.doc
	w.evs = append(w.evs, fmt.Sprintf("WSnapUpd %s (mkDdoc %s %s %s %s %s [] []) %s", gStr(j.col), gStr(d.DUID), gStr(d.Key), gN(uint64(d.CollectionNum)),
		gN(typeNum[d.Type]), gN(d.Sseq.End), after.gal))
	w.desc = append(w.desc, fmt.Sprintf("snapshot update with the document of key %q captured at end %d", d.Key, d.Sseq.End))
	w.c.Count("ev-stale-snapshot-update")
}

// delayedUpdate: the background snapshot update of a push comes to nothing when it starts (the store is unavailable for its
// first query) and runs only later — as a handler's goroutine that is slow would —, after a further push on the same
// datatype has been committed and has updated the snapshot.  The update of the older push, holding the older datatype
// document, must then change nothing: every stored snapshot is the replay up to ITS version and the version of the user
// document never decreases (C11).
func (w *wworld) delayedUpdate(x *wdt) {
	if x.rep.dt.GetState() != model.StateOfDatatype_SUBSCRIBED || w.dbfault {
		return
	}
	colDoc, _ := w.e.mgr.Mongo.GetCollection(w.e.ctx, x.owner.col)
	if colDoc == nil {
		return
	}
	w.local(x)
	if len(x.rep.dt.CreatePushPullPack().Operations) == 0 {
		return
	}
	w.holdMode = 3
	w.sync(x, 0)
	reached := w.holdOn
	w.holdMode, w.holdOn = 0, false
	if !reached {
		return
	}
	dA, _ := w.e.mgr.Mongo.GetDatatypeByKey(w.e.ctx, colDoc.Num, x.key)
	if dA == nil {
		return
	}
	w.local(x)
	if len(x.rep.dt.CreatePushPullPack().Operations) == 0 {
		return
	}
	w.sync(x, 0)
	doc := *dA
	_ = snapshot.NewManager(w.e.ctx, w.e.mgr, &doc, colDoc).UpdateSnapshot()
	after := w.dbDigest()
	w.checkSnapshots()
	w.evs = append(w.evs, fmt.Sprintf("WSnapUpd %s (mkDdoc %s %s %s %s %s [] []) %s", gStr(x.owner.col), gStr(dA.DUID), gStr(dA.Key), gN(uint64(dA.CollectionNum)),
		gN(typeNum[dA.Type]), gN(dA.Sseq.End), after.gal))
	w.desc = append(w.desc, fmt.Sprintf("the snapshot update of the push of key %q to end %d runs only now, after a later push", dA.Key, dA.Sseq.End))
	w.c.Count("ev-delayed-snapshot-update")
}

// captureJob remembers the datatype document as a handler that just stored operations held it
// racingUpdates: the background snapshot update of one push is slow (its first query is answered late) while a second
// push on the same datatype is committed and its update runs.  Updates of one datatype run one at a time (their lock):
// the outcome is the one of the first update followed by the second, and the recorded version never decreases (C11).
func (w *wworld) racingUpdates(x *wdt) {
	if x.rep.dt.GetState() != model.StateOfDatatype_SUBSCRIBED || w.dbfault {
		return
	}
	docOf := func() *schema.DatatypeDoc {
		colDoc, _ := w.e.mgr.Mongo.GetCollection(w.e.ctx, x.owner.col)
		if colDoc == nil {
			return nil
		}
		d, _ := w.e.mgr.Mongo.GetDatatypeByKey(w.e.ctx, colDoc.Num, x.key)
		return d
	}
	w.local(x)
	if len(x.rep.dt.CreatePushPullPack().Operations) == 0 {
		return
	}
	cmd0 := w.e.fm.CmdCount()
	w.holdMode = 1
	w.sync(x, 0)
	if !w.holdOn {
		w.holdMode = 0
		return
	}
	defer func() { w.holdRel(); w.holdMode = 0; w.holdOn = false }()
	dA := docOf()
	w.holdMode = 2
	w.local(x)
	second := len(x.rep.dt.CreatePushPullPack().Operations) > 0
	if second {
		w.sync(x, 0)
	}
	dB := docOf()
	time.Sleep(30 * time.Millisecond)
	w.checkSnapshots()
	w.holdRel()
	want := 1
	if second {
		want = 2
	}
	deadline := w.postDeadline()
	for time.Now().Before(deadline) && w.e.fm.CountAfter(cmd0, "update", x.owner.col) < want {
		time.Sleep(200 * time.Microsecond)
	}
	if w.e.fm.CountAfter(cmd0, "update", x.owner.col) < want {
		w.c.Count("post-commit-wait-timeout")
	}
	w.settle(w.base)
	w.holdMode, w.holdOn = 0, false
	after := w.dbDigest()
	w.checkLog(after)
	w.checkSnapshots()
	if dA == nil || dB == nil {
		return
	}
	g := func(d *schema.DatatypeDoc) string {
		return fmt.Sprintf("(mkDdoc %s %s %s %s %s [] [])", gStr(d.DUID), gStr(d.Key), gN(uint64(d.CollectionNum)), gN(typeNum[d.Type]), gN(d.Sseq.End))
	}
	w.evs = append(w.evs, fmt.Sprintf("WSnapUpd2 %s %s %s %s", gStr(x.owner.col), g(dA), g(dB), after.gal))
	w.desc = append(w.desc, fmt.Sprintf("snapshot update of key %q at end %d answered late while the push to end %d was committed and updated", x.key, dA.Sseq.End, dB.Sseq.End))
	w.c.Count("ev-racing-snapshot-updates")
}

func (w *wworld) captureJob(x *wdt) {
	colDoc, _ := w.e.mgr.Mongo.GetCollection(w.e.ctx, x.owner.col)
	if colDoc == nil {
		return
	}
	if d, _ := w.e.mgr.Mongo.GetDatatypeByKey(w.e.ctx, colDoc.Num, x.key); d != nil {
		w.jobs = append(w.jobs, wjob{x.owner.col, d})
	}
}

type wjob struct {
	col string
	doc *schema.DatatypeDoc
}

// ---------- C06 oracle: the stored log of every datatype is a gapless exactly-once order ----------
// logViolate reports a broken log invariant under C06 and, in a world where storage commands failed or messages were
// duplicated / lost, under the property that promises the invariant in spite of that (C08, C07)
func (w *wworld) logViolate(sig, what string, replay interface{}) {
	w.c.Violate("C06", sig, what, replay)
	if w.dbfault {
		w.c.Violate("C08", sig, what, replay)
	}
	if w.msgfaults {
		w.c.Violate("C07", sig, what, replay)
	}
	if w.inRound {
		w.c.Violate("C12", sig, what, replay)
	}
}

// checkOthersUntouched: an exchange about one datatype leaves the documents and the stored operations of every other
// datatype exactly as they were (C17)
func (w *wworld) checkOthersUntouched(before, after dbView, duidReq, duidResp, key string) {
	mine := func(du string) bool { return du == duidReq || du == duidResp }
	index := func(v dbView) (map[string]string, map[string]string) {
		ops, dts := map[string]string{}, map[string]string{}
		for _, o := range v.ops {
			if du, _ := bget(o, "duid").(string); !mine(du) {
				ops[bget(o, "_id").(string)] = fmt.Sprint(o)
			}
		}
		for _, d := range v.dts {
			if du, _ := bget(d, "_id").(string); !mine(du) {
				if k, _ := bget(d, "key").(string); k != key { // the datatype of this key may have been found by key under another DUID
					dts[du] = fmt.Sprint(d)
				}
			}
		}
		return ops, dts
	}
	ob, db := index(before)
	oa, da := index(after)
	for id, o := range ob {
		if oa[id] != o {
			w.c.Violate("C17", "other-datatype-operations-changed", fmt.Sprintf("an exchange about key %q (DUID %s) removed or changed the stored operation %s of another datatype", key, duidReq, id), w.desc)
			return
		}
	}
	for id := range oa {
		if _, had := ob[id]; !had {
			w.c.Violate("C17", "other-datatype-operations-changed", fmt.Sprintf("an exchange about key %q (DUID %s) stored the operation %s under another datatype", key, duidReq, id), w.desc)
			return
		}
	}
	for id, d := range db {
		if da[id] != d {
			w.c.Violate("C17", "other-datatype-document-changed", fmt.Sprintf("an exchange about key %q (DUID %s) changed the document of datatype %s", key, duidReq, id), w.desc)
			return
		}
	}
}

// checkEntryContract: the contract of create / subscribe judged against the store as it was before the exchange (C13):
// Create or SubscribeOrCreate of a key that names no datatype of the client's collection is not refused as a duplicate,
// and Subscribe of such a key is refused — whatever other collections hold under the same key
func (w *wworld) checkEntryContract(before dbView, x *wdt, pack, resp *model.PushPullPack, fault int) {
	if fault != 0 || w.dbfault {
		return
	}
	colDoc, _ := w.e.mgr.Mongo.GetCollection(w.e.ctx, x.owner.col)
	if colDoc == nil {
		return
	}
	opt := model.PushPullPackOption(pack.Option)
	if !opt.HasCreateBit() && !opt.HasSubscribeBit() {
		return
	}
	existed, duidUsed := false, false
	for _, d := range before.dts {
		if uint64(colDoc.Num) == bnum(bget(d, "colNum")) && bget(d, "key") == x.key {
			existed = true
		}
		if bget(d, "_id") == pack.DUID {
			duidUsed = true
		}
	}
	if existed || duidUsed {
		return
	}
	isErr := resp.GetPushPullPackOption().HasErrorBit()
	code := uint32(0)
	if isErr && len(resp.Operations) > 0 {
		if eo, ok := operations.ModelToOperation(resp.Operations[len(resp.Operations)-1]).(*operations.ErrorOperation); ok {
			code = uint32(eo.GetCode())
		}
	}
	switch {
	case opt.HasCreateBit() && isErr && code == 302:
		w.c.Violate("C13", "create-of-unused-key-refused", fmt.Sprintf("collection %s holds no datatype under key %q, yet creating it was refused as a duplicate", x.owner.col, x.key), w.desc)
	case !opt.HasCreateBit() && opt.HasSubscribeBit() && !isErr:
		w.c.Violate("C13", "subscribe-of-missing-key-accepted", fmt.Sprintf("collection %s holds no datatype under key %q, yet subscribing to it was accepted", x.owner.col, x.key), w.desc)
	}
}

func (w *wworld) checkLog(v dbView) {
	type od struct {
		sseq, seq uint64
		cuid, id  string
	}
	byDuid := map[string][]od{}
	for _, o := range v.ops {
		id, _ := bget(o, "id").(bson.D)
		du := bget(o, "duid").(string)
		byDuid[du] = append(byDuid[du], od{bnum(bget(o, "sseq")), bnum(bget(id, "seq")), bget(id, "cuid").(string), bget(o, "_id").(string)})
	}
	known := map[string]bool{}
	byKey := map[string]string{}
	for _, d := range v.dts {
		du := bget(d, "_id").(string)
		known[du] = true
		// a (collection, key) names at most one datatype
		ck := fmt.Sprintf("%d|%v", bnum(bget(d, "colNum")), bget(d, "key"))
		if other, dup := byKey[ck]; dup {
			what := fmt.Sprintf("two datatype documents (%s and %s) are stored under one collection and key %v", other, du, bget(d, "key"))
			w.c.Violate("C13", "two-datatypes-under-one-key", what, w.desc)
			w.logViolate("two-datatypes-under-one-key", what, w.desc)
		}
		byKey[ck] = du
		sseq, _ := bget(d, "sseq").(bson.D)
		end := bnum(bget(sseq, "end"))
		l := byDuid[du]
		sort.Slice(l, func(i, j int) bool { return l[i].sseq < l[j].sseq })
		if w.dbfault { // documents beyond the recorded end are leftovers of a failed commit: not part of the log
			for len(l) > 0 && l[len(l)-1].sseq > end {
				l = l[:len(l)-1]
				w.c.Count("leftover-operation-documents-seen")
			}
		}
		if uint64(len(l)) != end {
			w.logViolate("log-end-mismatch", fmt.Sprintf("datatype %s records end of log %d but %d operations are stored", du, end, len(l)), w.desc)
		}
		last := map[string]uint64{}
		for i, o := range l {
			if o.sseq != uint64(i+1) {
				w.logViolate("log-gap-or-repeat", fmt.Sprintf("datatype %s: stored server sequence numbers are not 1..n (position %d holds sseq %d)", du, i+1, o.sseq), w.desc)
				break
			}
			if o.id != fmt.Sprintf("%s:%d", du, o.sseq) {
				w.logViolate("log-id-mismatch", fmt.Sprintf("operation document %s does not carry the id duid:sseq", o.id), w.desc)
			}
			if o.seq != last[o.cuid]+1 {
				w.logViolate("client-order", fmt.Sprintf("datatype %s: operations of client %s are not stored in issue order without gaps (seq %d after %d)", du, o.cuid, o.seq, last[o.cuid]), w.desc)
			}
			last[o.cuid] = o.seq
		}
		for _, f := range []string{"rwClients", "roClients"} {
			cl, _ := bget(d, f).(bson.D)
			for _, e := range cl {
				sub, _ := e.Value.(bson.D)
				cp, _ := bget(sub, "cp").(bson.D)
				s, cq := bnum(bget(cp, "s")), bnum(bget(cp, "c"))
				if s > end {
					w.logViolate("checkpoint-beyond-log", fmt.Sprintf("datatype %s: client %s has checkpoint sseq %d beyond the end of the log %d", du, e.Key, s, end), w.desc)
				}
				if cq > last[e.Key] {
					w.logViolate("ack-of-unstored-op", fmt.Sprintf("datatype %s: client %s is acknowledged up to seq %d but only %d of its operations are stored", du, e.Key, cq, last[e.Key]), w.desc)
				}
			}
		}
	}
	// C17: a datatype document only lists clients registered in its own collection, and its operations
	// carry its collection number
	clientCol := map[string]uint64{}
	for _, cd := range w.e.fm.Dump("orda")["-_-Clients"] {
		clientCol[bget(cd, "_id").(string)] = bnum(bget(cd, "colNum"))
	}
	for _, d := range v.dts {
		du := bget(d, "_id").(string)
		col := bnum(bget(d, "colNum"))
		for _, f := range []string{"rwClients", "roClients"} {
			cl, _ := bget(d, f).(bson.D)
			for _, e := range cl {
				if cc, ok := clientCol[e.Key]; ok && cc != col {
					w.c.Violate("C17", "foreign-client-in-datatype", fmt.Sprintf("datatype %s of collection #%d lists client %s, which is registered in collection #%d", du, col, e.Key, cc), w.desc)
				}
			}
		}
		for _, o := range v.ops {
			if bget(o, "duid") == du && bnum(bget(o, "colNum")) != col {
				w.c.Violate("C17", "operation-in-foreign-collection", fmt.Sprintf("an operation of datatype %s (collection #%d) is stored under collection #%d", du, col, bnum(bget(o, "colNum"))), w.desc)
			}
		}
	}
	for du := range byDuid {
		if !known[du] && w.dbfault {
			continue // a create whose second write failed: the operations have no datatype document yet
		}
		if !known[du] {
			w.logViolate("orphan-operations", fmt.Sprintf("operations are stored under %s which is not a datatype", du), w.desc)
		}
	}
}

// ---------- the exchange ----------
type exch struct {
	resp    *model.PushPullMessage
	err     error
	timeout bool
}

func (w *wworld) call(msg *model.PushPullMessage) exch {
	ch := make(chan exch, 1)
	ctx, cancel := gocontext.WithCancel(gocontext.Background())
	w.base = runtime.NumGoroutine()
	go func() {
		r, err := w.e.svc.ProcessPushPull(ctx, msg)
		cancel()
		ch <- exch{resp: r, err: err}
	}()
	select {
	case r := <-ch:
		return r
	case <-time.After(8 * time.Second):
		return exch{timeout: true}
	}
}

// settle waits until the goroutines started since [base] was sampled (the handler's post-response work:
// publish, then snapshot update) have finished and the store saw no command for a moment
func (w *wworld) settle(base int) {
	deadline := time.Now().Add(3 * time.Second)
	lastG, lastC, since := runtime.NumGoroutine(), w.e.fm.CmdCount(), time.Now()
	for runtime.NumGoroutine() > base && time.Now().Before(deadline) {
		time.Sleep(50 * time.Microsecond)
		if g, c := runtime.NumGoroutine(), w.e.fm.CmdCount(); g != lastG || c != lastC {
			lastG, lastC, since = g, c, time.Now()
		} else if time.Since(since) > 25*time.Millisecond {
			w.c.Count("settle-by-stability") // the driver or the broker kept a goroutine (a new pooled connection)
			return
		}
	}
}

// postDeadline: how long to wait for post-commit work.  Generous, so that a loaded machine causes no false alarm; but
// when the work has failed to come three times in this run the tree is broken and the run is not spent waiting
func (w *wworld) postDeadline() time.Time {
	if w.c.Res.Distribution["post-commit-wait-timeout"] >= 3 {
		return time.Now().Add(500 * time.Millisecond)
	}
	return time.Now().Add(10 * time.Second)
}

// waitPost waits for the goroutine finalize() starts after a committed push: publish, then snapshot update
func (w *wworld) waitPost(col string, pubsBefore int, cmdBefore int) {
	deadline := w.postDeadline()
	for time.Now().Before(deadline) {
		if len(w.e.mq.Published()) > pubsBefore && w.e.fm.SawAfter(cmdBefore, "update", col) {
			return
		}
		time.Sleep(200 * time.Microsecond)
	}
	w.c.Count("post-commit-wait-timeout")
}

func (w *wworld) pubsSince(n int) ([]string, []fakemqtt.Pub) {
	all := w.e.mq.Published()
	var out []string
	for _, p := range all[n:] {
		var nt struct {
			CUID string
			DUID string
			Sseq uint64 `json:"sseq"`
		}
		_ = json.Unmarshal(p.Payload, &nt)
		parts := strings.SplitN(p.Topic, "/", 2)
		key := ""
		if len(parts) > 1 {
			key = parts[1]
		}
		out = append(out, fmt.Sprintf("(mkPub %s %s %s %s %s)", gStr(parts[0]), gStr(key), gStr(nt.CUID), gStr(nt.DUID), gN(nt.Sseq)))
	}
	return out, all[n:]
}

func rpcCode(err error) uint64 {
	s := err.Error()
	switch {
	case strings.Contains(s, "NotFound") && strings.Contains(s, "no client"):
		return 1
	case strings.Contains(s, "NotFound"):
		return 0
	case strings.Contains(s, "Unauthenticated"):
		return 2
	case strings.Contains(s, "Unavailable"):
		return 3
	}
	return 99
}

// sync performs one exchange for datatype x; fault: 0 none, 1 duplicated request, 2 dropped response
func (w *wworld) sync(x *wdt, fault int) {
	r := x.rep
	pack := r.dt.CreatePushPullPack()
	msg := model.NewPushPullMessage(0, x.owner.cm, pack)
	reqG := gPpp(pack)
	before := w.dbDigest()
	pubsBefore := len(w.e.mq.Published())
	cmdBefore := w.e.fm.CmdCount()
	pushed := len(pack.Operations)
	fg := []string{"FNone", "FDupRequest", "FDropResponse", "FNone", "FNone"}[fault]
	if fault == 4 {
		w.e.fm.FailNext(1 + w.c.Rng.Intn(9))
	}
	var holdReached <-chan struct{}
	if w.holdMode == 1 {
		holdReached, w.holdRel = w.e.fm.HoldNext("find", "-_-Snapshots")
	}
	if w.holdMode == 3 {
		holdReached = w.e.fm.FailNextOn("find", "-_-Snapshots")
		w.holdRel = func() {}
	}
	ex := w.call(msg)
	if ex.timeout {
		prop := "C16"
		if fault == 4 {
			prop = "C08"
		}
		w.c.Violate(prop, "no-answer", fmt.Sprintf("a push-pull for key %q was not answered within 8s (fault kind %d)", x.key, fault), w.desc)
		panic("request not answered")
	}
	postFault := false
	if fault == 4 {
		time.Sleep(3 * time.Millisecond) // let the post-commit goroutine reach the armed command, if it is one of its
		failed := w.e.fm.TakeFailed()
		w.dbfault = true
		switch {
		case failed == nil:
			fault = 0 // the request issued fewer commands than the armed index
		case failed.Coll == "-_-Collections":
			fg = "(FDb PFCollection)"
		case failed.Coll == "-_-Clients":
			fg = "(FDb PFClient)"
		case failed.Coll == "-_-Datatypes" && failed.Name == "find":
			fg = "(FDb (PFPack FailRead))"
		case failed.Coll == "-_-Operations" && failed.Name == "find" && ex.err == nil && ex.resp.PushPullPacks[0].GetPushPullPackOption().HasErrorBit():
			fg = "(FDb (PFPack FailPull))"
		case failed.Coll == "-_-Operations" && failed.Name == "delete":
			fg = "(FDb (PFPack FailPurge))"
		case failed.Coll == "-_-Operations" && failed.Name == "insert":
			fg = "(FDb (PFPack FailInsert))"
		case failed.Coll == "-_-Datatypes" && failed.Name == "update":
			fg = "(FDb (PFPack FailUpdate))"
		default: // a command of the post-response work (snapshot update): the exchange itself was not disturbed
			fault = 0
			postFault = true
		}
		w.c.Count("ev-db-fault-" + fg)
	}
	if ex.err != nil {
		if fault != 4 {
			w.c.Violate("C16", "unexpected-rpc-error", fmt.Sprintf("registered client got an RPC error for a regular sync: %v", ex.err), w.desc)
			panic("rpc error")
		}
		after := w.dbDigest()
		if after.text != before.text {
			w.c.Violate("C08", "rpc-error-changed-store", "a request that failed with an RPC error changed the stored data", w.desc)
		}
		code := rpcCode(ex.err)
		w.evs = append(w.evs, fmt.Sprintf("WSyncRpc %s %s %s %s %s", gNat(x.idx), fg, reqG, gN(code), after.gal))
		w.desc = append(w.desc, fmt.Sprintf("sync dt%d (%s, %s) -> rpc error %d", x.idx, x.key, fg, code))
		return
	}
	resp := ex.resp.PushPullPacks[0]
	isErr := resp.GetPushPullPackOption().HasErrorBit()
	if fault == 4 && !isErr {
		w.c.Violate("C08", "fault-not-reported", fmt.Sprintf("storage command %s failed while serving key %q but the client got a normal response", fg, x.key), w.desc)
	}
	if w.holdMode == 3 {
		w.holdOn = false
		if !isErr && pushed > 0 {
			select {
			case <-holdReached:
				w.holdOn = true
				time.Sleep(2 * time.Millisecond) // the update's goroutine ends with the error
			case <-time.After(time.Second):
			}
		}
		if !w.holdOn {
			w.e.fm.Disarm()
		}
	}
	if w.holdMode == 1 {
		// the background snapshot update of this push is to be held in its first query: wait until it got there
		w.holdOn = false
		if !isErr && pushed > 0 {
			select {
			case <-holdReached:
				// the update has read the latest snapshot; it is held at its next query, the operations after that snapshot
				r2, rel2 := w.e.fm.HoldNext("find", "-_-Operations")
				w.holdRel()
				w.holdRel = rel2
				select {
				case <-r2:
					w.holdOn = true
				case <-time.After(time.Second):
				}
			case <-time.After(time.Second):
			}
		}
		if !w.holdOn {
			w.holdRel()
		}
	}
	if !isErr && pushed > 0 && resp.CheckPoint.Cseq > before0cseq(before, pack.DUID, x.owner.cuid) && !(w.holdMode != 0 && w.holdOn) {
		if !postFault {
			w.waitPost(x.owner.col, pubsBefore, cmdBefore)
		}
	}
	if w.holdMode != 0 && w.holdOn {
		if !isErr && pushed > 0 && resp.CheckPoint.Cseq > before0cseq(before, pack.DUID, x.owner.cuid) {
			// the notification precedes the snapshot update in the handler's goroutine: wait for it, not for the update
			deadline := time.Now().Add(3 * time.Second)
			for time.Now().Before(deadline) && len(w.e.mq.Published()) <= pubsBefore {
				time.Sleep(200 * time.Microsecond)
			}
		}
		w.snapOff = true // snapshot updates are pending: the stored snapshots are taken as observed, the race is judged afterwards
	}
	w.settle(w.base)
	if postFault {
		w.snapOff = true
	}
	if fault == 1 { // the same request is delivered a second time; the client sees only the second response
		pubs2 := len(w.e.mq.Published())
		cmd2 := w.e.fm.CmdCount()
		msg2 := model.NewPushPullMessage(0, x.owner.cm, cloneP(pack))
		ex2 := w.call(msg2)
		if ex2.timeout || ex2.err != nil {
			w.c.Violate("C16", "no-answer", "a duplicated request was not answered", w.desc)
			panic("dup request not answered")
		}
		_ = pubs2
		_ = cmd2
		resp = ex2.resp.PushPullPacks[0]
		isErr = resp.GetPushPullPackOption().HasErrorBit()
		w.settle(w.base)
	}
	after := w.dbDigest()
	w.checkLog(after)
	w.checkSnapshots()
	w.checkOthersUntouched(before, after, pack.DUID, resp.DUID, x.key)
	w.checkEntryContract(before, x, pack, resp, fault)
	pubG, pubs := w.pubsSince(pubsBefore)
	// C18: one publish iff at least one operation was stored
	stored := strings.Count(logPrefix(after), "\nO|") - strings.Count(logPrefix(before), "\nO|") // operations within the recorded logs
	if !isErr {
		// C18: a notification carries the pushing client, the datatype and the NEW end of the log
		for _, pb := range pubs {
			var nt struct {
				CUID string
				DUID string
				Sseq uint64 `json:"sseq"`
			}
			_ = json.Unmarshal(pb.Payload, &nt)
			for _, d := range after.dts {
				if bget(d, "_id") == nt.DUID {
					ss, _ := bget(d, "sseq").(bson.D)
					if end := bnum(bget(ss, "end")); fault != 1 && nt.Sseq != end {
						w.c.Violate("C18", "publish-wrong-end", fmt.Sprintf("the push of key %q moved the end of the log to %d but the notification says %d", x.key, end, nt.Sseq), w.desc)
					}
					if nt.CUID != x.owner.cuid || pb.Topic != x.owner.col+"/"+x.key {
						w.c.Violate("C18", "publish-wrong-address", fmt.Sprintf("notification on topic %q from client %q for a push of client %q on %s/%s", pb.Topic, nt.CUID, x.owner.cuid, x.owner.col, x.key), w.desc)
					}
				}
			}
		}
		if stored > 0 && len(pubs) < 1 {
			w.c.Violate("C18", "missing-publish", fmt.Sprintf("%d operations were stored for key %q but nothing was published", stored, x.key), w.desc)
		}
		if stored == 0 && len(pubs) > 0 {
			w.c.Violate("C18", "publish-without-push", fmt.Sprintf("a pull-only sync of key %q published %d notifications", x.key, len(pubs)), w.desc)
		}
	}
	if isErr && after.text != before.text && fault != 4 {
		w.c.Violate("C16", "refused-request-changed-store", fmt.Sprintf("a sync of key %q was refused but the stored data changed", x.key), w.desc)
	}
	if fault == 4 && isErr {
		// C08: nothing that was acknowledged is lost and no acknowledged position changed
		if logPrefix(before) != logPrefix(after) {
			w.c.Violate("C08", "acknowledged-data-changed", fmt.Sprintf("a storage failure (%s) while serving key %q changed datatype documents or operations within the recorded logs", fg, x.key), w.desc)
		}
	}
	// the client applies the response (unless it is lost)
	ns, ne := x.h.snapshot()
	wasDue := r.dt.GetState() != model.StateOfDatatype_SUBSCRIBED
	if fault != 2 {
		base := runtime.NumGoroutine()
		p, pm := guarded(func() { r.dt.ApplyPushPullPack(cloneP(resp)) })
		waitGoroutines(base)
		if p {
			w.c.Violate("C16", "client-panic-on-response", fmt.Sprintf("ApplyPushPullPack panicked: %s", pm), w.desc)
			panic("client panic")
		}
		// handlers run in a goroutine: wait for what must come
		deadline := time.Now().Add(time.Second)
		for time.Now().Before(deadline) {
			s2, e2 := x.h.snapshot()
			if (!isErr || e2 > ne) && (isErr || !wasDue || s2 > ns) {
				break
			}
			time.Sleep(100 * time.Microsecond)
		}
		time.Sleep(200 * time.Microsecond)
	}
	if fault == 2 && !isErr {
		x.held = append(x.held, cloneP(resp))
	}
	s2, e2 := x.h.snapshot()
	errG := "None"
	if e2 > ne {
		x.h.mu.Lock()
		errG = gSome(gN(uint64(x.h.errs[ne])))
		x.h.mu.Unlock()
	}
	if fault != 2 && isErr && e2 == ne {
		w.c.Violate("C16", "error-not-delivered", fmt.Sprintf("an error response for key %q was not reported to the error handler", x.key), w.desc)
		w.c.Violate("C13", "error-not-delivered", fmt.Sprintf("an error response for key %q was not reported to the error handler", x.key), w.desc)
	}
	// C13: nothing a subscriber had buffered locally survives the subscription
	if fault != 2 && !isErr && wasDue && resp.GetPushPullPackOption().HasSubscribeBit() && r.dt.GetState() == model.StateOfDatatype_SUBSCRIBED {
		if n := len(r.dt.CreatePushPullPack().Operations); n > 0 {
			w.c.Violate("C13", "buffered-operations-survive-subscribe", fmt.Sprintf("key %q: after subscribing at log position %d the client still offers %d operations it had issued before", x.key, resp.CheckPoint.Sseq, n), w.desc)
		}
	}
	// C13: a new subscriber's first state is the datatype's state at the log position it subscribed at
	if fault != 2 && !isErr && wasDue && resp.GetPushPullPackOption().HasSubscribeBit() && r.dt.GetState() == model.StateOfDatatype_SUBSCRIBED &&
		len(r.dt.CreatePushPullPack().Operations) == 0 && !w.dirty {
		if sv, send, ok := w.serverView(x); ok && send == r.dt.CreatePushPullPack().CheckPoint.Sseq {
			cv, _ := r.view()
			if sv != cv {
				w.c.Violate("C13", "first-state-differs", fmt.Sprintf("key %q: a new subscriber at log position %d exposes %s but the log replays to another state", x.key, send, r.viewJSON()), w.desc)
			}
			w.c.Count("first-state-compared")
		}
	}
	if s2-ns > 1 {
		w.c.Violate("C13", "state-change-reported-twice", fmt.Sprintf("the state-change handler was called %d times for one response", s2-ns), w.desc)
	}
	// C05: the checkpoint never moves backwards
	cpNow := r.dt.CreatePushPullPack().CheckPoint
	np := uint64(len(r.dt.CreatePushPullPack().Operations))
	curS, curC := cpNow.Sseq, cpNow.Cseq-np
	if r.dt.GetState() == model.StateOfDatatype_SUBSCRIBED && !wasDue && (curS < x.lastS || curC < x.lastC) {
		w.c.Violate("C05", "checkpoint-moved-back", fmt.Sprintf("checkpoint of key %q went from (s:%d c:%d) to (s:%d c:%d)", x.key, x.lastS, x.lastC, curS, curC), w.desc)
	}
	x.lastS, x.lastC = curS, curC
	v, sz := r.view()
	aobs := fmt.Sprintf("(mkAobs %s %s %s %s (mkCp %s %s) %s %s)", errG, gBool(s2 > ns), gBool(r.dt.GetState() == model.StateOfDatatype_SUBSCRIBED),
		gStr(r.dt.GetDUID()), gN(curS), gN(curC), v, sz)
	w.evs = append(w.evs, fmt.Sprintf("WSync %s %s %s %s %s %s %s", gNat(x.idx), fg, reqG, gPpp(resp), after.gal, gList(pubG), aobs))
	w.desc = append(w.desc, fmt.Sprintf("sync dt%d (%s, fault %s, push %d ops) -> opt %d cp %s pulled %d", x.idx, x.key, fg, pushed, resp.Option, resp.CheckPoint.ToString(), len(resp.Operations)))
	w.c.Count("ev-sync")
	if isErr {
		w.c.Count("sync-refused")
	}
	if fault > 0 {
		w.c.Count("ev-sync-fault-" + fg)
		w.faulty = true
	}
	if len(resp.Operations) > 0 && pushed > 0 {
		w.nontriv = true // pushed and pulled in one exchange: concurrent writers
	}
	if !isErr && stored > 0 {
		w.captureJob(x)
	}
}

// applyHeld delivers a response that was held back (a delayed answer), or a second answer, to the client
func (w *wworld) applyResp(x *wdt, resp *model.PushPullPack, why string) {
	w.applyRespAs(x, resp, why, true)
}

func (w *wworld) applyRespAs(x *wdt, resp *model.PushPullPack, why string, fault bool) {
	r := x.rep
	ns, ne := x.h.snapshot()
	wasDue := r.dt.GetState() != model.StateOfDatatype_SUBSCRIBED
	isErr := resp.GetPushPullPackOption().HasErrorBit()
	base := runtime.NumGoroutine()
	p, pm := guarded(func() { r.dt.ApplyPushPullPack(cloneP(resp)) })
	waitGoroutines(base)
	if p {
		w.c.Violate("C07", "client-panic-on-late-response", fmt.Sprintf("ApplyPushPullPack panicked on a %s: %s", why, pm), w.desc)
		panic("client panic")
	}
	deadline := time.Now().Add(time.Second)
	for time.Now().Before(deadline) {
		s2, e2 := x.h.snapshot()
		if (!isErr || e2 > ne) && (isErr || !wasDue || s2 > ns) {
			break
		}
		time.Sleep(100 * time.Microsecond)
	}
	time.Sleep(200 * time.Microsecond)
	s2, e2 := x.h.snapshot()
	errG := "None"
	if e2 > ne {
		x.h.mu.Lock()
		errG = gSome(gN(uint64(x.h.errs[ne])))
		x.h.mu.Unlock()
	}
	if isErr && e2 == ne {
		w.c.Violate("C16", "error-not-delivered", fmt.Sprintf("an error response for key %q (a %s) was not reported to the error handler", x.key, why), w.desc)
	}
	cpNow := r.dt.CreatePushPullPack().CheckPoint
	np := uint64(len(r.dt.CreatePushPullPack().Operations))
	curS, curC := cpNow.Sseq, cpNow.Cseq-np
	if r.dt.GetState() == model.StateOfDatatype_SUBSCRIBED && !wasDue && (curS < x.lastS || curC < x.lastC) {
		w.c.Violate("C05", "checkpoint-moved-back", fmt.Sprintf("checkpoint of key %q went from (s:%d c:%d) to (s:%d c:%d) on a %s", x.key, x.lastS, x.lastC, curS, curC, why), w.desc)
	}
	x.lastS, x.lastC = curS, curC
	v, sz := r.view()
	aobs := fmt.Sprintf("(mkAobs %s %s %s %s (mkCp %s %s) %s %s)", errG, gBool(s2 > ns), gBool(r.dt.GetState() == model.StateOfDatatype_SUBSCRIBED),
		gStr(r.dt.GetDUID()), gN(curS), gN(curC), v, sz)
	w.evs = append(w.evs, fmt.Sprintf("WApply %s %s %s", gNat(x.idx), gPpp(resp), aobs))
	w.desc = append(w.desc, fmt.Sprintf("dt%d receives a %s (cp %s, %d ops)", x.idx, why, resp.CheckPoint.ToString(), len(resp.Operations)))
	if fault {
		w.c.Count("ev-late-response")
		w.faulty = true
	}
}

// resendAndApply: the request that was just answered is delivered to the server a second time and the
// client receives this second answer as well
func (w *wworld) resendAndApply(x *wdt, pack *model.PushPullPack) {
	msg := &model.PushPullMessage{Header: model.NewMessageHeader(model.RequestType_PUSHPULLS), Collection: x.owner.col, Cuid: x.owner.cuid, PushPullPacks: []*model.PushPullPack{cloneP(pack)}}
	reqG := gPpp(pack)
	pubsBefore := len(w.e.mq.Published())
	ex := w.call(msg)
	if ex.timeout || ex.err != nil {
		w.c.Violate("C16", "no-answer", "a duplicated request was not answered", w.desc)
		panic("dup request not answered")
	}
	resp := ex.resp.PushPullPacks[0]
	w.settle(w.base)
	after := w.dbDigest()
	w.checkLog(after)
	w.checkSnapshots()
	pubG, _ := w.pubsSince(pubsBefore)
	w.evs = append(w.evs, fmt.Sprintf("WRaw %s %s %s %s %s %s", gStr(x.owner.col), gStr(x.owner.cuid), reqG, gPpp(resp), after.gal, gList(pubG)))
	w.desc = append(w.desc, fmt.Sprintf("the request of dt%d is delivered again -> opt %d cp %s", x.idx, resp.Option, resp.CheckPoint.ToString()))
	w.applyResp(x, resp, "second answer to a duplicated request")
}

// waitGoroutines waits until the goroutine ApplyPushPullPack starts for the handlers has finished
func waitGoroutines(base int) {
	deadline := time.Now().Add(200 * time.Millisecond)
	for runtime.NumGoroutine() > base && time.Now().Before(deadline) {
		time.Sleep(20 * time.Microsecond)
	}
}

// logPrefix renders the datatype documents and, for each, the operations up to its recorded end
func logPrefix(v dbView) string {
	ends := map[string]uint64{}
	var sb strings.Builder
	for _, d := range v.dts {
		sseq, _ := bget(d, "sseq").(bson.D)
		ends[bget(d, "_id").(string)] = bnum(bget(sseq, "end"))
	}
	for _, line := range strings.Split(v.text, "\n") {
		if strings.HasPrefix(line, "D|") {
			sb.WriteString(line + "\n")
		}
	}
	for _, o := range v.ops {
		du := bget(o, "duid").(string)
		if e, ok := ends[du]; ok && bnum(bget(o, "sseq")) <= e {
			id, _ := bget(o, "id").(bson.D)
			fmt.Fprintf(&sb, "O|%v|%v|%v|%v\n", bget(o, "_id"), bget(o, "sseq"), bget(id, "cuid"), bget(id, "seq"))
		}
	}
	return sb.String()
}

func before0cseq(v dbView, duid, cuid string) uint64 {
	for _, d := range v.dts {
		if bget(d, "_id") == duid {
			cl, _ := bget(d, "rwClients").(bson.D)
			for _, e := range cl {
				if e.Key == cuid {
					sub, _ := e.Value.(bson.D)
					cp, _ := bget(sub, "cp").(bson.D)
					return bnum(bget(cp, "c"))
				}
			}
		}
	}
	return 0
}

func cloneP(p *model.PushPullPack) *model.PushPullPack {
	q := *p
	q.CheckPoint = p.CheckPoint.Clone()
	q.Operations = append([]*model.Operation{}, p.Operations...)
	return &q
}

func (w *wworld) local(x *wdt) {
	if w.kind == "doc" {
		dc := (&dworld{c: w.c}).rndCall(plainCopy(x.rep.doc.GetValue()))
		w.localWith(x, callSpec{dc.gal, dc.desc, func(r *replica) (string, error) {
			if err := dc.run(r.doc); err != nil {
				return "", err
			}
			return "RNil", nil
		}})
		return
	}
	cw := &world{c: w.c, kind: w.kind}
	w.localWith(x, cw.rndCall(x.rep))
}

// retouch: a scripted stretch on a list — an element is updated, synced, updated again, deleted, and something is
// inserted next to the tombstone, with a sync (hence a stored snapshot and a rebuild from it) after every step
func (w *wworld) retouch(x *wdt) {
	if w.kind != "list" || x.rep.dt.GetState() != model.StateOfDatatype_SUBSCRIBED {
		return
	}
	li := x.rep.li
	ins := func(pos int) callSpec {
		v := (&world{c: w.c, kind: w.kind}).rndTag()
		return callSpec{fmt.Sprintf("(LInsert %s %s)", gZ(int64(pos)), gVals([]interface{}{v})), fmt.Sprintf("InsertMany(%d,[%v])", pos, v), func(r *replica) (string, error) {
			ret, err := r.li.InsertMany(pos, v)
			if !isNilErr(err) {
				return "", err
			}
			return "(RVals " + gVals(ret.([]interface{})) + ")", nil
		}}
	}
	upd := func(pos int) callSpec {
		v := (&world{c: w.c, kind: w.kind}).rndTag()
		return callSpec{fmt.Sprintf("(LUpdate %s %s)", gZ(int64(pos)), gVals([]interface{}{v})), fmt.Sprintf("Update(%d,[%v])", pos, v), func(r *replica) (string, error) {
			ret, err := r.li.Update(pos, v)
			if !isNilErr(err) {
				return "", err
			}
			return "(RVals " + gVals(ret) + ")", nil
		}}
	}
	del := func(pos int) callSpec {
		return callSpec{fmt.Sprintf("(LDelete %s 1%%Z)", gZ(int64(pos))), fmt.Sprintf("DeleteMany(%d,1)", pos), func(r *replica) (string, error) {
			ret, err := r.li.DeleteMany(pos, 1)
			if !isNilErr(err) {
				return "", err
			}
			return "(RVals " + gVals(ret) + ")", nil
		}}
	}
	for li.Size() < 3 {
		w.localWith(x, ins(li.Size()))
	}
	w.sync(x, 0)
	p := w.c.Rng.Intn(li.Size() - 1)
	for _, cs := range []callSpec{upd(p), upd(p), ins(p + 1), del(p), ins(p), upd(p)} {
		w.localWith(x, cs)
		w.sync(x, 0)
	}
	w.c.Count("ev-retouch")
}

func (w *wworld) localWith(x *wdt, cs callSpec) {
	r := x.rep
	var res string
	var err error
	p, msg := guarded(func() { res, err = cs.run(r) })
	if p {
		w.c.Violate("C03", "panic-"+w.kind, fmt.Sprintf("%s call %s panicked: %s", w.kind, cs.desc, msg), w.desc)
		panic("local call panicked")
	}
	v, s := r.view()
	w.evs = append(w.evs, fmt.Sprintf("WLocal %s %s %s %s %s", gNat(x.idx), cs.gal, obsOf(res, err, p), v, s))
	w.desc = append(w.desc, fmt.Sprintf("dt%d.%s", x.idx, cs.desc))
	w.c.Count("ev-local")
}

// raw sends a mutated copy of x's current pack; the response is not applied
func (w *wworld) raw(x *wdt) {
	r := x.rep
	pack := cloneP(r.dt.CreatePushPullPack())
	col, cuid := x.owner.col, x.owner.cuid
	rng := w.c.Rng
	what := ""
	noCP := false
	switch rng.Intn(17) {
	case 14:
		noCP = true
		what = "no checkpoint"
	case 15, 16:
		// a create (or subscribe-or-create) under a key of its own that carries the DUID of a datatype of ANOTHER collection
		for _, o := range w.dts {
			if o.owner.col != x.owner.col && o.rep.dt.GetState() == model.StateOfDatatype_SUBSCRIBED {
				pack.DUID = o.rep.dt.GetDUID()
				pack.Key = fmt.Sprintf("fk%d", rng.Intn(1000))
				pack.Option = uint32(model.PushPullBitCreate)
				if rng.Intn(2) == 0 {
					pack.Option |= uint32(model.PushPullBitSubscribe)
				}
				what = fmt.Sprintf("create with the DUID of dt%d of collection %s", o.idx, o.owner.col)
				break
			}
		}
	case 0:
		pack.Option |= uint32(model.PushPullBitReadOnly)
		what = "read-only bit"
	case 1:
		pack.Option = uint32(model.PushPullBitCreate)
		what = "create bit forced"
	case 2:
		pack.Option = uint32(model.PushPullBitSubscribe)
		what = "subscribe bit forced"
	case 3:
		pack.Option = 0
		what = "plain push-pull forced"
	case 4:
		pack.DUID = "zzzzzzzzzzzzzzzz"
		what = "unknown DUID"
	case 5:
		// only DUIDs the server has handed out: two datatype objects sharing a self-chosen DUID is not a
		// situation the model covers (a creator's snapshot operation would reach a non-fresh replica)
		if o := w.dts[rng.Intn(len(w.dts))]; o != x && o.rep.dt.GetState() == model.StateOfDatatype_SUBSCRIBED {
			pack.DUID = o.rep.dt.GetDUID()
			what = fmt.Sprintf("DUID of dt%d", o.idx)
		}
	case 6:
		pack.CheckPoint = &model.CheckPoint{Sseq: 0, Cseq: pack.CheckPoint.Cseq}
		what = "stale checkpoint sseq 0"
	case 7:
		pack.CheckPoint = &model.CheckPoint{Sseq: pack.CheckPoint.Sseq + 1000, Cseq: pack.CheckPoint.Cseq}
		what = "future checkpoint"
	case 8:
		if len(pack.Operations) > 1 {
			pack.Operations = pack.Operations[1:]
			what = "first operation missing"
		}
	case 9:
		pack.Type = model.TypeOfDatatype((int(pack.Type) + 1) % 4)
		what = "other datatype type"
	case 10:
		pack.Key = pack.Key + "x"
		what = "other key"
	case 11:
		if len(w.cols) > 1 {
			for _, c2 := range w.cols {
				if c2 != col {
					col = c2
				}
			}
			what = "foreign collection name"
		}
	case 12:
		col = "nosuchcollection"
		what = "unknown collection"
	case 13:
		cuid = "unregistered_cuid"
		what = "unregistered client"
	}
	if what == "" {
		what = "unchanged copy"
	}
	if noCP {
		// a pack whose checkpoint field is absent: not a request of the model (its packs always carry one); judged here alone —
		// answered, refused, nothing stored (C16).  The unrepaired server crashed on it.
		p2 := cloneP(pack)
		p2.CheckPoint = nil
		m2 := &model.PushPullMessage{Header: model.NewMessageHeader(model.RequestType_PUSHPULLS), Collection: col, Cuid: cuid, PushPullPacks: []*model.PushPullPack{p2}}
		before := w.dbDigest()
		w.desc = append(w.desc, fmt.Sprintf("raw request from dt%d (no checkpoint)", x.idx))
		w.c.Suspect("C16", "server-crash", "the server process went down while serving a push-pull pack without a checkpoint", w.desc)
		ex := w.call(m2)
		time.Sleep(2 * time.Millisecond)
		w.c.ClearSuspect()
		if ex.timeout {
			w.c.Violate("C16", "no-answer", "a push-pull pack without a checkpoint was not answered within 8s", w.desc)
			panic("request not answered")
		}
		if ex.err == nil && !ex.resp.PushPullPacks[0].GetPushPullPackOption().HasErrorBit() {
			w.c.Violate("C16", "pack-without-checkpoint-accepted", "a push-pull pack without a checkpoint got a regular answer", w.desc)
		}
		if after := w.dbDigest(); after.text != before.text {
			w.c.Violate("C16", "refused-request-changed-store", "a push-pull pack without a checkpoint was refused but the stored data changed", w.desc)
		}
		w.c.Count("ev-raw-no-checkpoint")
		return
	}
	msg := &model.PushPullMessage{Header: model.NewMessageHeader(model.RequestType_PUSHPULLS), Collection: col, Cuid: cuid, PushPullPacks: []*model.PushPullPack{pack}}
	reqG := gPpp(pack)
	before := w.dbDigest()
	pubsBefore := len(w.e.mq.Published())
	cmdBefore := w.e.fm.CmdCount()
	ex := w.call(msg)
	if ex.timeout {
		w.c.Violate("C16", "no-answer", fmt.Sprintf("a well-formed request (%s) was not answered within 8s", what), w.desc)
		panic("request not answered")
	}
	if ex.err != nil {
		after := w.dbDigest()
		if after.text != before.text {
			w.c.Violate("C16", "refused-request-changed-store", fmt.Sprintf("request (%s) was refused with an RPC error but the stored data changed", what), w.desc)
		}
		code := rpcCode(ex.err)
		if col != x.owner.col && code == 99 {
			w.c.Violate("C17", "foreign-collection-accepted", "unexpected error class: "+ex.err.Error(), w.desc)
		}
		w.evs = append(w.evs, fmt.Sprintf("WRawErr %s %s %s %s %s", gStr(col), gStr(cuid), reqG, gN(code), after.gal))
		w.desc = append(w.desc, fmt.Sprintf("raw request from dt%d (%s) -> rpc error %d", x.idx, what, code))
		w.c.Count("ev-raw-rpcerr")
		return
	}
	resp := ex.resp.PushPullPacks[0]
	isErr := resp.GetPushPullPackOption().HasErrorBit()
	if !isErr && len(pack.Operations) > 0 {
		// stored operations are followed by the handler's goroutine (publish, snapshot update): wait for it, however
		// loaded the machine is; a request that stored nothing is followed by nothing
		deadline := w.postDeadline()
		done := false
		for time.Now().Before(deadline) {
			if len(w.e.mq.Published()) > pubsBefore && w.e.fm.SawAfter(cmdBefore, "update", col) {
				done = true
				break
			}
			if len(w.dbDigest().ops) == len(before.ops) {
				time.Sleep(2 * time.Millisecond)
				done = true
				break
			}
			time.Sleep(200 * time.Microsecond)
		}
		if !done {
			w.c.Count("post-commit-wait-timeout")
		}
	}
	w.settle(w.base)
	after := w.dbDigest()
	w.checkLog(after)
	w.checkSnapshots()
	if isErr && after.text != before.text {
		w.c.Violate("C16", "refused-request-changed-store", fmt.Sprintf("request (%s) was refused but the stored data changed", what), w.desc)
		w.c.Violate("C13", "refused-request-changed-store", fmt.Sprintf("request (%s) was refused but the stored data changed", what), w.desc)
	}
	if col != x.owner.col && !isErr {
		w.c.Violate("C17", "foreign-collection-accepted", fmt.Sprintf("a client of %s was served in collection %s", x.owner.col, col), w.desc)
	}
	pubG, _ := w.pubsSince(pubsBefore)
	w.evs = append(w.evs, fmt.Sprintf("WRaw %s %s %s %s %s %s", gStr(col), gStr(cuid), reqG, gPpp(resp), after.gal, gList(pubG)))
	w.desc = append(w.desc, fmt.Sprintf("raw request from dt%d (%s) -> opt %d cp %s", x.idx, what, resp.Option, resp.CheckPoint.ToString()))
	w.c.Count("ev-raw")
	if isErr {
		w.c.Count("raw-refused")
		// the request was damaged on its way (option bits, checkpoint, a missing operation): its refusal reaches the
		// client, which has to report it and stay usable
		if col == x.owner.col && cuid == x.owner.cuid && pack.DUID == r.dt.GetDUID() && pack.Key == x.key && w.c.Rng.Intn(2) == 0 {
			before := len(r.dt.CreatePushPullPack().Operations)
			w.applyResp(x, resp, "refusal of a request damaged in transit ("+what+")")
			if after := len(r.dt.CreatePushPullPack().Operations); after < before {
				w.c.Violate("C16", "refused-operations-dropped", fmt.Sprintf("after the refusal (%s) the client of key %q no longer offers %d of its unacknowledged operations", what, x.key, before-after), w.desc)
			}
			w.c.Count("raw-refusal-applied")
		}
	} else if what != "unchanged copy" {
		w.dirty = true // an accepted damaged request: whether the clients still converge is not promised
	} else {
		// an accepted unchanged copy acts like a request whose response was lost: retries must repair it (C07)
		w.c.Count("raw-unchanged-copy-accepted")
	}
}

// serverView rebuilds x's datatype from the stored log the way the server does; returns the view and the end of the log
func (w *wworld) serverView(x *wdt) (string, uint64, bool) {
	colDoc, _ := w.e.mgr.Mongo.GetCollection(w.e.ctx, x.owner.col)
	if colDoc == nil {
		return "", 0, false
	}
	ddoc, _ := w.e.mgr.Mongo.GetDatatypeByKey(w.e.ctx, colDoc.Num, x.key)
	if ddoc == nil || ddoc.DUID != x.rep.dt.GetDUID() {
		return "", 0, false
	}
	sd, last, err := snapshot.NewManager(w.e.ctx, w.e.mgr, ddoc, colDoc).GetLatestDatatype()
	if err != nil {
		return "", 0, false
	}
	return gVal(sd.GetSnapshot().ToJSON()), last, true
}

// burst: several exchanges of x in a row lose their responses while another client keeps pushing; then
// the held responses arrive, in order or reversed — partially overlapping answers
func (w *wworld) burst(x *wdt) {
	var other *wdt
	for _, o := range w.dts {
		if o != x && o.key == x.key && o.owner.col == x.owner.col && o.rep.dt.GetState() == model.StateOfDatatype_SUBSCRIBED {
			other = o
		}
	}
	if other == nil || x.rep.dt.GetState() != model.StateOfDatatype_SUBSCRIBED {
		w.sync(x, 0)
		return
	}
	n := 2 + w.c.Rng.Intn(2)
	for j := 0; j < n; j++ {
		w.local(other)
		w.sync(other, 0)
		if w.c.Rng.Intn(2) == 0 {
			w.local(x)
		}
		w.sync(x, 2)
	}
	held := x.held
	x.held = nil
	if w.c.Rng.Intn(3) == 0 {
		for i, j := 0, len(held)-1; i < j; i, j = i+1, j-1 {
			held[i], held[j] = held[j], held[i]
		}
	}
	for _, h := range held {
		w.applyResp(x, h, "delayed response")
	}
	w.c.Count("ev-burst")
}

// ---------- C05 oracle at quiescence ----------
func (w *wworld) quiesce() {
	for round := 0; round < 2; round++ {
		for _, x := range w.dts {
			if x.rep.dt.GetState() == model.StateOfDatatype_SUBSCRIBED {
				w.sync(x, 0)
			}
		}
	}
	if w.dirty {
		w.c.Count("quiescence-oracle-skipped-after-faults")
		return
	}
	prop := "C05"
	if w.concurrent {
		prop = "C12"
	}
	if w.faulty {
		prop = "C07"
	}
	if w.dbfault {
		prop = "C08"
	}
	groups := map[string][]*wdt{}
	for _, x := range w.dts {
		if x.rep.dt.GetState() == model.StateOfDatatype_SUBSCRIBED {
			k := x.owner.col + "/" + x.key + "/" + x.rep.dt.GetDUID()
			groups[k] = append(groups[k], x)
		}
	}
	for k, g := range groups {
		v0, s0 := g[0].rep.view()
		for _, x := range g[1:] {
			v, s := x.rep.view()
			if v != v0 || s != s0 {
				w.c.Violate(prop, "clients-differ-at-quiescence", fmt.Sprintf("%s: after everybody synced, dt%d exposes %s and dt%d exposes %s", k, g[0].idx, g[0].rep.viewJSON(), x.idx, x.rep.viewJSON()), w.desc)
			}
		}
		// the server's own copy, rebuilt from the stored log
		colDoc, _ := w.e.mgr.Mongo.GetCollection(w.e.ctx, g[0].owner.col)
		if colDoc == nil {
			continue
		}
		ddoc, _ := w.e.mgr.Mongo.GetDatatypeByKey(w.e.ctx, colDoc.Num, g[0].key)
		if ddoc == nil || ddoc.DUID != g[0].rep.dt.GetDUID() {
			continue
		}
		sd, _, err := snapshot.NewManager(w.e.ctx, w.e.mgr, ddoc, colDoc).GetLatestDatatype()
		if err != nil {
			w.c.Violate(prop, "server-rebuild-failed", fmt.Sprintf("%s: the server cannot rebuild the datatype from its log: %v", k, err), w.desc)
			continue
		}
		sv := gVal(sd.GetSnapshot().ToJSON())
		if sv != v0 {
			b, _ := json.Marshal(sd.GetSnapshot().ToJSON())
			w.c.Violate(prop, "server-copy-differs", fmt.Sprintf("%s: clients expose %s, the server's rebuild from the log gives %s", k, g[0].rep.viewJSON(), string(b)), w.desc)
		}
		w.c.Count("quiescent-groups-compared")
	}
}

func sliceWire(c *Ctx, kind string) {
	n := c.N
	if n == 0 {
		n = 60
		if c.Tier == "thorough" {
			n = 1500
		}
	}
	faults := c.Faults
	c.Res.Rule = "random histories of 2..4 real clients (manual sync) in 1..2 collections on 1..2 keys of one " + kind + " against the real OrdaService over the in-memory store: create / subscribe / subscribe-or-create at arbitrary points, local calls, syncs, mutated raw requests (option bits, DUID, checkpoint, operations, type, key, collection, client)" +
		map[bool]string{true: ", duplicated requests (second answer only, or both answers applied), dropped responses, responses held back and applied after later exchanges", false: ""}[faults] + "; every request/response/store state/publish is replayed on the model; non-trivial = some exchange both pushed and pulled operations; distinct by script"
	var cases []string
	ty := map[string]string{"counter": "ccall", "map": "mcall", "list": "lcall", "doc": "ucall"}[kind]
	for h := 0; h < n; h++ {
		w := &wworld{c: c, e: getEnv(), kind: kind, msgfaults: faults}
		p, msg := guarded(func() {
			ncol := 1 + c.Rng.Intn(2)
			for i := 0; i < ncol; i++ {
				name := fmt.Sprintf("col%d", i)
				w.cols = append(w.cols, name)
				if _, err := w.e.svc.CreateCollection(gocontext.TODO(), &model.CollectionMessage{Collection: name}); err != nil {
					panic(err)
				}
				w.evs = append(w.evs, fmt.Sprintf("WCollection %s", gStr(name)))
			}
			ncl := 2 + c.Rng.Intn(3)
			keys := []string{"k", "j"}[:1+c.Rng.Intn(2)]
			for i := 0; i < ncl; i++ {
				w.newClient(w.cols[c.Rng.Intn(ncol)])
			}
			register := func(wc *wclient) {
				_, err := w.e.svc.ProcessClient(gocontext.TODO(), model.NewClientMessage(wc.cm))
				if err != nil {
					panic(err)
				}
				w.evs = append(w.evs, fmt.Sprintf("WClient %s %s None", gStr(wc.col), gStr(wc.cuid)))
			}
			steps := 10 + c.Rng.Intn(25)
			for s := 0; s < steps; s++ {
				wc := w.clients[c.Rng.Intn(ncl)]
				key := keys[c.Rng.Intn(len(keys))]
				x := wc.dts[key]
				if x == nil {
					first := wc.cuid == ""
					mode := c.Rng.Intn(3)
					x = w.newDt(wc, key, mode)
					if first {
						register(wc)
					}
					continue
				}
				switch k := c.Rng.Intn(100); {
				case k < 5 && kind == "doc":
					w.cur = "rest-patch"
					w.restPatch()
				case k < 3 && kind == "list":
					w.cur = "retouch"
					w.retouch(x)
				case k < 6 && len(w.jobs) > 0:
					w.cur = "stale-update"
					w.staleUpdate()
				case k < 12 && !faults && !c.DbFaults:
					w.cur = "racing-updates"
					w.racingUpdates(x)
				case k < 16 && !faults && !c.DbFaults:
					w.cur = "delayed-update"
					w.delayedUpdate(x)
				case k < 45:
					w.cur = "local"
					w.local(x)
				case k < 85:
					w.cur = "sync"
					f := 0
					if faults && c.Rng.Intn(3) == 0 {
						f = 1 + c.Rng.Intn(3)
					}
					if c.DbFaults && c.Rng.Intn(3) == 0 {
						f = 4
					}
					if faults && c.Rng.Intn(8) == 0 {
						w.burst(x)
					} else if faults && len(x.held) > 0 && c.Rng.Intn(3) == 0 {
						// a response held back earlier arrives now, after later exchanges
						h := x.held[0]
						x.held = x.held[1:]
						w.applyResp(x, h, "delayed response")
					} else if f == 3 {
						saved := cloneP(x.rep.dt.CreatePushPullPack())
						if x.rep.dt.GetState() == model.StateOfDatatype_SUBSCRIBED {
							w.sync(x, 0)
							w.resendAndApply(x, saved)
						} else {
							w.sync(x, 0)
						}
					} else {
						w.sync(x, f)
					}
				default:
					w.cur = "raw"
					w.raw(x)
				}
			}
			w.cur = "quiesce"
			w.quiesce()
			if c.Rng.Intn(2) == 0 {
				w.cur = "reset"
				w.reset()
			}
		})
		if p {
			c.Count("history-ended-by-panic")
			if !strings.Contains(msg, "not answered") && !strings.Contains(msg, "panic") && !strings.Contains(msg, "rpc error") {
				c.Violate("C16", "harness-panic-"+w.cur, "panic while driving the implementation: "+msg, w.desc)
			}
			theEnv = nil // the service may be wedged: start over
			continue
		}
		cases = append(cases, "[\n     "+strings.Join(w.evs, ";\n     ")+"]")
		c.Distinct(strings.Join(w.desc, "|"), w.nontriv)
		c.Sample(map[string]interface{}{"kind": kind, "script": w.desc})
	}
	c.Res.Cases = len(cases)
	name := "Wire_" + kind
	if faults {
		name = "WireF_" + kind
	}
	if c.DbFaults {
		name = "WireD_" + kind
	}
	c.WriteCases(name, "Base Time Ops Counter Map List Snapshot Datatype Replicas CheckCrdt Doc CheckDoc Server SnapSrv Wire Net CheckWire CheckWireDoc", "(list (wev "+ty+"))", "check_wire_"+kind, cases, 10)
}
