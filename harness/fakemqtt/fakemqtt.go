// Package fakemqtt is a throw-away minimal MQTT 3.1.1 broker (spike).
package fakemqtt

import (
	"bufio"
	"io"
	"net"
	"sync"
	"time"
)

type Pub struct {
	Topic   string
	Payload []byte
}

type Broker struct {
	mu   sync.Mutex
	ln   net.Listener
	Pubs []Pub
	subs map[string][]net.Conn
	conn map[net.Conn]bool
	ids  map[net.Conn]string // MQTT client id of each connection ("" = the server's publisher, which sets none)
	down time.Time           // connections of named clients are refused until then
}

// Outage drops every connection and refuses new ones for d (the broker is restarting)
func (b *Broker) Outage(d time.Duration) {
	b.mu.Lock()
	b.down = time.Now().Add(d)
	b.mu.Unlock()
	b.KickAll()
}

// KickAll closes the connection of every named client (a broker hiccup); clients may reconnect.  The connection
// without a client id is the server's publisher and stays.
func (b *Broker) KickAll() {
	b.mu.Lock()
	cs := make([]net.Conn, 0, len(b.conn))
	for c := range b.conn {
		if b.ids[c] != "" {
			cs = append(cs, c)
		}
	}
	b.mu.Unlock()
	for _, c := range cs {
		c.Close()
	}
}

func New() (*Broker, error) {
	ln, err := net.Listen("tcp", "127.0.0.1:0")
	if err != nil {
		return nil, err
	}
	b := &Broker{ln: ln, subs: map[string][]net.Conn{}, conn: map[net.Conn]bool{}, ids: map[net.Conn]string{}}
	go func() {
		for {
			c, err := ln.Accept()
			if err != nil {
				return
			}
			go b.serve(c)
		}
	}()
	return b, nil
}

func (b *Broker) Addr() string { return "tcp://" + b.ln.Addr().String() }

func (b *Broker) Published() []Pub {
	b.mu.Lock()
	defer b.mu.Unlock()
	return append([]Pub{}, b.Pubs...)
}

// Reset forgets the recorded publishes.
func (b *Broker) Reset() {
	b.mu.Lock()
	defer b.mu.Unlock()
	b.Pubs = nil
}

func readLen(r *bufio.Reader) (int, error) {
	mul, val := 1, 0
	for {
		c, err := r.ReadByte()
		if err != nil {
			return 0, err
		}
		val += int(c&127) * mul
		if c&128 == 0 {
			return val, nil
		}
		mul *= 128
	}
}

func encLen(n int) []byte {
	var out []byte
	for {
		d := byte(n % 128)
		n /= 128
		if n > 0 {
			d |= 128
		}
		out = append(out, d)
		if n == 0 {
			return out
		}
	}
}

func (b *Broker) serve(c net.Conn) {
	b.mu.Lock()
	b.conn[c] = true
	b.mu.Unlock()
	defer func() {
		b.mu.Lock()
		delete(b.conn, c)
		delete(b.ids, c)
		for t, l := range b.subs {
			var keep []net.Conn
			for _, x := range l {
				if x != c {
					keep = append(keep, x)
				}
			}
			b.subs[t] = keep
		}
		b.mu.Unlock()
		c.Close()
	}()
	r := bufio.NewReader(c)
	for {
		h, err := r.ReadByte()
		if err != nil {
			return
		}
		n, err := readLen(r)
		if err != nil {
			return
		}
		body := make([]byte, n)
		if _, err := io.ReadFull(r, body); err != nil {
			return
		}
		switch h >> 4 {
		case 1:
			// CONNECT: protocol name, level, flags, keep-alive, client id
			id := ""
			if len(body) >= 2 {
				pl := int(body[0])<<8 | int(body[1])
				off := 2 + pl + 1 + 1 + 2
				if len(body) >= off+2 {
					il := int(body[off])<<8 | int(body[off+1])
					if len(body) >= off+2+il {
						id = string(body[off+2 : off+2+il])
					}
				}
			}
			b.mu.Lock()
			b.ids[c] = id
			refuse := id != "" && time.Now().Before(b.down)
			b.mu.Unlock()
			if refuse {
				return
			}
			c.Write([]byte{0x20, 0x02, 0x00, 0x00})
		case 3:
			tl := int(body[0])<<8 | int(body[1])
			topic := string(body[2 : 2+tl])
			off := 2 + tl
			if (h>>1)&3 > 0 {
				off += 2
			}
			payload := append([]byte{}, body[off:]...)
			b.mu.Lock()
			b.Pubs = append(b.Pubs, Pub{topic, payload})
			subs := append([]net.Conn{}, b.subs[topic]...)
			b.mu.Unlock()
			pkt := []byte{0x30}
			vb := append([]byte{byte(tl >> 8), byte(tl)}, []byte(topic)...)
			vb = append(vb, payload...)
			pkt = append(pkt, encLen(len(vb))...)
			pkt = append(pkt, vb...)
			for _, s := range subs {
				s.Write(pkt)
			}
		case 8:
			pid := body[0:2]
			i := 2
			var codes []byte
			for i < len(body) {
				tl := int(body[i])<<8 | int(body[i+1])
				topic := string(body[i+2 : i+2+tl])
				i += 2 + tl + 1
				b.mu.Lock()
				b.subs[topic] = append(b.subs[topic], c)
				b.mu.Unlock()
				codes = append(codes, 0)
			}
			out := append([]byte{0x90}, encLen(2+len(codes))...)
			out = append(out, pid...)
			out = append(out, codes...)
			c.Write(out)
		case 12:
			c.Write([]byte{0xD0, 0x00})
		case 14:
			return
		}
	}
}
