package main

// Slice realtime-<kind> (C18, second half; also an end-to-end run of the unmodified client): real clients in REALTIME
// mode talk to the real OrdaService over a real gRPC connection and receive its notifications from the in-process MQTT
// broker.  After the datatypes exist nobody calls Sync(): every client issues local operations and the clients have to
// converge by themselves (a push publishes, the others hear it and pull).  Oracles: within a deadline all clients of a
// datatype and the server's rebuilt copy read the same value and every client has seen the whole log; the C06 log
// oracle and the C11 snapshot oracle on the store; the number of requests stays bounded (no notification storm).

import (
	gocontext "context"
	"fmt"
	"net"
	"strings"
	"sync"
	"time"

	"github.com/orda-io/orda/client/pkg/errors"
	"github.com/orda-io/orda/client/pkg/iface"
	"github.com/orda-io/orda/client/pkg/model"
	"github.com/orda-io/orda/client/pkg/orda"
	"github.com/orda-io/orda/server/snapshot"
	"google.golang.org/grpc"
)

func init() {
	slices["realtime-counter"] = func(c *Ctx) { sliceRealtime(c, "counter") }
	slices["realtime-map"] = func(c *Ctx) { sliceRealtime(c, "map") }
	slices["realtime-list"] = func(c *Ctx) { sliceRealtime(c, "list") }
}

var rtAddr string

func rtServe(e *wenv) string {
	if rtAddr != "" {
		return rtAddr
	}
	ln, err := net.Listen("tcp", "127.0.0.1:0")
	if err != nil {
		panic(err)
	}
	s := grpc.NewServer()
	model.RegisterOrdaServiceServer(s, e.svc)
	go func() { _ = s.Serve(ln) }()
	rtAddr = ln.Addr().String()
	return rtAddr
}

type rtClient struct {
	cl   orda.Client
	reps map[string]*replica
}

// rtHiccup (C13): the broker drops its connections just before a second client's first sync, so that the exchange which
// makes its datatype SUBSCRIBED also fails to subscribe the notification topic: the client reports the error AND the
// transition to subscribed, exactly once
func rtHiccup(c *Ctx, e *wenv, addr, kind string, h int) {
	col := fmt.Sprintf("rh%d", h)
	if _, err := e.svc.CreateCollection(gocontext.TODO(), &model.CollectionMessage{Collection: col}); err != nil {
		panic(err)
	}
	desc := []string{"client 0 creates k; the broker drops its connections; client 1 subscribes to k"}
	mk := func(i int, hs *orda.Handlers) (orda.Client, iface.Datatype) {
		cl := orda.NewClient(&orda.ClientConfig{ServerAddr: addr, NotificationAddr: e.mq.Addr(), CollectionName: col, SyncType: model.SyncType_REALTIME}, fmt.Sprintf("rh%d", i))
		if err := cl.Connect(); err != nil {
			panic(fmt.Sprintf("connect: %v", err))
		}
		var d interface{}
		switch kind {
		case "counter":
			d = cl.SubscribeOrCreateCounter("k", hs)
		case "map":
			d = cl.SubscribeOrCreateMap("k", hs)
		default:
			d = cl.SubscribeOrCreateList("k", hs)
		}
		return cl, d.(iface.Datatype)
	}
	a, _ := mk(0, nil)
	defer closeSoon(a)
	if err := a.Sync(); err != nil {
		panic(fmt.Sprintf("first sync: %v", err))
	}
	var mu sync.Mutex
	transitions, errs := 0, 0
	hs := orda.NewHandlers(
		func(dt orda.Datatype, old model.StateOfDatatype, new model.StateOfDatatype) {
			mu.Lock()
			if new == model.StateOfDatatype_SUBSCRIBED {
				transitions++
			}
			mu.Unlock()
		}, nil,
		func(dt orda.Datatype, es ...errors.OrdaError) { mu.Lock(); errs += len(es); mu.Unlock() })
	b, bd := mk(1, hs)
	defer closeSoon(b)
	e.mq.Outage(400 * time.Millisecond)
	time.Sleep(60 * time.Millisecond) // the clients notice the lost connection; their first reconnect attempt is refused, the next comes a second later
	_ = b.Sync()
	deadline := time.Now().Add(2 * time.Second)
	for time.Now().Before(deadline) {
		mu.Lock()
		done := transitions > 0 || (errs > 0 && bd.GetState() == model.StateOfDatatype_SUBSCRIBED)
		mu.Unlock()
		if done {
			break
		}
		time.Sleep(time.Millisecond)
	}
	time.Sleep(20 * time.Millisecond) // both handlers are called from one goroutine, the state change first
	mu.Lock()
	tr, er := transitions, errs
	mu.Unlock()
	time.Sleep(450 * time.Millisecond) // the outage is over before the next history connects
	c.Count("rt-hiccup")
	if er > 0 {
		c.Count("rt-hiccup-subscription-failed")
	}
	if bd.GetState() == model.StateOfDatatype_SUBSCRIBED && tr != 1 {
		c.Violate("C13", "state-change-not-reported-once", fmt.Sprintf("the datatype became SUBSCRIBED in an exchange that also reported %d error(s); the state-change handler reported the transition %d times", er, tr), desc)
	}
}

func sliceRealtime(c *Ctx, kind string) {
	n := c.N
	if n == 0 {
		n = 12
	}
	c.Res.Rule = "2..4 real clients in REALTIME mode over real gRPC and the in-process MQTT broker on 1..2 keys of one " + kind + ": after create/subscribe nobody calls Sync(); rounds of local calls on random clients with short pauses; within 5s all clients and the server's rebuilt copy must read the same value and hold the whole log; log and snapshot oracles on the store; non-trivial = operations were issued by at least two clients of one datatype"
	for h := 0; h < n; h++ {
		e := getEnv()
		addr := rtServe(e)
		if h%3 == 0 {
			if p, msg := guarded(func() { rtHiccup(c, e, addr, kind, h) }); p {
				c.Count("history-ended-by-panic")
				c.Violate("C13", "harness-panic-hiccup", "panic while driving the implementation: "+msg, nil)
				theEnv = nil
				continue
			}
			e = getEnv()
			addr = rtServe(e)
		}
		w := &wworld{c: c, e: e, kind: kind}
		col := fmt.Sprintf("rt%d", h)
		w.cols = []string{col}
		p, msg := guarded(func() {
			if _, err := e.svc.CreateCollection(gocontext.TODO(), &model.CollectionMessage{Collection: col}); err != nil {
				panic(err)
			}
			ncl := 2 + c.Rng.Intn(3)
			keys := []string{"k", "j"}[:1+c.Rng.Intn(2)]
			var clients []*rtClient
			for i := 0; i < ncl; i++ {
				cl := orda.NewClient(&orda.ClientConfig{ServerAddr: addr, NotificationAddr: e.mq.Addr(), CollectionName: col, SyncType: model.SyncType_REALTIME}, fmt.Sprintf("rt%d", i))
				if err := cl.Connect(); err != nil {
					panic(fmt.Sprintf("connect: %v", err))
				}
				rc := &rtClient{cl: cl, reps: map[string]*replica{}}
				for _, key := range keys {
					r := &replica{kind: kind}
					var d interface{}
					switch kind {
					case "counter":
						r.ctr = cl.SubscribeOrCreateCounter(key, nil)
						d = r.ctr
					case "map":
						r.mp = cl.SubscribeOrCreateMap(key, nil)
						d = r.mp
					case "list":
						r.li = cl.SubscribeOrCreateList(key, nil)
						d = r.li
					}
					r.dt = d.(iface.Datatype)
					rc.reps[key] = r
				}
				if err := cl.Sync(); err != nil { // the one explicit sync: create / subscribe
					panic(fmt.Sprintf("first sync: %v", err))
				}
				clients = append(clients, rc)
				w.desc = append(w.desc, fmt.Sprintf("client %d connects and subscribes-or-creates %v", i, keys))
			}
			defer func() {
				// closing is housekeeping of the harness, not part of any property: after a broker hiccup the MQTT library's
				// Disconnect can wait for ever for its workers (seen once in about eight runs); do not wait for it
				for _, rc := range clients {
					done := make(chan struct{})
					go func(cl orda.Client) { defer close(done); defer func() { _ = recover() }(); _ = cl.Close() }(rc.cl)
					select {
					case <-done:
					case <-time.After(2 * time.Second):
						c.Count("client-close-abandoned")
					}
				}
			}()
			cw := &world{c: c, kind: kind}
			authors := map[string]map[int]bool{}
			rounds := 3 + c.Rng.Intn(5)
			for r := 0; r < rounds; r++ {
				for k := 1 + c.Rng.Intn(4); k > 0; k-- {
					ci := c.Rng.Intn(ncl)
					key := keys[c.Rng.Intn(len(keys))]
					rep := clients[ci].reps[key]
					if rep.dt.GetState() != model.StateOfDatatype_SUBSCRIBED {
						continue
					}
					cs := cw.rndCall(rep)
					if _, err := cs.run(rep); err == nil {
						if authors[key] == nil {
							authors[key] = map[int]bool{}
						}
						authors[key][ci] = true
					}
					w.desc = append(w.desc, fmt.Sprintf("client %d: %s.%s", ci, key, cs.desc))
				}
				time.Sleep(time.Duration(c.Rng.Intn(4)) * time.Millisecond)
			}
			for _, a := range authors {
				if len(a) >= 2 {
					w.nontriv = true
				}
			}
			// nobody syncs explicitly: the clients have to converge by themselves
			colDoc, _ := e.mgr.Mongo.GetCollection(e.ctx, col)
			deadline := time.Now().Add(5 * time.Second)
			var why string
			for {
				why = ""
				for _, key := range keys {
					ddoc, _ := e.mgr.Mongo.GetDatatypeByKey(e.ctx, colDoc.Num, key)
					if ddoc == nil {
						why = fmt.Sprintf("key %q has no datatype on the server", key)
						break
					}
					sd, _, err := snapshot.NewManager(e.ctx, e.mgr, ddoc, colDoc).GetLatestDatatype()
					if err != nil {
						why = "the server cannot rebuild " + key
						break
					}
					sv := gVal(sd.GetSnapshot().ToJSON())
					for i, rc := range clients {
						rep := rc.reps[key]
						v, _ := rep.view()
						pack := rep.dt.CreatePushPullPack()
						switch {
						case rep.dt.GetState() != model.StateOfDatatype_SUBSCRIBED:
							why = fmt.Sprintf("client %d is not subscribed to %q", i, key)
						case len(pack.Operations) > 0:
							why = fmt.Sprintf("client %d still holds %d unpushed operations of %q", i, len(pack.Operations), key)
						case pack.CheckPoint.Sseq != ddoc.Sseq.End:
							why = fmt.Sprintf("client %d has seen the log of %q up to %d, it ends at %d", i, key, pack.CheckPoint.Sseq, ddoc.Sseq.End)
						case v != sv:
							why = fmt.Sprintf("client %d reads %s for %q, the server's copy reads %s", i, rep.viewJSON(), key, jsonStr(sd.GetSnapshot().ToJSON()))
						}
						if why != "" {
							break
						}
					}
					if why != "" {
						break
					}
				}
				if why == "" || time.Now().After(deadline) {
					break
				}
				time.Sleep(2 * time.Millisecond)
			}
			if why != "" {
				w.c.Violate("C18", "realtime-clients-did-not-converge", "5s after the last operation, without explicit syncs: "+why, w.desc)
			}
			after := w.dbDigest()
			w.checkLog(after)
			w.checkSnapshots()
			w.c.Count("realtime-histories")
		})
		if p {
			c.Count("history-ended-by-panic")
			c.Violate("C18", "realtime-harness-panic", "panic while driving realtime clients: "+msg, w.desc)
			theEnv = nil
			rtAddr = ""
			continue
		}
		c.Res.Cases++
		c.Distinct(strings.Join(w.desc, "|"), w.nontriv)
		c.Sample(map[string]interface{}{"kind": kind, "script": w.desc})
	}
}

// closeSoon closes a client without waiting for ever: after a broker outage the MQTT library's Disconnect can block on its
// own workers; closing is housekeeping of the harness, not part of any property
func closeSoon(cl orda.Client) {
	done := make(chan struct{})
	go func() { defer close(done); defer func() { _ = recover() }(); _ = cl.Close() }()
	select {
	case <-done:
	case <-time.After(2 * time.Second):
	}
}
