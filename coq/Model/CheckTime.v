(* Correspondence checker for slice S-time: the observed results of the Go
   implementation (written by the harness) against the model's functions. *)
From Orda.Model Require Import Base Time.

Inductive tcase :=
| TCmp (a b : ts) (r : comparison)
| THashEq (a b : ts) (eq : bool)
| TNext (before after ret : opid)
| TRollback (before after : opid)
| TSync (before : opid) (other : N) (after : opid) (ret : N)
| TOCmp (a b : opid) (r : comparison) (ta : ts).

Definition cmp_eqb (a b : comparison) : bool :=
  match a, b with Eq, Eq | Lt, Lt | Gt, Gt => true | _, _ => false end.

Definition check_tcase (c : tcase) : bool :=
  match c with
  | TCmp a b r => cmp_eqb (ts_compare a b) r
  | THashEq a b e => Bool.eqb (str_eqb (ts_hash a) (ts_hash b)) e
  | TNext b a r => opid_eqb (opid_next b) a && opid_eqb (opid_next b) r
  | TRollback b a => opid_eqb (opid_rollback b) a
  | TSync b o a r => opid_eqb (opid_sync b o) a && N.eqb (o_lam (opid_sync b o)) r
  | TOCmp a b r ta => cmp_eqb (ts_compare (opid_ts a) (opid_ts b)) r && ts_eqb (opid_ts a) ta
  end.
