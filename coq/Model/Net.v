(* The client-server system: one store, any number of clients each holding datatypes, events =
   local calls and push-pull exchanges (optionally disturbed: the request delivered twice, the
   response lost).  CheckWire.v replays real exchanges through [exchange]; the theorems of
   C05/C07 quantify over [nrun]. *)
From Orda.Model Require Import Base Time Ops Datatype Server Wire.
Open Scope N_scope.

Inductive fault := FNone | FDupRequest | FDropResponse | FDb (pf : pfault).   (* FDb: a storage command fails *)

Section Net.
  Variable St call ret J : Type.
  Variable k_init : St.
  Variable k_validate : St -> call -> bool.
  Variable k_local : St -> call -> opid -> lres St ret.
  Variable k_remote : St -> op -> St.
  Variable k_export : St -> J.
  Variable k_import : J -> St.
  Variable k_type : N.

  Notation wdty := (@wdt St call J).

  Inductive xres :=
  | XOk (db : sdb) (resp : ppp) (pubs : list publish) (w' : wdty) (a : applied)   (* answered; client state after *)
  | XRpc (db : sdb) (e : rpc_err)                                                 (* refused by ProcessPushPull *)
  | XPanic (db : sdb) (resp : ppp) (pubs : list publish).                         (* the client would panic on the response *)

  (* one push-pull exchange of datatype w of client (col, cuid) *)
  Definition exchange (db : sdb) (col cuid : str) (w : wdty) (f : fault) : xres :=
    let req := mkpack St call J k_type w in
    let '(db1, r1) := process_pushpull_f (match f with FDb pf => Some pf | _ => None end) db col cuid [req] in
    match r1 with
    | inr e => XRpc db1 e
    | inl l1 =>
        (* a duplicated request is handled twice; the client sees the second response *)
        let '(db2, r2, pubs1) :=
          match f with
          | FDupRequest => let '(db2, r2) := process_pushpull db1 col cuid [req] in
                           (db2, r2, flat_map snd l1)
          | _ => (db1, r1, [])
          end in
        match r2 with
        | inl [(resp, pubs2)] =>
            let pubs := pubs1 ++ pubs2 in
            match f with
            | FDropResponse => XOk db2 resp pubs w (mkApplied None false false)   (* the response is lost *)
            | _ => match apply_pack St call J k_init k_remote k_export w resp with
                   | AOk _ _ _ w' a => XOk db2 resp pubs w' a
                   | APanic _ _ _ => XPanic db2 resp pubs
                   end
            end
        | inl _ => XRpc db2 NoClient          (* unreachable: one pack in, one pack out *)
        | inr e => XRpc db2 e
        end
    end.

  (* ---------- the system ---------- *)
  Record ncl := mkNcl { n_col : str; n_cuid : str; n_w : wdty }.
  Record net := mkNet { n_db : sdb; n_cls : list ncl }.

  Inductive nev :=
  | NCollection (name : str)
  | NClient (col cuid : str)
  | NNewDt (col cuid : str) (st : dstate) (duid key : str)
  | NLocal (i : nat) (c : call)
  | NTx (i : nat) (tag : str) (cs : list call) (fail : bool)
  | NSync (i : nat) (f : fault)
  | NApply (i : nat) (resp : ppp).          (* a response that was held back (or a second answer) reaches the client *)

  Definition set_cl (s : net) (i : nat) (x : ncl) : net :=
    mkNet (n_db s) (firstn i (n_cls s) ++ x :: skipn (Datatypes.S i) (n_cls s)).
  Definition upd_w (x : ncl) (w : wdty) : ncl := mkNcl (n_col x) (n_cuid x) w.
  Definition upd_d (w : wdty) (d : @dt St call J) : wdty := mkWdt d (w_state w) (w_duid w) (w_key w).

  Definition nstep (s : net) (e : nev) : net :=
    match e with
    | NCollection name => mkNet (create_collection (n_db s) name) (n_cls s)
    | NClient col cuid => mkNet (fst (process_client (n_db s) col cuid)) (n_cls s)
    | NNewDt col cuid st duid key =>
        mkNet (n_db s) (n_cls s ++ [mkNcl col cuid (w_new St call J k_init k_export st cuid duid key)])
    | NLocal i c =>
        match nth_error (n_cls s) i with
        | Some x => set_cl s i (upd_w x (upd_d (n_w x) (fst (local_call St call ret J k_validate k_local (w_d (n_w x)) c))))
        | None => s
        end
    | NTx i tag cs fail =>
        match nth_error (n_cls s) i with
        | Some x => set_cl s i (upd_w x (upd_d (n_w x)
                      (fst (transaction St call ret J k_validate k_local k_remote k_export k_import (w_d (n_w x)) tag cs fail))))
        | None => s
        end
    | NSync i f =>
        match nth_error (n_cls s) i with
        | Some x =>
            match exchange (n_db s) (n_col x) (n_cuid x) (n_w x) f with
            | XOk db' _ _ w' _ => set_cl (mkNet db' (n_cls s)) i (upd_w x w')
            | XRpc db' _ => mkNet db' (n_cls s)
            | XPanic db' _ _ => mkNet db' (n_cls s)
            end
        | None => s
        end
    | NApply i resp =>
        match nth_error (n_cls s) i with
        | Some x =>
            match apply_pack St call J k_init k_remote k_export (n_w x) resp with
            | AOk _ _ _ w' _ => set_cl s i (upd_w x w')
            | APanic _ _ _ => s
            end
        | None => s
        end
    end.
  Definition nrun (es : list nev) : net := fold_left nstep es (mkNet sdb_init []).

  (* ---------- quiescence ---------- *)
  Definition subscribed (x : ncl) : bool := dstate_eqb (w_state (n_w x)) SubscribedSt.
  (* nothing left to push, and everything of the datatype's log received *)
  Definition settled (db : sdb) (x : ncl) : Prop :=
    pending St call J (w_d (n_w x)) = [] /\
    exists d, find_dt db (w_duid (n_w x)) = Some d /\ sseq (d_cp (w_d (n_w x))) = dd_end d.
  Definition same_datatype (x y : ncl) : Prop :=
    n_col x = n_col y /\ w_duid (n_w x) = w_duid (n_w y).
End Net.

Arguments XOk {St call J}.
Arguments XRpc {St call J}.
Arguments XPanic {St call J}.
Arguments mkNcl {St call J}.
Arguments n_col {St call J}.
Arguments n_cuid {St call J}.
Arguments n_w {St call J}.
Arguments mkNet {St call J}.
Arguments n_db {St call J}.
Arguments n_cls {St call J}.
Arguments NCollection {call}.
Arguments NClient {call}.
Arguments NNewDt {call}.
Arguments NLocal {call}.
Arguments NTx {call}.
Arguments NSync {call}.
Arguments NApply {call}.
