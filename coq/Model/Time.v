(* Model of client/pkg/model/timestamp.go, operation_id.go, checkpoint.go *)
From Orda.Model Require Import Base.
Open Scope N_scope.

Record ts := mkTs { era : N; lam : N; cuid : str; delim : N }.

Definition ts_eqb (a b : ts) : bool :=
  N.eqb (era a) (era b) && N.eqb (lam a) (lam b) && str_eqb (cuid a) (cuid b) && N.eqb (delim a) (delim b).

Definition nil_uid : str := repeat 48 16.
Definition oldest_ts : ts := mkTs 0 0 nil_uid 0.

(* int32(uint32 a - uint32 b) and int64(uint64 a - uint64 b) sign tests *)
Definition cmp_wrap32 (a b : N) : comparison :=
  let d := wrap32 (Z.of_N a - Z.of_N b) in
  if (0 <? d)%Z then Gt else if (d <? 0)%Z then Lt else Eq.
Definition cmp_wrap64 (a b : N) : comparison :=
  let d := wrap64 (Z.of_N a - Z.of_N b) in
  if (0 <? d)%Z then Gt else if (d <? 0)%Z then Lt else Eq.

(* Timestamp.Compare / OperationID.Compare: era, then lamport, then CUID; the delimiter is ignored *)
Definition ts_compare (a b : ts) : comparison :=
  match cmp_wrap32 (era a) (era b) with
  | Eq => match cmp_wrap64 (lam a) (lam b) with
          | Eq => str_cmp (cuid a) (cuid b)
          | c => c
          end
  | c => c
  end.

Definition ts_lt (a b : ts) : bool := match ts_compare a b with Lt => true | _ => false end.
Definition ts_gt (a b : ts) : bool := match ts_compare a b with Gt => true | _ => false end.

(* Timestamp.Hash: "%d:%d:%d:%s" (era, lamport, delimiter, cuid) — key of the in-memory node tables *)
Definition sep : N := 58.
Definition ts_hash (t : ts) : str :=
  digits (era t) ++ sep :: digits (lam t) ++ sep :: digits (delim t) ++ sep :: cuid t.

(* the pre-repair format "%d%d%d%s", kept to state the refutation of its injectivity *)
Definition ts_hash_nosep (t : ts) : str :=
  digits (era t) ++ digits (lam t) ++ digits (delim t) ++ cuid t.

(* GetAndNextDelimiter over a batch: the i-th element of a batch issued at t *)
Definition ts_at (t : ts) (i : N) : ts := mkTs (era t) (lam t) (cuid t) (delim t + i).

(* ---------- OperationID ---------- *)
Record opid := mkOpid { o_era : N; o_lam : N; o_cuid : str; o_seq : N }.

Definition opid_eqb (a b : opid) : bool :=
  N.eqb (o_era a) (o_era b) && N.eqb (o_lam a) (o_lam b) && str_eqb (o_cuid a) (o_cuid b) && N.eqb (o_seq a) (o_seq b).

Definition two64 : N := 18446744073709551616.
Definition opid_new (c : str) : opid := mkOpid 0 0 c 0.
Definition opid_ts (o : opid) : ts := mkTs (o_era o) (o_lam o) (o_cuid o) 0.
(* Next: Lamport++, Seq++ (uint64 wrap) *)
Definition opid_next (o : opid) : opid :=
  mkOpid (o_era o) ((o_lam o + 1) mod two64) (o_cuid o) ((o_seq o + 1) mod two64).
(* RollBack: Lamport--, Seq-- (uint64 wrap) *)
Definition opid_rollback (o : opid) : opid :=
  mkOpid (o_era o) ((o_lam o + two64 - 1) mod two64) (o_cuid o) ((o_seq o + two64 - 1) mod two64).
(* SyncLamport *)
Definition opid_sync (o : opid) (other : N) : opid :=
  if o_lam o <? other then mkOpid (o_era o) other (o_cuid o) (o_seq o)
  else mkOpid (o_era o) ((o_lam o + 1) mod two64) (o_cuid o) (o_seq o).

(* ---------- CheckPoint ---------- *)
Record cp := mkCp { sseq : N; cseq : N }.
Definition cp_eqb (a b : cp) := N.eqb (sseq a) (sseq b) && N.eqb (cseq a) (cseq b).
