(* client/pkg/orda/counter.go: counterSnapshot *)
From Orda.Model Require Import Base Time Ops.

Definition cstate := Z.                  (* Value int32 *)
Definition c_init : cstate := 0%Z.
Definition c_inc (s : cstate) (d : Z) : cstate := wrap32 (s + d).   (* increaseCommon *)

Inductive ccall := CInc (d : Z).         (* Increase = IncreaseBy 1 *)

Definition c_validate (s : cstate) (c : ccall) : bool := true.
(* ExecuteLocal: new state, wire op, returned value *)
Definition c_exec_local (s : cstate) (c : ccall) (i : opid) : option (cstate * op * val) :=
  match c with CInc d => let s' := c_inc s d in Some (s', OInc i d, VNum s') end.
Definition c_exec_remote (s : cstate) (o : op) : cstate :=
  match o with OInc _ d => c_inc s d | OSnap _ => c_init | _ => s end.
Definition c_view (s : cstate) : val := VNum s.
