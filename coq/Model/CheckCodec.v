(* Correspondence checker for slice S-codec *)
From Orda.Model Require Import Base Time Ops Codec.

(* an operation built in Go; what ToModelOperation produced (type number, body as parsed JSON);
   the type name stored in the operation document *)
Record ccase := mkCcase { cc_op : op; cc_type : N; cc_body : json; cc_docname : str }.

Definition check_ccase (c : ccase) : bool :=
  let m := op_to_model (cc_op c) in
  N.eqb (mo_type m) (cc_type c) && json_eqb (mo_body m) (cc_body c) &&
  str_eqb (dc_type (model_to_doc m)) (cc_docname c) &&
  match model_to_op (mkMop (op_id (cc_op c)) (cc_type c) (cc_body c)) with
  | Some o => op_eqb o (cc_op c)
  | None => false
  end.
Definition explain_ccase (c : ccase) := (op_to_model (cc_op c), model_to_op (mkMop (op_id (cc_op c)) (cc_type c) (cc_body c))).
