(* client/pkg/orda/map.go, timed.go: mapSnapshot (LWW map with tombstones) *)
From Orda.Model Require Import Base Time Ops.

(* timedNode {V, T}; V = None is a tombstone *)
Record mentry := mkMentry { m_v : option val; m_t : ts }.
Record mstate := mkMstate { m_map : list (str * mentry); m_size : Z }.
Definition m_init : mstate := mkMstate [] 0.

Definition mget (s : mstate) (k : str) : option mentry := alookup str_eqb k (m_map s).

(* putCommonWithTimedType (with the repaired Size accounting) *)
Definition m_put (s : mstate) (k : str) (v : val) (t : ts) : mstate * option val :=
  match mget s k with
  | None => (mkMstate (aset str_eqb k (mkMentry (Some v) t) (m_map s)) (m_size s + 1), None)
  | Some old =>
      if ts_lt (m_t old) t
      then (mkMstate (aset str_eqb k (mkMentry (Some v) t) (m_map s))
                     (match m_v old with None => m_size s + 1 | Some _ => m_size s end)%Z,
            m_v old)
      else (s, Some v)          (* the new one loses; putCommon returns its value as "removed" *)
  end.

(* removeLocalWithTimedType: error unless the key is live and older *)
Definition m_remove_local (s : mstate) (k : str) (t : ts) : option (mstate * val) :=
  match mget s k with
  | Some (mkMentry (Some v) t0) =>
      if ts_lt t0 t
      then Some (mkMstate (aset str_eqb k (mkMentry None t) (m_map s)) (m_size s - 1), v)
      else None
  | _ => None
  end.

(* removeRemoteWithTimedType *)
Definition m_remove_remote (s : mstate) (k : str) (t : ts) : mstate :=
  match mget s k with
  | Some (mkMentry v t0) =>
      if ts_lt t0 t
      then mkMstate (aset str_eqb k (mkMentry None t) (m_map s))
                    (match v with Some _ => m_size s - 1 | None => m_size s end)%Z
      else s
  | None => s                    (* DatatypeNoTarget error, nothing recorded *)
  end.

Inductive mcall := MPut (k : str) (v : val) | MRemove (k : str).

(* Put: key == "" || value == nil rejected (nil values are not expressible in [val]);
   Remove: key == "" rejected *)
Definition m_validate (s : mstate) (c : mcall) : bool :=
  match c with
  | MPut k _ => negb (str_eqb k [])
  | MRemove k => negb (str_eqb k [])
  end.

(* results: Some v = a value, None = nil *)
Definition m_exec_local (s : mstate) (c : mcall) (i : opid) : option (mstate * op * option val) :=
  match c with
  | MPut k v => let '(s', r) := m_put s k v (opid_ts i) in Some (s', OPut i k v, r)
  | MRemove k =>
      match m_remove_local s k (opid_ts i) with
      | Some (s', v) => Some (s', ORemove i k, Some v)
      | None => None
      end
  end.

Definition m_exec_remote (s : mstate) (o : op) : mstate :=
  match o with
  | OPut i k v => fst (m_put s k v (opid_ts i))
  | ORemove i k => m_remove_remote s k (opid_ts i)
  | OSnap _ => m_init
  | _ => s
  end.

(* ToJSON: live entries; canonical = sorted by key *)
Definition m_live (s : mstate) : list (str * val) :=
  flat_map (fun kv => match m_v (snd kv) with Some v => [(fst kv, v)] | None => [] end) (m_map s).
Definition m_view (s : mstate) : val := VObj (sort_by_key (m_live s)).
Definition m_get (s : mstate) (k : str) : option val :=
  match mget s k with Some e => m_v e | None => None end.
