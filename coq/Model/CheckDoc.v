(* The Document instance of the history checker (Model/CheckCrdt.v). *)
From Orda.Model Require Import Base Time Ops Counter Map List Datatype Replicas Snapshot CheckCrdt Doc.

Definition d_local' (s : jt) (u : ucall) (i : opid) : lres jt unit :=
  match u_local s u i with Some (s', o) => LOk s' o tt | None => LPanic end.

Definition dev := ev ucall.
Definition dhist := hist ucall.
(* returned Documents are handles, not values: only success or failure of a call is compared; the size is not observed *)
Definition check_doc : dhist -> bool :=
  check_hist jt ucall unit jt doc_init u_validate d_local' doc_remote id_ id_ jview (fun _ => 0%Z) (fun _ => RNil) (fun _ => JCounter 0).
Definition explain_doc :=
  diagnose jt ucall unit jt doc_init u_validate d_local' doc_remote id_ id_ jview (fun _ => 0%Z) (fun _ => RNil) (fun _ => JCounter 0).
