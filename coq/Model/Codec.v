(* client/pkg/operations/converter.go (+ base.go ToModelOperation), server/schema/operations.go:
   an operation <-> the protocol message (id, type number, JSON body) <-> the stored document
   (type NAME, id, body).  json.Marshal / protobuf / BSON themselves are exercised by the harness,
   not modelled: the body is the JSON tree they carry. *)
From Orda.Model Require Import Base Time Ops.
Open Scope N_scope.

Inductive json :=
| JNull | JNum (z : Z) | JStr (s : str) | JBool (b : bool)
| JArr (l : list json) | JObj (l : list (str * json)).       (* object fields in marshalling order *)

Fixpoint val_to_json (v : val) : json :=
  match v with
  | VNum z => JNum z
  | VStr s => JStr s
  | VBool b => JBool b
  | VArr l => JArr (map val_to_json l)
  | VObj l => JObj (map (fun kv => (fst kv, val_to_json (snd kv))) l)
  end.
Fixpoint json_to_val (j : json) : option val :=
  match j with
  | JNull => None
  | JNum z => Some (VNum z)
  | JStr s => Some (VStr s)
  | JBool b => Some (VBool b)
  | JArr l =>
      option_map VArr
        ((fix go (l : list json) : option (list val) :=
            match l with
            | [] => Some []
            | x :: l' => match json_to_val x, go l' with Some v, Some vs => Some (v :: vs) | _, _ => None end
            end) l)
  | JObj l =>
      option_map VObj
        ((fix go (l : list (str * json)) : option (list (str * val)) :=
            match l with
            | [] => Some []
            | (k, x) :: l' => match json_to_val x, go l' with Some v, Some vs => Some ((k, v) :: vs) | _, _ => None end
            end) l)
  end.

(* field names as byte strings *)
Definition s_e : str := [101]. Definition s_l : str := [108]. Definition s_c : str := [99]. Definition s_d : str := [100].
Definition s_T : str := [84]. Definition s_V : str := [86]. Definition s_P : str := [80]. Definition s_K : str := [75].
Definition s_Key : str := [75; 101; 121]. Definition s_Value : str := [86; 97; 108; 117; 101].
Definition s_Delta : str := [68; 101; 108; 116; 97]. Definition s_Tag : str := [84; 97; 103].
Definition s_NumOfOps : str := [78; 117; 109; 79; 102; 79; 112; 115].

(* model.Timestamp marshals with `omitempty` on every field *)
Definition ts_to_json (t : ts) : json :=
  JObj ((if era t =? 0 then [] else [(s_e, JNum (Z.of_N (era t)))]) ++
        (if lam t =? 0 then [] else [(s_l, JNum (Z.of_N (lam t)))]) ++
        (match cuid t with [] => [] | c => [(s_c, JStr c)] end) ++
        (if delim t =? 0 then [] else [(s_d, JNum (Z.of_N (delim t)))])).

Definition jfield (k : str) (j : json) : option json :=
  match j with JObj l => alookup str_eqb k l | _ => None end.
Definition jnum (o : option json) : N := match o with Some (JNum z) => Z.to_N z | _ => 0 end.
Definition jstr (o : option json) : str := match o with Some (JStr s) => s | _ => [] end.
Definition json_to_ts (j : json) : ts :=
  mkTs (jnum (jfield s_e j)) (jnum (jfield s_l j)) (jstr (jfield s_c j)) (jnum (jfield s_d j)).

(* a nil slice marshals as null: the client builds value and target lists by appending to a nil slice *)
Definition vals_to_json (vs : list val) : json := match vs with [] => JNull | _ => JArr (map val_to_json vs) end.
Definition tss_to_json (l : list ts) : json := match l with [] => JNull | _ => JArr (map ts_to_json l) end.
Fixpoint json_to_vals_list (l : list json) : option (list val) :=
  match l with
  | [] => Some []
  | x :: l' => match json_to_val x, json_to_vals_list l' with Some v, Some vs => Some (v :: vs) | _, _ => None end
  end.
Definition json_to_vals (o : option json) : option (list val) :=
  match o with Some (JArr l) => json_to_vals_list l | Some JNull | None => Some [] | _ => None end.
Definition json_to_tss (o : option json) : list ts :=
  match o with Some (JArr l) => map json_to_ts l | _ => [] end.

(* type numbers of orda.enum.proto *)
Definition op_type (o : op) : N :=
  match o with
  | OSnap _ => 0                    (* 10/20/30/40 depending on the datatype: not part of this codec model *)
  | OTx _ _ _ => 2
  | OInc _ _ => 11
  | OPut _ _ _ => 21 | ORemove _ _ => 22
  | OIns _ _ _ => 31 | ODel _ _ => 32 | OUpd _ _ _ => 33
  | ODocPut _ _ _ _ => 41 | ODocRmv _ _ _ => 42 | ODocIns _ _ _ _ => 43 | ODocDel _ _ _ => 44 | ODocUpd _ _ _ _ => 45
  end.

(* marshalBody *)
Definition op_body (o : op) : json :=
  match o with
  | OSnap _ => JNull
  | OTx _ tag n => JObj [(s_Tag, JStr tag); (s_NumOfOps, JNum n)]
  | OInc _ d => JObj [(s_Delta, JNum d)]
  | OPut _ k v => JObj [(s_Key, JStr k); (s_Value, val_to_json v)]
  | ORemove _ k => JObj [(s_Key, JStr k)]
  | OIns _ t vs => JObj [(s_T, ts_to_json t); (s_V, vals_to_json vs)]
  | ODel _ ts => JObj [(s_T, tss_to_json ts)]
  | OUpd _ ts vs => JObj [(s_T, tss_to_json ts); (s_V, vals_to_json vs)]
  | ODocPut _ p k v => JObj [(s_P, ts_to_json p); (s_K, JStr k); (s_V, val_to_json v)]
  | ODocRmv _ p k => JObj [(s_P, ts_to_json p); (s_K, JStr k)]
  | ODocIns _ p t vs => JObj [(s_P, ts_to_json p); (s_T, ts_to_json t); (s_V, vals_to_json vs)]
  | ODocDel _ p ts => JObj [(s_P, ts_to_json p); (s_T, tss_to_json ts)]
  | ODocUpd _ p ts vs => JObj [(s_P, ts_to_json p); (s_T, tss_to_json ts); (s_V, vals_to_json vs)]
  end.

Record mop := mkMop { mo_id : opid; mo_type : N; mo_body : json }.     (* model.Operation *)
Definition op_to_model (o : op) : mop := mkMop (op_id o) (op_type o) (op_body o).

Definition jz (o : option json) : Z := match o with Some (JNum z) => z | _ => 0%Z end.
Definition jts (o : option json) : ts := match o with Some j => json_to_ts j | None => mkTs 0 0 [] 0 end.

(* ModelToOperation; None: unsupported type (panic in Go) or a value that is not JSON-representable *)
Definition model_to_op (m : mop) : option op :=
  let b := mo_body m in let i := mo_id m in
  match mo_type m with
  | 2 => Some (OTx i (jstr (jfield s_Tag b)) (jz (jfield s_NumOfOps b)))
  | 11 => Some (OInc i (jz (jfield s_Delta b)))
  | 21 => match jfield s_Value b with
          | Some j => option_map (OPut i (jstr (jfield s_Key b))) (json_to_val j)
          | None => None end
  | 22 => Some (ORemove i (jstr (jfield s_Key b)))
  | 31 => option_map (OIns i (jts (jfield s_T b))) (json_to_vals (jfield s_V b))
  | 32 => Some (ODel i (json_to_tss (jfield s_T b)))
  | 33 => option_map (OUpd i (json_to_tss (jfield s_T b))) (json_to_vals (jfield s_V b))
  | 41 => match jfield s_V b with
          | Some j => option_map (ODocPut i (jts (jfield s_P b)) (jstr (jfield s_K b))) (json_to_val j)
          | None => None end
  | 42 => Some (ODocRmv i (jts (jfield s_P b)) (jstr (jfield s_K b)))
  | 43 => option_map (ODocIns i (jts (jfield s_P b)) (jts (jfield s_T b))) (json_to_vals (jfield s_V b))
  | 44 => Some (ODocDel i (jts (jfield s_P b)) (json_to_tss (jfield s_T b)))
  | 45 => option_map (ODocUpd i (jts (jfield s_P b)) (json_to_tss (jfield s_T b))) (json_to_vals (jfield s_V b))
  | _ => None
  end.

(* ---------- the stored document: the type travels by NAME ---------- *)
Definition type_names : list (N * str) :=
  [(0, [78;79;95;79;80]); (1, [69;82;82;79;82]); (2, [84;82;65;78;83;65;67;84;73;79;78]);
   (10, [67;79;85;78;84;69;82;95;83;78;65;80;83;72;79;84]); (11, [67;79;85;78;84;69;82;95;73;78;67;82;69;65;83;69]);
   (20, [77;65;80;95;83;78;65;80;83;72;79;84]); (21, [77;65;80;95;80;85;84]); (22, [77;65;80;95;82;69;77;79;86;69]);
   (30, [76;73;83;84;95;83;78;65;80;83;72;79;84]); (31, [76;73;83;84;95;73;78;83;69;82;84]);
   (32, [76;73;83;84;95;68;69;76;69;84;69]); (33, [76;73;83;84;95;85;80;68;65;84;69]);
   (40, [68;79;67;95;83;78;65;80;83;72;79;84]); (41, [68;79;67;95;79;66;74;95;80;85;84]); (42, [68;79;67;95;79;66;74;95;82;77;86]);
   (43, [68;79;67;95;65;82;82;95;73;78;83]); (44, [68;79;67;95;65;82;82;95;68;69;76]); (45, [68;79;67;95;65;82;82;95;85;80;68])].
Definition type_name (n : N) : str :=                       (* TypeOfOperation.String() *)
  match alookup N.eqb n type_names with Some s => s | None => digits n end.
Definition type_number (s : str) : N :=                     (* TypeOfOperation_value[name]: 0 for an unknown name *)
  match find (fun p => str_eqb (snd p) s) type_names with Some p => fst p | None => 0 end.

Record opdoc := mkOpdoc { dc_id : opid; dc_type : str; dc_body : json }.
Definition model_to_doc (m : mop) : opdoc := mkOpdoc (mo_id m) (type_name (mo_type m)) (mo_body m).
Definition doc_to_model (d : opdoc) : mop := mkMop (dc_id d) (type_number (dc_type d)) (dc_body d).

(* equality for the checker *)
Fixpoint json_eqb (a b : json) {struct a} : bool :=
  match a, b with
  | JNull, JNull => true
  | JNum x, JNum y => Z.eqb x y
  | JStr x, JStr y => str_eqb x y
  | JBool x, JBool y => Bool.eqb x y
  | JArr x, JArr y =>
      (fix go (x y : list json) : bool :=
         match x, y with [], [] => true | u :: x', v :: y' => json_eqb u v && go x' y' | _, _ => false end) x y
  | JObj x, JObj y =>
      (fix go (x y : list (str * json)) : bool :=
         match x, y with
         | [], [] => true
         | (k, u) :: x', (k', v) :: y' => str_eqb k k' && json_eqb u v && go x' y'
         | _, _ => false
         end) x y
  | _, _ => false
  end.
