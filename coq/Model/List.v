(* client/pkg/orda/list.go, ordered.go: listSnapshot (RGA with tombstones).
   The linked list after the head is a Coq list; the hash index is modelled by
   search on the order timestamp O (Timestamp.Hash is injective: Proofs/TimeFacts). *)
From Orda.Model Require Import Base Time Ops.
Open Scope N_scope.

Record node := mkNode { n_o : ts; n_t : ts; n_v : option val }.   (* O, T, V; V = None: tombstone *)
Record lstate := mkLstate { l_nodes : list node; l_size : Z }.
Definition l_init : lstate := mkLstate [] 0.

Definition live (n : node) : bool := match n_v n with Some _ => true | None => false end.

(* batch of new nodes for values vs issued at timestamp t: delimiters 0,1,2,... *)
Fixpoint mk_nodes (t : ts) (i : N) (vs : list val) : list node :=
  match vs with
  | [] => []
  | v :: vs' => mkNode (ts_at t i) (ts_at t i) (Some v) :: mk_nodes t (i + 1) vs'
  end.

(* ---------- remote insert: insertRemoteWithTimedTypes ---------- *)
(* skip the siblings whose order time is greater than t *)
Fixpoint skip_gt (l : list node) (t : ts) : list node * list node :=
  match l with
  | x :: xs => if ts_gt (n_o x) t then let '(a, b) := skip_gt xs t in (x :: a, b) else ([], l)
  | [] => ([], [])
  end.
(* l = what follows the current target *)
Fixpoint ins_many (l : list node) (ns : list node) : list node :=
  match ns with
  | [] => l
  | n :: ns' => let '(a, b) := skip_gt l (n_t n) in a ++ n :: ins_many b ns'
  end.
Fixpoint ins_at (l : list node) (target : ts) (ns : list node) : option (list node) :=
  match l with
  | [] => None
  | x :: xs => if ts_eqb (n_o x) target then Some (x :: ins_many xs ns)
               else option_map (cons x) (ins_at xs target ns)
  end.
Definition l_insert_remote (s : lstate) (target t : ts) (vs : list val) : lstate :=
  let ns := mk_nodes t 0 vs in
  let r := if ts_eqb target oldest_ts then Some (ins_many (l_nodes s) ns) else ins_at (l_nodes s) target ns in
  match r with
  | Some l' => mkLstate l' (l_size s + Z.of_nat (length vs))
  | None => s                              (* DatatypeNoTarget *)
  end.

(* ---------- local insert: insertLocalWithTimedTypes (after the pos-th live node, no skipping) ---------- *)
Fixpoint ins_local (l : list node) (pos : nat) (ns : list node) : option (list node * ts) :=
  match pos with
  | O => Some (ns ++ l, oldest_ts)
  | S p =>
      match l with
      | [] => None                                             (* retrieve returned nil: nil dereference *)
      | x :: xs =>
          if live x then
            match p with
            | O => Some (x :: ns ++ xs, n_o x)
            | _ => match ins_local xs p ns with Some (l', t) => Some (x :: l', t) | None => None end
            end
          else match ins_local xs pos ns with Some (l', t) => Some (x :: l', t) | None => None end
      end
  end.

(* ---------- local delete / update: walk over live nodes from live index pos ---------- *)
(* apply f to the num live nodes starting at live index pos; i = running delimiter *)
Fixpoint walk_live (l : list node) (pos num : nat) (i : N) (f : node -> N -> node)
  : option (list node * list node) :=        (* new list, the touched nodes before the change *)
  match num with
  | O => Some (l, [])
  | S num' =>
      match l with
      | [] => None                                             (* nil dereference in Go *)
      | x :: xs =>
          if live x then
            match pos with
            | O => match walk_live xs O num' (i + 1) f with
                   | Some (l', t) => Some (f x i :: l', x :: t) | None => None end
            | S pos' => match walk_live xs pos' num i f with
                        | Some (l', t) => Some (x :: l', t) | None => None end
            end
          else match walk_live xs pos num i f with
               | Some (l', t) => Some (x :: l', t) | None => None end
      end
  end.

Definition tomb (t : ts) (x : node) (i : N) : node := mkNode (n_o x) (ts_at t i) None.
Definition values_of (l : list node) : list val :=
  flat_map (fun x => match n_v x with Some v => [v] | None => [] end) l.

Definition l_delete_local (s : lstate) (pos num : nat) (t : ts) : option (lstate * list ts * list val) :=
  match walk_live (l_nodes s) pos num 0 (tomb t) with
  | Some (l', touched) => Some (mkLstate l' (l_size s - Z.of_nat num), map n_o touched, values_of touched)
  | None => None
  end.

(* update walks with the i-th value *)
Fixpoint walk_upd (l : list node) (pos : nat) (vs : list val) (t : ts) (i : N)
  : option (list node * list node) :=
  match vs with
  | [] => Some (l, [])
  | v :: vs' =>
      match l with
      | [] => None
      | x :: xs =>
          if live x then
            match pos with
            | O => match walk_upd xs O vs' t (i + 1) with
                   | Some (l', tch) => Some (mkNode (n_o x) (ts_at t i) (Some v) :: l', x :: tch) | None => None end
            | S pos' => match walk_upd xs pos' vs t i with
                        | Some (l', tch) => Some (x :: l', tch) | None => None end
            end
          else match walk_upd xs pos vs t i with
               | Some (l', tch) => Some (x :: l', tch) | None => None end
      end
  end.
Definition l_update_local (s : lstate) (pos : nat) (vs : list val) (t : ts) : option (lstate * list ts * list val) :=
  match walk_upd (l_nodes s) pos vs t 0 with
  | Some (l', touched) => Some (mkLstate l' (l_size s), map n_o touched, values_of touched)
  | None => None
  end.

(* ---------- remote delete / update: address nodes by identity ---------- *)
Fixpoint upd_node (l : list node) (target : ts) (f : node -> node) : list node :=
  match l with
  | [] => []
  | x :: xs => if ts_eqb (n_o x) target then f x :: xs else x :: upd_node xs target f
  end.
Definition find_node (l : list node) (target : ts) : option node :=
  find (fun x => ts_eqb (n_o x) target) l.

(* deleteRemote: live -> tombstone at thisTS; tombstone -> keep the greater delete time *)
Fixpoint l_delete_remote_go (l : list node) (sz : Z) (targets : list ts) (t : ts) (i : N) : list node * Z :=
  match targets with
  | [] => (l, sz)
  | tg :: tgs =>
      let this := ts_at t i in
      match find_node l tg with
      | Some x =>
          if live x then l_delete_remote_go (upd_node l tg (fun x => mkNode (n_o x) this None)) (sz - 1) tgs t (i + 1)
          else if ts_lt (n_t x) this
               then l_delete_remote_go (upd_node l tg (fun x => mkNode (n_o x) this None)) sz tgs t (i + 1)
               else l_delete_remote_go l sz tgs t (i + 1)
      | None => l_delete_remote_go l sz tgs t (i + 1)          (* DatatypeNoTarget collected, continue *)
      end
  end.
Definition l_delete_remote (s : lstate) (targets : list ts) (t : ts) : lstate :=
  let '(l', sz) := l_delete_remote_go (l_nodes s) (l_size s) targets t 0 in mkLstate l' sz.

(* updateRemote: tombstones are not revived; newer update wins *)
Fixpoint l_update_remote_go (l : list node) (targets : list ts) (vs : list val) (t : ts) (i : N) : list node :=
  match targets, vs with
  | tg :: tgs, v :: vs' =>
      let this := ts_at t i in
      match find_node l tg with
      | Some x =>
          if live x && ts_lt (n_t x) this
          then l_update_remote_go (upd_node l tg (fun x => mkNode (n_o x) this (Some v))) tgs vs' t (i + 1)
          else l_update_remote_go l tgs vs' t (i + 1)
      | None => l_update_remote_go l tgs vs' t (i + 1)
      end
  | _, _ => l
  end.
Definition l_update_remote (s : lstate) (targets : list ts) (vs : list val) (t : ts) : lstate :=
  mkLstate (l_update_remote_go (l_nodes s) targets vs t 0) (l_size s).

(* ---------- API ---------- *)
Inductive lcall :=
| LInsert (pos : Z) (vs : list val)          (* Insert / InsertMany *)
| LDelete (pos : Z) (num : Z)                (* Delete / DeleteMany *)
| LUpdate (pos : Z) (vs : list val).         (* Update *)

(* validateInsertPosition / validateGetRange, on the size counter *)
Definition valid_get_range (sz pos num : Z) : bool :=
  (0 <=? pos)%Z && (1 <=? num)%Z && negb ((sz - 1 <? pos)%Z || (sz <? pos + num)%Z).
Definition l_validate (s : lstate) (c : lcall) : bool :=
  match c with
  | LInsert pos _ => (0 <=? pos)%Z && (pos <=? l_size s)%Z
  | LDelete pos num => valid_get_range (l_size s) pos num
  | LUpdate pos vs => valid_get_range (l_size s) pos (Z.of_nat (length vs))
  end.

(* ExecuteLocal: None = the Go code would dereference nil (unreachable when size = number of live nodes) *)
Definition l_exec_local (s : lstate) (c : lcall) (i : opid) : option (lstate * op * list val) :=
  let t := opid_ts i in
  match c with
  | LInsert pos vs =>
      match ins_local (l_nodes s) (Z.to_nat pos) (mk_nodes t 0 vs) with
      | Some (l', target) => Some (mkLstate l' (l_size s + Z.of_nat (length vs)), OIns i target vs, vs)
      | None => None
      end
  | LDelete pos num =>
      match l_delete_local s (Z.to_nat pos) (Z.to_nat num) t with
      | Some (s', targets, vals) => Some (s', ODel i targets, vals)
      | None => None
      end
  | LUpdate pos vs =>
      match l_update_local s (Z.to_nat pos) vs t with
      | Some (s', targets, old) => Some (s', OUpd i targets vs, old)
      | None => None
      end
  end.

Definition l_exec_remote (s : lstate) (o : op) : lstate :=
  match o with
  | OIns i target vs => l_insert_remote s target (opid_ts i) vs
  | ODel i targets => l_delete_remote s targets (opid_ts i)
  | OUpd i targets vs => l_update_remote s targets vs (opid_ts i)
  | OSnap _ => l_init
  | _ => s
  end.

Definition l_values (s : lstate) : list val := values_of (l_nodes s).
Definition l_view (s : lstate) : val := VArr (l_values s).
