(* Client side of the sync protocol: client/pkg/internal/datatypes/wired.go
   (CreatePushPullPack, ApplyPushPullPack and its helpers), generic in the CRDT kernel. *)
From Orda.Model Require Import Base Time Ops Datatype Server.
Open Scope N_scope.

(* StateOfDatatype *)
Inductive dstate := DueToCreate | DueToSubscribe | DueToSubscribeCreate | SubscribedSt.
Definition dstate_eqb (a b : dstate) : bool :=
  match a, b with
  | DueToCreate, DueToCreate | DueToSubscribe, DueToSubscribe
  | DueToSubscribeCreate, DueToSubscribeCreate | SubscribedSt, SubscribedSt => true
  | _, _ => false
  end.

Section Wire.
  Variable St call ret J : Type.
  Variable k_init : St.
  Variable k_remote : St -> op -> St.
  Variable k_export : St -> J.
  Variable k_import : J -> St.
  Variable k_type : N.                            (* TypeOfDatatype *)

  Notation dty := (@dt St call J).
  Record wdt := mkWdt { w_d : dty; w_state : dstate; w_duid : str; w_key : str }.

  (* a freshly constructed datatype: create / subscribe-or-create queue a snapshot operation,
     subscribe queues nothing *)
  Definition w_new (st : dstate) (cuid duid key : str) : wdt :=
    match st with
    | DueToSubscribe =>
        mkWdt (mkDt k_init (opid_new cuid) [] (mkCp 0 0) (k_export k_init) (opid_new cuid) []) st duid key
    | _ => mkWdt (dt_create St call J k_init k_export cuid) st duid key
    end.

  (* CreatePushPullPack *)
  Definition mkpack (w : wdt) : ppp :=
    let ops := pending St call J (w_d w) in
    let c := d_cp (w_d w) in
    let opt := match w_state w with
               | DueToCreate => bit_create
               | DueToSubscribe => bit_subscribe
               | DueToSubscribeCreate => bit_subscribe + bit_create
               | SubscribedSt => 0
               end in
    mkPpp (w_key w) (w_duid w) opt (mkCp (sseq c) (cseq c + N.of_nat (length ops))) k_type ops None.

  (* what ApplyPushPullPack reports to the handlers *)
  Record applied := mkApplied {
    a_err : option N;              (* error code handed to the error handler: 200 create, 201 subscribe, 102 sync *)
    a_state_change : bool;         (* state-change handler called *)
    a_recv_err : bool              (* ReceiveRemoteModelOperations returned an error *)
  }.

  Inductive ares := AOk (w : wdt) (a : applied) | APanic.

  (* int(uint64 a - uint64 b) etc.: the arithmetic of calculatePullingOperations on uint64, read as int64 *)
  Definition u64sub (a b : N) : N := (a + two64 - b) mod two64.

  (* excludeDuplicatedOperations: which of the response's operations are executed.  own = this
     client's id, c = the checkpoint before the response (after the subscribe reset, if any).
     (Always Some since the repair; the option is kept for the panic of the unrepaired code.) *)
  Definition incoming (own : str) (sub : bool) (c : cp) (r : ppp) : option (list op) :=
    let pulled := wrap64 (Z.of_N (u64sub (u64sub (sseq (p_cp r)) (sseq c)) (u64sub (cseq (p_cp r)) (cseq c)))) in
    (* own operations in a non-subscribe response were stored by an exchange whose response was lost *)
    let others := filter (fun o => negb (str_eqb (o_cuid (op_id o)) own)) (p_ops r) in
    let cand := if sub then p_ops r else others in
    (* of the foreign operations the new ones are the last [pulled]; a negative count (a response older
       than the checkpoint) means nothing new *)
    let k := Z.to_nat (Z.max 0 pulled) in
    Some (skipn (length cand - k) cand).

  Definition apply_pack (w : wdt) (r : ppp) : ares :=
    let d := w_d w in
    if has (p_opt r) bit_error then
      let code := match p_err r with
                  | Some 302 => 200            (* PushPullDuplicateKey -> DatatypeCreate *)
                  | Some 304 => 201            (* PushPullNoDatatypeToSubscribe -> DatatypeSubscribe *)
                  | _ => 102                   (* ClientSync *)
                  end in
      AOk w (mkApplied (Some code) false false)
    else
      (* checkOptionAndError, subscribe branch *)
      let sub := has (p_opt r) bit_subscribe in
      let bad_sub := sub && negb (match p_ops r with o :: _ => is_snap o | [] => false end) in
      if (sub && dstate_eqb (w_state w) SubscribedSt) || bad_sub then AOk w (mkApplied (Some 201) false false)
      else
        let d1 := if sub
                  then let i := mkOpid (o_era (d_oid d)) (o_lam (d_oid d)) (o_cuid (d_oid d)) 0 in
                       mkDt k_init i [] (mkCp (u64sub (sseq (p_cp r)) (N.of_nat (length (p_ops r)))) (cseq (p_cp r)))
                            (k_export k_init) i []
                  else d in
        let duid1 := if sub then p_duid r else w_duid w in
        (* excludeDuplicatedOperations *)
        let c := d_cp d1 in
        match incoming (o_cuid (d_oid d1)) sub c r with
        | None => APanic
        | Some ops =>
          (* syncCheckPoint *)
          let c' := mkCp (N.max (sseq c) (sseq (p_cp r))) (N.max (cseq c) (cseq (p_cp r))) in
          (* updateStateOfDatatype *)
          let due := negb (dstate_eqb (w_state w) SubscribedSt) in
          let d2 := if dstate_eqb (w_state w) DueToSubscribeCreate && sub
                    then mkDt (d_snap d1) (mkOpid 0 1 (o_cuid (d_oid d1)) 0) [] c' (d_rb_snap d1) (d_rb_oid d1) (d_rb_ops d1)
                    else set_checkpoint St call J d1 c' in
          let duid2 := if due then p_duid r else duid1 in
          (* ReceiveRemoteModelOperations *)
          match receive_ops St call J k_remote d2 ops with
          | ROk _ _ _ d3 => AOk (mkWdt d3 SubscribedSt duid2 (w_key w)) (mkApplied None due false)
          | RError _ _ _ d3 => AOk (mkWdt d3 SubscribedSt duid2 (w_key w)) (mkApplied None due true)
          | _ => APanic
          end
        end.
End Wire.

Arguments mkWdt {St call J}.
Arguments w_d {St call J}.
Arguments w_state {St call J}.
Arguments w_duid {St call J}.
Arguments w_key {St call J}.
