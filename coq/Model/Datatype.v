(* client/pkg/internal/datatypes/{base,transaction,wired}.go and orda/datatype.go:
   what every client datatype does around its CRDT kernel — operation ids,
   transactions and rollback, the local buffer, pack construction, remote units. *)
From Orda.Model Require Import Base Time Ops.
Open Scope N_scope.

Section Datatype.
  (* the CRDT kernel of one datatype *)
  Variable St : Type.                      (* snapshot *)
  Variable call : Type.                   (* mutating API call *)
  Variable ret : Type.                    (* what ExecuteLocal returns *)
  Variable J : Type.                      (* marshalled snapshot *)
  Variable k_init : St.
  Variable k_validate : St -> call -> bool.
  (* ExecuteLocal.  LOk / LErr (error returned: id rolled back) / LPanic (Go runtime panic) *)
  Inductive lres := LOk (s : St) (o : op) (r : ret) | LErr | LPanic.
  Variable k_local : St -> call -> opid -> lres.
  Variable k_remote : St -> op -> St.
  Variable k_export : St -> J.
  Variable k_import : J -> St.

  (* an entry of rollbackOps: how Replay re-executes it *)
  Inductive rbentry :=
  | RLocal (c : call)          (* own operation with a body: executeLocalBase (new id + ExecuteLocal) *)
  | RLocalId                   (* own TRANSACTION / SNAPSHOT operation: consumes an id only *)
  | RRemote (o : op).          (* foreign operation: SyncLamport + ExecuteRemote *)

  Record dt := mkDt {
    d_snap : St;
    d_oid : opid;
    d_buf : list op;                      (* localBuffer *)
    d_cp : cp;                            (* checkPoint *)
    d_rb_snap : J; d_rb_oid : opid;       (* rollbackSnapshot / rollbackMeta *)
    d_rb_ops : list rbentry               (* rollbackOps *)
  }.

  (* a datatype in state DUE_TO_CREATE after init + SubscribeOrCreate: the snapshot
     operation took id 1 and is the first buffered operation *)
  Definition dt_create (c : str) : dt :=
    let i := opid_next (opid_new c) in
    mkDt k_init i [OSnap i] (mkCp 0 0) (k_export k_init) (opid_new c) [RLocalId].

  (* a subscriber after applying a subscribe pack whose snapshot operation carries
     state j and lamport l (ResetWired/ResetSnapshot/ResetTransaction, then the
     snapshot operation executed as a remote operation) *)
  Definition dt_subscribed (c : str) (j : J) (l : N) (sseq : N) : dt :=
    mkDt (k_import j) (opid_sync (opid_new c) l) [] (mkCp sseq 0)
         (k_export k_init) (opid_new c) [RRemote (OSnap (mkOpid 0 l nil_uid 0))].

  (* SetMetaAndSnapshot called from outside (restoring an exported datatype, the server's rebuild): state and operation
     id are replaced, buffer and checkpoint stay, and the imported state becomes the point a failed transaction comes
     back to, with nothing to replay (since the repair "fix: importing meta and snapshot takes the rollback point") *)
  Definition dt_import (d : dt) (j : J) (i : opid) : dt :=
    mkDt (k_import j) i (d_buf d) (d_cp d) (k_export (k_import j)) i [].

  (* ---- one local sentence (SentenceInTx + executeLocalBase), outside or inside a user transaction.
     txbuf = the operations of the open transaction (None: no user transaction open) *)
  Inductive outcome := Done (r : ret) | Failed | Panicked.

  Definition local_step (d : dt) (c : call) : dt * option op * outcome :=
    if k_validate (d_snap d) c then
      let i := opid_next (d_oid d) in
      match k_local (d_snap d) c i with
      | LOk s' o r => (mkDt s' i (d_buf d) (d_cp d) (d_rb_snap d) (d_rb_oid d) (d_rb_ops d), Some o, Done r)
      | LErr => (mkDt (d_snap d) (opid_rollback i) (d_buf d) (d_cp d) (d_rb_snap d) (d_rb_oid d) (d_rb_ops d), None, Failed)
      | LPanic => (mkDt (d_snap d) i (d_buf d) (d_cp d) (d_rb_snap d) (d_rb_oid d) (d_rb_ops d), None, Panicked)
      end
    else (d, None, Failed).

  (* a single call outside a transaction: the operation is committed at once *)
  Definition local_call (d : dt) (c : call) : dt * outcome :=
    let '(d', o, r) := local_step d c in
    match o with
    | Some o => (mkDt (d_snap d') (d_oid d') (d_buf d' ++ [o]) (d_cp d') (d_rb_snap d') (d_rb_oid d')
                      (d_rb_ops d' ++ [RLocal c]), r)
    | None => (d', r)
    end.

  (* Replay of rollbackOps on the restored snapshot *)
  Definition replay_entry (st : St * opid) (e : rbentry) : St * opid :=
    let '(s, i) := st in
    match e with
    | RLocal c =>
        let i' := opid_next i in
        match k_local s c i' with
        | LOk s' _ _ => (s', i')
        | LErr => (s, opid_rollback i')
        | LPanic => (s, i')
        end
    | RLocalId => (s, opid_next i)
    | RRemote o => (k_remote s o, opid_sync i (o_lam (op_id o)))
    end.
  Definition replay (j : J) (i : opid) (l : list rbentry) : St * opid :=
    fold_left replay_entry l (k_import j, i).

  (* a user transaction: the body is a list of calls; [fail] = the body returns an error at the end.
     Results of the calls inside are returned for comparison. *)
  Fixpoint tx_body (d : dt) (cs : list call) : dt * list op * list rbentry * list outcome :=
    match cs with
    | [] => (d, [], [], [])
    | c :: cs' =>
        let '(d', o, r) := local_step d c in
        let '(d'', ops, ents, rs) := tx_body d' cs' in
        match o with
        | Some o => (d'', o :: ops, RLocal c :: ents, r :: rs)
        | None => (d'', ops, ents, r :: rs)
        end
    end.

  Definition transaction (d : dt) (tag : str) (cs : list call) (fail : bool) : dt * list outcome :=
    let ti := opid_next (d_oid d) in                        (* the TRANSACTION operation takes an id *)
    let d0 := mkDt (d_snap d) ti (d_buf d) (d_cp d) (d_rb_snap d) (d_rb_oid d) (d_rb_ops d) in
    let '(d1, ops, ents, rs) := tx_body d0 cs in
    if fail then
      (* Rollback: SetMetaAndSnapshot(rollback) ; Replay rollbackOps ; refresh the rollback point *)
      let '(s, i) := replay (d_rb_snap d) (d_rb_oid d) (d_rb_ops d) in
      (mkDt s i (d_buf d) (d_cp d) (k_export s) i [], rs)
    else
      let txop := OTx ti tag (Z.of_nat (Datatypes.S (length ops))) in
      (mkDt (d_snap d1) (d_oid d1) (d_buf d ++ txop :: ops) (d_cp d1) (d_rb_snap d1) (d_rb_oid d1)
            (d_rb_ops d ++ RLocalId :: ents), rs).

  (* ---- push: CreatePushPullPack's operations (getModelOperations(cseq+1)) *)
  Definition pending (d : dt) : list op :=
    match d_buf d with
    | [] => []
    | o :: _ =>
        let start := (Z.of_N (cseq (d_cp d)) + 1 - Z.of_N (o_seq (op_id o)))%Z in
        if (0 <=? start)%Z && (Z.of_nat (length (d_buf d)) >? start)%Z
        then skipn (Z.to_nat start) (d_buf d) else []
    end.
  Definition set_checkpoint (d : dt) (c : cp) : dt :=
    mkDt (d_snap d) (d_oid d) (d_buf d) c (d_rb_snap d) (d_rb_oid d) (d_rb_ops d).

  (* ---- remote delivery: ReceiveRemoteModelOperations *)
  Definition remote_op (d : dt) (o : op) : dt :=
    mkDt (k_remote (d_snap d) o) (opid_sync (d_oid d) (o_lam (op_id o))) (d_buf d) (d_cp d)
         (d_rb_snap d) (d_rb_oid d) (d_rb_ops d ++ [RRemote o]).

  Inductive rres := ROk (d : dt) | RError (d : dt) | RPanic | RDiverge.

  (* units: a TRANSACTION operation announces NumOfOps (itself included).  A unit whose
     count is < 1 or exceeds what was delivered is refused (error) and nothing of it is
     applied; the units before it in the same batch stay applied. *)
  Fixpoint receive (fuel : nat) (d : dt) (ops : list op) : rres :=
    match fuel with
    | O => ROk d
    | Datatypes.S fuel' =>
        match ops with
        | [] => ROk d
        | OTx i tag n :: rest =>
            if (n <? 1)%Z || (Z.of_nat (length ops) <? n)%Z then RError d
            else
              let unit := firstn (Z.to_nat n) ops in
              let rest' := skipn (Z.to_nat n) ops in
              if (n =? 1)%Z
              then receive fuel' (remote_op d (OTx i tag n)) rest'      (* a unit of one: executed as a plain operation *)
              else receive fuel' (fold_left remote_op (tl unit) d) rest'
        | o :: rest => receive fuel' (remote_op d o) rest
        end
    end.
  Definition receive_ops (d : dt) (ops : list op) : rres := receive (Datatypes.S (length ops)) d ops.
End Datatype.

Arguments mkDt {St call J}.
Arguments d_snap {St call J}.
Arguments d_oid {St call J}.
Arguments d_buf {St call J}.
Arguments d_cp {St call J}.
Arguments d_rb_snap {St call J}.
Arguments d_rb_oid {St call J}.
Arguments d_rb_ops {St call J}.
Arguments LOk {St ret}.
Arguments LErr {St ret}.
Arguments LPanic {St ret}.
Arguments Done {ret}.
Arguments Failed {ret}.
Arguments Panicked {ret}.
