(* Correspondence checker for slices S-crdt-{counter,map,list}: the events the
   harness executed on real replicas, with what it observed, replayed on the model. *)
From Orda.Model Require Import Base Time Ops Counter Map List Datatype Replicas Snapshot.
Open Scope N_scope.

(* observed results in a datatype-independent form *)
Inductive res := RNil | RVal (v : val) | RVals (l : list val).
Inductive obs := OOk (r : res) | OFail | OPanic.

Definition res_eqb (a b : res) : bool :=
  match a, b with
  | RNil, RNil => true
  | RVal x, RVal y => val_eqb x y
  | RVals x, RVals y => list_eqb val_eqb x y
  | _, _ => false
  end.
Definition obs_eqb (a b : obs) : bool :=
  match a, b with
  | OOk x, OOk y => res_eqb x y
  | OFail, OFail => true
  | OPanic, OPanic => true
  | _, _ => false
  end.

Section Check.
  Variable St call ret J : Type.
  Variable k_init : St.
  Variable k_validate : St -> call -> bool.
  Variable k_local : St -> call -> opid -> lres St ret.
  Variable k_remote : St -> op -> St.
  Variable k_export : St -> J.
  Variable k_import : J -> St.
  Variable k_view : St -> val.
  Variable k_size : St -> Z.
  Variable k_res : ret -> res.
  Variable k_marshal : St -> jsnap.

  Inductive ev :=
  | ELocal (r : nat) (c : call) (o : obs) (view : val) (size : Z)
  | ETx (r : nat) (tag : str) (cs : list call) (fail : bool) (os : list obs) (view : val) (size : Z)
  (* a call / a committed transaction of a concurrent phase, placed where its operations stand in the buffer; the
     state right after it was not observable (other goroutines were running) *)
  | ELocalQ (r : nat) (c : call) (o : obs)
  | ETxQ (r : nat) (tag : str) (cs : list call) (os : list obs)
  | EPush (r : nat) (ops : list op)
  | EDeliver (r : nat) (n : nat) (ok : bool) (view : val) (size : Z)
  | ERecv (r : nat) (ops : list op) (ok : bool) (view : val) (size : Z)    (* a raw batch, cursor untouched *)
  | ESnap (r : nat) (j : jsnap) (i : opid).                                (* GetMetaAndSnapshot: marshalled snapshot and operation id *)

  Notation sysT := (@sys St call J).

  Definition to_obs (o : outcome ret) : obs :=
    match o with Done r => OOk (k_res r) | Failed => OFail | Panicked => OPanic end.

  Definition state_ok (d : @dt St call J) (view : val) (size : Z) : bool :=
    val_eqb (k_view (d_snap d)) view && Z.eqb (k_size (d_snap d)) size.

  (* one event: the next system state, or None when the observation differs *)
  Definition step (s : sysT) (e : ev) : option sysT :=
    match e with
    | ELocal r c o view size =>
        match get_rep St call J s r with
        | Some x =>
            let '(d', out) := local_call St call ret J k_validate k_local (r_dt x) c in
            if obs_eqb (to_obs out) o && state_ok d' view size
            then Some (set_rep St call J s r (mkRep d' (r_cur x))) else None
        | None => None
        end
    | ETx r tag cs fail os view size =>
        match get_rep St call J s r with
        | Some x =>
            let '(d', outs) := transaction St call ret J k_validate k_local k_remote k_export k_import (r_dt x) tag cs fail in
            if list_eqb obs_eqb (map to_obs outs) os && state_ok d' view size
            then Some (set_rep St call J s r (mkRep d' (r_cur x))) else None
        | None => None
        end
    | ELocalQ r c o =>
        match get_rep St call J s r with
        | Some x =>
            let '(d', out) := local_call St call ret J k_validate k_local (r_dt x) c in
            if obs_eqb (to_obs out) o then Some (set_rep St call J s r (mkRep d' (r_cur x))) else None
        | None => None
        end
    | ETxQ r tag cs os =>
        match get_rep St call J s r with
        | Some x =>
            let '(d', outs) := transaction St call ret J k_validate k_local k_remote k_export k_import (r_dt x) tag cs false in
            if list_eqb obs_eqb (map to_obs outs) os then Some (set_rep St call J s r (mkRep d' (r_cur x))) else None
        | None => None
        end
    | EPush r ops =>
        match sys_push St call J s r with
        | Some (s', mops) => if list_eqb op_eqb mops ops then Some s' else None
        | None => None
        end
    | EDeliver r n ok view size =>
        match sys_deliver St call J k_remote s r n with
        | Some (s', ROk _ _ _ d') => if ok && state_ok d' view size then Some s' else None
        | Some (s', RError _ _ _ d') => if negb ok && state_ok d' view size then Some s' else None
        | _ => None
        end
    | ERecv r ops ok view size =>
        match get_rep St call J s r with
        | Some x =>
            match receive_ops St call J k_remote (r_dt x) ops with
            | ROk _ _ _ d' => if ok && state_ok d' view size then Some (set_rep St call J s r (mkRep d' (r_cur x))) else None
            | RError _ _ _ d' => if negb ok && state_ok d' view size then Some (set_rep St call J s r (mkRep d' (r_cur x))) else None
            | _ => None
            end
        | None => None
        end
    | ESnap r j i =>
        match get_rep St call J s r with
        | Some x => if jsnap_eqb (k_marshal (d_snap (r_dt x))) j && opid_eqb (d_oid (r_dt x)) i then Some s else None
        | None => None
        end
    end.

  Fixpoint run (s : sysT) (es : list ev) (i : nat) : option nat :=
    match es with
    | [] => None
    | e :: es' => match step s e with Some s' => run s' es' (Datatypes.S i) | None => Some i end
    end.

  (* what the model computes for an event — printed when debugging a mismatch *)
  Inductive diag :=
  | DLocal (o : obs) (view : val) (size : Z)
  | DTx (os : list obs) (view : val) (size : Z)
  | DPush (ops : list op)
  | DDeliver (kind : nat) (view : val) (size : Z)
  | DNone.
  Definition diag_step (s : sysT) (e : ev) : diag :=
    match e with
    | ELocal r c _ _ _ =>
        match get_rep St call J s r with
        | Some x => let '(d', out) := local_call St call ret J k_validate k_local (r_dt x) c in
                    DLocal (to_obs out) (k_view (d_snap d')) (k_size (d_snap d'))
        | None => DNone
        end
    | ETx r tag cs fail _ _ _ =>
        match get_rep St call J s r with
        | Some x => let '(d', outs) := transaction St call ret J k_validate k_local k_remote k_export k_import (r_dt x) tag cs fail in
                    DTx (map to_obs outs) (k_view (d_snap d')) (k_size (d_snap d'))
        | None => DNone
        end
    | ELocalQ r c _ =>
        match get_rep St call J s r with
        | Some x => let '(d', out) := local_call St call ret J k_validate k_local (r_dt x) c in
                    DLocal (to_obs out) (k_view (d_snap d')) (k_size (d_snap d'))
        | None => DNone
        end
    | ETxQ r tag cs _ =>
        match get_rep St call J s r with
        | Some x => let '(d', outs) := transaction St call ret J k_validate k_local k_remote k_export k_import (r_dt x) tag cs false in
                    DTx (map to_obs outs) (k_view (d_snap d')) (k_size (d_snap d'))
        | None => DNone
        end
    | EPush r _ => match sys_push St call J s r with Some (_, mops) => DPush mops | None => DNone end
    | EDeliver r n _ _ _ =>
        match sys_deliver St call J k_remote s r n with
        | Some (_, ROk _ _ _ d') => DDeliver 0 (k_view (d_snap d')) (k_size (d_snap d'))
        | Some (_, RError _ _ _ d') => DDeliver 1 (k_view (d_snap d')) (k_size (d_snap d'))
        | Some (_, RPanic _ _ _) => DDeliver 2 (VNum 0) 0%Z
        | Some (_, RDiverge _ _ _) => DDeliver 3 (VNum 0) 0%Z
        | None => DNone
        end
    | ERecv r ops _ _ _ =>
        match get_rep St call J s r with
        | Some x =>
            match receive_ops St call J k_remote (r_dt x) ops with
            | ROk _ _ _ d' => DDeliver 0 (k_view (d_snap d')) (k_size (d_snap d'))
            | RError _ _ _ d' => DDeliver 1 (k_view (d_snap d')) (k_size (d_snap d'))
            | RPanic _ _ _ => DDeliver 2 (VNum 0) 0%Z
            | RDiverge _ _ _ => DDeliver 3 (VNum 0) 0%Z
            end
        | None => DNone
        end
    | ESnap r j i => DNone
    end.
  Fixpoint run_diag (s : sysT) (es : list ev) (i : nat) : option (nat * ev * diag) :=
    match es with
    | [] => None
    | e :: es' => match step s e with Some s' => run_diag s' es' (Datatypes.S i) | None => Some (i, e, diag_step s e) end
    end.

  Record hist := mkHist { h_cuids : list str; h_events : list ev }.
  Definition first_mismatch (h : hist) : option nat :=
    run (sys_init St call J k_init k_export k_import (h_cuids h)) (h_events h) 0%nat.
  Definition diagnose (h : hist) :=
    run_diag (sys_init St call J k_init k_export k_import (h_cuids h)) (h_events h) 0%nat.
  Definition check_hist (h : hist) : bool :=
    match first_mismatch h with None => true | Some _ => false end.
End Check.

Arguments ELocal {call}.
Arguments ETx {call}.
Arguments ELocalQ {call}.
Arguments ETxQ {call}.
Arguments EPush {call}.
Arguments EDeliver {call}.
Arguments ERecv {call}.
Arguments ESnap {call}.
Arguments mkHist {call}.

(* ---------- instances ---------- *)
Definition c_local' (s : cstate) (c : ccall) (i : opid) : lres cstate val :=
  match c_exec_local s c i with Some (s', o, r) => LOk s' o r | None => LErr end.
Definition m_local' (s : mstate) (c : mcall) (i : opid) : lres mstate (option val) :=
  match m_exec_local s c i with Some (s', o, r) => LOk s' o r | None => LErr end.
(* list: ExecuteLocal never returns an error; None is a nil dereference *)
Definition l_local' (s : lstate) (c : lcall) (i : opid) : lres lstate (list val) :=
  match l_exec_local s c i with Some (s', o, r) => LOk s' o r | None => LPanic end.

Definition id_ {A} (x : A) := x.

Definition cev := ev ccall.
Definition chist := hist ccall.
Definition check_counter : chist -> bool :=
  check_hist cstate ccall val cstate c_init c_validate c_local' c_exec_remote id_ id_ c_view (fun s => s) RVal c_marshal.
Definition explain_counter :=
  diagnose cstate ccall val cstate c_init c_validate c_local' c_exec_remote id_ id_ c_view (fun s => s) RVal c_marshal.

Definition mev := ev mcall.
Definition mhist := hist mcall.
Definition m_res (r : option val) : res := match r with Some v => RVal v | None => RNil end.
Definition check_map : mhist -> bool :=
  check_hist mstate mcall (option val) mstate m_init m_validate m_local' m_exec_remote id_ id_ m_view m_size m_res m_marshal.
Definition explain_map :=
  diagnose mstate mcall (option val) mstate m_init m_validate m_local' m_exec_remote id_ id_ m_view m_size m_res m_marshal.

Definition lev := ev lcall.
Definition lhist := hist lcall.
Definition check_list : lhist -> bool :=
  check_hist lstate lcall (list val) lstate l_init l_validate l_local' l_exec_remote id_ id_ l_view l_size RVals l_marshal.
Definition explain_list :=
  diagnose lstate lcall (list val) lstate l_init l_validate l_local' l_exec_remote id_ id_ l_view l_size RVals l_marshal.
