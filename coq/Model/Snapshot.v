(* The marshalled form of the snapshots (MarshalJSON / UnmarshalJSON of counterSnapshot,
   mapSnapshot, listSnapshot) and of the metadata (GetMeta / SetMeta). *)
From Orda.Model Require Import Base Time Ops Counter Map List.

(* what json.Marshal(snapshot) contains, in canonical order *)
Inductive jsnap :=
| JCounter (v : Z)                                                    (* {"Counter": v} *)
| JMap (entries : list (str * (option val * ts))) (size : Z)          (* {"Map": {k: {"v","t"}}, "Size"} — keys sorted *)
| JList (nodes : list (option val * ts * ts)) (size : Z).             (* {"Nodes": [{"V","T","O"}], "Size"} — list order *)

Definition c_marshal (s : cstate) : jsnap := JCounter s.
Definition c_unmarshal (j : jsnap) : cstate := match j with JCounter v => v | _ => c_init end.

Definition m_marshal (s : mstate) : jsnap :=
  JMap (sort_by_key (map (fun kv => (fst kv, (m_v (snd kv), m_t (snd kv)))) (m_map s))) (m_size s).
Definition m_unmarshal (j : jsnap) : mstate :=
  match j with
  | JMap es sz => mkMstate (map (fun kv => (fst kv, mkMentry (fst (snd kv)) (snd (snd kv)))) es) sz
  | _ => m_init
  end.

Definition l_marshal (s : lstate) : jsnap :=
  JList (map (fun n => (n_v n, n_t n, n_o n)) (l_nodes s)) (l_size s).
(* UnmarshalJSON relinks the nodes in order and rebuilds the index from the O timestamps *)
Definition l_unmarshal (j : jsnap) : lstate :=
  match j with
  | JList ns sz => mkLstate (map (fun x => mkNode (snd x) (snd (fst x)) (fst (fst x))) ns) sz
  | _ => l_init
  end.

Definition ov_eqb := opt_eqb val_eqb.
Definition jsnap_eqb (a b : jsnap) : bool :=
  match a, b with
  | JCounter x, JCounter y => Z.eqb x y
  | JMap e1 s1, JMap e2 s2 =>
      list_eqb (fun x y => str_eqb (fst x) (fst y) && ov_eqb (fst (snd x)) (fst (snd y)) && ts_eqb (snd (snd x)) (snd (snd y))) e1 e2
      && Z.eqb s1 s2
  | JList n1 s1, JList n2 s2 =>
      list_eqb (fun x y => ov_eqb (fst (fst x)) (fst (fst y)) && ts_eqb (snd (fst x)) (snd (fst y)) && ts_eqb (snd x) (snd y)) n1 n2
      && Z.eqb s1 s2
  | _, _ => false
  end.
