(* server/service/service_pushpull_datatype.go (Start/process/finalize) with server/utils/local_lock.go: every pack of every
   request is handled by its own goroutine:

       its.locked = its.lock.TryLock()          -- the lock named PP:<collection>:<key>; waits for it, gives up after a lease time
       if !its.locked { refuse }                 -- no storage command is issued, nothing is unlocked
       evaluate / pull / purge / insert / update -- the storage commands of the pack, one after the other
       its.lock.Unlock()                         -- only if locked
       answer

   One storage command is one atomic step; a scheduler picks which goroutine moves next, and may let a goroutine that
   waits for a held lock give up (the lease timeout). *)
From Coq Require Import List Arith Bool.
Import ListNotations.

Record handler := mkHandler { h_id : nat; h_key : nat; h_steps : nat }.

Inductive hpc :=
| HTry                      (* about to TryLock *)
| HCmd (i : nat)            (* holds the lock; about to issue its i-th storage command *)
| HUnlock                   (* all commands issued; about to unlock *)
| HAnswer (ok : bool)       (* about to send the response (ok = the pack was served) *)
| HDone.

Inductive move := Step (t : nat) | GiveUp (t : nat).

Section SrvLock.
  Variable D : Type.
  Variable exec : handler -> nat -> D -> D.     (* the i-th storage command of a handler *)
  Variable P : nat -> option handler.            (* goroutine -> the pack it serves *)

  Record sstate := mkSstate {
    locks : nat -> option nat;          (* lock key -> the goroutine holding it *)
    db : D;
    hthr : nat -> hpc;
    (* ghosts *)
    hlog : list (nat * nat);            (* (goroutine, index): the storage commands in the order they were executed *)
    horder : list nat;                  (* the goroutines whose pack was served, in the order they released their lock *)
    answered : list (nat * bool)        (* (goroutine, served?) in the order the answers were sent *)
  }.

  Definition updf {A} (f : nat -> A) (t : nat) (v : A) : nat -> A := fun x => if Nat.eqb x t then v else f x.

  Definition after_lock (h : handler) : hpc := if Nat.eqb (h_steps h) 0 then HUnlock else HCmd 0.
  Definition after_cmd (h : handler) (i : nat) : hpc := if Nat.ltb (S i) (h_steps h) then HCmd (S i) else HUnlock.

  Definition sstep (m : move) (s : sstate) : option sstate :=
    match m with
    | Step t =>
        match P t with
        | None => None
        | Some h =>
            match hthr s t with
            | HTry => match locks s (h_key h) with
                      | None => Some (mkSstate (updf (locks s) (h_key h) (Some t)) (db s) (updf (hthr s) t (after_lock h)) (hlog s) (horder s) (answered s))
                      | Some _ => None      (* waits *)
                      end
            | HCmd i => Some (mkSstate (locks s) (exec h i (db s)) (updf (hthr s) t (after_cmd h i)) (hlog s ++ [(t, i)]) (horder s) (answered s))
            | HUnlock => Some (mkSstate (updf (locks s) (h_key h) None) (db s) (updf (hthr s) t (HAnswer true)) (hlog s) (horder s ++ [t]) (answered s))
            | HAnswer ok => Some (mkSstate (locks s) (db s) (updf (hthr s) t HDone) (hlog s) (horder s) (answered s ++ [(t, ok)]))
            | HDone => None
            end
        end
    | GiveUp t =>
        match P t with
        | None => None
        | Some h =>
            match hthr s t, locks s (h_key h) with
            | HTry, Some _ => Some (mkSstate (locks s) (db s) (updf (hthr s) t (HAnswer false)) (hlog s) (horder s) (answered s))
            | _, _ => None
            end
        end
    end.

  Definition sinit (d : D) : sstate := mkSstate (fun _ => None) d (fun _ => HTry) [] [] [].
  Definition srun_moves (s : sstate) (ms : list move) : sstate :=
    fold_left (fun s m => match sstep m s with Some s' => s' | None => s end) ms s.

  Definition hbody (t : nat) : list (nat * nat) :=
    match P t with Some h => map (fun i => (t, i)) (seq 0 (h_steps h)) | None => [] end.
  Definition run_cmd (d : D) (c : nat * nat) : D := match P (fst c) with Some h => exec h (snd c) d | None => d end.
  Definition run_log (l : list (nat * nat)) (d : D) : D := fold_left run_cmd l d.
  (* the served packs one at a time, each running all its storage commands *)
  Definition one_at_a_time (ts : list nat) (d : D) : D := run_log (flat_map hbody ts) d.
  Definition key_of (t : nat) : nat := match P t with Some h => h_key h | None => 0 end.
End SrvLock.
