(* client/pkg/internal/datatypes/transaction.go: the locking protocol of one datatype used by several goroutines,
   statement by statement.  Shared variables: the mutex, isLocked, txCtx (the identity of the transaction context that
   currently owns the datatype) and the datatype itself.  A goroutine runs a list of units: a plain call
   (SentenceInTx with no context) or a user transaction (DoTransaction) whose body makes nested calls with the
   transaction's own context.  Every shared read and write is one atomic step; a scheduler picks the next goroutine.

     BeginTransaction(tag, txCtx):   if txCtx != nil && its.txCtx == txCtx { return nil }      (PBegin / PNestBegin)
                                     its.mutex.Lock()                                           (PLock)
                                     its.isLocked = true                                        (PSetLocked)
                                     its.txCtx = &TransactionContext{...}                       (PSetCtx)
     body:                           executeLocalBase(op); its.txCtx.appendOperation(op)        (PExec i)
     EndTransaction(txCtx):          if txCtx == its.txCtx { ... defer its.unlock() }           (PNestEnd / PEnd)
     unlock():                       if its.isLocked {                                          (PUnlockTest)
                                       its.txCtx = nil                                          (PClearCtx)
                                       its.isLocked = false                                     (PClearLocked)
                                       its.mutex.Unlock() }                                     (PUnlock)                *)
From Coq Require Import List Arith Bool.
Import ListNotations.

Record cunit := mkCunit { u_id : nat; u_steps : nat; u_tx : bool }.

Inductive pc :=
| PBegin | PLock | PSetLocked | PSetCtx
| PNestBegin (i : nat) | PExec (i : nat) | PNestEnd (i : nat)
| PEnd | PUnlockTest | PClearCtx | PClearLocked | PUnlock
| PWrong.      (* a branch the protocol must never take: a nested call that tries to lock again, an owner that does not
                  recognise its own context, an unlock() that finds isLocked false (the mutex is never released) *)

Section Conc.
  Variable D : Type.
  Variable exec : nat -> nat -> D -> D.        (* unit id, index of the call inside the unit *)

  Record cstate := mkCstate {
    mtx : option nat;                 (* the goroutine holding the mutex *)
    locked : bool;                    (* its.isLocked *)
    cur : option nat;                 (* its.txCtx: the unit whose context is installed *)
    data : D;                         (* the datatype: snapshot, operation id, push buffer *)
    thr : nat -> pc * list cunit;     (* per goroutine: program counter inside the first unit, remaining units *)
    (* ghosts *)
    log : list (nat * nat);           (* the calls executed on the datatype, in the order they took effect *)
    order : list (nat * cunit)        (* (goroutine, unit) in the order the units released the mutex *)
  }.

  Definition upd {A} (f : nat -> A) (t : nat) (v : A) : nat -> A := fun x => if Nat.eqb x t then v else f x.

  (* where a unit goes after installing its context, and after its i-th call *)
  Definition first_pc (u : cunit) : pc :=
    if Nat.eqb (u_steps u) 0 then PEnd else if u_tx u then PNestBegin 0 else PExec 0.
  Definition next_pc (u : cunit) (i : nat) : pc :=
    if Nat.ltb (S i) (u_steps u) then (if u_tx u then PNestBegin (S i) else PExec (S i)) else PEnd.

  Definition set_thr (s : cstate) (t : nat) (p : pc) (us : list cunit) : cstate :=
    mkCstate (mtx s) (locked s) (cur s) (data s) (upd (thr s) t (p, us)) (log s) (order s).

  (* one step of goroutine t; None: it has finished, or it waits for the mutex *)
  Definition cstep (t : nat) (s : cstate) : option cstate :=
    match thr s t with
    | (_, []) => None
    | (p, u :: rest) =>
        let go p' := Some (set_thr s t p' (u :: rest)) in
        match p with
        | PBegin => go PLock                                  (* a top-level call carries no context: the test is false *)
        | PLock => match mtx s with
                   | None => Some (mkCstate (Some t) (locked s) (cur s) (data s) (upd (thr s) t (PSetLocked, u :: rest)) (log s) (order s))
                   | Some _ => None
                   end
        | PSetLocked => Some (mkCstate (mtx s) true (cur s) (data s) (upd (thr s) t (PSetCtx, u :: rest)) (log s) (order s))
        | PSetCtx => Some (mkCstate (mtx s) (locked s) (Some (u_id u)) (data s) (upd (thr s) t (first_pc u, u :: rest)) (log s) (order s))
        | PNestBegin i =>                                      (* the nested call presents the transaction's context *)
            match cur s with
            | Some c => if Nat.eqb c (u_id u) then go (PExec i) else go PWrong
            | None => go PWrong
            end
        | PExec i =>
            Some (mkCstate (mtx s) (locked s) (cur s) (exec (u_id u) i (data s))
                           (upd (thr s) t (if u_tx u then PNestEnd i else next_pc u i, u :: rest))
                           (log s ++ [(u_id u, i)]) (order s))
        | PNestEnd i =>                                        (* EndTransaction(nil): nil == its.txCtx ? *)
            match cur s with
            | None => go PWrong
            | Some _ => go (next_pc u i)
            end
        | PEnd =>
            match cur s with
            | Some c => if Nat.eqb c (u_id u) then go PUnlockTest else go PWrong
            | None => go PWrong
            end
        | PUnlockTest => if locked s then go PClearCtx else go PWrong
        | PClearCtx => Some (mkCstate (mtx s) (locked s) None (data s) (upd (thr s) t (PClearLocked, u :: rest)) (log s) (order s))
        | PClearLocked => Some (mkCstate (mtx s) false (cur s) (data s) (upd (thr s) t (PUnlock, u :: rest)) (log s) (order s))
        | PUnlock => Some (mkCstate None (locked s) (cur s) (data s) (upd (thr s) t (PBegin, rest)) (log s) (order s ++ [(t, u)]))
        | PWrong => None
        end
    end.

  Definition cinit (d : D) (progs : nat -> list cunit) : cstate :=
    mkCstate None false None d (fun t => (PBegin, progs t)) [] [].

  (* a schedule names the goroutine to run next; a goroutine that cannot move is skipped *)
  Definition crun (s : cstate) (sched : list nat) : cstate :=
    fold_left (fun s t => match cstep t s with Some s' => s' | None => s end) sched s.

  Definition body (u : cunit) : list (nat * nat) := map (fun i => (u_id u, i)) (seq 0 (u_steps u)).
  Definition apply_log (l : list (nat * nat)) (d : D) : D := fold_left (fun d ui => exec (fst ui) (snd ui) d) l d.
  (* the units one at a time *)
  Definition sequential (us : list cunit) (d : D) : D := apply_log (flat_map body us) d.
End Conc.
