(* Correspondence checker for the S-wire / S-req slices: real clients and the real
   OrdaService (over the in-memory store) against Wire.v + Server.v. *)
From Orda.Model Require Import Base Time Ops Counter Map List Snapshot Datatype Replicas CheckCrdt Server SnapSrv Wire Net.
Open Scope N_scope.

Definition cp_eq := cp_eqb.
Definition ppp_eqb (a b : ppp) : bool :=
  str_eqb (p_key a) (p_key b) && str_eqb (p_duid a) (p_duid b) && N.eqb (p_opt a) (p_opt b) &&
  cp_eqb (p_cp a) (p_cp b) && N.eqb (p_type a) (p_type b) && list_eqb op_eqb (p_ops a) (p_ops b) &&
  opt_eqb N.eqb (p_err a) (p_err b).

Definition clients_eqb (a b : list (str * cp)) : bool :=
  list_eqb (fun x y => str_eqb (fst x) (fst y) && cp_eqb (snd x) (snd y)) (sort_by_key a) (sort_by_key b).
Definition ddoc_eqb (a b : ddoc) : bool :=
  str_eqb (dd_duid a) (dd_duid b) && str_eqb (dd_key a) (dd_key b) && N.eqb (dd_col a) (dd_col b) &&
  N.eqb (dd_type a) (dd_type b) && N.eqb (dd_end a) (dd_end b) &&
  clients_eqb (dd_rw a) (dd_rw b) && clients_eqb (dd_ro a) (dd_ro b).

(* digest of an operation document: duid, collection, sseq, operation id *)
Definition odig := (str * N * N * opid)%type.
Definition odig_of (o : odoc) : odig := (od_duid o, od_col o, od_sseq o, op_id (od_op o)).
Definition odig_eqb (a b : odig) : bool :=
  let '(d1, c1, s1, i1) := a in let '(d2, c2, s2, i2) := b in
  str_eqb d1 d2 && N.eqb c1 c2 && N.eqb s1 s2 && opid_eqb i1 i2.

Record dbdig := mkDbdig { g_dts : list ddoc; g_ops : list odig;
                          g_snaps : list snapdoc;          (* -_-Snapshots, insertion order *)
                          g_real : list realdoc;           (* the user collections *)
                          g_snapchk : bool }.              (* false: a storage fault hit the snapshot update itself *)
Definition snapdoc_eqb (a b : snapdoc) : bool :=
  str_eqb (sn_duid a) (sn_duid b) && N.eqb (sn_col a) (sn_col b) && N.eqb (sn_sseq a) (sn_sseq b) && jsnap_eqb (sn_snap a) (sn_snap b).
Definition realdoc_eqb (a b : realdoc) : bool :=
  str_eqb (rl_col a) (rl_col b) && str_eqb (rl_key a) (rl_key b) && val_eqb (rl_view a) (rl_view b) && N.eqb (rl_ver a) (rl_ver b).
Definition same_set {A} (eqb : A -> A -> bool) (a b : list A) : bool :=
  Nat.eqb (length a) (length b) && forallb (fun x => existsb (eqb x) b) a.
Definition ss_matches (ss : snapstore) (g : dbdig) : bool :=
  negb (g_snapchk g) || (list_eqb snapdoc_eqb (ss_snaps ss) (g_snaps g) && same_set realdoc_eqb (ss_real ss) (g_real g)).
(* after a storage fault inside the snapshot update the run continues from the store as observed *)
Definition ss_adopt (ss : snapstore) (g : dbdig) : snapstore :=
  if g_snapchk g then ss else mkSnapstore (g_snaps g) (g_real g).
Definition db_matches (db : sdb) (g : dbdig) : bool :=
  list_eqb ddoc_eqb (s_dts db) (g_dts g) && list_eqb odig_eqb (map odig_of (s_ops db)) (g_ops g).

(* after a concurrent round: documents of different datatypes were written in an order the log does not determine; the
   model's store is brought into the observed order (same documents, same operations per datatype in the same order) *)
Definition reorder_db (db : sdb) (g : dbdig) : option sdb :=
  let ops' := map (fun od => find (fun o => odig_eqb (odig_of o) od) (s_ops db)) (g_ops g) in
  if same_set ddoc_eqb (s_dts db) (g_dts g) && Nat.eqb (length (s_ops db)) (length (g_ops g)) && forallb (fun x => match x with Some _ => true | None => false end) ops'
  then Some (mkSdb (s_cols db) (s_colctr db) (s_clients db) (g_dts g) (flat_map (fun x => match x with Some o => [o] | None => [] end) ops'))
  else None.

Definition pub_eqb (a b : publish) : bool :=
  str_eqb (pb_col a) (pb_col b) && str_eqb (pb_key a) (pb_key b) && str_eqb (pb_cuid a) (pb_cuid b) &&
  str_eqb (pb_duid a) (pb_duid b) && N.eqb (pb_sseq a) (pb_sseq b).


Section Check.
  Variable St call ret J : Type.
  Variable k_init : St.
  Variable k_validate : St -> call -> bool.
  Variable k_local : St -> call -> opid -> lres St ret.
  Variable k_remote : St -> op -> St.
  Variable k_export : St -> J.
  Variable k_import : J -> St.
  Variable k_view : St -> val.
  Variable k_size : St -> Z.
  Variable k_res : ret -> res.
  Variable k_type : N.
  Variable k_marshal : St -> jsnap.
  Variable k_unmarshal : jsnap -> St.

  Notation wdty := (@wdt St call J).
  (* the world checks one kernel: datatypes of another type (a request may name any type) are left out of the comparison *)
  Definition after_pack (db' : sdb) (ss : snapstore) (colname : str) (pubs : list publish) : snapstore :=
    match pubs with
    | p :: _ => match find_dt db' (pb_duid p) with
                | Some d => if N.eqb (dd_type d) k_type
                            then SnapSrv.after_pack St k_init k_remote k_marshal k_unmarshal k_view db' ss colname pubs else ss
                | None => ss
                end
    | [] => ss
    end.

  (* what the client reports after applying a response *)
  Record aobs := mkAobs { ao_err : option N; ao_state_change : bool; ao_subscribed : bool;
                          ao_duid : str; ao_cp : cp; ao_view : val; ao_size : Z }.

  Inductive wev :=
  | WCollection (name : str)
  | WClient (col cuid : str) (err : option N)                 (* ProcessClient; err: 0 no collection, 2 no permission *)
  | WNewDt (col cuid : str) (mode : N) (duid key : str)       (* mode 0 create, 1 subscribe, 2 subscribe-or-create *)
  | WLocal (di : nat) (c : call) (o : obs) (view : val) (size : Z)
  | WTx (di : nat) (tag : str) (cs : list call) (fail : bool) (os : list obs) (view : val) (size : Z)
  | WSync (di : nat) (f : fault) (req resp : ppp) (g : dbdig) (pubs : list publish) (a : aobs)
  | WSyncRpc (di : nat) (f : fault) (req : ppp) (rpc : N) (g : dbdig)                 (* the exchange ended in an RPC error *)
  | WApply (di : nat) (resp : ppp) (a : aobs)                                    (* a held-back or second response is applied *)
  | WRaw (col cuid : str) (req resp : ppp) (g : dbdig) (pubs : list publish)     (* a mutated request, response not applied *)
  | WRawErr (col cuid : str) (req : ppp) (rpc : N) (g : dbdig)                   (* refused by ProcessPushPull itself *)
  | WSnapUpd (col : str) (d : ddoc) (g : dbdig)           (* UpdateSnapshot runs (again) with a datatype document captured earlier *)
  (* two snapshot updates of one datatype whose executions overlapped (the first was answered late by the store): they run
     one at a time (their lock), the first before the second *)
  | WSnapUpd2 (col : str) (d1 d2 : ddoc) (g : dbdig)
  (* a round of requests that were served CONCURRENTLY, listed in the one-at-a-time order read off the stored log (by
     the log position each response reports); a refused request changed nothing and may stand anywhere from its listed
     place on; the store is compared after the round *)
  | WRound (items : list (str * str * ppp * ppp)) (g : dbdig)
  (* the REST patch endpoint stored operations of its own (an administrative client that is not modelled): the store moves
     on as observed — the new operation documents are taken over, the datatype documents are the observed ones *)
  | WRest (newops : list odoc) (g : dbdig)
  | WReset (col : str) (clients : list (str * N)) (g : dbdig).     (* ResetCollection; clients = the registered clients afterwards *)

  Record wsys := mkWsys { ws_db : sdb; ws_dts : list (str * str * wdty); ws_ss : snapstore }.    (* (collection, cuid, datatype) *)

  Definition set_dt (s : wsys) (di : nat) (x : str * str * wdty) : wsys :=
    mkWsys (ws_db s) (firstn di (ws_dts s) ++ x :: skipn (Datatypes.S di) (ws_dts s)) (ws_ss s).

  Definition mode_state (m : N) : dstate :=
    match m with 0 => DueToCreate | 1 => DueToSubscribe | _ => DueToSubscribeCreate end.

  Definition rpc_code (e : rpc_err) : N := match e with NoCollection => 0 | NoClient => 1 | NoPermission => 2 | DbError => 3 end.

  Definition to_obs' (o : outcome ret) : obs :=
    match o with Done r => OOk (k_res r) | Failed => OFail | Panicked => OPanic end.

  Definition aobs_ok (w : wdty) (a : applied) (o : aobs) : bool :=
    opt_eqb N.eqb (a_err a) (ao_err o) && Bool.eqb (a_state_change a) (ao_state_change o) &&
    Bool.eqb (dstate_eqb (w_state w) SubscribedSt) (ao_subscribed o) &&
    str_eqb (w_duid w) (ao_duid o) && cp_eqb (d_cp (w_d w)) (ao_cp o) &&
    val_eqb (k_view (d_snap (w_d w))) (ao_view o) && Z.eqb (k_size (d_snap (w_d w))) (ao_size o).

  Definition wstep0 (s : wsys) (e : wev) : option wsys :=
    match e with
    | WCollection name => Some (mkWsys (create_collection (ws_db s) name) (ws_dts s) (ws_ss s))
    | WClient col cuid err =>
        let '(db', r) := process_client (ws_db s) col cuid in
        if opt_eqb N.eqb (option_map rpc_code r) err then Some (mkWsys db' (ws_dts s) (ws_ss s)) else None
    | WNewDt col cuid mode duid key =>
        Some (mkWsys (ws_db s) (ws_dts s ++ [(col, cuid, w_new St call J k_init k_export (mode_state mode) cuid duid key)]) (ws_ss s))
    | WLocal di c o view size =>
        match nth_error (ws_dts s) di with
        | Some (col, cuid, w) =>
            let '(d', out) := local_call St call ret J k_validate k_local (w_d w) c in
            if obs_eqb (to_obs' out) o && val_eqb (k_view (d_snap d')) view && Z.eqb (k_size (d_snap d')) size
            then Some (set_dt s di (col, cuid, mkWdt d' (w_state w) (w_duid w) (w_key w))) else None
        | None => None
        end
    | WTx di tag cs fail os view size =>
        match nth_error (ws_dts s) di with
        | Some (col, cuid, w) =>
            let '(d', outs) := transaction St call ret J k_validate k_local k_remote k_export k_import (w_d w) tag cs fail in
            if list_eqb obs_eqb (map to_obs' outs) os && val_eqb (k_view (d_snap d')) view && Z.eqb (k_size (d_snap d')) size
            then Some (set_dt s di (col, cuid, mkWdt d' (w_state w) (w_duid w) (w_key w))) else None
        | None => None
        end
    | WSync di f req resp g pubs a =>
        match nth_error (ws_dts s) di with
        | Some (col, cuid, w) =>
            if negb (ppp_eqb (mkpack St call J k_type w) req) then None else
            match exchange St call J k_init k_remote k_export k_type (ws_db s) col cuid w f with
            | XOk db' mresp mpubs w' ap =>
                (* post-response work: one snapshot update per handling that stored operations *)
                let ss' := after_pack db' (ws_ss s) col mpubs in
                if ppp_eqb mresp resp && db_matches db' g && list_eqb pub_eqb mpubs pubs && aobs_ok w' ap a && ss_matches ss' g
                then Some (set_dt (mkWsys db' (ws_dts s) (ss_adopt ss' g)) di (col, cuid, w')) else None
            | _ => None
            end
        | None => None
        end
    | WSyncRpc di f req rpc g =>
        match nth_error (ws_dts s) di with
        | Some (col, cuid, w) =>
            if negb (ppp_eqb (mkpack St call J k_type w) req) then None else
            match exchange St call J k_init k_remote k_export k_type (ws_db s) col cuid w f with
            | XRpc db' e => if N.eqb (rpc_code e) rpc && db_matches db' g then Some (mkWsys db' (ws_dts s) (ws_ss s)) else None
            | _ => None
            end
        | None => None
        end
    | WApply di resp a =>
        match nth_error (ws_dts s) di with
        | Some (col, cuid, w) =>
            match apply_pack St call J k_init k_remote k_export w resp with
            | AOk _ _ _ w' ap => if aobs_ok w' ap a then Some (set_dt s di (col, cuid, w')) else None
            | APanic _ _ _ => None
            end
        | None => None
        end
    | WRaw col cuid req resp g pubs =>
        match process_pushpull (ws_db s) col cuid [req] with
        | (db', inl [(mresp, mpubs)]) =>
            let ss' := after_pack db' (ws_ss s) col mpubs in
            if ppp_eqb mresp resp && db_matches db' g && list_eqb pub_eqb mpubs pubs && ss_matches ss' g
            then Some (mkWsys db' (ws_dts s) (ss_adopt ss' g)) else None
        | _ => None
        end
    | WRawErr col cuid req rpc g =>
        match process_pushpull (ws_db s) col cuid [req] with
        | (db', inr e) => if N.eqb (rpc_code e) rpc && db_matches db' g then Some (mkWsys db' (ws_dts s) (ws_ss s)) else None
        | _ => None
        end
    | WSnapUpd col d g =>
        let ss' := if N.eqb (dd_type d) k_type
                   then update_snapshot St k_init k_remote k_marshal k_unmarshal k_view (ws_db s) (ws_ss s) col d else ws_ss s in
        if db_matches (ws_db s) g && ss_matches ss' g then Some (mkWsys (ws_db s) (ws_dts s) (ss_adopt ss' g)) else None
    | WSnapUpd2 col d1 d2 g =>
        let upd ss d := if N.eqb (dd_type d) k_type
                        then update_snapshot St k_init k_remote k_marshal k_unmarshal k_view (ws_db s) ss col d else ss in
        let ss' := upd (upd (ws_ss s) d1) d2 in
        if db_matches (ws_db s) g && ss_matches ss' g then Some (mkWsys (ws_db s) (ws_dts s) (ss_adopt ss' g)) else None
    | WRound _ _ => None
    | WRest _ _ => None
    | WReset _ _ _ => None
    end.

  Definition item_matches (db : sdb) (it : str * str * ppp * ppp) : option sdb :=
    let '(col, cuid, req, resp) := it in
    match process_pushpull db col cuid [req] with
    | (db', inl [(mresp, _)]) => if ppp_eqb mresp resp then Some db' else None
    | _ => None
    end.
  Definition item_refused (it : str * str * ppp * ppp) : bool := has (p_opt (snd it)) bit_error.
  Fixpoint round_go (db : sdb) (todo pending : list (str * str * ppp * ppp)) : option sdb :=
    match todo with
    | [] => match pending with [] => Some db | _ => None end
    | it :: rest =>
        match item_matches db it with
        | Some db' =>
            (* the refused requests waiting for their place: those that the model refuses the same way now are placed *)
            round_go db' rest (filter (fun p => match item_matches db' p with Some _ => false | None => true end) pending)
        | None => if item_refused it then round_go db rest (pending ++ [it]) else None
        end
    end.

  Definition wstep (s : wsys) (e : wev) : option wsys :=
    match e with
    | WRound items g =>
        match round_go (ws_db s) items [] with
        | Some db' => match reorder_db db' g with
                      | Some db'' => Some (mkWsys db'' (ws_dts s) (mkSnapstore (g_snaps g) (g_real g)))
                      | None => None
                      end
        | None => None
        end
    | WRest newops g =>
        let db' := mkSdb (s_cols (ws_db s)) (s_colctr (ws_db s)) (s_clients (ws_db s)) (g_dts g) (s_ops (ws_db s) ++ newops) in
        if db_matches db' g then Some (mkWsys db' (ws_dts s) (ss_adopt (ws_ss s) g)) else None
    | WReset col clients g =>
        let db' := reset_collection (ws_db s) col in
        let ss' := reset_snapstore (ws_ss s) col (alookup str_eqb col (s_cols (ws_db s))) in
        if db_matches db' g && ss_matches ss' g && list_eqb (fun a b => str_eqb (fst a) (fst b) && N.eqb (snd a) (snd b)) (s_clients db') clients
        then Some (mkWsys db' (ws_dts s) (ss_adopt ss' g)) else None
    | _ => wstep0 s e
    end.

  Fixpoint wrun (s : wsys) (es : list wev) (i : nat) : option (nat * wsys) :=
    match es with
    | [] => None
    | e :: es' => match wstep s e with Some s' => wrun s' es' (Datatypes.S i) | None => Some (i, s) end
    end.
  Definition check_whist (es : list wev) : bool :=
    match wrun (mkWsys sdb_init [] snapstore_init) es 0%nat with None => true | Some _ => false end.

  (* diagnosis: index of the first mismatching event and what the model has at that point *)
  Record wdiag := mkWdiag { wd_index : nat; wd_req : option ppp; wd_resp : option ppp; wd_dts : list ddoc;
                            wd_ops : list odig; wd_pubs : list publish; wd_client : option (cp * str * val * bool); wd_ss : snapstore }.
  (* the first listed request of a round whose answer the model does not give at its place (and that is not a refusal) *)
  Fixpoint round_diag (ss : snapstore) (i : nat) (db : sdb) (todo : list (str * str * ppp * ppp)) (k : nat) : wdiag :=
    match todo with
    | [] => mkWdiag (i * 100 + 99) None None (s_dts db) (map odig_of (s_ops db)) [] None ss
    | it :: rest =>
        match item_matches db it with
        | Some db' => round_diag ss i db' rest (Datatypes.S k)
        | None => if item_refused it then round_diag ss i db rest (Datatypes.S k)
                  else match process_pushpull db (fst (fst (fst it))) (snd (fst (fst it))) [snd (fst it)] with
                       | (db', inl [(mresp, _)]) => mkWdiag (i * 100 + k) (Some (snd (fst it))) (Some mresp) (s_dts db) (map odig_of (s_ops db)) [] None ss
                       | (db', _) => mkWdiag (i * 100 + k) (Some (snd (fst it))) None (s_dts db) (map odig_of (s_ops db)) [] None ss
                       end
        end
    end.
  Definition explain_whist (es : list wev) : option wdiag :=
    match wrun (mkWsys sdb_init [] snapstore_init) es 0%nat with
    | None => None
    | Some (i, s) =>
        match nth_error es i with
        | Some (WSync di f req resp g pubs a) =>
            match nth_error (ws_dts s) di with
            | Some (col, cuid, w) =>
                let mreq := mkpack St call J k_type w in
                match process_pushpull (ws_db s) col cuid [mreq] with
                | (db', inl [(mresp, mpubs)]) =>
                    let cl := match apply_pack St call J k_init k_remote k_export w mresp with
                              | AOk _ _ _ w' ap => Some (d_cp (w_d w'), w_duid w', k_view (d_snap (w_d w')), a_state_change ap)
                              | APanic _ _ _ => None end in
                    Some (mkWdiag i (Some mreq) (Some mresp) (s_dts db') (map odig_of (s_ops db')) mpubs cl (after_pack db' (ws_ss s) col mpubs))
                | (db', _) => Some (mkWdiag i (Some mreq) None (s_dts db') (map odig_of (s_ops db')) [] None (ws_ss s))
                end
            | None => Some (mkWdiag i None None [] [] [] None (ws_ss s))
            end
        | Some (WRaw col cuid req resp g pubs) =>
            match process_pushpull (ws_db s) col cuid [req] with
            | (db', inl [(mresp, mpubs)]) => Some (mkWdiag i (Some req) (Some mresp) (s_dts db') (map odig_of (s_ops db')) mpubs None (after_pack db' (ws_ss s) col mpubs))
            | (db', _) => Some (mkWdiag i (Some req) None (s_dts db') (map odig_of (s_ops db')) [] None (ws_ss s))
            end
        | Some (WRound items g) => Some (round_diag (ws_ss s) i (ws_db s) items 0%nat)
        | _ => Some (mkWdiag i None None (s_dts (ws_db s)) (map odig_of (s_ops (ws_db s))) [] None (ws_ss s))
        end
    end.
End Check.

Arguments WCollection {call}.
Arguments WClient {call}.
Arguments WNewDt {call}.
Arguments WLocal {call}.
Arguments WTx {call}.
Arguments WSync {call}.
Arguments WRaw {call}.
Arguments WApply {call}.
Arguments WSyncRpc {call}.
Arguments WRawErr {call}.
Arguments WSnapUpd {call}.
Arguments WSnapUpd2 {call}.
Arguments WRound {call}.
Arguments WRest {call}.
Arguments WReset {call}.

Definition check_wire_counter : list (wev ccall) -> bool :=
  check_whist cstate ccall val cstate c_init c_validate c_local' c_exec_remote id_ id_ c_view (fun s => s) RVal 0 c_marshal c_unmarshal.
Definition explain_wire_counter :=
  explain_whist cstate ccall val cstate c_init c_validate c_local' c_exec_remote id_ id_ c_view (fun s => s) RVal 0 c_marshal c_unmarshal.
Definition check_wire_map : list (wev mcall) -> bool :=
  check_whist mstate mcall (option val) mstate m_init m_validate m_local' m_exec_remote id_ id_ m_view m_size m_res 1 m_marshal m_unmarshal.
Definition explain_wire_map :=
  explain_whist mstate mcall (option val) mstate m_init m_validate m_local' m_exec_remote id_ id_ m_view m_size m_res 1 m_marshal m_unmarshal.
Definition check_wire_list : list (wev lcall) -> bool :=
  check_whist lstate lcall (list val) lstate l_init l_validate l_local' l_exec_remote id_ id_ l_view l_size RVals 2 l_marshal l_unmarshal.
Definition explain_wire_list :=
  explain_whist lstate lcall (list val) lstate l_init l_validate l_local' l_exec_remote id_ id_ l_view l_size RVals 2 l_marshal l_unmarshal.
