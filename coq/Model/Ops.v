(* Operations as they travel on the wire (client/pkg/operations/*.go): identifier,
   type and the body fields that are marshalled.  Local-only fields (Pos, NumOfNodes)
   belong to the API calls of each datatype, not to the operation. *)
From Orda.Model Require Import Base Time.
Open Scope N_scope.

Inductive op :=
| OSnap (id : opid)                                   (* *_SNAPSHOT; the body (state) is handled by Snapshot.v *)
| OTx (id : opid) (tag : str) (n : Z)                 (* TRANSACTION {Tag, NumOfOps} *)
| OInc (id : opid) (delta : Z)                        (* COUNTER_INCREASE {Delta int32} *)
| OPut (id : opid) (k : str) (v : val)                (* MAP_PUT {Key, Value} *)
| ORemove (id : opid) (k : str)                       (* MAP_REMOVE {Key} *)
| OIns (id : opid) (target : ts) (vs : list val)      (* LIST_INSERT {T, V} *)
| ODel (id : opid) (targets : list ts)                (* LIST_DELETE {T} *)
| OUpd (id : opid) (targets : list ts) (vs : list val)(* LIST_UPDATE {T, V} *)
(* document operations: P = the container (object / array) addressed by its creation timestamp *)
| ODocPut (id : opid) (p : ts) (k : str) (v : val)                  (* DOC_OBJ_PUT {P, K, V} *)
| ODocRmv (id : opid) (p : ts) (k : str)                            (* DOC_OBJ_RMV {P, K} *)
| ODocIns (id : opid) (p : ts) (target : ts) (vs : list val)        (* DOC_ARR_INS {P, T, V} *)
| ODocDel (id : opid) (p : ts) (targets : list ts)                  (* DOC_ARR_DEL {P, T} *)
| ODocUpd (id : opid) (p : ts) (targets : list ts) (vs : list val). (* DOC_ARR_UPD {P, T, V} *)

Definition op_id (o : op) : opid :=
  match o with
  | OSnap i | OTx i _ _ | OInc i _ | OPut i _ _ | ORemove i _
  | OIns i _ _ | ODel i _ | OUpd i _ _
  | ODocPut i _ _ _ | ODocRmv i _ _ | ODocIns i _ _ _ | ODocDel i _ _ | ODocUpd i _ _ _ => i
  end.

Definition op_ts (o : op) : ts := opid_ts (op_id o).

Definition op_set_id (o : op) (i : opid) : op :=
  match o with
  | OSnap _ => OSnap i
  | OTx _ t n => OTx i t n
  | OInc _ d => OInc i d
  | OPut _ k v => OPut i k v
  | ORemove _ k => ORemove i k
  | OIns _ t v => OIns i t v
  | ODel _ t => ODel i t
  | OUpd _ t v => OUpd i t v
  | ODocPut _ p k v => ODocPut i p k v
  | ODocRmv _ p k => ODocRmv i p k
  | ODocIns _ p t v => ODocIns i p t v
  | ODocDel _ p t => ODocDel i p t
  | ODocUpd _ p t v => ODocUpd i p t v
  end.

Definition op_eqb (a b : op) : bool :=
  match a, b with
  | OSnap i, OSnap j => opid_eqb i j
  | OTx i t n, OTx j t' n' => opid_eqb i j && str_eqb t t' && Z.eqb n n'
  | OInc i d, OInc j d' => opid_eqb i j && Z.eqb d d'
  | OPut i k v, OPut j k' v' => opid_eqb i j && str_eqb k k' && val_eqb v v'
  | ORemove i k, ORemove j k' => opid_eqb i j && str_eqb k k'
  | OIns i t v, OIns j t' v' => opid_eqb i j && ts_eqb t t' && list_eqb val_eqb v v'
  | ODel i t, ODel j t' => opid_eqb i j && list_eqb ts_eqb t t'
  | OUpd i t v, OUpd j t' v' => opid_eqb i j && list_eqb ts_eqb t t' && list_eqb val_eqb v v'
  | ODocPut i p k v, ODocPut j p' k' v' => opid_eqb i j && ts_eqb p p' && str_eqb k k' && val_eqb v v'
  | ODocRmv i p k, ODocRmv j p' k' => opid_eqb i j && ts_eqb p p' && str_eqb k k'
  | ODocIns i p t v, ODocIns j p' t' v' => opid_eqb i j && ts_eqb p p' && ts_eqb t t' && list_eqb val_eqb v v'
  | ODocDel i p t, ODocDel j p' t' => opid_eqb i j && ts_eqb p p' && list_eqb ts_eqb t t'
  | ODocUpd i p t v, ODocUpd j p' t' v' => opid_eqb i j && ts_eqb p p' && list_eqb ts_eqb t t' && list_eqb val_eqb v v'
  | _, _ => false
  end.

Definition is_tx (o : op) : bool := match o with OTx _ _ _ => true | _ => false end.
(* a snapshot operation: executed, it REPLACES the state by its body (ApplySnapshot).  Clients create one, of the
   initial state, when a datatype is made; the server stores the creator's as the first operation of the log. *)
Definition is_snap (o : op) : bool := match o with OSnap _ => true | _ => false end.
Definition no_snap (l : list op) : Prop := Forall (fun o => is_snap o = false) l.
