(* server/snapshot/manager.go (GetLatestDatatype, UpdateSnapshot), mongodb/collection_snapshots.go,
   collection_real_collection.go: the snapshots the server stores and the user-visible document. *)
From Orda.Model Require Import Base Time Ops Snapshot Server.
Open Scope N_scope.

Record snapdoc := mkSnapdoc { sn_duid : str; sn_col : N; sn_sseq : N; sn_snap : jsnap }.   (* _id = duid:sseq *)
Record realdoc := mkRealdoc { rl_col : str; rl_key : str; rl_view : val; rl_ver : N }.     (* _id = key, _orda_ver_ *)
Record snapstore := mkSnapstore { ss_snaps : list snapdoc; ss_real : list realdoc }.
Definition snapstore_init : snapstore := mkSnapstore [] [].

(* ResetCollection on the snapshot side: the snapshots carrying the collection's number and the user collection go *)
Definition reset_snapstore (ss : snapstore) (name : str) (num : option N) : snapstore :=
  mkSnapstore (match num with Some n => filter (fun sn => negb (N.eqb (sn_col sn) n)) (ss_snaps ss) | None => ss_snaps ss end)
              (filter (fun r => negb (str_eqb (rl_col r) name)) (ss_real ss)).

Section SnapSrv.
  Variable St : Type.
  Variable k_init : St.
  Variable k_remote : St -> op -> St.
  Variable k_marshal : St -> jsnap.
  Variable k_unmarshal : jsnap -> St.
  Variable k_view : St -> val.

  (* FindOne sorted by sseq descending *)
  Definition latest_snapshot (ss : snapstore) (duid : str) (col : N) : option snapdoc :=
    fold_left (fun best sn =>
                 if str_eqb (sn_duid sn) duid && N.eqb (sn_col sn) col
                 then match best with
                      | Some b => if sn_sseq b <? sn_sseq sn then Some sn else best
                      | None => Some sn
                      end
                 else best) (ss_snaps ss) None.

  (* GetLatestDatatype: the latest snapshot plus the operations after it, up to the recorded end of the log *)
  Definition latest_datatype (db : sdb) (ss : snapstore) (d : ddoc) : St * N :=
    let '(s0, v0) := match latest_snapshot ss (dd_duid d) (dd_col d) with
                     | Some sn => (k_unmarshal (sn_snap sn), sn_sseq sn)
                     | None => (k_init, 0)
                     end in
    let ops := filter (fun o => od_sseq o <=? dd_end d) (get_ops db (dd_duid d) (v0 + 1)) in
    (fold_left k_remote (map od_op ops) s0,
     match rev ops with [] => v0 | lst :: _ => od_sseq lst end).

  Definition has_snapshot (ss : snapstore) (duid : str) (v : N) : bool :=
    existsb (fun sn => str_eqb (sn_duid sn) duid && N.eqb (sn_sseq sn) v) (ss_snaps ss).

  Fixpoint upsert_real (l : list realdoc) (r : realdoc) : list realdoc :=
    match l with
    | [] => [r]
    | x :: l' => if str_eqb (rl_col x) (rl_col r) && str_eqb (rl_key x) (rl_key r) then r :: l'
                 else x :: upsert_real l' r
    end.

  (* UpdateSnapshot: InsertSnapshot (duplicate _id = error, nothing else happens), then InsertRealSnapshot *)
  Definition update_snapshot (db : sdb) (ss : snapstore) (colname : str) (d : ddoc) : snapstore :=
    let '(st, v) := latest_datatype db ss d in
    if has_snapshot ss (dd_duid d) v then ss
    else mkSnapstore (ss_snaps ss ++ [mkSnapdoc (dd_duid d) (dd_col d) v (k_marshal st)])
                     (upsert_real (ss_real ss) (mkRealdoc colname (dd_key d) (k_view st) v)).

  (* the post-response work of a handled pack: when operations were stored, one snapshot update *)
  Definition after_pack (db' : sdb) (ss : snapstore) (colname : str) (pubs : list publish) : snapstore :=
    match pubs with
    | [] => ss
    | p :: _ => match find_dt db' (pb_duid p) with
                | Some d => update_snapshot db' ss colname d
                | None => ss
                end
    end.
End SnapSrv.
