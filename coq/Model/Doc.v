(* client/pkg/orda/document.go, json_object.go, json_array.go, json_element.go, json_primitive.go: the JSON document.
   The tree is modelled inline: a child that is replaced (put over an older child, array update) is dropped — in Go it
   stays in NodeMap/Cemetery, addressable by remote operations but never readable again, so dropping it changes no
   readable state (operations addressed to it find no parent here and are ignored, as their errors are in Go).
   A removed child stays where it is, as a tombstone (D set).  Timestamps: C at creation (immutable), D at deletion;
   getTime = D if set, else C.  Children of a nested value take consecutive delimiters of the operation's timestamp in
   creation order: the container first, then its members — object members in sorted key order. *)
From Orda.Model Require Import Base Time Ops.
Open Scope N_scope.

Inductive jt :=
| JE (c : ts) (d : option ts) (v : val)
| JO (c : ts) (d : option ts) (m : list (str * jt)) (size : Z)
| JA (c : ts) (d : option ts) (l : list (ts * jt)) (size : Z).       (* (O, child) in list order *)

Definition jc (j : jt) : ts := match j with JE c _ _ | JO c _ _ _ | JA c _ _ _ => c end.
Definition jd (j : jt) : option ts := match j with JE _ d _ | JO _ d _ _ | JA _ d _ _ => d end.
Definition jtime (j : jt) : ts := match jd j with Some d => d | None => jc j end.
Definition jtomb (j : jt) : bool := match jd j with Some _ => true | None => false end.
Definition set_d (j : jt) (d : ts) : jt :=
  match j with JE c _ v => JE c (Some d) v | JO c _ m s => JO c (Some d) m s | JA c _ l s => JA c (Some d) l s end.

Definition doc_init : jt := JO oldest_ts None [] 0.

(* ---------- createJSONType: the tree of a value; i = next delimiter; returns the tree and the next delimiter ---------- *)
Fixpoint create (t : ts) (v : val) (i : N) {struct v} : jt * N :=
  match v with
  | VArr vs =>
      let fix go (vs : list val) (i : N) : list (ts * jt) * N :=
        match vs with
        | [] => ([], i)
        | x :: xs => let '(j, i1) := create t x i in
                     let '(r, i2) := go xs i1 in ((jc j, j) :: r, i2)
        end in
      let '(l, i') := go vs (i + 1) in
      (JA (ts_at t i) None l (Z.of_nat (length l)), i')
  | VObj kvs =>
      let fix go (kvs : list (str * val)) (i : N) : list (str * jt) * N :=
        match kvs with
        | [] => ([], i)
        | (k, x) :: xs => let '(j, i1) := create t x i in
                          let '(r, i2) := go xs i1 in ((k, j) :: r, i2)
        end in
      let '(m, i') := go kvs (i + 1) in
      (JO (ts_at t i) None m (Z.of_nat (length m)), i')
  | _ => (JE (ts_at t i) None v, i + 1)
  end.
Fixpoint create_many (t : ts) (vs : list val) (i : N) : list jt * N :=
  match vs with
  | [] => ([], i)
  | v :: vs' => let '(j, i1) := create t v i in let '(r, i2) := create_many t vs' i1 in (j :: r, i2)
  end.

(* ---------- readable value ---------- *)
Fixpoint jview (j : jt) : val :=
  match j with
  | JE _ _ v => v
  | JO _ _ m _ => VObj (sort_by_key (flat_map (fun kc => match kc with (k, c) => if jtomb c then [] else [(k, jview c)] end) m))
  | JA _ _ l _ => VArr (flat_map (fun oc => match oc with (_, c) => if jtomb c then [] else [jview c] end) l)
  end.

(* every creation timestamp of the tree, parents before children, members in order *)
Fixpoint all_cs (j : jt) : list ts :=
  match j with
  | JE c _ _ => [c]
  | JO c _ m _ => c :: flat_map (fun kc => match kc with (_, x) => all_cs x end) m
  | JA c _ l _ => c :: flat_map (fun oc => match oc with (_, x) => all_cs x end) l
  end.

(* ---------- finding a container by its creation timestamp (NodeMap), anywhere in the tree ---------- *)
(* apply f to the node created at p; None: no such node (or f refuses) *)
Fixpoint on_node (j : jt) (p : ts) (f : jt -> option jt) {struct j} : option jt :=
  if ts_eqb (jc j) p then f j else
  match j with
  | JE _ _ _ => None
  | JO c d m s =>
      let fix go (m : list (str * jt)) : option (list (str * jt)) :=
        match m with
        | [] => None
        | (k, x) :: r => match on_node x p f with
                         | Some x' => Some ((k, x') :: r)
                         | None => option_map (cons (k, x)) (go r)
                         end
        end in
      option_map (fun m' => JO c d m' s) (go m)
  | JA c d l s =>
      let fix go (l : list (ts * jt)) : option (list (ts * jt)) :=
        match l with
        | [] => None
        | (o, x) :: r => match on_node x p f with
                         | Some x' => Some ((o, x') :: r)
                         | None => option_map (cons (o, x)) (go r)
                         end
        end in
      option_map (fun l' => JA c d l' s) (go l)
  end.

(* ---------- objects: putCommon / deleteCommonInObject (mapSnapshot with jsonType children) ---------- *)
Definition obj_put (j : jt) (key : str) (child : jt) : option jt :=
  match j with
  | JO c d m s =>
      match alookup str_eqb key m with
      | None => Some (JO c d (m ++ [(key, child)]) (s + 1))
      | Some old =>
          if ts_lt (jtime old) (jtime child)
          then Some (JO c d (aset str_eqb key child m) (if jtomb old then s + 1 else s)%Z)
          else Some j                                       (* the new child loses and is buried at once *)
      end
  | _ => None                                               (* findJSONObject fails: DatatypeInvalidParent *)
  end.
Definition obj_remove_local (j : jt) (key : str) (t : ts) : option jt :=
  match j with
  | JO c d m s =>
      match alookup str_eqb key m with
      | Some old => if negb (jtomb old) && ts_lt (jtime old) t
                    then Some (JO c d (aset str_eqb key (set_d old t) m) (s - 1)%Z) else None
      | None => None
      end
  | _ => None
  end.
Definition obj_remove_remote (j : jt) (key : str) (t : ts) : option jt :=
  match j with
  | JO c d m s =>
      match alookup str_eqb key m with
      | Some old => if ts_lt (jtime old) t
                    then Some (JO c d (aset str_eqb key (set_d old t) m) (if jtomb old then s else s - 1)%Z)
                    else Some j
      | None => None
      end
  | _ => None
  end.

(* ---------- arrays: listSnapshot with jsonType children ---------- *)
Definition alive (x : ts * jt) : bool := negb (jtomb (snd x)).

Fixpoint askip_gt (l : list (ts * jt)) (t : ts) : list (ts * jt) * list (ts * jt) :=
  match l with
  | x :: xs => if ts_gt (fst x) t then let '(a, b) := askip_gt xs t in (x :: a, b) else ([], l)
  | [] => ([], [])
  end.
Fixpoint ains_many (l : list (ts * jt)) (ns : list jt) : list (ts * jt) :=
  match ns with
  | [] => l
  | n :: ns' => let '(a, b) := askip_gt l (jtime n) in a ++ (jtime n, n) :: ains_many b ns'
  end.
Fixpoint ains_at (l : list (ts * jt)) (target : ts) (ns : list jt) : option (list (ts * jt)) :=
  match l with
  | [] => None
  | x :: xs => if ts_eqb (fst x) target then Some (x :: ains_many xs ns)
               else option_map (cons x) (ains_at xs target ns)
  end.
Fixpoint ains_local (l : list (ts * jt)) (pos : nat) (ns : list (ts * jt)) : option (list (ts * jt) * ts) :=
  match pos with
  | O => Some (ns ++ l, oldest_ts)
  | S p =>
      match l with
      | [] => None
      | x :: xs =>
          if alive x then
            match p with
            | O => Some (x :: ns ++ xs, fst x)
            | _ => match ains_local xs p ns with Some (l', t) => Some (x :: l', t) | None => None end
            end
          else match ains_local xs pos ns with Some (l', t) => Some (x :: l', t) | None => None end
      end
  end.

Definition valid_range (size pos num : Z) : bool :=
  (0 <=? pos)%Z && (1 <=? num)%Z && (pos <=? size - 1)%Z && (pos + num <=? size)%Z.

(* deleteLocal: the num live nodes from live index pos become tombstones at t.0, t.1, ... *)
Fixpoint adel_local (l : list (ts * jt)) (pos num : nat) (t : ts) (i : N) : option (list (ts * jt) * list ts) :=
  match num with
  | O => Some (l, [])
  | S num' =>
      match l with
      | [] => None
      | x :: xs =>
          if alive x then
            match pos with
            | O => match adel_local xs O num' t (i + 1) with
                   | Some (l', tg) => Some ((fst x, set_d (snd x) (ts_at t i)) :: l', fst x :: tg) | None => None end
            | S pos' => match adel_local xs pos' num t i with
                        | Some (l', tg) => Some (x :: l', tg) | None => None end
            end
          else match adel_local xs pos num t i with Some (l', tg) => Some (x :: l', tg) | None => None end
      end
  end.
(* updateLocal: the live nodes from live index pos get freshly created children *)
Fixpoint aupd_local (l : list (ts * jt)) (pos : nat) (vs : list val) (t : ts) (i : N) : option (list (ts * jt) * list ts) :=
  match vs with
  | [] => Some (l, [])
  | v :: vs' =>
      match l with
      | [] => None
      | x :: xs =>
          if alive x then
            match pos with
            | O => let '(n, i1) := create t v i in
                   match aupd_local xs O vs' t i1 with
                   | Some (l', tg) => Some ((fst x, n) :: l', fst x :: tg) | None => None end
            | S pos' => match aupd_local xs pos' vs t i with
                        | Some (l', tg) => Some (x :: l', tg) | None => None end
            end
          else match aupd_local xs pos vs t i with Some (l', tg) => Some (x :: l', tg) | None => None end
      end
  end.

Fixpoint aupd_node (l : list (ts * jt)) (target : ts) (f : jt -> jt) : list (ts * jt) :=
  match l with
  | [] => []
  | x :: xs => if ts_eqb (fst x) target then (fst x, f (snd x)) :: xs else x :: aupd_node xs target f
  end.
Definition afind (l : list (ts * jt)) (target : ts) : option jt :=
  option_map snd (find (fun x => ts_eqb (fst x) target) l).

(* deleteRemote: live -> tombstone at t.i; a tombstone keeps the greater delete time *)
Fixpoint adel_remote (l : list (ts * jt)) (sz : Z) (targets : list ts) (t : ts) (i : N) : list (ts * jt) * Z :=
  match targets with
  | [] => (l, sz)
  | tg :: tgs =>
      let this := ts_at t i in
      match afind l tg with
      | Some x =>
          if negb (jtomb x) then adel_remote (aupd_node l tg (fun x => set_d x this)) (sz - 1) tgs t (i + 1)
          else if ts_lt (jtime x) this then adel_remote (aupd_node l tg (fun x => set_d x this)) sz tgs t (i + 1)
          else adel_remote l sz tgs t (i + 1)
      | None => adel_remote l sz tgs t (i + 1)
      end
  end.
(* updateRemote: every value is created (its delimiters are consumed) whether or not its target is found or wins *)
Fixpoint aupd_remote (l : list (ts * jt)) (targets : list ts) (vs : list val) (t : ts) (i : N) : list (ts * jt) :=
  match targets, vs with
  | tg :: tgs, v :: vs' =>
      let '(n, i1) := create t v i in
      match afind l tg with
      | Some x => if negb (jtomb x) && ts_lt (jtime x) (jc n)
                  then aupd_remote (aupd_node l tg (fun _ => n)) tgs vs' t i1
                  else aupd_remote l tgs vs' t i1
      | None => aupd_remote l tgs vs' t i1
      end
  | _, _ => l
  end.

(* ---------- operations ---------- *)
Definition doc_remote (s : jt) (o : op) : jt :=
  let ign (r : option jt) := match r with Some s' => s' | None => s end in
  match o with
  | ODocPut i p k v => let '(child, _) := create (opid_ts i) v 0 in ign (on_node s p (fun j => obj_put j k child))
  | ODocRmv i p k => ign (on_node s p (fun j => obj_remove_remote j k (opid_ts i)))
  | ODocIns i p target vs =>
      let '(ns, _) := create_many (opid_ts i) vs 0 in
      ign (on_node s p (fun j => match j with
                                 | JA c d l sz =>
                                     match (if ts_eqb target oldest_ts then Some (ains_many l ns) else ains_at l target ns) with
                                     | Some l' => Some (JA c d l' (sz + Z.of_nat (length ns)))
                                     | None => None
                                     end
                                 | _ => None end))
  | ODocDel i p targets =>
      ign (on_node s p (fun j => match j with
                                 | JA c d l sz => let '(l', sz') := adel_remote l sz targets (opid_ts i) 0 in Some (JA c d l' sz')
                                 | _ => None end))
  | ODocUpd i p targets vs =>
      ign (on_node s p (fun j => match j with
                                 | JA c d l sz => Some (JA c d (aupd_remote l targets vs (opid_ts i) 0) sz)
                                 | _ => None end))
  | OSnap _ => doc_init
  | _ => s
  end.

(* ---------- the local API: a container is reached by a path from the root ---------- *)
Inductive pseg := PKey (k : str) | PIdx (i : Z).
Inductive dcall :=
| DPut (path : list pseg) (k : str) (v : val)
| DRmv (path : list pseg) (k : str)
| DIns (path : list pseg) (pos : Z) (vs : list val)
| DDel (path : list pseg) (pos num : Z)
| DUpd (path : list pseg) (pos : Z) (vs : list val).

Fixpoint nth_live (l : list (ts * jt)) (n : nat) : option jt :=
  match l with
  | [] => None
  | x :: xs => if alive x then match n with O => Some (snd x) | S n' => nth_live xs n' end else nth_live xs n
  end.
(* GetFromObject / GetFromArray along the path: a missing or deleted child ends the walk *)
Fixpoint resolve (j : jt) (path : list pseg) : option jt :=
  match path with
  | [] => Some j
  | PKey k :: rest =>
      match j with
      | JO _ _ m _ => match alookup str_eqb k m with
                      | Some c => if jtomb c then None else resolve c rest
                      | None => None
                      end
      | _ => None
      end
  | PIdx i :: rest =>
      match j with
      | JA _ _ l sz => if (0 <=? i)%Z && (i <? sz)%Z
                       then match nth_live l (Z.to_nat i) with Some c => resolve c rest | None => None end
                       else None
      | _ => None
      end
  end.

Definition call_path (c : dcall) : list pseg :=
  match c with DPut p _ _ | DRmv p _ | DIns p _ _ | DDel p _ _ | DUpd p _ _ => p end.

(* what the API checks before issuing the operation *)
Definition doc_validate (s : jt) (c : dcall) : bool :=
  match resolve s (call_path c) with
  | None => false
  | Some j =>
      match c, j with
      | DPut _ _ _, JO _ _ _ _ => true
      | DRmv _ k, JO _ _ m _ => match alookup str_eqb k m with Some x => negb (jtomb x) | None => false end
      | DIns _ pos _, JA _ _ _ sz => (0 <=? pos)%Z && (pos <=? sz)%Z
      | DDel _ pos num, JA _ _ _ sz => valid_range sz pos num
      | DUpd _ pos vs, JA _ _ _ sz => valid_range sz pos (Z.of_nat (length vs))
      | _, _ => false
      end
  end.

(* ExecuteLocal: the new tree and the operation that is sent *)
Definition doc_local (s : jt) (c : dcall) (i : opid) : option (jt * op) :=
  let t := opid_ts i in
  match resolve s (call_path c) with
  | None => None
  | Some j =>
      let p := jc j in
      match c with
      | DPut _ k v =>
          let '(child, _) := create t v 0 in
          option_map (fun s' => (s', ODocPut i p k v)) (on_node s p (fun j => obj_put j k child))
      | DRmv _ k => option_map (fun s' => (s', ODocRmv i p k)) (on_node s p (fun j => obj_remove_local j k t))
      | DIns _ pos vs =>
          match j with
          | JA _ _ l _ =>
              let '(ns, _) := create_many t vs 0 in
              match ains_local l (Z.to_nat pos) (map (fun n => (jtime n, n)) ns) with
              | Some (l', target) =>
                  option_map (fun s' => (s', ODocIns i p target vs))
                             (on_node s p (fun j => match j with JA c d _ sz => Some (JA c d l' (sz + Z.of_nat (length ns))) | _ => None end))
              | None => None
              end
          | _ => None
          end
      | DDel _ pos num =>
          match j with
          | JA _ _ l _ =>
              match adel_local l (Z.to_nat pos) (Z.to_nat num) t 0 with
              | Some (l', targets) =>
                  option_map (fun s' => (s', ODocDel i p targets))
                             (on_node s p (fun j => match j with JA c d _ sz => Some (JA c d l' (sz - num)%Z) | _ => None end))
              | None => None
              end
          | _ => None
          end
      | DUpd _ pos vs =>
          match j with
          | JA _ _ l _ =>
              match aupd_local l (Z.to_nat pos) vs t 0 with
              | Some (l', targets) =>
                  option_map (fun s' => (s', ODocUpd i p targets vs))
                             (on_node s p (fun j => match j with JA c d _ sz => Some (JA c d l' sz) | _ => None end))
              | None => None
              end
          | _ => None
          end
      end
  end.

(* ---------- patchEach: one JSON-patch operation resolved on the live tree ---------- *)
Inductive ptype := PAdd | PRemove | PReplace.
Record patch := mkPatch { pt_type : ptype; pt_path : str; pt_val : val }.     (* the pointer as jsondiff renders it *)

(* strings.Split(path, "/") *)
Fixpoint split_slash (s : str) (cur : str) : list str :=
  match s with
  | [] => [rev cur]
  | c :: r => if N.eqb c 47 then rev cur :: split_slash r [] else split_slash r (c :: cur)
  end.
(* RFC 6901: "~1" -> "/", "~0" -> "~", scanning left to right *)
Fixpoint unescape (s : str) : str :=
  match s with
  | [] => []
  | c :: r =>
      if N.eqb c 126 then
        match r with
        | c2 :: r2 => if N.eqb c2 49 then 47 :: unescape r2
                      else if N.eqb c2 48 then 126 :: unescape r2
                      else c :: unescape r
        | [] => [c]
        end
      else c :: unescape r
  end.
(* strconv.Atoi on a decimal token (no sign): None when not a number *)
Fixpoint atoi_go (s : str) (acc : Z) : option Z :=
  match s with
  | [] => Some acc
  | c :: r => if (48 <=? c) && (c <=? 57) then atoi_go r (acc * 10 + Z.of_N (c - 48))%Z else None
  end.
Definition atoi (s : str) : option Z := match s with [] => None | _ => atoi_go s 0%Z end.

(* getTargetByPaths: the container named by the tokens, as a path of the local API *)
Fixpoint tokens_path (j : jt) (toks : list str) : option (list pseg * jt) :=
  match toks with
  | [] => Some ([], j)
  | t :: rest =>
      match j with
      | JO _ _ m _ =>
          match alookup str_eqb t m with
          | Some c => if jtomb c then None
                      else match tokens_path c rest with Some (p, x) => Some (PKey t :: p, x) | None => None end
          | None => None
          end
      | JA _ _ l sz =>
          match atoi t with
          | Some i => if (0 <=? i)%Z && (i <? sz)%Z
                      then match nth_live l (Z.to_nat i) with
                           | Some c => match tokens_path c rest with Some (p, x) => Some (PIdx i :: p, x) | None => None end
                           | None => None
                           end
                      else None
          | None => None
          end
      | JE _ _ _ => None
      end
  end.

Definition patch_call (s : jt) (p : patch) : option dcall :=
  match map unescape (split_slash (pt_path p) []) with
  | _ :: toks =>                                     (* the text before the first "/" is dropped *)
      match rev toks with
      | key :: rparent =>
          match tokens_path s (rev rparent) with
          | Some (path, JO _ _ _ _) =>
              match pt_type p with
              | PAdd | PReplace => Some (DPut path key (pt_val p))
              | PRemove => Some (DRmv path key)
              end
          | Some (path, JA _ _ _ sz) =>
              match pt_type p with
              | PAdd => if str_eqb key [45] then Some (DIns path sz [pt_val p])
                        else option_map (fun i => DIns path i [pt_val p]) (atoi key)
              | PRemove => option_map (fun i => DDel path i 1%Z) (atoi key)
              | PReplace => option_map (fun i => DUpd path i [pt_val p]) (atoi key)
              end
          | _ => None
          end
      | [] => None
      end
  | [] => None
  end.

(* the calls a user (or Patch) can make: a call of the API, or one patch operation *)
Inductive ucall := UCall (c : dcall) | UPatch (p : patch).
Definition u_validate (s : jt) (u : ucall) : bool :=
  match u with
  | UCall c => doc_validate s c
  | UPatch p => match patch_call s p with Some c => doc_validate s c | None => false end
  end.
Definition u_local (s : jt) (u : ucall) (i : opid) : option (jt * op) :=
  match u with
  | UCall c => doc_local s c i
  | UPatch p => match patch_call s p with Some c => doc_local s c i | None => None end
  end.
