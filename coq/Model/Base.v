(* Base definitions shared by all model files: byte strings, JSON values,
   association lists with Go-map semantics (first match wins; insertion replaces). *)
From Coq Require Export List NArith ZArith Bool.
From Coq Require Import DecimalN Decimal.
Export ListNotations.
Open Scope N_scope.

(* ---------- byte strings ---------- *)
Definition str := list N.

Fixpoint str_eqb (a b : str) : bool :=
  match a, b with
  | [], [] => true
  | x :: a', y :: b' => N.eqb x y && str_eqb a' b'
  | _, _ => false
  end.

(* Go strings.Compare: byte-wise lexicographic *)
Fixpoint str_cmp (a b : str) : comparison :=
  match a, b with
  | [], [] => Eq
  | [], _ :: _ => Lt
  | _ :: _, [] => Gt
  | x :: a', y :: b' =>
      match N.compare x y with
      | Eq => str_cmp a' b'
      | c => c
      end
  end.

(* ---------- decimal rendering (fmt %d of an unsigned integer) ---------- *)
Fixpoint uint_bytes (u : Decimal.uint) : str :=
  match u with
  | Decimal.Nil => []
  | Decimal.D0 u => 48 :: uint_bytes u
  | Decimal.D1 u => 49 :: uint_bytes u
  | Decimal.D2 u => 50 :: uint_bytes u
  | Decimal.D3 u => 51 :: uint_bytes u
  | Decimal.D4 u => 52 :: uint_bytes u
  | Decimal.D5 u => 53 :: uint_bytes u
  | Decimal.D6 u => 54 :: uint_bytes u
  | Decimal.D7 u => 55 :: uint_bytes u
  | Decimal.D8 u => 56 :: uint_bytes u
  | Decimal.D9 u => 57 :: uint_bytes u
  end.

Definition digits (n : N) : str := uint_bytes (N.to_uint n).

(* ---------- JSON values as orda stores them ---------- *)
(* Numbers: orda converts every Go numeric to float64; the model keeps the
   integer it was built from (the harness only generates integers whose float64
   image is exact, |z| < 2^53). *)
Inductive val :=
| VNum (z : Z)
| VStr (s : str)
| VBool (b : bool)
| VArr (l : list val)
| VObj (l : list (str * val)).

Fixpoint val_eqb (a b : val) {struct a} : bool :=
  match a, b with
  | VNum x, VNum y => Z.eqb x y
  | VStr x, VStr y => str_eqb x y
  | VBool x, VBool y => Bool.eqb x y
  | VArr x, VArr y =>
      (fix go (x y : list val) : bool :=
         match x, y with
         | [], [] => true
         | u :: x', v :: y' => val_eqb u v && go x' y'
         | _, _ => false
         end) x y
  | VObj x, VObj y =>
      (fix go (x y : list (str * val)) : bool :=
         match x, y with
         | [], [] => true
         | (k, u) :: x', (k', v) :: y' => str_eqb k k' && val_eqb u v && go x' y'
         | _, _ => false
         end) x y
  | _, _ => false
  end.

(* ---------- generic helpers ---------- *)
Fixpoint list_eqb {A} (eqb : A -> A -> bool) (a b : list A) : bool :=
  match a, b with
  | [], [] => true
  | x :: a', y :: b' => eqb x y && list_eqb eqb a' b'
  | _, _ => false
  end.

Definition opt_eqb {A} (eqb : A -> A -> bool) (a b : option A) : bool :=
  match a, b with
  | None, None => true
  | Some x, Some y => eqb x y
  | _, _ => false
  end.

(* association list as a Go map: lookup = first match; set replaces in place
   or appends.  Iteration order is never observed by model functions. *)
Section Assoc.
  Context {K V : Type} (keqb : K -> K -> bool).
  Fixpoint alookup (k : K) (m : list (K * V)) : option V :=
    match m with
    | [] => None
    | (k', v) :: m' => if keqb k k' then Some v else alookup k m'
    end.
  Fixpoint aset (k : K) (v : V) (m : list (K * V)) : list (K * V) :=
    match m with
    | [] => [(k, v)]
    | (k', v') :: m' => if keqb k k' then (k, v) :: m' else (k', v') :: aset k v m'
    end.
  Fixpoint adel (k : K) (m : list (K * V)) : list (K * V) :=
    match m with
    | [] => []
    | (k', v') :: m' => if keqb k k' then m' else (k', v') :: adel k m'
    end.
End Assoc.

(* insertion sort of (key,value) pairs by key — used only to canonicalise views *)
Fixpoint ins_sorted {V} (k : str) (v : V) (l : list (str * V)) : list (str * V) :=
  match l with
  | [] => [(k, v)]
  | (k', v') :: l' =>
      match str_cmp k k' with
      | Gt => (k', v') :: ins_sorted k v l'
      | _ => (k, v) :: (k', v') :: l'
      end
  end.
Definition sort_by_key {V} (l : list (str * V)) : list (str * V) :=
  fold_right (fun kv acc => ins_sorted (fst kv) (snd kv) acc) [] l.

(* 32-bit two's complement wrap (Go int32 arithmetic) *)
Definition wrap32 (z : Z) : Z :=
  let m := (z mod 4294967296)%Z in
  if (m <? 2147483648)%Z then m else (m - 4294967296)%Z.
Definition wrap64 (z : Z) : Z :=
  let m := (z mod 18446744073709551616)%Z in
  if (m <? 9223372036854775808)%Z then m else (m - 18446744073709551616)%Z.

(* ---------- correspondence support: indices of the cases whose check fails ---------- *)
Fixpoint mismatches_from {A} (chk : A -> bool) (i : nat) (l : list A) : list nat :=
  match l with
  | [] => []
  | c :: l' => if chk c then mismatches_from chk (S i) l' else i :: mismatches_from chk (S i) l'
  end.
Definition mismatches {A} (chk : A -> bool) (l : list A) : list nat := mismatches_from chk 0%nat l.
