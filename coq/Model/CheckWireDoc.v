(* The Document instance of the wire checker (Model/CheckWire.v).  The marshalled form of a Document snapshot is not
   modelled: the stored snapshots of Document worlds are not compared here (the harness marks its digests accordingly). *)
From Orda.Model Require Import Base Time Ops Counter Map List Snapshot Datatype Replicas CheckCrdt Doc CheckDoc Server SnapSrv Wire Net CheckWire.

Definition check_wire_doc : list (wev ucall) -> bool :=
  check_whist jt ucall unit jt doc_init u_validate d_local' doc_remote id_ id_ jview (fun _ => 0%Z) (fun _ => RNil) 3 (fun _ => JCounter 0) (fun _ => doc_init).
Definition explain_wire_doc :=
  explain_whist jt ucall unit jt doc_init u_validate d_local' doc_remote id_ id_ jview (fun _ => 0%Z) (fun _ => RNil) 3 (fun _ => JCounter 0) (fun _ => doc_init).
