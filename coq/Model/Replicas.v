(* N replicas of one datatype exchanging operations through one total log —
   the executable system the correspondence harness drives and the theorems
   of C01/C02/C04/C09/C15 quantify over. *)
From Orda.Model Require Import Base Time Ops Datatype.
Open Scope N_scope.

Section Replicas.
  Variable St call ret J : Type.
  Variable k_init : St.
  Variable k_validate : St -> call -> bool.
  Variable k_local : St -> call -> opid -> lres St ret.
  Variable k_remote : St -> op -> St.
  Variable k_export : St -> J.
  Variable k_import : J -> St.

  Notation dty := (@dt St call J).
  Notation local_call := (local_call St call ret J k_validate k_local).
  Notation transaction := (transaction St call ret J k_validate k_local k_remote k_export k_import).
  Notation receive_ops := (receive_ops St call J k_remote).
  Notation pending := (@pending St call J).

  Record rep := mkRep { r_dt : dty; r_cur : nat }.          (* cursor into the log *)
  Record sys := mkSys { s_reps : list rep; s_log : list op }.

  (* replica 0 creates the datatype; the others subscribe at log position 1
     (after the creator's snapshot operation) with the initial state *)
  Definition mk_reps (cuids : list str) : list rep :=
    match cuids with
    | [] => []
    | c :: cs => mkRep (dt_create St call J k_init k_export c) 0
                 :: map (fun c' => mkRep (dt_subscribed St call J k_init k_export k_import c' (k_export k_init) 0 1) 1) cs
    end.
  Definition sys_init (cuids : list str) : sys := mkSys (mk_reps cuids) [].

  Definition set_rep (s : sys) (r : nat) (x : rep) : sys :=
    mkSys (firstn r (s_reps s) ++ x :: skipn (Datatypes.S r) (s_reps s)) (s_log s).
  Definition get_rep (s : sys) (r : nat) : option rep := nth_error (s_reps s) r.

  Definition author_is (c : str) (o : op) : bool := str_eqb (o_cuid (op_id o)) c.

  (* push: append the pending operations to the log, acknowledge them *)
  Definition sys_push (s : sys) (r : nat) : option (sys * list op) :=
    match get_rep s r with
    | None => None
    | Some x =>
        let ops := pending (r_dt x) in
        let c := d_cp (r_dt x) in
        let d' := set_checkpoint St call J (r_dt x) (mkCp (sseq c) (cseq c + N.of_nat (length ops))) in
        Some (mkSys (s_reps (set_rep s r (mkRep d' (r_cur x)))) (s_log s ++ ops), ops)
    end.

  (* deliver the next n log entries to replica r; its own operations are skipped *)
  Definition sys_deliver (s : sys) (r : nat) (n : nat) : option (sys * rres St call J) :=
    match get_rep s r with
    | None => None
    | Some x =>
        let chunk := firstn n (skipn (r_cur x) (s_log s)) in
        let me := o_cuid (d_oid (r_dt x)) in
        let foreign := filter (fun o => negb (author_is me o)) chunk in
        let res := receive_ops (r_dt x) foreign in
        match res with
        | ROk _ _ _ d' | RError _ _ _ d' => Some (set_rep s r (mkRep d' (r_cur x + length chunk)), res)
        | _ => Some (s, res)
        end
    end.
End Replicas.

Arguments mkRep {St call J}.
Arguments r_dt {St call J}.
Arguments r_cur {St call J}.
Arguments mkSys {St call J}.
Arguments s_reps {St call J}.
Arguments s_log {St call J}.
