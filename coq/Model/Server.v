(* server/service/service_pushpull_datatype.go (PushPullHandler), service_pushpull_client.go,
   service_client.go, service_collections.go, mongodb/collection_*.go — the sync server over an
   abstract document store.  Only persistent clients are modelled (volatile clients: not modelled). *)
From Orda.Model Require Import Base Time Ops.
Open Scope N_scope.

(* ---------- option bits of a push-pull pack ---------- *)
Definition bit_create : N := 1.
Definition bit_subscribe : N := 2.
Definition bit_snapshot : N := 16.
Definition bit_error : N := 32.
Definition bit_readonly : N := 64.
Definition has (opt b : N) : bool := negb (N.land opt b =? 0).

(* ---------- error codes (client/pkg/errors/errorcode.go) ---------- *)
Definition err_abort_server : N := 300.
Definition err_abort_client : N := 301.
Definition err_duplicate_key : N := 302.
Definition err_missing_ops : N := 303.
Definition err_no_datatype : N := 304.

(* ---------- messages ---------- *)
Record ppp := mkPpp {
  p_key : str; p_duid : str; p_opt : N; p_cp : cp; p_type : N; p_ops : list op;
  p_err : option N                       (* code of the ErrorOperation appended to an error response *)
}.

(* ---------- documents ---------- *)
Record ddoc := mkDdoc {
  dd_duid : str; dd_key : str; dd_col : N; dd_type : N; dd_end : N;
  dd_rw : list (str * cp); dd_ro : list (str * cp)
}.
Record odoc := mkOdoc { od_duid : str; od_col : N; od_sseq : N; od_op : op }.   (* _id = duid:sseq *)
Record publish := mkPub { pb_col : str; pb_key : str; pb_cuid : str; pb_duid : str; pb_sseq : N }.

Record sdb := mkSdb {
  s_cols : list (str * N);               (* -_-Collections: name -> number *)
  s_colctr : N;                          (* -_-ColNumGenerator *)
  s_clients : list (str * N);            (* -_-Clients: cuid -> collection number *)
  s_dts : list ddoc;                     (* -_-Datatypes, insertion order *)
  s_ops : list odoc                      (* -_-Operations, insertion order *)
}.
Definition sdb_init : sdb := mkSdb [] 0 [] [] [].

(* ---------- store commands ---------- *)
Definition find_dt_by_key (db : sdb) (col : N) (key : str) : option ddoc :=
  find (fun d => N.eqb (dd_col d) col && str_eqb (dd_key d) key) (s_dts db).
Definition find_dt (db : sdb) (duid : str) : option ddoc :=
  find (fun d => str_eqb (dd_duid d) duid) (s_dts db).

(* insertion sort by sseq (stable) — Find with sort {sseq: 1} *)
Fixpoint ins_by_sseq (o : odoc) (l : list odoc) : list odoc :=
  match l with
  | [] => [o]
  | x :: l' => if od_sseq o <? od_sseq x then o :: x :: l' else x :: ins_by_sseq o l'
  end.
Definition get_ops (db : sdb) (duid : str) (from : N) : list odoc :=
  fold_left (fun acc o => ins_by_sseq o acc)
            (filter (fun o => str_eqb (od_duid o) duid && (from <=? od_sseq o)) (s_ops db)) [].

Definition has_opdoc (l : list odoc) (duid : str) (sseq : N) : bool :=
  existsb (fun o => str_eqb (od_duid o) duid && N.eqb (od_sseq o) sseq) l.
(* ordered InsertMany: stops at the first duplicate _id, keeping what was inserted before it *)
Fixpoint insert_ops (stored : list odoc) (new : list odoc) : list odoc * bool :=
  match new with
  | [] => (stored, true)
  | o :: new' => if has_opdoc stored (od_duid o) (od_sseq o) then (stored, false)
                 else insert_ops (stored ++ [o]) new'
  end.
(* UpdateOne with upsert on _id *)
Fixpoint upsert_dt (l : list ddoc) (d : ddoc) : list ddoc :=
  match l with
  | [] => [d]
  | x :: l' => if str_eqb (dd_duid x) (dd_duid d) then d :: l' else x :: upsert_dt l' d
  end.

(* ---------- the push-pull handler ---------- *)
Inductive ppcase := MatchNothing | UsedDUID | KeyNotType | Subscribed | NotSubscribed.

Definition clients_of (d : ddoc) (ro : bool) : list (str * cp) := if ro then dd_ro d else dd_rw d.
Definition set_client (d : ddoc) (ro : bool) (cuid : str) (c : cp) : ddoc :=
  if ro then mkDdoc (dd_duid d) (dd_key d) (dd_col d) (dd_type d) (dd_end d) (dd_rw d) (aset str_eqb cuid c (dd_ro d))
  else mkDdoc (dd_duid d) (dd_key d) (dd_col d) (dd_type d) (dd_end d) (aset str_eqb cuid c (dd_rw d)) (dd_ro d).
Definition set_end (d : ddoc) (e : N) : ddoc :=
  mkDdoc (dd_duid d) (dd_key d) (dd_col d) (dd_type d) e (dd_rw d) (dd_ro d).

Definition evaluate (db : sdb) (col : N) (cuid : str) (ro : bool) (req : ppp) : ppcase * option ddoc :=
  let by_key := if has (p_opt req) bit_create || has (p_opt req) bit_subscribe
                then find_dt_by_key db col (p_key req) else None in
  match by_key with
  | None => match find_dt db (p_duid req) with
            | None => (MatchNothing, None)
            | Some d => (UsedDUID, Some d)
            end
  | Some d =>
      if N.eqb (dd_type d) (p_type req)
      then match alookup str_eqb cuid (clients_of d ro) with
           | Some _ => (Subscribed, Some d)
           | None => (NotSubscribed, Some d)
           end
      else (KeyNotType, Some d)
  end.

Inductive action := ACreate | ASubscribe | ANormal | ARefuse (code : N).

(* processSubscribeOrCreate (with the repairs of the fix: commits) *)
Definition decide (col : N) (req : ppp) (c : ppcase) (d : option ddoc) : action :=
  let cr := has (p_opt req) bit_create in
  let sb := has (p_opt req) bit_subscribe in
  let normal := match d with
                | None => ARefuse err_no_datatype
                | Some d => if N.eqb (dd_col d) col then ANormal else ARefuse err_no_datatype
                end in
  if sb && cr then
    match c with
    | MatchNothing => ACreate
    | UsedDUID | KeyNotType => ARefuse err_duplicate_key
    | NotSubscribed => ASubscribe
    | Subscribed => match d with
                    | Some d => if str_eqb (p_duid req) (dd_duid d) then normal else ASubscribe
                    | None => normal
                    end
    end
  else if sb then
    match c with
    | MatchNothing | UsedDUID | KeyNotType => ARefuse err_no_datatype
    | Subscribed | NotSubscribed => ASubscribe
    end
  else if cr then
    match c with
    | MatchNothing => ACreate
    | UsedDUID | KeyNotType => ARefuse err_duplicate_key
    | Subscribed => match d with
                    | Some d => if str_eqb (p_duid req) (dd_duid d) then normal else ARefuse err_duplicate_key
                    | None => normal
                    end
    | NotSubscribed => ARefuse err_duplicate_key
    end
  else normal.

(* pushOperations: accepted operation documents, new checkpoint, or MissingOps *)
Fixpoint push_ops (duid : str) (col : N) (c : cp) (ops : list op) (acc : list odoc) : option (cp * list odoc) :=
  match ops with
  | [] => Some (c, acc)
  | o :: ops' =>
      let seq := o_seq (op_id o) in
      if N.eqb (cseq c + 1) seq
      then push_ops duid col (mkCp (sseq c + 1) (N.max (cseq c) seq)) ops'
                    (acc ++ [mkOdoc duid col (sseq c + 1) o])
      else if seq <=? cseq c then push_ops duid col c ops' acc          (* duplicate: rejected silently *)
      else None
  end.

Definition error_resp (req : ppp) (code : N) : ppp :=
  mkPpp (p_key req) (p_duid req) bit_error (p_cp req) (p_type req) [] (Some code).

(* Where a storage command of the handler fails (C08).  Reads: the lookups of evaluatePushPullCase and
   the GetOperations of the pull.  Writes of the commit, in order: remove leftovers beyond the end of
   the log, insert the operation documents, update the datatype document. *)
Inductive fpoint := FailRead | FailPull | FailPurge | FailInsert | FailUpdate.

Definition purge_after (l : list odoc) (duid : str) (e : N) : list odoc :=
  filter (fun o => negb (str_eqb (od_duid o) duid && (e <? od_sseq o))) l.

(* pushOperations, pullOperations, commitToMongoDB and finalize, once the datatype document d0,
   the DUID under which operations are stored/pulled, the operations to push and the option of the
   response are settled.  f = the command that fails, if any. *)
Definition finish_pack_f (f : option fpoint) (db : sdb) (colname : str) (col : N) (cuid : str) (req : ppp) (ro : bool)
           (d0 : ddoc) (duid : str) (ops : list op) (opt : N) (err_duid : str) : sdb * ppp * list publish :=
  let cp0 := match alookup str_eqb cuid (clients_of d0 ro) with Some c => c | None => mkCp 0 0 end in
  (* an error after createDatatype / subscribeDatatype keeps the option bit and DUID they set *)
  let err_after code := mkPpp (p_key req) err_duid (N.lor opt bit_error) (p_cp req) (p_type req) [] (Some code) in
  (* pushOperations *)
  let pushed := if ro then Some (mkCp (dd_end d0) (cseq cp0), []) else push_ops duid col (mkCp (dd_end d0) (cseq cp0)) ops [] in
  match pushed with
  | None => (db, err_after err_missing_ops, [])
  | Some (cp1, newdocs) =>
      (* pullOperations: documents beyond the recorded end of the log are never handed out *)
      let snapbit := has (p_opt req) bit_snapshot in
      match f, snapbit with
      | Some FailPull, false => (db, err_after err_abort_server, [])
      | _, _ =>
      let pulled := if snapbit then []
                    else filter (fun o => od_sseq o <=? dd_end d0) (get_ops db duid (sseq (p_cp req) + 1)) in
      let cp2 := match rev pulled with
                 | [] => cp1
                 | last :: _ => mkCp (od_sseq last + N.of_nat (length newdocs)) (cseq cp1)
                 end in
      (* commitToMongoDB: [DeleteMany(leftovers), InsertMany(operations)] when pushing, then UpdateOne(datatype);
         the response checkpoint is set before the writes, so an error of the commit carries it *)
      let err_commit code := mkPpp (p_key req) err_duid (N.lor opt bit_error) cp2 (p_type req) (map od_op pulled) (Some code) in
      let pushing := match newdocs with [] => false | _ => true end in
      match f, pushing with
      | Some FailPurge, true => (db, err_commit err_abort_server, [])
      | _, _ =>
      let purged := if pushing then purge_after (s_ops db) duid (dd_end d0) else s_ops db in
      match f, pushing with
      | Some FailInsert, true =>
          (mkSdb (s_cols db) (s_colctr db) (s_clients db) (s_dts db) purged, err_commit err_abort_server, [])
      | _, _ =>
      let '(stored, ok) := insert_ops purged newdocs in
      if ok then
        match f with
        | Some FailUpdate =>
            (mkSdb (s_cols db) (s_colctr db) (s_clients db) (s_dts db) stored, err_commit err_abort_server, [])
        | _ =>
        let d1 := set_end (set_client d0 ro cuid cp2) (sseq cp2) in
        let db' := mkSdb (s_cols db) (s_colctr db) (s_clients db) (upsert_dt (s_dts db) d1) stored in
        let resp := mkPpp (p_key req) duid opt cp2 (p_type req) (map od_op pulled) None in
        let pubs := match newdocs with
                    | [] => []
                    | _ => [mkPub colname (dd_key d1) cuid (dd_duid d1) (sseq cp2)]
                    end in
        (db', resp, pubs)
        end
      else
        (mkSdb (s_cols db) (s_colctr db) (s_clients db) (s_dts db) stored, err_commit err_abort_server, [])
      end end end
  end.
Definition finish_pack := finish_pack_f None.

(* one pack of one client; result: new store, response, publishes *)
Definition handle_pack_f (f : option fpoint) (db : sdb) (colname : str) (col : N) (cuid : str) (req : ppp)
  : sdb * ppp * list publish :=
  let ro := has (p_opt req) bit_readonly in
  if ro && (has (p_opt req) bit_create || negb (match p_ops req with [] => true | _ => false end))
  then (db, error_resp req err_abort_client, [])
  else
    match f with
    | Some FailRead => (db, error_resp req err_abort_server, [])    (* a lookup of evaluatePushPullCase failed *)
    | _ =>
    let '(c, d) := evaluate db col cuid ro req in
    match decide col req c d, d with
    | ARefuse code, _ => (db, error_resp req code, [])
    | ACreate, _ =>
        finish_pack_f f db colname col cuid req ro (mkDdoc (p_duid req) (p_key req) col (p_type req) 0 [] [])
                    (p_duid req) (p_ops req) bit_create (p_duid req)
    | ASubscribe, Some d0 => finish_pack_f f db colname col cuid req ro d0 (dd_duid d0) [] bit_subscribe (dd_duid d0)
    | ANormal, Some d0 => finish_pack_f f db colname col cuid req ro d0 (p_duid req) (p_ops req) 0 (p_duid req)
    | _, None => (db, error_resp req err_no_datatype, [])          (* unreachable: see ServerFacts.decide_spec *)
    end
    end.
Definition handle_pack := handle_pack_f None.

(* ---------- ProcessPushPull / ProcessClient / CreateCollection ---------- *)
Inductive rpc_err := NoCollection | NoClient | NoPermission | DbError.
(* where a storage command fails while a push-pull message is served *)
Inductive pfault := PFCollection | PFClient | PFPack (fp : fpoint).

Definition process_pushpull_f (f : option pfault) (db : sdb) (colname cuid : str) (packs : list ppp)
  : sdb * (list (ppp * list publish) + rpc_err) :=
  match f with
  | Some PFCollection => (db, inr DbError)
  | _ =>
  match alookup str_eqb colname (s_cols db) with
  | None => (db, inr NoCollection)
  | Some col =>
      match f with
      | Some PFClient => (db, inr DbError)
      | _ =>
      match alookup str_eqb cuid (s_clients db) with
      | None => (db, inr NoClient)
      | Some ccol =>
          if N.eqb ccol col then
            let fp := match f with Some (PFPack x) => Some x | _ => None end in
            let '(db', out) := fold_left (fun '(db, acc) req =>
                                 let '(db', resp, pubs) := handle_pack_f fp db colname col cuid req in
                                 (db', acc ++ [(resp, pubs)])) packs (db, []) in
            (db', inl out)
          else (db, inr NoPermission)
      end
      end
  end
  end.
Definition process_pushpull := process_pushpull_f None.

Definition create_collection (db : sdb) (name : str) : sdb :=
  match alookup str_eqb name (s_cols db) with
  | Some _ => db
  | None => mkSdb (s_cols db ++ [(name, s_colctr db + 1)]) (s_colctr db + 1) (s_clients db) (s_dts db) (s_ops db)
  end.

(* ResetCollection: PurgeCollection (operations, snapshots, datatypes and clients carrying the collection's number; the
   delete of the collection document itself filters its name by the number and matches nothing), drop of the user
   collection, then CreateCollection — which finds the collection document still there and keeps its number *)
Definition reset_collection (db : sdb) (name : str) : sdb :=
  match alookup str_eqb name (s_cols db) with
  | None => create_collection db name
  | Some n => mkSdb (s_cols db) (s_colctr db)
                    (filter (fun c => negb (N.eqb (snd c) n)) (s_clients db))
                    (filter (fun d => negb (N.eqb (dd_col d) n)) (s_dts db))
                    (filter (fun o => negb (N.eqb (od_col o) n)) (s_ops db))
  end.

Definition process_client (db : sdb) (colname cuid : str) : sdb * option rpc_err :=
  match alookup str_eqb colname (s_cols db) with
  | None => (db, Some NoCollection)
  | Some col =>
      match alookup str_eqb cuid (s_clients db) with
      | Some ccol => if N.eqb ccol col then (db, None) else (db, Some NoPermission)
      | None => (mkSdb (s_cols db) (s_colctr db) (s_clients db ++ [(cuid, col)]) (s_dts db) (s_ops db), None)
      end
  end.
