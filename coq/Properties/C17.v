(* C17 — Collections and datatypes are isolated from each other. *)
From Coq Require Import List NArith.
From Orda.Model Require Import Base Time Ops Server.
From Orda.Proofs Require Import ServerFacts.

(* handling a pack of a client of collection number [col] touches one datatype document of that
   collection and appends operations of that datatype and collection only; every other datatype
   document and every stored operation stays exactly as it was *)
Theorem C17_frame : forall db colname col cuid req,
  LogInv db ->
  let '(db', resp, pubs) := handle_pack db colname col cuid req in
  (forall o, In o (s_ops db) -> In o (s_ops db')) /\
  (forall o, In o (s_ops db') -> In o (s_ops db) \/ od_col o = col) /\
  (forall x, In x (s_dts db) -> dd_col x <> col -> In x (s_dts db')) /\
  (forall x, In x (s_dts db') -> In x (s_dts db) \/ dd_col x = col).
Proof. exact frame. Qed.
Print Assumptions C17_frame.

(* a client of another collection is turned away before any handler runs *)
Theorem C17_foreign_client_refused : forall db col cuid packs ccol n,
  alookup str_eqb col (s_cols db) = Some n -> alookup str_eqb cuid (s_clients db) = Some ccol -> ccol <> n ->
  process_pushpull db col cuid packs = (db, inr NoPermission).
Proof. exact foreign_client_refused. Qed.
Print Assumptions C17_foreign_client_refused.

(* the DUID of a datatype of another collection does not give access to it *)
Theorem C17_foreign_duid_refused : forall db colname col cuid req,
  has (p_opt req) bit_create = false -> has (p_opt req) bit_subscribe = false ->
  (find_dt db (p_duid req) = None \/ exists d0, find_dt db (p_duid req) = Some d0 /\ dd_col d0 <> col) ->
  exists code, handle_pack db colname col cuid req = (db, error_resp req code, []).
Proof. exact foreign_or_unknown_refused. Qed.
Print Assumptions C17_foreign_duid_refused.

(* distinct collection names never share a number, after any request sequence *)
Theorem C17_collection_numbers_injective : forall (rs : list request) n1 n2 num,
  let db := fold_left serve rs sdb_init in
  In (n1, num) (s_cols db) -> In (n2, num) (s_cols db) -> n1 = n2.
Proof. exact collection_numbers_injective. Qed.
Print Assumptions C17_collection_numbers_injective.

(* ResetCollection removes exactly one collection's data: afterwards the store holds precisely the datatype documents,
   operations and clients that do not carry the collection's number; collection names and numbers are unchanged *)
From Orda.Proofs Require Import ResetFacts.
Theorem C17_reset_removes_exactly_one_collection : forall db name n, alookup str_eqb name (s_cols db) = Some n ->
  let db' := reset_collection db name in
  s_cols db' = s_cols db /\
  (forall d, In d (s_dts db') <-> In d (s_dts db) /\ dd_col d <> n) /\
  (forall o, In o (s_ops db') <-> In o (s_ops db) /\ od_col o <> n) /\
  (forall c, In c (s_clients db') <-> In c (s_clients db) /\ snd c <> n).
Proof. exact reset_exact. Qed.
Print Assumptions C17_reset_removes_exactly_one_collection.

(* and the store stays well-formed under requests and resets in any order *)
Theorem C17_store_invariant_with_resets : forall rs : list request2, LogInv (fold_left serve2 rs sdb_init).
Proof. exact log_invariant_with_resets. Qed.
Print Assumptions C17_store_invariant_with_resets.

(* isolation of datatypes WITHIN a collection (Proofs/ProtocolOther.v; no invariant needed, any store, a storage command
   failing or not): a pack that names datatype D neither by its identifier nor by its key — no datatype stored under the
   pack's (collection, key) is D — leaves D's documents and D's stored operations exactly as they are, in order *)
From Orda.Proofs Require Import ProtocolOther.
Theorem C17_pack_elsewhere_leaves_datatype : forall f db colname col cuid req D,
  p_duid req <> D -> (forall dk, find_dt_by_key db col (p_key req) = Some dk -> dd_duid dk <> D) ->
  let db' := db_of (handle_pack_f f db colname col cuid req) in
  ops_of (s_ops db') D = ops_of (s_ops db) D /\ (forall d, dd_duid d = D -> (In d (s_dts db') <-> In d (s_dts db))).
Proof. exact pack_frame. Qed.
Print Assumptions C17_pack_elsewhere_leaves_datatype.
