(* C07 — Lost, duplicated or delayed sync messages never lose or double-apply operations.
   Full statement: C05's conclusion for histories of Net.v WITH duplicated requests and dropped
   responses (C07_statement_list, a definition).  Machine-checked so far: the two mechanisms that
   make retries harmless — the server stores a re-pushed operation at most once (C06's invariant
   holds for arbitrary request sequences, duplicates included), and a client never re-executes its
   own operations when a retry pulls them back. *)
From Coq Require Import List NArith.
From Orda.Model Require Import Base Time Ops List Datatype CheckCrdt Server Wire Net.
From Orda.Proofs Require Import ServerFacts WireFacts.

Definition C07_statement_list : Prop :=
  forall (es : list (nev lcall)) x y,
    let s := nrun lstate lcall (list val) lstate l_init l_validate l_local' l_exec_remote id_ id_ 2 es in
    In x (n_cls s) -> In y (n_cls s) ->
    subscribed _ _ _ x = true -> subscribed _ _ _ y = true -> same_datatype _ _ _ x y ->
    settled _ _ _ (n_db s) x -> settled _ _ _ (n_db s) y ->
    d_snap (w_d (n_w x)) = d_snap (w_d (n_w y)).

(* whatever is re-sent, duplicated or sent out of date, the stored log stays a gapless exactly-once order *)
Theorem C07_store_survives_any_requests : forall rs : list request, LogInv (fold_left serve rs sdb_init).
Proof. exact log_invariant. Qed.
Print Assumptions C07_store_survives_any_requests.

(* outside a subscribe response a client never executes an operation carrying its own id as a
   remote operation, wherever it stands in the pulled range *)
Theorem C07_own_operations_never_reapplied : forall own c r ops,
  incoming own false c r = Some ops -> Forall (fun o => o_cuid (op_id o) <> own) ops.
Proof. exact incoming_never_own. Qed.
Print Assumptions C07_own_operations_never_reapplied.

(* a stale response cannot move the checkpoint backwards *)
Theorem C07_stale_response_keeps_checkpoint :
  forall (St call J : Type) (k_init : St) (k_remote : St -> op -> St) (k_export : St -> J)
         (w : @wdt St call J) (r : ppp) w' a,
    has (p_opt r) bit_subscribe = false ->
    apply_pack St call J k_init k_remote k_export w r = AOk _ _ _ w' a ->
    (sseq (d_cp (w_d w)) <= sseq (d_cp (w_d w')))%N /\ (cseq (d_cp (w_d w)) <= cseq (d_cp (w_d w')))%N /\
    (dstate_eqb (w_state w) DueToSubscribeCreate = false -> d_buf (w_d w') = d_buf (w_d w)).
Proof. exact apply_pack_cp_monotone. Qed.
Print Assumptions C07_stale_response_keeps_checkpoint.
