(* C07 — Lost, duplicated or delayed sync messages never lose or double-apply operations.
   Full statement over Model/Net.v: C07_statement_list (a definition).  Machine-checked: the mechanisms that make
   retries harmless — the server stores a re-pushed operation at most once (C06's invariant holds for arbitrary
   request sequences, duplicates included), a client never re-executes its own operations when a retry pulls them
   back, a stale response cannot move the checkpoint back — and, for the steady state of one datatype
   (Proofs/Protocol.v), the system-level theorem: with answers lost and requests repeated in any pattern every client
   executes every foreign operation of the log prefix it has seen exactly once, in log order, and every operation a
   client issued is stored exactly once (C07_retries_deliver_exactly_once, the same theorem as C05's (8)).
   Delayed (out-of-order) answers are exercised by the harness, not part of that theorem. *)
From Coq Require Import List NArith.
From Orda.Model Require Import Base Time Ops List Datatype CheckCrdt Server Wire Net.
From Orda.Proofs Require Import ServerFacts WireFacts.

Definition C07_statement_list : Prop :=
  forall (es : list (nev lcall)) x y,
    let s := nrun lstate lcall (list val) lstate l_init l_validate l_local' l_exec_remote id_ id_ 2 es in
    In x (n_cls s) -> In y (n_cls s) ->
    subscribed _ _ _ x = true -> subscribed _ _ _ y = true -> same_datatype _ _ _ x y ->
    settled _ _ _ (n_db s) x -> settled _ _ _ (n_db s) y ->
    d_snap (w_d (n_w x)) = d_snap (w_d (n_w y)).

(* whatever is re-sent, duplicated or sent out of date, the stored log stays a gapless exactly-once order *)
Theorem C07_store_survives_any_requests : forall rs : list request, LogInv (fold_left serve rs sdb_init).
Proof. exact log_invariant. Qed.
Print Assumptions C07_store_survives_any_requests.

(* outside a subscribe response a client never executes an operation carrying its own id as a
   remote operation, wherever it stands in the pulled range *)
Theorem C07_own_operations_never_reapplied : forall own c r ops,
  incoming own false c r = Some ops -> Forall (fun o => o_cuid (op_id o) <> own) ops.
Proof. exact incoming_never_own. Qed.
Print Assumptions C07_own_operations_never_reapplied.

(* a stale response cannot move the checkpoint backwards *)
Theorem C07_stale_response_keeps_checkpoint :
  forall (St call J : Type) (k_init : St) (k_remote : St -> op -> St) (k_export : St -> J)
         (w : @wdt St call J) (r : ppp) w' a,
    has (p_opt r) bit_subscribe = false ->
    apply_pack St call J k_init k_remote k_export w r = AOk _ _ _ w' a ->
    (sseq (d_cp (w_d w)) <= sseq (d_cp (w_d w')))%N /\ (cseq (d_cp (w_d w)) <= cseq (d_cp (w_d w')))%N /\
    (dstate_eqb (w_state w) DueToSubscribeCreate = false -> d_buf (w_d w') = d_buf (w_d w)).
Proof. exact apply_pack_cp_monotone. Qed.
Print Assumptions C07_stale_response_keeps_checkpoint.

(* the system-level statement for the steady state of one datatype: answers may be lost (PSync _ true) and the repeated
   requests carry operations the server already has; see Properties/C05.v (8) for the definitions *)
From Orda.Proofs Require Import ClientOrder Protocol.
Theorem C07_retries_deliver_exactly_once : forall colname col D key ty st0 evs,
  PInv col D st0 ->
  let st := prun colname col D key ty st0 evs in
  LogInv (ps_db st) /\
  (forall c, In c (ps_cl st) ->
     pc_exec c = filter (fun o => negb (own_of (pc_cuid c) o)) (firstn (N.to_nat (pc_s c)) (logops D (ps_db st)))) /\
  (forall d u, In d (s_dts (ps_db st)) -> seqs_of (s_ops (ps_db st)) (dd_duid d) u = nseq 1 (N.to_nat (ack d u))).
Proof. exact protocol_exactly_once. Qed.
Print Assumptions C07_retries_deliver_exactly_once.

(* ... and with the network (Proofs/ProtocolLate.v): every answer the server has ever given stays deliverable — late, out
   of order, any number of times ([LLate i j] delivers the j-th answer ever given to client i again) — in any
   interleaving with local operations and further exchanges.  [LInv]: the invariant of Protocol.v plus, for every answer
   in the network, that it describes the log from a position its client had reached up to a later position, with the
   acknowledged number that belongs to that position. *)
From Orda.Proofs Require Import ProtocolLate.
Theorem C07_late_and_repeated_answers : forall colname col D key ty st0 evs,
  LInv col D st0 ->
  let st := l_base (lrun colname col D key ty st0 evs) in
  LogInv (ps_db st) /\
  (forall c, In c (ps_cl st) ->
     pc_exec c = foreign (pc_cuid c) (firstn (N.to_nat (pc_s c)) (logops D (ps_db st)))) /\
  (forall d u, In d (s_dts (ps_db st)) -> seqs_of (s_ops (ps_db st)) (dd_duid d) u = nseq 1 (N.to_nat (ack d u))).
Proof. exact late_answers_exactly_once. Qed.
Print Assumptions C07_late_and_repeated_answers.

(* non-vacuity: the state of C05's example with an empty network; u's first answer is lost and arrives after two more
   exchanges, v's answer is delivered twice: nothing is executed twice, nothing is lost, no checkpoint moves back *)
Example C07_late_example :
  let c := [99]%N in let u := [117]%N in let v := [118]%N in let k := [107]%N in let col := [65]%N in
  let o1 := OSnap (mkOpid 0 1 u 1) in let o2 := OInc (mkOpid 0 2 u 2) 5 in let p1 := OInc (mkOpid 0 2 v 1) 1 in
  let rs := [RCollection col; RClient col u; RClient col v;
             RPushPull col u [mkPpp k c bit_create (mkCp 0 1) 0 [o1] None];
             RPushPull col v [mkPpp k c bit_subscribe (mkCp 0 0) 0 [] None]] in
  let st0 := mkLs (mkPs (fold_left serve rs sdb_init) [mkPc u 1 1 [] []; mkPc v 1 0 [] [o1]]) [] in
  let evs := [LBase (PLocal 0 o2); LBase (PSync 0 true); LBase (PLocal 1 p1); LBase (PSync 1 false); LBase (PSync 0 false);
              LLate 0 1; LLate 1 0; LLate 1 0; LBase (PSync 1 false); LLate 0 0; LLate 0 1] in
  LInv 1 c st0 /\
  map (fun x => (pc_s x, pc_cc x, pc_buf x, pc_exec x)) (ps_cl (l_base (lrun col 1 c k 0 st0 evs))) = [(3, 2, [], [p1]); (3, 1, [], [o1; o2])]%N.
Proof.
  cbv zeta. split; [|vm_compute; reflexivity].
  apply LInv_of_PInv; [|intros d0 Hin Hd; vm_compute in Hin; destruct Hin as [<-|[]]; vm_compute; reflexivity].
  split; [apply log_invariant|]. split; [apply client_order; repeat constructor|]. split; [repeat constructor; cbn; intuition discriminate|].
  eexists. split; [vm_compute; left; reflexivity|]. split; [reflexivity|]. split; [reflexivity|].
  repeat constructor; vm_compute; try reflexivity; try discriminate.
Qed.
Print Assumptions C07_late_example.
