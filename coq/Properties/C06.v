(* C06 — A datatype's server log is a gapless total order of exactly the pushed operations. *)
From Coq Require Import List NArith.
From Orda.Model Require Import Base Time Ops Server.
From Orda.Proofs Require Import ServerFacts.

(* After ANY sequence of requests (collections, client registrations, push-pull messages with
   arbitrary packs: any option bits, checkpoints, DUIDs, operation sequences, repeated or
   missing operations) every datatype document d satisfies: the operations stored under its
   DUID carry server sequence numbers exactly 1, 2, ..., End(d) in storage order; no client's
   recorded checkpoint exceeds End(d); no operation is stored without a datatype document;
   DUIDs are unique and a (collection, key) names at most one datatype. *)
Theorem C06_log_invariant : forall rs : list request, LogInv (fold_left serve rs sdb_init).
Proof. exact log_invariant. Qed.
Print Assumptions C06_log_invariant.

(* one handled pack: accepted operations are appended with the next consecutive numbers, a
   refused pack changes nothing *)
Theorem C06_pack : forall db colname col cuid req,
  LogInv db -> pack_post db colname col cuid (handle_pack db colname col cuid req).
Proof. exact handle_pack_spec. Qed.
Print Assumptions C06_pack.

(* non-vacuity: a create with two operations followed by a re-push of both and one new operation
   stores exactly three operations numbered 1..3 *)
Example C06_example :
  let c := [99]%N in let u := [117]%N in let k := [107]%N in let col := [65]%N in
  let o1 := OSnap (mkOpid 0 1 u 1) in let o2 := OInc (mkOpid 0 2 u 2) 5 in let o3 := OInc (mkOpid 0 3 u 3) 7 in
  let rs := [RCollection col; RClient col u;
             RPushPull col u [mkPpp k c bit_create (mkCp 0 2) 0 [o1; o2] None];
             RPushPull col u [mkPpp k c 0 (mkCp 0 3) 0 [o1; o2; o3] None]] in
  map od_sseq (s_ops (fold_left serve rs sdb_init)) = [1; 2; 3]%N /\
  map dd_end (s_dts (fold_left serve rs sdb_init)) = [3]%N.
Proof. vm_compute. split; reflexivity. Qed.
Print Assumptions C06_example.
