(* C06 — A datatype's server log is a gapless total order of exactly the pushed operations. *)
From Coq Require Import List NArith.
From Orda.Model Require Import Base Time Ops Server.
From Orda.Proofs Require Import ServerFacts.

(* After ANY sequence of requests (collections, client registrations, push-pull messages with
   arbitrary packs: any option bits, checkpoints, DUIDs, operation sequences, repeated or
   missing operations) every datatype document d satisfies: the operations stored under its
   DUID carry server sequence numbers exactly 1, 2, ..., End(d) in storage order; no client's
   recorded checkpoint exceeds End(d); no operation is stored without a datatype document;
   DUIDs are unique and a (collection, key) names at most one datatype. *)
Theorem C06_log_invariant : forall rs : list request, LogInv (fold_left serve rs sdb_init).
Proof. exact log_invariant. Qed.
Print Assumptions C06_log_invariant.

(* one handled pack: accepted operations are appended with the next consecutive numbers, a
   refused pack changes nothing *)
Theorem C06_pack : forall db colname col cuid req,
  LogInv db -> pack_post db colname col cuid (handle_pack db colname col cuid req).
Proof. exact handle_pack_spec. Qed.
Print Assumptions C06_pack.

(* non-vacuity: a create with two operations followed by a re-push of both and one new operation
   stores exactly three operations numbered 1..3 *)
Example C06_example :
  let c := [99]%N in let u := [117]%N in let k := [107]%N in let col := [65]%N in
  let o1 := OSnap (mkOpid 0 1 u 1) in let o2 := OInc (mkOpid 0 2 u 2) 5 in let o3 := OInc (mkOpid 0 3 u 3) 7 in
  let rs := [RCollection col; RClient col u;
             RPushPull col u [mkPpp k c bit_create (mkCp 0 2) 0 [o1; o2] None];
             RPushPull col u [mkPpp k c 0 (mkCp 0 3) 0 [o1; o2; o3] None]] in
  map od_sseq (s_ops (fold_left serve rs sdb_init)) = [1; 2; 3]%N /\
  map dd_end (s_dts (fold_left serve rs sdb_init)) = [3]%N.
Proof. vm_compute. split; reflexivity. Qed.
Print Assumptions C06_example.

(* ---------- the per-client clause ---------- *)
From Orda.Proofs Require Import ClientOrder.

(* After ANY sequence of requests in which every pushed operation carries its pusher's identifier (what clients do) —
   arbitrary batches, empty pushes, re-pushes of acknowledged operations, pushes with gaps (refused), any option bits
   and checkpoints — for every datatype d and every client u: the operations authored by u in d's stored log carry
   the client sequence numbers 1, 2, ..., k in log order, each exactly once, where k = [ack d u] is the sequence number
   the server has recorded as acknowledged to u (0 if u never pushed).  So every operation a client pushed and got
   acknowledged is stored exactly once, in the order the client issued them, and no acknowledged operation is missing. *)
Theorem C06_client_order : forall rs : list request, Forall honest rs ->
  forall d, In d (s_dts (fold_left serve rs sdb_init)) -> forall u,
    seqs_of (s_ops (fold_left serve rs sdb_init)) (dd_duid d) u = nseq 1 (N.to_nat (ack d u)).
Proof. exact client_order. Qed.
Print Assumptions C06_client_order.

(* the accepted part of one push: exactly the operations that carry the next expected sequence numbers *)
Theorem C06_push_accepts_next : forall D col u ops c acc c' out,
  push_ops D col c ops acc = Some (c', out) ->
  Forall (fun o => o_cuid (op_id o) = u) ops ->
  exists new, out = acc ++ new /\ map oseq new = nseq (cseq c + 1) (length new) /\
              cseq c' = cseq c + N.of_nat (length new) /\ Forall (fun o => authored u o = true) new.
Proof. exact push_authored. Qed.
Print Assumptions C06_push_accepts_next.

(* non-vacuity: two clients interleave pushes, one re-pushes acknowledged operations *)
Example C06_client_order_example :
  let c := [99]%N in let u := [117]%N in let v := [118]%N in let k := [107]%N in let col := [65]%N in
  let o1 := OSnap (mkOpid 0 1 u 1) in let o2 := OInc (mkOpid 0 2 u 2) 5 in let o3 := OInc (mkOpid 0 3 u 3) 7 in
  let p1 := OInc (mkOpid 0 3 v 1) 1 in let p2 := OInc (mkOpid 0 4 v 2) 2 in
  let rs := [RCollection col; RClient col u; RClient col v;
             RPushPull col u [mkPpp k c bit_create (mkCp 0 2) 0 [o1; o2] None];
             RPushPull col v [mkPpp k c bit_subscribe (mkCp 0 0) 0 [] None];
             RPushPull col v [mkPpp k c 0 (mkCp 2 1) 0 [p1] None];
             RPushPull col u [mkPpp k c 0 (mkCp 0 3) 0 [o1; o2; o3] None];
             RPushPull col v [mkPpp k c 0 (mkCp 3 2) 0 [p1; p2] None]] in
  let db := fold_left serve rs sdb_init in
  Forall honest rs /\
  map od_sseq (s_ops db) = [1; 2; 3; 4; 5]%N /\
  seqs_of (s_ops db) c u = [1; 2; 3]%N /\ seqs_of (s_ops db) c v = [1; 2]%N /\
  map (fun d => (ack d u, ack d v)) (s_dts db) = [(3, 2)]%N.
Proof.
  cbv zeta. split; [repeat constructor|]. vm_compute. repeat split; reflexivity.
Qed.
Print Assumptions C06_client_order_example.

(* ... and with storage commands failing during any of the requests (C08, Proofs/Recovery.v): the same invariant for the
   acknowledged part of the store, [clean db] = the operation documents at or below the recorded end of their log *)
From Orda.Proofs Require Import FaultFacts Recovery.
Theorem C06_log_invariant_with_faults : forall rfs : list (request * option pfault),
  LogInv (clean (fold_left fserve rfs sdb_init)).
Proof. exact faulty_log_invariant. Qed.
Print Assumptions C06_log_invariant_with_faults.
