(* C16 — Every request gets an answer; refused requests change nothing.
   In the model every handler is a total function returning a response: "no hang / no crash" of
   the Go code is what the correspondence check and the per-call deadline of the harness test. *)
From Coq Require Import List NArith.
From Orda.Model Require Import Base Time Ops Server.
From Orda.Proofs Require Import ServerFacts.

(* a pack answered with an error leaves the whole store unchanged and publishes nothing *)
Theorem C16_refused_changes_nothing : forall db colname col cuid req,
  LogInv db ->
  let '(db', resp, pubs) := handle_pack db colname col cuid req in
  p_err resp <> None -> db' = db /\ pubs = [].
Proof. exact refused_changes_nothing. Qed.
Print Assumptions C16_refused_changes_nothing.

(* requests refused before any handler runs (unknown collection, unregistered client, client of
   another collection) change nothing either *)
Theorem C16_rpc_refusal_changes_nothing : forall db col cuid packs e,
  snd (process_pushpull db col cuid packs) = inr e -> fst (process_pushpull db col cuid packs) = db.
Proof. exact rpc_refusal_changes_nothing. Qed.
Print Assumptions C16_rpc_refusal_changes_nothing.

Theorem C16_unknown_or_foreign_datatype_refused : forall db colname col cuid req,
  has (p_opt req) bit_create = false -> has (p_opt req) bit_subscribe = false ->
  (find_dt db (p_duid req) = None \/ exists d0, find_dt db (p_duid req) = Some d0 /\ dd_col d0 <> col) ->
  exists code, handle_pack db colname col cuid req = (db, error_resp req code, []).
Proof. exact foreign_or_unknown_refused. Qed.
Print Assumptions C16_unknown_or_foreign_datatype_refused.

(* the invariant premise holds in every reachable store *)
Theorem C16_premise_reachable : forall rs : list request, LogInv (fold_left serve rs sdb_init).
Proof. exact log_invariant. Qed.
Print Assumptions C16_premise_reachable.
