(* C03 — Without concurrency each datatype behaves as its plain data structure; invalid calls are
   errors that change nothing. *)
From Coq Require Import List NArith ZArith.
From Orda.Model Require Import Base Time Ops Counter Map List Datatype.
From Orda.Proofs Require Import TimeFacts DatatypeFacts PlainFacts ListFacts.

(* a call whose arguments fail validation (index out of range, empty key, ...) returns an error and
   leaves the whole datatype — readable state, next operation id, pending operations, checkpoint,
   rollback point — exactly as it was; generic in the datatype *)
Theorem C03_invalid_call_is_noop :
  forall (St call ret J : Type) (k_validate : St -> call -> bool) (k_local : St -> call -> opid -> lres St ret)
         (d : @dt St call J) c,
    k_validate (d_snap d) c = false ->
    local_call St call ret J k_validate k_local d c = (d, Failed).
Proof. exact invalid_call_is_noop. Qed.
Print Assumptions C03_invalid_call_is_noop.

(* likewise a call the datatype itself rejects (removing an absent key): the consumed id is returned *)
Theorem C03_failing_call_is_noop :
  forall (St call ret J : Type) (k_validate : St -> call -> bool) (k_local : St -> call -> opid -> lres St ret)
         (d : @dt St call J) c,
    wf_id (d_oid d) -> k_validate (d_snap d) c = true ->
    k_local (d_snap d) c (opid_next (d_oid d)) = LErr ->
    local_call St call ret J k_validate k_local d c = (d, Failed).
Proof. exact failing_call_is_noop. Qed.
Print Assumptions C03_failing_call_is_noop.

(* Counter = 32-bit integer *)
Theorem C03_counter_is_int32 : forall s d i,
  c_exec_local s (CInc d) i = Some (wrap32 (s + d), OInc i d, VNum (wrap32 (s + d))).
Proof. exact counter_is_int32. Qed.
Print Assumptions C03_counter_is_int32.

(* Map = string-keyed map: Put sets the key and returns the old value, other keys untouched *)
Theorem C03_map_put_is_plain : forall s k v i,
  m_dominated s i ->
  exists s', m_exec_local s (MPut k v) (opid_next i) = Some (s', OPut (opid_next i) k v, m_get s k) /\
             forall k', m_get s' k' = get_after k (Some v) s k'.
Proof. exact map_put_is_plain. Qed.
Print Assumptions C03_map_put_is_plain.

(* Remove returns and clears a present key, and is an error (nothing changes) on an absent one *)
Theorem C03_map_remove_is_plain : forall s k i,
  m_dominated s i ->
  match m_get s k with
  | Some v => exists s', m_exec_local s (MRemove k) (opid_next i) = Some (s', ORemove (opid_next i) k, Some v) /\
                         forall k', m_get s' k' = get_after k None s k'
  | None => m_exec_local s (MRemove k) (opid_next i) = None
  end.
Proof. exact map_remove_is_plain. Qed.
Print Assumptions C03_map_remove_is_plain.

(* the premise [m_dominated] holds initially and is kept by every local call *)
Theorem C03_map_premise_kept : forall s i c s' o r,
  m_dominated s i -> (o_lam i + 2 < two63)%N ->
  m_exec_local s c (opid_next i) = Some (s', o, r) -> m_dominated s' (opid_next i).
Proof. exact m_dominated_next. Qed.
Print Assumptions C03_map_premise_kept.

(* List = slice: a valid Insert / Delete / Update never dereferences nil, transforms the sequence of
   readable values exactly like the plain slice operation, returns what the plain operation returns,
   and keeps Size equal to the number of readable values *)
Theorem C03_list_is_slice : forall s c i,
  sized s -> l_validate s c = true ->
  exists s' o r, l_exec_local s c i = Some (s', o, r) /\ sized s' /\ op_id o = i /\
    match c with
    | LInsert pos vs => l_values s' = plain_insert (l_values s) (Z.to_nat pos) vs /\ r = vs
    | LDelete pos num => l_values s' = plain_delete (l_values s) (Z.to_nat pos) (Z.to_nat num) /\
                         r = firstn (Z.to_nat num) (skipn (Z.to_nat pos) (l_values s))
    | LUpdate pos vs => l_values s' = plain_update (l_values s) (Z.to_nat pos) vs /\
                        r = firstn (length vs) (skipn (Z.to_nat pos) (l_values s))
    end.
Proof. exact list_local_refines_plain. Qed.
Print Assumptions C03_list_is_slice.

(* Document: the tree created for a value — any nesting of objects and arrays — reads back as exactly that value
   (object members in key order, as the implementation shows them) *)
From Orda.Model Require Import Doc.
From Orda.Proofs Require Import DocFacts.
Theorem C03_document_value_reads_back : forall t v, canon v -> forall i, jview (fst (create t v i)) = v.
Proof. exact create_view. Qed.
Print Assumptions C03_document_value_reads_back.
