(* C03 — Without concurrency each datatype behaves as its plain data structure; invalid calls are
   errors that change nothing. *)
From Coq Require Import List NArith ZArith.
From Orda.Model Require Import Base Time Ops Counter Map List Datatype.
From Orda.Proofs Require Import TimeFacts DatatypeFacts PlainFacts ListFacts.

(* a call whose arguments fail validation (index out of range, empty key, ...) returns an error and
   leaves the whole datatype — readable state, next operation id, pending operations, checkpoint,
   rollback point — exactly as it was; generic in the datatype *)
Theorem C03_invalid_call_is_noop :
  forall (St call ret J : Type) (k_validate : St -> call -> bool) (k_local : St -> call -> opid -> lres St ret)
         (d : @dt St call J) c,
    k_validate (d_snap d) c = false ->
    local_call St call ret J k_validate k_local d c = (d, Failed).
Proof. exact invalid_call_is_noop. Qed.
Print Assumptions C03_invalid_call_is_noop.

(* likewise a call the datatype itself rejects (removing an absent key): the consumed id is returned *)
Theorem C03_failing_call_is_noop :
  forall (St call ret J : Type) (k_validate : St -> call -> bool) (k_local : St -> call -> opid -> lres St ret)
         (d : @dt St call J) c,
    wf_id (d_oid d) -> k_validate (d_snap d) c = true ->
    k_local (d_snap d) c (opid_next (d_oid d)) = LErr ->
    local_call St call ret J k_validate k_local d c = (d, Failed).
Proof. exact failing_call_is_noop. Qed.
Print Assumptions C03_failing_call_is_noop.

(* Counter = 32-bit integer *)
Theorem C03_counter_is_int32 : forall s d i,
  c_exec_local s (CInc d) i = Some (wrap32 (s + d), OInc i d, VNum (wrap32 (s + d))).
Proof. exact counter_is_int32. Qed.
Print Assumptions C03_counter_is_int32.

(* Map = string-keyed map: Put sets the key and returns the old value, other keys untouched *)
Theorem C03_map_put_is_plain : forall s k v i,
  m_dominated s i ->
  exists s', m_exec_local s (MPut k v) (opid_next i) = Some (s', OPut (opid_next i) k v, m_get s k) /\
             forall k', m_get s' k' = get_after k (Some v) s k'.
Proof. exact map_put_is_plain. Qed.
Print Assumptions C03_map_put_is_plain.

(* Remove returns and clears a present key, and is an error (nothing changes) on an absent one *)
Theorem C03_map_remove_is_plain : forall s k i,
  m_dominated s i ->
  match m_get s k with
  | Some v => exists s', m_exec_local s (MRemove k) (opid_next i) = Some (s', ORemove (opid_next i) k, Some v) /\
                         forall k', m_get s' k' = get_after k None s k'
  | None => m_exec_local s (MRemove k) (opid_next i) = None
  end.
Proof. exact map_remove_is_plain. Qed.
Print Assumptions C03_map_remove_is_plain.

(* the premise [m_dominated] holds initially and is kept by every local call *)
Theorem C03_map_premise_kept : forall s i c s' o r,
  m_dominated s i -> (o_lam i + 2 < two63)%N ->
  m_exec_local s c (opid_next i) = Some (s', o, r) -> m_dominated s' (opid_next i).
Proof. exact m_dominated_next. Qed.
Print Assumptions C03_map_premise_kept.

(* List = slice: a valid Insert / Delete / Update never dereferences nil, transforms the sequence of
   readable values exactly like the plain slice operation, returns what the plain operation returns,
   and keeps Size equal to the number of readable values *)
Theorem C03_list_is_slice : forall s c i,
  sized s -> l_validate s c = true ->
  exists s' o r, l_exec_local s c i = Some (s', o, r) /\ sized s' /\ op_id o = i /\
    match c with
    | LInsert pos vs => l_values s' = plain_insert (l_values s) (Z.to_nat pos) vs /\ r = vs
    | LDelete pos num => l_values s' = plain_delete (l_values s) (Z.to_nat pos) (Z.to_nat num) /\
                         r = firstn (Z.to_nat num) (skipn (Z.to_nat pos) (l_values s))
    | LUpdate pos vs => l_values s' = plain_update (l_values s) (Z.to_nat pos) vs /\
                        r = firstn (length vs) (skipn (Z.to_nat pos) (l_values s))
    end.
Proof. exact list_local_refines_plain. Qed.
Print Assumptions C03_list_is_slice.

(* Document: the tree created for a value — any nesting of objects and arrays — reads back as exactly that value
   (object members in key order, as the implementation shows them) *)
From Orda.Model Require Import Doc.
From Orda.Proofs Require Import DocFacts.
Theorem C03_document_value_reads_back : forall t v, canon v -> forall i, jview (fst (create t v i)) = v.
Proof. exact create_view. Qed.
Print Assumptions C03_document_value_reads_back.

(* Document: the local API (Put/Remove on objects, Insert/Delete/Update on arrays, each addressed by a path from the
   root) behaves as the plain JSON operation on the readable value, for EVERY sequence of calls.
   Definitions (Proofs/DocRefine.v): [plain_call c v] changes the sub-value of v at the call's path by the plain object
   / slice operation ([vput], [vrm], [plain_insert], [plain_delete], [plain_update]); [run_calls] validates each call
   and executes it with its operation identifier; [increasing] says the identifiers carry increasing, un-wrapped
   timestamps (the Lamport clock); [Inv' t s]: s is well-formed, its root is live, its creation timestamps are pairwise
   distinct and every timestamp in it is at most t — the invariant the theorem also re-establishes. *)
From Orda.Proofs Require Import TimeFacts OrderFacts DocRefine.
Theorem C03_document_calls_are_plain : forall cs t s s',
  ts_bounded t -> Inv' t s -> increasing t cs -> Forall (fun ci => canon_call (fst ci)) cs ->
  run_calls s cs = Some s' ->
  jview s' = fold_left (fun v ci => plain_call (fst ci) v) cs (jview s) /\ exists t', Inv' t' s'.
Proof. exact doc_calls_refine. Qed.
Print Assumptions C03_document_calls_are_plain.

(* ... in particular from the empty document, whose invariant holds *)
Theorem C03_document_from_empty : forall cs s',
  increasing oldest_ts cs -> Forall (fun ci => canon_call (fst ci)) cs -> run_calls doc_init cs = Some s' ->
  jview s' = fold_left (fun v ci => plain_call (fst ci) v) cs (VObj []).
Proof. exact doc_calls_refine_init. Qed.
Print Assumptions C03_document_from_empty.

(* the implementation reaches the container of a call through its table of creation timestamps (NodeMap), the model
   likewise ([on_node]); where creation timestamps are distinct that IS the container the path names *)
Theorem C03_document_nodemap_is_path : forall f path s j,
  NoDup (all_cs s) -> resolve s path = Some j -> on_node s (jc j) f = upd_path s path f.
Proof. exact on_node_is_path_update. Qed.
Print Assumptions C03_document_nodemap_is_path.

(* non-vacuity: three calls on the empty document, nested path, array insert *)
Example C03_document_example :
  let u := [117] in
  let cs := [(DPut [] [97] (VObj [([120], VArr [VNum 1])]), mkOpid 0 1 u 1);
             (DIns [PKey [97]; PKey [120]] 1 [VStr [98]; VBool true], mkOpid 0 2 u 2);
             (DRmv [] [97], mkOpid 0 3 u 3);
             (DPut [] [98] (VNum 7), mkOpid 0 4 u 4)] in
  increasing oldest_ts cs /\ Forall (fun ci => canon_call (fst ci)) cs /\
  option_map jview (run_calls doc_init (firstn 2 cs)) = Some (VObj [([97], VObj [([120], VArr [VNum 1; VStr [98]; VBool true])])]) /\
  option_map jview (run_calls doc_init cs) = Some (VObj [([98], VNum 7)]).
Proof.
  cbv zeta. split; [|split; [|split; vm_compute; reflexivity]].
  - cbn [increasing]. repeat split; vm_compute; reflexivity.
  - repeat constructor.
Qed.
Print Assumptions C03_document_example.

(* Document, any interleaving of API calls and deliveries of remote operations: given what the surrounding machinery
   guarantees at each step ([step_ok]: a local call is stamped newer than everything in the tree — the Lamport clause
   of C15 —, a delivered operation is new to the tree — exactly-once delivery, C05/C07 —, values are canonical), every
   step keeps the tree well-formed with pairwise distinct creation timestamps and a live root, and every API call
   along the way acts on the readable value as the plain JSON operation *)
Theorem C03_document_step : forall s st s',
  SInv s -> live_root s -> step_ok s st -> do_step s st = Some s' ->
  SInv s' /\ live_root s' /\
  match st with SLocal c _ => jview s' = plain_call c (jview s) | SRemote _ => True end.
Proof. exact step_keeps_structure. Qed.
Print Assumptions C03_document_step.
Theorem C03_document_any_interleaving : forall sts s s',
  SInv s -> live_root s -> steps_ok s sts -> run_steps s sts = Some s' -> SInv s' /\ live_root s'.
Proof. exact steps_keep_structure. Qed.
Print Assumptions C03_document_any_interleaving.
