(* C18 — Every committed push is announced (the notification part; realtime convergence is the
   protocol of C05/C07 driven by these notifications and is exercised by the harness). *)
From Coq Require Import List NArith.
From Orda.Model Require Import Base Time Ops Server.
From Orda.Proofs Require Import ServerFacts.

(* exactly one notification, on the topic of the collection and key, carrying the pusher's id, the
   datatype's id and the new end of the log, iff at least one operation was stored; none otherwise
   (pull-only syncs, refused requests) *)
Theorem C18_publish_iff_push : forall db colname col cuid req,
  LogInv db ->
  let '(db', resp, pubs) := handle_pack db colname col cuid req in
  (s_ops db' = s_ops db -> pubs = []) /\
  (s_ops db' <> s_ops db ->
     exists d1, In d1 (s_dts db') /\ dd_col d1 = col /\
                pubs = [mkPub colname (dd_key d1) cuid (dd_duid d1) (dd_end d1)]).
Proof. exact publish_iff_push. Qed.
Print Assumptions C18_publish_iff_push.
