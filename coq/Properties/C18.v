(* C18 — Every committed push is announced (the notification part; realtime convergence is the
   protocol of C05/C07 driven by these notifications and is exercised by the harness). *)
From Coq Require Import List NArith.
From Orda.Model Require Import Base Time Ops Server.
From Orda.Proofs Require Import ServerFacts.

(* exactly one notification, on the topic of the collection and key, carrying the pusher's id, the
   datatype's id and the new end of the log, iff at least one operation was stored; none otherwise
   (pull-only syncs, refused requests) *)
Theorem C18_publish_iff_push : forall db colname col cuid req,
  LogInv db ->
  let '(db', resp, pubs) := handle_pack db colname col cuid req in
  (s_ops db' = s_ops db -> pubs = []) /\
  (s_ops db' <> s_ops db ->
     exists d1, In d1 (s_dts db') /\ dd_col d1 = col /\
                pubs = [mkPub colname (dd_key d1) cuid (dd_duid d1) (dd_end d1)]).
Proof. exact publish_iff_push. Qed.
Print Assumptions C18_publish_iff_push.

(* "realtime clients converge by themselves" (Proofs/ProtocolLive.v, over the protocol system of C05): right after an
   exchange of a client whose answer arrives, that client's checkpoint is the end of the log and it has executed every
   operation of the log that is not its own, in log order, each once.  A client that syncs whenever it is told that
   something was pushed (the publish above) has therefore caught up with everything pushed before its sync was served;
   when no more operations are issued, one answered sync per client after the last push makes all of them agree. *)
From Orda.Proofs Require Import ClientOrder Protocol ProtocolLate ProtocolLive.
Theorem C18_answered_sync_catches_up : forall colname col D key ty st i c d0,
  PInv col D st -> nth_error (ps_cl st) i = Some c -> In d0 (s_dts (ps_db st)) -> dd_duid d0 = D ->
  (dd_end d0 + N.of_nat (length (pc_buf c)) < big)%N -> (cseq (rec_of d0 (pc_cuid c)) + N.of_nat (length (pc_buf c)) < big)%N ->
  let st' := pstep colname col D key ty st (PSync i false) in
  PInv col D st' /\
  exists c' d0', nth_error (ps_cl st') i = Some c' /\ In d0' (s_dts (ps_db st')) /\ dd_duid d0' = D /\
    pc_cuid c' = pc_cuid c /\ pc_s c' = dd_end d0' /\
    pc_exec c' = foreign (pc_cuid c') (logops D (ps_db st')) /\
    ps_cl st' = upd_nth (ps_cl st) i c' /\
    (* with nothing to push the exchange leaves the log as it is *)
    (pc_buf c = [] -> pc_buf c' = [] /\ logops D (ps_db st') = logops D (ps_db st) /\ dd_end d0' = dd_end d0 /\
                      forall v, cseq (rec_of d0' v) = cseq (rec_of d0 v)).
Proof. exact answered_sync_catches_up. Qed.
Print Assumptions C18_answered_sync_catches_up.

(* ... and when nobody has anything left to push ([quiet]: all buffers empty, counters far from wrapping), one answered sync
   per client — in index order — leaves the log as it is and every client with the whole log executed but its own
   operations: all agree *)
Theorem C18_quiet_round_converges : forall colname col D key ty st,
  PInv col D st -> quiet D st ->
  let st' := prun colname col D key ty st (map (fun i => PSync i false) (seq 0 (length (ps_cl st)))) in
  logops D (ps_db st') = logops D (ps_db st) /\
  forall c, In c (ps_cl st') -> pc_exec c = foreign (pc_cuid c) (logops D (ps_db st')).
Proof. exact quiet_round_converges. Qed.
Print Assumptions C18_quiet_round_converges.

(* ... and what each client has then executed from the others, together with its own operations of the log, is the log
   (as a multiset): by the convergence theorems of C01 (counter, map, list) all of them hold the same state *)
From Coq Require Import Permutation.
Theorem C18_quiet_round_everyone_has_the_log : forall colname col D key ty st,
  PInv col D st -> quiet D st ->
  let st' := prun colname col D key ty st (map (fun i => PSync i false) (seq 0 (length (ps_cl st)))) in
  forall c, In c (ps_cl st') -> Permutation (owns (pc_cuid c) (logops D (ps_db st')) ++ pc_exec c) (logops D (ps_db st')).
Proof. exact quiet_round_everyone_has_the_log. Qed.
Print Assumptions C18_quiet_round_everyone_has_the_log.
