(* C20 — Calls from several goroutines on one datatype behave as if made one at a time. *)
From Coq Require Import List Arith.
From Orda.Model Require Import Conc.
From Orda.Proofs Require Import ConcFacts.
Import ListNotations.

(* The model (Model/Conc.v): every read and write of the shared variables of transaction.go (the mutex, isLocked, txCtx)
   and every call executed on the datatype is one atomic step; goroutines run arbitrary lists of plain calls and user
   transactions (with nested calls presenting the transaction's context); [crun (cinit d0 P) sched] is the state after the
   scheduler has let the goroutines named by [sched] take one step each, in that order (a goroutine that is blocked on
   the mutex or has finished is skipped).  All statements are for EVERY program P, initial datatype d0 and schedule.  *)

(* no goroutine ever takes a branch the protocol forbids (a nested call that would lock again, an owner that does not
   recognise its own context, an unlock that finds isLocked false and leaks the mutex), and a goroutine that is inside
   a unit is the holder of the mutex: calls of different goroutines exclude each other *)
Theorem C20_mutual_exclusion : forall (D : Type) (exec : nat -> nat -> D -> D) (P : nat -> list cunit) d0 sched t,
  let s := crun D exec (cinit D d0 P) sched in
  fst (thr D s t) <> PWrong /\ (~ idle (fst (thr D s t)) -> mtx D s = Some t).
Proof. exact conc_safe. Qed.
Print Assumptions C20_mutual_exclusion.

(* nothing deadlocks: whenever some goroutine has work left, some goroutine can take a step *)
Theorem C20_no_deadlock : forall (D : Type) (exec : nat -> nat -> D -> D) (P : nat -> list cunit) d0 sched,
  let s := crun D exec (cinit D d0 P) sched in
  (exists t, snd (thr D s t) <> []) -> exists t, cstep D exec t s <> None.
Proof. exact conc_live. Qed.
Print Assumptions C20_no_deadlock.

(* a transaction does not interleave with other goroutines' calls: at every moment the calls executed so far are whole
   units followed by a prefix of the unit of the goroutine that holds the mutex *)
Theorem C20_units_contiguous : forall (D : Type) (exec : nat -> nat -> D -> D) (P : nat -> list cunit) d0 sched,
  let s := crun D exec (cinit D d0 P) sched in
  exists partial, log D s = flat_map body (map snd (order D s)) ++ partial /\
    match mtx D s with
    | None => partial = []
    | Some h => exists u rest k, snd (thr D s h) = u :: rest /\ partial = firstn k (body u)
    end.
Proof. exact conc_contiguous. Qed.
Print Assumptions C20_units_contiguous.

(* no update is lost and the result is that of a one-at-a-time run: when every goroutine has finished, every unit of every
   goroutine has taken effect exactly once, each goroutine's units in its program order, and the datatype equals the
   result of running the units sequentially in the order in which they released the mutex *)
Theorem C20_equivalent_to_sequential : forall (D : Type) (exec : nat -> nat -> D -> D) (P : nat -> list cunit) d0 sched,
  let s := crun D exec (cinit D d0 P) sched in
  (forall t, snd (thr D s t) = []) ->
  mtx D s = None /\
  log D s = flat_map body (map snd (order D s)) /\
  (forall t, done_of t (order D s) = P t) /\
  data D s = sequential D exec (map snd (order D s)) d0.
Proof. exact conc_sequential. Qed.
Print Assumptions C20_equivalent_to_sequential.

(* non-vacuity: three goroutines (a plain call; a two-call transaction then a plain call; a plain call) under a schedule
   that interleaves them step by step: all finish, the transaction's calls are adjacent, the datatype (here: the list of
   executed calls) is the sequential result *)
Example C20_example :
  let P := fun t => match t with
                    | 0 => [mkCunit 10 1 false]
                    | 1 => [mkCunit 20 2 true; mkCunit 21 1 false]
                    | 2 => [mkCunit 30 1 false]
                    | _ => [] end in
  let exec := fun u i (d : list (nat * nat)) => d ++ [(u, i)] in
  let sched := [0; 1; 2; 1; 0; 2; 1; 1; 0; 2; 1; 1; 0; 1; 2; 1; 1; 0; 1; 2; 1; 1; 1; 0; 0; 0; 0; 0; 0; 0; 2; 2; 2; 2; 2; 2; 2; 2; 2; 2; 1; 1; 1; 1; 1; 1; 1; 1; 1; 1; 1; 1; 1; 1; 1; 1; 1; 1; 1; 1;
                0; 0; 0; 0; 0; 0; 0; 0; 0; 0; 2; 2; 2; 2; 2; 2; 2; 2; 2; 2] in
  let s := crun _ exec (cinit _ [] P) sched in
  (forall t, t < 4 -> snd (thr _ s t) = []) /\ data _ s = [(20, 0); (20, 1); (21, 0); (10, 0); (30, 0)] /\
  map (fun x => u_id (snd x)) (order _ s) = [20; 21; 10; 30].
Proof.
  vm_compute. split; [|split; reflexivity]. intros t H. do 4 (destruct t as [|t]; [reflexivity|]). exfalso. apply (Nat.nlt_0_r t). do 4 apply Nat.succ_lt_mono in H. exact H.
Qed.
Print Assumptions C20_example.
