(* C15 — Operation and element identifiers are unique and respect causality.
   This file contains only statements closed by [exact]; proofs live in Proofs/. *)
From Coq Require Import List NArith.
From Orda.Model Require Import Base Time.
From Orda.Proofs Require Import TimeFacts.

(* distinct element identifiers never share a key of the node tables *)
Theorem C15_key_injective : forall a b : ts, ts_hash a = ts_hash b -> a = b.
Proof. exact ts_hash_inj. Qed.
Print Assumptions C15_key_injective.

(* the key format of the unrepaired tree ("%d%d%d%s") was not injective: witness *)
Theorem C15_key_without_separators_refuted :
  exists a b : ts, a <> b /\ cuid a = cuid b /\ ts_hash_nosep a = ts_hash_nosep b.
Proof. exact ts_hash_nosep_refuted. Qed.
Print Assumptions C15_key_without_separators_refuted.

(* timestamp comparison is a strict total order over distinct operations
   (same_op = same era, lamport and client), for clocks below the half-range wrap *)
Theorem C15_compare_total :
  forall a b c, ts_bounded a -> ts_bounded b -> ts_bounded c ->
    (ts_compare a b = Eq <-> same_op a b) /\
    ts_compare b a = CompOpp (ts_compare a b) /\
    (ts_compare a b = Lt -> ts_compare b c = Lt -> ts_compare a c = Lt).
Proof. exact ts_compare_total_order. Qed.
Print Assumptions C15_compare_total.

(* ... and only there: beyond the half range the wrapped comparison is not transitive *)
Theorem C15_compare_unbounded_refuted :
  exists a b c, ts_compare a b = Lt /\ ts_compare b c = Lt /\ ts_compare a c <> Lt.
Proof. exact ts_compare_unbounded_refuted. Qed.
Print Assumptions C15_compare_unbounded_refuted.
