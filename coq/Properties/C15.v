(* C15 — Operation and element identifiers are unique and respect causality.
   This file contains only statements closed by [exact]; proofs live in Proofs/. *)
From Coq Require Import List NArith.
From Orda.Model Require Import Base Time.
From Orda.Model Require Import Ops Counter Map List Datatype CheckCrdt.
From Orda.Proofs Require Import TimeFacts DatatypeFacts KernelInst.

(* distinct element identifiers never share a key of the node tables *)
Theorem C15_key_injective : forall a b : ts, ts_hash a = ts_hash b -> a = b.
Proof. exact ts_hash_inj. Qed.
Print Assumptions C15_key_injective.

(* the key format of the unrepaired tree ("%d%d%d%s") was not injective: witness *)
Theorem C15_key_without_separators_refuted :
  exists a b : ts, a <> b /\ cuid a = cuid b /\ ts_hash_nosep a = ts_hash_nosep b.
Proof. exact ts_hash_nosep_refuted. Qed.
Print Assumptions C15_key_without_separators_refuted.

(* timestamp comparison is a strict total order over distinct operations
   (same_op = same era, lamport and client), for clocks below the half-range wrap *)
Theorem C15_compare_total :
  forall a b c, ts_bounded a -> ts_bounded b -> ts_bounded c ->
    (ts_compare a b = Eq <-> same_op a b) /\
    ts_compare b a = CompOpp (ts_compare a b) /\
    (ts_compare a b = Lt -> ts_compare b c = Lt -> ts_compare a c = Lt).
Proof. exact ts_compare_total_order. Qed.
Print Assumptions C15_compare_total.

(* ... and only there: beyond the half range the wrapped comparison is not transitive *)
Theorem C15_compare_unbounded_refuted :
  exists a b c, ts_compare a b = Lt /\ ts_compare b c = Lt /\ ts_compare a c <> Lt.
Proof. exact ts_compare_unbounded_refuted. Qed.
Print Assumptions C15_compare_unbounded_refuted.

(* each client numbers its operations 1, 2, 3, ... without gaps (each sequence number is the
   previous one plus 1, modulo 2^64, starting from 1, all with the client's id) over every
   history of the list datatype mixing failed calls, aborted transactions and remote deliveries;
   the same generic theorem (DatatypeFacts.seq_gapless) covers counter and map *)
Theorem C15_seq_gapless_list : forall c es d, l_run (l_new c) es = Some d ->
  seq_chain c 0 (d_buf d) /\ o_seq (d_oid d) = last_seq 0 (d_buf d).
Proof.
  intros c es d. apply seq_gapless; [apply id_import_export|apply l_local_id|apply l_local_not_tx].
Qed.
Print Assumptions C15_seq_gapless_list.

Theorem C15_seq_gapless_map : forall c es d, m_run (m_new c) es = Some d ->
  seq_chain c 0 (d_buf d) /\ o_seq (d_oid d) = last_seq 0 (d_buf d).
Proof.
  intros c es d. apply seq_gapless; [apply id_import_export|apply m_local_id|apply m_local_not_tx].
Qed.
Print Assumptions C15_seq_gapless_map.

(* every new local operation is ordered after every operation its replica has already applied:
   in the sequence g of applied operations (own ones when issued, foreign ones when delivered)
   each own operation has a lamport greater than all operations before it.  [grun] = None when a
   call panics, a delivered operation carries this client's id, or the clock is about to wrap 2^64 *)
Theorem C15_clock_dominates_list : forall c es d g,
  grun lstate lcall (list val) lstate l_validate l_local' l_exec_remote id_ id_ c
       (l_new c, [OSnap (opid_next (opid_new c))]) es = Some (d, g) ->
  dom c 0 g /\ (maxlam 0 g <= o_lam (d_oid d))%N.
Proof.
  intros c es d g. apply clock_dominates; [apply id_import_export|apply l_local_id|apply l_local_not_tx].
Qed.
Print Assumptions C15_clock_dominates_list.

(* Document values of any nesting depth and any number of members: the nodes of the tree created for ONE value take
   the operation's timestamp with consecutive delimiters i, i+1, ... (one per node, parents before children, members
   in order), so no two of them share an identifier *)
From Orda.Model Require Import Doc.
From Orda.Proofs Require Import DocFacts.
Theorem C15_nested_value_identifiers : forall t v i,
  let '(j, i') := create t v i in
  i' = (i + N.of_nat (vcount v))%N /\ all_cs j = map (ts_at t) (nrange i (vcount v)).
Proof. exact create_ids. Qed.
Print Assumptions C15_nested_value_identifiers.
Theorem C15_nested_value_identifiers_distinct : forall t v i, NoDup (all_cs (fst (create t v i))).
Proof. exact create_ids_distinct. Qed.
Print Assumptions C15_nested_value_identifiers_distinct.
