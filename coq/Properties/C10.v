(* C10 — A datatype restored from its snapshot is indistinguishable from the original.
   [*_marshal] is the content of json.Marshal(snapshot), [*_unmarshal] what UnmarshalJSON rebuilds
   (Model/Snapshot.v); the marshalled forms produced by the Go code are compared with the model's on
   every run, and a restored real instance is run side by side with the original. *)
From Coq Require Import List NArith ZArith.
From Orda.Model Require Import Base Time Ops Counter Map List Snapshot.
From Orda.Proofs Require Import MapFacts MapConv SnapshotFacts.

(* Counter and List: the restored state IS the original state (tombstones, update times, order
   times, Size), so every later local or remote operation is answered identically *)
Theorem C10_counter_roundtrip : forall s, c_unmarshal (c_marshal s) = s.
Proof. exact counter_roundtrip. Qed.
Print Assumptions C10_counter_roundtrip.

Theorem C10_list_roundtrip : forall s, l_unmarshal (l_marshal s) = s.
Proof. exact list_roundtrip. Qed.
Print Assumptions C10_list_roundtrip.

Theorem C10_list_reexport : forall s, l_marshal (l_unmarshal (l_marshal s)) = l_marshal s.
Proof. exact list_reexport. Qed.
Print Assumptions C10_list_reexport.

(* Map: a Go map has no order, so "same" means the same entry (value or tombstone, timestamp) under
   every key and the same Size ... *)
Theorem C10_map_roundtrip : forall s, m_wf s -> m_equiv (m_unmarshal (m_marshal s)) s.
Proof. exact map_roundtrip. Qed.
Print Assumptions C10_map_roundtrip.

(* ... and that relation is a congruence: equivalent maps answer every later remote and local
   operation identically (same emitted operation, same returned value) and stay equivalent, hence
   for every continuation history by induction *)
Theorem C10_map_congruence_remote : forall a b o, m_equiv a b -> m_equiv (m_exec_remote a o) (m_exec_remote b o).
Proof. exact map_equiv_remote. Qed.
Print Assumptions C10_map_congruence_remote.

Theorem C10_map_congruence_local : forall a b c i,
  m_equiv a b ->
  match m_exec_local a c i, m_exec_local b c i with
  | Some (a', oa, ra), Some (b', ob, rb) => m_equiv a' b' /\ oa = ob /\ ra = rb
  | None, None => True
  | _, _ => False
  end.
Proof. exact map_equiv_local. Qed.
Print Assumptions C10_map_congruence_local.

(* same readable JSON, and exporting the restored instance again gives the same snapshot *)
Theorem C10_map_same_view : forall a b, m_wf a -> m_wf b -> m_equiv a b -> m_view a = m_view b.
Proof. exact map_equiv_view. Qed.
Print Assumptions C10_map_same_view.

Theorem C10_map_reexport : forall s, m_wf s -> m_marshal (m_unmarshal (m_marshal s)) = m_marshal s.
Proof. exact map_reexport. Qed.
Print Assumptions C10_map_reexport.

(* the premise m_wf (distinct keys, Size = number of live keys) holds after any operations *)
Theorem C10_map_wf_reachable : forall l, m_wf (fold_left m_exec_remote l m_init).
Proof. exact map_wf_reachable. Qed.
Print Assumptions C10_map_wf_reachable.
