(* C10 — A datatype restored from its snapshot is indistinguishable from the original.
   [*_marshal] is the content of json.Marshal(snapshot), [*_unmarshal] what UnmarshalJSON rebuilds
   (Model/Snapshot.v); the marshalled forms produced by the Go code are compared with the model's on
   every run, and a restored real instance is run side by side with the original. *)
From Coq Require Import List NArith ZArith.
From Orda.Model Require Import Base Time Ops Counter Map List Snapshot.
From Orda.Proofs Require Import MapFacts MapConv SnapshotFacts.

(* Counter and List: the restored state IS the original state (tombstones, update times, order
   times, Size), so every later local or remote operation is answered identically *)
Theorem C10_counter_roundtrip : forall s, c_unmarshal (c_marshal s) = s.
Proof. exact counter_roundtrip. Qed.
Print Assumptions C10_counter_roundtrip.

Theorem C10_list_roundtrip : forall s, l_unmarshal (l_marshal s) = s.
Proof. exact list_roundtrip. Qed.
Print Assumptions C10_list_roundtrip.

Theorem C10_list_reexport : forall s, l_marshal (l_unmarshal (l_marshal s)) = l_marshal s.
Proof. exact list_reexport. Qed.
Print Assumptions C10_list_reexport.

(* Map: a Go map has no order, so "same" means the same entry (value or tombstone, timestamp) under
   every key and the same Size ... *)
Theorem C10_map_roundtrip : forall s, m_wf s -> m_equiv (m_unmarshal (m_marshal s)) s.
Proof. exact map_roundtrip. Qed.
Print Assumptions C10_map_roundtrip.

(* ... and that relation is a congruence: equivalent maps answer every later remote and local
   operation identically (same emitted operation, same returned value) and stay equivalent, hence
   for every continuation history by induction *)
Theorem C10_map_congruence_remote : forall a b o, m_equiv a b -> m_equiv (m_exec_remote a o) (m_exec_remote b o).
Proof. exact map_equiv_remote. Qed.
Print Assumptions C10_map_congruence_remote.

Theorem C10_map_congruence_local : forall a b c i,
  m_equiv a b ->
  match m_exec_local a c i, m_exec_local b c i with
  | Some (a', oa, ra), Some (b', ob, rb) => m_equiv a' b' /\ oa = ob /\ ra = rb
  | None, None => True
  | _, _ => False
  end.
Proof. exact map_equiv_local. Qed.
Print Assumptions C10_map_congruence_local.

(* same readable JSON, and exporting the restored instance again gives the same snapshot *)
Theorem C10_map_same_view : forall a b, m_wf a -> m_wf b -> m_equiv a b -> m_view a = m_view b.
Proof. exact map_equiv_view. Qed.
Print Assumptions C10_map_same_view.

Theorem C10_map_reexport : forall s, m_wf s -> m_marshal (m_unmarshal (m_marshal s)) = m_marshal s.
Proof. exact map_reexport. Qed.
Print Assumptions C10_map_reexport.

(* the premise m_wf (distinct keys, Size = number of live keys) holds after any operations *)
Theorem C10_map_wf_reachable : forall l, m_wf (fold_left m_exec_remote l m_init).
Proof. exact map_wf_reachable. Qed.
Print Assumptions C10_map_wf_reachable.

(* The whole datatype, not only its kernel state (Model/Datatype.v: state, operation id, buffer, checkpoint, rollback
   point and the operations to replay after it; [dt_import] = SetMetaAndSnapshot called from outside).  A datatype reached
   from its creation by ANY history of calls, transactions (committed or aborted), received operations and checkpoint moves
   is exported there and imported into any other instance: the restored instance shows the same state and operation id,
   and under EVERY continuation history — local calls valid and invalid, user transactions committed or ABORTED, remote
   operations — the same calls panic or not and both show the same state and operation id after every step.
   (The unrepaired code violated this: an aborted transaction on a restored instance came back to the state before the
   import; see KNOWN_FINDINGS, "fix: importing meta and snapshot takes the rollback point".) *)
From Orda.Model Require Import Datatype.
From Orda.Proofs Require Import DatatypeFacts KernelInst.
Theorem C10_restored_datatype_indistinguishable_list : forall c es0 d fresh es, l_run (l_new c) es0 = Some d ->
  let r := l_import fresh (d_snap d) (d_oid d) in
  d_snap r = d_snap d /\ d_oid r = d_oid d /\
  match l_run d es, l_run r es with Some d', Some r' => d_snap r' = d_snap d' /\ d_oid r' = d_oid d' | None, None => True | _, _ => False end.
Proof. exact list_restored_indistinguishable. Qed.
Print Assumptions C10_restored_datatype_indistinguishable_list.

Theorem C10_restored_datatype_indistinguishable_map : forall c es0 d fresh es, m_run (m_new c) es0 = Some d ->
  let r := m_import fresh (d_snap d) (d_oid d) in
  d_snap r = d_snap d /\ d_oid r = d_oid d /\
  match m_run d es, m_run r es with Some d', Some r' => d_snap r' = d_snap d' /\ d_oid r' = d_oid d' | None, None => True | _, _ => False end.
Proof. exact map_restored_indistinguishable. Qed.
Print Assumptions C10_restored_datatype_indistinguishable_map.

Theorem C10_restored_datatype_indistinguishable_counter : forall c es0 d fresh es, c_run (c_new c) es0 = Some d ->
  let r := c_import fresh (d_snap d) (d_oid d) in
  d_snap r = d_snap d /\ d_oid r = d_oid d /\
  match c_run d es, c_run r es with Some d', Some r' => d_snap r' = d_snap d' /\ d_oid r' = d_oid d' | None, None => True | _, _ => False end.
Proof. exact counter_restored_indistinguishable. Qed.
Print Assumptions C10_restored_datatype_indistinguishable_counter.

(* non-vacuity: a list after two inserts is restored into a fresh instance; both then run an aborted transaction and an
   insert: same state, same operation id *)
Example C10_restored_example :
  let c := [97]%N in
  let es0 := [DCall lcall (LInsert 0 [VStr [1]%N]); DCall lcall (LInsert 1 [VStr [2]%N])] in
  let es := [DTxn lcall [116]%N [LInsert 0 [VStr [9]%N]; LDelete 1 1] true; DCall lcall (LInsert 2 [VStr [3]%N])] in
  match l_run (l_new c) es0 with
  | Some d => match l_run d es, l_run (l_import (l_new [98]%N) (d_snap d) (d_oid d)) es with
              | Some d', Some r' => d_snap r' = d_snap d' /\ d_oid r' = d_oid d' /\ l_values (d_snap d') = [VStr [1]%N; VStr [2]%N; VStr [3]%N]
              | _, _ => False
              end
  | None => False
  end.
Proof. vm_compute. repeat split; reflexivity. Qed.
Print Assumptions C10_restored_example.
