(* C08 — A storage failure during a sync leaves recoverable, consistent state.
   A request is served by a sequence of storage commands (lookups of the collection, the client and
   the datatype; the pull; and the three writes of the commit: remove leftovers beyond the end of the
   log, insert the operation documents, update the datatype document).  [handle_pack_f (Some fp)] is
   the handler with the command at point fp failing; a server crash after that command leaves the
   same store (no later command runs) and differs only in that the client gets no response at all.
   Proved: a fault at ANY point, from any consistent store, is contained.  The recovery half (a
   later retry of any client yields the fault-free log) is stated as C08_statement_list — the runs of
   Net.v with storage faults — and is exercised on every run (faults at every command position,
   retries, comparison of all replicas and the server's rebuild), not yet proved. *)
From Coq Require Import List NArith.
From Orda.Model Require Import Base Time Ops List Datatype CheckCrdt Server Wire Net.
From Orda.Proofs Require Import ServerFacts FaultFacts.

(* whichever command fails while a pack is served: every datatype document — end of log, every
   client's checkpoint — is exactly as before, every stored operation is still stored, all that may
   have been added are operation documents BEYOND the recorded end of a log (never handed out, removed
   by the next commit); and either the client receives an error response and nothing is published, or
   the failing command was never reached and the outcome is the fault-free one *)
Theorem C08_fault_is_contained : forall fp db colname col cuid req,
  LogInv db ->
  contained db (handle_pack_f (Some fp) db colname col cuid req) (handle_pack db colname col cuid req).
Proof. exact fault_is_contained. Qed.
Print Assumptions C08_fault_is_contained.

(* the premise holds in every store reached without faults *)
Theorem C08_premise_reachable : forall rs : list request, LogInv (fold_left serve rs sdb_init).
Proof. exact log_invariant. Qed.
Print Assumptions C08_premise_reachable.

(* the full statement: with storage faults anywhere in the history, settled replicas agree *)
Definition C08_statement_list : Prop :=
  forall (es : list (nev lcall)) x y,
    let s := nrun lstate lcall (list val) lstate l_init l_validate l_local' l_exec_remote id_ id_ 2 es in
    In x (n_cls s) -> In y (n_cls s) ->
    subscribed _ _ _ x = true -> subscribed _ _ _ y = true -> same_datatype _ _ _ x y ->
    settled _ _ _ (n_db s) x -> settled _ _ _ (n_db s) y ->
    d_snap (w_d (n_w x)) = d_snap (w_d (n_w y)).

(* non-vacuity: the second write of a commit fails — the operation document stays beyond the end of
   the log, the datatype document is untouched, the client is told; the retry then succeeds and the
   log is 1..2 *)
Example C08_example :
  let c := [99]%N in let u := [117]%N in let k := [107]%N in let col := [65]%N in
  let o1 := OSnap (mkOpid 0 1 u 1) in let o2 := OInc (mkOpid 0 2 u 2) 5 in
  let db0 := fold_left serve [RCollection col; RClient col u; RPushPull col u [mkPpp k c bit_create (mkCp 0 1) 0 [o1] None]] sdb_init in
  let req := mkPpp k c 0 (mkCp 1 2) 0 [o2] None in
  let '(db1, r1, _) := handle_pack_f (Some FailUpdate) db0 col 1 u req in
  let '(db2, r2, _) := handle_pack db1 col 1 u req in
  p_err r1 = Some 300%N /\ map dd_end (s_dts db1) = [1]%N /\ map od_sseq (s_ops db1) = [1; 2]%N /\
  p_err r2 = None /\ map dd_end (s_dts db2) = [2]%N /\ map od_sseq (s_ops db2) = [1; 2]%N.
Proof. vm_compute. repeat split; reflexivity. Qed.
Print Assumptions C08_example.
