(* C08 — A storage failure during a sync leaves recoverable, consistent state.
   A request is served by a sequence of storage commands (lookups of the collection, the client and
   the datatype; the pull; and the three writes of the commit: remove leftovers beyond the end of the
   log, insert the operation documents, update the datatype document).  [handle_pack_f (Some fp)] is
   the handler with the command at point fp failing; a server crash after that command leaves the
   same store (no later command runs) and differs only in that the client gets no response at all.
   Proved:
   (1) containment — a fault at ANY point, from any consistent store, changes nothing acknowledged;
   (2) recovery at the store (Proofs/Recovery.v) — [clean db] is the acknowledged part of a store (the
       operation documents at or below the recorded end of their log); from ANY store whose acknowledged part is
       consistent, however littered by earlier faults, every later request is answered exactly as by the acknowledged
       store and leaves the same acknowledged store; an error answer (refusal or fault) leaves it unchanged;
   (3) recovery at system level (Proofs/ProtocolFault.v) — clients issuing operations, syncing, joining late, answers
       lost, late and repeated (the system of C05/C07), and a storage command failing during any exchange, any number
       of times: every such history is, through [clean], a fault-free history of a sub-sequence of its events; in
       every reachable state the acknowledged log is gapless and holds every client's operations exactly once, every
       client has executed exactly the foreign operations of the prefix it has seen, and a client that has since synced
       to the end has executed the whole log: retries converge to the fault-free outcome.
   The statement over Net.v with its creation races (C08_statement_list) stays a definition; the harness exercises it
   on every run (faults at every command position, retries, comparison of all replicas and the server's rebuild). *)
From Coq Require Import List NArith.
From Orda.Model Require Import Base Time Ops List Datatype CheckCrdt Server Wire Net.
From Orda.Model Require Import Wire.
From Orda.Proofs Require Import ServerFacts FaultFacts ClientOrder Protocol ProtocolLate ProtocolJoin Recovery ProtocolFault.

(* whichever command fails while a pack is served: every datatype document — end of log, every
   client's checkpoint — is exactly as before, every stored operation is still stored, all that may
   have been added are operation documents BEYOND the recorded end of a log (never handed out, removed
   by the next commit); and either the client receives an error response and nothing is published, or
   the failing command was never reached and the outcome is the fault-free one *)
Theorem C08_fault_is_contained : forall fp db colname col cuid req,
  LogInv db ->
  contained db (handle_pack_f (Some fp) db colname col cuid req) (handle_pack db colname col cuid req).
Proof. exact fault_is_contained. Qed.
Print Assumptions C08_fault_is_contained.

(* the premise holds in every store reached without faults *)
Theorem C08_premise_reachable : forall rs : list request, LogInv (fold_left serve rs sdb_init).
Proof. exact log_invariant. Qed.
Print Assumptions C08_premise_reachable.

(* (2) recovery at the store.  [WInv db]: the acknowledged part of db is a consistent store (and sequence numbers are
   positive); it holds of every consistent store and survives every request, with or without a fault *)
Theorem C08_consistent_stores_qualify : forall db, LogInv db -> WInv db /\ clean db = db.
Proof. intros db H. split; [apply loginv_winv|apply loginv_clean]; exact H. Qed.
Print Assumptions C08_consistent_stores_qualify.

(* a request served, with the command at f failing or with no fault (f = None), from a littered store: the store keeps
   qualifying, its tables are untouched, and either the fault bit — error answer, nothing published, acknowledged part
   unchanged — or answer, publishes and acknowledged part are exactly those of the acknowledged store served without a fault *)
Theorem C08_fault_or_as_if_clean : forall f db colname col cuid req,
  WInv db ->
  let '(db', resp, pubs) := handle_pack_f f db colname col cuid req in
  WInv db' /\ same_tables db db' /\
  ((f <> None /\ p_err resp <> None /\ pubs = [] /\ clean db' = clean db) \/
   handle_pack (clean db) colname col cuid req = (clean db', resp, pubs)).
Proof. exact pack_erased. Qed.
Print Assumptions C08_fault_or_as_if_clean.

(* the retry: no fault this time, whatever was left behind before *)
Theorem C08_retry_as_if_no_failure : forall db colname col cuid req,
  WInv db ->
  let '(db', resp, pubs) := handle_pack db colname col cuid req in
  WInv db' /\ handle_pack (clean db) colname col cuid req = (clean db', resp, pubs).
Proof. exact retry_as_if_no_failure. Qed.
Print Assumptions C08_retry_as_if_no_failure.

(* nothing acknowledged is lost and nothing unacknowledged appears: any error answer leaves the acknowledged store as it was *)
Theorem C08_error_answer_keeps_acknowledged : forall f db colname col cuid req,
  WInv db ->
  let '(db', resp, pubs) := handle_pack_f f db colname col cuid req in
  WInv db' /\ (p_err resp <> None -> clean db' = clean db /\ pubs = []).
Proof. exact error_keeps_acknowledged. Qed.
Print Assumptions C08_error_answer_keeps_acknowledged.

(* whole requests (any number of packs each), any number of them, a storage command failing during any of them — the
   collection lookup, the client lookup, or any command of any pack: the acknowledged part of the store satisfies the log
   invariant of C06 *)
Theorem C08_log_invariant_with_faults : forall rfs : list (request * option pfault),
  LogInv (clean (fold_left fserve rfs sdb_init)).
Proof. exact faulty_log_invariant. Qed.
Print Assumptions C08_log_invariant_with_faults.

(* (3) the system: events of C05's system with late subscribers, each paired with the command that fails during it (or None) *)
Theorem C08_faulty_history_is_a_fault_free_history : forall colname col D key ty evs st,
  WInv (dbof st) ->
  exists evs', subseq evs' (map snd evs) /\
               cl (xrun colname col D key ty st evs) = jrun colname col D key ty (cl st) evs' /\
               (Forall (fun fe => fst fe = None) evs -> evs' = map snd evs).
Proof. exact faulty_run_is_a_fault_free_run. Qed.
Print Assumptions C08_faulty_history_is_a_fault_free_history.

Theorem C08_faults_exactly_once : forall colname col D key ty st0 evs,
  XInv col D key ty st0 ->
  let st := xrun colname col D key ty st0 evs in let db := clean (dbof st) in
  WInv (dbof st) /\ LogInv db /\
  (forall c, In c (ps_cl (l_base st)) ->
     pc_exec c = foreign (pc_cuid c) (firstn (N.to_nat (pc_s c)) (logops D db))) /\
  (forall d u, In d (s_dts db) -> seqs_of (s_ops db) (dd_duid d) u = nseq 1 (N.to_nat (ack d u))).
Proof. exact faults_exactly_once. Qed.
Print Assumptions C08_faults_exactly_once.

Theorem C08_retries_converge : forall colname col D key ty st0 evs,
  XInv col D key ty st0 ->
  let st := xrun colname col D key ty st0 evs in let db := clean (dbof st) in
  forall d0, In d0 (s_dts db) -> dd_duid d0 = D ->
  forall c, In c (ps_cl (l_base st)) -> pc_s c = dd_end d0 ->
    pc_exec c = foreign (pc_cuid c) (logops D db).
Proof. exact faults_quiescent. Qed.
Print Assumptions C08_retries_converge.

(* non-vacuity of (3): u created the datatype; it issues an operation and its push fails at the third write (the
   operation document stays beyond the end of the log); w subscribes — its first attempt fails at the pull —, then
   subscribes for good and receives only the acknowledged operation; u retries: accepted; w issues an operation, its
   push fails at the insert, the retry succeeds; both sync: each has executed the other's operations, once; the
   acknowledged log is 1..3 *)
Example C08_system_example :
  let c := [99]%N in let u := [117]%N in let w := [119]%N in let k := [107]%N in let col := [65]%N in
  let o1 := OSnap (mkOpid 0 1 u 1) in let o2 := OInc (mkOpid 0 2 u 2) 5 in let q1 := OInc (mkOpid 0 3 w 1) 1 in
  let rs := [RCollection col; RClient col u; RClient col w;
             RPushPull col u [mkPpp k c bit_create (mkCp 0 1) 0 [o1] None]] in
  let st0 := mkLs (mkPs (fold_left serve rs sdb_init) [mkPc u 1 1 [] []]) [] in
  let sync i := JBase (LBase (PSync i false)) in
  let evs := [(None, JBase (LBase (PLocal 0 o2))); (Some FailUpdate, sync 0%nat);
              (Some FailPull, JJoin w [100]%N None); (None, JJoin w [100]%N None);
              (None, sync 0%nat); (None, JBase (LBase (PLocal 1 q1))); (Some FailInsert, sync 1%nat);
              (None, sync 1%nat); (None, sync 0%nat)] in
  let st := xrun col 1 c k 0 st0 evs in
  XInv 1 c k 0 st0 /\
  map (fun x => (pc_cuid x, pc_s x, pc_cc x, pc_buf x, pc_exec x)) (ps_cl (l_base st)) = [(u, 3, 2, [], [q1]); (w, 3, 1, [], [o1; o2])]%N /\
  map od_sseq (s_ops (clean (dbof st))) = [1; 2; 3]%N.
Proof.
  cbv zeta. split; [|vm_compute; split; reflexivity].
  apply XInv_of_JInv. apply JInv_of_LInv; [| |reflexivity].
  - apply LInv_of_PInv; [|intros d0 Hin Hd; vm_compute in Hin; destruct Hin as [<-|[]]; vm_compute; reflexivity].
    split; [apply log_invariant|]. split; [apply client_order; repeat constructor|]. split; [repeat constructor; cbn; intuition discriminate|].
    eexists. split; [vm_compute; left; reflexivity|]. split; [reflexivity|]. split; [reflexivity|].
    repeat constructor; vm_compute; try reflexivity; try discriminate.
  - intros d Hin Hd. vm_compute in Hin. destruct Hin as [<-|[]]. split; reflexivity.
Qed.
Print Assumptions C08_system_example.

(* the statement over the client-server system of Net.v (not proved): with storage faults anywhere in the history, settled replicas agree *)
Definition C08_statement_list : Prop :=
  forall (es : list (nev lcall)) x y,
    let s := nrun lstate lcall (list val) lstate l_init l_validate l_local' l_exec_remote id_ id_ 2 es in
    In x (n_cls s) -> In y (n_cls s) ->
    subscribed _ _ _ x = true -> subscribed _ _ _ y = true -> same_datatype _ _ _ x y ->
    settled _ _ _ (n_db s) x -> settled _ _ _ (n_db s) y ->
    d_snap (w_d (n_w x)) = d_snap (w_d (n_w y)).

(* non-vacuity: the second write of a commit fails — the operation document stays beyond the end of
   the log, the datatype document is untouched, the client is told; the retry then succeeds and the
   log is 1..2 *)
Example C08_example :
  let c := [99]%N in let u := [117]%N in let k := [107]%N in let col := [65]%N in
  let o1 := OSnap (mkOpid 0 1 u 1) in let o2 := OInc (mkOpid 0 2 u 2) 5 in
  let db0 := fold_left serve [RCollection col; RClient col u; RPushPull col u [mkPpp k c bit_create (mkCp 0 1) 0 [o1] None]] sdb_init in
  let req := mkPpp k c 0 (mkCp 1 2) 0 [o2] None in
  let '(db1, r1, _) := handle_pack_f (Some FailUpdate) db0 col 1 u req in
  let '(db2, r2, _) := handle_pack db1 col 1 u req in
  p_err r1 = Some 300%N /\ map dd_end (s_dts db1) = [1]%N /\ map od_sseq (s_ops db1) = [1; 2]%N /\
  p_err r2 = None /\ map dd_end (s_dts db2) = [2]%N /\ map od_sseq (s_ops db2) = [1; 2]%N.
Proof. vm_compute. repeat split; reflexivity. Qed.
Print Assumptions C08_example.
