(* C11 — Stored snapshots and the user-visible MongoDB document equal the log replay. *)
From Coq Require Import List NArith ZArith.
From Orda.Model Require Import Base Time Ops Counter Map List Snapshot Server SnapSrv.
From Orda.Proofs Require Import ServerFacts SnapshotFacts SnapSrvFacts SnapSrvInst.
Import ListNotations.
Open Scope N_scope.

(* The system: any sequence of steps, each either a request served by the server (any collection,
   client or push-pull request: Proofs/ServerFacts.serve) or ONE run of UpdateSnapshot with the datatype
   document some earlier handler held when it finished — the same datatype, an end of the log that is
   not beyond the current one (any staleness: updates may run arbitrarily late relative to later pushes,
   in any order; two racing updates are one of them being skipped by their TryLock).  [srun steps] is the
   store and the snapshot/user collections after the steps; [replay db D v] is the state obtained by
   applying log operations 1..v of datatype D to the initial state. *)

(* ---- counter and list: exact equality ---- *)
Theorem C11_counter_snapshot : forall steps sn, In sn (ss_snaps (snd (counter_srun steps))) ->
  exists d, find_dt (fst (counter_srun steps)) (sn_duid sn) = Some d /\ sn_col sn = dd_col d /\ sn_sseq sn <= dd_end d /\
            c_unmarshal (sn_snap sn) = replay cstate c_init c_exec_remote (fst (counter_srun steps)) (sn_duid sn) (sn_sseq sn).
Proof. exact (exact_snapshot cstate c_init c_exec_remote c_marshal c_unmarshal c_view counter_roundtrip). Qed.
Print Assumptions C11_counter_snapshot.

Theorem C11_counter_document : forall steps r, In r (ss_real (snd (counter_srun steps))) ->
  exists d, In d (s_dts (fst (counter_srun steps))) /\ alookup str_eqb (rl_col r) (s_cols (fst (counter_srun steps))) = Some (dd_col d) /\
            dd_key d = rl_key r /\ rl_ver r <= dd_end d /\
            rl_view r = c_view (replay cstate c_init c_exec_remote (fst (counter_srun steps)) (dd_duid d) (rl_ver r)).
Proof. exact (exact_document cstate c_init c_exec_remote c_marshal c_unmarshal c_view counter_roundtrip). Qed.
Print Assumptions C11_counter_document.

Theorem C11_counter_version : forall steps later col key v1,
  real_ver (snd (counter_srun steps)) col key = Some v1 ->
  exists v2, real_ver (snd (counter_srun (steps ++ later))) col key = Some v2 /\ v1 <= v2.
Proof. exact (exact_version cstate c_init c_exec_remote c_marshal c_unmarshal c_view counter_roundtrip). Qed.
Print Assumptions C11_counter_version.

Theorem C11_counter_rebuild : forall steps D d, find_dt (fst (counter_srun steps)) D = Some d ->
  latest_datatype cstate c_init c_exec_remote c_unmarshal (fst (counter_srun steps)) (snd (counter_srun steps)) d =
  (replay cstate c_init c_exec_remote (fst (counter_srun steps)) D (dd_end d), dd_end d).
Proof. exact (exact_rebuild cstate c_init c_exec_remote c_marshal c_unmarshal c_view counter_roundtrip). Qed.
Print Assumptions C11_counter_rebuild.

Theorem C11_list_snapshot : forall steps sn, In sn (ss_snaps (snd (list_srun steps))) ->
  exists d, find_dt (fst (list_srun steps)) (sn_duid sn) = Some d /\ sn_col sn = dd_col d /\ sn_sseq sn <= dd_end d /\
            l_unmarshal (sn_snap sn) = replay lstate l_init l_exec_remote (fst (list_srun steps)) (sn_duid sn) (sn_sseq sn).
Proof. exact (exact_snapshot lstate l_init l_exec_remote l_marshal l_unmarshal l_view list_roundtrip). Qed.
Print Assumptions C11_list_snapshot.

Theorem C11_list_document : forall steps r, In r (ss_real (snd (list_srun steps))) ->
  exists d, In d (s_dts (fst (list_srun steps))) /\ alookup str_eqb (rl_col r) (s_cols (fst (list_srun steps))) = Some (dd_col d) /\
            dd_key d = rl_key r /\ rl_ver r <= dd_end d /\
            rl_view r = l_view (replay lstate l_init l_exec_remote (fst (list_srun steps)) (dd_duid d) (rl_ver r)).
Proof. exact (exact_document lstate l_init l_exec_remote l_marshal l_unmarshal l_view list_roundtrip). Qed.
Print Assumptions C11_list_document.

Theorem C11_list_version : forall steps later col key v1,
  real_ver (snd (list_srun steps)) col key = Some v1 ->
  exists v2, real_ver (snd (list_srun (steps ++ later))) col key = Some v2 /\ v1 <= v2.
Proof. exact (exact_version lstate l_init l_exec_remote l_marshal l_unmarshal l_view list_roundtrip). Qed.
Print Assumptions C11_list_version.

Theorem C11_list_rebuild : forall steps D d, find_dt (fst (list_srun steps)) D = Some d ->
  latest_datatype lstate l_init l_exec_remote l_unmarshal (fst (list_srun steps)) (snd (list_srun steps)) d =
  (replay lstate l_init l_exec_remote (fst (list_srun steps)) D (dd_end d), dd_end d).
Proof. exact (exact_rebuild lstate l_init l_exec_remote l_marshal l_unmarshal l_view list_roundtrip). Qed.
Print Assumptions C11_list_rebuild.

(* ---- map: the marshalled form is a Go map, which has no order; "equal" is: the same entry (value or tombstone,
   and timestamp) under every key and the same Size — a congruence for every later operation, giving the same JSON
   view (C10) ---- *)
Theorem C11_map_snapshot : forall steps sn, In sn (ss_snaps (snd (map_srun steps))) ->
  exists d, find_dt (fst (map_srun steps)) (sn_duid sn) = Some d /\ sn_col sn = dd_col d /\ sn_sseq sn <= dd_end d /\
            m_equiv (m_unmarshal (sn_snap sn)) (replay mstate m_init m_exec_remote (fst (map_srun steps)) (sn_duid sn) (sn_sseq sn)).
Proof. exact map_snapshot. Qed.
Print Assumptions C11_map_snapshot.

Theorem C11_map_document : forall steps r, In r (ss_real (snd (map_srun steps))) ->
  exists d, In d (s_dts (fst (map_srun steps))) /\ alookup str_eqb (rl_col r) (s_cols (fst (map_srun steps))) = Some (dd_col d) /\
            dd_key d = rl_key r /\ rl_ver r <= dd_end d /\
            rl_view r = m_view (replay mstate m_init m_exec_remote (fst (map_srun steps)) (dd_duid d) (rl_ver r)).
Proof. exact map_document. Qed.
Print Assumptions C11_map_document.

Theorem C11_map_version : forall steps later col key v1,
  real_ver (snd (map_srun steps)) col key = Some v1 ->
  exists v2, real_ver (snd (map_srun (steps ++ later))) col key = Some v2 /\ v1 <= v2.
Proof. exact map_version. Qed.
Print Assumptions C11_map_version.

Theorem C11_map_rebuild : forall steps D d, find_dt (fst (map_srun steps)) D = Some d ->
  let '(st, v) := latest_datatype mstate m_init m_exec_remote m_unmarshal (fst (map_srun steps)) (snd (map_srun steps)) d in
  v = dd_end d /\ m_equiv st (replay mstate m_init m_exec_remote (fst (map_srun steps)) D (dd_end d)).
Proof. exact map_rebuild. Qed.
Print Assumptions C11_map_rebuild.

(* non-vacuity: a counter is created with two operations, a second push adds a third; the update captured by the
   FIRST handler (end of log 2) runs only after the second push, then the second handler's update runs, then the
   stale one runs again: two snapshots (versions 2 and 3), the user document ends at version 3 with value 12, and the
   late stale update changes nothing *)
Example C11_example :
  let c := [99]%N in let u := [117]%N in let k := [107]%N in let col := [65]%N in
  let o1 := OSnap (mkOpid 0 1 u 1) in let o2 := OInc (mkOpid 0 2 u 2) 5 in let o3 := OInc (mkOpid 0 3 u 3) 7 in
  let d2 := mkDdoc c k 1 0 2 [] [] in let d3 := mkDdoc c k 1 0 3 [] [] in
  let steps := [SServe (RCollection col); SServe (RClient col u);
                SServe (RPushPull col u [mkPpp k c bit_create (mkCp 0 2) 0 [o1; o2] None]);
                SServe (RPushPull col u [mkPpp k c 0 (mkCp 2 3) 0 [o3] None]);
                SUpdate col d2; SUpdate col d3; SUpdate col d2] in
  map (fun sn => (sn_sseq sn, sn_snap sn)) (ss_snaps (snd (counter_srun steps))) = [(2, JCounter 5); (3, JCounter 12)] /\
  map (fun r => (rl_view r, rl_ver r)) (ss_real (snd (counter_srun steps))) = [(VNum 12, 3)].
Proof. vm_compute. split; reflexivity. Qed.
Print Assumptions C11_example.
