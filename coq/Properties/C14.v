(* C14 — Operations and values survive the wire and the store unchanged.
   Modelled: the conversion operation <-> (id, type number, JSON body) <-> stored document (type
   NAME).  Not modelled but exercised on every run: encoding/json, protobuf and BSON byte formats,
   and float64 — the model's numbers are exact integers, which is faithful for |z| <= 2^53. *)
From Coq Require Import List NArith.
From Orda.Model Require Import Base Time Ops Codec.
From Orda.Proofs Require Import CodecFacts.

(* every JSON-representable value decodes back to itself, at any nesting depth *)
Theorem C14_value_roundtrip : forall v, json_to_val (val_to_json v) = Some v.
Proof. exact val_json_roundtrip. Qed.
Print Assumptions C14_value_roundtrip.

(* timestamps survive although zero / empty fields are omitted from the encoding *)
Theorem C14_timestamp_roundtrip : forall t, json_to_ts (ts_to_json t) = t.
Proof. exact ts_json_roundtrip. Qed.
Print Assumptions C14_timestamp_roundtrip.

(* every operation (all 12 body-carrying types: transaction, counter, map, list, document) encodes
   to a message that decodes to the same operation: same identifier, type and body — decoding never
   fails on an encoded message *)
Theorem C14_codec_roundtrip : forall o, (forall i, o <> OSnap i) -> model_to_op (op_to_model o) = Some o.
Proof. exact codec_roundtrip. Qed.
Print Assumptions C14_codec_roundtrip.

(* the type survives the store, where it travels by name: the two enum tables are mutually inverse *)
Theorem C14_enum_tables_inverse : forall n, In n (map fst type_names) -> type_number (type_name n) = n.
Proof. exact type_tables_inverse. Qed.
Print Assumptions C14_enum_tables_inverse.

Theorem C14_stored_operation_roundtrip : forall o, (forall i, o <> OSnap i) ->
  model_to_op (doc_to_model (model_to_doc (op_to_model o))) = Some o.
Proof. exact stored_op_roundtrip. Qed.
Print Assumptions C14_stored_operation_roundtrip.
