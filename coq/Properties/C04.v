(* C04 — List elements are never duplicated, lost, resurrected or reordered.
   Proved per replica for every operation: elements keep their relative order (insertion only adds,
   delete/update change in place), a deleted element is never brought back, a local insert at index
   i is readable at index i.  Across replicas (Proofs/ListConv.v): whatever two replicas have executed so far, what
   each holds is a subsequence of one duplicate-free sequence of elements — the one both hold once they have executed
   everything (convergence of the list, C01) — so any two elements appear in the same relative order on every replica
   at every moment, and no element appears twice.  Checked in addition on every run by the model replay and by the
   oracle that follows every element through every replica-moment. *)
From Coq Require Import List NArith ZArith.
From Orda.Model Require Import Base Time Ops List.
From Coq Require Import Permutation.
From Orda.Proofs Require Import OrderFacts Permute Sys ListFacts ListConv ListSys.

Theorem C04_local_insert_readable_at_index : forall s pos v vs i s' o r,
  sized s -> l_validate s (LInsert pos (v :: vs)) = true ->
  l_exec_local s (LInsert pos (v :: vs)) i = Some (s', o, r) ->
  nth_error (l_values s') (Z.to_nat pos) = Some v.
Proof. exact local_insert_readable. Qed.
Print Assumptions C04_local_insert_readable_at_index.

(* every remote operation keeps all existing elements, in their order.  [is_snap o = false]: the snapshot
   operation, which a client creates once with the datatype and the server stores as the first operation of
   the log, REPLACES the state by its body; it is not an operation on elements. *)
Theorem C04_order_stable_on_replica : forall s o, is_snap o = false ->
  sublist (ids (l_nodes s)) (ids (l_nodes (l_exec_remote s o))).
Proof. exact remote_keeps_order. Qed.
Print Assumptions C04_order_stable_on_replica.

(* a deleted element stays deleted under every remote operation (update included) *)
Theorem C04_never_resurrected : forall s o, is_snap o = false ->
  sublist (dead_ids (l_nodes s)) (dead_ids (l_nodes (l_exec_remote s o))).
Proof. exact remote_never_resurrects. Qed.
Print Assumptions C04_never_resurrected.

(* local operations act on the live values like slice operations: nothing else appears or disappears *)
Theorem C04_local_ops_exact : forall s c i,
  sized s -> l_validate s c = true ->
  exists s' o r, l_exec_local s c i = Some (s', o, r) /\ sized s' /\ op_id o = i /\
    match c with
    | LInsert pos vs => l_values s' = plain_insert (l_values s) (Z.to_nat pos) vs /\ r = vs
    | LDelete pos num => l_values s' = plain_delete (l_values s) (Z.to_nat pos) (Z.to_nat num) /\
                         r = firstn (Z.to_nat num) (skipn (Z.to_nat pos) (l_values s))
    | LUpdate pos vs => l_values s' = plain_update (l_values s) (Z.to_nat pos) vs /\
                        r = firstn (length vs) (skipn (Z.to_nat pos) (l_values s))
    end.
Proof. exact list_local_refines_plain. Qed.
Print Assumptions C04_local_ops_exact.

(* across replicas, at every moment: l1, l2 = what two replicas have executed so far; e1, e2 = any executable completions
   to the same set of operations.  [sublist a F]: a is F with some elements left out, order kept. *)
Theorem C04_same_order_on_all_replicas : forall l1 e1 l2 e2,
  NoDup (map loid (l1 ++ e1)) -> Permutation (l1 ++ e1) (l2 ++ e2) ->
  exec_ok lstate op l_exec_remote l_ready l_init (l1 ++ e1) -> exec_ok lstate op l_exec_remote l_ready l_init (l2 ++ e2) ->
  exists F, NoDup F /\
    sublist (ids (l_nodes (fold_left l_exec_remote l1 l_init))) F /\
    sublist (ids (l_nodes (fold_left l_exec_remote l2 l_init))) F.
Proof. exact list_order_consistent. Qed.
Print Assumptions C04_same_order_on_all_replicas.

(* every executable history keeps identities distinct (no element twice) *)
Theorem C04_no_duplicates : forall ops,
  exec_ok lstate op l_exec_remote l_ready l_init ops -> NoDup (ids (l_nodes (fold_left l_exec_remote ops l_init))).
Proof. intros ops H. destruct (exec_ok_invariants ops l_init lgood_nil eq_refl H) as [[G _] _]. exact G. Qed.
Print Assumptions C04_no_duplicates.

(* At system level (Proofs/ListSys.v; the replicated system of Proofs/Sys.v instantiated with the list: any number of
   replicas, one server log, generate / push / deliver-in-log-order / skip-own in any interleaving).  In EVERY reachable
   state, on EVERY replica: no element identifier occurs twice and the size counter is the number of live elements.
   Executability of the replica's history is not a premise here: it follows from the protocol. *)
Theorem C04_system_no_duplicates :
  forall (author : op -> nat) (s : sys op) (r : nat),
    reachable lstate op tkey loid author l_exec_remote l_ready l_init s ->
    let st := fold_left l_exec_remote (applied _ (reps _ s r)) l_init in
    NoDup (ids (l_nodes st)) /\ l_size st = Z.of_nat (length (l_values st)).
Proof. exact list_sys_no_duplicates. Qed.
Print Assumptions C04_system_no_duplicates.

(* ... and the same relative order everywhere: take a reachable state in which two replicas have applied the same
   operations, and any earlier moments of their histories (prefixes l1, l2 of what they have applied): what each held then
   is a subsequence of one duplicate-free sequence F *)
Theorem C04_system_same_order :
  forall (author : op -> nat) (s' : sys op) (r1 r2 : nat) (l1 e1 l2 e2 : list op),
    reachable lstate op tkey loid author l_exec_remote l_ready l_init s' ->
    applied _ (reps _ s' r1) = l1 ++ e1 -> applied _ (reps _ s' r2) = l2 ++ e2 ->
    Permutation (l1 ++ e1) (l2 ++ e2) ->
    exists F, NoDup F /\
      sublist (ids (l_nodes (fold_left l_exec_remote l1 l_init))) F /\
      sublist (ids (l_nodes (fold_left l_exec_remote l2 l_init))) F.
Proof. exact list_sys_order. Qed.
Print Assumptions C04_system_same_order.
