(* C09 — Transactions are all-or-nothing, locally and on every replica.
   [*_run] executes an arbitrary history (calls valid or not, transactions committed or
   aborted, foreign operations, checkpoint moves) on the model datatype; None means a call
   panicked (a Go crash), which the correspondence check never observed. *)
From Coq Require Import List ZArith.
From Orda.Model Require Import Base Time Ops Counter Map List Datatype CheckCrdt.
From Orda.Proofs Require Import DatatypeFacts KernelInst.

(* an aborted transaction — whatever its body: valid, invalid, even panicking calls — leaves the
   snapshot, the next operation identifier, the pending operations and the checkpoint as they were,
   at any point of any history *)
Theorem C09_abort_restores_counter : forall c es d tag cs, c_run (c_new c) es = Some d ->
  let d' := fst (c_tx d tag cs true) in
  d_snap d' = d_snap d /\ d_oid d' = d_oid d /\ d_buf d' = d_buf d /\ d_cp d' = d_cp d.
Proof. exact counter_abort_restores. Qed.
Print Assumptions C09_abort_restores_counter.

Theorem C09_abort_restores_map : forall c es d tag cs, m_run (m_new c) es = Some d ->
  let d' := fst (m_tx d tag cs true) in
  d_snap d' = d_snap d /\ d_oid d' = d_oid d /\ d_buf d' = d_buf d /\ d_cp d' = d_cp d.
Proof. exact map_abort_restores. Qed.
Print Assumptions C09_abort_restores_map.

Theorem C09_abort_restores_list : forall c es d tag cs, l_run (l_new c) es = Some d ->
  let d' := fst (l_tx d tag cs true) in
  d_snap d' = d_snap d /\ d_oid d' = d_oid d /\ d_buf d' = d_buf d /\ d_cp d' = d_cp d.
Proof. exact list_abort_restores. Qed.
Print Assumptions C09_abort_restores_list.

(* a committed transaction is appended to the pending operations as ONE contiguous unit whose
   first operation is the TRANSACTION header announcing the unit's length *)
Theorem C09_commit_is_unit : forall c es d tag cs, l_run (l_new c) es = Some d ->
  let '(d', rs) := l_tx d tag cs false in
  Forall (fun r => r <> Panicked) rs ->
  exists ops, d_buf d' = d_buf d ++ OTx (opid_next (d_oid d)) tag (Z.of_nat (S (length ops))) :: ops /\
              Forall (fun o => is_tx o = false) ops.
Proof. exact list_commit_is_unit. Qed.
Print Assumptions C09_commit_is_unit.

(* a replica applies all operations of a well-formed unit ... *)
Theorem C09_remote_all : forall (St call J : Type) (k_remote : St -> op -> St) (d : @dt St call J) i tag body,
  receive_ops St call J k_remote d (OTx i tag (Z.of_nat (S (length body))) :: body) =
    match body with
    | [] => ROk _ _ _ (remote_op St call J k_remote d (OTx i tag 1%Z))
    | _ => ROk _ _ _ (fold_left (remote_op St call J k_remote) body d)
    end.
Proof. exact remote_unit_all. Qed.
Print Assumptions C09_remote_all.

(* ... and none of a unit that is truncated or announces a zero, negative or too large length *)
Theorem C09_remote_none : forall (St call J : Type) (k_remote : St -> op -> St) (d : @dt St call J) i tag n body,
  (n < 1 \/ Z.of_nat (S (length body)) < n)%Z ->
  receive_ops St call J k_remote d (OTx i tag n :: body) = RError _ _ _ d.
Proof. exact remote_unit_none. Qed.
Print Assumptions C09_remote_none.

(* non-vacuity: a list history with a remote operation, then an aborted transaction *)
Example C09_example :
  let c := [97]%N in let c2 := [98]%N in
  match l_run (l_new c) [DCall _ (LInsert 0 [VNum 1; VNum 2]); DRecv _ (OIns (mkOpid 0 9 c2 2) oldest_ts [VNum 7]);
                         DTxn _ [116]%N [LDelete 0 1] false] with
  | Some d => d_snap (fst (l_tx d [120]%N [LInsert 1 [VNum 5]; LDelete 9 1; LUpdate 0 [VNum 6]] true)) = d_snap d
              /\ l_values (d_snap d) = [VNum 1; VNum 2]
  | None => False
  end.
Proof. vm_compute. split; reflexivity. Qed.
Print Assumptions C09_example.
