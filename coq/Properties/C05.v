(* C05 — Clients that sync through the server end up identical to each other and to it.
   The system is Model/Net.v (store + clients + datatypes; events: local calls, transactions,
   exchanges).  The full statement is C05_statement_*; what is machine-checked so far are the
   ingredients it decomposes into (checkpoint monotonicity, exactly-the-log-suffix delivery, the
   server's log invariant, convergence of equal operation sets); the composition over Net.v
   is not yet proved and the statement is kept here as a definition, not as a theorem. *)
From Coq Require Import List NArith Permutation.
From Orda.Model Require Import Base Time Ops Counter Map List Datatype CheckCrdt Server Wire Net.
From Orda.Proofs Require Import OrderFacts Permute Sys CounterFacts MapFacts MapConv ServerFacts WireFacts.

(* the full statement, for the list datatype: in any fault-free history, subscribed datatype
   objects of the same datatype that have nothing left to push or pull hold the same snapshot *)
Definition no_faults {call} (es : list (nev call)) : Prop :=
  forall i f, In (NSync i f) es -> f = FNone.
Definition C05_statement_list : Prop :=
  forall (es : list (nev lcall)) x y,
    no_faults es ->
    let s := nrun lstate lcall (list val) lstate l_init l_validate l_local' l_exec_remote id_ id_ 2 es in
    In x (n_cls s) -> In y (n_cls s) ->
    subscribed _ _ _ x = true -> subscribed _ _ _ y = true -> same_datatype _ _ _ x y ->
    settled _ _ _ (n_db s) x -> settled _ _ _ (n_db s) y ->
    d_snap (w_d (n_w x)) = d_snap (w_d (n_w y)).

(* (1) a response never moves a client's checkpoint backwards nor touches its pending operations *)
Theorem C05_checkpoint_monotone :
  forall (St call J : Type) (k_init : St) (k_remote : St -> op -> St) (k_export : St -> J)
         (w : @wdt St call J) (r : ppp) w' a,
    has (p_opt r) bit_subscribe = false ->
    apply_pack St call J k_init k_remote k_export w r = AOk _ _ _ w' a ->
    (sseq (d_cp (w_d w)) <= sseq (d_cp (w_d w')))%N /\ (cseq (d_cp (w_d w)) <= cseq (d_cp (w_d w')))%N /\
    (dstate_eqb (w_state w) DueToSubscribeCreate = false -> d_buf (w_d w') = d_buf (w_d w)).
Proof. exact apply_pack_cp_monotone. Qed.
Print Assumptions C05_checkpoint_monotone.

(* (2) what the server hands a client is exactly the log entries after the checkpoint the client
   presented, each once, in log order (sseq from, from+1, ..., End) *)
Theorem C05_pulled_is_log_suffix : forall db D e from,
  map od_sseq (ops_of (s_ops db) D) = nseq 1 (N.to_nat e) ->
  map od_sseq (get_ops db D from) = filter (fun s => (from <=? s)%N) (nseq 1 (N.to_nat e)) /\
  Forall (fun o => od_duid o = D) (get_ops db D from).
Proof. exact pulled_is_log_suffix. Qed.
Print Assumptions C05_pulled_is_log_suffix.

(* (3) the premise of (2) holds in every reachable store *)
Theorem C05_log_is_total_order : forall rs : list request, LogInv (fold_left serve rs sdb_init).
Proof. exact log_invariant. Qed.
Print Assumptions C05_log_is_total_order.

(* (4) replicas that executed the same operations, in any executable orders, hold the same state *)
Theorem C05_same_operations_same_state :
  forall (St Op Id : Type) (oid : Op -> Id) (apply : St -> Op -> St) (ready : St -> Op -> Prop) (good : St -> Prop),
    (forall s a, good s -> ready s a -> good (apply s a)) ->
    (forall s a b, good s -> oid a <> oid b -> ready s a -> ready s b -> ready (apply s a) b) ->
    (forall s a b, good s -> oid a <> oid b -> ready s a -> ready s b -> apply (apply s a) b = apply (apply s b) a) ->
    forall l2 l1 s, good s -> NoDup (map oid l1) -> Permutation l1 l2 ->
      exec_ok St Op apply ready s l1 -> exec_ok St Op apply ready s l2 ->
      fold_left apply l1 s = fold_left apply l2 s.
Proof. exact executable_permutations_agree. Qed.
Print Assumptions C05_same_operations_same_state.

(* (5) what a client executes out of a response is a suffix of the response's foreign operations in their order — never
   an own operation, a reordering or a hole — and all of them whenever the checkpoint arithmetic counts that many *)
Theorem C05_executed_is_suffix_of_foreign : forall own c r ops,
  incoming own false c r = Some ops ->
  exists pre, filter (fun o => negb (str_eqb (o_cuid (op_id o)) own)) (p_ops r) = pre ++ ops.
Proof. exact incoming_is_suffix. Qed.
Print Assumptions C05_executed_is_suffix_of_foreign.
Theorem C05_executed_is_all_when_counted : forall own c r,
  let others := filter (fun o => negb (str_eqb (o_cuid (op_id o)) own)) (p_ops r) in
  (Z.of_nat (length others) <=
   wrap64 (Z.of_N (u64sub (u64sub (sseq (p_cp r)) (sseq c)) (u64sub (cseq (p_cp r)) (cseq c)))))%Z ->
  incoming own false c r = Some others.
Proof. exact incoming_takes_all. Qed.
Print Assumptions C05_executed_is_all_when_counted.
