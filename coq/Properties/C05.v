(* C05 — Clients that sync through the server end up identical to each other and to it.
   Two systems are used.  Model/Net.v (store + clients + datatypes; events: local calls, transactions, exchanges with
   every entry mode) is what the correspondence check replays; the statement over it, C05_statement_list, is kept as a
   definition.  Proofs/Protocol.v is the steady state of one datatype (subscribed clients, local operations,
   exchanges whose answers may be lost): for it the protocol half of C05 is a theorem — (8) below: every client
   executes exactly the other clients' operations of the log prefix it has seen, in log order, each once, checkpoints
   never move back — built from the one-exchange theorems (6), (7) about the modelled server handler and the modelled
   ApplyPushPullPack.  Together with "equal operation sets give equal states" ((4), instantiated for counter and map in
   C01) this is C05 for the steady state; what remains unproved is the entry phase (create / subscribe /
   subscribe-or-create transitions of Net.v), transactions as units, and the list / Document instances of (4). *)
From Coq Require Import List NArith Permutation.
From Orda.Model Require Import Base Time Ops Counter Map List Datatype CheckCrdt Server Wire Net.
From Orda.Proofs Require Import OrderFacts Permute Sys CounterFacts MapFacts MapConv ServerFacts WireFacts.

(* the full statement, for the list datatype: in any fault-free history, subscribed datatype
   objects of the same datatype that have nothing left to push or pull hold the same snapshot *)
Definition no_faults {call} (es : list (nev call)) : Prop :=
  forall i f, In (NSync i f) es -> f = FNone.
Definition C05_statement_list : Prop :=
  forall (es : list (nev lcall)) x y,
    no_faults es ->
    let s := nrun lstate lcall (list val) lstate l_init l_validate l_local' l_exec_remote id_ id_ 2 es in
    In x (n_cls s) -> In y (n_cls s) ->
    subscribed _ _ _ x = true -> subscribed _ _ _ y = true -> same_datatype _ _ _ x y ->
    settled _ _ _ (n_db s) x -> settled _ _ _ (n_db s) y ->
    d_snap (w_d (n_w x)) = d_snap (w_d (n_w y)).

(* (1) a response never moves a client's checkpoint backwards nor touches its pending operations *)
Theorem C05_checkpoint_monotone :
  forall (St call J : Type) (k_init : St) (k_remote : St -> op -> St) (k_export : St -> J)
         (w : @wdt St call J) (r : ppp) w' a,
    has (p_opt r) bit_subscribe = false ->
    apply_pack St call J k_init k_remote k_export w r = AOk _ _ _ w' a ->
    (sseq (d_cp (w_d w)) <= sseq (d_cp (w_d w')))%N /\ (cseq (d_cp (w_d w)) <= cseq (d_cp (w_d w')))%N /\
    (dstate_eqb (w_state w) DueToSubscribeCreate = false -> d_buf (w_d w') = d_buf (w_d w)).
Proof. exact apply_pack_cp_monotone. Qed.
Print Assumptions C05_checkpoint_monotone.

(* (2) what the server hands a client is exactly the log entries after the checkpoint the client
   presented, each once, in log order (sseq from, from+1, ..., End) *)
Theorem C05_pulled_is_log_suffix : forall db D e from,
  map od_sseq (ops_of (s_ops db) D) = nseq 1 (N.to_nat e) ->
  map od_sseq (get_ops db D from) = filter (fun s => (from <=? s)%N) (nseq 1 (N.to_nat e)) /\
  Forall (fun o => od_duid o = D) (get_ops db D from).
Proof. exact pulled_is_log_suffix. Qed.
Print Assumptions C05_pulled_is_log_suffix.

(* (3) the premise of (2) holds in every reachable store *)
Theorem C05_log_is_total_order : forall rs : list request, LogInv (fold_left serve rs sdb_init).
Proof. exact log_invariant. Qed.
Print Assumptions C05_log_is_total_order.

(* (4) replicas that executed the same operations, in any executable orders, hold the same state *)
Theorem C05_same_operations_same_state :
  forall (St Op Id : Type) (oid : Op -> Id) (apply : St -> Op -> St) (ready : St -> Op -> Prop) (good : St -> Prop),
    (forall s a, good s -> ready s a -> good (apply s a)) ->
    (forall s a b, good s -> oid a <> oid b -> ready s a -> ready s b -> ready (apply s a) b) ->
    (forall s a b, good s -> oid a <> oid b -> ready s a -> ready s b -> apply (apply s a) b = apply (apply s b) a) ->
    forall l2 l1 s, good s -> NoDup (map oid l1) -> Permutation l1 l2 ->
      exec_ok St Op apply ready s l1 -> exec_ok St Op apply ready s l2 ->
      fold_left apply l1 s = fold_left apply l2 s.
Proof. exact executable_permutations_agree. Qed.
Print Assumptions C05_same_operations_same_state.

(* (5) what a client executes out of a response is a suffix of the response's foreign operations in their order — never
   an own operation, a reordering or a hole — and all of them whenever the checkpoint arithmetic counts that many *)
Theorem C05_executed_is_suffix_of_foreign : forall own c r ops,
  incoming own false c r = Some ops ->
  exists pre, filter (fun o => negb (str_eqb (o_cuid (op_id o)) own)) (p_ops r) = pre ++ ops.
Proof. exact incoming_is_suffix. Qed.
Print Assumptions C05_executed_is_suffix_of_foreign.
Theorem C05_executed_is_all_when_counted : forall own c r,
  let others := filter (fun o => negb (str_eqb (o_cuid (op_id o)) own)) (p_ops r) in
  (Z.of_nat (length others) <=
   wrap64 (Z.of_N (u64sub (u64sub (sseq (p_cp r)) (sseq c)) (u64sub (cseq (p_cp r)) (cseq c)))))%Z ->
  incoming own false c r = Some others.
Proof. exact incoming_takes_all. Qed.
Print Assumptions C05_executed_is_all_when_counted.

(* (6) ONE EXCHANGE, END TO END.  A subscribed client with checkpoint (s, cc) sends its pending operations to a
   reachable store; the request is accepted.  Premises relating the two sides (they are what the retry protocol
   maintains: answers may be lost, requests repeated): the client has not seen beyond the log (s <= End); the server has
   acknowledged at least what the client knows (cc <= recorded cseq); the own operations the server holds beyond cc
   lie after s in the log.  Then the answer carries the log entries s+1..End in log order, the client executes exactly
   those of them that are not its own, in that order, each once, and the answer's checkpoint is the new end of the log
   with the newly acknowledged sequence number — so the next exchange starts exactly where this one ended. *)
From Orda.Proofs Require Import ClientOrder ExchangeFacts.
Theorem C05_one_exchange_delivers_exactly : forall db colname col cuid req d0 s cc cp1 newdocs,
  LogInv db -> In d0 (s_dts db) -> dd_col d0 = col -> p_duid req = dd_duid d0 -> p_opt req = 0%N ->
  sseq (p_cp req) = s -> honest_pack cuid req ->
  let D := dd_duid d0 in let e := dd_end d0 in
  let cp0 := match alookup str_eqb cuid (dd_rw d0) with Some c => c | None => mkCp 0 0 end in
  let log := map od_op (get_ops db D (s + 1)) in
  let own := fun o => str_eqb (o_cuid (op_id o)) cuid in
  (s <= e)%N -> (cc <= cseq cp0)%N ->
  N.of_nat (length (filter own log)) = (cseq cp0 - cc)%N ->
  (e + N.of_nat (length (p_ops req)) < 4611686018427387904)%N -> (cseq cp0 + N.of_nat (length (p_ops req)) < 4611686018427387904)%N ->
  push_ops D col (mkCp e (cseq cp0)) (p_ops req) [] = Some (cp1, newdocs) ->
  let resp := snd (fst (handle_pack db colname col cuid req)) in
  p_err resp = None /\
  p_cp resp = mkCp (e + N.of_nat (length newdocs)) (cseq cp0 + N.of_nat (length newdocs)) /\
  map od_sseq (get_ops db D (s + 1)) = filter (fun x => (s + 1 <=? x)%N) (nseq 1 (N.to_nat e)) /\
  incoming cuid false (mkCp s cc) resp = Some (filter (fun o => negb (own o)) log).
Proof. exact normal_exchange_delivers. Qed.
Print Assumptions C05_one_exchange_delivers_exactly.

(* non-vacuity of (6): u creates with two operations; v subscribes; u pushes a third operation and loses the answer;
   v pushes one; now u, still at checkpoint (2,2), re-sends its third operation together with a fourth: all premises
   hold, the fourth is stored, and u executes exactly v's operation *)
Example C05_one_exchange_example :
  let c := [99]%N in let u := [117]%N in let v := [118]%N in let k := [107]%N in let col := [65]%N in
  let o1 := OSnap (mkOpid 0 1 u 1) in let o2 := OInc (mkOpid 0 2 u 2) 5 in let o3 := OInc (mkOpid 0 3 u 3) 7 in
  let o4 := OInc (mkOpid 0 4 u 4) 9 in let p1 := OInc (mkOpid 0 3 v 1) 1 in
  let rs := [RCollection col; RClient col u; RClient col v;
             RPushPull col u [mkPpp k c bit_create (mkCp 0 2) 0 [o1; o2] None];
             RPushPull col v [mkPpp k c bit_subscribe (mkCp 0 0) 0 [] None];
             RPushPull col u [mkPpp k c 0 (mkCp 2 3) 0 [o3] None];
             RPushPull col v [mkPpp k c 0 (mkCp 2 1) 0 [p1] None]] in
  let db := fold_left serve rs sdb_init in
  let req := mkPpp k c 0 (mkCp 2 4) 0 [o3; o4] None in
  match s_dts db with
  | [d0] =>
      let cp0 := match alookup str_eqb u (dd_rw d0) with Some x => x | None => mkCp 0 0 end in
      In d0 (s_dts db) /\ dd_col d0 = 1%N /\ p_duid req = dd_duid d0 /\ honest_pack u req /\
      (2 <= dd_end d0)%N /\ (2 <= cseq cp0)%N /\
      N.of_nat (length (filter (fun o => str_eqb (o_cuid (op_id o)) u) (map od_op (get_ops db (dd_duid d0) 3)))) = (cseq cp0 - 2)%N /\
      option_map (fun x => length (snd x)) (push_ops (dd_duid d0) 1 (mkCp (dd_end d0) (cseq cp0)) (p_ops req) []) = Some 1%nat /\
      incoming u false (mkCp 2 2) (snd (fst (handle_pack db col 1 u req))) = Some [p1] /\
      p_cp (snd (fst (handle_pack db col 1 u req))) = mkCp 5 4
  | _ => False
  end.
Proof. cbv zeta. vm_compute. repeat split; try reflexivity; try (left; reflexivity); try discriminate; repeat constructor. Qed.
Print Assumptions C05_one_exchange_example.

(* (7) ... and the client ends with the answer's checkpoint after handing exactly those operations, in that order, to the
   routine that executes remote operations *)
Theorem C05_one_exchange_client_state :
  forall (St call J : Type) (k_init : St) (k_remote : St -> op -> St) (k_export : St -> J)
         (w : @wdt St call J) resp s cc e a k ops,
    w_state w = SubscribedSt -> d_cp (w_d w) = mkCp s cc ->
    p_opt resp = 0%N -> p_cp resp = mkCp (e + a) (k + a) -> (s <= e)%N -> (cc <= k)%N ->
    incoming (o_cuid (d_oid (w_d w))) false (mkCp s cc) resp = Some ops ->
    apply_pack St call J k_init k_remote k_export w resp =
    match receive_ops St call J k_remote (set_checkpoint St call J (w_d w) (mkCp (e + a) (k + a))) ops with
    | ROk _ _ _ d3 => AOk _ _ _ (mkWdt d3 SubscribedSt (w_duid w) (w_key w)) (mkApplied None false false)
    | RError _ _ _ d3 => AOk _ _ _ (mkWdt d3 SubscribedSt (w_duid w) (w_key w)) (mkApplied None false true)
    | _ => APanic _ _ _
    end.
Proof. exact normal_exchange_client. Qed.
Print Assumptions C05_one_exchange_client_state.

(* (8) THE PROTOCOL, SYSTEM LEVEL (Proofs/Protocol.v).  One datatype, any number of subscribed clients; the server is the
   modelled handler, a client is its checkpoint, its pending operations and the list of operations it has executed, and
   treats an answer as ApplyPushPullPack does ((6) and (7) are the bridge).  Events in any order: a client issues its
   next operation; a client exchanges with the server, and the answer may be lost (so requests are repeated and carry
   operations the server already has).  [PInv] is the invariant proved for every reachable state: the store invariants
   of C06, the client's checkpoint within the log, the server's acknowledgement between what the client knows and what
   it has issued, the own operations the client does not know to be stored lying beyond its checkpoint, and — the
   statement of C05/C07 — what the client has executed being exactly the other clients' operations among the log
   entries it has seen, in log order, each once. *)
From Orda.Proofs Require Import Protocol.
Theorem C05_protocol_exactly_once : forall colname col D key ty st0 evs,
  PInv col D st0 ->
  let st := prun colname col D key ty st0 evs in
  LogInv (ps_db st) /\
  (forall c, In c (ps_cl st) ->
     pc_exec c = filter (fun o => negb (own_of (pc_cuid c) o)) (firstn (N.to_nat (pc_s c)) (logops D (ps_db st)))) /\
  (forall d u, In d (s_dts (ps_db st)) -> seqs_of (s_ops (ps_db st)) (dd_duid d) u = nseq 1 (N.to_nat (ack d u))).
Proof. exact protocol_exactly_once. Qed.
Print Assumptions C05_protocol_exactly_once.

(* once a client has seen the whole log it has executed every operation of the log that is not its own, in log order:
   clients that have synced with nothing left to pull have executed the same operations (and their own are in the log) *)
Theorem C05_protocol_quiescent : forall colname col D key ty st0 evs,
  PInv col D st0 ->
  let st := prun colname col D key ty st0 evs in
  forall d0, In d0 (s_dts (ps_db st)) -> dd_duid d0 = D ->
  forall c, In c (ps_cl st) -> pc_s c = dd_end d0 ->
    pc_exec c = filter (fun o => negb (own_of (pc_cuid c) o)) (logops D (ps_db st)).
Proof. exact protocol_quiescent. Qed.
Print Assumptions C05_protocol_quiescent.

(* a client's checkpoint never moves back *)
Theorem C05_protocol_checkpoint_monotone : forall colname col D key ty st ev i c c',
  nth_error (ps_cl st) i = Some c -> nth_error (ps_cl (pstep colname col D key ty st ev)) i = Some c' ->
  (pc_s c <= pc_s c')%N /\ (pc_cc c <= pc_cc c')%N.
Proof. exact checkpoint_monotone. Qed.
Print Assumptions C05_protocol_checkpoint_monotone.

(* non-vacuity: u has created the datatype, v has subscribed — this state satisfies the invariant; then u issues an
   operation and loses the answer to its push, v issues one and syncs, u syncs (re-sending), v syncs: u has executed
   v's operation, v has executed u's two, each once *)
Example C05_protocol_example :
  let c := [99]%N in let u := [117]%N in let v := [118]%N in let k := [107]%N in let col := [65]%N in
  let o1 := OSnap (mkOpid 0 1 u 1) in let o2 := OInc (mkOpid 0 2 u 2) 5 in let p1 := OInc (mkOpid 0 2 v 1) 1 in
  let rs := [RCollection col; RClient col u; RClient col v;
             RPushPull col u [mkPpp k c bit_create (mkCp 0 1) 0 [o1] None];
             RPushPull col v [mkPpp k c bit_subscribe (mkCp 0 0) 0 [] None]] in
  let st0 := mkPs (fold_left serve rs sdb_init) [mkPc u 1 1 [] []; mkPc v 1 0 [] [o1]] in
  let evs := [PLocal 0 o2; PSync 0 true; PLocal 1 p1; PSync 1 false; PSync 0 false; PSync 1 false] in
  PInv 1 c st0 /\
  map (fun x => (pc_s x, pc_cc x, pc_buf x, pc_exec x)) (ps_cl (prun col 1 c k 0 st0 evs)) = [(3, 2, [], [p1]); (3, 1, [], [o1; o2])]%N.
Proof.
  cbv zeta. split; [|vm_compute; reflexivity].
  split; [apply log_invariant|]. split; [apply client_order; repeat constructor|]. split; [repeat constructor; cbn; intuition discriminate|].
  eexists. split; [vm_compute; left; reflexivity|]. split; [reflexivity|]. split; [reflexivity|].
  repeat constructor; vm_compute; try reflexivity; try discriminate.
Qed.
Print Assumptions C05_protocol_example.

(* (9) LATE SUBSCRIBERS and the network (Proofs/ProtocolLate.v, Proofs/ProtocolJoin.v): the system of (8) with every answer
   ever given deliverable late, out of order and repeatedly ([LLate]), and with clients that join at any time by
   Subscribe(key) or SubscribeOrCreate(key) of an existing key ([JJoin v Dv orc], orc = the snapshot operation a
   subscribe-or-create request carries and the server ignores: the server's subscribe path and the subscribe branch of ApplyPushPullPack — the joiner
   is answered with the whole log and executes all of it).  [JInv] = the invariant of (8) for the base system, the
   description of every answer in the network, and the datatype keeping its key and type. *)
From Orda.Proofs Require Import ProtocolLate ProtocolJoin.
Theorem C05_protocol_with_late_subscribers : forall colname col D key ty st0 evs,
  JInv col D key ty st0 ->
  let st := l_base (jrun colname col D key ty st0 evs) in
  LogInv (ps_db st) /\
  (forall c, In c (ps_cl st) ->
     pc_exec c = foreign (pc_cuid c) (firstn (N.to_nat (pc_s c)) (logops D (ps_db st)))) /\
  (forall d u, In d (s_dts (ps_db st)) -> seqs_of (s_ops (ps_db st)) (dd_duid d) u = nseq 1 (N.to_nat (ack d u))).
Proof. exact joiners_exactly_once. Qed.
Print Assumptions C05_protocol_with_late_subscribers.

(* non-vacuity: u has created the datatype and is alone; it issues an operation and syncs; w subscribes late and receives
   both operations; w issues one and syncs; u's old answer arrives again; u syncs: everybody has everything, once *)
Example C05_late_subscriber_example :
  let c := [99]%N in let u := [117]%N in let w := [119]%N in let k := [107]%N in let col := [65]%N in
  let o1 := OSnap (mkOpid 0 1 u 1) in let o2 := OInc (mkOpid 0 2 u 2) 5 in let q1 := OInc (mkOpid 0 3 w 1) 1 in
  let rs := [RCollection col; RClient col u; RClient col w;
             RPushPull col u [mkPpp k c bit_create (mkCp 0 1) 0 [o1] None]] in
  let st0 := mkLs (mkPs (fold_left serve rs sdb_init) [mkPc u 1 1 [] []]) [] in
  let evs := [JBase (LBase (PLocal 0 o2)); JBase (LBase (PSync 0 false)); JJoin w [100]%N (Some (OSnap (mkOpid 0 1 w 1))); JBase (LBase (PLocal 1 q1));
              JBase (LBase (PSync 1 false)); JBase (LLate 0 0); JBase (LBase (PSync 0 false)); JBase (LLate 1 0)] in
  JInv 1 c k 0 st0 /\
  map (fun x => (pc_cuid x, pc_s x, pc_cc x, pc_buf x, pc_exec x)) (ps_cl (l_base (jrun col 1 c k 0 st0 evs)))
  = [(u, 3, 2, [], [q1]); (w, 3, 1, [], [o1; o2])]%N.
Proof.
  cbv zeta. split; [|vm_compute; reflexivity].
  apply JInv_of_LInv; [| |reflexivity].
  - apply LInv_of_PInv; [|intros d0 Hin Hd; vm_compute in Hin; destruct Hin as [<-|[]]; vm_compute; reflexivity].
    split; [apply log_invariant|]. split; [apply client_order; repeat constructor|]. split; [repeat constructor; cbn; intuition discriminate|].
    eexists. split; [vm_compute; left; reflexivity|]. split; [reflexivity|]. split; [reflexivity|].
    repeat constructor; vm_compute; try reflexivity; try discriminate.
  - intros d Hin Hd. vm_compute in Hin. destruct Hin as [<-|[]]. split; reflexivity.
Qed.
Print Assumptions C05_late_subscriber_example.

(* (10) THE ABSTRACT CLIENT IS THE WIRED CLIENT (Proofs/ClientRefine.v): the client record of (8)/(9) is Model/Wire.v's
   client — the model the correspondence check runs against the Go client — seen through [absc] (own identifier, checkpoint,
   operations still to be pushed; the executed operations as a ghost).  For a subscribed datatype the request is the
   abstract request, and a regular answer (no error, not a subscribe answer, no transaction units) moves checkpoint and
   pending operations exactly as the sync step of (8) does, and the datatype state is the kernel's remote execution of
   exactly the operations [incoming] selects, in order. *)
From Orda.Model Require Import Datatype.
From Orda.Proofs Require Import ClientRefine.
Theorem C05_wired_request_is_abstract_request : forall (St call J : Type) (k_type : N) (w : wdt St call J) (exec : list op),
  w_state w = SubscribedSt ->
  mkpack St call J k_type w = preq (w_duid w) (w_key w) k_type (absc St call J w exec).
Proof. exact mkpack_is_preq. Qed.
Print Assumptions C05_wired_request_is_abstract_request.

Theorem C05_wired_answer_is_abstract_step : forall (St call J : Type) (k_init : St) (k_remote : St -> op -> St) (k_export : St -> J)
    (w : wdt St call J) (r : ppp) (exec ops : list op),
  w_state w = SubscribedSt -> has (p_opt r) bit_error = false -> has (p_opt r) bit_subscribe = false ->
  BufInv St call J (w_d w) ->
  incoming (o_cuid (d_oid (w_d w))) false (d_cp (w_d w)) r = Some ops -> no_tx ops ->
  exists (w' : wdt St call J) (a : Wire.applied),
    apply_pack St call J k_init k_remote k_export w r = AOk St call J w' a /\
    w_state w' = SubscribedSt /\ w_duid w' = w_duid w /\ w_key w' = w_key w /\
    d_snap (w_d w') = fold_left k_remote ops (d_snap (w_d w)) /\
    BufInv St call J (w_d w') /\
    (let c := absc St call J w exec in
     let s' := N.max (pc_s c) (sseq (p_cp r)) in
     let cc' := N.max (pc_cc c) (cseq (p_cp r)) in
     absc St call J w' (exec ++ ops) =
     mkPc (pc_cuid c) s' cc' (skipn (N.to_nat (cc' - pc_cc c)) (pc_buf c)) (pc_exec c ++ ops)).
Proof. exact apply_pack_refines. Qed.
Print Assumptions C05_wired_answer_is_abstract_step.

(* (11) THE WHOLE LIFE OF A DATATYPE (Proofs/ProtocolCreate.v, with Proofs/Recovery.v and Proofs/ProtocolFault.v of C08):
   the invariant of (8)/(9) is not an assumption — the creating exchange establishes it.  Any store reached by requests of
   honest clients; a client creates the datatype under an unused key with its snapshot operation; from then on ANY history —
   local operations, exchanges, lost, late and repeated answers, clients subscribing at any time, storage commands failing
   during any exchange ([xrun], C08).  In every state reached, on the acknowledged store [clean] (= the store itself when
   no command has failed): the log invariant; every client has executed exactly the foreign operations of the log prefix it
   has seen, in log order, each once; every client's operations are stored exactly once in issue order; and a client that
   has synced to the end of the log has executed the whole log but its own operations. *)
From Orda.Proofs Require Import FaultFacts Recovery ProtocolFault ProtocolCreate.
Theorem C05_datatype_life : forall colname col D key ty rs u o1 evs,
  Forall honest rs ->
  let db := fold_left serve rs sdb_init in
  find_dt db D = None -> find_dt_by_key db col key = None -> o_cuid (op_id o1) = u -> oseq' o1 = 1%N ->
  let '(db', resp, pubs) := handle_pack db colname col u (mkPpp key D bit_create (mkCp 0 1) ty [o1] None) in
  p_err resp = None /\
  let st := xrun colname col D key ty (mkLs (mkPs db' [mkPc u 1 1 [] []]) []) evs in
  let dbc := clean (dbof st) in
  LogInv dbc /\
  (forall c, In c (ps_cl (l_base st)) ->
     pc_exec c = foreign (pc_cuid c) (firstn (N.to_nat (pc_s c)) (logops D dbc))) /\
  (forall d w, In d (s_dts dbc) -> seqs_of (s_ops dbc) (dd_duid d) w = nseq 1 (N.to_nat (ack d w))) /\
  (forall d0, In d0 (s_dts dbc) -> dd_duid d0 = D -> forall c, In c (ps_cl (l_base st)) -> pc_s c = dd_end d0 ->
     pc_exec c = foreign (pc_cuid c) (logops D dbc)).
Proof. exact datatype_life. Qed.
Print Assumptions C05_datatype_life.

(* the creating exchange alone: answer without error, and the invariant with the creator as the only client *)
Theorem C05_creation_establishes_invariant : forall colname col D key ty db u o1,
  LogInv db -> ClientInv db -> find_dt db D = None -> find_dt_by_key db col key = None ->
  o_cuid (op_id o1) = u -> oseq' o1 = 1%N ->
  let req := mkPpp key D bit_create (mkCp 0 1) ty [o1] None in
  let '(db', resp, pubs) := handle_pack db colname col u req in
  p_err resp = None /\ JInv col D key ty (mkLs (mkPs db' [mkPc u 1 1 [] []]) []).
Proof. exact creation_establishes_invariant. Qed.
Print Assumptions C05_creation_establishes_invariant.

(* ... and a local call that succeeds is the local step of (8): the emitted operation carries the client's identifier and
   exactly the sequence number the abstract system expects next, and the operations to be pushed grow by it.  [IdInv]:
   the buffer holds the operations issued so far with sequence numbers 1, 2, ...; sequence numbers far from wrapping. *)
Theorem C05_wired_local_call_is_abstract_local_step : forall (St call ret J : Type) (k_validate : St -> call -> bool)
    (k_local : St -> call -> opid -> lres St ret),
  (forall s c i s' o r, k_local s c i = LOk s' o r -> op_id o = i) ->
  forall (d : dt St call J) c d' r,
  IdInv St call J d -> (N.of_nat (length (d_buf d)) + 1 < two64)%N ->
  local_call St call ret J k_validate k_local d c = (d', Done r) ->
  exists o, d_buf d' = d_buf d ++ [o] /\ d_cp d' = d_cp d /\
    o_cuid (op_id o) = o_cuid (d_oid d) /\
    oseq' o = (cseq (d_cp d) + N.of_nat (length (pending St call J d)) + 1)%N /\
    pending St call J d' = pending St call J d ++ [o] /\ IdInv St call J d'.
Proof. exact local_call_refines. Qed.
Print Assumptions C05_wired_local_call_is_abstract_local_step.

(* ... and the answer to Subscribe / SubscribeOrCreate makes the wired client the joiner of (9): state = the kernel's remote
   execution, from the initial state, of exactly the operations [incoming] selects (all of them, (9)); empty buffer;
   checkpoint as the abstract joiner's; the server's DUID adopted *)
Theorem C05_wired_subscribe_answer_is_abstract_join : forall (St call J : Type) (k_init : St) (k_remote : St -> op -> St)
    (k_export : St -> J) (w : wdt St call J) (r : ppp) (ops : list op),
  w_state w = DueToSubscribe \/ w_state w = DueToSubscribeCreate ->
  has (p_opt r) bit_error = false -> has (p_opt r) bit_subscribe = true ->
  (match p_ops r with o :: _ => is_snap o | [] => false end) = true ->
  let c0 := mkCp (u64sub (sseq (p_cp r)) (N.of_nat (length (p_ops r)))) (cseq (p_cp r)) in
  incoming (o_cuid (d_oid (w_d w))) true c0 r = Some ops -> no_tx ops ->
  exists (w' : wdt St call J) (a : Wire.applied),
    apply_pack St call J k_init k_remote k_export w r = AOk St call J w' a /\
    w_state w' = SubscribedSt /\ w_duid w' = p_duid r /\ w_key w' = w_key w /\
    d_snap (w_d w') = fold_left k_remote ops k_init /\ d_buf (w_d w') = [] /\
    absc St call J w' ops =
      mkPc (o_cuid (d_oid (w_d w))) (N.max (sseq c0) (sseq (p_cp r))) (N.max (cseq c0) (cseq (p_cp r))) [] ops.
Proof. exact apply_subscribe_refines. Qed.
Print Assumptions C05_wired_subscribe_answer_is_abstract_join.

(* (12) AMONG OTHER DATATYPES (Proofs/ProtocolOther.v; isolation, C17): (11) with the events of D's system interleaved in
   any way with packs of any clients for other datatypes of this and of other collections ([OOther]; [polite]: such a pack
   carries its sender's operations and names neither D's identifier nor D's (collection, key)), commands failing anywhere *)
From Orda.Proofs Require Import ProtocolOther.
Theorem C05_datatype_life_among_others : forall colname col D key ty rs u o1 es,
  Forall honest rs ->
  let db := fold_left serve rs sdb_init in
  find_dt db D = None -> find_dt_by_key db col key = None -> o_cuid (op_id o1) = u -> oseq' o1 = 1%N ->
  Forall (polite col D key) es ->
  let '(db', resp, pubs) := handle_pack db colname col u (mkPpp key D bit_create (mkCp 0 1) ty [o1] None) in
  p_err resp = None /\
  let st := orun colname col D key ty (mkLs (mkPs db' [mkPc u 1 1 [] []]) []) es in
  let dbc := clean (dbof st) in
  LogInv dbc /\
  (forall c, In c (ps_cl (l_base st)) ->
     pc_exec c = foreign (pc_cuid c) (firstn (N.to_nat (pc_s c)) (logops D dbc))) /\
  (forall d w, In d (s_dts dbc) -> seqs_of (s_ops dbc) (dd_duid d) w = nseq 1 (N.to_nat (ack d w))) /\
  (forall d0, In d0 (s_dts dbc) -> dd_duid d0 = D -> forall c, In c (ps_cl (l_base st)) -> pc_s c = dd_end d0 ->
     pc_exec c = foreign (pc_cuid c) (logops D dbc)).
Proof. exact datatype_life_among_others. Qed.
Print Assumptions C05_datatype_life_among_others.
