(* C19 — Patching a document to a target JSON yields exactly that JSON.  (PARTIAL: see the end of this file.) *)
From Coq Require Import List NArith ZArith.
From Orda.Model Require Import Base Time Ops Datatype CheckCrdt Doc CheckDoc.
From Orda.Proofs Require Import DocFacts.
Import ListNotations.
Open Scope N_scope.

(* The model (Model/Doc.v): the JSON tree with creation/deletion timestamps, the five Document operations (local and
   remote), the local API addressed by paths, and patchEach — one JSON-patch operation (add / remove / replace) whose
   pointer is split, unescaped and resolved on the live tree into the API call it stands for.  Patch(p1..pn) is the
   user transaction [UPatch p1; ...; UPatch pn] of the generic datatype machinery (Model/Datatype.v). *)

(* the operations of a Patch with several operations are queued as ONE contiguous unit that announces its length *)
Theorem C19_patch_is_one_unit : forall c es d tag cs, d_run (d_new c) es = Some d ->
  let '(d', rs) := d_tx d tag cs false in
  Forall (fun r => r <> Panicked) rs ->
  exists ops, d_buf d' = d_buf d ++ OTx (opid_next (d_oid d)) tag (Z.of_nat (S (length ops))) :: ops /\
              Forall (fun o => is_tx o = false) ops.
Proof. exact doc_commit_is_unit. Qed.
Print Assumptions C19_patch_is_one_unit.

(* a Patch that fails at any of its operations leaves the document, its identifiers and its buffer exactly as before *)
Theorem C19_failed_patch_restores : forall c es d tag cs, d_run (d_new c) es = Some d ->
  let d' := fst (d_tx d tag cs true) in
  d_snap d' = d_snap d /\ d_oid d' = d_oid d /\ d_buf d' = d_buf d /\ d_cp d' = d_cp d.
Proof. exact doc_abort_restores. Qed.
Print Assumptions C19_failed_patch_restores.

(* keys that need JSON-pointer escaping: for ALL key sequences (any code points, '~' and '/' included) the pointer
   text jsondiff renders is read back as exactly these keys *)
Theorem C19_pointer_roundtrip : forall toks : list str, map unescape (split_slash (pointer toks) []) = [] :: toks.
Proof. exact pointer_roundtrip. Qed.
Print Assumptions C19_pointer_roundtrip.

(* a patch operation is executed as the API call on the container its path names *)
Theorem C19_patch_is_api_call : forall s p c i, patch_call s p = Some c ->
  u_local s (UPatch p) i = doc_local s c i /\ u_validate s (UPatch p) = doc_validate s c.
Proof. exact patch_is_api_call. Qed.
Print Assumptions C19_patch_is_api_call.

(* non-vacuity and a worked instance: {"a":1,"t~k":[1,2],"o":{"x/y":true}} is patched by
   replace /a 2; add /t~0k/- 3; remove /t~0k/0; replace /o/x~1y false; add /n [] — as one unit — and then reads
   {"a":2,"n":[],"o":{"x/y":false},"t~k":[2,3]}; the unit announces 6 operations *)
Example C19_example :
  let u := [117] in
  let k_a := [97] in let k_tk := [116; 126; 107] in let k_o := [111] in let k_xy := [120; 47; 121] in let k_n := [110] in
  let v0 := VObj [(k_a, VNum 1); (k_o, VObj [(k_xy, VBool true)]); (k_tk, VArr [VNum 1; VNum 2])] in
  let d0 := d_new u in
  let mk := fun ks => pointer ks in
  let ps := [UPatch (mkPatch PReplace (mk [k_a]) (VNum 2));
             UPatch (mkPatch PAdd (mk [k_tk; [45]]) (VNum 3));
             UPatch (mkPatch PRemove (mk [k_tk; [48]]) (VNum 0));
             UPatch (mkPatch PReplace (mk [k_o; k_xy]) (VBool false));
             UPatch (mkPatch PAdd (mk [k_n]) (VArr []))] in
  let d1 := fst (d_tx d0 [105] [UCall (DPut [] k_a (VNum 1)); UCall (DPut [] k_o (VObj [(k_xy, VBool true)])); UCall (DPut [] k_tk (VArr [VNum 1; VNum 2]))] false) in
  let '(d2, rs) := d_tx d1 [112] ps false in
  jview (d_snap d1) = v0 /\
  jview (d_snap d2) = VObj [(k_a, VNum 2); (k_n, VArr []); (k_o, VObj [(k_xy, VBool false)]); (k_tk, VArr [VNum 2; VNum 3])] /\
  length rs = 5%nat /\ length (d_buf d2) = (length (d_buf d1) + 6)%nat.
Proof. vm_compute. repeat split; reflexivity. Qed.
Print Assumptions C19_example.

(* PARTIAL.  The full statement — for every current document and every target without nulls, PatchByJSON leaves the
   document's value equal to the target and the other replicas converge to it — is NOT a theorem here:
     - the edit script comes from an external library (github.com/wI2L/jsondiff) that is not modelled: a theorem would
       have to assume that its script transforms the current JSON into the target under RFC 6902;
     - that orda's application of such a script on the CRDT tree yields the same JSON as RFC 6902 on the plain value
       (refinement of the Document's local operations to plain JSON operations) is not proved, and neither is
       convergence of the Document under concurrent operations.
   These parts rest on the correspondence check (every PatchByJSON of the doc slice is replayed on this model:
   operations, identifiers, resulting value) and on the Go oracle that compares the result with the target itself. *)
