(* C19 — Patching a document to a target JSON yields exactly that JSON.  (PARTIAL: see the end of this file.) *)
From Coq Require Import List NArith ZArith.
From Orda.Model Require Import Base Time Ops Datatype CheckCrdt Doc CheckDoc.
From Orda.Proofs Require Import DocFacts.
Import ListNotations.
Open Scope N_scope.

(* The model (Model/Doc.v): the JSON tree with creation/deletion timestamps, the five Document operations (local and
   remote), the local API addressed by paths, and patchEach — one JSON-patch operation (add / remove / replace) whose
   pointer is split, unescaped and resolved on the live tree into the API call it stands for.  Patch(p1..pn) is the
   user transaction [UPatch p1; ...; UPatch pn] of the generic datatype machinery (Model/Datatype.v). *)

(* the operations of a Patch with several operations are queued as ONE contiguous unit that announces its length *)
Theorem C19_patch_is_one_unit : forall c es d tag cs, d_run (d_new c) es = Some d ->
  let '(d', rs) := d_tx d tag cs false in
  Forall (fun r => r <> Panicked) rs ->
  exists ops, d_buf d' = d_buf d ++ OTx (opid_next (d_oid d)) tag (Z.of_nat (S (length ops))) :: ops /\
              Forall (fun o => is_tx o = false) ops.
Proof. exact doc_commit_is_unit. Qed.
Print Assumptions C19_patch_is_one_unit.

(* a Patch that fails at any of its operations leaves the document, its identifiers and its buffer exactly as before *)
Theorem C19_failed_patch_restores : forall c es d tag cs, d_run (d_new c) es = Some d ->
  let d' := fst (d_tx d tag cs true) in
  d_snap d' = d_snap d /\ d_oid d' = d_oid d /\ d_buf d' = d_buf d /\ d_cp d' = d_cp d.
Proof. exact doc_abort_restores. Qed.
Print Assumptions C19_failed_patch_restores.

(* keys that need JSON-pointer escaping: for ALL key sequences (any code points, '~' and '/' included) the pointer
   text jsondiff renders is read back as exactly these keys *)
Theorem C19_pointer_roundtrip : forall toks : list str, map unescape (split_slash (pointer toks) []) = [] :: toks.
Proof. exact pointer_roundtrip. Qed.
Print Assumptions C19_pointer_roundtrip.

(* a patch operation is executed as the API call on the container its path names *)
Theorem C19_patch_is_api_call : forall s p c i, patch_call s p = Some c ->
  u_local s (UPatch p) i = doc_local s c i /\ u_validate s (UPatch p) = doc_validate s c.
Proof. exact patch_is_api_call. Qed.
Print Assumptions C19_patch_is_api_call.

(* non-vacuity and a worked instance: {"a":1,"t~k":[1,2],"o":{"x/y":true}} is patched by
   replace /a 2; add /t~0k/- 3; remove /t~0k/0; replace /o/x~1y false; add /n [] — as one unit — and then reads
   {"a":2,"n":[],"o":{"x/y":false},"t~k":[2,3]}; the unit announces 6 operations *)
Example C19_example :
  let u := [117] in
  let k_a := [97] in let k_tk := [116; 126; 107] in let k_o := [111] in let k_xy := [120; 47; 121] in let k_n := [110] in
  let v0 := VObj [(k_a, VNum 1); (k_o, VObj [(k_xy, VBool true)]); (k_tk, VArr [VNum 1; VNum 2])] in
  let d0 := d_new u in
  let mk := fun ks => pointer ks in
  let ps := [UPatch (mkPatch PReplace (mk [k_a]) (VNum 2));
             UPatch (mkPatch PAdd (mk [k_tk; [45]]) (VNum 3));
             UPatch (mkPatch PRemove (mk [k_tk; [48]]) (VNum 0));
             UPatch (mkPatch PReplace (mk [k_o; k_xy]) (VBool false));
             UPatch (mkPatch PAdd (mk [k_n]) (VArr []))] in
  let d1 := fst (d_tx d0 [105] [UCall (DPut [] k_a (VNum 1)); UCall (DPut [] k_o (VObj [(k_xy, VBool true)])); UCall (DPut [] k_tk (VArr [VNum 1; VNum 2]))] false) in
  let '(d2, rs) := d_tx d1 [112] ps false in
  jview (d_snap d1) = v0 /\
  jview (d_snap d2) = VObj [(k_a, VNum 2); (k_n, VArr []); (k_o, VObj [(k_xy, VBool false)]); (k_tk, VArr [VNum 2; VNum 3])] /\
  length rs = 5%nat /\ length (d_buf d2) = (length (d_buf d1) + 6)%nat.
Proof. vm_compute. repeat split; reflexivity. Qed.
Print Assumptions C19_example.

(* ---------- the script is interpreted as RFC 6902 says, on the readable value ---------- *)
From Orda.Proofs Require Import TimeFacts OrderFacts DocRefine.

(* the pointer of a patch operation resolves on the CRDT tree (tombstones, superseded children, storage order and all)
   exactly as it resolves on the plain value the document shows: same container, same call *)
Theorem C19_pointer_resolves_as_on_value : forall s p, wft s -> patch_call s p = vpatch_call (jview s) p.
Proof. exact patch_call_view. Qed.
Print Assumptions C19_pointer_resolves_as_on_value.

(* Patch(p1..pn) — the user transaction of the generic machinery — on a replica that satisfies the document invariant
   and whose identifier counters are not about to wrap: when every operation of the script is accepted, the document
   afterwards reads [fold_left plain_patch ps v], the RFC 6902 interpretation (add / remove / replace; "-" = end of
   array) of the script on the value v it read before.  [Inv' t s] (Proofs/DocRefine.v): well-formed tree, live root,
   pairwise distinct creation timestamps, every timestamp at most t. *)
Theorem C19_patch_script_is_rfc6902 : forall d tag ps,
  let '(d', rs) := d_tx d tag (map UPatch ps) false in
  Inv' (opid_ts (d_oid d)) (d_snap d) ->
  o_era (d_oid d) < two31 -> o_lam (d_oid d) + N.of_nat (S (length ps)) < two63 ->
  Forall (fun p => canon (pt_val p)) ps ->
  Forall (fun r => exists x : unit, r = Done x) rs ->
  jview (d_snap d') = fold_left plain_patch ps (jview (d_snap d)).
Proof. exact patch_transaction_refines. Qed.
Print Assumptions C19_patch_script_is_rfc6902.

(* the invariant holds for the empty document and is re-established by every accepted script *)
Theorem C19_invariant_initial : Inv' oldest_ts doc_init.
Proof. exact Inv'_init. Qed.
Print Assumptions C19_invariant_initial.
Theorem C19_invariant_kept : forall ps t s s',
  ts_bounded t -> Inv' t s -> increasing_ids t (map snd ps) -> Forall (fun pi => canon (pt_val (fst pi))) ps ->
  run_patches s ps = Some s' ->
  jview s' = fold_left (fun v pi => plain_patch v (fst pi)) ps (jview s) /\ exists t', Inv' t' s'.
Proof. exact patches_refine. Qed.
Print Assumptions C19_invariant_kept.

(* Consequently: IF the script jsondiff produces for (current, target) transforms current into target under RFC 6902
   — [fold_left plain_patch ps current = target], a statement about plain JSON values only — and every operation is
   accepted, THEN the patched document reads exactly target. *)
Theorem C19_correct_script_reaches_target : forall d tag ps target,
  let '(d', rs) := d_tx d tag (map UPatch ps) false in
  Inv' (opid_ts (d_oid d)) (d_snap d) ->
  o_era (d_oid d) < two31 -> o_lam (d_oid d) + N.of_nat (S (length ps)) < two63 ->
  Forall (fun p => canon (pt_val p)) ps ->
  Forall (fun r => exists x : unit, r = Done x) rs ->
  fold_left plain_patch ps (jview (d_snap d)) = target ->
  jview (d_snap d') = target.
Proof. exact patch_reaches_target. Qed.
Print Assumptions C19_correct_script_reaches_target.

(* remote operations: every remote operation that is new to the replica (no node of the tree carries its timestamp:
   operation identifiers are unique and an operation is delivered once) keeps the structural part of the invariant —
   the tree well-formed, creation timestamps pairwise distinct — and the root as it was; the snapshot operation puts
   the initial document in its place.  (That every timestamp in the tree is older than the next LOCAL operation's is the
   Lamport-clock clause proved for every history in C15.) *)
Theorem C19_structure_kept_by_remote_operations : forall s o,
  SInv s -> new_to (opid_ts (op_id o)) (all_cs s) -> canon_op o ->
  SInv (doc_remote s o) /\ (is_snap o = false -> jtomb (doc_remote s o) = jtomb s).
Proof. exact doc_remote_keeps_structure. Qed.
Print Assumptions C19_structure_kept_by_remote_operations.

(* non-vacuity: a fresh replica and a five-operation script meet every premise, and all operations are accepted *)
Example C19_rfc6902_example :
  let d := d_new [117] in
  let ps := [mkPatch PAdd (pointer [[97]]) (VNum 1);
             mkPatch PAdd (pointer [[116; 126; 107]]) (VArr [VNum 1; VNum 2]);
             mkPatch PAdd (pointer [[116; 126; 107]; [45]]) (VNum 3);
             mkPatch PRemove (pointer [[116; 126; 107]; [48]]) (VNum 0);
             mkPatch PReplace (pointer [[97]]) (VObj [([120; 47; 121], VBool false)])] in
  let '(d', rs) := d_tx d [112] (map UPatch ps) false in
  Inv' (opid_ts (d_oid d)) (d_snap d) /\
  o_era (d_oid d) < two31 /\ o_lam (d_oid d) + N.of_nat (S (length ps)) < two63 /\
  Forall (fun p => canon (pt_val p)) ps /\
  Forall (fun r => exists x : unit, r = Done x) rs /\
  fold_left plain_patch ps (jview (d_snap d)) = VObj [([97], VObj [([120; 47; 121], VBool false)]); ([116; 126; 107], VArr [VNum 2; VNum 3])].
Proof.
  cbv zeta.
  match goal with |- context [d_tx ?a ?b ?c ?d] => let r := eval vm_compute in (d_tx a b c d) in change (d_tx a b c d) with r end.
  cbv beta iota. split; [|split; [|split; [|split; [|split]]]].
  - split; [split; [constructor|exact I]|]. split; [reflexivity|]. split; [repeat constructor; intros []|].
    constructor; [|constructor]. split; [|exact I]. left. split; [split; vm_compute; reflexivity|vm_compute; reflexivity].
  - vm_compute. reflexivity.
  - vm_compute. reflexivity.
  - repeat constructor.
  - repeat constructor; exists tt; reflexivity.
  - vm_compute. reflexivity.
Qed.
Print Assumptions C19_rfc6902_example.

(* PARTIAL.  What is proved: atomicity of a Patch (one unit / complete restoration), the pointer syntax for all keys,
   and that an accepted script acts on the document exactly as RFC 6902 acts on the value it shows, for every tree
   that satisfies the invariant (the empty document does; every accepted local call and script keeps it).
   What is NOT a theorem here:
     - that the script from the external library github.com/wI2L/jsondiff transforms current into target (it is the
       hypothesis of the last theorem; the library is not modelled);
     - the composition of the two invariant theorems over mixed local/remote histories (structure under remote
       operations and clock domination for local ones are proved separately, their glue — that delivered operations are
       new and that the local clock has passed every applied timestamp — is the datatype machinery of C15/C05), and
       convergence of the other replicas under concurrent operations.
   These parts rest on the correspondence check (every PatchByJSON of the doc slice is replayed on this model:
   operations, identifiers, resulting value) and on the Go oracle that compares the result with the target itself. *)
