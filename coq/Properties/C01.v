(* C01 — Replicas of a datatype converge once they have the same operations.
   Statements only; proofs in Proofs/.  The replicated system is Proofs/Sys.v:
   any number of replicas, one total log, events generate / push / deliver-foreign-in-
   log-order / skip-own, arbitrarily interleaved; [applied] is the sequence of
   operations a replica has executed.  The kernels are the model functions validated
   against the Go code by the correspondence check (Model/Counter.v, Map.v). *)
From Coq Require Import List ZArith Permutation.
From Orda.Model Require Import Base Time Ops Counter Map List.
From Orda.Proofs Require Import TimeFacts OrderFacts Permute Sys CounterFacts MapFacts MapConv SnapshotFacts ListFacts ListConv ListSys.

(* Counter: ANY two orders of the same operations give the same value (no readiness needed).
   [no_snap]: the operations exchanged between replicas; the snapshot operation a client creates with the
   datatype is not one of them (the server stores the creator's as the first operation of the log and drops
   a subscriber's), and executing one replaces the state instead of changing it. *)
Theorem C01_counter :
  forall l l' : list op, no_snap l -> Permutation l l' ->
    fold_left c_exec_remote l c_init = fold_left c_exec_remote l' c_init.
Proof. exact counter_permutation. Qed.
Print Assumptions C01_counter.

(* Map: in every reachable state of the replicated system, two replicas that have
   applied the same operations agree on every key (value or tombstone, with its
   timestamp) and on Size.  [m_ready]: a remove is generated on an existing key, and the
   snapshot operation (which replaces the state) is never generated or delivered here. *)
Theorem C01_map :
  forall (author : op -> nat) (s : sys op) (r1 r2 : nat),
    reachable mstate op tkey m_oid author m_exec_remote m_ready m_init s ->
    Permutation (applied _ (reps _ s r1)) (applied _ (reps _ s r2)) ->
    let s1 := fold_left m_exec_remote (applied _ (reps _ s r1)) m_init in
    let s2 := fold_left m_exec_remote (applied _ (reps _ s r2)) m_init in
    (forall k, mget s1 k = mget s2 k) /\ m_size s1 = m_size s2.
Proof. exact map_convergence. Qed.
Print Assumptions C01_map.

(* ... and therefore expose the same JSON view *)
Theorem C01_map_view :
  forall (author : op -> nat) (s : sys op) (r1 r2 : nat),
    reachable mstate op tkey m_oid author m_exec_remote m_ready m_init s ->
    Permutation (applied _ (reps _ s r1)) (applied _ (reps _ s r2)) ->
    m_view (fold_left m_exec_remote (applied _ (reps _ s r1)) m_init) =
    m_view (fold_left m_exec_remote (applied _ (reps _ s r2)) m_init).
Proof. exact map_convergence_view. Qed.
Print Assumptions C01_map_view.

(* the datatype-independent core: executable permutations of duplicate-free operations agree *)
Theorem C01_abstract :
  forall (St Op Id : Type) (oid : Op -> Id) (apply : St -> Op -> St) (ready : St -> Op -> Prop) (good : St -> Prop),
    (forall s a, good s -> ready s a -> good (apply s a)) ->
    (forall s a b, good s -> oid a <> oid b -> ready s a -> ready s b -> ready (apply s a) b) ->
    (forall s a b, good s -> oid a <> oid b -> ready s a -> ready s b -> apply (apply s a) b = apply (apply s b) a) ->
    forall l2 l1 s, good s -> NoDup (map oid l1) -> Permutation l1 l2 ->
      exec_ok St Op apply ready s l1 -> exec_ok St Op apply ready s l2 ->
      fold_left apply l1 s = fold_left apply l2 s.
Proof. exact executable_permutations_agree. Qed.
Print Assumptions C01_abstract.

(* List (RGA with tombstones, batches, per-element last-writer-wins).  [l_ready s o] — the operation can be executed at s:
   its timestamp is new to the replica and within the plain range of the comparison, the elements it addresses (the
   insert's target, the delete's / update's targets) are there — what causal delivery provides —, and it addresses no
   element twice; the snapshot operation is never exchanged.  ANY two orders of the same operations in which each
   operation can be executed when its turn comes lead to the same state: nodes with tombstones and timestamps, hence
   values and view, and the size counter.  [loid] = the operation's timestamp without delimiter (C15: distinct operations
   carry distinct ones). *)
Theorem C01_list :
  forall l1 l2 : list op, NoDup (map loid l1) -> Permutation l1 l2 ->
    exec_ok lstate op l_exec_remote l_ready l_init l1 -> exec_ok lstate op l_exec_remote l_ready l_init l2 ->
    fold_left l_exec_remote l1 l_init = fold_left l_exec_remote l2 l_init.
Proof. exact list_states_converge. Qed.
Print Assumptions C01_list.

(* the premise explained: [l_ready] is exactly this *)
Theorem C01_list_ready_is : forall s o,
  l_ready s o <->
  match o with
  | OIns i tg vs => ts_bounded (opid_ts i) /\ ~ In (loid o) (nkeys (l_nodes s)) /\ (ts_eqb tg oldest_ts = true \/ In tg (ids (l_nodes s)))
  | ODel i tgs => ts_bounded (opid_ts i) /\ ~ In (loid o) (nkeys (l_nodes s)) /\ NoDup tgs /\ incl tgs (ids (l_nodes s))
  | OUpd i tgs vs => ts_bounded (opid_ts i) /\ ~ In (loid o) (nkeys (l_nodes s)) /\ NoDup tgs /\ incl tgs (ids (l_nodes s))
  | OSnap _ => False
  | _ => True
  end.
Proof. intros s o. unfold l_ready. destruct o; cbn [lready]; tauto. Qed.
Print Assumptions C01_list_ready_is.

(* the issuing replica: executing a call locally IS executing the operation it emits (so a replica's state is the
   remote execution of everything it has applied, own operations included), and that operation can be executed there.
   [newest]: the new operation's timestamp exceeds every timestamp in the state — the Lamport clock (C15) *)
Theorem C01_list_local_is_remote : forall s c i s' o r,
  l_exec_local s c i = Some (s', o, r) ->
  lgood (l_nodes s) -> nohead (l_nodes s) -> ts_bounded (opid_ts i) -> newest (l_nodes s) (key_of (opid_ts i)) ->
  lready (l_nodes s) o /\ l_nodes s' = l_nodes (l_exec_remote s o).
Proof. intros s c i s' o r H1 H2 H3 H4 H5. rewrite nodes_exec. exact (list_local_is_remote s c i s' o r H1 H2 H3 H4 H5). Qed.
Print Assumptions C01_list_local_is_remote.

(* the invariants used are kept by every executable history: identities distinct, timestamps in range, size = number of
   live elements *)
Theorem C01_list_invariants : forall ops,
  exec_ok lstate op l_exec_remote l_ready l_init ops ->
  let s := fold_left l_exec_remote ops l_init in
  lgood (l_nodes s) /\ l_size s = Z.of_nat (length (l_values s)).
Proof.
  intros ops H. destruct (exec_ok_invariants ops l_init lgood_nil eq_refl H) as [G [S _]]. split; [exact G|exact S].
Qed.
Print Assumptions C01_list_invariants.

(* non-vacuity: a and b insert concurrently at the head (a a batch of two), b deletes a's first element while a updates
   it, a inserts behind its second element; two replicas receive these in different executable orders *)
Example C01_list_example :
  let a := [97]%N in let b := [98]%N in
  let o1 := OIns (mkOpid 0 1 a 1) oldest_ts [VStr [1]%N; VStr [2]%N] in
  let o2 := OIns (mkOpid 0 1 b 1) oldest_ts [VStr [3]%N] in
  let o3 := ODel (mkOpid 0 2 b 2) [mkTs 0 1 a 0] in
  let o4 := OUpd (mkOpid 0 2 a 2) [mkTs 0 1 a 0] [VStr [9]%N] in
  let o5 := OIns (mkOpid 0 3 a 3) (mkTs 0 1 a 1) [VStr [4]%N] in
  let h1 := [o1; o2; o3; o4; o5] in let h2 := [o2; o1; o4; o5; o3] in
  exec_ok lstate op l_exec_remote l_ready l_init h1 /\ exec_ok lstate op l_exec_remote l_ready l_init h2 /\
  NoDup (map loid h1) /\ Permutation h1 h2 /\
  l_values (fold_left l_exec_remote h1 l_init) = [VStr [3]%N; VStr [2]%N; VStr [4]%N].
Proof.
  cbv zeta. split; [|split; [|split; [|split]]].
  - cbn [exec_ok]. unfold l_ready. repeat split; try (vm_compute; reflexivity); try (vm_compute; intuition discriminate);
      try (vm_compute; auto); try (repeat constructor; vm_compute; intuition discriminate).
  - cbn [exec_ok]. unfold l_ready. repeat split; try (vm_compute; reflexivity); try (vm_compute; intuition discriminate);
      try (vm_compute; auto); try (repeat constructor; vm_compute; intuition discriminate).
  - cbn [map]. repeat (apply NoDup_cons; [vm_compute; intuition discriminate|]). apply NoDup_nil.
  - match goal with |- Permutation [?x1; ?x2; ?x3; ?x4; ?x5] _ =>
      apply (perm_trans (perm_swap x2 x1 [x3; x4; x5])); apply perm_skip, perm_skip;
      apply (perm_trans (perm_swap x4 x3 [x5])); apply perm_skip; apply perm_swap end.
  - vm_compute. reflexivity.
Qed.
Print Assumptions C01_list_example.

(* non-vacuity of the local/remote link: on the state reached by two concurrent head inserts, a local batch update at
   index 1 with a newer timestamp meets the premises, and its outcome is the remote execution of the operation it emits *)
Example C01_list_local_example :
  let a := [97]%N in let b := [98]%N in
  let o1 := OIns (mkOpid 0 1 a 1) oldest_ts [VStr [1]%N; VStr [2]%N] in
  let o2 := OIns (mkOpid 0 1 b 1) oldest_ts [VStr [3]%N] in
  let s := fold_left l_exec_remote [o1; o2] l_init in
  let i := mkOpid 0 5 a 2 in
  lgood (l_nodes s) /\ nohead (l_nodes s) /\ ts_bounded (opid_ts i) /\ newest (l_nodes s) (key_of (opid_ts i)) /\
  exists s' o r, l_exec_local s (LUpdate 1 [VStr [7]%N; VStr [8]%N]) i = Some (s', o, r) /\
                 l_values s' = [VStr [3]%N; VStr [7]%N; VStr [8]%N] /\ l_nodes s' = l_nodes (l_exec_remote s o).
Proof.
  cbv zeta. split; [|split; [|split; [|split]]].
  - split.
    + vm_compute. repeat (apply NoDup_cons; [cbn; intuition discriminate|]). apply NoDup_nil.
    + match goal with |- bnodes ?l => let v := eval vm_compute in l in change l with v end. unfold bnodes. repeat constructor.
  - vm_compute. intuition discriminate.
  - vm_compute. split; reflexivity.
  - intros x Hx. vm_compute in Hx. destruct Hx as [<-|[<-|[<-|[]]]]; vm_compute; split; reflexivity.
  - eexists _, _, _. split; [vm_compute; reflexivity|]. split; vm_compute; reflexivity.
Qed.
Print Assumptions C01_list_local_example.

(* List at system level (Proofs/ListSys.v): the replicated system of Sys.v — any number of replicas, one server log,
   generate / push / deliver-foreign-in-log-order / skip-own arbitrarily interleaved — instantiated with the list.
   Executability of each replica's applied sequence is no longer a premise: delivery in log order provides the addressed
   elements, uniqueness of operation identifiers (the Gen rule's premise; C15) provides freshness.  In EVERY reachable
   state two replicas that have applied the same operations hold the same list state. *)
Theorem C01_list_system :
  forall (author : op -> nat) (s : sys op) (r1 r2 : nat),
    reachable lstate op tkey loid author l_exec_remote l_ready l_init s ->
    Permutation (applied _ (reps _ s r1)) (applied _ (reps _ s r2)) ->
    fold_left l_exec_remote (applied _ (reps _ s r1)) l_init = fold_left l_exec_remote (applied _ (reps _ s r2)) l_init.
Proof. exact list_sys_convergence. Qed.
Print Assumptions C01_list_system.

(* ... and there every replica's applied sequence is executable and duplicate-free: the premises of C01_list hold *)
Theorem C01_list_system_executable :
  forall (author : op -> nat) (s : sys op) (r : nat),
    reachable lstate op tkey loid author l_exec_remote l_ready l_init s ->
    exec_ok lstate op l_exec_remote l_ready l_init (applied _ (reps _ s r)) /\ NoDup (map loid (applied _ (reps _ s r))).
Proof. exact list_sys_executable. Qed.
Print Assumptions C01_list_system_executable.

(* readiness in the system, as a function of the set of applied operations: the addressed elements were created by
   applied operations ([avail]) and the operation's timestamp is new to the replica *)
Theorem C01_list_system_ready_is : forall l o,
  exec_ok lstate op l_exec_remote l_ready l_init l ->
  (l_ready (fold_left l_exec_remote l l_init) o <-> l_dsat l o /\ l_fr l o).
Proof. exact l_ready_iff. Qed.
Print Assumptions C01_list_system_ready_is.

(* non-vacuity: the system leaves its initial state — a replica generates a head insert of two elements *)
Example C01_list_system_example :
  let o1 := OIns (mkOpid 0 1 [97]%N 1) oldest_ts [VStr [1]%N; VStr [2]%N] in
  exists s, reachable lstate op tkey loid (fun _ => 0%nat) l_exec_remote l_ready l_init s /\ applied _ (reps _ s 0%nat) = [o1].
Proof.
  cbv zeta. eexists. split.
  - eapply RS; [apply R0|]. eapply (Gen lstate op tkey loid (fun _ => 0%nat) l_exec_remote l_ready l_init (init_sys op) 0%nat (OIns (mkOpid 0 1 [97]%N 1) oldest_ts [VStr [1]%N; VStr [2]%N])).
    + reflexivity.
    + intros o' H. exfalso. unfold all_ops in H. cbn in H. destruct H as [H|[r [H|H]]]; exact H.
    + unfold l_ready. cbn [lready]. split; [vm_compute; split; reflexivity|]. split; [vm_compute; intuition discriminate|left; reflexivity].
  - cbn. unfold upd. cbn. reflexivity.
Qed.
Print Assumptions C01_list_system_example.

Definition C01_au (o : op) : nat := match o_cuid (op_id o) with (97%N :: _) => 0%nat | _ => 1%nat end.
Definition C01_oa := OIns (mkOpid 0 1 [97]%N 1) oldest_ts [VStr [1]%N; VStr [2]%N].
Definition C01_ob := OIns (mkOpid 0 1 [98]%N 1) oldest_ts [VStr [3]%N].

(* non-vacuity with concurrency: two replicas generate head inserts concurrently and the first pushes *)
Example C01_list_system_concurrent :
  exists s, reachable lstate op tkey loid C01_au l_exec_remote l_ready l_init s /\
    applied _ (reps _ s 0%nat) = [C01_oa] /\ applied _ (reps _ s 1%nat) = [C01_ob] /\ log _ s = [C01_oa].
Proof.
  eexists. split; [|split; [|split]].
  - eapply RS. eapply RS. eapply RS. apply R0.
    + apply (Gen lstate op tkey loid C01_au l_exec_remote l_ready l_init (init_sys op) 0%nat C01_oa).
      * reflexivity.
      * intros o' H. exfalso. unfold all_ops in H. cbn in H. destruct H as [H|[r [H|H]]]; exact H.
      * cbn. split; [vm_compute; split; reflexivity|]. split; [tauto|left; reflexivity].
    + eapply (Gen lstate op tkey loid C01_au l_exec_remote l_ready l_init _ 1%nat C01_ob).
      * reflexivity.
      * intros o' H. unfold all_ops in H. cbn in H. destruct H as [[]|[r H]]. unfold upd in H.
        destruct (Nat.eq_dec r 0); cbn in H; [|tauto]. assert (C01_oa = o') by tauto. subst o'. vm_compute. discriminate.
      * cbn. split; [vm_compute; split; reflexivity|]. split; [tauto|left; reflexivity].
    + eapply (Push lstate op tkey loid C01_au l_exec_remote l_ready l_init _ 0%nat).
  - reflexivity.
  - reflexivity.
  - reflexivity.
Qed.
Print Assumptions C01_list_system_concurrent.
