(* C01 — Replicas of a datatype converge once they have the same operations.
   Statements only; proofs in Proofs/.  The replicated system is Proofs/Sys.v:
   any number of replicas, one total log, events generate / push / deliver-foreign-in-
   log-order / skip-own, arbitrarily interleaved; [applied] is the sequence of
   operations a replica has executed.  The kernels are the model functions validated
   against the Go code by the correspondence check (Model/Counter.v, Map.v). *)
From Coq Require Import List ZArith Permutation.
From Orda.Model Require Import Base Time Ops Counter Map.
From Orda.Proofs Require Import OrderFacts Permute Sys CounterFacts MapFacts MapConv SnapshotFacts.

(* Counter: ANY two orders of the same operations give the same value (no readiness needed).
   [no_snap]: the operations exchanged between replicas; the snapshot operation a client creates with the
   datatype is not one of them (the server stores the creator's as the first operation of the log and drops
   a subscriber's), and executing one replaces the state instead of changing it. *)
Theorem C01_counter :
  forall l l' : list op, no_snap l -> Permutation l l' ->
    fold_left c_exec_remote l c_init = fold_left c_exec_remote l' c_init.
Proof. exact counter_permutation. Qed.
Print Assumptions C01_counter.

(* Map: in every reachable state of the replicated system, two replicas that have
   applied the same operations agree on every key (value or tombstone, with its
   timestamp) and on Size.  [m_ready]: a remove is generated on an existing key, and the
   snapshot operation (which replaces the state) is never generated or delivered here. *)
Theorem C01_map :
  forall (author : op -> nat) (s : sys op) (r1 r2 : nat),
    reachable mstate op tkey m_oid author m_exec_remote m_ready m_init s ->
    Permutation (applied _ (reps _ s r1)) (applied _ (reps _ s r2)) ->
    let s1 := fold_left m_exec_remote (applied _ (reps _ s r1)) m_init in
    let s2 := fold_left m_exec_remote (applied _ (reps _ s r2)) m_init in
    (forall k, mget s1 k = mget s2 k) /\ m_size s1 = m_size s2.
Proof. exact map_convergence. Qed.
Print Assumptions C01_map.

(* ... and therefore expose the same JSON view *)
Theorem C01_map_view :
  forall (author : op -> nat) (s : sys op) (r1 r2 : nat),
    reachable mstate op tkey m_oid author m_exec_remote m_ready m_init s ->
    Permutation (applied _ (reps _ s r1)) (applied _ (reps _ s r2)) ->
    m_view (fold_left m_exec_remote (applied _ (reps _ s r1)) m_init) =
    m_view (fold_left m_exec_remote (applied _ (reps _ s r2)) m_init).
Proof. exact map_convergence_view. Qed.
Print Assumptions C01_map_view.

(* the datatype-independent core: executable permutations of duplicate-free operations agree *)
Theorem C01_abstract :
  forall (St Op Id : Type) (oid : Op -> Id) (apply : St -> Op -> St) (ready : St -> Op -> Prop) (good : St -> Prop),
    (forall s a, good s -> ready s a -> good (apply s a)) ->
    (forall s a b, good s -> oid a <> oid b -> ready s a -> ready s b -> ready (apply s a) b) ->
    (forall s a b, good s -> oid a <> oid b -> ready s a -> ready s b -> apply (apply s a) b = apply (apply s b) a) ->
    forall l2 l1 s, good s -> NoDup (map oid l1) -> Permutation l1 l2 ->
      exec_ok St Op apply ready s l1 -> exec_ok St Op apply ready s l2 ->
      fold_left apply l1 s = fold_left apply l2 s.
Proof. exact executable_permutations_agree. Qed.
Print Assumptions C01_abstract.
