(* C12 — Concurrent syncs of one datatype are serialized; the server never races or hangs. *)
From Coq Require Import List Arith.
From Orda.Model Require Import SrvLock.
From Orda.Proofs Require Import SrvLockFacts.
Import ListNotations.

(* The model (Model/SrvLock.v): every pack of every request is served by its own goroutine: TryLock on the lock of its
   (collection, key), then its storage commands one by one, then Unlock, then the answer; a goroutine that waits for a
   held lock may give up (the lease time) and then refuses its pack without issuing a command or unlocking anything.
   One storage command is one atomic step.  [srun_moves (sinit d0) ms] is the state after the scheduler's moves [ms]
   (a move that is not enabled is skipped).  All statements are for EVERY assignment P of packs to goroutines, every
   initial store and EVERY schedule. *)

(* two packs of the same datatype are never inside their critical sections at the same time *)
Theorem C12_lock_excludes : forall (D : Type) (exec : handler -> nat -> D -> D) (P : nat -> option handler) d0 ms t1 t2 h1 h2,
  let s := srun_moves D exec P (sinit D d0) ms in
  P t1 = Some h1 -> P t2 = Some h2 -> h_key h1 = h_key h2 -> in_cs h1 (hthr D s t1) -> in_cs h2 (hthr D s t2) -> t1 = t2.
Proof. exact server_lock_excludes. Qed.
Print Assumptions C12_lock_excludes.

(* the server never hangs: a pack that has not been answered can take a step, or the holder of the lock it waits for can
   (a pack of another datatype never blocks it) *)
Theorem C12_no_hang : forall (D : Type) (exec : handler -> nat -> D -> D) (P : nat -> option handler) d0 ms t h,
  let s := srun_moves D exec P (sinit D d0) ms in
  P t = Some h -> hthr D s t <> HDone ->
  sstep D exec P (Step t) s <> None \/ exists t', locks D s (h_key h) = Some t' /\ t' <> t /\ sstep D exec P (Step t') s <> None.
Proof. exact server_no_starvation. Qed.
Print Assumptions C12_no_hang.

(* the result equals a one-at-a-time order: provided storage commands on documents of different datatypes commute,
   when all packs have been answered every pack was answered exactly once, a refused pack issued no command, and the
   store equals serving the served packs one after the other in the order in which they released their locks *)
Theorem C12_serializable : forall (D : Type) (exec : handler -> nat -> D -> D) (P : nat -> option handler) d0 ms,
  let s := srun_moves D exec P (sinit D d0) ms in
  commands_commute D exec P ->
  (forall t h, P t = Some h -> hthr D s t = HDone) ->
  (forall t h, P t = Some h -> exists b, In (t, b) (answered D s)) /\
  NoDup (map fst (answered D s)) /\
  (forall t, In t (horder D s) -> In (t, true) (answered D s)) /\
  (forall t i, In (t, false) (answered D s) -> ~ In (t, i) (hlog D s)) /\
  db D s = one_at_a_time D exec P (horder D s) d0.
Proof. exact server_serializable. Qed.
Print Assumptions C12_serializable.

(* non-vacuity: packs 0 and 1 address datatype 7, pack 2 datatype 8; pack 1 gives up while pack 0 holds the lock; the
   commands of packs 0 and 2 interleave; the store (one command list per datatype) is that of serving 2 and then 0 *)
Example C12_example :
  let P := fun t => match t with 0 => Some (mkHandler 100 7 2) | 1 => Some (mkHandler 101 7 1) | 2 => Some (mkHandler 102 8 2) | _ => None end in
  let exec := fun (h : handler) i (d : nat -> list nat) => updf d (h_key h) (d (h_key h) ++ [h_id h * 10 + i]) in
  let ms := [Step 0; Step 2; Step 1; Step 0; GiveUp 1; Step 2; Step 2; Step 0; Step 1; Step 2; Step 0; Step 0; Step 2; Step 1] in
  let s := srun_moves _ exec P (sinit _ (fun _ => [])) ms in
  (db _ s 7, db _ s 8) = ([1000; 1001], [1020; 1021]) /\ horder _ s = [2; 0] /\ answered _ s = [(1, false); (0, true); (2, true)] /\
  hlog _ s = [(0, 0); (2, 0); (2, 1); (0, 1)].
Proof. vm_compute. repeat split; reflexivity. Qed.
Print Assumptions C12_example.
