(* C02 — Conflicts resolve by operation timestamp, identically on every replica.
   The outcome is a fixed function of the SET of operations. *)
From Coq Require Import List ZArith Permutation.
From Orda.Model Require Import Base Time Ops Counter Map.
From Orda.Proofs Require Import OrderFacts Permute CounterFacts MapFacts MapSpec.

(* a counter equals the 32-bit wrapped sum of all increments *)
Theorem C02_counter_sum :
  forall l : list op, no_snap l -> fold_left c_exec_remote l c_init = wrap32 (sum_deltas l).
Proof. exact counter_outcome. Qed.
Print Assumptions C02_counter_sum.

(* the snapshot operation (created once with the datatype, the first operation of a log) replaces the value by
   its body, the initial value: what counts is the increments after it *)
Theorem C02_counter_snapshot_restarts :
  forall l1 i l2, no_snap l2 -> fold_left c_exec_remote (l1 ++ OSnap i :: l2) c_init = wrap32 (sum_deltas l2).
Proof. exact counter_snapshot_resets. Qed.
Print Assumptions C02_counter_snapshot_restarts.

(* a map key holds the entry (value, or tombstone for a remove) of the operation on
   that key with the greatest timestamp; it is absent iff nothing was written on it.
   [exec_ok]: a remove is only executed on a key some put has created (causal delivery), and
   the list holds no snapshot operation (executed, it empties the map: [reg_apply k r (OSnap _) = None]). *)
Theorem C02_map_greatest_timestamp :
  forall k l,
    (forall o, In o l -> op_bounded o) ->
    exec_ok _ _ (reg_apply k) (reg_ready k) None l ->
    match fold_left (reg_apply k) l None with
    | None => forall o, In o l -> entry_on k o = None
    | Some e => (exists o, In o l /\ entry_on k o = Some e) /\
                (forall o e', In o l -> entry_on k o = Some e' -> kle (ekey e') (ekey e))
    end.
Proof. exact map_key_outcome. Qed.
Print Assumptions C02_map_greatest_timestamp.

(* ... where the register is exactly what the map stores under the key *)
Theorem C02_map_register_is_lookup :
  forall s o k, mget (m_exec_remote s o) k = reg_apply k (mget s k) o.
Proof. exact mget_exec. Qed.
Print Assumptions C02_map_register_is_lookup.

(* non-vacuity: a put/remove/put race on one key, greatest timestamp (the remove, lamport 7) wins *)
Example C02_map_example :
  let c1 := [97]%N in let c2 := [98]%N in let k := [107]%N in
  let ops := [OPut (mkOpid 0 5 c1 2) k (VNum 1); ORemove (mkOpid 0 7 c2 3) k; OPut (mkOpid 0 6 c1 3) k (VNum 2)] in
  mget (fold_left m_exec_remote ops m_init) k = Some (mkMentry None (mkTs 0 7 c2 0)).
Proof. vm_compute. reflexivity. Qed.
Print Assumptions C02_map_example.
