(* C02 — Conflicts resolve by operation timestamp, identically on every replica.
   The outcome is a fixed function of the SET of operations. *)
From Coq Require Import List ZArith Permutation.
From Orda.Model Require Import Base Time Ops Counter Map.
From Orda.Proofs Require Import OrderFacts Permute CounterFacts MapFacts MapSpec.

(* a counter equals the 32-bit wrapped sum of all increments *)
Theorem C02_counter_sum :
  forall l : list op, no_snap l -> fold_left c_exec_remote l c_init = wrap32 (sum_deltas l).
Proof. exact counter_outcome. Qed.
Print Assumptions C02_counter_sum.

(* the snapshot operation (created once with the datatype, the first operation of a log) replaces the value by
   its body, the initial value: what counts is the increments after it *)
Theorem C02_counter_snapshot_restarts :
  forall l1 i l2, no_snap l2 -> fold_left c_exec_remote (l1 ++ OSnap i :: l2) c_init = wrap32 (sum_deltas l2).
Proof. exact counter_snapshot_resets. Qed.
Print Assumptions C02_counter_snapshot_restarts.

(* a map key holds the entry (value, or tombstone for a remove) of the operation on
   that key with the greatest timestamp; it is absent iff nothing was written on it.
   [exec_ok]: a remove is only executed on a key some put has created (causal delivery), and
   the list holds no snapshot operation (executed, it empties the map: [reg_apply k r (OSnap _) = None]). *)
Theorem C02_map_greatest_timestamp :
  forall k l,
    (forall o, In o l -> op_bounded o) ->
    exec_ok _ _ (reg_apply k) (reg_ready k) None l ->
    match fold_left (reg_apply k) l None with
    | None => forall o, In o l -> entry_on k o = None
    | Some e => (exists o, In o l /\ entry_on k o = Some e) /\
                (forall o e', In o l -> entry_on k o = Some e' -> kle (ekey e') (ekey e))
    end.
Proof. exact map_key_outcome. Qed.
Print Assumptions C02_map_greatest_timestamp.

(* ... where the register is exactly what the map stores under the key *)
Theorem C02_map_register_is_lookup :
  forall s o k, mget (m_exec_remote s o) k = reg_apply k (mget s k) o.
Proof. exact mget_exec. Qed.
Print Assumptions C02_map_register_is_lookup.

(* non-vacuity: a put/remove/put race on one key, greatest timestamp (the remove, lamport 7) wins *)
Example C02_map_example :
  let c1 := [97]%N in let c2 := [98]%N in let k := [107]%N in
  let ops := [OPut (mkOpid 0 5 c1 2) k (VNum 1); ORemove (mkOpid 0 7 c2 3) k; OPut (mkOpid 0 6 c1 3) k (VNum 2)] in
  mget (fold_left m_exec_remote ops m_init) k = Some (mkMentry None (mkTs 0 7 c2 0)).
Proof. vm_compute. reflexivity. Qed.
Print Assumptions C02_map_example.

(* ---------- list elements ---------- *)
From Orda.Model Require Import List.
From Orda.Proofs Require Import TimeFacts ListElem.

(* an update / delete addressed to an element acts on that node's (timestamp, value) as [eapply] and on nothing else *)
Theorem C02_list_update_is_element_register : forall l tg v t x,
  find_node l tg = Some x ->
  l_update_remote_go l [tg] [v] t 0 = upd_node l tg (fun n => set_st n (eapply (node_st n) (EUpd (ts_at t 0) v))) \/
  l_update_remote_go l [tg] [v] t 0 = l /\ eapply (node_st x) (EUpd (ts_at t 0) v) = node_st x.
Proof. exact update_one_is_eapply. Qed.
Print Assumptions C02_list_update_is_element_register.
Theorem C02_list_delete_is_element_register : forall l sz tg t x,
  find_node l tg = Some x ->
  fst (l_delete_remote_go l sz [tg] t 0) = upd_node l tg (fun n => set_st n (eapply (node_st n) (EDel (ts_at t 0)))) \/
  fst (l_delete_remote_go l sz [tg] t 0) = l /\ eapply (node_st x) (EDel (ts_at t 0)) = node_st x.
Proof. exact delete_one_is_eapply. Qed.
Print Assumptions C02_list_delete_is_element_register.

(* whatever the order in which a replica receives the updates and deletes addressed to an element (operations of
   distinct, un-wrapped timestamps), the element ends in the same state: the outcome is a function of the SET *)
Theorem C02_list_element_order_independent : forall x l1 l2,
  sbounded x -> Forall ebounded l1 -> NoDup (map eoid l1) -> ~ In (key_of (fst x)) (map eoid l1) ->
  Permutation l1 l2 -> fold_left eapply l1 x = fold_left eapply l2 x.
Proof. exact element_order_independent. Qed.
Print Assumptions C02_list_element_order_independent.

(* an element addressed by any delete is deleted, and a deleted element is never shown again *)
Theorem C02_list_element_deleted_by_any_delete : forall l x t, In (EDel t) l -> elive (fold_left eapply l x) = false.
Proof. exact element_deleted_by_any_delete. Qed.
Print Assumptions C02_list_element_deleted_by_any_delete.

(* list, placement: two concurrent inserts (batches) at the same place — what follows the target is older than both —
   end up ordered by operation timestamp, the greater first, on every replica whichever it executes first.
   [stops T k]: T is empty or its first node is not newer than k; [ins_many] is the model's remote placement
   (insertRemoteWithTimedTypes behind the target). *)
From Orda.Proofs Require Import ListConv.
Theorem C02_list_concurrent_inserts_by_timestamp : forall T t1 t2 vs1 vs2,
  ts_bounded t1 -> ts_bounded t2 -> bnodes T -> klt (key_of t2) (key_of t1) = true ->
  stops T (key_of t1) -> stops T (key_of t2) ->
  let N1 := mk_nodes t1 0 vs1 in let N2 := mk_nodes t2 0 vs2 in
  ins_many (ins_many T N1) N2 = N1 ++ N2 ++ T /\ ins_many (ins_many T N2) N1 = N1 ++ N2 ++ T.
Proof. exact concurrent_inserts_by_timestamp. Qed.
Print Assumptions C02_list_concurrent_inserts_by_timestamp.
