(* C13 — Create, Subscribe and SubscribeOrCreate honour their contract (server side; the client
   side — the error reaches the error handler, the state change is reported once — is in the
   model of ApplyPushPullPack, Model/Wire.v, replayed against the code). *)
From Coq Require Import List NArith Bool.
From Orda.Model Require Import Base Time Ops Server.
From Orda.Proofs Require Import ServerFacts.

Theorem C13_subscribe_missing_refused : forall db colname col cuid req,
  has (p_opt req) bit_subscribe = true -> has (p_opt req) bit_create = false ->
  find_dt_by_key db col (p_key req) = None ->
  exists code, handle_pack db colname col cuid req = (db, error_resp req code, []).
Proof. exact subscribe_missing_refused. Qed.
Print Assumptions C13_subscribe_missing_refused.

Theorem C13_create_existing_refused : forall db colname col cuid req d0,
  has (p_opt req) bit_create = true -> has (p_opt req) bit_subscribe = false ->
  find_dt_by_key db col (p_key req) = Some d0 ->
  dd_duid d0 <> p_duid req \/ dd_type d0 <> p_type req ->
  exists code, handle_pack db colname col cuid req = (db, error_resp req code, []).
Proof. exact create_existing_refused. Qed.
Print Assumptions C13_create_existing_refused.

Theorem C13_type_mismatch_refused : forall db colname col cuid req d0,
  has (p_opt req) bit_create || has (p_opt req) bit_subscribe = true ->
  find_dt_by_key db col (p_key req) = Some d0 -> dd_type d0 <> p_type req ->
  exists code, handle_pack db colname col cuid req = (db, error_resp req code, []).
Proof. exact type_mismatch_refused. Qed.
Print Assumptions C13_type_mismatch_refused.

(* however many clients race with SubscribeOrCreate (or anything else), after any request
   sequence there is at most one datatype per collection and key — clause li_key of LogInv *)
Theorem C13_unique_key : forall (rs : list request) d1 d2,
  let db := fold_left serve rs sdb_init in
  In d1 (s_dts db) -> In d2 (s_dts db) -> dd_col d1 = dd_col d2 -> dd_key d1 = dd_key d2 -> d1 = d2.
Proof. exact unique_key. Qed.
Print Assumptions C13_unique_key.
