(* C10: a datatype restored from its marshalled snapshot is the same replica. *)
From Coq Require Import List NArith ZArith Bool Lia Permutation.
From Orda.Model Require Import Base Time Ops Counter Map List Snapshot.
From Orda.Proofs Require Import TimeFacts OrderFacts Sys MapFacts MapConv SortFacts.
Import ListNotations.

(* ---------- counter, list: restoring gives back the very same state ---------- *)
Theorem counter_roundtrip s : c_unmarshal (c_marshal s) = s.
Proof. reflexivity. Qed.

Theorem list_roundtrip s : l_unmarshal (l_marshal s) = s.
Proof.
  destruct s as [nodes sz]. unfold l_marshal, l_unmarshal. cbn. f_equal.
  rewrite map_map. rewrite <- (map_id nodes) at 2. apply map_ext. intros [o t v]. reflexivity.
Qed.
Theorem list_reexport s : l_marshal (l_unmarshal (l_marshal s)) = l_marshal s.
Proof. rewrite list_roundtrip. reflexivity. Qed.

(* ---------- map: the restored map is the same function of keys (a Go map has no order) ---------- *)
Definition m_equiv (a b : mstate) : Prop := (forall k, mget a k = mget b k) /\ m_size a = m_size b.

Lemma alookup_perm {V} (l1 l2 : list (str * V)) k :
  NoDup (map fst l1) -> Permutation l1 l2 -> alookup str_eqb k l1 = alookup str_eqb k l2.
Proof.
  intros N P. assert (N2 : NoDup (map fst l2)) by (eapply Permutation_NoDup; [apply Permutation_map; exact P|exact N]).
  destruct (alookup str_eqb k l1) as [v|] eqn:E1.
  - apply (look_in k v l1 N) in E1. symmetry. apply (look_in k v l2 N2). eapply Permutation_in; eauto.
  - destruct (alookup str_eqb k l2) as [v|] eqn:E2; [|reflexivity].
    apply (look_in k v l2 N2) in E2. apply (Permutation_in _ (Permutation_sym P)) in E2.
    apply (look_in k v l1 N) in E2. congruence.
Qed.

Lemma alookup_map_entry (m : list (str * mentry)) k :
  alookup str_eqb k (map (fun kv => (fst kv, mkMentry (fst (snd kv)) (snd (snd kv))))
                         (map (fun kv => (fst kv, (m_v (snd kv), m_t (snd kv)))) m)) = alookup str_eqb k m.
Proof.
  induction m as [|[k0 [v t]] m IH]; cbn; [reflexivity|]. destruct (str_eqb k k0); [reflexivity|exact IH].
Qed.

Theorem map_roundtrip s : m_wf s -> m_equiv (m_unmarshal (m_marshal s)) s.
Proof.
  intros [Hnd _]. split; [|reflexivity]. intros k. unfold mget, m_unmarshal, m_marshal. cbn [m_map].
  set (l := map (fun kv => (fst kv, (m_v (snd kv), m_t (snd kv)))) (m_map s)).
  assert (Nl : NoDup (map fst l)).
  { unfold l. rewrite map_map. cbn. exact Hnd. }
  assert (P : Permutation l (sort_by_key l)) by apply sort_perm.
  (* lookups commute with the entry-wise map, so compare on the pair lists *)
  assert (G : forall l1 l2 : list (str * (option val * ts)), NoDup (map fst l1) -> Permutation l1 l2 ->
            alookup str_eqb k (map (fun kv => (fst kv, mkMentry (fst (snd kv)) (snd (snd kv)))) l1) =
            alookup str_eqb k (map (fun kv => (fst kv, mkMentry (fst (snd kv)) (snd (snd kv)))) l2)).
  { intros l1 l2 N1 P12. apply alookup_perm.
    - rewrite map_map. cbn. exact N1.
    - apply Permutation_map. exact P12. }
  rewrite <- (alookup_map_entry (m_map s) k). fold l. symmetry. apply G; assumption.
Qed.

(* equivalent maps answer every later operation in the same way and stay equivalent *)
Theorem map_equiv_remote a b o : m_equiv a b -> m_equiv (m_exec_remote a o) (m_exec_remote b o).
Proof.
  intros [H Hs]. split.
  - intros k. rewrite !mget_exec, H. reflexivity.
  - destruct o; cbn [m_exec_remote]; try exact Hs; try reflexivity.
    + unfold m_put. rewrite <- (H k). destruct (mget a k) as [old|]; cbn; [|lia].
      destruct (ts_lt (m_t old) (opid_ts id)); cbn; [destruct (m_v old); lia|exact Hs].
    + unfold m_remove_remote. rewrite <- (H k). destruct (mget a k) as [[v t0]|]; [|exact Hs].
      destruct (ts_lt t0 (opid_ts id)); cbn; [destruct v; lia|exact Hs].
Qed.

Theorem map_equiv_local a b c i :
  m_equiv a b ->
  match m_exec_local a c i, m_exec_local b c i with
  | Some (a', oa, ra), Some (b', ob, rb) => m_equiv a' b' /\ oa = ob /\ ra = rb
  | None, None => True
  | _, _ => False
  end.
Proof.
  intros [H Hs]. destruct c as [k v|k]; cbn [m_exec_local].
  - pose proof (map_equiv_remote a b (OPut i k v) (conj H Hs)) as E. cbn [m_exec_remote] in E.
    unfold m_put in *. rewrite <- (H k) in *. destruct (mget a k) as [old|]; cbn in *; [|auto].
    destruct (ts_lt (m_t old) (opid_ts i)); cbn in *; auto.
  - unfold m_remove_local. rewrite <- (H k). destruct (mget a k) as [[[v|] t0]|]; auto.
    destruct (ts_lt t0 (opid_ts i)); auto. split; [|auto]. split.
    + intros k'. unfold mget. cbn [m_map]. rewrite !alookup_aset. destruct (str_eqb k' k); [reflexivity|apply H].
    + cbn. lia.
Qed.

(* equivalent well-formed maps show the same JSON view and marshal to the same snapshot *)
Lemma live_perm (m1 m2 : list (str * mentry)) : Permutation m1 m2 ->
  Permutation (m_live (mkMstate m1 0)) (m_live (mkMstate m2 0)).
Proof. intros P. unfold m_live. cbn [m_map]. apply Permutation_flat_map. exact P. Qed.

Lemma live_keys_nodup (m : list (str * mentry)) : NoDup (map fst m) -> NoDup (map fst (m_live (mkMstate m 0))).
Proof.
  unfold m_live. cbn [m_map]. induction m as [|[k e] m IH]; cbn; intros H; [constructor|].
  inversion H as [|? ? Hn Hd]; subst. destruct (m_v e); cbn; [|apply IH; exact Hd].
  constructor; [|apply IH; exact Hd].
  intros Hin. apply Hn. apply in_map_iff in Hin. destruct Hin as [[k' v'] [E Hin]]. cbn in E. subst k'.
  apply in_flat_map in Hin. destruct Hin as [[k2 e2] [Hin2 Hx]]. cbn in Hx. destruct (m_v e2); [|destruct Hx].
  destruct Hx as [[= -> _]|[]]. apply in_map_iff. exists (k, e2). auto.
Qed.

Theorem map_equiv_view a b : m_wf a -> m_wf b -> m_equiv a b -> m_view a = m_view b.
Proof.
  intros [Na _] [Nb _] [H _]. unfold m_view. f_equal.
  assert (P : Permutation (m_map a) (m_map b)) by (apply same_lookup_perm; assumption).
  change (m_live a) with (m_live (mkMstate (m_map a) 0)). change (m_live b) with (m_live (mkMstate (m_map b) 0)).
  apply sort_canonical; try (apply live_keys_nodup; assumption). apply live_perm. exact P.
Qed.

Theorem map_equiv_marshal a b : m_wf a -> m_wf b -> m_equiv a b -> m_marshal a = m_marshal b.
Proof.
  intros [Na _] [Nb _] [H Hs]. unfold m_marshal. rewrite Hs. f_equal.
  assert (P : Permutation (m_map a) (m_map b)) by (apply same_lookup_perm; assumption).
  apply sort_canonical.
  - rewrite map_map. exact Na.
  - rewrite map_map. exact Nb.
  - apply Permutation_map. exact P.
Qed.

Lemma unmarshal_wf s : m_wf s -> m_wf (m_unmarshal (m_marshal s)).
Proof.
  intros [Hnd Hs]. destruct (map_roundtrip s (conj Hnd Hs)) as [Hl Hz].
  assert (N : NoDup (keys (m_map (m_unmarshal (m_marshal s))))).
  { unfold m_unmarshal, m_marshal, keys. cbn [m_map]. rewrite map_map. cbn.
    eapply Permutation_NoDup; [apply Permutation_map, sort_perm|]. rewrite map_map. exact Hnd. }
  split; [exact N|].
  rewrite Hz, Hs. unfold live_count. f_equal.
  change (m_live (m_unmarshal (m_marshal s))) with (m_live (mkMstate (m_map (m_unmarshal (m_marshal s))) 0)).
  change (m_live s) with (m_live (mkMstate (m_map s) 0)).
  apply Permutation_length, live_perm.
  first [ apply same_lookup_perm; [exact N|exact Hnd|exact Hl]
        | apply same_lookup_perm; [exact Hnd|exact N|intros k; symmetry; apply Hl] ].
Qed.

Theorem map_reexport s : m_wf s -> m_marshal (m_unmarshal (m_marshal s)) = m_marshal s.
Proof.
  intros H. apply map_equiv_marshal; [apply unmarshal_wf; exact H|exact H|apply map_roundtrip; exact H].
Qed.

Theorem map_wf_reachable l : m_wf (fold_left m_exec_remote l m_init).
Proof. apply m_fold_wf, m_init_wf. Qed.

(* C01 for the map, on the readable level: equal operation sets give the same JSON view *)
Theorem map_convergence_view (author : op -> nat) (s : sys op) r1 r2 :
  reachable mstate op tkey m_oid author m_exec_remote m_ready m_init s ->
  Permutation (applied _ (reps _ s r1)) (applied _ (reps _ s r2)) ->
  m_view (fold_left m_exec_remote (applied _ (reps _ s r1)) m_init) =
  m_view (fold_left m_exec_remote (applied _ (reps _ s r2)) m_init).
Proof.
  intros Hr Hp. destruct (map_convergence author s r1 r2 Hr Hp) as [H1 H2].
  apply map_equiv_view; try apply map_wf_reachable. split; assumption.
Qed.
