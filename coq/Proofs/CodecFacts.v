(* C14: operations survive the conversion to the protocol message and to the stored document. *)
From Coq Require Import List NArith ZArith Bool Lia.
From Orda.Model Require Import Base Time Ops Codec.
From Orda.Proofs Require Import TimeFacts.
Import ListNotations.
Open Scope N_scope.

(* induction on JSON-like values with their nested lists *)
Section ValInd.
  Variable P : val -> Prop.
  Hypothesis Hn : forall z, P (VNum z).
  Hypothesis Hs : forall s, P (VStr s).
  Hypothesis Hb : forall b, P (VBool b).
  Hypothesis Ha : forall l, Forall P l -> P (VArr l).
  Hypothesis Ho : forall l, Forall (fun kv => P (snd kv)) l -> P (VObj l).
  Fixpoint val_ind' (v : val) : P v :=
    match v with
    | VNum z => Hn z | VStr s => Hs s | VBool b => Hb b
    | VArr l => Ha l ((fix go (l : list val) : Forall P l :=
                         match l with [] => Forall_nil _ | x :: l' => Forall_cons _ (val_ind' x) (go l') end) l)
    | VObj l => Ho l ((fix go (l : list (str * val)) : Forall (fun kv => P (snd kv)) l :=
                         match l with [] => Forall_nil _ | x :: l' => Forall_cons _ (val_ind' (snd x)) (go l') end) l)
    end.
End ValInd.

Theorem val_json_roundtrip v : json_to_val (val_to_json v) = Some v.
Proof.
  induction v using val_ind'; cbn; try reflexivity.
  - assert (E : (fix go (l0 : list json) : option (list val) :=
                   match l0 with
                   | [] => Some []
                   | x :: l' => match json_to_val x, go l' with Some v, Some vs => Some (v :: vs) | _, _ => None end
                   end) (map val_to_json l) = Some l).
    { induction H as [|x l Hx H IH]; cbn; [reflexivity|]. rewrite Hx, IH. reflexivity. }
    rewrite E. reflexivity.
  - assert (E : (fix go (l0 : list (str * json)) : option (list (str * val)) :=
                   match l0 with
                   | [] => Some []
                   | (k, x) :: l' => match json_to_val x, go l' with Some v, Some vs => Some ((k, v) :: vs) | _, _ => None end
                   end) (map (fun kv => (fst kv, val_to_json (snd kv))) l) = Some l).
    { induction H as [|[k x] l Hx H IH]; cbn; [reflexivity|]. cbn in Hx. rewrite Hx, IH. reflexivity. }
    rewrite E. reflexivity.
Qed.

Lemma vals_roundtrip vs : json_to_vals (Some (vals_to_json vs)) = Some vs.
Proof.
  unfold json_to_vals, vals_to_json. destruct vs as [|v0 vs0]; [reflexivity|]. generalize (v0 :: vs0). clear.
  induction l as [|v vs IH]; cbn; [reflexivity|]. rewrite val_json_roundtrip. cbn in IH. rewrite IH. reflexivity.
Qed.

(* a timestamp survives although every zero / empty field is omitted *)
Theorem ts_json_roundtrip t : json_to_ts (ts_to_json t) = t.
Proof.
  destruct t as [e l c d]. unfold ts_to_json, json_to_ts, jfield, jnum, jstr. cbn [era lam cuid delim].
  destruct (N.eqb_spec e 0) as [->|He], (N.eqb_spec l 0) as [->|Hl], c as [|c0 c], (N.eqb_spec d 0) as [->|Hd];
    cbn; rewrite ?N2Z.id; reflexivity.
Qed.

Lemma tss_roundtrip l : json_to_tss (Some (tss_to_json l)) = l.
Proof.
  unfold json_to_tss, tss_to_json. destruct l as [|t0 l0]; [reflexivity|]. generalize (t0 :: l0). clear. intros l.
  rewrite map_map. rewrite <- (map_id l) at 2. apply map_ext. apply ts_json_roundtrip.
Qed.

(* every operation a client can produce decodes back to itself *)
Theorem codec_roundtrip o : (forall i, o <> OSnap i) -> model_to_op (op_to_model o) = Some o.
Proof.
  intros Hs. destruct o; try (exfalso; eapply Hs; reflexivity); unfold op_to_model, model_to_op;
    cbn [op_type op_id op_body mo_type mo_id mo_body];
    unfold jfield, jstr, jz, jts; cbn [alookup str_eqb N.eqb Pos.eqb andb s_Tag s_NumOfOps s_Delta s_Key s_Value s_T s_V s_P s_K];
    rewrite ?val_json_roundtrip, ?ts_json_roundtrip; cbn [option_map];
    try reflexivity.
  -  rewrite vals_roundtrip. reflexivity.
  -  rewrite tss_roundtrip. reflexivity.
  -  
    rewrite tss_roundtrip, vals_roundtrip. reflexivity.
  -  rewrite vals_roundtrip. reflexivity.
  -  rewrite tss_roundtrip. reflexivity.
  -  
    rewrite tss_roundtrip, vals_roundtrip. reflexivity.
Qed.

(* the enum tables are mutually inverse on every operation type *)
Theorem type_tables_inverse n : In n (map fst type_names) -> type_number (type_name n) = n.
Proof.
  intros H.
  assert (A : forallb (fun p => N.eqb (type_number (type_name (fst p))) (fst p)) type_names = true) by (vm_compute; reflexivity).
  rewrite forallb_forall in A. apply in_map_iff in H. destruct H as [p [<- Hp]]. apply N.eqb_eq. apply A. exact Hp.
Qed.

Theorem doc_roundtrip m : In (mo_type m) (map fst type_names) -> doc_to_model (model_to_doc m) = m.
Proof.
  intros H. destruct m as [i t b]. unfold doc_to_model, model_to_doc. cbn. rewrite (type_tables_inverse t H). reflexivity.
Qed.

(* through the store as well *)
Corollary stored_op_roundtrip o : (forall i, o <> OSnap i) ->
  model_to_op (doc_to_model (model_to_doc (op_to_model o))) = Some o.
Proof.
  intros H. rewrite doc_roundtrip; [apply codec_roundtrip; exact H|].
  destruct o; cbn; try (exfalso; eapply H; reflexivity); vm_compute; tauto.
Qed.
