(* The order on operation timestamps as a boolean strict total order on keys
   (era, lamport, client id), and a small decision tactic for it. *)
From Coq Require Import List NArith ZArith Bool Lia.
From Orda.Model Require Import Base Time.
From Orda.Proofs Require Import TimeFacts.
Import ListNotations.
Open Scope N_scope.

Definition tkey := (N * N * str)%type.
Definition key_of (t : ts) : tkey := (era t, lam t, cuid t).
Definition key_cmp (a b : tkey) : comparison :=
  let '(e1, l1, c1) := a in let '(e2, l2, c2) := b in
  match N.compare e1 e2 with
  | Eq => match N.compare l1 l2 with Eq => str_cmp c1 c2 | c => c end
  | c => c
  end.
Definition klt (a b : tkey) : bool := match key_cmp a b with Lt => true | _ => false end.

Lemma plain_is_key a b : ts_compare_plain a b = key_cmp (key_of a) (key_of b).
Proof. reflexivity. Qed.

Lemma ts_lt_klt a b : ts_bounded a -> ts_bounded b -> ts_lt a b = klt (key_of a) (key_of b).
Proof. intros Ha Hb. unfold ts_lt, klt. rewrite ts_compare_is_plain by assumption. reflexivity. Qed.
Lemma ts_gt_klt a b : ts_bounded a -> ts_bounded b -> ts_gt a b = klt (key_of b) (key_of a).
Proof.
  intros Ha Hb. unfold ts_gt, klt. rewrite ts_compare_is_plain by assumption.
  rewrite plain_is_key, <- (plain_is_key b a), (plain_antisym a b), plain_is_key.
  destruct (key_cmp (key_of a) (key_of b)); reflexivity.
Qed.

(* reuse the ts-level facts through a representative timestamp *)
Definition ts_of_key (k : tkey) : ts := let '(e, l, c) := k in mkTs e l c 0.
Lemma key_of_ts_of_key k : key_of (ts_of_key k) = k.
Proof. destruct k as [[e l] c]. reflexivity. Qed.
Lemma key_cmp_plain a b : key_cmp a b = ts_compare_plain (ts_of_key a) (ts_of_key b).
Proof. rewrite plain_is_key, !key_of_ts_of_key. reflexivity. Qed.

Lemma klt_irrefl a : klt a a = false.
Proof.
  unfold klt. rewrite key_cmp_plain.
  assert (H : ts_compare_plain (ts_of_key a) (ts_of_key a) = Eq) by (apply plain_eq; repeat split).
  rewrite H. reflexivity.
Qed.
Lemma klt_trans a b c : klt a b = true -> klt b c = true -> klt a c = true.
Proof.
  unfold klt. rewrite !key_cmp_plain. intros H1 H2.
  destruct (ts_compare_plain (ts_of_key a) (ts_of_key b)) eqn:E1; try discriminate.
  destruct (ts_compare_plain (ts_of_key b) (ts_of_key c)) eqn:E2; try discriminate.
  rewrite (plain_lt_trans _ _ _ E1 E2). reflexivity.
Qed.
Lemma klt_total a b : klt a b = false -> klt b a = false -> a = b.
Proof.
  unfold klt. rewrite !key_cmp_plain, (plain_antisym (ts_of_key a) (ts_of_key b)).
  destruct (ts_compare_plain (ts_of_key a) (ts_of_key b)) eqn:E; cbn; try discriminate.
  intros _ _. apply plain_eq in E. destruct E as [E1 [E2 E3]].
  destruct a as [[e1 l1] c1], b as [[e2 l2] c2]; cbn in *. congruence.
Qed.
Lemma klt_asym a b : klt a b = true -> klt b a = false.
Proof.
  intros H. destruct (klt b a) eqn:E; [|reflexivity].
  pose proof (klt_trans _ _ _ H E) as C. rewrite klt_irrefl in C. discriminate.
Qed.

(* decision procedure for goals about klt on variables: case-split every comparison
   that occurs, identify keys that are unordered both ways, saturate transitivity *)
Ltac klt_saturate :=
  repeat match goal with
  | H1 : klt ?x ?y = true, H2 : klt ?y ?z = true |- _ =>
      lazymatch goal with
      | _ : klt x z = true |- _ => fail
      | _ => pose proof (klt_trans _ _ _ H1 H2)
      end
  end.
Ltac klt_contra :=
  klt_saturate;
  match goal with
  | H : klt ?x ?x = true |- _ => rewrite klt_irrefl in H; discriminate
  | H1 : klt ?x ?y = true, H2 : klt ?x ?y = false |- _ => rewrite H1 in H2; discriminate
  | H1 : klt ?x ?y = true, H2 : klt ?y ?x = true |- _ => pose proof (klt_asym _ _ H1); congruence
  end.
Ltac klt_eqs :=
  repeat match goal with
  | H1 : klt ?x ?y = false, H2 : klt ?y ?x = false |- _ =>
      let E := fresh "E" in pose proof (klt_total _ _ H1 H2) as E; clear H1 H2;
      first [subst x | subst y | idtac]
  end.
Ltac klt_cases :=
  repeat match goal with
  | |- context [klt ?x ?y] => let E := fresh "C" in destruct (klt x y) eqn:E; cbn [negb andb orb]
  end.
