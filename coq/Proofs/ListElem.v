(* C02, list part: an element shows its newest update unless it was deleted — as a function of the SET of update and
   delete operations addressed to it, whatever the order in which a replica receives them.  (Where concurrent inserts
   are placed is the other half of list convergence and is not proved here.) *)
From Coq Require Import List NArith ZArith Bool Lia Permutation.
From Orda.Model Require Import Base Time Ops List.
From Orda.Proofs Require Import TimeFacts OrderFacts.
Import ListNotations.
Open Scope N_scope.

(* what an operation does to the element it addresses: (T, V) of the node *)
Inductive eop := EUpd (t : ts) (v : val) | EDel (t : ts).
Definition etime (o : eop) : ts := match o with EUpd t _ | EDel t => t end.
Definition est := (ts * option val)%type.
Definition elive (x : est) : bool := match snd x with Some _ => true | None => false end.
Definition eapply (x : est) (o : eop) : est :=
  match o with
  | EUpd t v => if elive x && ts_lt (fst x) t then (t, Some v) else x
  | EDel t => if elive x then (t, None) else if ts_lt (fst x) t then (t, None) else x
  end.

(* ---------- the model's remote update / delete of ONE target is eapply on that node and nothing else ---------- *)
Definition node_st (n : node) : est := (n_t n, n_v n).
Definition set_st (n : node) (x : est) : node := mkNode (n_o n) (fst x) (snd x).

Lemma update_one_is_eapply l tg v t x :
  find_node l tg = Some x ->
  l_update_remote_go l [tg] [v] t 0 = upd_node l tg (fun n => set_st n (eapply (node_st n) (EUpd (ts_at t 0) v))) \/
  l_update_remote_go l [tg] [v] t 0 = l /\ eapply (node_st x) (EUpd (ts_at t 0) v) = node_st x.
Proof.
  intros Hf. cbn [l_update_remote_go]. rewrite Hf. unfold eapply, elive, node_st. cbn [fst snd].
  unfold live. destruct (n_v x) eqn:Ev; cbn [andb]; [|right; auto].
  destruct (ts_lt (n_t x) (ts_at t 0)) eqn:El; [|right; auto]. left.
  clear -Hf Ev El. unfold find_node in Hf. induction l as [|y l IH]; cbn [find] in Hf; [discriminate|]. cbn [upd_node].
  destruct (ts_eqb (n_o y) tg) eqn:E.
  - injection Hf as ->. unfold set_st, live. cbn [fst snd]. rewrite Ev. cbn [andb]. rewrite El. reflexivity.
  - rewrite (IH Hf). reflexivity.
Qed.

Lemma delete_one_is_eapply l sz tg t x :
  find_node l tg = Some x ->
  fst (l_delete_remote_go l sz [tg] t 0) = upd_node l tg (fun n => set_st n (eapply (node_st n) (EDel (ts_at t 0)))) \/
  fst (l_delete_remote_go l sz [tg] t 0) = l /\ eapply (node_st x) (EDel (ts_at t 0)) = node_st x.
Proof.
  intros Hf. cbn [l_delete_remote_go]. rewrite Hf. unfold eapply, elive, node_st. cbn [fst snd]. unfold live.
  assert (G : forall g, (forall n, find_node l tg = Some n -> g n = mkNode (n_o n) (ts_at t 0) None) ->
            upd_node l tg (fun x0 => mkNode (n_o x0) (ts_at t 0) None) = upd_node l tg g).
  { intros g Hg. clear -Hg. unfold find_node in Hg. induction l as [|y l IH]; [reflexivity|]. cbn [upd_node find] in *.
    destruct (ts_eqb (n_o y) tg) eqn:E; [rewrite (Hg y eq_refl); reflexivity|]. rewrite IH; [reflexivity|exact Hg]. }
  destruct (n_v x) eqn:Ev.
  - left. cbn [fst]. apply G. intros n Hn. rewrite Hf in Hn. injection Hn as <-. unfold set_st. cbn [fst snd]. rewrite Ev. reflexivity.
  - destruct (ts_lt (n_t x) (ts_at t 0)) eqn:El; [|right; auto]. left. cbn [fst]. apply G. intros n Hn. rewrite Hf in Hn. injection Hn as <-.
    unfold set_st. cbn [fst snd]. rewrite Ev, El. reflexivity.
Qed.

(* ---------- order independence ---------- *)
Definition ebounded (o : eop) : Prop := ts_bounded (etime o).
Definition sbounded (x : est) : Prop := ts_bounded (fst x).

Lemma eapply_bounded x o : sbounded x -> ebounded o -> sbounded (eapply x o).
Proof.
  unfold sbounded, ebounded, eapply. intros Hx Ho. destruct o as [t v|t]; cbn [etime] in Ho.
  - destruct (elive x && ts_lt (fst x) t); [exact Ho|exact Hx].
  - destruct (elive x); [exact Ho|]. destruct (ts_lt (fst x) t); [exact Ho|exact Hx].
Qed.

(* two operations with different timestamps (different operations never share one) commute on every element state *)
Lemma eapply_comm x a b :
  sbounded x -> ebounded a -> ebounded b -> key_of (etime a) <> key_of (etime b) ->
  key_of (fst x) <> key_of (etime a) -> key_of (fst x) <> key_of (etime b) ->
  eapply (eapply x a) b = eapply (eapply x b) a.
Proof.
  unfold sbounded, ebounded. intros Hx Ha Hb Hab Hxa Hxb. destruct x as [tx vx].
  assert (T : forall p q, ts_bounded p -> ts_bounded q -> key_of p <> key_of q -> ts_lt p q = negb (ts_lt q p)).
  { intros p q Hp Hq Hne. rewrite (ts_lt_klt _ _ Hp Hq), (ts_lt_klt _ _ Hq Hp).
    destruct (klt (key_of p) (key_of q)) eqn:E1, (klt (key_of q) (key_of p)) eqn:E2; try reflexivity.
    - pose proof (klt_trans _ _ _ E1 E2) as C. rewrite klt_irrefl in C. discriminate.
    - exfalso. apply Hne. apply klt_total; assumption. }
  assert (Tr : forall p q r, ts_bounded p -> ts_bounded q -> ts_bounded r -> ts_lt p q = true -> ts_lt q r = true -> ts_lt p r = true).
  { intros p q r Hp Hq Hr. rewrite (ts_lt_klt _ _ Hp Hq), (ts_lt_klt _ _ Hq Hr), (ts_lt_klt _ _ Hp Hr). apply klt_trans. }
  cbn [fst] in *.
  assert (Facts : forall ta tb, ts_bounded ta -> ts_bounded tb -> key_of ta <> key_of tb -> key_of tx <> key_of ta -> key_of tx <> key_of tb ->
            ts_lt tb ta = negb (ts_lt ta tb) /\ ts_lt ta tx = negb (ts_lt tx ta) /\ ts_lt tb tx = negb (ts_lt tx tb) /\
            (ts_lt tx ta = true -> ts_lt ta tb = true -> ts_lt tx tb = true) /\
            (ts_lt tx tb = true -> ts_lt ta tb = false -> ts_lt tx ta = true) /\
            (ts_lt tx ta = false -> ts_lt tx tb = true -> ts_lt ta tb = true) /\
            (ts_lt ta tb = true -> ts_lt tx tb = false -> ts_lt tx ta = false) /\
            (ts_lt tx tb = false -> ts_lt tx ta = true -> ts_lt ta tb = false) /\
            (ts_lt ta tb = false -> ts_lt tx ta = false -> ts_lt tx tb = false)).
  { clear Ha Hb Hab Hxa Hxb. intros ta tb Ha Hb Hab Hxa Hxb.
    pose proof (T tb ta Hb Ha (fun E => Hab (eq_sym E))) as R1. pose proof (T ta tx Ha Hx (fun E => Hxa (eq_sym E))) as R2.
    pose proof (T tb tx Hb Hx (fun E => Hxb (eq_sym E))) as R3.
    split; [exact R1|]. split; [exact R2|]. split; [exact R3|].
    split; [intros; eapply Tr; [| | |eassumption|eassumption]; assumption|].
    split; [intros H1 H2; rewrite H2 in R1; cbn in R1; exact (Tr tx tb ta Hx Hb Ha H1 R1)|].
    split; [intros H1 H2; rewrite H1 in R2; cbn in R2; exact (Tr ta tx tb Ha Hx Hb R2 H2)|].
    split; [intros H1 H2; rewrite H2 in R3; cbn in R3; pose proof (Tr ta tb tx Ha Hb Hx H1 R3) as C; rewrite C in R2; destruct (ts_lt tx ta); [discriminate|reflexivity]|].
    split; [intros H1 H2; rewrite H1 in R3; cbn in R3; pose proof (Tr tb tx ta Hb Hx Ha R3 H2) as C; rewrite C in R1; destruct (ts_lt ta tb); [discriminate|reflexivity]|].
    intros H1 H2. rewrite H1 in R1. cbn in R1. rewrite H2 in R2. cbn in R2. pose proof (Tr tb ta tx Hb Ha Hx R1 R2) as C. rewrite C in R3.
    destruct (ts_lt tx tb); [discriminate|reflexivity]. }
  destruct a as [ta va|ta], b as [tb vb|tb]; cbn [etime] in *;
    destruct (Facts ta tb Ha Hb Hab Hxa Hxb) as [R1 [R2 [R3 [F1 [F2 [F3 [F4 [F5 F6]]]]]]]];
    unfold eapply, elive; cbn [fst snd]; destruct vx as [v0|]; cbn [andb];
    destruct (ts_lt tx ta) eqn:E1, (ts_lt tx tb) eqn:E2, (ts_lt ta tb) eqn:E3;
    cbn [fst snd andb negb] in *; rewrite ?R1, ?E1, ?E2, ?E3; cbn [fst snd andb negb]; rewrite ?E1, ?E2, ?E3; cbn [fst snd andb negb];
    try reflexivity;
    try (specialize (F1 eq_refl eq_refl); discriminate); try (specialize (F2 eq_refl eq_refl); discriminate);
    try (specialize (F3 eq_refl eq_refl); discriminate); try (specialize (F4 eq_refl eq_refl); discriminate);
    try (specialize (F5 eq_refl eq_refl); discriminate); try (specialize (F6 eq_refl eq_refl); discriminate).
Qed.

From Orda.Proofs Require Import Permute.

Definition eoid (o : eop) : tkey := key_of (etime o).
Definition eready (x : est) (o : eop) : Prop := ebounded o /\ key_of (fst x) <> eoid o.

Lemma eapply_key x o : fst (eapply x o) = fst x \/ fst (eapply x o) = etime o.
Proof.
  unfold eapply. destruct o as [t v|t]; cbn [etime].
  - destruct (elive x && ts_lt (fst x) t); auto.
  - destruct (elive x); [auto|]. destruct (ts_lt (fst x) t); auto.
Qed.

Lemma eready_all l : forall x, Forall ebounded l -> NoDup (map eoid l) -> ~ In (key_of (fst x)) (map eoid l) ->
  exec_ok est eop eapply eready x l.
Proof.
  induction l as [|o l IH]; intros x Hb Hnd Hx; cbn [exec_ok]; [exact I|].
  inversion Hb as [|? ? Hb1 Hb2]; subst. inversion Hnd as [|? ? Hn1 Hn2]; subst. cbn [map] in Hx. split.
  - split; [exact Hb1|]. intros E. apply Hx. left. symmetry. exact E.
  - apply IH; [exact Hb2|exact Hn2|]. destruct (eapply_key x o) as [E|E]; rewrite E.
    + intros H. apply Hx. right. exact H.
    + exact Hn1.
Qed.

(* C02 (list elements): whatever the order in which a replica receives the updates and deletes addressed to an
   element, the element ends in the same state (value or tombstone, and its timestamp) *)
Theorem element_order_independent x l1 l2 :
  sbounded x -> Forall ebounded l1 -> NoDup (map eoid l1) -> ~ In (key_of (fst x)) (map eoid l1) ->
  Permutation l1 l2 -> fold_left eapply l1 x = fold_left eapply l2 x.
Proof.
  intros Hx Hb Hnd Hin Hp.
  assert (Hb2 : Forall ebounded l2) by (rewrite <- Hp; exact Hb).
  assert (Hnd2 : NoDup (map eoid l2)) by (eapply Permutation_NoDup; [apply Permutation_map, Hp|exact Hnd]).
  assert (Hin2 : ~ In (key_of (fst x)) (map eoid l2)).
  { intros H. apply Hin. eapply Permutation_in; [apply Permutation_sym, Permutation_map, Hp|exact H]. }
  apply (executable_permutations_agree est eop tkey eoid eapply eready sbounded); auto.
  - intros s a Hs [Ha _]. apply eapply_bounded; assumption.
  - intros s a b Hs Hab [Ha Ha2] [Hb' Hb'2]. split; [exact Hb'|]. destruct (eapply_key s a) as [E|E]; rewrite E; [exact Hb'2|exact Hab].
  - intros s a b Hs Hab [Ha Ha2] [Hb' Hb'2]. apply eapply_comm; auto.
  - apply eready_all; assumption.
  - apply eready_all; assumption.
Qed.

(* a deleted element stays deleted, and an element some delete addressed is deleted *)
Lemma eapply_dead x o : elive x = false -> elive (eapply x o) = false.
Proof.
  unfold eapply. intros H. destruct o as [t v|t]; rewrite H; cbn [andb]; [exact H|]. destruct (ts_lt (fst x) t); [reflexivity|exact H].
Qed.
Theorem element_deleted_stays_deleted l : forall x, elive x = false -> elive (fold_left eapply l x) = false.
Proof. induction l as [|o l IH]; intros x H; cbn [fold_left]; [exact H|]. apply IH, eapply_dead, H. Qed.
Theorem element_deleted_by_any_delete l : forall x t, In (EDel t) l -> elive (fold_left eapply l x) = false.
Proof.
  induction l as [|o l IH]; intros x t; [intros []|]. intros [->|Hin]; cbn [fold_left].
  - apply element_deleted_stays_deleted. unfold eapply. destruct (elive x) eqn:E; [reflexivity|]. destruct (ts_lt (fst x) t); [reflexivity|exact E].
  - eapply IH; eauto.
Qed.
