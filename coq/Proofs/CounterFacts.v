From Coq Require Import List ZArith Lia Permutation.
From Orda.Model Require Import Base Time Ops Counter.
Import ListNotations.
Open Scope Z_scope.

Lemma wrap32_mod z : wrap32 z mod 4294967296 = z mod 4294967296.
Proof.
  unfold wrap32. destruct (Z.ltb_spec (z mod 4294967296) 2147483648).
  - apply Z.mod_mod. lia.
  - rewrite Zminus_mod, Z_mod_same_full, Z.sub_0_r, !Z.mod_mod by lia. reflexivity.
Qed.

Lemma wrap32_congr a b : a mod 4294967296 = b mod 4294967296 -> wrap32 a = wrap32 b.
Proof. unfold wrap32. intros ->. reflexivity. Qed.

Lemma wrap32_add_l x y : wrap32 (wrap32 x + y) = wrap32 (x + y).
Proof. apply wrap32_congr. rewrite Zplus_mod, wrap32_mod, <- Zplus_mod. reflexivity. Qed.

Lemma wrap32_range z : -2147483648 <= wrap32 z < 2147483648.
Proof.
  unfold wrap32. pose proof (Z.mod_pos_bound z 4294967296 ltac:(lia)).
  destruct (Z.ltb_spec (z mod 4294967296) 2147483648); lia.
Qed.

Lemma wrap32_id z : -2147483648 <= z < 2147483648 -> wrap32 z = z.
Proof.
  intros H. unfold wrap32.
  destruct (Z_lt_ge_dec z 0).
  - assert (E : z mod 4294967296 = z + 4294967296) by (symmetry; apply Z.mod_unique with (q := -1); lia).
    rewrite E. destruct (Z.ltb_spec (z + 4294967296) 2147483648); lia.
  - rewrite Z.mod_small by lia. destruct (Z.ltb_spec z 2147483648); lia.
Qed.

(* increments commute *)
Lemma c_inc_comm s a b : c_inc (c_inc s a) b = c_inc (c_inc s b) a.
Proof. unfold c_inc. rewrite !wrap32_add_l. f_equal. lia. Qed.

Lemma c_exec_remote_comm s a b : is_snap a = false -> is_snap b = false ->
  c_exec_remote (c_exec_remote s a) b = c_exec_remote (c_exec_remote s b) a.
Proof. destruct a, b; cbn; intros Ha Hb; try discriminate; try reflexivity. apply c_inc_comm. Qed.

(* the outcome is a function of the multiset of increments: the 32-bit wrapped sum *)
Definition delta_of (o : op) : Z := match o with OInc _ d => d | _ => 0 end.
Fixpoint sum_deltas (l : list op) : Z := match l with [] => 0 | o :: l' => delta_of o + sum_deltas l' end.

Lemma c_fold_sum l : no_snap l -> forall s, wrap32 (fold_left c_exec_remote l s) = wrap32 (s + sum_deltas l).
Proof.
  induction l as [|o l IH]; intros Hn s; cbn [fold_left sum_deltas].
  - f_equal. lia.
  - inversion Hn as [|? ? Ho Hl]; subst. rewrite (IH Hl).
    destruct o; cbn [c_exec_remote delta_of]; try discriminate; try (f_equal; lia).
    unfold c_inc. rewrite wrap32_add_l. f_equal. lia.
Qed.

Lemma c_fold_range l : forall s, -2147483648 <= s < 2147483648 ->
  -2147483648 <= fold_left c_exec_remote l s < 2147483648.
Proof.
  induction l as [|o l IH]; intros s H; cbn [fold_left]; [exact H|].
  apply IH. destruct o; cbn; try exact H; [unfold c_init; lia | apply wrap32_range].
Qed.

Theorem counter_outcome l : no_snap l -> fold_left c_exec_remote l c_init = wrap32 (sum_deltas l).
Proof.
  intros Hn.
  rewrite <- (wrap32_id (fold_left c_exec_remote l c_init)) by (apply c_fold_range; unfold c_init; lia).
  rewrite (c_fold_sum _ Hn). reflexivity.
Qed.

(* a snapshot operation replaces whatever was there: the counter restarts from its body, the initial value *)
Lemma counter_snapshot_resets l1 i l2 : no_snap l2 ->
  fold_left c_exec_remote (l1 ++ OSnap i :: l2) c_init = wrap32 (sum_deltas l2).
Proof. intros Hn. rewrite fold_left_app. cbn [fold_left c_exec_remote]. apply counter_outcome, Hn. Qed.

Lemma sum_deltas_perm l l' : Permutation l l' -> sum_deltas l = sum_deltas l'.
Proof. induction 1; cbn; lia. Qed.

(* any two orders of the same operations give the same counter *)
Theorem counter_permutation l l' : no_snap l -> Permutation l l' ->
  fold_left c_exec_remote l c_init = fold_left c_exec_remote l' c_init.
Proof.
  intros Hn H. assert (Hn' : no_snap l') by (unfold no_snap in *; rewrite <- H; exact Hn).
  rewrite (counter_outcome _ Hn), (counter_outcome _ Hn'), (sum_deltas_perm _ _ H). reflexivity.
Qed.

(* a local increase has exactly the effect of delivering the operation it emits *)
Lemma counter_local_eq_remote s c i s' o r :
  c_exec_local s c i = Some (s', o, r) -> s' = c_exec_remote s o /\ op_id o = i /\ r = VNum s'.
Proof. destruct c; cbn. intros H; injection H as <- <- <-. auto. Qed.
