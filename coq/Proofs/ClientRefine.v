(* The abstract client of Protocol.v is the wired client of Model/Wire.v (the model the harness runs against the Go
   client), seen through [absc]: own identifier, checkpoint, operations still to be pushed.  For a subscribed datatype:
   the request it builds is the abstract request, and applying a regular answer (no error, not a subscribe answer, no
   transaction units) moves checkpoint and pending operations exactly as the abstract sync step does and executes
   exactly the operations [incoming] selects, in order, by the kernel's remote function. *)
From Coq Require Import List NArith ZArith Bool Lia.
From Orda.Model Require Import Base Time Ops Datatype Server Wire.
From Orda.Proofs Require Import TimeFacts ServerFacts Protocol.
Import ListNotations.
Open Scope N_scope.

Section ClientRefine.
  Variable St call ret J : Type.
  Variable k_init : St.
  Variable k_remote : St -> op -> St.
  Variable k_export : St -> J.
  Variable k_import : J -> St.
  Variable k_type : N.
  Notation dty := (@dt St call J).
  Notation wdt' := (wdt St call J).

  (* the local buffer holds the client's operations with consecutive sequence numbers, none acknowledged ahead of it *)
  Definition BufInv (d : dty) : Prop :=
    exists f, map oseq' (d_buf d) = nseq f (length (d_buf d)) /\ f <= cseq (d_cp d) + 1 /\ 1 <= f.

  Lemma skipn_skipn' {A} (l : list A) : forall a b, skipn a (skipn b l) = skipn (a + b) l.
  Proof.
    induction l as [|x l IH]; intros a b; [rewrite !skipn_nil; reflexivity|]. destruct b as [|b].
    - rewrite Nat.add_0_r. reflexivity.
    - replace (a + S b)%nat with (S (a + b)) by lia. cbn [skipn]. apply IH.
  Qed.

  Lemma pending_is_skipn d f : map oseq' (d_buf d) = nseq f (length (d_buf d)) -> f <= cseq (d_cp d) + 1 ->
    pending St call J d = skipn (N.to_nat (cseq (d_cp d) + 1 - f)) (d_buf d).
  Proof.
    intros Hs Hf. unfold pending. destruct (d_buf d) as [|o b] eqn:Eb; [rewrite skipn_nil; reflexivity|].
    cbn [map length nseq] in Hs. injection Hs as Ho _. unfold oseq' in Ho. rewrite Ho.
    remember (cseq (d_cp d)) as cc eqn:Ecc. clear Ecc. remember (o :: b) as B eqn:EB. clear EB.
    replace (Z.of_N cc + 1 - Z.of_N f)%Z with (Z.of_N (cc + 1 - f)) by lia.
    destruct (Z.leb_spec 0 (Z.of_N (cc + 1 - f))) as [E0|E0]; [|lia]. cbn [andb].
    replace (Z.to_nat (Z.of_N (cc + 1 - f))) with (N.to_nat (cc + 1 - f)) by lia. rewrite Z.gtb_ltb. destruct (Z.ltb_spec (Z.of_N (cc + 1 - f)) (Z.of_nat (length B))) as [E1|E1]; [reflexivity|].
    symmetry. apply skipn_all2. lia.
  Qed.

  Definition absc (w : wdt') (exec : list op) : pclient :=
    mkPc (o_cuid (d_oid (w_d w))) (sseq (d_cp (w_d w))) (cseq (d_cp (w_d w))) (pending St call J (w_d w)) exec.

  (* CreatePushPullPack of a subscribed datatype is the abstract request *)
  Lemma mkpack_is_preq w exec : w_state w = SubscribedSt ->
    mkpack St call J k_type w = preq (w_duid w) (w_key w) k_type (absc w exec).
  Proof. intros Hs. unfold mkpack, preq, absc. rewrite Hs. reflexivity. Qed.

  Definition no_tx (ops : list op) : Prop := Forall (fun o => match o with OTx _ _ _ => False | _ => True end) ops.

  Lemma receive_plain ops : no_tx ops -> forall fuel d, (length ops < fuel)%nat ->
    receive St call J k_remote fuel d ops = ROk _ _ _ (fold_left (remote_op St call J k_remote) ops d).
  Proof.
    induction 1 as [|o ops Ho _ IH]; intros fuel d Hf; (destruct fuel as [|fuel]; [cbn in Hf; lia|]); cbn [receive fold_left]; [reflexivity|].
    destruct o; try contradiction; apply IH; cbn [length] in Hf; lia.
  Qed.

  Lemma fold_remote_fields ops : forall d,
    let d' := fold_left (remote_op St call J k_remote) ops d in
    d_snap d' = fold_left k_remote ops (d_snap d) /\ d_buf d' = d_buf d /\ d_cp d' = d_cp d /\ o_cuid (d_oid d') = o_cuid (d_oid d).
  Proof.
    induction ops as [|o ops IH]; intros d; cbn [fold_left]; [auto|]. destruct (IH (remote_op St call J k_remote d o)) as [I1 [I2 [I3 I4]]].
    cbv zeta. rewrite I1, I2, I3, I4. unfold remote_op. cbn. repeat split. unfold opid_sync. destruct (_ <? _); reflexivity.
  Qed.

  (* ApplyPushPullPack on a regular answer *)
  Theorem apply_pack_refines w r exec ops :
    w_state w = SubscribedSt -> has (p_opt r) bit_error = false -> has (p_opt r) bit_subscribe = false ->
    BufInv (w_d w) ->
    incoming (o_cuid (d_oid (w_d w))) false (d_cp (w_d w)) r = Some ops -> no_tx ops ->
    exists w' a, apply_pack St call J k_init k_remote k_export w r = AOk _ _ _ w' a /\
      w_state w' = SubscribedSt /\ w_duid w' = w_duid w /\ w_key w' = w_key w /\
      d_snap (w_d w') = fold_left k_remote ops (d_snap (w_d w)) /\
      BufInv (w_d w') /\
      let c := absc w exec in
      let s' := N.max (pc_s c) (sseq (p_cp r)) in let cc' := N.max (pc_cc c) (cseq (p_cp r)) in
      absc w' (exec ++ ops) = mkPc (pc_cuid c) s' cc' (skipn (N.to_nat (cc' - pc_cc c)) (pc_buf c)) (pc_exec c ++ ops).
  Proof.
    intros Hst He Hsb [f [Hb [Hf Hf1]]] Hinc Hnt. unfold apply_pack. rewrite He, Hsb. cbn [andb orb]. rewrite Hinc.
    rewrite Hst. cbn [dstate_eqb andb negb].
    set (c' := mkCp (N.max (sseq (d_cp (w_d w))) (sseq (p_cp r))) (N.max (cseq (d_cp (w_d w))) (cseq (p_cp r)))).
    set (d2 := set_checkpoint St call J (w_d w) c').
    unfold receive_ops. rewrite (receive_plain ops Hnt _ d2 (Nat.lt_succ_diag_r _)).
    destruct (fold_remote_fields ops d2) as [F1 [F2 [F3 F4]]]. cbv zeta in F1, F2, F3, F4.
    eexists _, _. split; [reflexivity|]. cbn [w_state w_duid w_key w_d].
    split; [reflexivity|]. split; [reflexivity|]. split; [reflexivity|]. split; [rewrite F1; reflexivity|].
    assert (Hb2 : map oseq' (d_buf (fold_left (remote_op St call J k_remote) ops d2)) = nseq f (length (d_buf (fold_left (remote_op St call J k_remote) ops d2))))
      by (rewrite F2; exact Hb).
    split.
    - exists f. split; [exact Hb2|]. rewrite F3. cbn [d_cp d2 set_checkpoint c' cseq]. split; [lia|exact Hf1].
    - cbv zeta. unfold absc. cbn [w_d pc_cuid pc_s pc_cc pc_buf pc_exec]. rewrite F4.
      rewrite (pending_is_skipn _ f Hb2) by (rewrite F3; cbn [d_cp d2 set_checkpoint c' cseq]; lia).
      rewrite (pending_is_skipn (w_d w) f Hb Hf). rewrite F2, F3. cbn [d_cp d2 set_checkpoint c' cseq sseq d_buf d_oid].
      rewrite skipn_skipn'. f_equal. f_equal. lia.
  Qed.
  (* ApplyPushPullPack on the answer to Subscribe / SubscribeOrCreate: the joiner of ProtocolJoin.v *)
  Theorem apply_subscribe_refines w r ops :
    w_state w = DueToSubscribe \/ w_state w = DueToSubscribeCreate ->
    has (p_opt r) bit_error = false -> has (p_opt r) bit_subscribe = true ->
    (match p_ops r with o :: _ => is_snap o | [] => false end) = true ->
    let c0 := mkCp (u64sub (sseq (p_cp r)) (N.of_nat (length (p_ops r)))) (cseq (p_cp r)) in
    incoming (o_cuid (d_oid (w_d w))) true c0 r = Some ops -> no_tx ops ->
    exists w' a, apply_pack St call J k_init k_remote k_export w r = AOk _ _ _ w' a /\
      w_state w' = SubscribedSt /\ w_duid w' = p_duid r /\ w_key w' = w_key w /\
      d_snap (w_d w') = fold_left k_remote ops k_init /\
      d_buf (w_d w') = [] /\
      absc w' ops = mkPc (o_cuid (d_oid (w_d w))) (N.max (sseq c0) (sseq (p_cp r))) (N.max (cseq c0) (cseq (p_cp r))) [] ops.
  Proof.
    intros Hst He Hsb Hsnap c0 Hinc Hnt. unfold apply_pack. rewrite He, Hsb, Hsnap. cbn [andb negb orb].
    assert (Hns : dstate_eqb (w_state w) SubscribedSt = false) by (destruct Hst as [-> | ->]; reflexivity). rewrite Hns. cbn [orb negb].
    cbn [d_cp d_oid o_cuid]. fold c0. rewrite Hinc.
    match goal with |- context [receive_ops _ _ _ _ ?d ops] => set (d2 := d) end.
    assert (F : d_snap d2 = k_init /\ d_buf d2 = [] /\
                d_cp d2 = mkCp (N.max (sseq c0) (sseq (p_cp r))) (N.max (cseq c0) (cseq (p_cp r))) /\
                o_cuid (d_oid d2) = o_cuid (d_oid (w_d w))).
    { unfold d2. destruct (dstate_eqb (w_state w) DueToSubscribeCreate && true); cbn; auto. }
    destruct F as [F1 [F2 [F3 F4]]].
    unfold receive_ops. rewrite (receive_plain ops Hnt _ d2 (Nat.lt_succ_diag_r _)).
    destruct (fold_remote_fields ops d2) as [G1 [G2 [G3 G4]]]. cbv zeta in G1, G2, G3, G4.
    eexists _, _. split; [reflexivity|]. cbn [w_state w_duid w_key w_d].
    split; [reflexivity|]. split; [reflexivity|]. split; [reflexivity|]. split; [rewrite G1, F1; reflexivity|].
    split; [rewrite G2; exact F2|].
    unfold absc. cbn [w_d]. rewrite G4, F4, G3, F3. unfold pending. rewrite G2, F2. reflexivity.
  Qed.

  (* ---------- a local call is the abstract system's local step ---------- *)
  Variable k_validate : St -> call -> bool.
  Variable k_local : St -> call -> opid -> lres St ret.
  Hypothesis k_local_id : forall s c i s' o r, k_local s c i = LOk s' o r -> op_id o = i.

  (* every identifier the datatype has issued sits in its buffer: sequence numbers 1, 2, ... up to the current one *)
  Definition IdInv (d : dty) : Prop :=
    map oseq' (d_buf d) = nseq 1 (length (d_buf d)) /\ o_seq (d_oid d) = N.of_nat (length (d_buf d)) /\
    cseq (d_cp d) <= N.of_nat (length (d_buf d)).

  Lemma IdInv_BufInv d : IdInv d -> BufInv d.
  Proof. intros [H1 [H2 H3]]. exists 1. split; [exact H1|]. lia. Qed.

  Lemma pending_length d : IdInv d -> N.of_nat (length (pending St call J d)) = N.of_nat (length (d_buf d)) - cseq (d_cp d).
  Proof. intros [H1 [H2 H3]]. rewrite (pending_is_skipn d 1 H1) by lia. rewrite skipn_length. lia. Qed.

  (* a call that succeeds (sequence numbers far from wrapping): the emitted operation carries the client's identifier
     and exactly the next sequence number the abstract system expects, and the pending operations grow by it *)
  Theorem local_call_refines d c d' r :
    IdInv d -> N.of_nat (length (d_buf d)) + 1 < two64 ->
    local_call St call ret J k_validate k_local d c = (d', Done r) ->
    exists o, d_buf d' = d_buf d ++ [o] /\ d_cp d' = d_cp d /\
      o_cuid (op_id o) = o_cuid (d_oid d) /\
      oseq' o = cseq (d_cp d) + N.of_nat (length (pending St call J d)) + 1 /\
      pending St call J d' = pending St call J d ++ [o] /\ IdInv d'.
  Proof.
    intros Hi H4. pose proof Hi as [H1 [H2 H3]]. unfold Datatype.local_call, Datatype.local_step.
    destruct (k_validate (d_snap d) c); [|intros [= _ E]; discriminate].
    destruct (k_local (d_snap d) c (opid_next (d_oid d))) as [s' o r0| |] eqn:El; intros [= <- E]; try discriminate.
    pose proof (k_local_id _ _ _ _ _ _ El) as Hid. exists o. cbn [d_buf d_cp d_oid].
    assert (Hseq : oseq' o = N.of_nat (length (d_buf d)) + 1).
    { unfold oseq'. rewrite Hid. unfold opid_next. cbn [o_seq]. rewrite H2. apply N.mod_small. exact H4. }
    split; [reflexivity|]. split; [reflexivity|]. split; [rewrite Hid; reflexivity|].
    split; [rewrite Hseq, (pending_length d Hi); lia|].
    assert (Hb' : map oseq' (d_buf d ++ [o]) = nseq 1 (length (d_buf d ++ [o]))).
    { rewrite map_app, app_length, nseq_app, H1. cbn [map length nseq]. rewrite Hseq. do 2 f_equal. lia. }
    split.
    - rewrite (pending_is_skipn _ 1) by (cbn [d_buf d_cp]; first [exact Hb'|lia]).
      rewrite (pending_is_skipn d 1 H1) by lia. cbn [d_buf d_cp]. rewrite skipn_app.
      replace (N.to_nat (cseq (d_cp d) + 1 - 1) - length (d_buf d))%nat with 0%nat by lia. reflexivity.
    - split; [exact Hb'|]. cbn [d_buf d_oid d_cp]. rewrite app_length. cbn [length].
      split; [unfold opid_next; cbn [o_seq]; rewrite H2, N.mod_small by exact H4; lia|lia].
  Qed.
End ClientRefine.
