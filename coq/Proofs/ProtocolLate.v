(* C07, delayed and duplicated answers: the system of Protocol.v extended with the answers that are still in the network.
   Every answer the server ever gave stays deliverable — late, out of order, any number of times.  The invariant of
   Protocol.v survives, so every client still executes exactly the other clients' operations of the log prefix it has
   seen, in log order, each once. *)
From Coq Require Import List NArith ZArith Bool Lia.
From Orda.Model Require Import Base Time Ops Server Wire.
From Orda.Proofs Require Import TimeFacts MapFacts ServerFacts ClientOrder WireFacts ExchangeFacts Protocol.
Import ListNotations.
Open Scope N_scope.

(* ---------- the client's arithmetic in general: uint64 differences read as a signed number ---------- *)
Lemma wrap64_congr z v : (z mod 18446744073709551616 = v mod 18446744073709551616)%Z ->
  (-9223372036854775808 <= v < 9223372036854775808)%Z -> wrap64 z = v.
Proof.
  intros Hc Hv. unfold wrap64. rewrite Hc. destruct (Z_lt_ge_dec v 0).
  - assert (E : (v mod 18446744073709551616 = v + 18446744073709551616)%Z) by (symmetry; apply Z.mod_unique with (q := (-1)%Z); lia).
    rewrite E. destruct (Z.ltb_spec (v + 18446744073709551616) 9223372036854775808); lia.
  - rewrite Z.mod_small by lia. destruct (Z.ltb_spec v 9223372036854775808); lia.
Qed.

Lemma u64sub_mod a b : a < two64 -> b < two64 ->
  (Z.of_N (u64sub a b) mod 18446744073709551616 = (Z.of_N a - Z.of_N b) mod 18446744073709551616)%Z.
Proof.
  intros Ha Hb. unfold u64sub, two64 in *. rewrite N2Z.inj_mod, N2Z.inj_sub, N2Z.inj_add by lia. rewrite Z.mod_mod by lia.
  change (Z.of_N 18446744073709551616) with 18446744073709551616%Z.
  replace (Z.of_N a + 18446744073709551616 - Z.of_N b)%Z with ((Z.of_N a - Z.of_N b) + 1 * 18446744073709551616)%Z by lia.
  apply Z.mod_add. lia.
Qed.

Lemma pulled_count rs s rc cc : rs < big -> s < big -> rc < big -> cc < big ->
  wrap64 (Z.of_N (u64sub (u64sub rs s) (u64sub rc cc))) = ((Z.of_N rs - Z.of_N s) - (Z.of_N rc - Z.of_N cc))%Z.
Proof.
  unfold big. intros H1 H2 H3 H4.
  assert (B : forall x y, x < two64 -> u64sub x y < two64).
  { intros x y _. unfold u64sub. apply N.mod_lt. unfold two64. lia. }
  apply wrap64_congr; [|lia].
  rewrite u64sub_mod by (apply B; unfold two64; lia).
  rewrite Zminus_mod, (u64sub_mod rs s), (u64sub_mod rc cc) by (unfold two64; lia).
  rewrite <- Zminus_mod. reflexivity.
Qed.

(* ---------- counting a client's own operations in a prefix of the log ---------- *)
Definition foreign (u : str) (l : list op) : list op := filter (fun o => negb (own_of u o)) l.
Definition owns (u : str) (l : list op) : list op := filter (own_of u) l.
Definition ownc (u : str) (L : list op) (n : N) : N := N.of_nat (length (owns u (firstn (N.to_nat n) L))).
Definition seg (L : list op) (a b : N) : list op := skipn (N.to_nat a) (firstn (N.to_nat b) L).

Lemma firstn_split {A} (L : list A) a b : (a <= b)%nat -> firstn b L = firstn a L ++ skipn a (firstn b L).
Proof.
  intros H. rewrite <- (firstn_skipn a (firstn b L)) at 1. f_equal. rewrite firstn_firstn. f_equal. lia.
Qed.
Lemma seg_length L a b : a <= b -> (N.to_nat b <= length L)%nat -> length (seg L a b) = N.to_nat (b - a).
Proof. intros H1 H2. unfold seg. rewrite skipn_length, firstn_length. lia. Qed.
Lemma own_foreign_length u l : (length (owns u l) + length (foreign u l) = length l)%nat.
Proof. unfold owns, foreign. induction l as [|x l IH]; cbn; [reflexivity|]. destruct (own_of u x); cbn; lia. Qed.

Lemma ownc_split u L a b : a <= b -> ownc u L b = ownc u L a + N.of_nat (length (owns u (seg L a b))).
Proof.
  intros H. unfold ownc, seg. rewrite (firstn_split L (N.to_nat a) (N.to_nat b)) at 1 by lia. unfold owns. rewrite filter_app, app_length. lia.
Qed.
Lemma ownc_mono u L a b : a <= b -> ownc u L a <= ownc u L b.
Proof. intros H. rewrite (ownc_split u L a b H). lia. Qed.
Lemma ownc_le u L n : (N.to_nat n <= length L)%nat -> ownc u L n <= n.
Proof.
  intros H. unfold ownc. pose proof (own_foreign_length u (firstn (N.to_nat n) L)) as E. rewrite firstn_length in E. lia.
Qed.
(* foreign entries between two positions: their number is the distance minus the own ones *)
Lemma foreign_count u L a b : a <= b -> (N.to_nat b <= length L)%nat ->
  Z.of_nat (length (foreign u (seg L a b))) = ((Z.of_N b - Z.of_N a) - (Z.of_N (ownc u L b) - Z.of_N (ownc u L a)))%Z.
Proof.
  intros H1 H2. rewrite (ownc_split u L a b H1). pose proof (own_foreign_length u (seg L a b)) as E.
  rewrite (seg_length L a b H1 H2) in E. lia.
Qed.
Lemma foreign_app u a b : foreign u (a ++ b) = foreign u a ++ foreign u b.
Proof. apply filter_app. Qed.
Lemma seg_split L a m b : a <= m -> m <= b -> (N.to_nat m <= length L)%nat -> seg L a b = seg L a m ++ seg L m b.
Proof.
  intros H1 H2 H3. unfold seg.
  assert (E : firstn (N.to_nat b) L = firstn (N.to_nat m) L ++ skipn (N.to_nat m) (firstn (N.to_nat b) L)) by (apply firstn_split; lia).
  rewrite E at 1. rewrite skipn_app, firstn_length. replace (N.to_nat a - Nat.min (N.to_nat m) (length L))%nat with 0%nat by lia. reflexivity.
Qed.
Lemma firstn_app_le {A} (L L' : list A) n : (n <= length L)%nat -> firstn n (L ++ L') = firstn n L.
Proof. intros H. rewrite firstn_app. replace (n - length L)%nat with 0%nat by lia. cbn. apply app_nil_r. Qed.
Lemma ownc_app u L L' n : (N.to_nat n <= length L)%nat -> ownc u (L ++ L') n = ownc u L n.
Proof. intros H. unfold ownc. rewrite firstn_app_le by lia. reflexivity. Qed.
Lemma seg_app L L' a b : (N.to_nat b <= length L)%nat -> seg (L ++ L') a b = seg L a b.
Proof. intros H. unfold seg. rewrite firstn_app_le by lia. reflexivity. Qed.

(* ---------- an answer that describes the log up to position rr, applied by a client that has seen it up to s ---------- *)
Lemma skipn_app_exact {A} (a b : list A) : skipn (length (a ++ b) - length b) (a ++ b) = b.
Proof. rewrite app_length. replace (length a + length b - length b)%nat with (length a) by lia. rewrite skipn_app, skipn_all, Nat.sub_diag. reflexivity. Qed.

Lemma late_incoming u L e s hs rr r :
  length L = N.to_nat e -> e < big -> hs <= s -> s <= e -> hs <= rr -> rr <= e ->
  p_cp r = mkCp rr (ownc u L rr) -> foreign u (p_ops r) = foreign u (seg L hs rr) ->
  incoming u false (mkCp s (ownc u L s)) r = Some (foreign u (seg L s rr)).
Proof.
  intros Hlen Hbig H1 H2 H3 H4 Hcp Hops. unfold incoming. rewrite Hcp. cbn [sseq cseq].
  change (filter (fun o => negb (str_eqb (o_cuid (op_id o)) u)) (p_ops r)) with (foreign u (p_ops r)). rewrite Hops.
  assert (Bo : forall n, n <= e -> ownc u L n < big).
  { intros n Hn. pose proof (ownc_le u L n ltac:(lia)). lia. }
  rewrite pulled_count by (try apply Bo; lia). f_equal.
  destruct (N.le_gt_cases s rr) as [Hle|Hgt].
  - rewrite <- (foreign_count u L s rr Hle ltac:(lia)).
    rewrite (seg_split L hs s rr H1 Hle ltac:(lia)), foreign_app.
    replace (Z.to_nat (Z.max 0 (Z.of_nat (length (foreign u (seg L s rr)))))) with (length (foreign u (seg L s rr))) by lia.
    apply skipn_app_exact.
  - pose proof (foreign_count u L rr s ltac:(lia) ltac:(lia)) as Fc.
    replace (Z.to_nat (Z.max 0 (Z.of_N rr - Z.of_N s - (Z.of_N (ownc u L rr) - Z.of_N (ownc u L s))))) with 0%nat by lia.
    rewrite Nat.sub_0_r, skipn_all. unfold seg. rewrite skipn_all2; [reflexivity|]. rewrite firstn_length. lia.
Qed.

(* ---------- the acknowledged number a client knows is the number of its own operations among what it has seen ---------- *)
Lemma own_count_docs u (docs : list odoc) :
  length (filter (own_of u) (map od_op docs)) = length (filter (authored u) docs).
Proof.
  induction docs as [|o l IH]; [reflexivity|]. cbn [map filter]. unfold own_of at 1, authored at 1.
  destruct (str_eqb (o_cuid (op_id (od_op o))) u); cbn [length]; rewrite IH; reflexivity.
Qed.

Lemma own_total D db d0 u : LogInv db -> ClientInv db -> In d0 (s_dts db) -> dd_duid d0 = D ->
  N.of_nat (length (owns u (logops D db))) = cseq (rec_of d0 u).
Proof.
  intros Hinv Hci Hin Hd. pose proof (Hci d0 Hin u) as H. rewrite Hd in H. unfold seqs_of in H.
  assert (E : length (filter (authored u) (logdocs db D)) = N.to_nat (ack d0 u)).
  { unfold logdocs. rewrite <- (map_length oseq (filter (authored u) (ops_of (s_ops db) D))), H. clear. generalize 1. induction (N.to_nat (ack d0 u)) as [|n IH]; intros st; cbn; [reflexivity|rewrite IH; reflexivity]. }
  unfold owns, logops. rewrite own_count_docs, E, N2Nat.id. unfold ack, rec_of. destruct (alookup str_eqb u (dd_rw d0)); reflexivity.
Qed.

Lemma cinv_counts D db d0 c : LogInv db -> ClientInv db -> In d0 (s_dts db) -> dd_duid d0 = D -> cinv D db d0 c ->
  let u := pc_cuid c in let L := logops D db in
  length L = N.to_nat (dd_end d0) /\ cseq (rec_of d0 u) = ownc u L (dd_end d0) /\ pc_cc c = ownc u L (pc_s c).
Proof.
  intros Hinv Hci Hin Hd [C1 [C2 [C3 [C4 _]]]] u L. destruct (logops_len D db d0 Hinv Hin Hd) as [_ Hlen]. fold L in Hlen.
  assert (Ek : cseq (rec_of d0 u) = ownc u L (dd_end d0)).
  { rewrite <- (own_total D db d0 u Hinv Hci Hin Hd). unfold ownc. fold L. rewrite <- Hlen, firstn_all. reflexivity. }
  split; [exact Hlen|]. split; [exact Ek|].
  pose proof (ownc_split u L (pc_s c) (dd_end d0) C1) as Sp. unfold seg in Sp. rewrite <- Hlen, firstn_all in Sp.
  fold u L in C4, C2. unfold owns in Sp. rewrite C4 in Sp. lia.
Qed.

(* ---------- the system with the network ---------- *)
Section Late.
  Variables (colname : str) (col : N) (D key : str) (ty : N).
  Notation pstep' := (pstep colname col D key ty).

  (* the base system plus, per client, every answer the server has given it so far: each stays deliverable *)
  Record lsys := mkLs { l_base : psys; l_fly : list (list ppp) }.
  Inductive lev := LBase (ev : pev) | LLate (i j : nat).

  Definition fly_of (st : lsys) (i : nat) : list ppp := nth i (l_fly st) [].
  Fixpoint add_fly (fl : list (list ppp)) (i : nat) (r : ppp) : list (list ppp) :=
    match fl, i with
    | [], O => [[r]]
    | [], S i' => [] :: add_fly [] i' r
    | l :: rest, O => (r :: l) :: rest
    | l :: rest, S i' => l :: add_fly rest i' r
    end.
  Lemma nth_add_fly fl : forall i r j, nth j (add_fly fl i r) [] = if Nat.eqb j i then r :: nth j fl [] else nth j fl [].
  Proof.
    induction fl as [|l rest IH]; intros i r j.
    - revert j. induction i as [|i IHi]; intros j; cbn [add_fly].
      + destruct j as [|[|j]]; reflexivity.
      + destruct j as [|j]; [reflexivity|]. cbn [nth]. rewrite IHi. cbn [Nat.eqb]. destruct (Nat.eqb j i); destruct j; reflexivity.
    - destruct i as [|i], j as [|j]; cbn [add_fly nth Nat.eqb]; try reflexivity. apply IH.
  Qed.

  (* the answer the server gives to client i now (as in pstep) *)
  Definition answer_now (st : psys) (i : nat) : option ppp :=
    match nth_error (ps_cl st) i, find_dt (ps_db st) D with
    | Some c, Some d0 =>
        let n := N.of_nat (length (pc_buf c)) in
        if (dd_end d0 + n <? big) && (cseq (rec_of d0 (pc_cuid c)) + n <? big) then
          let '(_, resp, _) := handle_pack (ps_db st) colname col (pc_cuid c) (preq D key ty c) in
          match p_err resp with None => Some resp | Some _ => None end
        else None
    | _, _ => None
    end.

  Definition lstep (st : lsys) (ev : lev) : lsys :=
    match ev with
    | LBase ev =>
        mkLs (pstep' (l_base st) ev)
             (match ev with
              | PSync i _ => match answer_now (l_base st) i with Some r => add_fly (l_fly st) i r | None => l_fly st end
              | _ => l_fly st
              end)
    | LLate i j =>
        (* an answer given earlier arrives (again): the client treats it as ApplyPushPullPack does *)
        match nth_error (ps_cl (l_base st)) i, nth_error (fly_of st i) j with
        | Some c, Some resp =>
            match incoming (pc_cuid c) false (mkCp (pc_s c) (pc_cc c)) resp with
            | Some ops =>
                let s' := N.max (pc_s c) (sseq (p_cp resp)) in
                let cc' := N.max (pc_cc c) (cseq (p_cp resp)) in
                mkLs (mkPs (ps_db (l_base st))
                           (upd_nth (ps_cl (l_base st)) i
                              (mkPc (pc_cuid c) s' cc' (skipn (N.to_nat (cc' - pc_cc c)) (pc_buf c)) (pc_exec c ++ ops))))
                     (l_fly st)
            | None => st
            end
        | _, _ => st
        end
    end.

  (* an answer in the network describes the log from some position the client had reached up to some later position *)
  Definition fly_ok (L : list op) (e : N) (c : pclient) (r : ppp) : Prop :=
    exists hs rr, hs <= pc_s c /\ hs <= rr /\ rr <= e /\
      p_cp r = mkCp rr (ownc (pc_cuid c) L rr) /\ foreign (pc_cuid c) (p_ops r) = foreign (pc_cuid c) (seg L hs rr).

  Definition LInv (st : lsys) : Prop :=
    PInv col D (l_base st) /\
    forall d0, In d0 (s_dts (ps_db (l_base st))) -> dd_duid d0 = D -> dd_end d0 < big /\
      forall i c, nth_error (ps_cl (l_base st)) i = Some c ->
        Forall (fly_ok (logops D (ps_db (l_base st))) (dd_end d0) c) (fly_of st i).

  (* ---------- a late (or repeated) answer ---------- *)
  Lemma nth_upd_nth {A} (l : list A) : forall i j x, nth_error (upd_nth l i x) j = if Nat.eqb j i then match nth_error l j with Some _ => Some x | None => None end else nth_error l j.
  Proof.
    induction l as [|y l IH]; intros i j x; [destruct i, j; cbn [upd_nth nth_error]; destruct (Nat.eqb _ _); reflexivity|].
    destruct i as [|i], j as [|j]; cbn [upd_nth nth_error Nat.eqb]; try reflexivity. apply IH.
  Qed.

  Lemma late_inv st i j : LInv st -> LInv (lstep st (LLate i j)).
  Proof.
    intros HL. pose proof HL as [HP HF]. cbn [lstep].
    destruct (nth_error (ps_cl (l_base st)) i) as [c|] eqn:En; [|exact HL].
    destruct (nth_error (fly_of st i) j) as [resp|] eqn:Ej; [|exact HL].
    pose proof HP as [Hinv [Hci [Hnd [d0 [Hin [Hd [Hcol Hcl]]]]]]].
    destruct (HF d0 Hin Hd) as [Hbig Hfl].
    pose proof Hcl as Hcl'. rewrite Forall_forall in Hcl'. pose proof (Hcl' c (nth_error_In _ _ En)) as Hc.
    destruct (cinv_counts D _ d0 c Hinv Hci Hin Hd Hc) as [Hlen [Ek Ecc]]. cbv zeta in Ek, Ecc.
    set (L := logops D (ps_db (l_base st))) in *. set (u := pc_cuid c) in *. set (e := dd_end d0) in *.
    pose proof (Hfl i c En) as Hfi. rewrite Forall_forall in Hfi. destruct (Hfi resp (nth_error_In _ _ Ej)) as [hs [rr [F1 [F2 [F3 [F4 F5]]]]]].
    fold u in F4, F5. destruct Hc as [C1 [C2 [C3 [C4 [C5 [C6 C7]]]]]]. fold u e L in C1, C2, C3, C4, C7.
    rewrite Ecc. rewrite (late_incoming u L e (pc_s c) hs rr resp Hlen Hbig F1 C1 F2 F3 F4 F5). rewrite F4. cbn [sseq cseq].
    set (s' := N.max (pc_s c) rr). 
    assert (Ecc' : N.max (ownc u L (pc_s c)) (ownc u L rr) = ownc u L s').
    { unfold s'. destruct (N.le_gt_cases (pc_s c) rr).
      - rewrite !N.max_r; [reflexivity|lia|apply ownc_mono; lia].
      - rewrite !N.max_l; [reflexivity|lia|apply ownc_mono; lia]. }
    rewrite Ecc'. rewrite <- Ecc.
    assert (Hs' : pc_s c <= s' /\ s' <= e) by (unfold s'; lia).
    assert (Hcc' : pc_cc c <= ownc u L s' /\ ownc u L s' <= cseq (rec_of d0 u)).
    { rewrite Ecc, Ek. split; apply ownc_mono; lia. }
    (* the client after the answer *)
    set (c' := mkPc u s' (ownc u L s') (skipn (N.to_nat (ownc u L s' - pc_cc c)) (pc_buf c)) (pc_exec c ++ foreign u (seg L (pc_s c) rr))).
    assert (Hc' : cinv D (ps_db (l_base st)) d0 c').
    { unfold cinv, c'. cbn [pc_cuid pc_s pc_cc pc_buf pc_exec]. fold L e.
      assert (Hk : (N.to_nat (ownc u L s' - pc_cc c) <= length (pc_buf c))%nat) by lia.
      split; [lia|]. split; [lia|]. rewrite skipn_length. split; [lia|]. split; [|split; [|split]].
      - pose proof (ownc_split u L s' e ltac:(lia)) as Sp. unfold seg in Sp. rewrite <- Hlen, firstn_all in Sp. unfold owns in Sp. rewrite Ek. lia.
      - apply Forall_forall. intros o Ho. apply in_skipn' in Ho. rewrite Forall_forall in C5. exact (C5 o Ho).
      - rewrite <- skipn_map, C6, skipn_nseq. f_equal. lia.
      - rewrite C7. unfold s'. destruct (N.le_gt_cases (pc_s c) rr) as [Hle|Hgt].
        + rewrite N.max_r by lia. rewrite (firstn_split L (N.to_nat (pc_s c)) (N.to_nat rr)) by lia. unfold foreign, seg. rewrite filter_app. reflexivity.
        + rewrite N.max_l by lia. unfold seg. rewrite skipn_all2 by (rewrite firstn_length; lia). cbn. rewrite app_nil_r. reflexivity. }
    split.
    - (* the base invariant *)
      split; [exact Hinv|]. split; [exact Hci|]. cbn [l_base ps_db ps_cl]. split; [rewrite (map_upd_nth pc_cuid _ i c); auto|].
      exists d0. split; [exact Hin|]. split; [exact Hd|]. split; [exact Hcol|].
      apply (Forall_upd_nth pc_cuid (cinv D (ps_db (l_base st)) d0) (cinv D (ps_db (l_base st)) d0) _ i c); auto.
    - (* the network *)
      cbn [l_base ps_db ps_cl]. intros d1 Hin1 Hd1.
      assert (d1 = d0).
      { destruct Hinv as [Hndd _ _ _]. eapply (nodup_map_in_inj dd_duid); eauto. congruence. }
      subst d1. split; [exact Hbig|]. intros i0 c0 En0. unfold fly_of. cbn [l_fly]. rewrite nth_upd_nth in En0.
      destruct (Nat.eqb i0 i) eqn:Ei.
      + apply Nat.eqb_eq in Ei. subst i0. rewrite En in En0. injection En0 as <-.
        pose proof (Hfl i c En) as Hall. unfold fly_of in Hall. eapply Forall_impl; [|exact Hall].
        intros r [hs0 [rr0 [G1 [G2 [G3 [G4 G5]]]]]]. exists hs0, rr0. cbn [pc_s pc_cuid c']. fold u in G4, G5. repeat split; auto. lia.
      + exact (Hfl i0 c0 En0).
  Qed.

  (* ---------- a step of the base system: the network's answers stay valid, the new answer joins them ---------- *)
  Lemma fly_ok_grow L X e e' c c' r :
    length L = N.to_nat e -> e <= e' -> pc_cuid c' = pc_cuid c -> pc_s c <= pc_s c' ->
    fly_ok L e c r -> fly_ok (L ++ X) e' c' r.
  Proof.
    intros Hlen He Hu Hs [hs [rr [F1 [F2 [F3 [F4 F5]]]]]]. exists hs, rr. rewrite Hu.
    rewrite (ownc_app (pc_cuid c) L X rr) by lia. rewrite (seg_app L X hs rr) by lia. repeat split; auto; lia.
  Qed.

  Lemma base_inv st ev : LInv st -> LInv (lstep st (LBase ev)).
  Proof.
    intros HL. pose proof HL as [HP HF]. cbn [lstep].
    pose proof (pstep_inv colname col D key ty (l_base st) ev HP) as HP'.
    pose proof HP as [Hinv [Hci [Hnd [d0 [Hin [Hd [Hcol Hcl]]]]]]].
    destruct (HF d0 Hin Hd) as [Hbig Hfl].
    destruct (logops_len D _ d0 Hinv Hin Hd) as [_ Hlen].
    pose proof Hcl as Hcl'. rewrite Forall_forall in Hcl'.
    destruct ev as [i o|i lost].
    - (* a local operation: the store and every checkpoint stay *)
      split; [exact HP'|]. cbn [l_base]. cbn [pstep].
      destruct (nth_error (ps_cl (l_base st)) i) as [c|] eqn:En; [|exact HF].
      destruct (_ && _); [|exact HF]. cbn [ps_db ps_cl]. intros d1 Hin1 Hd1.
      assert (d1 = d0) by (destruct Hinv as [Hndd _ _ _]; eapply (nodup_map_in_inj dd_duid); eauto; congruence). subst d1.
      split; [exact Hbig|]. intros i0 c0 En0. unfold fly_of. cbn [l_fly]. rewrite nth_upd_nth in En0.
      destruct (Nat.eqb i0 i) eqn:Ei; [|exact (Hfl i0 c0 En0)].
      apply Nat.eqb_eq in Ei. subst i0. rewrite En in En0. injection En0 as <-.
      pose proof (Hfl i c En) as Hall. eapply Forall_impl; [|exact Hall].
      intros r [hs [rr [G1 [G2 [G3 [G4 G5]]]]]]. exists hs, rr. cbn [pc_s pc_cuid]. repeat split; auto.
    - (* an exchange *)
      split; [exact HP'|]. cbn [l_base]. revert HP'. unfold answer_now. cbn [pstep].
      destruct (nth_error (ps_cl (l_base st)) i) as [c|] eqn:En; [|intros _; exact HF].
      pose proof Hinv as [Hndd _ _ _].
      assert (Ef : find_dt (ps_db (l_base st)) D = Some d0) by (rewrite <- Hd; apply find_dt_of_in; assumption). rewrite Ef.
      destruct ((dd_end d0 + N.of_nat (length (pc_buf c)) <? big) && (cseq (rec_of d0 (pc_cuid c)) + N.of_nat (length (pc_buf c)) <? big)) eqn:Eg;
        [|intros _; exact HF]. apply andb_true_iff in Eg. destruct Eg as [B1 B2]. apply N.ltb_lt in B1, B2.
      pose proof (Hcl' c (nth_error_In _ _ En)) as Hc.
      destruct (sync_effect colname col D key ty (ps_db (l_base st)) d0 c Hinv Hin Hd Hcol Hc B1 B2) as [newdocs [Hhp [Hops [Hlenn [Hnew Hinc]]]]].
      cbv zeta in Hhp, Hinc. rewrite Hhp. cbn [p_err p_cp sseq cseq].
      destruct (cinv_counts D _ d0 c Hinv Hci Hin Hd Hc) as [_ [Ek Ecc]]. cbv zeta in Ek, Ecc.
      set (L := logops D (ps_db (l_base st))) in *. set (u := pc_cuid c) in *. set (e := dd_end d0) in *.
      set (k0 := cseq (rec_of d0 u)) in *. set (a := N.of_nat (length newdocs)) in *.
      set (d1 := set_end (set_client d0 false u (mkCp (e + a) (k0 + a))) (e + a)) in *.
      set (db' := mkSdb (s_cols (ps_db (l_base st))) (s_colctr (ps_db (l_base st))) (s_clients (ps_db (l_base st)))
                        (upsert_dt (s_dts (ps_db (l_base st))) d1) (s_ops (ps_db (l_base st)) ++ newdocs)) in *.
      set (resp := mkPpp key D 0 (mkCp (e + a) (k0 + a)) ty (map od_op (get_ops (ps_db (l_base st)) D (pc_s c + 1))) None) in *.
      assert (Hdup : Forall (fun o => od_duid o = D) newdocs) by (eapply Forall_impl; [|exact Hnew]; intros o0 [H _]; exact H).
      assert (HLL : logops D db' = L ++ map od_op newdocs).
      { unfold db', L, logops, logdocs. cbn [s_ops]. rewrite ops_of_app, (ops_of_all newdocs D Hdup), map_app. reflexivity. }
      destruct Hc as [C1 [C2 [C3 [C4 [C5 [C6 C7]]]]]]. fold u e L k0 in C1, C2, C3, C4, C7.
      assert (Hown : Forall (fun o => own_of u o = true) (map od_op newdocs)).
      { rewrite Hops. apply Forall_forall. intros o0 Ho. apply in_skipn' in Ho. rewrite Forall_forall in C5. unfold own_of.
        rewrite (C5 o0 Ho). apply str_eqb_refl. }
      assert (Ha : a = N.of_nat (length (pc_buf c)) - (k0 - pc_cc c)) by (unfold a; lia).
      (* the new answer describes the log from the client's position to the new end *)
      assert (Hnewfly : forall c', pc_cuid c' = u -> pc_s c <= pc_s c' -> fly_ok (L ++ map od_op newdocs) (e + a) c' resp).
      { intros c' Hu Hs. exists (pc_s c), (e + a). rewrite Hu. split; [exact Hs|]. split; [lia|]. split; [lia|]. split.
        - unfold resp. cbn [p_cp]. f_equal. unfold ownc. rewrite firstn_all2 by (rewrite app_length, map_length; unfold a; lia).
          unfold owns. rewrite filter_app, app_length, (filter_all_true _ _ Hown), map_length.
          rewrite Ek. unfold ownc, owns. rewrite <- Hlen, firstn_all. unfold a. lia.
        - unfold resp. cbn [p_ops]. destruct (logops_len D _ d0 Hinv Hin Hd) as [Hseq _].
          rewrite (log_beyond _ D e (pc_s c) Hseq). fold (logdocs (ps_db (l_base st)) D). rewrite <- skipn_map. fold (logops D (ps_db (l_base st))). fold L.
          unfold seg. rewrite firstn_all2 by (rewrite app_length, map_length; unfold a; lia).
          rewrite skipn_app. replace (N.to_nat (pc_s c) - length L)%nat with 0%nat by lia. cbn [skipn]. rewrite foreign_app.
          unfold foreign at 3. rewrite (filter_all_false _ (map od_op newdocs)); [rewrite app_nil_r; reflexivity|].
          eapply Forall_impl; [|exact Hown]. intros o0 Ho. cbv beta in Ho. rewrite Ho. reflexivity. }
      (* the old answers stay valid *)
      assert (Hold : forall i0 c0 c0', nth_error (ps_cl (l_base st)) i0 = Some c0 -> pc_cuid c0' = pc_cuid c0 -> pc_s c0 <= pc_s c0' ->
                Forall (fly_ok (L ++ map od_op newdocs) (e + a) c0') (fly_of st i0)).
      { intros i0 c0 c0' En0 Hu Hs. eapply Forall_impl; [|exact (Hfl i0 c0 En0)]. intros r Hr.
        apply (fly_ok_grow L _ e (e + a) c0 c0' r Hlen ltac:(lia) Hu Hs Hr). }
      assert (Hd1e : forall dx, In dx (s_dts db') -> dd_duid dx = D -> dx = d1).
      { intros dx Hx Hdx. unfold db' in Hx. cbn [s_dts] in Hx. apply (upsert_in _ _ _ Hndd) in Hx. destruct Hx as [->|[Hx Hne]]; [reflexivity|].
        exfalso. apply Hne. assert (dx = d0) by (eapply (nodup_map_in_inj dd_duid); eauto; congruence). subst dx. unfold d1, set_end, set_client. cbn. reflexivity. }
      assert (Hend1 : dd_end d1 = e + a) by reflexivity.
      destruct lost; intros HP'.
      + (* the answer is lost for now: it stays in the network *)
        cbn [ps_db ps_cl l_fly]. intros dx Hx Hdx. rewrite (Hd1e dx Hx Hdx), Hend1, HLL. split; [unfold a; lia|].
        intros i0 c0 En0. unfold fly_of. cbn [l_fly]. rewrite nth_add_fly. destruct (Nat.eqb i0 i) eqn:Ei.
        * apply Nat.eqb_eq in Ei. subst i0. rewrite En in En0. injection En0 as <-. constructor; [apply Hnewfly; [reflexivity|lia]|].
          exact (Hold i c c En eq_refl ltac:(lia)).
        * exact (Hold i0 c0 c0 En0 eq_refl ltac:(lia)).
      + (* the answer arrives; a copy stays in the network *)
        revert HP'. rewrite Hinc. intros HP'. cbn [ps_db ps_cl l_fly]. intros dx Hx Hdx. rewrite (Hd1e dx Hx Hdx), Hend1, HLL. split; [unfold a; lia|].
        intros i0 c0 En0. unfold fly_of. cbn [l_fly]. rewrite nth_add_fly. rewrite nth_upd_nth in En0. destruct (Nat.eqb i0 i) eqn:Ei.
        * apply Nat.eqb_eq in Ei. subst i0. rewrite En in En0. injection En0 as <-. constructor.
          -- apply Hnewfly; [reflexivity|cbn [pc_s]; lia].
          -- apply (Hold i c _ En); [reflexivity|cbn [pc_s]; lia].
        * exact (Hold i0 c0 c0 En0 eq_refl ltac:(lia)).
  Qed.

  Theorem lstep_inv st ev : LInv st -> LInv (lstep st ev).
  Proof. destruct ev as [ev|i j]; [apply base_inv|apply late_inv]. Qed.

  Definition lrun (st : lsys) (evs : list lev) : lsys := fold_left lstep evs st.
  Theorem lrun_inv evs : forall st, LInv st -> LInv (lrun st evs).
  Proof. induction evs as [|ev evs IH]; intros st H; cbn; [exact H|]. apply IH, lstep_inv, H. Qed.

  (* C07 at system level: local operations, exchanges, and every answer ever given arriving late, out of order or more
     than once, in any interleaving — every client has executed exactly the other clients' operations of the log prefix
     it has seen, in log order, each once, and the log holds every client's operations exactly once in issue order *)
  Theorem late_answers_exactly_once st0 evs :
    LInv st0 ->
    let st := l_base (lrun st0 evs) in
    LogInv (ps_db st) /\
    (forall c, In c (ps_cl st) ->
       pc_exec c = foreign (pc_cuid c) (firstn (N.to_nat (pc_s c)) (logops D (ps_db st)))) /\
    (forall d u, In d (s_dts (ps_db st)) -> seqs_of (s_ops (ps_db st)) (dd_duid d) u = nseq 1 (N.to_nat (ack d u))).
  Proof.
    intros H st. destruct (lrun_inv evs st0 H) as [[Hinv [Hci [_ [d0 [_ [_ [_ Hcl]]]]]]] _]. fold st in Hinv, Hci, Hcl.
    split; [exact Hinv|]. split; [|intros d u Hd; exact (Hci d Hd u)].
    intros c Hc. rewrite Forall_forall in Hcl. destruct (Hcl c Hc) as [_ [_ [_ [_ [_ [_ C7]]]]]]. exact C7.
  Qed.

  (* a state of the base system with an empty network *)
  Lemma LInv_of_PInv st : PInv col D st ->
    (forall d0, In d0 (s_dts (ps_db st)) -> dd_duid d0 = D -> dd_end d0 < big) -> LInv (mkLs st []).
  Proof.
    intros HP Hb. split; [exact HP|]. cbn [l_base]. intros d0 Hin Hd. split; [exact (Hb d0 Hin Hd)|].
    intros i c _. unfold fly_of. cbn [l_fly]. destruct i; constructor.
  Qed.
End Late.
