(* C20: the locking protocol of one datatype (Model/Conc.v) under every schedule. *)
From Coq Require Import List Arith Bool Lia.
From Orda.Model Require Import Conc.
Import ListNotations.

Lemma upd_same {A} (f : nat -> A) t v : upd f t v t = v.
Proof. unfold upd. rewrite Nat.eqb_refl. reflexivity. Qed.
Lemma upd_other {A} (f : nat -> A) t v x : x <> t -> upd f t v x = f x.
Proof. unfold upd. intros H. destruct (Nat.eqb_spec x t); [contradiction|reflexivity]. Qed.

Lemma body_length u : length (body u) = u_steps u.
Proof. unfold body. rewrite map_length, seq_length. reflexivity. Qed.
Lemma firstn_body_all u : firstn (u_steps u) (body u) = body u.
Proof. rewrite <- (body_length u). apply firstn_all. Qed.
Lemma firstn_S_nth {A} (l : list A) d : forall i, i < length l -> firstn (S i) l = firstn i l ++ [nth i l d].
Proof.
  induction l as [|a l IH]; intros i H; cbn in H; [lia|]. destruct i as [|i]; [reflexivity|].
  change (a :: firstn (S i) l = (a :: firstn i l) ++ [nth i l d]). rewrite IH by lia. reflexivity.
Qed.
Lemma firstn_body_S u i : i < u_steps u -> firstn (S i) (body u) = firstn i (body u) ++ [(u_id u, i)].
Proof.
  intros H. rewrite (firstn_S_nth (body u) (u_id u, 0)) by (rewrite body_length; exact H). f_equal. f_equal.
  unfold body. rewrite (map_nth (fun i => (u_id u, i)) (seq 0 (u_steps u)) 0 i). rewrite seq_nth by exact H. reflexivity.
Qed.

Definition idle (p : pc) : Prop := p = PBegin \/ p = PLock.

(* how many calls of its unit the holder has executed when it stands at p *)
Definition progress (u : cunit) (p : pc) : option nat :=
  match p with
  | PSetLocked | PSetCtx => Some 0
  | PNestBegin i | PExec i => if i <? u_steps u then Some i else None
  | PNestEnd i => if i <? u_steps u then Some (S i) else None
  | PEnd | PUnlockTest | PClearCtx | PClearLocked | PUnlock => Some (u_steps u)
  | PBegin | PLock | PWrong => None
  end.
(* the values of isLocked and txCtx when the holder stands at p *)
Definition flags (u : cunit) (p : pc) : bool * option nat :=
  match p with
  | PSetLocked => (false, None)
  | PSetCtx => (true, None)
  | PNestBegin _ | PExec _ | PNestEnd _ | PEnd | PUnlockTest | PClearCtx => (true, Some (u_id u))
  | PClearLocked => (true, None)
  | _ => (false, None)
  end.

Section ConcFacts.
  Variable D : Type.
  Variable exec : nat -> nat -> D -> D.
  Variable P : nat -> list cunit.     (* the programs of the goroutines *)
  Variable d0 : D.

  Notation cstate := (cstate D).
  Notation cstep := (cstep D exec).
  Notation crun := (crun D exec).
  Notation apply_log := (apply_log D exec).

  Definition done_of (t : nat) (o : list (nat * cunit)) : list cunit := map snd (filter (fun x => Nat.eqb (fst x) t) o).

  Record Inv (s : cstate) : Prop := {
    i_nowrong : forall t, fst (thr D s t) <> PWrong;
    i_data : data D s = apply_log (log D s) d0;
    i_prog : forall t, done_of t (order D s) ++ snd (thr D s t) = P t;
    i_lock : match mtx D s with
             | None => locked D s = false /\ cur D s = None /\ (forall t, idle (fst (thr D s t))) /\
                       log D s = flat_map body (map snd (order D s))
             | Some h => exists p u rest k, thr D s h = (p, u :: rest) /\ progress u p = Some k /\
                           flags u p = (locked D s, cur D s) /\ (forall t, t <> h -> idle (fst (thr D s t))) /\
                           log D s = flat_map body (map snd (order D s)) ++ firstn k (body u)
             end
  }.

  Lemma inv_init : Inv (cinit D d0 P).
  Proof.
    constructor; cbn.
    - intros t. discriminate.
    - reflexivity.
    - intros t. reflexivity.
    - repeat split; auto. intros t. left. reflexivity.
  Qed.

  Lemma apply_log_app l1 l2 d : apply_log (l1 ++ l2) d = apply_log l2 (apply_log l1 d).
  Proof. unfold Conc.apply_log. apply fold_left_app. Qed.

  Lemma next_progress u i : i < u_steps u -> progress u (next_pc u i) = Some (S i).
  Proof.
    intros H. unfold next_pc. destruct (Nat.ltb_spec (S i) (u_steps u)) as [L|L].
    - destruct (u_tx u); unfold progress; destruct (Nat.ltb_spec (S i) (u_steps u)); try lia; reflexivity.
    - unfold progress. f_equal. lia.
  Qed.
  Lemma next_flags u i : flags u (next_pc u i) = (true, Some (u_id u)).
  Proof. unfold next_pc. destruct (S i <? u_steps u); [destruct (u_tx u)|]; reflexivity. Qed.
  Lemma next_not_wrong u i : next_pc u i <> PWrong.
  Proof. unfold next_pc. destruct (S i <? u_steps u); [destruct (u_tx u)|]; discriminate. Qed.
  Lemma first_progress u : progress u (first_pc u) = Some 0.
  Proof.
    unfold first_pc. destruct (Nat.eqb_spec (u_steps u) 0) as [E|E]; [unfold progress; congruence|].
    destruct (u_tx u); unfold progress; destruct (Nat.ltb_spec 0 (u_steps u)); try lia; reflexivity.
  Qed.
  Lemma first_flags u : flags u (first_pc u) = (true, Some (u_id u)).
  Proof. unfold first_pc. destruct (u_steps u =? 0); [|destruct (u_tx u)]; reflexivity. Qed.
  Lemma first_not_wrong u : first_pc u <> PWrong.
  Proof. unfold first_pc. destruct (u_steps u =? 0); [|destruct (u_tx u)]; discriminate. Qed.

  Ltac proj := cbn [mtx thr order locked cur log data set_thr].
  Ltac fin :=
    try discriminate; try reflexivity;
    try solve [unfold flags; congruence];
    try solve [apply first_not_wrong | apply first_progress | apply next_not_wrong | apply next_progress; assumption];
    try solve [rewrite first_flags; congruence | rewrite next_flags; congruence];
    try solve [unfold progress; match goal with |- context [?a <? ?b] => destruct (Nat.ltb_spec a b) end; [reflexivity|lia]].

  (* the holder moves on inside its unit *)
  Lemma holder_step s t p u rest p' k' s' :
    Inv s -> mtx D s = Some t -> thr D s t = (p, u :: rest) ->
    mtx D s' = Some t -> thr D s' = upd (thr D s) t (p', u :: rest) -> order D s' = order D s ->
    p' <> PWrong -> progress u p' = Some k' -> flags u p' = (locked D s', cur D s') ->
    log D s' = flat_map body (map snd (order D s)) ++ firstn k' (body u) ->
    data D s' = apply_log (log D s') d0 -> Inv s'.
  Proof.
    intros [I1 I2 I3 I4] Hm Ht Hm' Ht' Ho Hw Hp Hf Hl Hd. rewrite Hm in I4.
    destruct I4 as [p0 [u0 [rest0 [k0 [J1 [J2 [J3 [J4 J5]]]]]]]].
    constructor.
    - intros x. rewrite Ht'. destruct (Nat.eq_dec x t) as [->|N]; [rewrite upd_same; exact Hw|rewrite upd_other by exact N; apply I1].
    - exact Hd.
    - intros x. rewrite Ht', Ho. destruct (Nat.eq_dec x t) as [->|N]; [rewrite upd_same|rewrite upd_other by exact N]; [|apply I3].
      specialize (I3 t). rewrite Ht in I3. exact I3.
    - rewrite Hm'. exists p', u, rest, k'. rewrite Ht', upd_same, Ho. repeat split; auto.
      intros x N. rewrite upd_other by exact N. apply J4, N.
  Qed.

  (* a goroutine that does not hold the mutex moves from PBegin to PLock *)
  Lemma idle_step s t u rest :
    Inv s -> thr D s t = (PBegin, u :: rest) -> mtx D s <> Some t -> Inv (set_thr D s t PLock (u :: rest)).
  Proof.
    intros [I1 I2 I3 I4] Ht Hm. constructor; cbn.
    - intros x. destruct (Nat.eq_dec x t) as [->|N]; [rewrite upd_same; discriminate|rewrite upd_other by exact N; apply I1].
    - exact I2.
    - intros x. destruct (Nat.eq_dec x t) as [->|N]; [rewrite upd_same|rewrite upd_other by exact N]; [|apply I3].
      specialize (I3 t). rewrite Ht in I3. exact I3.
    - destruct (mtx D s) as [h|].
      + destruct I4 as [p0 [u0 [rest0 [k0 [J1 [J2 [J3 [J4 J5]]]]]]]]. assert (N : h <> t) by congruence.
        exists p0, u0, rest0, k0. rewrite upd_other by exact N. repeat split; auto.
        intros x Nx. destruct (Nat.eq_dec x t) as [->|N2]; [rewrite upd_same; right; reflexivity|rewrite upd_other by exact N2; apply J4, Nx].
      + destruct I4 as [J1 [J2 [J3 J4]]]. repeat split; auto.
        intros x. destruct (Nat.eq_dec x t) as [->|N2]; [rewrite upd_same; right; reflexivity|rewrite upd_other by exact N2; apply J3].
  Qed.

  Theorem inv_step s t s' : Inv s -> cstep t s = Some s' -> Inv s'.
  Proof.
    intros HI Hs. pose proof HI as [I1 I2 I3 I4]. unfold Conc.cstep in Hs.
    destruct (thr D s t) as [p us] eqn:Et. destruct us as [|u rest]; [discriminate|].
    destruct (mtx D s) as [h|] eqn:Em.
    - destruct I4 as [p0 [u0 [rest0 [k0 [J1 [J2 [J3 [J4 J5]]]]]]]].
      destruct (Nat.eq_dec t h) as [->|N].
      + (* the holder *)
        rewrite Et in J1. injection J1 as <- <- <-.
        destruct p; try discriminate J2; cbn [progress flags] in J2, J3.
        * (* PSetLocked *) injection Hs as <-. injection J2 as <-. injection J3 as L C.
          eapply (holder_step s h _ u rest PSetCtx 0); eauto; proj; fin.
        * (* PSetCtx *) injection Hs as <-. injection J2 as <-. injection J3 as L C.
          eapply (holder_step s h _ u rest (first_pc u) 0); eauto; proj; fin.
        * (* PNestBegin *) destruct (Nat.ltb_spec i (u_steps u)) as [Li|Li]; [|discriminate]. injection J2 as <-. injection J3 as L C.
          rewrite <- C, Nat.eqb_refl in Hs. injection Hs as <-.
          eapply (holder_step s h _ u rest (PExec i) i); eauto; proj; fin.
        * (* PExec *) destruct (Nat.ltb_spec i (u_steps u)) as [Li|Li]; [|discriminate]. injection J2 as <-. injection J3 as L C.
          injection Hs as <-.
          eapply (holder_step s h _ u rest (if u_tx u then PNestEnd i else next_pc u i) (S i)); eauto; proj;
            [destruct (u_tx u); fin | destruct (u_tx u); fin | destruct (u_tx u); fin | | ].
          -- rewrite J5, <- app_assoc, firstn_body_S by exact Li. reflexivity.
          -- rewrite apply_log_app, <- I2. reflexivity.
        * (* PNestEnd *) destruct (Nat.ltb_spec i (u_steps u)) as [Li|Li]; [|discriminate]. injection J2 as <-. injection J3 as L C.
          rewrite <- C in Hs. injection Hs as <-.
          eapply (holder_step s h _ u rest (next_pc u i) (S i)); eauto; proj; fin.
        * (* PEnd *) injection J2 as <-. injection J3 as L C. rewrite <- C, Nat.eqb_refl in Hs. injection Hs as <-.
          eapply (holder_step s h _ u rest PUnlockTest (u_steps u)); eauto; proj; fin.
        * (* PUnlockTest *) injection J2 as <-. injection J3 as L C. rewrite <- L in Hs. injection Hs as <-.
          eapply (holder_step s h _ u rest PClearCtx (u_steps u)); eauto; proj; fin.
        * (* PClearCtx *) injection J2 as <-. injection J3 as L C. injection Hs as <-.
          eapply (holder_step s h _ u rest PClearLocked (u_steps u)); eauto; proj; fin.
        * (* PClearLocked *) injection J2 as <-. injection J3 as L C. injection Hs as <-.
          eapply (holder_step s h _ u rest PUnlock (u_steps u)); eauto; proj; fin.
        * (* PUnlock: the unit is complete, the mutex is released *)
          injection J2 as <-. injection J3 as L C. injection Hs as <-. constructor; cbn.
          -- intros x. destruct (Nat.eq_dec x h) as [->|N]; [rewrite upd_same; discriminate|rewrite upd_other by exact N; apply I1].
          -- exact I2.
          -- intros x. unfold done_of. rewrite filter_app, map_app. cbn [filter fst].
             destruct (Nat.eq_dec x h) as [->|N].
             ++ rewrite upd_same, Nat.eqb_refl. cbn. rewrite <- app_assoc. cbn. specialize (I3 h). rewrite Et in I3. exact I3.
             ++ rewrite upd_other by exact N. destruct (Nat.eqb_spec h x) as [E|_]; [congruence|]. cbn. rewrite app_nil_r. apply I3.
          -- repeat split; auto.
             ++ intros x. destruct (Nat.eq_dec x h) as [->|N]; [rewrite upd_same; left; reflexivity|rewrite upd_other by exact N; apply J4, N].
             ++ rewrite J5, firstn_body_all, map_app, flat_map_app. cbn. rewrite app_nil_r. reflexivity.
      + (* another goroutine: it can only go from PBegin to PLock, where it waits *)
        pose proof (J4 t N) as Hid. rewrite Et in Hid. cbn [fst] in Hid. destruct Hid as [->| ->]; [|discriminate].
        injection Hs as <-. apply idle_step; auto. congruence.
    - destruct I4 as [J1 [J2 [J3 J4]]]. pose proof (J3 t) as Hid. rewrite Et in Hid. cbn [fst] in Hid. destruct Hid as [->| ->].
      + injection Hs as <-. apply idle_step; auto. congruence.
      + (* the mutex is free: t takes it *)
        injection Hs as <-. constructor; cbn.
        * intros x. destruct (Nat.eq_dec x t) as [->|N]; [rewrite upd_same; discriminate|rewrite upd_other by exact N; apply I1].
        * exact I2.
        * intros x. destruct (Nat.eq_dec x t) as [->|N]; [rewrite upd_same|rewrite upd_other by exact N]; [|apply I3].
          specialize (I3 t). rewrite Et in I3. exact I3.
        * exists PSetLocked, u, rest, 0. rewrite upd_same. repeat split; auto.
          -- cbn. rewrite J1, J2. reflexivity.
          -- intros x N. rewrite upd_other by exact N. apply J3.
          -- cbn. rewrite app_nil_r. exact J4.
  Qed.

  Theorem inv_run sched : forall s, Inv s -> Inv (crun s sched).
  Proof.
    induction sched as [|t sched IH]; intros s H; cbn; [exact H|].
    apply IH. destruct (cstep t s) as [s'|] eqn:E; [eapply inv_step; eauto|exact H].
  Qed.

  (* ---- what the invariant says ---- *)

  (* mutual exclusion: a goroutine that is inside a unit (past the Lock) is the one holding the mutex, and no
     forbidden branch is ever taken *)
  Theorem mutual_exclusion s t : Inv s ->
    fst (thr D s t) <> PWrong /\ (~ idle (fst (thr D s t)) -> mtx D s = Some t).
  Proof.
    intros [I1 _ _ I4]. split; [apply I1|]. intros Hn. destruct (mtx D s) as [h|].
    - destruct I4 as [p [u [rest [k [_ [_ [_ [J4 _]]]]]]]]. destruct (Nat.eq_dec t h) as [->|N]; [reflexivity|].
      exfalso. apply Hn, J4, N.
    - destruct I4 as [_ [_ [J3 _]]]. exfalso. apply Hn, J3.
  Qed.

  (* no deadlock: as long as some goroutine has work left, some goroutine can take a step *)
  Theorem no_deadlock s : Inv s -> (exists t, snd (thr D s t) <> []) -> exists t, cstep t s <> None.
  Proof.
    intros [I1 _ _ I4] [t Ht]. destruct (mtx D s) as [h|] eqn:Em.
    - destruct I4 as [p [u [rest [k [J1 [J2 _]]]]]]. exists h. unfold Conc.cstep. rewrite J1.
      destruct p; try discriminate J2; try discriminate.
      + destruct (cur D s) as [c|]; [destruct (c =? u_id u)|]; discriminate.
      + destruct (cur D s); discriminate.
      + destruct (cur D s) as [c|]; [destruct (c =? u_id u)|]; discriminate.
      + destruct (locked D s); discriminate.
    - destruct I4 as [_ [_ [J3 _]]]. exists t. unfold Conc.cstep. specialize (J3 t).
      destruct (thr D s t) as [p us]. cbn [fst snd] in *. destruct us as [|u rest]; [congruence|].
      destruct J3 as [->| ->]; [discriminate|rewrite Em; discriminate].
  Qed.

  (* at the end: the calls took effect unit by unit, in the order the units released the mutex; that order contains
     every goroutine's units in program order; the datatype is what running the units one at a time in that order gives *)
  Theorem equivalent_to_sequential s : Inv s -> (forall t, snd (thr D s t) = []) ->
    mtx D s = None /\
    log D s = flat_map body (map snd (order D s)) /\
    (forall t, done_of t (order D s) = P t) /\
    data D s = sequential D exec (map snd (order D s)) d0.
  Proof.
    intros [I1 I2 I3 I4] Hd.
    assert (Hm : mtx D s = None).
    { destruct (mtx D s) as [h|]; [|reflexivity]. destruct I4 as [p [u [rest [k [J1 _]]]]]. specialize (Hd h). rewrite J1 in Hd. discriminate. }
    rewrite Hm in I4. destruct I4 as [_ [_ [_ J4]]]. repeat split; auto.
    - intros t. specialize (I3 t). rewrite Hd, app_nil_r in I3. exact I3.
    - unfold sequential. rewrite <- J4. exact I2.
  Qed.

  (* a transaction's calls are never interleaved with anybody else's: at every moment the executed calls are whole
     units followed by a prefix of the unit of the current holder *)
  Theorem units_contiguous s : Inv s ->
    exists partial, log D s = flat_map body (map snd (order D s)) ++ partial /\
      match mtx D s with
      | None => partial = []
      | Some h => exists u rest k, snd (thr D s h) = u :: rest /\ partial = firstn k (body u)
      end.
  Proof.
    intros [_ _ _ I4]. destruct (mtx D s) as [h|].
    - destruct I4 as [p [u [rest [k [J1 [_ [_ [_ J5]]]]]]]]. exists (firstn k (body u)). split; [exact J5|].
      exists u, rest, k. rewrite J1. auto.
    - destruct I4 as [_ [_ [_ J4]]]. exists []. rewrite app_nil_r. auto.
  Qed.
End ConcFacts.

(* ---- stated for every schedule ---- *)
Section ConcTheorems.
  Variable D : Type.
  Variable exec : nat -> nat -> D -> D.

  Theorem conc_safe (P : nat -> list cunit) d0 sched t :
    let s := crun D exec (cinit D d0 P) sched in
    fst (thr D s t) <> PWrong /\ (~ idle (fst (thr D s t)) -> mtx D s = Some t).
  Proof. apply (mutual_exclusion D exec P d0). apply inv_run, inv_init. Qed.

  Theorem conc_live (P : nat -> list cunit) d0 sched :
    let s := crun D exec (cinit D d0 P) sched in
    (exists t, snd (thr D s t) <> []) -> exists t, cstep D exec t s <> None.
  Proof. apply (no_deadlock D exec P d0). apply inv_run, inv_init. Qed.

  Theorem conc_sequential (P : nat -> list cunit) d0 sched :
    let s := crun D exec (cinit D d0 P) sched in
    (forall t, snd (thr D s t) = []) ->
    mtx D s = None /\
    log D s = flat_map body (map snd (order D s)) /\
    (forall t, done_of t (order D s) = P t) /\
    data D s = sequential D exec (map snd (order D s)) d0.
  Proof. apply (equivalent_to_sequential D exec P d0). apply inv_run, inv_init. Qed.

  Theorem conc_contiguous (P : nat -> list cunit) d0 sched :
    let s := crun D exec (cinit D d0 P) sched in
    exists partial, log D s = flat_map body (map snd (order D s)) ++ partial /\
      match mtx D s with
      | None => partial = []
      | Some h => exists u rest k, snd (thr D s h) = u :: rest /\ partial = firstn k (body u)
      end.
  Proof. apply (units_contiguous D exec P d0). apply inv_run, inv_init. Qed.
End ConcTheorems.
