(* Facts about the datatype wrapper (Model/Datatype.v), generic in the CRDT kernel:
   rollback restores exactly the state before an aborted transaction (C09),
   operation sequence numbers are gapless and the local clock dominates every
   applied operation (C15) — over arbitrary event sequences. *)
From Coq Require Import List NArith ZArith Bool Lia.
From Orda.Model Require Import Base Time Ops Datatype.
Import ListNotations.
Open Scope N_scope.

Lemma str_eqb_refl' a : str_eqb a a = true.
Proof. induction a as [|x a IH]; cbn; [reflexivity|]. rewrite N.eqb_refl, IH. reflexivity. Qed.

Section Facts.
  Variable St call ret J : Type.
  Variable k_init : St.
  Variable k_validate : St -> call -> bool.
  Variable k_local : St -> call -> opid -> lres St ret.
  Variable k_remote : St -> op -> St.
  Variable k_export : St -> J.
  Variable k_import : J -> St.
  (* kernel obligations *)
  Hypothesis import_export : forall s, k_import (k_export s) = s.
  Hypothesis k_local_id : forall s c i s' o r, k_local s c i = LOk s' o r -> op_id o = i.
  Hypothesis k_local_not_tx : forall s c i s' o r, k_local s c i = LOk s' o r -> is_tx o = false.

  Notation dty := (@dt St call J).
  Notation local_step := (local_step St call ret J k_validate k_local).
  Notation local_call := (local_call St call ret J k_validate k_local).
  Notation transaction := (transaction St call ret J k_validate k_local k_remote k_export k_import).
  Notation replay := (replay St call ret J k_local k_remote k_import).
  Notation replay_entry := (replay_entry St call ret k_local k_remote).
  Notation remote_op := (remote_op St call J k_remote).
  Notation tx_body := (tx_body St call ret J k_validate k_local).

  Definition wf_id (i : opid) : Prop := o_lam i < two64 /\ o_seq i < two64.

  Lemma rollback_next i : wf_id i -> opid_rollback (opid_next i) = i.
  Proof.
    intros [Hl Hs]. destruct i as [e l c s]. unfold opid_rollback, opid_next; cbn in *. f_equal.
    - unfold two64 in *. destruct (N.eq_dec (l + 1) 18446744073709551616) as [E|E].
      + rewrite E, N.mod_same by lia. rewrite N.add_0_l. rewrite N.mod_small by lia. lia.
      + rewrite (N.mod_small (l + 1)) by lia.
        replace (l + 1 + 18446744073709551616 - 1) with (l + 1 * 18446744073709551616) by lia.
        rewrite N.mod_add by lia. apply N.mod_small. lia.
    - unfold two64 in *. destruct (N.eq_dec (s + 1) 18446744073709551616) as [E|E].
      + rewrite E, N.mod_same by lia. rewrite N.add_0_l. rewrite N.mod_small by lia. lia.
      + rewrite (N.mod_small (s + 1)) by lia.
        replace (s + 1 + 18446744073709551616 - 1) with (s + 1 * 18446744073709551616) by lia.
        rewrite N.mod_add by lia. apply N.mod_small. lia.
  Qed.

  Lemma wf_next i : wf_id i -> wf_id (opid_next i).
  Proof. intros _. split; cbn; apply N.mod_lt; discriminate. Qed.
  Lemma wf_sync i n : wf_id i -> n < two64 -> wf_id (opid_sync i n).
  Proof.
    intros [Hl Hs] Hn. unfold opid_sync. destruct (o_lam i <? n); split; cbn; auto.
    apply N.mod_lt; discriminate.
  Qed.

  (* ---------- the rollback invariant ---------- *)
  (* replaying rollbackOps on the rollback point reproduces the current snapshot and operation id *)
  Definition RbInv (d : dty) : Prop :=
    wf_id (d_oid d) /\ replay (d_rb_snap d) (d_rb_oid d) (d_rb_ops d) = (d_snap d, d_oid d).

  Lemma replay_app j i l e : replay j i (l ++ [e]) = replay_entry (replay j i l) e.
  Proof. unfold Datatype.replay. rewrite fold_left_app. reflexivity. Qed.

  Lemma local_step_spec d c :
    wf_id (d_oid d) ->
    let '(d', o, r) := local_step d c in
    d_buf d' = d_buf d /\ d_cp d' = d_cp d /\ d_rb_snap d' = d_rb_snap d /\ d_rb_oid d' = d_rb_oid d /\
    d_rb_ops d' = d_rb_ops d /\ wf_id (d_oid d') /\
    match o with
    | Some o => replay_entry (d_snap d, d_oid d) (RLocal call c) = (d_snap d', d_oid d') /\
                op_id o = opid_next (d_oid d) /\ d_oid d' = opid_next (d_oid d)
    | None => match r with
              | Panicked => True
              | _ => d_snap d' = d_snap d /\ d_oid d' = d_oid d
              end
    end.
  Proof.
    intros Hwf. unfold Datatype.local_step.
    destruct (k_validate (d_snap d) c); [|cbn; repeat split; auto; apply Hwf].
    destruct (k_local (d_snap d) c (opid_next (d_oid d))) as [s' o r| |] eqn:E; cbn [d_buf d_cp d_rb_snap d_rb_oid d_rb_ops d_snap d_oid].
    - repeat split; auto; try (apply wf_next; exact Hwf);
        try (cbn [Datatype.replay_entry]; rewrite E; reflexivity); try (eapply k_local_id; eauto).
    - rewrite rollback_next by exact Hwf. repeat split; auto; apply Hwf.
    - repeat split; auto; apply wf_next; exact Hwf.
  Qed.

  Lemma local_call_inv d c : RbInv d -> snd (local_call d c) <> Panicked -> RbInv (fst (local_call d c)).
  Proof.
    intros [Hwf Hrb] Hnp. unfold Datatype.local_call in *.
    pose proof (local_step_spec d c Hwf) as H.
    destruct (local_step d c) as [[d' o] r]. destruct H as [Hb [Hc [Hs [Hi [Ho [Hw H]]]]]].
    destruct o as [o|]; cbn [fst snd] in *.
    - destruct H as [Hre _]. split; [exact Hw|]. cbn [d_rb_snap d_rb_oid d_rb_ops d_snap d_oid].
      rewrite Hs, Hi, Ho, replay_app, Hrb. exact Hre.
    - split; [exact Hw|]. destruct r; try contradiction; destruct H as [H1 H2]; rewrite Hs, Hi, Ho, Hrb, H1, H2; reflexivity.
  Qed.

  Lemma remote_op_inv d o : RbInv d -> o_lam (op_id o) < two64 -> RbInv (remote_op d o).
  Proof.
    intros [Hwf Hrb] Hl. split; cbn [Datatype.remote_op d_oid d_snap d_rb_snap d_rb_oid d_rb_ops].
    - apply wf_sync; assumption.
    - rewrite replay_app, Hrb. reflexivity.
  Qed.

  (* the body of a transaction: the collected entries replay from the state at its start *)
  Lemma tx_body_spec cs : forall d,
    wf_id (d_oid d) ->
    let '(d', ops, ents, rs) := tx_body d cs in
    d_buf d' = d_buf d /\ d_cp d' = d_cp d /\ d_rb_snap d' = d_rb_snap d /\ d_rb_oid d' = d_rb_oid d /\
    d_rb_ops d' = d_rb_ops d /\ wf_id (d_oid d') /\
    (Forall (fun r => r <> Panicked) rs ->
       fold_left replay_entry ents (d_snap d, d_oid d) = (d_snap d', d_oid d')).
  Proof.
    induction cs as [|c cs IH]; intros d Hwf; cbn [Datatype.tx_body].
    - repeat split; auto; apply Hwf.
    - pose proof (local_step_spec d c Hwf) as H.
      destruct (local_step d c) as [[d1 o] r]. destruct H as [Hb [Hc [Hs [Hi [Ho [Hw H]]]]]].
      specialize (IH d1 Hw). destruct (tx_body d1 cs) as [[[d2 ops] ents] rs].
      destruct IH as [I1 [I2 [I3 [I4 [I5 [I6 I7]]]]]].
      destruct o as [o|].
      + repeat split; try congruence; try apply I6.
        intros Hf; inversion Hf as [|? ? Hr Hf']; subst.
        destruct H as [Hre _]. cbn [fold_left]. rewrite Hre. apply I7. exact Hf'.
      + repeat split; try congruence; try apply I6.
        intros Hf; inversion Hf as [|? ? Hr Hf']; subst.
        destruct r; try contradiction; destruct H as [H1 H2]; rewrite <- H1, <- H2; apply I7; exact Hf'.
  Qed.

  (* C09: an aborted transaction restores snapshot, operation id, buffer and checkpoint exactly —
     whatever its body did (valid calls, invalid calls, even panicking ones) *)
  Theorem abort_restores d tag cs :
    RbInv d ->
    let d' := fst (transaction d tag cs true) in
    d_snap d' = d_snap d /\ d_oid d' = d_oid d /\ d_buf d' = d_buf d /\ d_cp d' = d_cp d /\ RbInv d'.
  Proof.
    intros [Hwf Hrb]. unfold Datatype.transaction.
    destruct (tx_body _ cs) as [[[d1 ops] ents] rs]. rewrite Hrb. cbn [fst d_snap d_oid d_buf d_cp].
    repeat split; auto; try apply Hwf.
    cbn [d_rb_snap d_rb_oid d_rb_ops d_snap d_oid]. unfold Datatype.replay. cbn [fold_left]. rewrite import_export. reflexivity.
  Qed.

  (* a committed transaction is one contiguous unit in the buffer, headed by the TRANSACTION
     operation that announces its length, and keeps the rollback invariant *)
  Theorem commit_is_unit d tag cs :
    RbInv d ->
    let '(d', rs) := transaction d tag cs false in
    Forall (fun r => r <> Panicked) rs ->
    exists ops, d_buf d' = d_buf d ++ OTx (opid_next (d_oid d)) tag (Z.of_nat (S (length ops))) :: ops /\
                Forall (fun o => is_tx o = false) ops /\ RbInv d'.
  Proof.
    intros [Hwf Hrb]. unfold Datatype.transaction.
    set (d0 := mkDt (d_snap d) (opid_next (d_oid d)) (d_buf d) (d_cp d) (d_rb_snap d) (d_rb_oid d) (d_rb_ops d)).
    pose proof (tx_body_spec cs d0 (wf_next _ Hwf)) as H.
    assert (Hops : forall d1 ops ents rs, tx_body d0 cs = (d1, ops, ents, rs) -> Forall (fun o => is_tx o = false) ops).
    { clear -k_local_not_tx. generalize d0. clear d0. induction cs as [|c cs IH]; intros dd d1 ops ents rs; cbn [Datatype.tx_body].
      - intros [= <- <- <- <-]. constructor.
      - unfold Datatype.local_step at 1. destruct (k_validate (d_snap dd) c).
        + destruct (k_local (d_snap dd) c (opid_next (d_oid dd))) as [s' o r| |] eqn:E.
          * destruct (tx_body _ cs) as [[[d2 ops2] ents2] rs2] eqn:T. intros [= <- <- <- <-].
            constructor; [eapply k_local_not_tx; eauto|eapply IH; eauto].
          * destruct (tx_body _ cs) as [[[d2 ops2] ents2] rs2] eqn:T. intros [= <- <- <- <-]. eapply IH; eauto.
          * destruct (tx_body _ cs) as [[[d2 ops2] ents2] rs2] eqn:T. intros [= <- <- <- <-]. eapply IH; eauto.
        + destruct (tx_body _ cs) as [[[d2 ops2] ents2] rs2] eqn:T. intros [= <- <- <- <-]. eapply IH; eauto. }
    destruct (tx_body d0 cs) as [[[d1 ops] ents] rs] eqn:T.
    destruct H as [I1 [I2 [I3 [I4 [I5 [I6 I7]]]]]]. intros Hf.
    exists ops. split; [reflexivity|]. split; [eapply Hops; eauto|].
    split; [exact I6|]. cbn [d_rb_snap d_rb_oid d_rb_ops d_snap d_oid].
    rewrite I3, I4. cbn [d0 d_rb_snap d_rb_oid]. unfold Datatype.replay. rewrite fold_left_app.
    fold (replay (d_rb_snap d) (d_rb_oid d) (d_rb_ops d)). rewrite Hrb. cbn [fold_left Datatype.replay_entry].
    apply I7. exact Hf.
  Qed.

  (* ---------- runs over arbitrary event sequences ---------- *)
  Inductive devent :=
  | DCall (c : call)
  | DTxn (tag : str) (cs : list call) (fail : bool)
  | DRecv (o : op)                       (* one foreign operation executed (SyncLamport + ExecuteRemote) *)
  | DAck (c : cp).                       (* checkpoint moved by a sync *)

  Definition no_panic (rs : list (outcome ret)) : bool :=
    forallb (fun r => match r with Panicked => false | _ => true end) rs.

  (* None: some call panicked (the Go process would have crashed) *)
  Definition dstep (d : dty) (e : devent) : option dty :=
    match e with
    | DCall c => let '(d', r) := local_call d c in match r with Panicked => None | _ => Some d' end
    | DTxn tag cs fail => let '(d', rs) := transaction d tag cs fail in
                          if fail || no_panic rs then Some d' else None
    | DRecv o => if o_lam (op_id o) <? two64 then Some (remote_op d o) else None
    | DAck c => Some (set_checkpoint St call J d c)
    end.
  Fixpoint drun (d : dty) (es : list devent) : option dty :=
    match es with
    | [] => Some d
    | e :: es' => match dstep d e with Some d' => drun d' es' | None => None end
    end.

  Lemma no_panic_forall rs : no_panic rs = true -> Forall (fun r => r <> Panicked) rs.
  Proof.
    induction rs as [|r rs IH]; cbn; intros H; constructor.
    - destruct r; try discriminate; intro; discriminate.
    - apply IH. destruct r; try discriminate; exact H.
  Qed.

  Lemma dstep_inv d e d' : RbInv d -> dstep d e = Some d' -> RbInv d'.
  Proof.
    intros Hi. destruct e as [c|tag cs fail|o|c]; cbn [dstep].
    - pose proof (local_call_inv d c Hi) as H. destruct (local_call d c) as [d1 r]. cbn [fst snd] in H.
      destruct r; intros [= <-]; try discriminate; apply H; discriminate.
    - destruct fail.
      + pose proof (abort_restores d tag cs Hi) as H. destruct (transaction d tag cs true) as [d1 rs].
        cbn [fst orb] in *. intros [= <-]. apply H.
      + pose proof (commit_is_unit d tag cs Hi) as H. destruct (transaction d tag cs false) as [d1 rs].
        cbn [orb]. destruct (no_panic rs) eqn:E; intros [= <-].
        destruct (H (no_panic_forall _ E)) as [ops [_ [_ H']]]. exact H'.
    - destruct (N.ltb_spec (o_lam (op_id o)) two64); intros [= <-]. apply remote_op_inv; assumption.
    - intros [= <-]. exact Hi.
  Qed.

  Theorem run_inv es : forall d d', RbInv d -> drun d es = Some d' -> RbInv d'.
  Proof.
    induction es as [|e es IH]; intros d d' Hi; cbn [drun].
    - intros [= <-]. exact Hi.
    - destruct (dstep d e) as [d1|] eqn:E; [|discriminate]. intros H. eapply IH; [eapply dstep_inv; eauto|exact H].
  Qed.

  Lemma create_inv c : RbInv (dt_create St call J k_init k_export c).
  Proof.
    split.
    - apply wf_next. split; cbn; unfold two64; lia.
    - unfold dt_create, Datatype.replay. cbn. rewrite import_export. reflexivity.
  Qed.

  (* C09, over histories: at ANY point of ANY history of calls, transactions (committed or
     aborted) and remote operations, an aborted transaction changes nothing *)
  Theorem abort_restores_anywhere c es d tag cs :
    drun (dt_create St call J k_init k_export c) es = Some d ->
    let d' := fst (transaction d tag cs true) in
    d_snap d' = d_snap d /\ d_oid d' = d_oid d /\ d_buf d' = d_buf d /\ d_cp d' = d_cp d.
  Proof.
    intros Hrun. pose proof (run_inv es _ _ (create_inv c) Hrun) as Hi.
    destruct (abort_restores d tag cs Hi) as [H1 [H2 [H3 [H4 _]]]]. auto.
  Qed.

  (* ---------- C10 at the level of the whole datatype: importing meta and snapshot ---------- *)
  Notation dt_import := (dt_import St call J k_export k_import).

  Lemma import_inv d j i : wf_id i -> RbInv (dt_import d j i).
  Proof. intros Hw. split; [exact Hw|]. unfold Datatype.dt_import, Datatype.replay. cbn. rewrite import_export. reflexivity. Qed.

  (* what an operation can see of a datatype: its state and its operation id *)
  Definition same_face (a b : dty) : Prop := d_snap a = d_snap b /\ d_oid a = d_oid b.

  Lemma local_step_face a b c : same_face a b ->
    let '(a', oa, ra) := local_step a c in let '(b', ob, rb) := local_step b c in
    same_face a' b' /\ oa = ob /\ ra = rb.
  Proof.
    intros [E1 E2]. unfold Datatype.local_step. rewrite E1, E2. destruct (k_validate (d_snap b) c); [|repeat split; assumption].
    destruct (k_local (d_snap b) c (opid_next (d_oid b))); repeat split; reflexivity.
  Qed.

  Lemma tx_body_face cs : forall a b, same_face a b ->
    let '(a', opsa, entsa, rsa) := tx_body a cs in let '(b', opsb, entsb, rsb) := tx_body b cs in
    same_face a' b' /\ opsa = opsb /\ entsa = entsb /\ rsa = rsb.
  Proof.
    induction cs as [|c cs IH]; intros a b F; cbn [Datatype.tx_body]; [repeat split; apply F|].
    pose proof (local_step_face a b c F) as L. destruct (local_step a c) as [[a1 oa] ra], (local_step b c) as [[b1 ob] rb].
    destruct L as [F1 [-> ->]]. pose proof (IH a1 b1 F1) as T.
    destruct (tx_body a1 cs) as [[[a2 opsa] entsa] rsa], (tx_body b1 cs) as [[[b2 opsb] entsb] rsb].
    destruct T as [F2 [-> [-> ->]]]. destruct ob; repeat split; apply F2.
  Qed.

  Lemma dstep_face a b e : RbInv a -> RbInv b -> same_face a b ->
    match dstep a e, dstep b e with
    | Some a', Some b' => same_face a' b'
    | None, None => True
    | _, _ => False
    end.
  Proof.
    intros [_ Ra] [_ Rb] F. pose proof F as [E1 E2]. destruct e as [c|tag cs fail|o|c]; cbn [dstep].
    - unfold Datatype.local_call. pose proof (local_step_face a b c F) as L.
      destruct (local_step a c) as [[a1 oa] ra], (local_step b c) as [[b1 ob] rb]. destruct L as [[F1 F2] [-> ->]].
      destruct ob; destruct rb; cbn; try exact I; split; assumption.
    - unfold Datatype.transaction.
      assert (F0 : same_face (mkDt (d_snap a) (opid_next (d_oid a)) (d_buf a) (d_cp a) (d_rb_snap a) (d_rb_oid a) (d_rb_ops a))
                             (mkDt (d_snap b) (opid_next (d_oid b)) (d_buf b) (d_cp b) (d_rb_snap b) (d_rb_oid b) (d_rb_ops b)))
        by (split; cbn; congruence).
      pose proof (tx_body_face cs _ _ F0) as T.
      destruct (tx_body (mkDt (d_snap a) _ _ _ _ _ _) cs) as [[[a2 opsa] entsa] rsa], (tx_body (mkDt (d_snap b) _ _ _ _ _ _) cs) as [[[b2 opsb] entsb] rsb].
      destruct T as [[F1 F2] [-> [-> ->]]]. destruct fail.
      + rewrite Ra, Rb. cbn [orb]. split; cbn; assumption.
      + cbn [orb]. destruct (no_panic rsb); [split; cbn; assumption|exact I].
    - destruct (o_lam (op_id o) <? two64); [|exact I]. unfold Datatype.remote_op. split; cbn; congruence.
    - split; cbn; assumption.
  Qed.

  (* C10: a datatype and a second one that shows the same state and operation id — in particular an instance restored
     by importing the first one's meta and snapshot — go through ANY history of calls, transactions (committed or
     aborted), received operations and checkpoint moves alike: the same calls panic or not, and after every step both
     show the same state and operation id again *)
  Theorem same_face_forever es : forall a b, RbInv a -> RbInv b -> same_face a b ->
    match drun a es, drun b es with
    | Some a', Some b' => same_face a' b'
    | None, None => True
    | _, _ => False
    end.
  Proof.
    induction es as [|e es IH]; intros a b Ra Rb F; cbn [drun]; [exact F|].
    pose proof (dstep_face a b e Ra Rb F) as S.
    destruct (dstep a e) as [a1|] eqn:Ea, (dstep b e) as [b1|] eqn:Eb; try contradiction.
    - apply IH; [exact (dstep_inv a e a1 Ra Ea)|exact (dstep_inv b e b1 Rb Eb)|exact S].
    - exact I.
  Qed.

  Theorem restored_is_indistinguishable d fresh es :
    RbInv d ->
    let r := dt_import fresh (k_export (d_snap d)) (d_oid d) in
    d_snap r = d_snap d /\ d_oid r = d_oid d /\
    match drun d es, drun r es with
    | Some d', Some r' => d_snap r' = d_snap d' /\ d_oid r' = d_oid d'
    | None, None => True
    | _, _ => False
    end.
  Proof.
    intros Rd r. assert (F : same_face d r) by (split; cbn; [rewrite import_export; reflexivity|reflexivity]).
    split; [symmetry; apply F|]. split; [reflexivity|].
    pose proof (same_face_forever es d r Rd (import_inv fresh _ _ (proj1 Rd)) F) as S.
    destruct (drun d es), (drun r es); try exact S. destruct S as [S1 S2]. split; congruence.
  Qed.

  (* ... at ANY point of ANY history: the datatype reached from creation by any events, exported there and imported into
     any other instance *)
  Theorem restored_is_indistinguishable_anywhere c es0 d fresh es :
    drun (dt_create St call J k_init k_export c) es0 = Some d ->
    let r := dt_import fresh (k_export (d_snap d)) (d_oid d) in
    d_snap r = d_snap d /\ d_oid r = d_oid d /\
    match drun d es, drun r es with
    | Some d', Some r' => d_snap r' = d_snap d' /\ d_oid r' = d_oid d'
    | None, None => True
    | _, _ => False
    end.
  Proof. intros Hrun. apply restored_is_indistinguishable. exact (run_inv es0 _ _ (create_inv c) Hrun). Qed.

  (* ---------- C15: identifiers issued by a datatype ---------- *)
  (* consecutive identifiers: each is the Next of its predecessor *)
  Fixpoint id_chain (i : opid) (l : list op) : Prop :=
    match l with [] => True | o :: l' => op_id o = opid_next i /\ id_chain (op_id o) l' end.
  Fixpoint last_id (i : opid) (l : list op) : opid :=
    match l with [] => i | o :: l' => last_id (op_id o) l' end.

  Lemma id_chain_app i l1 l2 : id_chain i (l1 ++ l2) <-> id_chain i l1 /\ id_chain (last_id i l1) l2.
  Proof. revert i; induction l1 as [|o l1 IH]; intros i; cbn; [tauto|]. rewrite IH. tauto. Qed.
  Lemma last_id_app i l1 l2 : last_id i (l1 ++ l2) = last_id (last_id i l1) l2.
  Proof. revert i; induction l1 as [|o l1 IH]; intros i; cbn; auto. Qed.

  Lemma tx_body_ids cs : forall d,
    wf_id (d_oid d) ->
    let '(d', ops, ents, rs) := tx_body d cs in
    Forall (fun r => r <> Panicked) rs -> id_chain (d_oid d) ops /\ d_oid d' = last_id (d_oid d) ops.
  Proof.
    induction cs as [|c cs IH]; intros d Hwf; cbn [Datatype.tx_body].
    - intros _. split; [exact I|reflexivity].
    - pose proof (local_step_spec d c Hwf) as H.
      destruct (local_step d c) as [[d1 o] r]. destruct H as [_ [_ [_ [_ [_ [Hw H]]]]]].
      specialize (IH d1 Hw). destruct (tx_body d1 cs) as [[[d2 ops] ents] rs].
      destruct o as [o|]; intros Hf; inversion Hf as [|? ? Hr Hf']; subst.
      + destruct H as [_ [Hid Hd1]]. destruct (IH Hf') as [I1 I2]. cbn [id_chain last_id].
        rewrite Hid, <- Hd1. split; [split; [reflexivity|exact I1]|exact I2].
      + destruct r; try contradiction; destruct H as [_ H2]; rewrite <- H2; apply IH; exact Hf'.
  Qed.

  (* ----- sequence numbers: 1, 2, 3, ... (mod 2^64), all with the client's id ----- *)
  Fixpoint seq_chain (c : str) (s : N) (l : list op) : Prop :=
    match l with
    | [] => True
    | o :: l' => o_seq (op_id o) = (s + 1) mod two64 /\ o_cuid (op_id o) = c /\ seq_chain c (o_seq (op_id o)) l'
    end.
  Fixpoint last_seq (s : N) (l : list op) : N :=
    match l with [] => s | o :: l' => last_seq (o_seq (op_id o)) l' end.
  Lemma seq_chain_app c s l1 l2 : seq_chain c s (l1 ++ l2) <-> seq_chain c s l1 /\ seq_chain c (last_seq s l1) l2.
  Proof. revert s; induction l1 as [|o l1 IH]; intros s; cbn; [tauto|]. rewrite IH. tauto. Qed.
  Lemma last_seq_app s l1 l2 : last_seq s (l1 ++ l2) = last_seq (last_seq s l1) l2.
  Proof. revert s; induction l1 as [|o l1 IH]; intros s; cbn; auto. Qed.

  Lemma id_chain_seq l : forall i, id_chain i l ->
    seq_chain (o_cuid i) (o_seq i) l /\ o_seq (last_id i l) = last_seq (o_seq i) l /\ o_cuid (last_id i l) = o_cuid i.
  Proof.
    induction l as [|o l IH]; intros i; cbn; [auto|]. intros [E H]. destruct (IH _ H) as [I1 [I2 I3]].
    rewrite E in *. cbn [opid_next o_seq o_cuid] in *. repeat split; auto.
  Qed.

  Definition SeqInv (c : str) (d : dty) : Prop :=
    wf_id (d_oid d) /\ o_cuid (d_oid d) = c /\ seq_chain c 0 (d_buf d) /\ o_seq (d_oid d) = last_seq 0 (d_buf d).

  Lemma sync_seq i n : o_seq (opid_sync i n) = o_seq i /\ o_cuid (opid_sync i n) = o_cuid i.
  Proof. unfold opid_sync. destruct (o_lam i <? n); auto. Qed.

  Lemma local_call_seq c d cl : SeqInv c d -> snd (local_call d cl) <> Panicked -> SeqInv c (fst (local_call d cl)).
  Proof.
    intros [Hwf [Hc [Hch Hl]]] Hnp. unfold Datatype.local_call in *.
    pose proof (local_step_spec d cl Hwf) as H.
    destruct (local_step d cl) as [[d1 o] r]. destruct H as [Hb [_ [_ [_ [_ [Hw H]]]]]].
    destruct o as [o|]; cbn [fst snd] in *; unfold SeqInv; cbn [d_oid d_buf].
    - destruct H as [_ [Hid Ho]]. split; [exact Hw|]. rewrite Ho, Hb. cbn [opid_next o_cuid o_seq].
      split; [exact Hc|]. rewrite seq_chain_app, last_seq_app. cbn [seq_chain last_seq]. rewrite Hid.
      cbn [opid_next o_seq o_cuid]. rewrite <- Hl. repeat split; auto.
    - destruct r; try contradiction; destruct H as [_ H2]; (split; [exact Hw|]); rewrite H2, Hb; auto.
  Qed.

  Lemma abort_seq c d tag cs : RbInv d -> SeqInv c d -> SeqInv c (fst (transaction d tag cs true)).
  Proof.
    intros Hrb [Hwf [Hc [Hch Hl]]]. destruct (abort_restores d tag cs Hrb) as [_ [E2 [E3 _]]].
    unfold SeqInv. rewrite E2, E3. auto.
  Qed.

  Lemma commit_seq c d tag cs :
    SeqInv c d -> Forall (fun r => r <> Panicked) (snd (transaction d tag cs false)) ->
    SeqInv c (fst (transaction d tag cs false)).
  Proof.
    intros [Hwf [Hc [Hch Hl]]]. unfold Datatype.transaction.
    set (d0 := mkDt (d_snap d) (opid_next (d_oid d)) (d_buf d) (d_cp d) (d_rb_snap d) (d_rb_oid d) (d_rb_ops d)).
    pose proof (tx_body_ids cs d0 (wf_next _ Hwf)) as Hids.
    pose proof (tx_body_spec cs d0 (wf_next _ Hwf)) as Hsp.
    destruct (tx_body d0 cs) as [[[d1 ops] ents] rs]. cbn [fst snd]. intros Hf.
    destruct (Hids Hf) as [Hchain Hlast]. destruct Hsp as [_ [_ [_ [_ [_ [Hw1 _]]]]]].
    destruct (id_chain_seq ops _ Hchain) as [S1 [S2 S3]]. cbn [d0 d_oid opid_next o_seq o_cuid] in *.
    unfold SeqInv. cbn [d_oid d_buf]. split; [exact Hw1|]. rewrite Hlast. split; [rewrite S3; exact Hc|].
    rewrite seq_chain_app, last_seq_app. cbn [seq_chain last_seq op_id opid_next o_seq o_cuid].
    rewrite <- Hl, Hc in *. repeat split; auto.
  Qed.

  Lemma dstep_seq c d e d' : RbInv d -> SeqInv c d -> dstep d e = Some d' -> SeqInv c d'.
  Proof.
    intros Hrb Hs. destruct e as [cl|tag cs fail|o|cp0]; cbn [dstep].
    - pose proof (local_call_seq c d cl Hs) as H. destruct (local_call d cl) as [d1 r]. cbn [fst snd] in H.
      destruct r; intros [= <-]; apply H; discriminate.
    - destruct fail.
      + pose proof (abort_seq c d tag cs Hrb Hs) as H. destruct (transaction d tag cs true) as [d1 rs].
        cbn [orb fst] in *. intros [= <-]. exact H.
      + pose proof (commit_seq c d tag cs Hs) as H. destruct (transaction d tag cs false) as [d1 rs].
        cbn [orb fst snd] in *. destruct (no_panic rs) eqn:E; intros [= <-]. apply H. apply no_panic_forall. exact E.
    - destruct (o_lam (op_id o) <? two64) eqn:El; intros [= <-].
      destruct Hs as [Hwf [Hc [Hch Hl]]]. unfold SeqInv. cbn [Datatype.remote_op d_oid d_buf].
      destruct (sync_seq (d_oid d) (o_lam (op_id o))) as [E1 E2].
      split; [apply wf_sync; [exact Hwf|apply N.ltb_lt; exact El]|]. rewrite E1, E2. auto.
    - intros [= <-]. exact Hs.
  Qed.

  (* C15: over every history (calls that fail, transactions that abort, remote operations in
     between) the operations a client queues are numbered 1, 2, 3, ... without gaps *)
  Theorem seq_gapless c es : forall d,
    drun (dt_create St call J k_init k_export c) es = Some d ->
    seq_chain c 0 (d_buf d) /\ o_seq (d_oid d) = last_seq 0 (d_buf d).
  Proof.
    assert (G : forall es d0 d, RbInv d0 -> SeqInv c d0 -> drun d0 es = Some d -> SeqInv c d).
    { clear es. induction es as [|e es IH]; intros d0 d Hr Hs; cbn [drun].
      - intros [= <-]. exact Hs.
      - destruct (dstep d0 e) as [d1|] eqn:E; [|discriminate].
        apply IH; [eapply dstep_inv; eauto|eapply dstep_seq; eauto]. }
    intros d Hrun.
    assert (Hs0 : SeqInv c (dt_create St call J k_init k_export c)).
    { unfold SeqInv, dt_create. cbn [d_oid d_buf].
      split; [apply wf_next; split; cbn; unfold two64; lia|]. split; [reflexivity|].
      split; [cbn [seq_chain op_id]; split; [reflexivity|split; [reflexivity|exact I]]|reflexivity]. }
    destruct (G es _ d (create_inv c) Hs0 Hrun) as [_ [_ [H1 H2]]]. auto.
  Qed.

  (* ----- the local clock dominates every applied operation ----- *)
  (* ghost: the operations the replica has applied, in order (own ones when issued,
     foreign ones when delivered; nothing for failed calls and aborted transactions) *)
  Definition newly (d d' : dty) : list op := skipn (length (d_buf d)) (d_buf d').
  Definition cost (e : devent) : N :=
    match e with DCall _ => 1 | DTxn _ cs _ => 1 + N.of_nat (length cs) | DRecv _ => 1 | DAck _ => 0 end.
  (* None: a call panicked, or a delivered operation carries this client's id or a lamport
     outside uint64, or the clock is within [cost e] of wrapping around 2^64 *)
  Definition gstep (c : str) (st : dty * list op) (e : devent) : option (dty * list op) :=
    let '(d, g) := st in
    if (o_lam (d_oid d) + cost e <? two64)
       && match e with DRecv o => negb (str_eqb (o_cuid (op_id o)) c) | _ => true end
    then match dstep d e with
         | Some d' => Some (d', g ++ match e with DRecv o => [o] | _ => newly d d' end)
         | None => None
         end
    else None.
  Fixpoint grun (c : str) (st : dty * list op) (es : list devent) : option (dty * list op) :=
    match es with
    | [] => Some st
    | e :: es' => match gstep c st e with Some st' => grun c st' es' | None => None end
    end.

  (* every own operation has a lamport greater than everything applied before it *)
  Fixpoint dom (c : str) (m : N) (l : list op) : Prop :=
    match l with
    | [] => True
    | o :: l' => (o_cuid (op_id o) = c -> m < o_lam (op_id o)) /\ dom c (N.max m (o_lam (op_id o))) l'
    end.
  Fixpoint maxlam (m : N) (l : list op) : N :=
    match l with [] => m | o :: l' => maxlam (N.max m (o_lam (op_id o))) l' end.
  Lemma dom_app c m l1 l2 : dom c m (l1 ++ l2) <-> dom c m l1 /\ dom c (maxlam m l1) l2.
  Proof. revert m; induction l1 as [|o l1 IH]; intros m; cbn; [tauto|]. rewrite IH. tauto. Qed.
  Lemma maxlam_app m l1 l2 : maxlam m (l1 ++ l2) = maxlam (maxlam m l1) l2.
  Proof. revert m; induction l1 as [|o l1 IH]; intros m; cbn; auto. Qed.

  Lemma chain_dom c l : forall i m, id_chain i l -> m <= o_lam i -> o_lam i + N.of_nat (length l) < two64 ->
    dom c m l /\ maxlam m l <= N.max m (o_lam (last_id i l)) /\ o_lam (last_id i l) = o_lam i + N.of_nat (length l).
  Proof.
    induction l as [|o l IH]; intros i m Hc Hm Hb; cbn [id_chain dom maxlam last_id length] in *.
    - repeat split; lia.
    - destruct Hc as [E Hc].
      assert (El : o_lam (op_id o) = o_lam i + 1).
      { rewrite E. cbn [opid_next o_lam]. apply N.mod_small. lia. }
      destruct (IH (op_id o) (N.max m (o_lam (op_id o))) Hc) as [I1 [I2 I3]]; try lia.
      repeat split; try lia. exact I1.
  Qed.

  Lemma tx_body_len cs : forall d, let '(d', ops, ents, rs) := tx_body d cs in (length ops <= length cs)%nat.
  Proof.
    induction cs as [|c cs IH]; intros d; cbn [Datatype.tx_body length]; [lia|].
    destruct (local_step d c) as [[d1 o] r]. specialize (IH d1).
    destruct (tx_body d1 cs) as [[[d2 ops] ents] rs]. destruct o; cbn [length]; lia.
  Qed.

  Definition ClockInv (d : dty) (g : list op) : Prop := maxlam 0 g <= o_lam (d_oid d).

  Lemma skipn_app_exact {A} (l1 l2 : list A) : skipn (length l1) (l1 ++ l2) = l2.
  Proof. induction l1; cbn; auto. Qed.

  Lemma gstep_clock c d g e d' g' :
    RbInv d -> ClockInv d g -> dom c 0 g -> gstep c (d, g) e = Some (d', g') ->
    ClockInv d' g' /\ dom c 0 g'.
  Proof.
    intros Hrb Hci Hdom. unfold gstep.
    destruct (o_lam (d_oid d) + cost e <? two64) eqn:Eb; [|discriminate]. apply N.ltb_lt in Eb.
    destruct Hrb as [Hwf Hrb0]. unfold ClockInv in *.
    destruct e as [cl|tag cs fail|o|cp0]; cbn [andb cost dstep] in *.
    - (* single call *)
      unfold Datatype.local_call. pose proof (local_step_spec d cl Hwf) as H.
      destruct (local_step d cl) as [[d1 o] r]. destruct H as [Hb [_ [_ [_ [_ [Hw H]]]]]].
      destruct o as [o|].
      + destruct H as [_ [Hid Ho]].
        assert (El : o_lam (opid_next (d_oid d)) = o_lam (d_oid d) + 1) by (cbn; apply N.mod_small; lia).
        destruct r; intros [= <- <-]; unfold newly; cbn [d_buf d_oid]; rewrite Hb, skipn_app_exact, Ho;
          rewrite maxlam_app, dom_app; cbn [maxlam dom]; rewrite Hid, El; (split; [lia|]); (split; [exact Hdom|]); (split; [intros _; lia|exact I]).
      + destruct r; intros [= <- <-]; destruct H as [_ H2]; unfold newly; rewrite Hb, skipn_all, app_nil_r, H2; auto.
    - destruct fail; cbn [orb].
      + pose proof (abort_restores d tag cs (conj Hwf Hrb0)) as H. destruct (transaction d tag cs true) as [d1 rs].
        cbn [fst] in H. destruct H as [_ [E2 [E3 _]]]. intros [= <- <-]. unfold newly. rewrite E3, skipn_all, app_nil_r, E2. auto.
      + unfold Datatype.transaction.
        set (d0 := mkDt (d_snap d) (opid_next (d_oid d)) (d_buf d) (d_cp d) (d_rb_snap d) (d_rb_oid d) (d_rb_ops d)).
        pose proof (tx_body_ids cs d0 (wf_next _ Hwf)) as Hids. pose proof (tx_body_len cs d0) as Hlen.
        destruct (tx_body d0 cs) as [[[d1 ops] ents] rs]. destruct (no_panic rs) eqn:Enp; [|discriminate].
        intros [= <- <-]. destruct (Hids (no_panic_forall _ Enp)) as [Hchain Hlast]. cbn [d0 d_oid] in *.
        unfold newly. cbn [d_buf d_oid]. rewrite skipn_app_exact.
        assert (Hch2 : id_chain (d_oid d) (OTx (opid_next (d_oid d)) tag (Z.of_nat (S (length ops))) :: ops)).
        { cbn [id_chain op_id]. split; [reflexivity|exact Hchain]. }
        destruct (chain_dom c _ (d_oid d) (maxlam 0 g) Hch2) as [C1 [C2 C3]]; [exact Hci| |].
        { cbn [length]. lia. }
        cbn [last_id op_id] in C2, C3. rewrite <- Hlast in C2, C3.
        change (Z.pos (Pos.of_succ_nat (length ops))) with (Z.of_nat (S (length ops))).
        rewrite maxlam_app, dom_app. split; [lia|]. split; [exact Hdom|exact C1].
    - destruct (str_eqb (o_cuid (op_id o)) c) eqn:Ec; cbn [negb]; [discriminate|].
      destruct (o_lam (op_id o) <? two64) eqn:El; [|discriminate]. intros [= <- <-].
      cbn [Datatype.remote_op d_oid]. rewrite maxlam_app, dom_app. cbn [maxlam dom]. split.
      + unfold opid_sync. destruct (N.ltb_spec (o_lam (d_oid d)) (o_lam (op_id o))); cbn [o_lam].
        * lia.
        * rewrite N.mod_small by lia. lia.
      + split; [exact Hdom|]. split; [|exact I]. intros E. rewrite E, str_eqb_refl' in Ec. discriminate.
    - intros [= <- <-]. unfold newly. cbn [set_checkpoint d_buf d_oid]. rewrite skipn_all, app_nil_r. auto.
  Qed.

  Lemma gstep_dstep c d g e d' g' : gstep c (d, g) e = Some (d', g') -> dstep d e = Some d'.
  Proof.
    unfold gstep. destruct (_ && _); [|discriminate]. destruct (dstep d e); [|discriminate]. intros [= <- _]. reflexivity.
  Qed.

  (* C15: every new local operation is ordered after every operation its replica has applied *)
  Theorem clock_dominates c es d g :
    grun c (dt_create St call J k_init k_export c, [OSnap (opid_next (opid_new c))]) es = Some (d, g) ->
    dom c 0 g /\ maxlam 0 g <= o_lam (d_oid d).
  Proof.
    assert (G : forall es d0 g0 d g, RbInv d0 -> ClockInv d0 g0 -> dom c 0 g0 ->
                grun c (d0, g0) es = Some (d, g) -> dom c 0 g /\ ClockInv d g).
    { clear es d g. induction es as [|e es IH]; intros d0 g0 d g Hr Hc Hd; cbn [grun].
      - intros [= <- <-]. auto.
      - destruct (gstep c (d0, g0) e) as [[d1 g1]|] eqn:E; [|discriminate].
        destruct (gstep_clock c d0 g0 e d1 g1 Hr Hc Hd E) as [Hc1 Hd1].
        apply IH; auto. eapply dstep_inv; [exact Hr|eapply gstep_dstep; exact E]. }
    intros H. apply (G es _ _ d g (create_inv c)) in H; [exact H| |].
    - unfold ClockInv, dt_create. cbn. lia.
    - cbn. split; [intros _; lia|exact I].
  Qed.
End Facts.
