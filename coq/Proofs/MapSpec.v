(* C02 for the map: after any executable sequence of operations a key holds the
   entry (value or tombstone) of the operation with the greatest timestamp. *)
From Coq Require Import List NArith ZArith Bool Lia Permutation.
From Orda.Model Require Import Base Time Ops Map.
From Orda.Proofs Require Import TimeFacts OrderFacts Permute MapFacts.
Import ListNotations.

(* what an operation writes on key k *)
Definition entry_on (k : str) (o : op) : option mentry :=
  match o with
  | OPut i k' v => if str_eqb k k' then Some (mkMentry (Some v) (opid_ts i)) else None
  | ORemove i k' => if str_eqb k k' then Some (mkMentry None (opid_ts i)) else None
  | _ => None
  end.

Definition kle (a b : tkey) : Prop := klt b a = false.
Lemma kle_refl a : kle a a. Proof. apply klt_irrefl. Qed.
Lemma kle_trans a b c : kle a b -> kle b c -> kle a c.
Proof.
  unfold kle. intros H1 H2. destruct (klt c a) eqn:E; [|reflexivity].
  destruct (klt b a) eqn:E1; [discriminate|]. destruct (klt c b) eqn:E2; [discriminate|].
  destruct (klt a b) eqn:E3.
  - pose proof (klt_trans _ _ _ E E3). congruence.
  - assert (a = b) by (apply klt_total; assumption). subst. congruence.
Qed.
Lemma klt_kle a b : klt a b = true -> kle a b.
Proof. intros H. apply klt_asym. exact H. Qed.

Definition ekey (e : mentry) : tkey := key_of (m_t e).

Lemma rmax_cases o n : ts_bounded (m_t o) -> ts_bounded (m_t n) ->
  (rmax o n = n /\ kle (ekey o) (ekey n)) \/ (rmax o n = o /\ kle (ekey n) (ekey o)).
Proof.
  intros Ho Hn. unfold rmax, kle, ekey. rewrite (ts_lt_klt _ _ Ho Hn).
  destruct (klt (key_of (m_t o)) (key_of (m_t n))) eqn:E; [left|right]; split; auto.
  apply klt_asym. exact E.
Qed.

Lemma reg_apply_entry k r o : is_snap o = false ->
  reg_apply k r o = match entry_on k o with
                    | None => r
                    | Some e => match r with
                                | Some old => Some (rmax old e)
                                | None => match m_v e with Some _ => Some e | None => None end
                                end
                    end.
Proof.
  intros Hs. destruct o; cbn; try reflexivity; try discriminate Hs; destruct (str_eqb k k0); try reflexivity; destruct r; reflexivity.
Qed.

(* the final entry is the greatest of the initial entry and everything written on k *)
Lemma reg_fold_max k : forall l r0,
  reg_bounded r0 -> (forall o, In o l -> op_bounded o) ->
  exec_ok _ _ (reg_apply k) (reg_ready k) r0 l ->
  match fold_left (reg_apply k) l r0 with
  | None => r0 = None /\ forall o, In o l -> entry_on k o = None
  | Some e =>
      (r0 = Some e \/ exists o, In o l /\ entry_on k o = Some e) /\
      (forall e0, r0 = Some e0 -> kle (ekey e0) (ekey e)) /\
      (forall o e', In o l -> entry_on k o = Some e' -> kle (ekey e') (ekey e))
  end.
Proof.
  induction l as [|o l IH]; intros r0 Hr Hl Hex; cbn [fold_left].
  - destruct r0 as [e|].
    + split; [left; reflexivity|]. split; [intros e0 [= ->]; apply kle_refl|intros ? ? []].
    + split; [reflexivity|intros ? []].
  - cbn [exec_ok] in Hex. destruct Hex as [Hrdy Hex].
    assert (Hob : op_bounded o) by (apply Hl; left; reflexivity).
    assert (Hr' : reg_bounded (reg_apply k r0 o)) by (apply reg_apply_bounded; assumption).
    specialize (IH (reg_apply k r0 o) Hr' (fun x Hx => Hl x (or_intror Hx)) Hex).
    assert (Heb : forall e, entry_on k o = Some e -> ts_bounded (m_t e)).
    { intros e He. destruct o; cbn in He; try discriminate; destruct (str_eqb k k0); try discriminate;
        injection He as <-; exact Hob. }
    pose proof (reg_ready_not_snap _ _ _ Hrdy) as Hns.
    rewrite (reg_apply_entry _ _ _ Hns) in IH. rewrite (reg_apply_entry _ _ _ Hns).
    destruct (entry_on k o) as [eo|] eqn:Eo.
    + specialize (Heb eo eq_refl).
      destruct r0 as [old|].
      * (* existing entry: rmax *)
        destruct (fold_left (reg_apply k) l (Some (rmax old eo))) as [e|] eqn:F.
        -- destruct IH as [Hsrc [Hge0 Hgel]].
           destruct (rmax_cases old eo Hr Heb) as [[Em Hle]|[Em Hle]]; rewrite Em in *.
           ++ split; [|split].
              ** destruct Hsrc as [[= <-]|[o' [Hin He]]]; right; [exists o; split; [left; reflexivity|exact Eo]|exists o'; split; [right; exact Hin|exact He]].
              ** intros e0 [= <-]. eapply kle_trans; [exact Hle|]. apply Hge0. reflexivity.
              ** intros o' e' [<-|Hin] He'; [rewrite Eo in He'; injection He' as <-; apply Hge0; reflexivity|eapply Hgel; eauto].
           ++ split; [|split].
              ** destruct Hsrc as [[= <-]|[o' [Hin He]]]; [left; reflexivity|right; exists o'; split; [right; exact Hin|exact He]].
              ** intros e0 [= <-]. apply Hge0. reflexivity.
              ** intros o' e' [<-|Hin] He'; [rewrite Eo in He'; injection He' as <-; eapply kle_trans; [exact Hle|apply Hge0; reflexivity]|eapply Hgel; eauto].
        -- destruct IH as [IH _]. discriminate.
      * (* absent key: a remove is not ready, a put creates the entry *)
        destruct (m_v eo) eqn:Ev.
        -- destruct (fold_left (reg_apply k) l (Some eo)) as [e|] eqn:F.
           ++ destruct IH as [Hsrc [Hge0 Hgel]]. split; [|split].
              ** right. destruct Hsrc as [[= <-]|[o' [Hin He]]]; [exists o; split; [left; reflexivity|exact Eo]|exists o'; split; [right; exact Hin|exact He]].
              ** intros e0 [=].
              ** intros o' e' [<-|Hin] He'; [rewrite Eo in He'; injection He' as <-; apply Hge0; reflexivity|eapply Hgel; eauto].
           ++ destruct IH as [IH _]. discriminate.
        -- exfalso. destruct Hrdy as [_ Hrdy].
           destruct o; cbn in Eo; try discriminate; destruct (str_eqb k k0) eqn:Ek; try discriminate;
             injection Eo as <-; cbn in Ev; try discriminate.
           apply str_eqb_eq in Ek. subst. apply Hrdy; reflexivity.
    + destruct (fold_left (reg_apply k) l r0) as [e|] eqn:F.
      * destruct IH as [Hsrc [Hge0 Hgel]]. split; [|split].
        -- destruct Hsrc as [H|[o' [Hin He]]]; [left; exact H|right; exists o'; split; [right; exact Hin|exact He]].
        -- exact Hge0.
        -- intros o' e' [<-|Hin] He'; [congruence|eapply Hgel; eauto].
      * destruct IH as [H0 Hn]. split; [exact H0|]. intros o' [<-|Hin]; [exact Eo|apply Hn; exact Hin].
Qed.

(* from the empty map: the key is absent iff nothing was written on it, otherwise it
   holds the entry of an operation of l that no other operation on k exceeds *)
Theorem map_key_outcome k l :
  (forall o, In o l -> op_bounded o) ->
  exec_ok _ _ (reg_apply k) (reg_ready k) None l ->
  match fold_left (reg_apply k) l None with
  | None => forall o, In o l -> entry_on k o = None
  | Some e => (exists o, In o l /\ entry_on k o = Some e) /\
              (forall o e', In o l -> entry_on k o = Some e' -> kle (ekey e') (ekey e))
  end.
Proof.
  intros Hb Hex. pose proof (reg_fold_max k l None I Hb Hex) as H.
  destruct (fold_left (reg_apply k) l None) as [e|].
  - destruct H as [[H|H] [_ H2]]; [discriminate|]. split; assumption.
  - destruct H as [_ H]. exact H.
Qed.
