(* Convergence of the LWW map: instantiate the abstract replicated system (Sys.v)
   with the per-key register projection of orda's map kernel. *)
From Coq Require Import List NArith ZArith Bool Lia Permutation.
From Orda.Model Require Import Base Time Ops Map.
From Orda.Proofs Require Import TimeFacts OrderFacts Permute Sys MapFacts.
Import ListNotations.

Definition m_oid (o : op) : tkey := key_of (op_ts o).

Section OneKey.
  Variable k : str.
  Variable author : op -> nat.
  Notation ak := (reg_apply k).
  Notation rk := (reg_ready k).

  (* dependency of an operation as a function of the set of applied operations:
     a remove of k needs some put of k *)
  Definition dk (l : list op) (o : op) : Prop :=
    op_bounded o /\ match o with ORemove _ k' => k' = k -> exists i v, In (OPut i k v) l | OSnap _ => False | _ => True end.

  Lemma dk_mono l l' o : incl l l' -> dk l o -> dk l' o.
  Proof.
    intros Hi [Hb H]. split; [exact Hb|]. destruct o; try exact I; try exact H.
    intros E. destruct (H E) as [i [v Hin]]. exists i, v. apply Hi. exact Hin.
  Qed.

  Lemma run_present l : no_snap l -> forall s,
    fold_left ak l s <> None <-> (s <> None \/ exists i v, In (OPut i k v) l).
  Proof.
    induction l as [|o l IH]; intros Hn s; cbn [fold_left].
    - split; [tauto|intros [H|[i [v []]]]; exact H].
    - inversion Hn as [|? ? Ho Hl]; subst. rewrite (IH Hl). split.
      + intros [H|[i [v H]]].
        * destruct o; cbn in H; try (left; exact H); try discriminate Ho.
          -- destruct (str_eqb k k0) eqn:E; [|left; exact H]. apply str_eqb_eq in E. subst.
             right. exists id, v. left; reflexivity.
          -- destruct (str_eqb k k0) eqn:E; [|left; exact H]. left. destruct s; [discriminate|cbn in H; congruence].
        * right. exists i, v. right; exact H.
      + intros [H|[i [v [H|H]]]].
        * left. apply reg_apply_keeps; [exact Ho|exact H].
        * left. subst o. cbn. rewrite str_eqb_refl. destruct s; cbn; discriminate.
        * right. exists i, v. exact H.
  Qed.

  Lemma rk_iff l o : exec_ok _ _ ak rk None l -> (rk (fold_left ak l None) o <-> dk l o).
  Proof.
    intros Hex. assert (Hn : no_snap l).
    { clear o. revert Hex. generalize (@None mentry). induction l as [|a l IH]; intros r Hex; [constructor|].
      destruct Hex as [Ha Hex]. constructor; [exact (reg_ready_not_snap _ _ _ Ha)|exact (IH _ Hex)]. }
    unfold reg_ready, dk. destruct o; try tauto.
    split; intros [Hb H]; (split; [exact Hb|]); intros E; specialize (H E).
    - apply (run_present _ Hn) in H. destruct H as [H|H]; [congruence|exact H].
    - apply (run_present _ Hn). right; exact H.
  Qed.

  Lemma good_step r a : reg_bounded r -> rk r a -> reg_bounded (ak r a).
  Proof. intros Hr [Ha _]. apply reg_apply_bounded; assumption. Qed.

  Theorem map_key_convergence (s : sys op) r1 r2 :
    reachable _ _ _ m_oid author ak rk None s ->
    Permutation (applied _ (reps _ s r1)) (applied _ (reps _ s r2)) ->
    fold_left ak (applied _ (reps _ s r1)) None = fold_left ak (applied _ (reps _ s r2)) None.
  Proof.
    intros Hr Hp.
    refine (convergence _ _ _ m_oid author ak rk None dk dk_mono reg_bounded I good_step _ _ (fun _ _ => True) (fun _ _ _ _ => I) _ s r1 r2 Hr Hp).
    3: { intros l o Hok. rewrite (rk_iff l o Hok). tauto. }
    - intros r a b _ _ Ha Hb. apply reg_ready_mono; assumption.
    - intros r a b Hg Hne Ha Hb. apply reg_comm; assumption.
  Qed.
End OneKey.

(* the whole map: lookups of the concrete state are the per-key registers *)
Lemma mget_fold l : forall s k, mget (fold_left m_exec_remote l s) k = fold_left (reg_apply k) l (mget s k).
Proof.
  induction l as [|o l IH]; intros s k; cbn [fold_left]; [reflexivity|].
  rewrite IH, mget_exec. reflexivity.
Qed.

(* ---------- Size = number of live keys ---------- *)
Definition live_count (s : mstate) : Z := Z.of_nat (length (m_live s)).
Definition m_wf (s : mstate) : Prop := NoDup (keys (m_map s)) /\ m_size s = live_count s.

Lemma m_live_cons kv m : m_live (mkMstate (kv :: m) 0) =
  (match m_v (snd kv) with Some v => [(fst kv, v)] | None => [] end) ++ m_live (mkMstate m 0).
Proof. reflexivity. Qed.

Definition lcn (m : list (str * mentry)) : nat :=
  length (flat_map (fun kv => match m_v (snd kv) with Some v => [(fst kv, v)] | None => [] end) m).
Definition lc (m : list (str * mentry)) : Z := Z.of_nat (lcn m).
Lemma live_count_lc s : live_count s = lc (m_map s).
Proof. reflexivity. Qed.
Definition lvn (e : option mentry) : nat := match e with Some (mkMentry (Some _) _) => 1 | _ => 0 end.
Definition lv (e : option mentry) : Z := Z.of_nat (lvn e).

Lemma lcn_cons k e m : lcn ((k, e) :: m) = (lvn (Some e) + lcn m)%nat.
Proof. unfold lcn. cbn [flat_map fst snd]. rewrite app_length. destruct e as [[v|] t]; reflexivity. Qed.

Lemma lcn_aset k e m : NoDup (keys m) ->
  (lcn (aset str_eqb k e m) + lvn (alookup str_eqb k m) = lcn m + lvn (Some e))%nat.
Proof.
  induction m as [|[k0 e0] m IH]; intros Hnd.
  - cbn [aset alookup]. rewrite lcn_cons. unfold lcn; cbn [flat_map length lvn]. lia.
  - inversion Hnd as [|? ? Hn Hd]; subst. cbn [aset alookup].
    destruct (str_eqb k k0) eqn:E.
    + rewrite !lcn_cons. lia.
    + rewrite !lcn_cons. specialize (IH Hd). lia.
Qed.

Lemma lc_aset k e m : NoDup (keys m) ->
  lc (aset str_eqb k e m) = (lc m - lv (alookup str_eqb k m) + lv (Some e))%Z.
Proof. intros H. unfold lc, lv. pose proof (lcn_aset k e m H). lia. Qed.

Lemma m_put_wf s k v t : m_wf s -> m_wf (fst (m_put s k v t)).
Proof.
  intros [Hnd Hs]. unfold m_put, mget. destruct (alookup str_eqb k (m_map s)) as [old|] eqn:E.
  - destruct (ts_lt (m_t old) t); cbn [fst]; [|split; assumption].
    split; cbn [m_map m_size]; [apply aset_nodup; exact Hnd|].
    rewrite live_count_lc; cbn [m_map]. rewrite lc_aset by exact Hnd. rewrite E, Hs, live_count_lc.
    destruct old as [[vo|] to]; cbn; lia.
  - cbn [fst]. split; cbn [m_map m_size]; [apply aset_nodup; exact Hnd|].
    rewrite live_count_lc; cbn [m_map]. rewrite lc_aset by exact Hnd. rewrite E, Hs, live_count_lc. cbn. lia.
Qed.

Lemma m_remove_remote_wf s k t : m_wf s -> m_wf (m_remove_remote s k t).
Proof.
  intros [Hnd Hs]. unfold m_remove_remote, mget. destruct (alookup str_eqb k (m_map s)) as [[v t0]|] eqn:E; [|split; assumption].
  destruct (ts_lt t0 t); [|split; assumption].
  split; cbn [m_map m_size]; [apply aset_nodup; exact Hnd|].
  rewrite live_count_lc; cbn [m_map]. rewrite lc_aset by exact Hnd. rewrite E, Hs, live_count_lc.
  destruct v; cbn; lia.
Qed.

Lemma m_exec_remote_wf s o : m_wf s -> m_wf (m_exec_remote s o).
Proof.
  destruct o; cbn; auto using m_put_wf, m_remove_remote_wf.
  intros _. split; [constructor|reflexivity].
Qed.

Lemma m_fold_wf l : forall s, m_wf s -> m_wf (fold_left m_exec_remote l s).
Proof. induction l as [|o l IH]; intros s H; cbn; [exact H|apply IH, m_exec_remote_wf, H]. Qed.

Lemma m_init_wf : m_wf m_init.
Proof. split; [constructor|reflexivity]. Qed.

(* two well-formed maps with the same lookups have the same entries up to order, hence the same size *)
Lemma same_lookup_perm (m1 m2 : list (str * mentry)) :
  NoDup (keys m1) -> NoDup (keys m2) ->
  (forall k, alookup str_eqb k m1 = alookup str_eqb k m2) -> Permutation m1 m2.
Proof.
  intros H1 H2 H. apply NoDup_Permutation.
  - clear -H1. induction m1 as [|[k e] m IH]; [constructor|]. inversion H1; subst. constructor; [|auto].
    intros Hin. apply H2. apply in_map_iff. exists (k, e). auto.
  - clear -H2. induction m2 as [|[k e] m IH]; [constructor|]. inversion H2; subst. constructor; [|auto].
    intros Hin. apply H1. apply in_map_iff. exists (k, e). auto.
  - intros [k e]. rewrite <- !(look_in k e) by assumption. rewrite H. tauto.
Qed.

Lemma lc_perm m1 m2 : Permutation m1 m2 -> lc m1 = lc m2.
Proof.
  unfold lc, lcn. intros H. f_equal. apply Permutation_length. apply Permutation_flat_map. exact H.
Qed.

Theorem same_lookup_same_size s1 s2 :
  m_wf s1 -> m_wf s2 -> (forall k, mget s1 k = mget s2 k) -> m_size s1 = m_size s2.
Proof.
  intros [N1 S1] [N2 S2] H. rewrite S1, S2, !live_count_lc. apply lc_perm. apply same_lookup_perm; assumption.
Qed.

(* ---------- the whole map as one replicated system ---------- *)
Definition m_ready (s : mstate) (o : op) : Prop :=
  op_bounded o /\ match o with ORemove _ k => mget s k <> None | OSnap _ => False | _ => True end.

Section WholeMap.
  Variable author : op -> nat.
  Notation reach_full := (reachable mstate op tkey m_oid author m_exec_remote m_ready m_init).
  Notation reach_k k := (reachable (option mentry) op tkey m_oid author (reg_apply k) (reg_ready k) None).

  Lemma ready_full_k k l o :
    m_ready (fold_left m_exec_remote l m_init) o -> reg_ready k (fold_left (reg_apply k) l None) o.
  Proof.
    intros [Hb H]. split; [exact Hb|]. destruct o; try exact I; try exact H.
    intros ->. change (@None mentry) with (mget m_init k). rewrite <- (mget_fold l m_init k). exact H.
  Qed.

  Lemma reach_full_k k s : reach_full s -> reach_k k s.
  Proof.
    induction 1 as [|s s' Hr IH Hs]; [constructor|].
    econstructor; [exact IH|].
    destruct Hs as [s r o Ha Hf Hrdy| | |].
    - apply Gen; auto. apply ready_full_k. exact Hrdy.
    - apply Push.
    - eapply DeliverOther; eauto.
    - eapply SkipOwn; eauto.
  Qed.

  Theorem map_convergence (s : sys op) r1 r2 :
    reach_full s ->
    Permutation (applied _ (reps _ s r1)) (applied _ (reps _ s r2)) ->
    let s1 := fold_left m_exec_remote (applied _ (reps _ s r1)) m_init in
    let s2 := fold_left m_exec_remote (applied _ (reps _ s r2)) m_init in
    (forall k, mget s1 k = mget s2 k) /\ m_size s1 = m_size s2.
  Proof.
    intros Hr Hp s1 s2.
    assert (Hk : forall k, mget s1 k = mget s2 k).
    { intros k. unfold s1, s2. rewrite !mget_fold. change (mget m_init k) with (@None mentry).
      apply (map_key_convergence k author s r1 r2); [apply reach_full_k; exact Hr|exact Hp]. }
    split; [exact Hk|].
    apply same_lookup_same_size; try exact Hk; apply m_fold_wf, m_init_wf.
  Qed.
End WholeMap.
