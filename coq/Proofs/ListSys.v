(* The RGA list plugged into the replicated system of Sys.v: N replicas, one server log, generate / push /
   deliver-foreign-in-log-order / skip-own in any interleaving.  ListConv.v shows that two executable orders of the
   same operations agree; here executability itself is derived: in every reachable state every replica's applied
   sequence is executable (causal delivery by log order provides the addressed elements, uniqueness of operation
   identifiers provides freshness), so replicas with the same applied operations hold the same list. *)
From Coq Require Import List ZArith Permutation Lia.
Import ListNotations.
From Orda.Model Require Import Base Time Ops List.
From Orda.Proofs Require Import TimeFacts OrderFacts Permute Sys ListFacts ListConv.

(* the element identifiers an operation creates *)
Definition newids (o : op) : list ts :=
  match o with OIns i _ vs => ids (mk_nodes (opid_ts i) 0 vs) | _ => [] end.
(* an element is available in a set of operations: one of them created it *)
Definition avail (l : list op) (tg : ts) : Prop := exists o, In o l /\ In tg (newids o).

(* dependency satisfaction as a function of the SET of applied operations (monotone) *)
Definition l_dsat (l : list op) (o : op) : Prop :=
  match o with
  | OIns i tg vs => ts_bounded (opid_ts i) /\ (ts_eqb tg oldest_ts = true \/ avail l tg)
  | ODel i tgs => ts_bounded (opid_ts i) /\ NoDup tgs /\ (forall tg, In tg tgs -> avail l tg)
  | OUpd i tgs vs => ts_bounded (opid_ts i) /\ NoDup tgs /\ (forall tg, In tg tgs -> avail l tg)
  | OSnap _ => False
  | _ => True
  end.
(* freshness: the operation's timestamp is new to the replica (not monotone; follows from identifier uniqueness) *)
Definition l_fr (l : list op) (o : op) : Prop :=
  match o with
  | OIns _ _ _ | ODel _ _ | OUpd _ _ _ => ~ In (loid o) (nkeys (fold_left nexec l []))
  | _ => True
  end.

Lemma avail_cons o l tg : avail (o :: l) tg <-> In tg (newids o) \/ avail l tg.
Proof.
  unfold avail. split.
  - intros [x [[<-|Hx] Ht]]; [left; exact Ht|right; exists x; tauto].
  - intros [Ht|[x [Hx Ht]]]; [exists o; cbn; tauto|exists x; cbn; tauto].
Qed.

Lemma avail_mono l l' tg : incl l l' -> avail l tg -> avail l' tg.
Proof. intros Hi [x [Hx Ht]]. exists x. split; [apply Hi; exact Hx|exact Ht]. Qed.

Lemma l_dsat_mono l l' o : incl l l' -> l_dsat l o -> l_dsat l' o.
Proof.
  intros Hi. destruct o as [i|i tag n|i d|i k v|i k|i target vs|i targets|i targets vs|i p k v|i p k|i p target vs|i p targets|i p targets vs]; cbn [l_dsat]; try tauto.
  - intros [Hb [Ho|Ha]]; (split; [exact Hb|]); [left; exact Ho|right; eapply avail_mono; eauto].
  - intros [Hb [Hn Ha]]. split; [exact Hb|]. split; [exact Hn|]. intros tg Ht. eapply avail_mono; eauto.
  - intros [Hb [Hn Ha]]. split; [exact Hb|]. split; [exact Hn|]. intros tg Ht. eapply avail_mono; eauto.
Qed.

(* one executable step: the identifiers afterwards are the old ones and the created ones *)
Lemma ids_step s o : lgood s -> lready s o -> forall tg, In tg (ids (nexec s o)) <-> In tg (ids s) \/ In tg (newids o).
Proof.
  intros Hg Hr tg. rewrite (nexec_aexec s o Hg Hr). pose proof (lready_aready s o Hr) as Ha.
  destruct o as [i|i tag n|i d|i k v|i k|i target vs|i targets|i targets vs|i p k v|i p k|i p target vs|i p targets|i p targets vs]; cbn [act_of aexec newids lready aready] in *; try (cbn [In]; tauto).
  - destruct Ha as [_ [Ht _]]. unfold ids at 1.
    assert (P : Permutation (map n_o (pl s target (fun r => blk r (key_of (opid_ts i)) (mk_nodes (opid_ts i) 0 vs))))
                            (map n_o (mk_nodes (opid_ts i) 0 vs ++ s))) by (apply Permutation_map, ins_perm; exact Ht).
    rewrite map_app in P. split.
    + intros H. apply (Permutation_in _ P), in_app_or in H. unfold ids. tauto.
    + intros H. apply (Permutation_in _ (Permutation_sym P)), in_or_app. unfold ids in H. tauto.
  - rewrite ids_cmap. cbn [In]. tauto.
  - rewrite ids_cmap. cbn [In]. tauto.
Qed.

Lemma ids_run l : forall s, lgood s -> exec_ok (list node) op nexec lready s l ->
  forall tg, In tg (ids (fold_left nexec l s)) <-> In tg (ids s) \/ avail l tg.
Proof.
  induction l as [|o l IH]; intros s Hg Hx tg; cbn [fold_left exec_ok] in *.
  - split; [tauto|]. intros [H|[x [[] _]]]. exact H.
  - destruct Hx as [Hr Hx]. rewrite (IH _ (lgood_step s o Hg Hr) Hx tg), (ids_step s o Hg Hr tg), avail_cons. tauto.
Qed.

Lemma keys_run l : forall s, lgood s -> exec_ok (list node) op nexec lready s l ->
  forall k, In k (nkeys (fold_left nexec l s)) -> In k (nkeys s) \/ In k (map loid l).
Proof.
  induction l as [|o l IH]; intros s Hg Hx k Hk; cbn [fold_left exec_ok map] in *; [left; exact Hk|].
  destruct Hx as [Hr Hx]. destruct (IH _ (lgood_step s o Hg Hr) Hx k Hk) as [H|H]; [|right; right; exact H].
  rewrite (nexec_aexec s o Hg Hr) in H. destruct (aexec_keys s _ k (lready_aready s o Hr) H) as [H'|H']; [left; exact H'|].
  right. left. symmetry. apply akey_act. exact H'.
Qed.

Definition lsgood (s : lstate) : Prop := lgood (l_nodes s) /\ lsized s.

Lemma lsgood_init : lsgood l_init.
Proof. split; [exact lgood_nil|reflexivity]. Qed.

Lemma lsgood_step s a : lsgood s -> l_ready s a -> lsgood (l_exec_remote s a).
Proof.
  intros [Hg Hs] Hr. split; [rewrite nodes_exec; apply lgood_step; assumption|apply lsized_step; assumption].
Qed.

Lemma l_ready_mono s a b : lsgood s -> loid a <> loid b -> l_ready s a -> l_ready s b -> l_ready (l_exec_remote s a) b.
Proof. intros [Hg _] Hab Ha Hb. unfold l_ready. rewrite nodes_exec. apply lready_mono; assumption. Qed.

Lemma l_exec_comm s a b : lsgood s -> loid a <> loid b -> l_ready s a -> l_ready s b ->
  l_exec_remote (l_exec_remote s a) b = l_exec_remote (l_exec_remote s b) a.
Proof.
  intros Hg Hab Ha Hb.
  assert (Hba : loid b <> loid a) by (intros E; apply Hab; symmetry; exact E).
  pose proof (lsgood_step _ _ (lsgood_step s a Hg Ha) (l_ready_mono s a b Hg Hab Ha Hb)) as [_ S1].
  pose proof (lsgood_step _ _ (lsgood_step s b Hg Hb) (l_ready_mono s b a Hg Hba Hb Ha)) as [_ S2].
  assert (E : l_nodes (l_exec_remote (l_exec_remote s a) b) = l_nodes (l_exec_remote (l_exec_remote s b) a)).
  { rewrite !nodes_exec. destruct Hg as [Hg _]. apply nexec_comm; assumption. }
  unfold lsized in S1, S2. rewrite E in S1.
  destruct (l_exec_remote (l_exec_remote s a) b) as [n1 z1], (l_exec_remote (l_exec_remote s b) a) as [n2 z2].
  cbn [l_nodes l_size] in *. subst. reflexivity.
Qed.

Lemma l_ready_iff l o : exec_ok lstate op l_exec_remote l_ready l_init l ->
  (l_ready (fold_left l_exec_remote l l_init) o <-> l_dsat l o /\ l_fr l o).
Proof.
  intros Hx. apply exec_ok_nodes in Hx. change (l_nodes l_init) with (@nil node) in Hx.
  unfold l_ready. rewrite nodes_fold. change (l_nodes l_init) with (@nil node).
  pose proof (ids_run l [] lgood_nil Hx) as Hi.
  assert (Hi' : forall tg, In tg (ids (fold_left nexec l [])) <-> avail l tg).
  { intros tg. rewrite Hi. cbn [ids map In]. tauto. }
  destruct o as [i|i tag n|i d|i k v|i k|i target vs|i targets|i targets vs|i p k v|i p k|i p target vs|i p targets|i p targets vs]; cbn [lready l_dsat l_fr]; try tauto.
  - rewrite Hi'. tauto.
  - unfold incl. split.
    + intros [Hb [Hf [Hn Hin]]]. split; [|exact Hf]. split; [exact Hb|]. split; [exact Hn|]. intros tg Ht. apply Hi', Hin, Ht.
    + intros [[Hb [Hn Ha]] Hf]. split; [exact Hb|]. split; [exact Hf|]. split; [exact Hn|]. intros tg Ht. apply Hi', Ha, Ht.
  - unfold incl. split.
    + intros [Hb [Hf [Hn Hin]]]. split; [|exact Hf]. split; [exact Hb|]. split; [exact Hn|]. intros tg Ht. apply Hi', Hin, Ht.
    + intros [[Hb [Hn Ha]] Hf]. split; [exact Hb|]. split; [exact Hf|]. split; [exact Hn|]. intros tg Ht. apply Hi', Ha, Ht.
Qed.

Lemma l_fr_new l o : exec_ok lstate op l_exec_remote l_ready l_init l -> ~ In (loid o) (map loid l) -> l_fr l o.
Proof.
  intros Hx Hn. apply exec_ok_nodes in Hx. change (l_nodes l_init) with (@nil node) in Hx.
  assert (F : ~ In (loid o) (nkeys (fold_left nexec l []))).
  { intros H. destruct (keys_run l [] lgood_nil Hx _ H) as [[]|H']. exact (Hn H'). }
  destruct o as [i|i tag n|i d|i k v|i k|i target vs|i targets|i targets vs|i p k v|i p k|i p target vs|i p targets|i p targets vs]; cbn [l_fr]; try exact I; exact F.
Qed.

(* C01 for List at system level: in every reachable state of the replicated system, two replicas that have applied the
   same operations hold the same list state (nodes with tombstones and timestamps, hence values, and the size counter) *)
Theorem list_sys_convergence (author : op -> nat) (s : sys op) r1 r2 :
  reachable lstate op tkey loid author l_exec_remote l_ready l_init s ->
  Permutation (applied _ (reps _ s r1)) (applied _ (reps _ s r2)) ->
  fold_left l_exec_remote (applied _ (reps _ s r1)) l_init = fold_left l_exec_remote (applied _ (reps _ s r2)) l_init.
Proof.
  intros Hr Hp.
  exact (convergence lstate op tkey loid author l_exec_remote l_ready l_init l_dsat l_dsat_mono lsgood lsgood_init lsgood_step
           l_ready_mono l_exec_comm l_fr l_fr_new l_ready_iff s r1 r2 Hr Hp).
Qed.

(* ... and every replica's applied sequence is executable there: the premise of ListConv's theorems is not an assumption
   about delivery but a consequence of the protocol (log order) and of identifier uniqueness *)
Theorem list_sys_executable (author : op -> nat) (s : sys op) r :
  reachable lstate op tkey loid author l_exec_remote l_ready l_init s ->
  exec_ok lstate op l_exec_remote l_ready l_init (applied _ (reps _ s r)) /\ NoDup (map loid (applied _ (reps _ s r))).
Proof.
  intros Hr.
  pose proof (inv_reachable lstate op tkey loid author l_exec_remote l_ready l_init l_dsat l_dsat_mono
           l_fr l_fr_new l_ready_iff s Hr) as [Iok Ind _ Iinj _ _ _ _ _].
  split; [apply Iok|].
  apply nodup_map_inj; [apply Ind|]. intros x y Hx Hy E. apply Iinj; auto; right; exists r; tauto.
Qed.
(* C04/C15 at system level: in every reachable state, on every replica, element identifiers are distinct (no element is
   duplicated), all timestamps are in the comparison's plain range, and the size counter is the number of live elements *)
Theorem list_sys_no_duplicates (author : op -> nat) (s : sys op) r :
  reachable lstate op tkey loid author l_exec_remote l_ready l_init s ->
  let st := fold_left l_exec_remote (applied _ (reps _ s r)) l_init in
  NoDup (ids (l_nodes st)) /\ l_size st = Z.of_nat (length (l_values st)).
Proof.
  intros Hr st. destruct (list_sys_executable author s r Hr) as [Hx _].
  destruct (exec_ok_invariants _ l_init lgood_nil eq_refl Hx) as [[G _] [S _]]. split; [exact G|exact S].
Qed.

(* two replicas, whatever each has applied so far: once both have caught up with the same operations (a later reachable
   state s' in which their applied sets coincide) they hold one sequence F of distinct elements, and what each held at s
   is a subsequence of what it holds at s' — provided its applied sequence only grew *)
Theorem list_sys_order (author : op -> nat) (s' : sys op) r1 r2 l1 e1 l2 e2 :
  reachable lstate op tkey loid author l_exec_remote l_ready l_init s' ->
  applied _ (reps _ s' r1) = l1 ++ e1 -> applied _ (reps _ s' r2) = l2 ++ e2 ->
  Permutation (l1 ++ e1) (l2 ++ e2) ->
  exists F, NoDup F /\
    sublist (ids (l_nodes (fold_left l_exec_remote l1 l_init))) F /\
    sublist (ids (l_nodes (fold_left l_exec_remote l2 l_init))) F.
Proof.
  intros Hr E1 E2 Hp.
  destruct (list_sys_executable author s' r1 Hr) as [X1 N1]. destruct (list_sys_executable author s' r2 Hr) as [X2 _].
  rewrite E1 in X1, N1. rewrite E2 in X2. exact (list_order_consistent l1 e1 l2 e2 N1 Hp X1 X2).
Qed.
Print Assumptions list_sys_convergence.
Print Assumptions list_sys_executable.
Print Assumptions list_sys_no_duplicates.
Print Assumptions list_sys_order.
