(* C08, the recovery half: a store that failed commands have littered with operation documents beyond the recorded ends
   of its logs behaves, for every later request, exactly as the store without them; and a request during which a
   command fails either changes nothing of the acknowledged store or is served as if there was no fault.  Hence a history
   with storage faults anywhere is, to every client, the fault-free history of the requests that got a regular answer. *)
From Coq Require Import List NArith ZArith Bool Lia.
From Orda.Model Require Import Base Time Ops Server.
From Orda.Proofs Require Import TimeFacts MapFacts ServerFacts FaultFacts.
Import ListNotations.
Open Scope N_scope.

(* ---------- the acknowledged part of a store ---------- *)
Definition clean (db : sdb) : sdb :=
  mkSdb (s_cols db) (s_colctr db) (s_clients db) (s_dts db) (filter (within_log db) (s_ops db)).
Definition PosInv (db : sdb) : Prop := Forall (fun o => 0 < od_sseq o) (s_ops db).
(* the invariant that survives faults: the acknowledged part is a consistent store *)
Definition WInv (db : sdb) : Prop := LogInv (clean db) /\ PosInv db.

Lemma within_dts db1 db2 o : s_dts db1 = s_dts db2 -> within_log db1 o = within_log db2 o.
Proof. intros E. unfold within_log, find_dt. rewrite E. reflexivity. Qed.

Lemma filter_ext_in' {A} (f g : A -> bool) l : (forall x, In x l -> f x = g x) -> filter f l = filter g l.
Proof.
  induction l as [|x l IH]; intros H; cbn; [reflexivity|]. rewrite (H x (or_introl eq_refl)).
  rewrite IH; [reflexivity|]. intros y Hy. apply H. right. exact Hy.
Qed.
Lemma filter_all {A} (f : A -> bool) l : (forall x, In x l -> f x = true) -> filter f l = l.
Proof.
  induction l as [|x l IH]; intros H; cbn; [reflexivity|]. rewrite (H x (or_introl eq_refl)). f_equal.
  apply IH. intros y Hy. apply H. right. exact Hy.
Qed.
Lemma filter_none {A} (f : A -> bool) l : (forall x, In x l -> f x = false) -> filter f l = [].
Proof.
  induction l as [|x l IH]; intros H; cbn; [reflexivity|]. rewrite (H x (or_introl eq_refl)).
  apply IH. intros y Hy. apply H. right. exact Hy.
Qed.

Lemma clean_idem db : clean (clean db) = clean db.
Proof.
  unfold clean. cbn [s_cols s_colctr s_clients s_dts s_ops]. f_equal.
  rewrite filter_filter. apply filter_ext_in'. intros o _.
  rewrite (within_dts (mkSdb (s_cols db) (s_colctr db) (s_clients db) (s_dts db) (filter (within_log db) (s_ops db))) db o eq_refl).
  destruct (within_log db o); reflexivity.
Qed.

Lemma find_dt_in db d : NoDup (map dd_duid (s_dts db)) -> In d (s_dts db) -> find_dt db (dd_duid d) = Some d.
Proof.
  unfold find_dt. intros Hnd Hin. induction (s_dts db) as [|x l IH]; [destruct Hin|]. cbn [find map] in *.
  inversion Hnd as [|? ? Hn Hd]; subst. destruct Hin as [->|Hin].
  - rewrite str_eqb_refl. reflexivity.
  - destruct (str_eqb (dd_duid x) (dd_duid d)) eqn:E; [|apply IH; assumption].
    apply str_eqb_eq in E. exfalso. apply Hn. rewrite E. apply in_map. exact Hin.
Qed.

(* a consistent store has nothing beyond its logs *)
Lemma loginv_clean db : LogInv db -> clean db = db.
Proof.
  intros [Hnd Hdt Horph Hkey]. unfold clean. destruct db as [a b c dts ops]. cbn [s_cols s_colctr s_clients s_dts s_ops] in *.
  f_equal. apply filter_all. intros o Ho. destruct (Horph o Ho) as [d [Hd Hdu]].
  unfold within_log. rewrite <- Hdu. rewrite (find_dt_in (mkSdb a b c dts ops) d Hnd Hd).
  pose proof (di_sseq _ _ (Hdt d Hd)) as Hs.
  assert (Hin : In (od_sseq o) (map od_sseq (ops_of ops (dd_duid d)))).
  { apply in_map. unfold ops_of. apply filter_In. split; [exact Ho|]. rewrite Hdu. apply str_eqb_refl. }
  rewrite Hs in Hin. apply nseq_in in Hin. apply N.leb_le. lia.
Qed.
Lemma loginv_winv db : LogInv db -> WInv db.
Proof.
  intros H. split; [rewrite (loginv_clean db H); exact H|].
  destruct H as [Hnd Hdt Horph Hkey]. apply Forall_forall. intros o Ho. destruct (Horph o Ho) as [d [Hd Hdu]].
  pose proof (di_sseq _ _ (Hdt d Hd)) as Hs.
  assert (Hin : In (od_sseq o) (map od_sseq (ops_of (s_ops db) (dd_duid d)))).
  { apply in_map. unfold ops_of. apply filter_In. split; [exact Ho|]. rewrite Hdu. apply str_eqb_refl. }
  rewrite Hs in Hin. apply nseq_in in Hin. lia.
Qed.

(* ---------- the sorted read commutes with selections ---------- *)
Fixpoint NonDec (l : list odoc) : Prop :=
  match l with [] => True | x :: r => Forall (fun y => od_sseq x <= od_sseq y) r /\ NonDec r end.
Definition isort (l acc : list odoc) : list odoc := fold_left (fun acc o => ins_by_sseq o acc) l acc.

Lemma ins_in o l y : In y (ins_by_sseq o l) <-> y = o \/ In y l.
Proof.
  induction l as [|x l IH]; cbn; [intuition|]. destruct (od_sseq o <? od_sseq x); cbn; [intuition|]. rewrite IH. intuition.
Qed.
Lemma ins_nondec o l : NonDec l -> NonDec (ins_by_sseq o l).
Proof.
  induction l as [|x l IH]; intros H; cbn; [split; [constructor|exact I]|]. destruct H as [H1 H2].
  destruct (N.ltb_spec (od_sseq o) (od_sseq x)) as [L|L].
  - split; [|split; assumption]. constructor; [lia|]. eapply Forall_impl; [|exact H1]. cbn. intros; lia.
  - split; [|apply IH; exact H2]. apply Forall_forall. intros y Hy. apply ins_in in Hy. destruct Hy as [->|Hy]; [exact L|].
    rewrite Forall_forall in H1. apply H1. exact Hy.
Qed.
Lemma ins_head o l : Forall (fun y => od_sseq o < od_sseq y) l -> ins_by_sseq o l = o :: l.
Proof. destruct l as [|x l]; intros H; cbn; [reflexivity|]. apply Forall_inv in H. apply N.ltb_lt in H. rewrite H. reflexivity. Qed.
Lemma ins_filter p o l : NonDec l ->
  filter p (ins_by_sseq o l) = if p o then ins_by_sseq o (filter p l) else filter p l.
Proof.
  induction l as [|x l IH]; intros H; [cbn; destruct (p o); reflexivity|]. destruct H as [H1 H2]. cbn [ins_by_sseq].
  destruct (N.ltb_spec (od_sseq o) (od_sseq x)) as [L|L].
  - cbn [filter]. destruct (p o) eqn:Epo; [|reflexivity]. symmetry. fold (filter p (x :: l)). change (if p x then x :: filter p l else filter p l) with (filter p (x :: l)).
    apply ins_head. apply Forall_forall. intros y Hy. apply filter_In in Hy. destruct Hy as [Hy _]. destruct Hy as [<-|Hy]; [exact L|].
    rewrite Forall_forall in H1. specialize (H1 y Hy). lia.
  - cbn [filter]. rewrite (IH H2). destruct (p x) eqn:Epx, (p o) eqn:Epo; try reflexivity.
    cbn [ins_by_sseq]. destruct (N.ltb_spec (od_sseq o) (od_sseq x)); [lia|reflexivity].
Qed.
Lemma filter_nondec p l : NonDec l -> NonDec (filter p l).
Proof.
  induction l as [|x l IH]; intros H; cbn; [exact I|]. destruct H as [H1 H2]. destruct (p x); [|apply IH; exact H2].
  split; [|apply IH; exact H2]. apply Forall_forall. intros y Hy. apply filter_In in Hy. rewrite Forall_forall in H1. apply H1, Hy.
Qed.
Lemma isort_filter p l : forall acc, NonDec acc -> filter p (isort l acc) = isort (filter p l) (filter p acc).
Proof.
  unfold isort. induction l as [|o l IH]; intros acc H; cbn [fold_left filter]; [reflexivity|].
  rewrite (IH _ (ins_nondec o acc H)), (ins_filter p o acc H). destruct (p o); reflexivity.
Qed.

(* ---------- the datatype documents after the commit ---------- *)
Lemma find_upsert_same l d1 : find (fun d => str_eqb (dd_duid d) (dd_duid d1)) (upsert_dt l d1) = Some d1.
Proof.
  induction l as [|x l IH]; cbn; [rewrite str_eqb_refl; reflexivity|].
  destruct (str_eqb (dd_duid x) (dd_duid d1)) eqn:E; cbn; [rewrite str_eqb_refl; reflexivity|]. rewrite E. exact IH.
Qed.
Lemma find_upsert_other l d1 D' : D' <> dd_duid d1 ->
  find (fun d => str_eqb (dd_duid d) D') (upsert_dt l d1) = find (fun d => str_eqb (dd_duid d) D') l.
Proof.
  intros Hne. assert (N1 : str_eqb (dd_duid d1) D' = false).
  { destruct (str_eqb (dd_duid d1) D') eqn:E; [|reflexivity]. apply str_eqb_eq in E. congruence. }
  induction l as [|x l IH]; cbn; [rewrite N1; reflexivity|].
  destruct (str_eqb (dd_duid x) (dd_duid d1)) eqn:E; cbn.
  - apply str_eqb_eq in E. rewrite E, N1. reflexivity.
  - destruct (str_eqb (dd_duid x) D'); [reflexivity|exact IH].
Qed.

(* ---------- one datatype, its recorded end e, and the store around it ---------- *)
Section OneLog.
  Variables (db : sdb) (D : str) (e : N).
  Hypothesis Hpos : PosInv db.
  (* on this datatype's documents, being acknowledged means lying at or below e *)
  Hypothesis HwD : forall o, od_duid o = D -> 0 < od_sseq o -> within_log db o = (od_sseq o <=? e).

  Lemma pos_in o : In o (s_ops db) -> 0 < od_sseq o.
  Proof. intros Ho. unfold PosInv in Hpos. rewrite Forall_forall in Hpos. apply Hpos, Ho. Qed.

  (* documents beyond the end of the log are never handed out: the pull reads the acknowledged store *)
  Lemma pulled_clean from :
    filter (fun o => od_sseq o <=? e) (get_ops db D from) = get_ops (clean db) D from.
  Proof.
    unfold get_ops. fold (isort (filter (fun o => str_eqb (od_duid o) D && (from <=? od_sseq o)) (s_ops db)) []).
    rewrite isort_filter by exact I. cbn [filter]. unfold isort. f_equal.
    unfold clean. cbn [s_ops]. rewrite !filter_filter. apply filter_ext_in'. intros o Ho.
    destruct (str_eqb (od_duid o) D) eqn:Ed; cbn [andb]; [|rewrite andb_false_r; reflexivity].
    apply str_eqb_eq in Ed. rewrite (HwD o Ed (pos_in o Ho)). apply andb_comm.
  Qed.

  Lemma purge_ops_of : ops_of (purge_after (s_ops db) D e) D = ops_of (filter (within_log db) (s_ops db)) D.
  Proof.
    unfold ops_of, purge_after. rewrite !filter_filter. apply filter_ext_in'. intros o Ho.
    destruct (str_eqb (od_duid o) D) eqn:Ed; cbn [andb negb]; [|rewrite !andb_false_r; reflexivity].
    apply str_eqb_eq in Ed. rewrite (HwD o Ed (pos_in o Ho)), !andb_true_r.
    destruct (N.ltb_spec e (od_sseq o)), (N.leb_spec (od_sseq o) e); try reflexivity; lia.
  Qed.

  Lemma purge_clean : filter (within_log db) (purge_after (s_ops db) D e) = filter (within_log db) (s_ops db).
  Proof.
    unfold purge_after. rewrite filter_filter. apply filter_ext_in'. intros o Ho.
    destruct (str_eqb (od_duid o) D) eqn:Ed; cbn [andb negb]; [|reflexivity].
    apply str_eqb_eq in Ed. rewrite (HwD o Ed (pos_in o Ho)).
    destruct (N.ltb_spec e (od_sseq o)), (N.leb_spec (od_sseq o) e); try reflexivity; lia.
  Qed.

  Lemma new_beyond new : Forall (fun o => od_duid o = D) new -> map od_sseq new = nseq (e + 1) (length new) ->
    filter (within_log db) new = [].
  Proof.
    intros Hd Hn. apply filter_none. intros o Ho. rewrite Forall_forall in Hd.
    assert (Hin : In (od_sseq o) (map od_sseq new)) by (apply in_map; exact Ho). rewrite Hn in Hin. apply nseq_in in Hin.
    rewrite (HwD o (Hd o Ho)) by lia. apply N.leb_gt. lia.
  Qed.

  Lemma new_pos new : map od_sseq new = nseq (e + 1) (length new) -> Forall (fun o => 0 < od_sseq o) new.
  Proof.
    intros Hn. apply Forall_forall. intros o Ho.
    assert (Hin : In (od_sseq o) (map od_sseq new)) by (apply in_map; exact Ho). rewrite Hn in Hin. apply nseq_in in Hin. lia.
  Qed.

  (* the store after a commit that moved the end to e + |new| *)
  Variables (d1 : ddoc) (new : list odoc).
  Hypothesis Hd1 : dd_duid d1 = D.
  Hypothesis He1 : dd_end d1 = e + N.of_nat (length new).
  Hypothesis Hnd : Forall (fun o => od_duid o = D) new.
  Hypothesis Hns : map od_sseq new = nseq (e + 1) (length new).

  Definition after (ops : list odoc) : sdb := mkSdb (s_cols db) (s_colctr db) (s_clients db) (upsert_dt (s_dts db) d1) ops.

  Lemma within_after_same ops o : od_duid o = D -> within_log (after ops) o = (od_sseq o <=? e + N.of_nat (length new)).
  Proof.
    intros Ed. unfold within_log, find_dt, after. cbn [s_dts]. rewrite Ed, <- Hd1, find_upsert_same, He1. reflexivity.
  Qed.
  Lemma within_after_other ops o : od_duid o <> D -> within_log (after ops) o = within_log db o.
  Proof.
    intros Ed. unfold within_log, find_dt, after. cbn [s_dts]. rewrite find_upsert_other by (rewrite Hd1; exact Ed). reflexivity.
  Qed.

  Lemma clean_after_purged :
    filter (within_log (after (purge_after (s_ops db) D e ++ new))) (purge_after (s_ops db) D e ++ new)
    = filter (within_log db) (s_ops db) ++ new.
  Proof.
    rewrite filter_app'. f_equal.
    - unfold purge_after. rewrite filter_filter. apply filter_ext_in'. intros o Ho.
      destruct (str_eqb (od_duid o) D) eqn:Ed; cbn [andb negb].
      + apply str_eqb_eq in Ed. rewrite (within_after_same _ o Ed), (HwD o Ed (pos_in o Ho)).
        destruct (N.ltb_spec e (od_sseq o)), (N.leb_spec (od_sseq o) e), (N.leb_spec (od_sseq o) (e + N.of_nat (length new))); try reflexivity; lia.
      + apply within_after_other. intros E. rewrite E, str_eqb_refl in Ed. discriminate.
    - apply filter_all. intros o Ho. rewrite Forall_forall in Hnd. rewrite (within_after_same _ o (Hnd o Ho)).
      assert (Hin : In (od_sseq o) (map od_sseq new)) by (apply in_map; exact Ho). rewrite Hns in Hin. apply nseq_in in Hin.
      apply N.leb_le. lia.
  Qed.

  Lemma clean_after_kept : new = [] ->
    filter (within_log (after (s_ops db))) (s_ops db) = filter (within_log db) (s_ops db).
  Proof.
    intros Hl. apply filter_ext_in'. intros o Ho.
    destruct (str_eqb (od_duid o) D) eqn:Ed.
    - apply str_eqb_eq in Ed. rewrite (within_after_same _ o Ed), (HwD o Ed (pos_in o Ho)), Hl. cbn [length N.of_nat]. rewrite N.add_0_r. reflexivity.
    - apply within_after_other. intros E. rewrite E, str_eqb_refl in Ed. discriminate.
  Qed.
End OneLog.

(* ---------- one pack, served with or without a failing command, from a littered store ---------- *)
Definition erased (f : option fpoint) (db : sdb) (out out0 : sdb * ppp * list publish) : Prop :=
  let '(db', resp, pubs) := out in
  WInv db' /\ same_tables db db' /\
  ((f <> None /\ p_err resp <> None /\ pubs = [] /\ clean db' = clean db) \/
   out0 = (clean db', resp, pubs)).

Lemma forall_filter {A} (P : A -> Prop) p l : Forall P l -> Forall P (filter p l).
Proof. intros H. apply Forall_forall. intros x Hx. apply filter_In in Hx. rewrite Forall_forall in H. apply H, Hx. Qed.

Lemma erased_intro f db colname col cuid out0 db' resp pubs :
  LogInv (clean db) -> pack_post (clean db) colname col cuid out0 ->
  same_tables db db' -> PosInv db' ->
  ((f <> None /\ p_err resp <> None /\ pubs = [] /\ clean db' = clean db) \/ out0 = (clean db', resp, pubs)) ->
  erased f db (db', resp, pubs) out0.
Proof.
  intros Hinv Hpost Ht Hp Hc. unfold erased. split; [|split; [exact Ht|exact Hc]]. split; [|exact Hp].
  destruct Hc as [[_ [_ [_ E]]]|E]; [rewrite E; exact Hinv|]. rewrite E in Hpost. apply Hpost.
Qed.

Lemma finish_erase f db colname col cuid req ro d0 duid ops opt eduid :
  WInv db -> duid = dd_duid d0 -> dd_col d0 = col ->
  (In d0 (s_dts db) \/
   (find_dt db (dd_duid d0) = None /\ find_dt_by_key db col (dd_key d0) = None /\
    dd_end d0 = 0 /\ dd_rw d0 = [] /\ dd_ro d0 = [])) ->
  erased f db (finish_pack_f f db colname col cuid req ro d0 duid ops opt eduid)
              (finish_pack_f None (clean db) colname col cuid req ro d0 duid ops opt eduid).
Proof.
  intros [Hinv Hpos] -> Hcol Hd0. set (D := dd_duid d0). set (e := dd_end d0).
  assert (HwD : forall o, od_duid o = D -> 0 < od_sseq o -> within_log db o = (od_sseq o <=? e)).
  { intros o Ed Hp. unfold within_log. rewrite Ed. destruct Hd0 as [Hin|[Hf [_ [He _]]]].
    - unfold D. rewrite (find_dt_in db d0 (li_nodup _ Hinv) Hin). reflexivity.
    - fold D in Hf. rewrite Hf. unfold e. rewrite He. symmetry. apply N.leb_gt. exact Hp. }
  assert (Hs : map od_sseq (ops_of (s_ops (clean db)) D) = nseq 1 (N.to_nat e)).
  { destruct Hd0 as [Hin|[Hf [_ [He _]]]].
    - apply (di_sseq _ _ (li_dt _ Hinv d0 Hin)).
    - unfold e. rewrite He. cbn [N.to_nat nseq]. replace (ops_of (s_ops (clean db)) D) with (@nil odoc); [reflexivity|].
      symmetry. unfold ops_of, clean. cbn [s_ops]. rewrite filter_filter. apply filter_none. intros o _.
      destruct (str_eqb (od_duid o) D) eqn:Ed; [|apply andb_false_r]. apply str_eqb_eq in Ed.
      unfold within_log. rewrite Ed. fold D in Hf. rewrite Hf. reflexivity. }
  pose proof (finish_spec (clean db) colname col cuid req ro d0 D ops opt eduid Hinv eq_refl Hcol Hd0) as Hpost.
  unfold finish_pack in Hpost.
  set (out0 := finish_pack_f None (clean db) colname col cuid req ro d0 D ops opt eduid) in *.
  assert (Hout0 : out0 = finish_plain (clean db) colname col cuid req ro d0 D ops opt eduid) by apply finish_pack_plain.
  assert (Fin : forall db' resp pubs, same_tables db db' -> PosInv db' ->
            ((f <> None /\ p_err resp <> None /\ pubs = [] /\ clean db' = clean db) \/ out0 = (clean db', resp, pubs)) ->
            erased f db (db', resp, pubs) out0).
  { intros. eapply erased_intro; eauto. }
  assert (Tsame : forall ops', same_tables db (mkSdb (s_cols db) (s_colctr db) (s_clients db) (s_dts db) ops')) by (intros; repeat split).
  clear Hpost. clearbody out0.
  unfold finish_pack_f. unfold finish_plain in Hout0. cbn [clean s_dts] in Hout0. fold D e in Hout0 |- *.
  set (cp0 := match alookup str_eqb cuid (clients_of d0 ro) with Some c => c | None => mkCp 0 0 end) in *.
  revert Hout0.
  destruct (if ro then Some (mkCp e (cseq cp0), []) else push_ops D col (mkCp e (cseq cp0)) ops []) as [[cp1 newdocs]|] eqn:Ep; intros Hout0.
  2:{ apply Fin; [repeat split|exact Hpos|right; exact Hout0]. }
  assert (Hnew : map od_sseq newdocs = nseq (e + 1) (length newdocs) /\ sseq cp1 = e + N.of_nat (length newdocs) /\
                 Forall (fun o => od_duid o = D) newdocs).
  { destruct ro.
    - injection Ep as <- <-. cbn. split; [reflexivity|]. split; [lia|constructor].
    - pose proof (push_ops_spec _ _ _ _ _ _ _ Ep) as [new0 [H1 [H2 [H3 [_ [H5 _]]]]]]. cbn [app sseq] in *. subst new0.
      split; [exact H2|]. split; [exact H3|]. eapply Forall_impl; [|exact H5]. intros o [H _]; exact H. }
  destruct Hnew as [Hn1 [Hn2 Hn3]].
  (* the pull *)
  set (from := sseq (p_cp req) + 1).
  fold from in Hout0. change (s_ops (clean db)) with (s_ops (clean db)) in Hout0.
  rewrite (pulled_clean db D e Hpos HwD from). rewrite (pulled_within (clean db) D e from Hs) in Hout0.
  set (pulled := if has (p_opt req) bit_snapshot then [] else get_ops (clean db) D from) in *.
  set (cp2 := match rev pulled with [] => cp1 | last :: _ => mkCp (od_sseq last + N.of_nat (length newdocs)) (cseq cp1) end) in *.
  assert (Hcp2 : sseq cp2 = e + N.of_nat (length newdocs)).
  { unfold cp2, pulled. destruct (has (p_opt req) bit_snapshot); [exact Hn2|].
    pose proof (get_ops_last (clean db) D e from Hs) as L. destruct (rev (get_ops (clean db) D from)); [exact Hn2|].
    cbn [sseq]. rewrite L; [reflexivity|unfold from; lia]. }
  (* the writes *)
  assert (Ic : purge_after (s_ops (clean db)) D e = s_ops (clean db)) by (apply purge_noop; exact Hs).
  assert (Jc : insert_ops (s_ops (clean db)) newdocs = (s_ops (clean db) ++ newdocs, true)) by (apply (insert_ops_fresh D _ _ e); assumption).
  assert (Jd : insert_ops (purge_after (s_ops db) D e) newdocs = (purge_after (s_ops db) D e ++ newdocs, true)).
  { apply (insert_ops_fresh D _ _ e); try assumption. rewrite (purge_ops_of db D e Hpos HwD). exact Hs. }
  assert (Ppos : Forall (fun o => 0 < od_sseq o) (purge_after (s_ops db) D e)) by (apply forall_filter; exact Hpos).
  assert (Npos : Forall (fun o => 0 < od_sseq o) newdocs) by (apply (new_pos e); exact Hn1).
  set (d1 := set_end (set_client d0 ro cuid cp2) (sseq cp2)) in *.
  assert (Hd1 : dd_duid d1 = D) by (unfold d1, set_end, set_client; destruct ro; reflexivity).
  assert (He1 : dd_end d1 = e + N.of_nat (length newdocs)) by (unfold d1, set_end; cbn [dd_end]; exact Hcp2).
  assert (Cpush : clean (after db d1 (purge_after (s_ops db) D e ++ newdocs)) = after (clean db) d1 (s_ops (clean db) ++ newdocs)).
  { unfold clean at 1. unfold after at 1 2 3 4 5. cbn [s_cols s_colctr s_clients s_dts s_ops]. unfold after. cbn [clean s_cols s_colctr s_clients s_dts s_ops]. f_equal.
    apply (clean_after_purged db D e Hpos HwD d1 newdocs Hd1 He1 Hn3 Hn1). }
  assert (Ckeep : newdocs = [] -> clean (after db d1 (s_ops db)) = after (clean db) d1 (s_ops (clean db))).
  { intros Hl. unfold clean at 1. unfold after at 1 2 3 4 5. cbn [s_cols s_colctr s_clients s_dts s_ops]. unfold after. cbn [clean s_cols s_colctr s_clients s_dts s_ops]. f_equal.
    apply (clean_after_kept db D e Hpos HwD d1 newdocs Hd1 He1 Hl). }
  unfold after in Cpush, Ckeep. cbn [clean s_cols s_colctr s_clients s_dts s_ops] in Fin.
  assert (Cins : clean (mkSdb (s_cols db) (s_colctr db) (s_clients db) (s_dts db) (purge_after (s_ops db) D e)) = clean db).
  { unfold clean. cbn [s_cols s_colctr s_clients s_dts s_ops]. f_equal.
    rewrite (filter_ext_in' _ (within_log db)) by (intros; apply within_dts; reflexivity). apply (purge_clean db D e Hpos HwD). }
  assert (Cupd : clean (mkSdb (s_cols db) (s_colctr db) (s_clients db) (s_dts db) (purge_after (s_ops db) D e ++ newdocs)) = clean db).
  { unfold clean. cbn [s_cols s_colctr s_clients s_dts s_ops]. f_equal.
    rewrite (filter_ext_in' _ (within_log db)) by (intros; apply within_dts; reflexivity).
    rewrite filter_app', (purge_clean db D e Hpos HwD), (new_beyond db D e HwD newdocs Hn3 Hn1). apply app_nil_r. }
  assert (Hpg : match newdocs with [] => s_ops (clean db) | _ :: _ => purge_after (s_ops (clean db)) D e end = s_ops (clean db))
    by (destruct newdocs; [reflexivity|exact Ic]).
  rewrite Hpg, Jc in Hout0. clear Hpg. cbn [clean s_cols s_colctr s_clients s_dts] in Hout0, Cpush, Ckeep.
  set (resp := mkPpp (p_key req) D opt cp2 (p_type req) (map od_op pulled) None) in *.
  (* the cases: where the fault sits, whether a snapshot is asked for, whether anything is pushed *)
  assert (Left : forall db' resp' , f <> None -> same_tables db db' -> PosInv db' -> p_err resp' <> None -> clean db' = clean db ->
                 erased f db (db', resp', []) out0).
  { intros db' resp' Hf Ht Hp Hr Hc. apply Fin; auto. }
  assert (Ok0 : newdocs = [] ->
     erased f db (mkSdb (s_cols db) (s_colctr db) (s_clients db) (upsert_dt (s_dts db) d1) (s_ops db), resp, []) out0).
  { intros Hl. apply Fin; [repeat split|exact Hpos|]. right. rewrite Hout0, (Ckeep Hl), Hl, app_nil_r. reflexivity. }
  assert (Ok1 : forall n0 nl, newdocs = n0 :: nl ->
     erased f db (mkSdb (s_cols db) (s_colctr db) (s_clients db) (upsert_dt (s_dts db) d1) (purge_after (s_ops db) D e ++ newdocs), resp,
                  [mkPub colname (dd_key d1) cuid (dd_duid d1) (sseq cp2)]) out0).
  { intros n0 nl Hl. apply Fin; [repeat split|apply Forall_app; split; assumption|]. right. rewrite Hout0, Cpush, Hl. reflexivity. }
  assert (Tpos : forall ops', Forall (fun o => 0 < od_sseq o) ops' -> PosInv (mkSdb (s_cols db) (s_colctr db) (s_clients db) (s_dts db) ops')) by (intros; assumption).
  destruct newdocs as [|n0 nl] eqn:En.
  - (* nothing to store *)
    specialize (Ok0 eq_refl). cbn [insert_ops].
    destruct f as [[| | | |]|]; destruct (has (p_opt req) bit_snapshot) eqn:Esn; try exact Ok0.
    all: try (apply Left; [discriminate|repeat split|exact Hpos|discriminate|reflexivity]).
    all: apply Left; [discriminate|apply Tsame|exact Hpos|discriminate|destruct db; reflexivity].
  - specialize (Ok1 n0 nl eq_refl). rewrite Jd.
    destruct f as [[| | | |]|]; destruct (has (p_opt req) bit_snapshot) eqn:Esn; try exact Ok1.
    all: try (apply Left; [discriminate|repeat split|exact Hpos|discriminate|reflexivity]).
    all: try (apply Left; [discriminate|apply Tsame|apply Tpos; exact Ppos|discriminate|exact Cins]).
    all: apply Left; [discriminate|apply Tsame|apply Tpos, Forall_app; split; assumption|discriminate|exact Cupd].
Qed.

Theorem pack_erased f db colname col cuid req :
  WInv db ->
  erased f db (handle_pack_f f db colname col cuid req) (handle_pack (clean db) colname col cuid req).
Proof.
  intros Hw. pose proof Hw as [Hinv Hpos].
  assert (R : forall code, erased f db (db, error_resp req code, []) (clean db, error_resp req code, [])).
  { intros code. split; [exact Hw|]. split; [repeat split|right; reflexivity]. }
  unfold handle_pack. unfold handle_pack_f.
  destruct (has (p_opt req) bit_readonly && _) eqn:Ev; [apply R|].
  change (evaluate (clean db) col cuid (has (p_opt req) bit_readonly) req) with (evaluate db col cuid (has (p_opt req) bit_readonly) req) in *.
  destruct (evaluate db col cuid (has (p_opt req) bit_readonly) req) as [c d] eqn:He.
  pose proof (decide_spec _ _ _ _ _ _ _ He) as S.
  assert (Hfr : f = Some FailRead -> erased f db (db, error_resp req err_abort_server, [])
                  (match decide col req c d, d with
                   | ARefuse code, _ => (clean db, error_resp req code, [])
                   | ACreate, _ => finish_pack_f None (clean db) colname col cuid req (has (p_opt req) bit_readonly) (mkDdoc (p_duid req) (p_key req) col (p_type req) 0 [] [])
                                      (p_duid req) (p_ops req) bit_create (p_duid req)
                   | ASubscribe, Some d0 => finish_pack_f None (clean db) colname col cuid req (has (p_opt req) bit_readonly) d0 (dd_duid d0) [] bit_subscribe (dd_duid d0)
                   | ANormal, Some d0 => finish_pack_f None (clean db) colname col cuid req (has (p_opt req) bit_readonly) d0 (p_duid req) (p_ops req) 0 (p_duid req)
                   | _, None => (clean db, error_resp req err_no_datatype, [])
                   end)).
  { intros ->. split; [exact Hw|]. split; [repeat split|]. left. repeat split; try discriminate. }
  assert (Hgo : erased f db
                  (match decide col req c d, d with
                   | ARefuse code, _ => (db, error_resp req code, [])
                   | ACreate, _ => finish_pack_f f db colname col cuid req (has (p_opt req) bit_readonly) (mkDdoc (p_duid req) (p_key req) col (p_type req) 0 [] [])
                                      (p_duid req) (p_ops req) bit_create (p_duid req)
                   | ASubscribe, Some d0 => finish_pack_f f db colname col cuid req (has (p_opt req) bit_readonly) d0 (dd_duid d0) [] bit_subscribe (dd_duid d0)
                   | ANormal, Some d0 => finish_pack_f f db colname col cuid req (has (p_opt req) bit_readonly) d0 (p_duid req) (p_ops req) 0 (p_duid req)
                   | _, None => (db, error_resp req err_no_datatype, [])
                   end)
                  (match decide col req c d, d with
                   | ARefuse code, _ => (clean db, error_resp req code, [])
                   | ACreate, _ => finish_pack_f None (clean db) colname col cuid req (has (p_opt req) bit_readonly) (mkDdoc (p_duid req) (p_key req) col (p_type req) 0 [] [])
                                      (p_duid req) (p_ops req) bit_create (p_duid req)
                   | ASubscribe, Some d0 => finish_pack_f None (clean db) colname col cuid req (has (p_opt req) bit_readonly) d0 (dd_duid d0) [] bit_subscribe (dd_duid d0)
                   | ANormal, Some d0 => finish_pack_f None (clean db) colname col cuid req (has (p_opt req) bit_readonly) d0 (p_duid req) (p_ops req) 0 (p_duid req)
                   | _, None => (clean db, error_resp req err_no_datatype, [])
                   end)).
  { destruct (decide col req c d) as [| | |code].
    - destruct S as [_ [S2 S3]]. apply finish_erase; auto. right. cbn. auto.
    - destruct S as [d0 [-> [S1 [S2 S3]]]]. apply finish_erase; auto.
    - destruct S as [d0 [-> [S1 [S2 S3]]]]. apply finish_erase; auto.
    - destruct d; apply R. }
  destruct f as [[| | | |]|]; try exact Hgo. apply Hfr. reflexivity.
Qed.

(* without a fault the littered store answers as the acknowledged store does: a retry succeeds as if nothing had failed *)
Corollary retry_as_if_no_failure db colname col cuid req :
  WInv db ->
  let '(db', resp, pubs) := handle_pack db colname col cuid req in
  WInv db' /\ handle_pack (clean db) colname col cuid req = (clean db', resp, pubs).
Proof.
  intros Hw. pose proof (pack_erased None db colname col cuid req Hw) as E. unfold handle_pack at 1.
  destruct (handle_pack_f None db colname col cuid req) as [[db' resp] pubs]. destruct E as [E1 [_ [[E _]|E]]]; [congruence|].
  split; assumption.
Qed.

(* a pack that is answered with an error — refused, or a command failed — leaves the acknowledged store as it was *)
Corollary error_keeps_acknowledged f db colname col cuid req :
  WInv db ->
  let '(db', resp, pubs) := handle_pack_f f db colname col cuid req in
  WInv db' /\ (p_err resp <> None -> clean db' = clean db /\ pubs = []).
Proof.
  intros Hw. pose proof (pack_erased f db colname col cuid req Hw) as E. pose proof Hw as [Hinv _].
  pose proof (handle_pack_spec (clean db) colname col cuid req Hinv) as Hpost.
  destruct (handle_pack_f f db colname col cuid req) as [[db' resp] pubs]. destruct E as [E1 [_ E]]. split; [exact E1|].
  intros Herr. destruct E as [[_ [_ [E2 E3]]]|E]; [auto|]. rewrite E in Hpost. destruct Hpost as [_ [_ P]].
  destruct (p_err resp); [|congruence]. destruct P as [P1 P2]. auto.
Qed.

(* ---------- whole requests, any number of them, a command failing during any of them ---------- *)
Definition fserve (db : sdb) (rf : request * option pfault) : sdb :=
  match fst rf with
  | RPushPull col cuid packs => fst (process_pushpull_f (snd rf) db col cuid packs)
  | r => serve db r
  end.

Lemma winv_tables db db' : s_dts db' = s_dts db -> s_ops db' = s_ops db -> WInv db -> WInv db'.
Proof.
  intros E1 E2 [H1 H2]. split; [|unfold PosInv; rewrite E2; exact H2].
  eapply loginv_tables; [| |exact H1]; unfold clean; cbn [s_dts s_ops]; [exact E1|].
  rewrite E2. apply filter_ext_in'. intros o _. apply within_dts. exact E1.
Qed.

Lemma fold_packs_winv fp colname col cuid packs : forall db acc,
  WInv db ->
  WInv (fst (fold_left (fun '(db, acc) req =>
               let '(db', resp, pubs) := handle_pack_f fp db colname col cuid req in
               (db', acc ++ [(resp, pubs)])) packs (db, acc))).
Proof.
  induction packs as [|p packs IH]; intros db acc H; cbn [fold_left]; [exact H|].
  pose proof (pack_erased fp db colname col cuid p H) as E.
  destruct (handle_pack_f fp db colname col cuid p) as [[db' resp] pubs]. apply IH. apply E.
Qed.

Theorem fserve_winv db rf : WInv db -> WInv (fserve db rf).
Proof.
  intros H. destruct rf as [[name|col cuid|col cuid packs] f]; unfold fserve; cbn [fst snd serve].
  - unfold create_collection. destruct (alookup str_eqb name (s_cols db)); [exact H|]. eapply winv_tables; [| |exact H]; reflexivity.
  - unfold process_client. destruct (alookup str_eqb col (s_cols db)); [|exact H].
    destruct (alookup str_eqb cuid (s_clients db)) as [ccol|]; [destruct (N.eqb ccol n); exact H|].
    eapply winv_tables; [| |exact H]; reflexivity.
  - unfold process_pushpull_f. destruct f as [[| |fp]|]; try exact H.
    + destruct (alookup str_eqb col (s_cols db)) as [n|]; exact H.
    + destruct (alookup str_eqb col (s_cols db)) as [n|]; [|exact H].
      destruct (alookup str_eqb cuid (s_clients db)) as [ccol|]; [|exact H]. destruct (N.eqb ccol n); [|exact H].
      pose proof (fold_packs_winv (Some fp) col n cuid packs db [] H) as F.
      destruct (fold_left _ packs (db, [])) as [db' out]. exact F.
    + destruct (alookup str_eqb col (s_cols db)) as [n|]; [|exact H].
      destruct (alookup str_eqb cuid (s_clients db)) as [ccol|]; [|exact H]. destruct (N.eqb ccol n); [|exact H].
      pose proof (fold_packs_winv None col n cuid packs db [] H) as F.
      destruct (fold_left _ packs (db, [])) as [db' out]. exact F.
Qed.

(* C06 / C08: after ANY sequence of requests — any packs, checkpoints, option bits, operations — with a storage command
   failing during any of them (collection lookup, client lookup, or any command of any pack), the acknowledged part of the
   store is a consistent store: every datatype's log carries server sequence numbers 1..End in order, no checkpoint exceeds
   End, no operation without its datatype, a (collection, key) names at most one datatype *)
Theorem faulty_log_invariant (rfs : list (request * option pfault)) : LogInv (clean (fold_left fserve rfs sdb_init)).
Proof.
  assert (G : forall rfs db, WInv db -> WInv (fold_left fserve rfs db)).
  { clear rfs. induction rfs as [|rf rfs IH]; intros db H; cbn [fold_left]; [exact H|]. apply IH, fserve_winv, H. }
  apply (G rfs sdb_init). apply loginv_winv, loginv_init.
Qed.
