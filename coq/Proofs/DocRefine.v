(* Document: local operations refine the plain JSON value they show (objects; see the end for what is covered). *)
From Coq Require Import List NArith ZArith Bool Lia Permutation.
From Orda.Model Require Import Base Time Ops Doc.
From Orda.Proofs Require Import TimeFacts OrderFacts MapFacts SortFacts CodecFacts DocFacts.
Import ListNotations.
Open Scope N_scope.

(* the live members of an object, in storage order, as (key, readable value) *)
Definition omem (m : list (str * jt)) : list (str * val) :=
  flat_map (fun kc => match kc with (k, c) => if jtomb c then [] else [(k, jview c)] end) m.
Lemma jview_obj c d m s : jview (JO c d m s) = VObj (sort_by_key (omem m)).
Proof. reflexivity. Qed.

Definition rmkey {V} (k : str) (l : list (str * V)) : list (str * V) := filter (fun kv => negb (str_eqb (fst kv) k)) l.

Lemma omem_keys_in m k : In k (map fst (omem m)) -> In k (map fst m).
Proof.
  induction m as [|[k0 c] m IH]; cbn; [auto|]. destruct (jtomb c); cbn; [right; auto|]. intros [<-|H]; [left; reflexivity|right; auto].
Qed.
Lemma omem_nodup m : NoDup (map fst m) -> NoDup (map fst (omem m)).
Proof.
  induction m as [|[k c] m IH]; cbn; intros H; [constructor|]. inversion H as [|? ? Hn Hd]; subst.
  destruct (jtomb c); cbn; [apply IH, Hd|]. constructor; [|apply IH, Hd]. intros Hin. apply Hn, omem_keys_in, Hin.
Qed.

Lemma rmkey_notin {V} k (l : list (str * V)) : ~ In k (map fst l) -> rmkey k l = l.
Proof.
  induction l as [|[k0 v] l IH]; cbn; intros H; [reflexivity|]. destruct (str_eqb k0 k) eqn:E.
  - apply str_eqb_eq in E. subst. exfalso. apply H. left. reflexivity.
  - cbn. f_equal. apply IH. intros Hin. apply H. right. exact Hin.
Qed.

(* a key's child replaced by a live child: the member list changes exactly at that key *)
Lemma omem_aset m k child : NoDup (map fst m) -> jtomb child = false -> In k (map fst m) ->
  Permutation (omem (aset str_eqb k child m)) ((k, jview child) :: rmkey k (omem m)).
Proof.
  induction m as [|[k0 c] m IH]; cbn [map aset omem flat_map]; intros Hnd Hl Hin; [destruct Hin|].
  inversion Hnd as [|? ? Hn Hd]; subst. cbn [fst] in *. destruct (str_eqb k k0) eqn:E.
  - apply str_eqb_eq in E. subst k0. cbn [flat_map]. rewrite Hl. cbn [app].
    fold (omem m). assert (R : rmkey k (omem m) = omem m) by (apply rmkey_notin; intros H; apply Hn, omem_keys_in, H).
    destruct (jtomb c); cbn [app rmkey filter fst].
    + fold (@rmkey val k (omem m)). rewrite R. reflexivity.
    + rewrite str_eqb_refl. cbn [negb]. fold (@rmkey val k (omem m)). rewrite R. reflexivity.
  - cbn [flat_map]. fold (omem (aset str_eqb k child m)). fold (omem m).
    assert (Hin' : In k (map fst m)). { destruct Hin as [->|H]; [rewrite str_eqb_refl in E; discriminate|exact H]. }
    specialize (IH Hd Hl Hin'). destruct (jtomb c); cbn [app]; [exact IH|].
    unfold rmkey at 1. cbn [filter fst]. rewrite str_eqb_sym, E. cbn [negb]. fold (@rmkey val k (omem m)).
    eapply Permutation_trans; [apply perm_skip, IH|]. apply perm_swap.
Qed.
Lemma omem_app m k child : jtomb child = false -> omem (m ++ [(k, child)]) = omem m ++ [(k, jview child)].
Proof. intros H. unfold omem. rewrite flat_map_app. cbn. rewrite H. reflexivity. Qed.

Lemma alookup_none_notin {V} k (m : list (str * V)) : alookup str_eqb k m = None -> ~ In k (map fst m).
Proof.
  induction m as [|[k0 v] m IH]; cbn; [auto|]. destruct (str_eqb k k0) eqn:E; [discriminate|].
  intros H [<-|Hin]; [rewrite str_eqb_refl in E; discriminate|exact (IH H Hin)].
Qed.
Lemma alookup_some_in {V} k (m : list (str * V)) v : alookup str_eqb k m = Some v -> In k (map fst m).
Proof.
  induction m as [|[k0 v0] m IH]; cbn; [discriminate|]. destruct (str_eqb k k0) eqn:E; [apply str_eqb_eq in E; subst; auto|auto].
Qed.

Lemma nodup_snoc'' {A} (l : list A) x : NoDup l -> ~ In x l -> NoDup (l ++ [x]).
Proof.
  induction l as [|a l IH]; cbn; intros H Hn; [constructor; [intros []|constructor]|].
  inversion H as [|? ? Ha Hl]; subst. constructor.
  - intros Hin. apply in_app_or in Hin. destruct Hin as [Hin|[Hin|[]]]; [contradiction|]. apply Hn. left. symmetry. exact Hin.
  - apply IH; [exact Hl|]. intros Hx. apply Hn. right. exact Hx.
Qed.

(* the plain JSON operations on an object value (members kept in key order) *)
Definition vput (k : str) (v : val) (o : val) : val :=
  match o with VObj l => VObj (sort_by_key ((k, v) :: rmkey k l)) | _ => o end.
Definition vrm (k : str) (o : val) : val :=
  match o with VObj l => VObj (rmkey k l) | _ => o end.

Lemma rmkey_perm {V} k (l1 l2 : list (str * V)) : Permutation l1 l2 -> Permutation (rmkey k l1) (rmkey k l2).
Proof.
  induction 1; cbn; try constructor; auto.
  - destruct (negb (str_eqb (fst x) k)); [constructor|]; auto.
  - destruct (negb (str_eqb (fst x) k)); destruct (negb (str_eqb (fst y) k)); try constructor; try apply Permutation_refl.
  - eapply Permutation_trans; eauto.
Qed.
Lemma rmkey_keys {V} k (l : list (str * V)) x : In x (map fst (rmkey k l)) <-> In x (map fst l) /\ x <> k.
Proof.
  induction l as [|[k0 v] l IH]; cbn; [tauto|]. destruct (str_eqb k0 k) eqn:E; cbn.
  - apply str_eqb_eq in E. subst. rewrite IH. intuition congruence.
  - apply str_eqb_neq in E. rewrite IH. intuition congruence.
Qed.
Lemma rmkey_nodup {V} k (l : list (str * V)) : NoDup (map fst l) -> NoDup (map fst (rmkey k l)).
Proof.
  induction l as [|[k0 v] l IH]; cbn; intros H; [constructor|]. inversion H as [|? ? Hn Hd]; subst.
  destruct (str_eqb k0 k); cbn; [apply IH, Hd|]. constructor; [|apply IH, Hd]. intros Hin. apply rmkey_keys in Hin. apply Hn, Hin.
Qed.

(* put into an object whose child (if any) is older than the new one: the readable value is the plain put *)
Theorem obj_put_view c d m s k child j' :
  NoDup (map fst m) -> jtomb child = false ->
  (forall old, alookup str_eqb k m = Some old -> ts_lt (jtime old) (jtime child) = true) ->
  obj_put (JO c d m s) k child = Some j' ->
  jview j' = vput k (jview child) (jview (JO c d m s)).
Proof.
  intros Hnd Hl Hnew. cbn [obj_put]. destruct (alookup str_eqb k m) as [old|] eqn:E.
  - rewrite (Hnew old eq_refl). intros [= <-]. rewrite !jview_obj. cbn [vput]. f_equal.
    apply sort_canonical.
    + apply omem_nodup, aset_nodup, Hnd.
    + cbn [map fst]. constructor; [intros H; apply rmkey_keys in H; tauto|apply rmkey_nodup]. 
      eapply Permutation_NoDup; [apply Permutation_map, sort_perm|apply omem_nodup, Hnd].
    + eapply Permutation_trans; [apply omem_aset; [exact Hnd|exact Hl|eapply alookup_some_in; eauto]|].
      apply perm_skip, rmkey_perm, sort_perm.
  - intros [= <-]. rewrite !jview_obj. cbn [vput]. f_equal. rewrite omem_app by exact Hl.
    pose proof (alookup_none_notin _ _ E) as Hn.
    assert (Hn' : ~ In k (map fst (omem m))) by (intros H; apply Hn, omem_keys_in, H).
    apply sort_canonical.
    + rewrite map_app. cbn. apply nodup_snoc''; [apply omem_nodup, Hnd|exact Hn'].
    + cbn [map fst]. constructor; [intros H; apply rmkey_keys in H; tauto|apply rmkey_nodup].
      eapply Permutation_NoDup; [apply Permutation_map, sort_perm|apply omem_nodup, Hnd].
    + eapply Permutation_trans; [apply Permutation_sym, Permutation_cons_append|]. apply perm_skip.
      rewrite <- (rmkey_notin k (omem m) Hn') at 1. apply rmkey_perm, sort_perm.
Qed.

Lemma omem_aset_tomb m k child : NoDup (map fst m) -> jtomb child = true ->
  omem (aset str_eqb k child m) = rmkey k (omem m) \/ ~ In k (map fst m).
Proof.
  intros Hnd Ht. destruct (in_dec (list_eq_dec N.eq_dec) k (map fst m)) as [Hin|Hn]; [left|right; exact Hn].
  induction m as [|[k0 c] m IH]; [destruct Hin|]. cbn [map fst] in *. inversion Hnd as [|? ? Hn Hd]; subst.
  cbn [aset]. destruct (str_eqb k k0) eqn:E.
  - apply str_eqb_eq in E. subst k0. cbn [omem flat_map]. rewrite Ht. cbn [app]. fold (omem m).
    assert (R : rmkey k (omem m) = omem m) by (apply rmkey_notin; intros H; apply Hn, omem_keys_in, H).
    destruct (jtomb c); cbn [app rmkey filter fst]; [fold (@rmkey val k (omem m)); rewrite R; reflexivity|].
    rewrite str_eqb_refl. cbn [negb]. fold (@rmkey val k (omem m)). rewrite R. reflexivity.
  - assert (Hin' : In k (map fst m)) by (destruct Hin as [->|H]; [rewrite str_eqb_refl in E; discriminate|exact H]).
    cbn [omem flat_map]. fold (omem (aset str_eqb k child m)). fold (omem m). rewrite (IH Hd Hin').
    destruct (jtomb c); cbn [app]; [reflexivity|]. unfold rmkey at 2. cbn [filter fst]. rewrite str_eqb_sym, E. reflexivity.
Qed.

Lemma ksorted_filter {V} (p : str * V -> bool) (l : list (str * V)) : ksorted l -> ksorted (filter p l).
Proof.
  induction l as [|x l IH]; cbn; [auto|]. intros [H1 H2]. destruct (p x); cbn; [|auto]. split; [|auto].
  apply Forall_forall. intros y Hy. apply filter_In in Hy. rewrite Forall_forall in H1. apply H1, Hy.
Qed.
Lemma ksorted_nodup {V} (l : list (str * V)) : ksorted l -> NoDup (map fst l).
Proof.
  induction l as [|x l IH]; cbn; intros H; [constructor|]. destruct H as [H1 H2]. constructor; [|auto].
  intros Hin. apply in_map_iff in Hin. destruct Hin as [y [E Hy]]. rewrite Forall_forall in H1. specialize (H1 y Hy).
  rewrite E in H1. exact (klt_irrefl' _ H1).
Qed.
Lemma sort_rmkey {V} k (l : list (str * V)) : NoDup (map fst l) -> sort_by_key (rmkey k l) = rmkey k (sort_by_key l).
Proof.
  intros H. apply sorted_perm_eq.
  - apply sort_sorted', rmkey_nodup, H.
  - apply ksorted_filter, sort_sorted', H.
  - eapply Permutation_trans; [apply Permutation_sym, sort_perm|apply rmkey_perm, sort_perm].
Qed.

(* removing a present key: the readable value is the plain removal *)
Theorem obj_remove_view c d m s k t j' :
  NoDup (map fst m) -> obj_remove_local (JO c d m s) k t = Some j' -> jview j' = vrm k (jview (JO c d m s)).
Proof.
  intros Hnd. cbn [obj_remove_local]. destruct (alookup str_eqb k m) as [old|] eqn:E; [|discriminate].
  destruct (negb (jtomb old) && ts_lt (jtime old) t); [|discriminate]. intros [= <-]. rewrite !jview_obj. cbn [vrm]. f_equal.
  assert (Ht : jtomb (set_d old t) = true) by (destruct old; reflexivity).
  destruct (omem_aset_tomb m k (set_d old t) Hnd Ht) as [R|Hn]; [|exfalso; apply Hn; eapply alookup_some_in; eauto].
  rewrite R. apply sort_rmkey, omem_nodup, Hnd.
Qed.

(* ---------- arrays ---------- *)
Definition amem (l : list (ts * jt)) : list val :=
  flat_map (fun oc => match oc with (_, c) => if jtomb c then [] else [jview c] end) l.
Lemma jview_arr c d l s : jview (JA c d l s) = VArr (amem l).
Proof. reflexivity. Qed.
Lemma amem_app a b : amem (a ++ b) = amem a ++ amem b.
Proof. apply flat_map_app. Qed.
Lemma amem_cons_live x l : alive x = true -> amem (x :: l) = jview (snd x) :: amem l.
Proof. destruct x as [o c]. unfold alive. cbn. destruct (jtomb c); [discriminate|reflexivity]. Qed.
Lemma amem_cons_dead x l : alive x = false -> amem (x :: l) = amem l.
Proof. destruct x as [o c]. unfold alive. cbn. destruct (jtomb c); [reflexivity|discriminate]. Qed.

Lemma ains_local_spec ns : forall l pos,
  (pos <= length (amem l))%nat ->
  exists l' t, ains_local l pos ns = Some (l', t) /\ amem l' = firstn pos (amem l) ++ amem ns ++ skipn pos (amem l).
Proof.
  induction l as [|x l IH]; intros pos Hp.
  - cbn in Hp. assert (pos = 0%nat) by lia. subst. cbn [ains_local]. eexists _, _. split; [reflexivity|]. rewrite amem_app. reflexivity.
  - destruct pos as [|p].
    + cbn [ains_local]. eexists _, _. split; [reflexivity|]. rewrite amem_app. reflexivity.
    + cbn [ains_local]. destruct (alive x) eqn:Lx.
      * rewrite (amem_cons_live _ _ Lx) in Hp |- *. cbn [length] in Hp. destruct p as [|p'].
        -- eexists _, _. split; [reflexivity|]. rewrite (amem_cons_live _ _ Lx), amem_app. reflexivity.
        -- destruct (IH (S p') ltac:(lia)) as [l' [t [E V]]]. rewrite E. eexists _, _. split; [reflexivity|].
           rewrite (amem_cons_live _ _ Lx), V. reflexivity.
      * rewrite (amem_cons_dead _ _ Lx) in Hp |- *. destruct (IH (S p) Hp) as [l' [t [E V]]]. rewrite E. eexists _, _. split; [reflexivity|].
        rewrite (amem_cons_dead _ _ Lx). exact V.
Qed.

Lemma set_d_tomb j t : jtomb (set_d j t) = true.
Proof. destruct j; reflexivity. Qed.

Lemma adel_local_spec t : forall l pos num i,
  (pos + num <= length (amem l))%nat ->
  exists l' targets, adel_local l pos num t i = Some (l', targets) /\
    amem l' = firstn pos (amem l) ++ skipn (pos + num) (amem l) /\ length targets = num.
Proof.
  induction l as [|x l IH]; intros pos num i Hp.
  - cbn in Hp. assert (pos = 0%nat /\ num = 0%nat) as [-> ->] by lia. cbn. eexists _, _. repeat split.
  - destruct num as [|num'].
    + cbn [adel_local]. eexists _, _. split; [reflexivity|]. rewrite Nat.add_0_r, firstn_skipn. repeat split.
    + cbn [adel_local]. destruct (alive x) eqn:Lx.
      * rewrite (amem_cons_live _ _ Lx) in Hp |- *. cbn [length] in Hp. destruct pos as [|pos'].
        -- destruct (IH 0%nat num' (i + 1)%N ltac:(lia)) as [l' [tg [E [V1 V3]]]]. rewrite E.
           eexists _, _. split; [reflexivity|]. cbn [firstn skipn Nat.add app] in *.
           rewrite amem_cons_dead by (unfold alive; cbn [snd]; rewrite set_d_tomb; reflexivity). rewrite V1. split; [reflexivity|cbn; lia].
        -- destruct (IH pos' (S num') i ltac:(lia)) as [l' [tg [E [V1 V3]]]]. rewrite E.
           eexists _, _. split; [reflexivity|]. rewrite (amem_cons_live _ _ Lx), V1. cbn. split; auto.
      * rewrite (amem_cons_dead _ _ Lx) in Hp |- *. destruct (IH pos (S num') i Hp) as [l' [tg [E [V1 V3]]]]. rewrite E.
        eexists _, _. split; [reflexivity|]. rewrite (amem_cons_dead _ _ Lx). auto.
Qed.

Lemma aupd_local_spec t : forall vs l pos i,
  Forall canon vs -> (pos + length vs <= length (amem l))%nat ->
  exists l' targets, aupd_local l pos vs t i = Some (l', targets) /\
    amem l' = firstn pos (amem l) ++ vs ++ skipn (pos + length vs) (amem l).
Proof.
  intros vs l. revert vs. induction l as [|x l IH]; intros vs pos i Hc Hp.
  - cbn in Hp. assert (pos = 0%nat) by lia. destruct vs; [|cbn in Hp; lia]. subst. cbn. eexists _, _. repeat split.
  - destruct vs as [|v vs'].
    + cbn [aupd_local length]. eexists _, _. split; [reflexivity|]. rewrite Nat.add_0_r. cbn [app firstn]. rewrite firstn_skipn. auto.
    + inversion Hc as [|? ? Cv Cvs]; subst. cbn [aupd_local]. destruct (alive x) eqn:Lx.
      * rewrite (amem_cons_live _ _ Lx) in Hp |- *. cbn [length] in Hp. destruct pos as [|pos'].
        -- pose proof (create_view t v Cv i) as Ev. pose proof (create_not_tomb t v i) as Tv. destruct (create t v i) as [n i1]. cbn [fst] in Ev, Tv.
           destruct (IH vs' 0%nat i1 Cvs ltac:(lia)) as [l' [tg [E V1]]]. rewrite E.
           eexists _, _. split; [reflexivity|]. cbn [firstn skipn Nat.add app length] in *.
           rewrite amem_cons_live by (unfold alive; cbn [snd]; rewrite Tv; reflexivity). cbn [snd]. rewrite Ev, V1. reflexivity.
        -- destruct (IH (v :: vs') pos' i Hc ltac:(cbn [length]; lia)) as [l' [tg [E V1]]]. rewrite E.
           eexists _, _. split; [reflexivity|]. rewrite (amem_cons_live _ _ Lx), V1. cbn. auto.
      * rewrite (amem_cons_dead _ _ Lx) in Hp |- *. destruct (IH (v :: vs') pos i Hc Hp) as [l' [tg [E V1]]]. rewrite E.
        eexists _, _. split; [reflexivity|]. rewrite (amem_cons_dead _ _ Lx). auto.
Qed.

(* ---------- a container reached by a path: the update of the tree and the update of the readable value ---------- *)
From Orda.Proofs Require Import SnapshotFacts.

Fixpoint set_nth_live (l : list (ts * jt)) (n : nat) (c' : jt) : list (ts * jt) :=
  match l with
  | [] => []
  | x :: xs => if alive x then match n with O => (fst x, c') :: xs | S n' => x :: set_nth_live xs n' c' end
               else x :: set_nth_live xs n c'
  end.

(* well-formed tree: object keys are distinct, array sizes count the live elements, elements hold primitive values *)
Fixpoint wft (j : jt) : Prop :=
  match j with
  | JE _ _ v => match v with VArr _ | VObj _ => False | _ => True end      (* an element holds a primitive value *)
  | JO _ _ m _ => NoDup (map fst m) /\ fold_right (fun kc P => match kc with (_, c) => wft c /\ P end) True m
  | JA _ _ l s => s = Z.of_nat (length (amem l)) /\ fold_right (fun oc P => match oc with (_, c) => wft c /\ P end) True l
  end.

Fixpoint vset_nth (l : list val) (n : nat) (v : val) : list val :=
  match l, n with
  | [], _ => []
  | _ :: xs, O => v :: xs
  | x :: xs, S n' => x :: vset_nth xs n' v
  end.
(* the plain JSON value with the sub-value at [path] replaced by f of it *)
Fixpoint vupd (v : val) (path : list pseg) (f : val -> val) : val :=
  match path with
  | [] => f v
  | PKey k :: rest =>
      match v with
      | VObj l => match alookup str_eqb k l with Some x => vput k (vupd x rest f) v | None => v end
      | _ => v
      end
  | PIdx i :: rest =>
      match v with
      | VArr l => match nth_error l (Z.to_nat i) with Some x => VArr (vset_nth l (Z.to_nat i) (vupd x rest f)) | None => v end
      | _ => v
      end
  end.

Lemma wft_obj_child m k ch : fold_right (fun kc P => match kc with (_, c) => wft c /\ P end) True m ->
  alookup str_eqb k m = Some ch -> wft ch.
Proof.
  induction m as [|[k0 c] m IH]; cbn; [discriminate|]. intros [H1 H2]. destruct (str_eqb k k0); [intros [= <-]; exact H1|apply IH, H2].
Qed.
Lemma wft_arr_child l n ch : fold_right (fun oc P => match oc with (_, c) => wft c /\ P end) True l ->
  nth_live l n = Some ch -> wft ch.
Proof.
  revert n. induction l as [|[o c] l IH]; intros n; cbn [nth_live fold_right]; [discriminate|]. intros [H1 H2].
  unfold alive. cbn [snd]. destruct (jtomb c); cbn [negb]; [apply IH, H2|]. destruct n as [|n]; [intros [= <-]; exact H1|apply IH, H2].
Qed.

Lemma alookup_omem m k ch : NoDup (map fst m) -> alookup str_eqb k m = Some ch -> jtomb ch = false ->
  alookup str_eqb k (omem m) = Some (jview ch).
Proof.
  induction m as [|[k0 c] m IH]; cbn [alookup map fst omem flat_map]; [discriminate|]. intros Hnd. inversion Hnd as [|? ? Hn Hd]; subst.
  destruct (str_eqb k k0) eqn:E.
  - intros [= <-] Hl. rewrite Hl. cbn. rewrite E. reflexivity.
  - intros H Hl. fold (omem m). destruct (jtomb c); cbn [app]; [apply IH; auto|]. cbn [alookup]. rewrite E. apply IH; auto.
Qed.

Lemma obj_set_view c d m s k ch' : NoDup (map fst m) -> jtomb ch' = false -> In k (map fst m) ->
  jview (JO c d (aset str_eqb k ch' m) s) = vput k (jview ch') (jview (JO c d m s)).
Proof.
  intros Hnd Hl Hin. rewrite !jview_obj. cbn [vput]. f_equal. apply sort_canonical.
  - apply omem_nodup, aset_nodup, Hnd.
  - cbn [map fst]. constructor; [intros H; apply rmkey_keys in H; tauto|apply rmkey_nodup].
    eapply Permutation_NoDup; [apply Permutation_map, sort_perm|apply omem_nodup, Hnd].
  - eapply Permutation_trans; [apply omem_aset; assumption|]. apply perm_skip, rmkey_perm, sort_perm.
Qed.

Lemma nth_live_amem l : forall n ch, nth_live l n = Some ch -> nth_error (amem l) n = Some (jview ch).
Proof.
  induction l as [|x l IH]; intros n ch; cbn [nth_live]; [discriminate|]. destruct (alive x) eqn:Lx.
  - rewrite (amem_cons_live _ _ Lx). destruct n as [|n]; [intros [= <-]; reflexivity|cbn; apply IH].
  - rewrite (amem_cons_dead _ _ Lx). apply IH.
Qed.
Lemma amem_set_nth_live l c' : jtomb c' = false -> forall n ch, nth_live l n = Some ch ->
  amem (set_nth_live l n c') = vset_nth (amem l) n (jview c').
Proof.
  intros Hl. induction l as [|x l IH]; intros n ch; cbn [nth_live set_nth_live]; [discriminate|]. destruct (alive x) eqn:Lx.
  - rewrite (amem_cons_live _ _ Lx). destruct n as [|n].
    + intros _. rewrite amem_cons_live by (unfold alive; cbn [snd]; rewrite Hl; reflexivity). reflexivity.
    + intros H. rewrite (amem_cons_live _ _ Lx). cbn [vset_nth]. f_equal. eapply IH; eauto.
  - rewrite (amem_cons_dead _ _ Lx). intros H. rewrite (amem_cons_dead _ _ Lx). eapply IH; eauto.
Qed.

Fixpoint upd_path (j : jt) (path : list pseg) (f : jt -> option jt) : option jt :=
  match path with
  | [] => f j
  | PKey k :: rest =>
      match j with
      | JO c d m s =>
          match alookup str_eqb k m with
          | Some ch => if jtomb ch then None
                       else match upd_path ch rest f with Some ch' => Some (JO c d (aset str_eqb k ch' m) s) | None => None end
          | None => None
          end
      | _ => None
      end
  | PIdx i :: rest =>
      match j with
      | JA c d l s =>
          if (0 <=? i)%Z && (i <? s)%Z
          then match nth_live l (Z.to_nat i) with
               | Some ch => match upd_path ch rest f with Some ch' => Some (JA c d (set_nth_live l (Z.to_nat i) ch') s) | None => None end
               | None => None
               end
          else None
      | _ => None
      end
  end.

(* updating the container at [path] by f changes the readable value exactly at [path], by the plain counterpart of f *)
Theorem upd_path_view (f : jt -> option jt) (fv : val -> val) :
  (forall x x', wft x -> jtomb x = false -> f x = Some x' -> jview x' = fv (jview x) /\ jtomb x' = false) ->
  forall path j j', wft j -> jtomb j = false -> upd_path j path f = Some j' ->
    jview j' = vupd (jview j) path fv /\ jtomb j' = false.
Proof.
  intros Hf. induction path as [|seg rest IH]; intros j j' Hw Hl; cbn [upd_path vupd]; [apply Hf; assumption|].
  destruct seg as [k|i].
  - destruct j as [| c d m s |]; try discriminate. destruct Hw as [Hnd Hch].
    destruct (alookup str_eqb k m) as [ch|] eqn:E; [|discriminate]. destruct (jtomb ch) eqn:Tch; [discriminate|].
    destruct (upd_path ch rest f) as [ch'|] eqn:Eu; [|discriminate]. intros [= <-].
    destruct (IH ch ch' (wft_obj_child _ _ _ Hch E) Tch Eu) as [V T]. split; [|exact Hl].
    rewrite (obj_set_view c d m s k ch' Hnd T (alookup_some_in _ _ _ E)). rewrite jview_obj.
    assert (L : alookup str_eqb k (sort_by_key (omem m)) = Some (jview ch)).
    { rewrite <- (alookup_perm (omem m) (sort_by_key (omem m)) k (omem_nodup _ Hnd) (sort_perm _)). apply alookup_omem; assumption. }
    cbn [vupd]. rewrite L, V. reflexivity.
  - destruct j as [| | c d l s]; try discriminate. destruct Hw as [Hs Hch].
    destruct ((0 <=? i)%Z && (i <? s)%Z); [|discriminate]. destruct (nth_live l (Z.to_nat i)) as [ch|] eqn:E; [|discriminate].
    destruct (upd_path ch rest f) as [ch'|] eqn:Eu; [|discriminate]. intros [= <-].
    assert (Tch : jtomb ch = false).
    { clear -E. revert E. generalize (Z.to_nat i). induction l as [|[o c0] l IHl]; intros n; cbn [nth_live]; [discriminate|].
      unfold alive. cbn [snd]. destruct (jtomb c0) eqn:T0; cbn [negb]; [apply IHl|]. destruct n; [intros [= <-]; exact T0|apply IHl]. }
    destruct (IH ch ch' (wft_arr_child _ _ _ Hch E) Tch Eu) as [V T]. split; [|exact Hl].
    rewrite !jview_arr. rewrite (nth_live_amem _ _ _ E). rewrite (amem_set_nth_live l ch' T _ _ E), V. reflexivity.
Qed.

(* ---------- NodeMap lookup = path walk ---------- *)
(* the model's local calls reach their container as Go does, through the table of creation timestamps ([on_node]);
   where creation timestamps are distinct this is the update at the path the API call named *)
Lemma ts_eqb_eq a b : ts_eqb a b = true <-> a = b.
Proof.
  unfold ts_eqb. destruct a as [e1 l1 c1 d1], b as [e2 l2 c2 d2]; cbn. rewrite !andb_true_iff, !N.eqb_eq. split.
  - intros [[[-> ->] Hc] ->]. apply str_eqb_eq in Hc. subst. reflexivity.
  - intros [= -> -> -> ->]. rewrite str_eqb_refl. auto.
Qed.
Lemma ts_eqb_refl a : ts_eqb a a = true.
Proof. apply ts_eqb_eq. reflexivity. Qed.

Section JtInd.
  Variable P : jt -> Prop.
  Hypothesis He : forall c d v, P (JE c d v).
  Hypothesis Ho : forall c d m s, Forall (fun kc => P (snd kc)) m -> P (JO c d m s).
  Hypothesis Ha : forall c d l s, Forall (fun oc => P (snd oc)) l -> P (JA c d l s).
  Fixpoint jt_ind' (j : jt) : P j :=
    match j with
    | JE c d v => He c d v
    | JO c d m s => Ho c d m s ((fix go (m : list (str * jt)) : Forall (fun kc => P (snd kc)) m :=
                                  match m with [] => Forall_nil _ | x :: m' => Forall_cons _ (jt_ind' (snd x)) (go m') end) m)
    | JA c d l s => Ha c d l s ((fix go (l : list (ts * jt)) : Forall (fun oc => P (snd oc)) l :=
                                  match l with [] => Forall_nil _ | x :: l' => Forall_cons _ (jt_ind' (snd x)) (go l') end) l)
    end.
End JtInd.

Fixpoint on_list {K} (onx : jt -> option jt) (m : list (K * jt)) : option (list (K * jt)) :=
  match m with
  | [] => None
  | (k, x) :: r => match onx x with
                   | Some x' => Some ((k, x') :: r)
                   | None => option_map (cons (k, x)) (on_list onx r)
                   end
  end.
Lemma on_node_unfold j p f :
  on_node j p f = if ts_eqb (jc j) p then f j else
                  match j with
                  | JE _ _ _ => None
                  | JO c d m s => option_map (fun m' => JO c d m' s) (on_list (fun x => on_node x p f) m)
                  | JA c d l s => option_map (fun l' => JA c d l' s) (on_list (fun x => on_node x p f) l)
                  end.
Proof.
  destruct j as [c d v|c d m s|c d l s]; cbn [on_node jc]; destruct (ts_eqb c p); try reflexivity.
  - f_equal. induction m as [|[k x] r IH]; [reflexivity|]. cbn [on_list]. destruct (on_node x p f); [reflexivity|]. rewrite IH. reflexivity.
  - f_equal. induction l as [|[k x] r IH]; [reflexivity|]. cbn [on_list]. destruct (on_node x p f); [reflexivity|]. rewrite IH. reflexivity.
Qed.

Definition cs_of {K} (m : list (K * jt)) : list ts := flat_map (fun kc => all_cs (snd kc)) m.
Lemma all_cs_obj c d m s : all_cs (JO c d m s) = c :: cs_of m.
Proof. cbn [all_cs]. f_equal. unfold cs_of. apply flat_map_ext. intros [k x]. reflexivity. Qed.
Lemma all_cs_arr c d l s : all_cs (JA c d l s) = c :: cs_of l.
Proof. cbn [all_cs]. f_equal. unfold cs_of. apply flat_map_ext. intros [k x]. reflexivity. Qed.

Lemma on_list_none {K} onx (m : list (K * jt)) : Forall (fun kc => onx (snd kc) = None) m -> on_list onx m = None.
Proof. induction 1 as [|[k x] r Hx _ IH]; [reflexivity|]. cbn [on_list]. cbn [snd] in Hx. rewrite Hx, IH. reflexivity. Qed.

Lemma on_node_notin p f j : ~ In p (all_cs j) -> on_node j p f = None.
Proof.
  induction j as [c d v|c d m s IH|c d l s IH] using jt_ind'; intros Hn; rewrite on_node_unfold; cbn [jc].
  - destruct (ts_eqb c p) eqn:E; [|reflexivity]. apply ts_eqb_eq in E. subst. exfalso. apply Hn. left. reflexivity.
  - rewrite all_cs_obj in Hn. destruct (ts_eqb c p) eqn:E; [apply ts_eqb_eq in E; subst; exfalso; apply Hn; left; reflexivity|].
    rewrite on_list_none; [reflexivity|]. clear E. unfold cs_of in Hn.
    induction IH as [|kc r Hx _ IHr]; constructor.
    + apply Hx. intros Hin. apply Hn. right. cbn [flat_map]. apply in_or_app. left. exact Hin.
    + apply IHr. intros [H|H]; apply Hn; [left; exact H|right; cbn [flat_map]; apply in_or_app; right; exact H].
  - rewrite all_cs_arr in Hn. destruct (ts_eqb c p) eqn:E; [apply ts_eqb_eq in E; subst; exfalso; apply Hn; left; reflexivity|].
    rewrite on_list_none; [reflexivity|]. clear E. unfold cs_of in Hn.
    induction IH as [|kc r Hx _ IHr]; constructor.
    + apply Hx. intros Hin. apply Hn. right. cbn [flat_map]. apply in_or_app. left. exact Hin.
    + apply IHr. intros [H|H]; apply Hn; [left; exact H|right; cbn [flat_map]; apply in_or_app; right; exact H].
Qed.

Lemma jc_in_all_cs j : In (jc j) (all_cs j).
Proof. destruct j; cbn; left; reflexivity. Qed.

Lemma alookup_cs m k ch x : alookup str_eqb k m = Some ch -> In x (all_cs ch) -> In x (cs_of m).
Proof.
  induction m as [|[k0 c0] m IH]; cbn [alookup]; [discriminate|]. unfold cs_of. cbn [flat_map snd]. destruct (str_eqb k k0).
  - intros [= ->] H. apply in_or_app. left. exact H.
  - intros H1 H2. apply in_or_app. right. apply IH; assumption.
Qed.
Lemma nth_live_cs l : forall n ch x, nth_live l n = Some ch -> In x (all_cs ch) -> In x (cs_of l).
Proof.
  induction l as [|[o c0] l IH]; intros n ch x; cbn [nth_live]; [discriminate|]. unfold cs_of. cbn [flat_map snd].
  destruct (alive (o, c0)).
  - destruct n as [|n]; [intros [= ->] H; apply in_or_app; left; exact H|]. intros H1 H2. apply in_or_app. right. eapply IH; eauto.
  - intros H1 H2. apply in_or_app. right. eapply IH; eauto.
Qed.

Lemma resolve_in_cs : forall path s j, resolve s path = Some j -> In (jc j) (all_cs s).
Proof.
  induction path as [|seg rest IH]; intros s j; cbn [resolve]; [intros [= ->]; apply jc_in_all_cs|].
  destruct seg as [k|i].
  - destruct s as [|c d m sz|]; try discriminate. destruct (alookup str_eqb k m) as [ch|] eqn:E; [|discriminate].
    destruct (jtomb ch); [discriminate|]. intros H. rewrite all_cs_obj. right. eapply alookup_cs; [exact E|]. apply IH. exact H.
  - destruct s as [| |c d l sz]; try discriminate. destruct ((0 <=? i)%Z && (i <? sz)%Z); [|discriminate].
    destruct (nth_live l (Z.to_nat i)) as [ch|] eqn:E; [|discriminate]. intros H. rewrite all_cs_arr. right.
    eapply nth_live_cs; [exact E|]. apply IH. exact H.
Qed.

Lemma NoDup_app_inv {A} (a b : list A) : NoDup (a ++ b) -> NoDup a /\ NoDup b /\ (forall x, In x a -> ~ In x b).
Proof.
  induction a as [|x a IH]; cbn [app]; intros H; [split; [constructor|split; [exact H|intros ? []]]|].
  inversion H as [|? ? Hn Hd]; subst. destruct (IH Hd) as [Ha [Hb Hdis]]. split; [|split; [exact Hb|]].
  - constructor; [|exact Ha]. intros Hin. apply Hn. apply in_or_app. left. exact Hin.
  - intros y [<-|Hy] Hyb; [apply Hn; apply in_or_app; right; exact Hyb|exact (Hdis y Hy Hyb)].
Qed.

Lemma cs_of_cons {K} (kc : K * jt) m : cs_of (kc :: m) = all_cs (snd kc) ++ cs_of m.
Proof. reflexivity. Qed.

(* among members whose creation timestamps are pairwise distinct, the table lookup lands in the member the key names *)
Lemma on_list_obj p f m : forall k ch,
  NoDup (cs_of m) -> alookup str_eqb k m = Some ch -> In p (all_cs ch) ->
  on_list (fun x => on_node x p f) m = option_map (fun ch' => aset str_eqb k ch' m) (on_node ch p f).
Proof.
  induction m as [|[k0 x] r IH]; intros k ch Hnd; cbn [alookup]; [discriminate|].
  rewrite cs_of_cons in Hnd. cbn [snd] in Hnd. apply NoDup_app_inv in Hnd. destruct Hnd as [Hx [Hr Hdis]].
  cbn [on_list aset]. destruct (str_eqb k k0) eqn:E.
  - apply str_eqb_eq in E. subst k0. intros [= ->] Hin. destruct (on_node ch p f) as [x'|]; [reflexivity|].
    rewrite on_list_none; [reflexivity|]. apply Forall_forall. intros [k1 y] Hy. cbn [snd]. apply on_node_notin.
    intros Hp. apply (Hdis p Hin). unfold cs_of. apply in_flat_map. exists (k1, y). auto.
  - intros Hl Hin. rewrite (on_node_notin p f x).
    + rewrite (IH k ch Hr Hl Hin). destruct (on_node ch p f); reflexivity.
    + intros Hp. apply (Hdis p Hp). eapply alookup_cs; eauto.
Qed.

Lemma on_list_arr p f l : forall n ch,
  NoDup (cs_of l) -> nth_live l n = Some ch -> In p (all_cs ch) ->
  on_list (fun x => on_node x p f) l = option_map (fun ch' => set_nth_live l n ch') (on_node ch p f).
Proof.
  induction l as [|[o x] r IH]; intros n ch Hnd; cbn [nth_live]; [discriminate|].
  rewrite cs_of_cons in Hnd. cbn [snd] in Hnd. apply NoDup_app_inv in Hnd. destruct Hnd as [Hx [Hr Hdis]].
  cbn [on_list set_nth_live].
  assert (Later : forall n', nth_live r n' = Some ch -> In p (all_cs ch) ->
            match on_node x p f with
            | Some x' => Some ((o, x') :: r)
            | None => option_map (cons (o, x)) (on_list (fun x0 => on_node x0 p f) r)
            end = option_map (fun ch' => (o, x) :: set_nth_live r n' ch') (on_node ch p f)).
  { intros n' Hl Hin. rewrite (on_node_notin p f x).
    - rewrite (IH n' ch Hr Hl Hin). destruct (on_node ch p f); reflexivity.
    - intros Hp. apply (Hdis p Hp). eapply nth_live_cs; eauto. }
  destruct (alive (o, x)) eqn:Lx.
  - destruct n as [|n'].
    + intros [= ->] Hin. cbn [fst]. destruct (on_node ch p f) as [x'|]; [reflexivity|].
      rewrite on_list_none; [reflexivity|]. apply Forall_forall. intros [k1 y] Hy. cbn [snd]. apply on_node_notin.
      intros Hp. apply (Hdis p Hin). unfold cs_of. apply in_flat_map. exists (k1, y). auto.
    + apply Later.
  - apply Later.
Qed.

Theorem on_node_is_path_update f : forall path s j,
  NoDup (all_cs s) -> resolve s path = Some j -> on_node s (jc j) f = upd_path s path f.
Proof.
  induction path as [|seg rest IH]; intros s j Hnd; cbn [resolve upd_path].
  - intros [= ->]. rewrite on_node_unfold, ts_eqb_refl. reflexivity.
  - destruct seg as [k|i].
    + destruct s as [|c d m sz|]; try discriminate. destruct (alookup str_eqb k m) as [ch|] eqn:E; [|discriminate].
      destruct (jtomb ch) eqn:T; [discriminate|]. intros Hres. rewrite all_cs_obj in Hnd. inversion Hnd as [|? ? Hc Hm]; subst.
      pose proof (resolve_in_cs _ _ _ Hres) as Hin.
      rewrite on_node_unfold. cbn [jc]. destruct (ts_eqb c (jc j)) eqn:Ec.
      { apply ts_eqb_eq in Ec. exfalso. apply Hc. rewrite Ec. eapply alookup_cs; eauto. }
      rewrite (on_list_obj _ _ _ _ _ Hm E Hin).
      assert (Hch : NoDup (all_cs ch)).
      { clear -Hm E. revert E. induction m as [|[k0 x] r IHm]; cbn [alookup]; [discriminate|]. rewrite cs_of_cons in Hm. cbn [snd] in Hm.
        apply NoDup_app_inv in Hm. destruct Hm as [Hx [Hr _]]. destruct (str_eqb k k0); [intros [= <-]; exact Hx|apply IHm, Hr]. }
      rewrite (IH ch j Hch Hres). destruct (upd_path ch rest f); reflexivity.
    + destruct s as [| |c d l sz]; try discriminate. destruct ((0 <=? i)%Z && (i <? sz)%Z); [|discriminate].
      destruct (nth_live l (Z.to_nat i)) as [ch|] eqn:E; [|discriminate]. intros Hres. rewrite all_cs_arr in Hnd. inversion Hnd as [|? ? Hc Hm]; subst.
      pose proof (resolve_in_cs _ _ _ Hres) as Hin.
      rewrite on_node_unfold. cbn [jc]. destruct (ts_eqb c (jc j)) eqn:Ec.
      { apply ts_eqb_eq in Ec. exfalso. apply Hc. rewrite Ec. eapply nth_live_cs; eauto. }
      rewrite (on_list_arr _ _ _ _ _ Hm E Hin).
      assert (Hch : NoDup (all_cs ch)).
      { clear -Hm E. revert E. generalize (Z.to_nat i). induction l as [|[o x] r IHl]; intros n; cbn [nth_live]; [discriminate|]. rewrite cs_of_cons in Hm. cbn [snd] in Hm.
        apply NoDup_app_inv in Hm. destruct Hm as [Hx [Hr _]]. destruct (alive (o, x)); [destruct n; [intros [= <-]; exact Hx|apply IHl, Hr]|apply IHl, Hr]. }
      rewrite (IH ch j Hch Hres). destruct (upd_path ch rest f); reflexivity.
Qed.

(* ---------- the update at a path: readable value and well-formedness, judged at the container it reaches ---------- *)
Definition Wm (m : list (str * jt)) : Prop := fold_right (fun kc P => match kc with (_, c) => wft c /\ P end) True m.
Definition Wl (l : list (ts * jt)) : Prop := fold_right (fun oc P => match oc with (_, c) => wft c /\ P end) True l.
Lemma Wm_aset m k ch' : Wm m -> wft ch' -> Wm (aset str_eqb k ch' m).
Proof.
  induction m as [|[k0 c] m IH]; cbn [aset Wm fold_right]; [intros _ H; split; [exact H|exact I]|].
  intros [H1 H2] H. destruct (str_eqb k k0); cbn [fold_right]; [split; assumption|split; [exact H1|apply IH; assumption]].
Qed.
Lemma Wl_set_nth l ch' : wft ch' -> forall n, Wl l -> Wl (set_nth_live l n ch').
Proof.
  intros H. induction l as [|[o c] l IH]; intros n; cbn [set_nth_live Wl fold_right]; [auto|].
  intros [H1 H2]. destruct (alive (o, c)); [destruct n|]; cbn [fold_right fst]; split; auto; apply IH; exact H2.
Qed.
Lemma vset_nth_length l v : forall n, length (vset_nth l n v) = length l.
Proof. induction l as [|x l IH]; intros n; [destruct n; reflexivity|]. destruct n; cbn; [reflexivity|f_equal; apply IH]. Qed.
Lemma nth_live_not_tomb l : forall n ch, nth_live l n = Some ch -> jtomb ch = false.
Proof.
  induction l as [|[o c0] l IHl]; intros n ch; cbn [nth_live]; [discriminate|].
  unfold alive. cbn [snd]. destruct (jtomb c0) eqn:T0; cbn [negb]; [apply IHl|]. destruct n; [intros [= <-]; exact T0|apply IHl].
Qed.

Theorem upd_path_at (f : jt -> option jt) (fv : val -> val) : forall path j j' tg,
  wft j -> jtomb j = false -> resolve j path = Some tg ->
  (wft tg -> jtomb tg = false -> forall x', f tg = Some x' -> jview x' = fv (jview tg) /\ jtomb x' = false /\ wft x') ->
  upd_path j path f = Some j' ->
  jview j' = vupd (jview j) path fv /\ jtomb j' = false /\ wft j'.
Proof.
  induction path as [|seg rest IH]; intros j j' tg Hw Hl; cbn [upd_path vupd resolve].
  - intros [= <-] Hf H. apply Hf; assumption.
  - destruct seg as [k|i].
    + destruct j as [| c d m s |]; try discriminate. destruct Hw as [Hnd Hch].
      destruct (alookup str_eqb k m) as [ch|] eqn:E; [|discriminate]. destruct (jtomb ch) eqn:Tch; [discriminate|].
      intros Hres Hf. destruct (upd_path ch rest f) as [ch'|] eqn:Eu; [|discriminate]. intros [= <-].
      destruct (IH ch ch' tg (wft_obj_child _ _ _ Hch E) Tch Hres Hf Eu) as [V [T W]]. split; [|split; [exact Hl|]].
      * rewrite (obj_set_view c d m s k ch' Hnd T (alookup_some_in _ _ _ E)). rewrite jview_obj.
        assert (L : alookup str_eqb k (sort_by_key (omem m)) = Some (jview ch)).
        { rewrite <- (alookup_perm (omem m) (sort_by_key (omem m)) k (omem_nodup _ Hnd) (sort_perm _)). apply alookup_omem; assumption. }
        cbn [vupd]. rewrite L, V. reflexivity.
      * split; [apply aset_nodup, Hnd|apply Wm_aset; assumption].
    + destruct j as [| | c d l s]; try discriminate. destruct Hw as [Hs Hch].
      destruct ((0 <=? i)%Z && (i <? s)%Z); [|discriminate]. destruct (nth_live l (Z.to_nat i)) as [ch|] eqn:E; [|discriminate].
      intros Hres Hf. destruct (upd_path ch rest f) as [ch'|] eqn:Eu; [|discriminate]. intros [= <-].
      pose proof (nth_live_not_tomb _ _ _ E) as Tch.
      destruct (IH ch ch' tg (wft_arr_child _ _ _ Hch E) Tch Hres Hf Eu) as [V [T W]]. split; [|split; [exact Hl|]].
      * rewrite !jview_arr. rewrite (nth_live_amem _ _ _ E). rewrite (amem_set_nth_live l ch' T _ _ E), V. reflexivity.
      * split; [|apply Wl_set_nth; assumption]. rewrite (amem_set_nth_live l ch' T _ _ E), vset_nth_length. exact Hs.
Qed.

(* the container a path reaches is itself well-formed and not deleted *)
Lemma resolve_wft : forall path j tg, wft j -> jtomb j = false -> resolve j path = Some tg -> wft tg /\ jtomb tg = false.
Proof.
  induction path as [|seg rest IH]; intros j tg Hw Hl; cbn [resolve]; [intros [= <-]; auto|].
  destruct seg as [k|i].
  - destruct j as [| c d m s |]; try discriminate. destruct Hw as [Hnd Hch].
    destruct (alookup str_eqb k m) as [ch|] eqn:E; [|discriminate]. destruct (jtomb ch) eqn:Tch; [discriminate|].
    apply IH; [exact (wft_obj_child _ _ _ Hch E)|exact Tch].
  - destruct j as [| | c d l s]; try discriminate. destruct Hw as [Hs Hch].
    destruct ((0 <=? i)%Z && (i <? s)%Z); [|discriminate]. destruct (nth_live l (Z.to_nat i)) as [ch|] eqn:E; [|discriminate].
    apply IH; [exact (wft_arr_child _ _ _ Hch E)|exact (nth_live_not_tomb _ _ _ E)].
Qed.

(* ---------- every node of the tree with its creation and deletion time; an update at a path changes only the part
   under the container it reaches ---------- *)
Fixpoint nodes (j : jt) : list (ts * option ts) :=
  match j with
  | JE c d _ => [(c, d)]
  | JO c d m _ => (c, d) :: flat_map (fun kc => match kc with (_, x) => nodes x end) m
  | JA c d l _ => (c, d) :: flat_map (fun oc => match oc with (_, x) => nodes x end) l
  end.
Definition nodes_of {K} (m : list (K * jt)) : list (ts * option ts) := flat_map (fun kc => nodes (snd kc)) m.
Lemma nodes_obj c d m s : nodes (JO c d m s) = (c, d) :: nodes_of m.
Proof. cbn [nodes]. f_equal. apply flat_map_ext. intros [k x]. reflexivity. Qed.
Lemma nodes_arr c d l s : nodes (JA c d l s) = (c, d) :: nodes_of l.
Proof. cbn [nodes]. f_equal. apply flat_map_ext. intros [k x]. reflexivity. Qed.
Lemma nodes_of_app {K} (a b : list (K * jt)) : nodes_of (a ++ b) = nodes_of a ++ nodes_of b.
Proof. apply flat_map_app. Qed.
Lemma nodes_of_cons {K} (kc : K * jt) m : nodes_of (kc :: m) = nodes (snd kc) ++ nodes_of m.
Proof. reflexivity. Qed.

Lemma map_flat_map {A B C} (g : B -> C) (f : A -> list B) l : map g (flat_map f l) = flat_map (fun a => map g (f a)) l.
Proof. induction l as [|a l IH]; [reflexivity|]. cbn. rewrite map_app, IH. reflexivity. Qed.

Lemma all_cs_nodes j : all_cs j = map fst (nodes j).
Proof.
  induction j as [c d v|c d m s IH|c d l s IH] using jt_ind'; [reflexivity| |].
  - rewrite all_cs_obj, nodes_obj. cbn [map fst]. f_equal. unfold cs_of, nodes_of. rewrite map_flat_map.
    induction IH as [|kc r Hx _ IHr]; [reflexivity|]. cbn [flat_map]. rewrite Hx, IHr. reflexivity.
  - rewrite all_cs_arr, nodes_arr. cbn [map fst]. f_equal. unfold cs_of, nodes_of. rewrite map_flat_map.
    induction IH as [|kc r Hx _ IHr]; [reflexivity|]. cbn [flat_map]. rewrite Hx, IHr. reflexivity.
Qed.

Lemma alookup_split (m : list (str * jt)) k ch : alookup str_eqb k m = Some ch ->
  exists m1 m2, m = m1 ++ (k, ch) :: m2 /\ forall ch', aset str_eqb k ch' m = m1 ++ (k, ch') :: m2.
Proof.
  induction m as [|[k0 c0] m IH]; cbn [alookup]; [discriminate|]. destruct (str_eqb k k0) eqn:E.
  - apply str_eqb_eq in E. subst k0. intros [= ->]. exists [], m. split; [reflexivity|]. intros ch'. cbn [aset]. rewrite str_eqb_refl. reflexivity.
  - intros H. destruct (IH H) as [m1 [m2 [E1 E2]]]. exists ((k0, c0) :: m1), m2. split; [rewrite E1; reflexivity|].
    intros ch'. cbn [aset]. rewrite E, E2. reflexivity.
Qed.
Lemma nth_live_split l : forall n ch, nth_live l n = Some ch ->
  exists l1 o l2, l = l1 ++ (o, ch) :: l2 /\ forall ch', set_nth_live l n ch' = l1 ++ (o, ch') :: l2.
Proof.
  induction l as [|[o c0] l IH]; intros n ch; cbn [nth_live]; [discriminate|].
  assert (Later : forall n', nth_live l n' = Some ch ->
            exists l1 o1 l2, (o, c0) :: l = l1 ++ (o1, ch) :: l2 /\ forall ch', (o, c0) :: set_nth_live l n' ch' = l1 ++ (o1, ch') :: l2).
  { intros n' H. destruct (IH n' ch H) as [l1 [o1 [l2 [E1 E2]]]]. exists ((o, c0) :: l1), o1, l2. split; [rewrite E1; reflexivity|].
    intros ch'. rewrite E2. reflexivity. }
  cbn [set_nth_live]. destruct (alive (o, c0)).
  - destruct n as [|n'].
    + intros [= ->]. exists [], o, l. split; [reflexivity|]. intros ch'. reflexivity.
    + apply Later.
  - apply Later.
Qed.

Lemma perm_ctx {A} (h : A) p q a t r : Permutation a (t ++ r) -> Permutation (h :: p ++ a ++ q) (t ++ h :: p ++ r ++ q).
Proof.
  intros H. eapply Permutation_trans; [|apply Permutation_middle]. apply perm_skip.
  eapply Permutation_trans; [apply Permutation_app_head, Permutation_app_tail, H|].
  rewrite <- app_assoc. rewrite !app_assoc. apply Permutation_app_tail. rewrite <- !app_assoc.
  eapply Permutation_trans; [apply Permutation_app_swap_app|]. reflexivity.
Qed.

Theorem upd_path_nodes f : forall path j j' tg,
  resolve j path = Some tg -> upd_path j path f = Some j' ->
  exists x' rest, f tg = Some x' /\ Permutation (nodes j) (nodes tg ++ rest) /\ Permutation (nodes j') (nodes x' ++ rest).
Proof.
  induction path as [|seg rest IH]; intros j j' tg; cbn [resolve upd_path].
  - intros [= <-] H. exists j', []. rewrite !app_nil_r. auto.
  - destruct seg as [k|i].
    + destruct j as [| c d m s |]; try discriminate.
      destruct (alookup str_eqb k m) as [ch|] eqn:E; [|discriminate]. destruct (jtomb ch); [discriminate|].
      intros Hres. destruct (upd_path ch rest f) as [ch'|] eqn:Eu; [|discriminate]. intros [= <-].
      destruct (IH ch ch' tg Hres Eu) as [x' [r0 [Hf [P1 P2]]]].
      destruct (alookup_split _ _ _ E) as [m1 [m2 [E1 E2]]].
      exists x', ((c, d) :: nodes_of m1 ++ r0 ++ nodes_of m2). split; [exact Hf|].
      rewrite !nodes_obj, (E2 ch'), E1, !nodes_of_app, !nodes_of_cons. cbn [snd]. split; apply perm_ctx; assumption.
    + destruct j as [| | c d l s]; try discriminate. destruct ((0 <=? i)%Z && (i <? s)%Z); [|discriminate].
      destruct (nth_live l (Z.to_nat i)) as [ch|] eqn:E; [|discriminate].
      intros Hres. destruct (upd_path ch rest f) as [ch'|] eqn:Eu; [|discriminate]. intros [= <-].
      destruct (IH ch ch' tg Hres Eu) as [x' [r0 [Hf [P1 P2]]]].
      destruct (nth_live_split _ _ _ E) as [l1 [o [l2 [E1 E2]]]].
      exists x', ((c, d) :: nodes_of l1 ++ r0 ++ nodes_of l2). split; [exact Hf|].
      rewrite !nodes_arr, (E2 ch'), E1, !nodes_of_app, !nodes_of_cons. cbn [snd]. split; apply perm_ctx; assumption.
Qed.

(* ---------- the tree created for a value: every node is new (the operation's timestamp, not deleted), well-formed ---------- *)
Lemma carr_shape t vs : forall i,
  Forall (fun oc => exists x ix, In x vs /\ snd oc = fst (create t x ix)) (fst (carr t vs i)) /\ length (fst (carr t vs i)) = length vs.
Proof.
  induction vs as [|x xs IH]; intros i; cbn [carr]; [split; [constructor|reflexivity]|].
  destruct (create t x i) as [j i1] eqn:E. destruct (IH i1) as [H1 H2]. destruct (carr t xs i1) as [r i2]. cbn [fst] in *. split.
  - constructor; [exists x, i; split; [left; reflexivity|rewrite E; reflexivity]|].
    eapply Forall_impl; [|exact H1]. intros oc [y [iy [Hy Ey]]]. exists y, iy. split; [right; exact Hy|exact Ey].
  - cbn [length]. rewrite H2. reflexivity.
Qed.
Lemma cobj_shape t kvs : forall i,
  Forall (fun kc => exists x ix, In x (map snd kvs) /\ snd kc = fst (create t x ix)) (fst (cobj t kvs i)) /\
  map fst (fst (cobj t kvs i)) = map fst kvs.
Proof.
  induction kvs as [|[k x] xs IH]; intros i; cbn [cobj]; [split; [constructor|reflexivity]|].
  destruct (create t x i) as [j i1] eqn:E. destruct (IH i1) as [H1 H2]. destruct (cobj t xs i1) as [r i2]. cbn [fst] in *. split.
  - constructor; [exists x, i; split; [left; reflexivity|rewrite E; reflexivity]|].
    eapply Forall_impl; [|exact H1]. intros oc [y [iy [Hy Ey]]]. exists y, iy. split; [right; exact Hy|exact Ey].
  - cbn [map fst]. rewrite H2. reflexivity.
Qed.

Definition newnode (t : ts) (n : ts * option ts) : Prop := snd n = None /\ exists k, fst n = ts_at t k.
Lemma create_clean t v : forall i, Forall (newnode t) (nodes (fst (create t v i))).
Proof.
  induction v as [z|s|b|vs IH|kvs IH] using val_ind'; intros i;
    try (cbn; constructor; [split; [reflexivity|eexists; reflexivity]|constructor]).
  - rewrite create_arr. destruct (carr_shape t vs (i + 1)) as [Hs _]. destruct (carr t vs (i + 1)) as [l i']. cbn [fst] in *.
    rewrite nodes_arr. constructor; [split; [reflexivity|eexists; reflexivity]|].
    unfold nodes_of. apply Forall_forall. intros n Hn. apply in_flat_map in Hn. destruct Hn as [oc [Hoc Hn]].
    rewrite Forall_forall in Hs. destruct (Hs oc Hoc) as [x [ix [Hx Ex]]]. rewrite Ex in Hn.
    rewrite Forall_forall in IH. exact (proj1 (Forall_forall _ _) (IH x Hx ix) n Hn).
  - rewrite create_obj. destruct (cobj_shape t kvs (i + 1)) as [Hs _]. destruct (cobj t kvs (i + 1)) as [m i']. cbn [fst] in *.
    rewrite nodes_obj. constructor; [split; [reflexivity|eexists; reflexivity]|].
    unfold nodes_of. apply Forall_forall. intros n Hn. apply in_flat_map in Hn. destruct Hn as [kc [Hkc Hn]].
    rewrite Forall_forall in Hs. destruct (Hs kc Hkc) as [x [ix [Hx Ex]]]. rewrite Ex in Hn.
    apply in_map_iff in Hx. destruct Hx as [kv [Ekv Hkv]]. rewrite Forall_forall in IH. specialize (IH kv Hkv). rewrite Ekv in IH.
    exact (proj1 (Forall_forall _ _) (IH ix) n Hn).
Qed.

Lemma amem_all_live l : Forall (fun oc => jtomb (snd oc) = false) l -> length (amem l) = length l.
Proof.
  induction 1 as [|[o c] l Hx _ IH]; [reflexivity|]. cbn [snd] in Hx. unfold amem. cbn [flat_map]. rewrite Hx. cbn [app length].
  f_equal. exact IH.
Qed.

Lemma create_wft t v : canon v -> forall i, wft (fst (create t v i)).
Proof.
  induction v as [z|s|b|vs IH|kvs IH] using val_ind'; intros Hc i; try exact I.
  - inversion Hc as [| | |? Hvs|]; subst. rewrite create_arr. destruct (carr_shape t vs (i + 1)) as [Hs _].
    destruct (carr t vs (i + 1)) as [l i']. cbn [fst] in *. cbn [wft]. split.
    + rewrite amem_all_live; [reflexivity|]. eapply Forall_impl; [|exact Hs]. intros oc [x [ix [_ Ex]]]. rewrite Ex. apply create_not_tomb.
    + change (Wl l). clear -Hs IH Hvs. induction Hs as [|[o c] r [x [ix [Hx Ex]]] _ IHr]; [exact I|]. cbn [Wl fold_right]. split; [|exact IHr].
      cbn [snd] in Ex. rewrite Ex. rewrite Forall_forall in IH, Hvs. apply IH; auto.
  - inversion Hc as [| | | |? Hso Hkvs]; subst. rewrite create_obj. destruct (cobj_shape t kvs (i + 1)) as [Hs Hk].
    destruct (cobj t kvs (i + 1)) as [m i']. cbn [fst] in *. cbn [wft]. split.
    + rewrite Hk. apply ksorted_nodup, Hso.
    + change (Wm m). clear -Hs IH Hkvs. induction Hs as [|[k c] r [x [ix [Hx Ex]]] _ IHr]; [exact I|]. cbn [Wm fold_right]. split; [|exact IHr].
      cbn [snd] in Ex. rewrite Ex. apply in_map_iff in Hx. destruct Hx as [kv [Ekv Hkv]]. rewrite Forall_forall in IH, Hkvs.
      rewrite <- Ekv. apply IH; auto.
Qed.

(* ---------- what a local array call does to the stored list: elements are kept, marked deleted at the operation's
   time, replaced by a new tree, or new trees are inserted — the new trees used in order, each once ---------- *)
Inductive ledit (t : ts) : list (ts * jt) -> list jt -> list (ts * jt) -> Prop :=
| LE_nil : ledit t [] [] []
| LE_keep x l ns l' : ledit t l ns l' -> ledit t (x :: l) ns (x :: l')
| LE_kill x k l ns l' : ledit t l ns l' -> ledit t (x :: l) ns ((fst x, set_d (snd x) (ts_at t k)) :: l')
| LE_repl x n l ns l' : ledit t l ns l' -> ledit t (x :: l) (n :: ns) ((fst x, n) :: l')
| LE_ins o n l ns l' : ledit t l ns l' -> ledit t l (n :: ns) ((o, n) :: l').

Lemma ledit_refl t l : ledit t l [] l.
Proof. induction l; constructor; assumption. Qed.

Lemma wft_set_d x d : wft x -> wft (set_d x d).
Proof. destruct x; cbn; auto. Qed.
Lemma nodes_set_d x d : nodes (set_d x d) = (jc x, Some d) :: tl (nodes x).
Proof. destruct x; reflexivity. Qed.
Lemma nodes_head x : nodes x = (jc x, jd x) :: tl (nodes x).
Proof. destruct x; reflexivity. Qed.
Lemma all_cs_set_d x d : all_cs (set_d x d) = all_cs x.
Proof. destruct x; reflexivity. Qed.

Lemma ledit_wl t l ns l' : ledit t l ns l' -> Wl l -> Forall wft ns -> Wl l'.
Proof.
  induction 1 as [|[o x] l ns l' _ IH|[o x] k l ns l' _ IH|[o x] n l ns l' _ IH|o n l ns l' _ IH]; intros Hl Hn.
  - exact I.
  - destruct Hl as [Hx Hl]. split; [exact Hx|exact (IH Hl Hn)].
  - destruct Hl as [Hx Hl]. split; [apply wft_set_d; exact Hx|exact (IH Hl Hn)].
  - destruct Hl as [Hx Hl]. inversion Hn as [|? ? Hn1 Hn2]; subst. split; [exact Hn1|exact (IH Hl Hn2)].
  - inversion Hn as [|? ? Hn1 Hn2]; subst. split; [exact Hn1|exact (IH Hl Hn2)].
Qed.

Lemma ledit_cs t l ns l' : ledit t l ns l' ->
  exists dropped, Permutation (cs_of l ++ flat_map all_cs ns) (cs_of l' ++ dropped).
Proof.
  induction 1 as [|[o x] l ns l' _ IH|[o x] k l ns l' _ IH|[o x] n l ns l' _ IH|o n l ns l' _ IH].
  - exists []. reflexivity.
  - destruct IH as [dr P]. exists dr. rewrite !cs_of_cons. cbn [snd]. rewrite <- !app_assoc. apply Permutation_app_head. exact P.
  - destruct IH as [dr P]. exists dr. rewrite !cs_of_cons. cbn [snd]. rewrite all_cs_set_d, <- !app_assoc. apply Permutation_app_head. exact P.
  - destruct IH as [dr P]. exists (all_cs x ++ dr). rewrite !cs_of_cons. cbn [snd flat_map]. rewrite <- !app_assoc.
    (* cs x ++ cs l ++ cs n ++ F ns  ~  cs n ++ cs l' ++ cs x ++ dr *)
    eapply Permutation_trans; [apply Permutation_app_head, Permutation_app_swap_app|].
    eapply Permutation_trans; [apply Permutation_app_swap_app|]. apply Permutation_app_head.
    eapply Permutation_trans; [apply Permutation_app_head, P|].
    eapply Permutation_trans; [apply Permutation_app_swap_app|]. apply Permutation_app_head. reflexivity.
  - destruct IH as [dr P]. exists dr. rewrite !cs_of_cons. cbn [snd flat_map]. rewrite <- !app_assoc.
    eapply Permutation_trans; [apply Permutation_app_swap_app|]. apply Permutation_app_head. exact P.
Qed.

Lemma ledit_nodes t (P : ts * option ts -> Prop) l ns l' : ledit t l ns l' ->
  (forall c d k, P (c, d) -> P (c, Some (ts_at t k))) ->
  Forall P (nodes_of l) -> Forall P (flat_map nodes ns) -> Forall P (nodes_of l').
Proof.
  intros H Hk. induction H as [|[o x] l ns l' _ IH|[o x] k l ns l' _ IH|[o x] n l ns l' _ IH|o n l ns l' _ IH]; intros Hl Hn.
  - constructor.
  - rewrite nodes_of_cons in *. cbn [snd] in *. apply Forall_app in Hl. destruct Hl. apply Forall_app. split; auto.
  - rewrite nodes_of_cons in *. cbn [snd] in *. apply Forall_app in Hl. destruct Hl as [Hx Hl]. apply Forall_app. split; [|auto].
    rewrite nodes_set_d. rewrite (nodes_head x) in Hx. inversion Hx; subst. constructor; [eapply Hk; eauto|assumption].
  - rewrite nodes_of_cons in *. cbn [snd flat_map] in *. apply Forall_app in Hl. destruct Hl. apply Forall_app in Hn. destruct Hn.
    apply Forall_app. split; auto.
  - rewrite nodes_of_cons. cbn [snd flat_map] in *. apply Forall_app in Hn. destruct Hn. apply Forall_app. split; auto.
Qed.

Lemma ains_local_ledit t ns : forall l pos l' tg,
  ains_local l pos (map (fun n => (jtime n, n)) ns) = Some (l', tg) -> ledit t l ns l'.
Proof.
  assert (Front : forall l, ledit t l ns (map (fun n => (jtime n, n)) ns ++ l)).
  { intros l. induction ns as [|n ns IH]; cbn [map app]; [apply ledit_refl|]. constructor. exact IH. }
  induction l as [|x l IH]; intros pos l' tg.
  - destruct pos; cbn [ains_local]; [|discriminate]. intros [= <- _]. apply Front.
  - destruct pos as [|p]; cbn [ains_local]; [intros [= <- _]; apply Front|].
    destruct (alive x).
    + destruct p as [|p'].
      * intros [= <- _]. constructor. apply Front.
      * destruct (ains_local l (S p') _) as [[l0 t0]|] eqn:E; [|discriminate]. intros [= <- _]. constructor. eapply IH; eauto.
    + destruct (ains_local l (S p) _) as [[l0 t0]|] eqn:E; [|discriminate]. intros [= <- _]. constructor. eapply IH; eauto.
Qed.

Lemma adel_local_ledit t : forall l pos num i l' tgs,
  adel_local l pos num t i = Some (l', tgs) -> ledit t l [] l'.
Proof.
  induction l as [|x l IH]; intros pos num i l' tgs; destruct num as [|num']; cbn [adel_local]; try discriminate;
    try (intros [= <- _]; apply ledit_refl).
  destruct (alive x).
  - destruct pos as [|pos'].
    + destruct (adel_local l 0 num' t (i + 1)) as [[l0 t0]|] eqn:E; [|discriminate]. intros [= <- _]. constructor. eapply IH; eauto.
    + destruct (adel_local l pos' (S num') t i) as [[l0 t0]|] eqn:E; [|discriminate]. intros [= <- _]. constructor. eapply IH; eauto.
  - destruct (adel_local l pos (S num') t i) as [[l0 t0]|] eqn:E; [|discriminate]. intros [= <- _]. constructor. eapply IH; eauto.
Qed.

Lemma aupd_local_ledit t : forall l pos vs i l' tgs,
  aupd_local l pos vs t i = Some (l', tgs) -> ledit t l (fst (create_many t vs i)) l'.
Proof.
  induction l as [|x l IH]; intros pos vs i l' tgs; destruct vs as [|v vs']; cbn [aupd_local create_many]; try discriminate;
    try (intros [= <- _]; apply ledit_refl).
  destruct (alive x).
  - destruct pos as [|pos'].
    + destruct (create t v i) as [n i1] eqn:Ec. destruct (aupd_local l 0 vs' t i1) as [[l0 t0]|] eqn:E; [|discriminate].
      intros [= <- _]. specialize (IH _ _ _ _ _ E). destruct (create_many t vs' i1) as [r i2]. cbn [fst] in *. constructor. exact IH.
    + destruct (aupd_local l pos' (v :: vs') t i) as [[l0 t0]|] eqn:E; [|discriminate]. intros [= <- _]. constructor.
      specialize (IH _ _ _ _ _ E). cbn [create_many] in IH. exact IH.
  - destruct (aupd_local l pos (v :: vs') t i) as [[l0 t0]|] eqn:E; [|discriminate]. intros [= <- _]. constructor.
    specialize (IH _ _ _ _ _ E). cbn [create_many] in IH. exact IH.
Qed.

(* ---------- several values created by one operation ---------- *)
Lemma create_many_ids t vs : forall i, exists n, flat_map all_cs (fst (create_many t vs i)) = map (ts_at t) (nrange i n).
Proof.
  induction vs as [|x xs IH]; intros i; cbn [create_many]; [exists 0%nat; reflexivity|].
  pose proof (create_ids t x i) as Hx. destruct (create t x i) as [j i1]. destruct Hx as [E1 E2].
  destruct (IH i1) as [n' En]. destruct (create_many t xs i1) as [r i2]. cbn [fst flat_map] in *.
  exists (vcount x + n')%nat. rewrite E2, En, nrange_app, map_app. subst i1. reflexivity.
Qed.
Lemma map_ts_at_nodup t l : NoDup l -> NoDup (map (ts_at t) l).
Proof.
  induction l as [|a l IH]; cbn; intros H; [constructor|]. inversion H as [|? ? Hn Hd]; subst. constructor; [|apply IH, Hd].
  intros Hin. apply in_map_iff in Hin. destruct Hin as [b [E Hb]]. apply ts_at_inj in E. subst b. contradiction.
Qed.
Lemma create_many_shape t vs : forall i,
  Forall (fun n => exists x ix, In x vs /\ n = fst (create t x ix)) (fst (create_many t vs i)) /\
  length (fst (create_many t vs i)) = length vs.
Proof.
  induction vs as [|x xs IH]; intros i; cbn [create_many]; [split; [constructor|reflexivity]|].
  destruct (create t x i) as [j i1] eqn:E. destruct (IH i1) as [H1 H2]. destruct (create_many t xs i1) as [r i2]. cbn [fst] in *. split.
  - constructor; [exists x, i; split; [left; reflexivity|rewrite E; reflexivity]|].
    eapply Forall_impl; [|exact H1]. intros n [y [iy [Hy Ey]]]. exists y, iy. split; [right; exact Hy|exact Ey].
  - cbn [length]. rewrite H2. reflexivity.
Qed.
Lemma create_many_view t vs : Forall canon vs -> forall i,
  amem (map (fun n => (jtime n, n)) (fst (create_many t vs i))) = vs.
Proof.
  induction 1 as [|x xs Cx _ IH]; intros i; cbn [create_many]; [reflexivity|].
  pose proof (create_view t x Cx i) as Ex. pose proof (create_not_tomb t x i) as Tx. destruct (create t x i) as [j i1]. cbn [fst] in Ex, Tx.
  specialize (IH i1). destruct (create_many t xs i1) as [r i2]. cbn [fst map] in *.
  rewrite amem_cons_live by (unfold alive; cbn [snd]; rewrite Tx; reflexivity). cbn [snd]. rewrite Ex, IH. reflexivity.
Qed.

(* ---------- the invariant of a document replica and how a local change at one container carries to the tree ---------- *)
Definition older (t x : ts) : Prop := ts_bounded x /\ klt (key_of x) (key_of t) = true.
Definition below (t : ts) (n : ts * option ts) : Prop :=
  older t (fst n) /\ match snd n with Some d => older t d | None => True end.
Definition upto (t x : ts) : Prop := older t x \/ exists k, x = ts_at t k.
Definition upton (t : ts) (n : ts * option ts) : Prop :=
  upto t (fst n) /\ match snd n with Some d => upto t d | None => True end.

(* what a local call with timestamp t leaves at the container tg it works on *)
Definition local_ok (t : ts) (tg x' : jt) : Prop :=
  wft x' /\ jtomb x' = false /\ NoDup (all_cs x') /\
  (forall y, In y (all_cs x') -> In y (all_cs tg) \/ exists k, y = ts_at t k) /\
  Forall (upton t) (nodes x').

Lemma below_upton t n : below t n -> upton t n.
Proof. intros [H1 H2]. split; [left; exact H1|]. destruct (snd n); [left; exact H2|exact I]. Qed.

Lemma older_not_new t x k : older t x -> x <> ts_at t k.
Proof. intros [_ H] ->. change (key_of (ts_at t k)) with (key_of t) in H. rewrite klt_irrefl in H. discriminate. Qed.

Lemma NoDup_app_intro {A} (a b : list A) : NoDup a -> NoDup b -> (forall x, In x a -> ~ In x b) -> NoDup (a ++ b).
Proof.
  induction a as [|x a IH]; cbn [app]; intros Ha Hb Hd; [exact Hb|]. inversion Ha as [|? ? Hn Ha']; subst. constructor.
  - intros Hin. apply in_app_or in Hin. destruct Hin as [Hin|Hin]; [exact (Hn Hin)|exact (Hd x (or_introl eq_refl) Hin)].
  - apply IH; [exact Ha'|exact Hb|]. intros y Hy. apply Hd. right. exact Hy.
Qed.

Theorem local_change_lifts t f fv path s s' tg x' :
  wft s -> jtomb s = false -> NoDup (all_cs s) -> Forall (below t) (nodes s) ->
  resolve s path = Some tg -> f tg = Some x' -> jview x' = fv (jview tg) -> local_ok t tg x' ->
  upd_path s path f = Some s' ->
  jview s' = vupd (jview s) path fv /\ wft s' /\ jtomb s' = false /\ NoDup (all_cs s') /\ Forall (upton t) (nodes s').
Proof.
  intros Hw Hl Hnd Hb Hres Hf Hv [Kw [Kt [Kn [Kc Ku]]]] Hu.
  destruct (upd_path_at f fv path s s' tg Hw Hl Hres) as [V [T W]]; [intros _ _ x Hx; rewrite Hf in Hx; injection Hx as <-; auto|exact Hu|].
  destruct (upd_path_nodes f path s s' tg Hres Hu) as [x0 [rest [Hf0 [P1 P2]]]]. rewrite Hf in Hf0. injection Hf0 as <-.
  split; [exact V|]. split; [exact W|]. split; [exact T|]. split.
  - rewrite (all_cs_nodes s) in Hnd. rewrite (all_cs_nodes s').
    assert (Q1 := Permutation_map fst P1). assert (Q2 := Permutation_map fst P2). rewrite map_app in Q1, Q2.
    apply (Permutation_NoDup (Permutation_sym Q2)). pose proof (Permutation_NoDup Q1 Hnd) as Hnd'.
    apply NoDup_app_inv in Hnd'. destruct Hnd' as [_ [Hr Hdis]].
    apply NoDup_app_intro; [rewrite <- all_cs_nodes; exact Kn|exact Hr|].
    intros y Hy Hyr. rewrite <- all_cs_nodes in Hy. destruct (Kc y Hy) as [Hin|[k ->]].
    + rewrite all_cs_nodes in Hin. exact (Hdis y Hin Hyr).
    + apply in_map_iff in Hyr. destruct Hyr as [n [En Hn]].
      assert (Hn' : In n (nodes s)) by (apply (Permutation_in _ (Permutation_sym P1)); apply in_or_app; right; exact Hn).
      rewrite Forall_forall in Hb. destruct (Hb n Hn') as [Ho _]. rewrite En in Ho. exact (older_not_new _ _ _ Ho eq_refl).
  - apply (Permutation_Forall (Permutation_sym P2)). apply Forall_app. split; [exact Ku|].
    apply Forall_forall. intros n Hn. apply below_upton. rewrite Forall_forall in Hb. apply Hb.
    apply (Permutation_in _ (Permutation_sym P1)). apply in_or_app. right. exact Hn.
Qed.

(* ---------- the five local calls at the container they work on ---------- *)
Lemma ts_bounded_at t k : ts_bounded t -> ts_bounded (ts_at t k).
Proof. intros H. exact H. Qed.
Lemma older_lt t x k : ts_bounded t -> older t x -> ts_lt x (ts_at t k) = true.
Proof. intros Ht [Hx H]. rewrite (ts_lt_klt _ _ Hx (ts_bounded_at t k Ht)). exact H. Qed.

Lemma below_cs t j y : Forall (below t) (nodes j) -> In y (all_cs j) -> older t y.
Proof.
  intros H Hy. rewrite all_cs_nodes in Hy. apply in_map_iff in Hy. destruct Hy as [n [<- Hn]].
  rewrite Forall_forall in H. exact (proj1 (H n Hn)).
Qed.
Lemma below_jtime t j : Forall (below t) (nodes j) -> older t (jtime j).
Proof.
  intros H. rewrite (nodes_head j) in H. inversion H as [|? ? [H1 H2] _]; subst. cbn [fst snd] in *.
  unfold jtime. destruct (jd j); assumption.
Qed.
Lemma below_child_obj t m k ch : Forall (below t) (nodes_of m) -> alookup str_eqb k m = Some ch -> Forall (below t) (nodes ch).
Proof.
  intros H E. destruct (alookup_split _ _ _ E) as [m1 [m2 [-> _]]]. rewrite nodes_of_app, nodes_of_cons in H. cbn [snd] in H.
  apply Forall_app in H. destruct H as [_ H]. apply Forall_app in H. exact (proj1 H).
Qed.

Lemma cs_step t c (old_cs new_cs extra dropped : list ts) :
  NoDup (c :: old_cs) -> (forall y, In y (c :: old_cs) -> older t y) ->
  NoDup extra -> (forall y, In y extra -> exists k, y = ts_at t k) ->
  Permutation (old_cs ++ extra) (new_cs ++ dropped) ->
  NoDup (c :: new_cs) /\ (forall y, In y (c :: new_cs) -> In y (c :: old_cs) \/ exists k, y = ts_at t k).
Proof.
  intros Hnd Hold Hex Hnew P. inversion Hnd as [|? ? Hc Ho]; subst.
  assert (Hsub : forall y, In y new_cs -> In y old_cs \/ In y extra).
  { intros y Hy. apply in_app_or. apply (Permutation_in _ (Permutation_sym P)). apply in_or_app. left. exact Hy. }
  assert (N1 : NoDup (old_cs ++ extra)).
  { apply NoDup_app_intro; [exact Ho|exact Hex|]. intros y Hy He. destruct (Hnew y He) as [k ->].
    exact (older_not_new _ _ _ (Hold _ (or_intror Hy)) eq_refl). }
  pose proof (Permutation_NoDup P N1) as N2. apply NoDup_app_inv in N2. destruct N2 as [N2 _]. split.
  - constructor; [|exact N2]. intros Hin. destruct (Hsub c Hin) as [H|H]; [exact (Hc H)|].
    destruct (Hnew c H) as [k E]. exact (older_not_new _ _ _ (Hold c (or_introl eq_refl)) E).
  - intros y [<-|Hy]; [left; left; reflexivity|]. destruct (Hsub y Hy) as [H|H]; [left; right; exact H|right; exact (Hnew y H)].
Qed.

Lemma newnode_cs t j y : Forall (newnode t) (nodes j) -> In y (all_cs j) -> exists k, y = ts_at t k.
Proof.
  intros H Hy. rewrite all_cs_nodes in Hy. apply in_map_iff in Hy. destruct Hy as [n [<- Hn]].
  rewrite Forall_forall in H. exact (proj2 (H n Hn)).
Qed.
Lemma newnode_upton t n : newnode t n -> upton t n.
Proof. intros [H1 [k H2]]. split; [right; exists k; exact H2|rewrite H1; exact I]. Qed.

Theorem put_local_ok t tg k v x' :
  ts_bounded t -> canon v -> wft tg -> jtomb tg = false -> NoDup (all_cs tg) -> Forall (below t) (nodes tg) ->
  obj_put tg k (fst (create t v 0)) = Some x' ->
  jview x' = vput k v (jview tg) /\ local_ok t tg x'.
Proof.
  intros Ht Cv Hw Hl Hnd Hb. destruct tg as [|c d m s|]; try discriminate.
  set (child := fst (create t v 0)).
  pose proof (create_not_tomb t v 0) as Tch. pose proof (create_view t v Cv 0) as Vch. pose proof (create_wft t v Cv 0) as Wch.
  pose proof (create_ids_distinct t v 0) as Nch. pose proof (create_clean t v 0) as Cch. fold child in Tch, Vch, Wch, Nch, Cch.
  destruct Hw as [Hk Hm]. rewrite nodes_obj in Hb. destruct (proj1 (Forall_cons_iff _ _ _) Hb) as [Hb0 Hbm].
  intros Hp. split.
  - rewrite <- Vch. apply (obj_put_view c d m s k child x' Hk Tch); [|exact Hp].
    intros old E. assert (Hj : jtime child = jc child) by (unfold jtime; unfold jtomb in Tch; destruct (jd child); [discriminate|reflexivity]).
    rewrite Hj. destruct (newnode_cs t child (jc child) Cch (jc_in_all_cs child)) as [k0 Ek0]. rewrite Ek0.
    apply older_lt; [exact Ht|]. apply below_jtime. eapply below_child_obj; eauto.
  - rewrite all_cs_obj in Hnd.
    assert (Hold : forall y, In y (c :: cs_of m) -> older t y).
    { intros y Hy. apply (below_cs t (JO c d m s)); [rewrite nodes_obj; exact Hb|rewrite all_cs_obj; exact Hy]. }
    cbn [obj_put] in Hp. destruct (alookup str_eqb k m) as [old|] eqn:E.
    + assert (Hlt : ts_lt (jtime old) (jtime child) = true).
      { assert (Hj : jtime child = jc child) by (unfold jtime; unfold jtomb in Tch; destruct (jd child); [discriminate|reflexivity]).
        rewrite Hj. destruct (newnode_cs t child (jc child) Cch (jc_in_all_cs child)) as [k0 Ek0]. rewrite Ek0.
        apply older_lt; [exact Ht|]. apply below_jtime. eapply below_child_obj; eauto. }
      rewrite Hlt in Hp. injection Hp as <-.
      destruct (alookup_split _ _ _ E) as [m1 [m2 [E1 E2]]].
      destruct (cs_step t c (cs_of m) (cs_of (aset str_eqb k child m)) (all_cs child) (all_cs old) Hnd Hold Nch (fun y => newnode_cs t child y Cch)) as [K1 K2].
      { rewrite (E2 child), E1. unfold cs_of. rewrite !flat_map_app. cbn [flat_map snd]. rewrite <- !app_assoc.
        apply Permutation_app_head. eapply Permutation_trans; [apply Permutation_app_comm|]. rewrite <- app_assoc.
        apply Permutation_app_swap_app. }
      split; [split; [apply aset_nodup, Hk|apply Wm_aset; assumption]|]. split; [exact Hl|]. rewrite !all_cs_obj. split; [exact K1|]. split; [exact K2|].
      rewrite nodes_obj. constructor; [apply below_upton, Hb0|].
      rewrite (E2 child). rewrite E1 in Hbm. rewrite !nodes_of_app, !nodes_of_cons in *. cbn [snd] in *.
      apply Forall_app in Hbm. destruct Hbm as [B1 B2]. apply Forall_app in B2. destruct B2 as [_ B2].
      apply Forall_app. split; [eapply Forall_impl; [apply below_upton|exact B1]|]. apply Forall_app. split.
      * eapply Forall_impl; [apply newnode_upton|exact Cch].
      * eapply Forall_impl; [apply below_upton|exact B2].
    + injection Hp as <-.
      destruct (cs_step t c (cs_of m) (cs_of (m ++ [(k, child)])) (all_cs child) [] Hnd Hold Nch (fun y => newnode_cs t child y Cch)) as [K1 K2].
      { unfold cs_of. rewrite flat_map_app. cbn [flat_map snd]. rewrite !app_nil_r. reflexivity. }
      split; [split|].
      * rewrite map_app. cbn [map fst]. apply nodup_snoc''; [exact Hk|apply alookup_none_notin, E].
      * change (Wm (m ++ [(k, child)])). clear -Hm Wch. induction m as [|[k0 c0] m IH]; [split; [exact Wch|exact I]|]. destruct Hm as [H1 H2]. split; [exact H1|exact (IH H2)].
      * split; [exact Hl|]. rewrite !all_cs_obj. split; [exact K1|]. split; [exact K2|].
        rewrite nodes_obj. constructor; [apply below_upton, Hb0|]. rewrite nodes_of_app. apply Forall_app. split.
        -- eapply Forall_impl; [apply below_upton|exact Hbm].
        -- unfold nodes_of. cbn [flat_map snd]. rewrite app_nil_r. eapply Forall_impl; [apply newnode_upton|exact Cch].
Qed.

Theorem remove_local_ok t tg k x' :
  ts_bounded t -> wft tg -> jtomb tg = false -> NoDup (all_cs tg) -> Forall (below t) (nodes tg) ->
  obj_remove_local tg k (ts_at t 0) = Some x' ->
  jview x' = vrm k (jview tg) /\ local_ok t tg x'.
Proof.
  intros Ht Hw Hl Hnd Hb. destruct tg as [|c d m s|]; try discriminate. intros Hp. destruct Hw as [Hk Hm]. split.
  - exact (obj_remove_view c d m s k (ts_at t 0) x' Hk Hp).
  - cbn [obj_remove_local] in Hp. destruct (alookup str_eqb k m) as [old|] eqn:E; [|discriminate].
    destruct (negb (jtomb old) && ts_lt (jtime old) (ts_at t 0)); [|discriminate]. injection Hp as <-.
    destruct (alookup_split _ _ _ E) as [m1 [m2 [E1 E2]]].
    assert (Ecs : cs_of (aset str_eqb k (set_d old (ts_at t 0)) m) = cs_of m).
    { rewrite E2, E1. unfold cs_of. rewrite !flat_map_app. cbn [flat_map snd]. rewrite all_cs_set_d. reflexivity. }
    split; [split; [apply aset_nodup, Hk|apply Wm_aset; [exact Hm|apply wft_set_d; exact (wft_obj_child _ _ _ Hm E)]]|].
    split; [exact Hl|]. rewrite !all_cs_obj, Ecs. split; [rewrite all_cs_obj in Hnd; exact Hnd|]. split; [intros y Hy; left; exact Hy|].
    rewrite nodes_obj in *. destruct (proj1 (Forall_cons_iff _ _ _) Hb) as [Hb0 Hbm]. constructor; [apply below_upton, Hb0|].
    rewrite E2. rewrite E1 in Hbm. rewrite !nodes_of_app, !nodes_of_cons in *. cbn [snd] in *.
    apply Forall_app in Hbm. destruct Hbm as [B1 B2]. apply Forall_app in B2. destruct B2 as [B2 B3].
    apply Forall_app. split; [eapply Forall_impl; [apply below_upton|exact B1]|]. apply Forall_app. split.
    + rewrite nodes_set_d. rewrite (nodes_head old) in B2. destruct (proj1 (Forall_cons_iff _ _ _) B2) as [[B20 _] B2t]. constructor.
      * split; [left; exact B20|right; exists 0; reflexivity].
      * eapply Forall_impl; [apply below_upton|exact B2t].
    + eapply Forall_impl; [apply below_upton|exact B3].
Qed.

(* arrays: any edit of the stored list by new trees of this operation *)
Theorem array_local_ok t c d l sz l' sz' ns :
  ts_bounded t -> wft (JA c d l sz) -> jtomb (JA c d l sz) = false -> NoDup (all_cs (JA c d l sz)) ->
  Forall (below t) (nodes (JA c d l sz)) ->
  ledit t l ns l' -> Forall wft ns -> NoDup (flat_map all_cs ns) -> Forall (newnode t) (flat_map nodes ns) ->
  sz' = Z.of_nat (length (amem l')) ->
  local_ok t (JA c d l sz) (JA c d l' sz').
Proof.
  intros Ht [Hs Hm] Hl Hnd Hb He Wn Nn Cn Hsz. rewrite all_cs_arr in Hnd. rewrite nodes_arr in Hb.
  destruct (proj1 (Forall_cons_iff _ _ _) Hb) as [Hb0 Hbm].
  assert (Hold : forall y, In y (c :: cs_of l) -> older t y).
  { intros y Hy. apply (below_cs t (JA c d l sz)); [rewrite nodes_arr; exact Hb|rewrite all_cs_arr; exact Hy]. }
  destruct (ledit_cs t l ns l' He) as [dropped P].
  assert (Hnew : forall y, In y (flat_map all_cs ns) -> exists k, y = ts_at t k).
  { intros y Hy. apply in_flat_map in Hy. destruct Hy as [n [Hn Hy]]. rewrite all_cs_nodes in Hy. apply in_map_iff in Hy.
    destruct Hy as [nd [<- Hnd']]. rewrite Forall_forall in Cn. apply (Cn nd). apply in_flat_map. exists n. auto. }
  destruct (cs_step t c (cs_of l) (cs_of l') (flat_map all_cs ns) dropped Hnd Hold Nn Hnew P) as [K1 K2].
  split; [split; [exact Hsz|exact (ledit_wl t l ns l' He Hm Wn)]|]. split; [exact Hl|]. rewrite !all_cs_arr. split; [exact K1|]. split; [exact K2|].
  rewrite nodes_arr. constructor; [apply below_upton, Hb0|].
  apply (ledit_nodes t (upton t) l ns l' He).
  - intros c0 d0 k [H1 _]. split; [exact H1|right; exists k; reflexivity].
  - eapply Forall_impl; [apply below_upton|exact Hbm].
  - eapply Forall_impl; [apply newnode_upton|exact Cn].
Qed.

(* ---------- one local call on the whole document ---------- *)
From Orda.Proofs Require Import ListFacts.

Definition varr (f : list val -> list val) (v : val) : val := match v with VArr l => VArr (f l) | _ => v end.
(* the call on the plain JSON value: the sub-value at the path is changed by the plain object / slice operation *)
Definition plain_call (c : dcall) (v : val) : val :=
  match c with
  | DPut p k x => vupd v p (vput k x)
  | DRmv p k => vupd v p (vrm k)
  | DIns p pos vs => vupd v p (varr (fun l => plain_insert l (Z.to_nat pos) vs))
  | DDel p pos num => vupd v p (varr (fun l => plain_delete l (Z.to_nat pos) (Z.to_nat num)))
  | DUpd p pos vs => vupd v p (varr (fun l => plain_update l (Z.to_nat pos) vs))
  end.
Definition canon_call (c : dcall) : Prop :=
  match c with DPut _ _ v => canon v | DIns _ _ vs | DUpd _ _ vs => Forall canon vs | _ => True end.
(* the replica invariant before an operation stamped t: a well-formed, live root; creation timestamps pairwise distinct;
   every timestamp in the tree older than t *)
Definition Inv (t : ts) (s : jt) : Prop := wft s /\ jtomb s = false /\ NoDup (all_cs s) /\ Forall (below t) (nodes s).

Lemma resolve_nodes : forall path j tg, resolve j path = Some tg -> exists rest, Permutation (nodes j) (nodes tg ++ rest).
Proof.
  induction path as [|seg rest IH]; intros j tg; cbn [resolve].
  - intros [= <-]. exists []. rewrite app_nil_r. reflexivity.
  - destruct seg as [k|i].
    + destruct j as [| c d m s |]; try discriminate.
      destruct (alookup str_eqb k m) as [ch|] eqn:E; [|discriminate]. destruct (jtomb ch); [discriminate|].
      intros Hres. destruct (IH ch tg Hres) as [r0 P1]. destruct (alookup_split _ _ _ E) as [m1 [m2 [E1 _]]].
      exists ((c, d) :: nodes_of m1 ++ r0 ++ nodes_of m2). rewrite nodes_obj, E1, nodes_of_app, nodes_of_cons. cbn [snd]. apply perm_ctx. exact P1.
    + destruct j as [| | c d l s]; try discriminate. destruct ((0 <=? i)%Z && (i <? s)%Z); [|discriminate].
      destruct (nth_live l (Z.to_nat i)) as [ch|] eqn:E; [|discriminate].
      intros Hres. destruct (IH ch tg Hres) as [r0 P1]. destruct (nth_live_split _ _ _ E) as [l1 [o [l2 [E1 _]]]].
      exists ((c, d) :: nodes_of l1 ++ r0 ++ nodes_of l2). rewrite nodes_arr, E1, nodes_of_app, nodes_of_cons. cbn [snd]. apply perm_ctx. exact P1.
Qed.

Lemma Inv_at t s path tg : Inv t s -> resolve s path = Some tg ->
  wft tg /\ jtomb tg = false /\ NoDup (all_cs tg) /\ Forall (below t) (nodes tg).
Proof.
  intros [Hw [Hl [Hnd Hb]]] Hres. destruct (resolve_wft _ _ _ Hw Hl Hres) as [W T]. destruct (resolve_nodes _ _ _ Hres) as [rest P].
  split; [exact W|]. split; [exact T|]. split.
  - rewrite all_cs_nodes in *. pose proof (Permutation_NoDup (Permutation_map fst P) Hnd) as H. rewrite map_app in H.
    apply NoDup_app_inv in H. exact (proj1 H).
  - pose proof (Permutation_Forall P Hb) as H. apply Forall_app in H. exact (proj1 H).
Qed.

Lemma created_many_facts t vs : Forall canon vs ->
  let ns := fst (create_many t vs 0) in
  Forall wft ns /\ NoDup (flat_map all_cs ns) /\ Forall (newnode t) (flat_map nodes ns) /\ length ns = length vs.
Proof.
  intros Hc ns. destruct (create_many_shape t vs 0) as [Hs Hlen]. fold ns in Hs, Hlen. split; [|split; [|split; [|exact Hlen]]].
  - eapply Forall_impl; [|exact Hs]. intros n [x [ix [Hx ->]]]. apply create_wft. rewrite Forall_forall in Hc. exact (Hc x Hx).
  - destruct (create_many_ids t vs 0) as [n E]. fold ns in E. rewrite E. apply map_ts_at_nodup, nrange_nodup.
  - apply Forall_forall. intros nd Hnd. apply in_flat_map in Hnd. destruct Hnd as [n [Hn Hnd]].
    rewrite Forall_forall in Hs. destruct (Hs n Hn) as [x [ix [_ ->]]]. exact (proj1 (Forall_forall _ _) (create_clean t x ix) nd Hnd).
Qed.

Theorem doc_local_step s c i s' o :
  let t := opid_ts i in
  ts_bounded t -> Inv t s -> canon_call c -> doc_validate s c = true -> doc_local s c i = Some (s', o) ->
  jview s' = plain_call c (jview s) /\ wft s' /\ jtomb s' = false /\ NoDup (all_cs s') /\ Forall (upton t) (nodes s').
Proof.
  intros t Ht HI Hc Hv Hd. pose proof HI as [Hw [Hl [Hnd Hb]]].
  unfold doc_validate in Hv. unfold doc_local in Hd. fold t in Hd.
  destruct (resolve s (call_path c)) as [j|] eqn:Hres; [|discriminate].
  destruct (Inv_at t s _ j HI Hres) as [Wj [Tj [Nj Bj]]].
  assert (Lift : forall f fv x', f j = Some x' -> jview x' = fv (jview j) -> local_ok t j x' ->
            on_node s (jc j) f = Some s' ->
            jview s' = vupd (jview s) (call_path c) fv /\ wft s' /\ jtomb s' = false /\ NoDup (all_cs s') /\ Forall (upton t) (nodes s')).
  { intros f fv x' Hf Hview Hok Hon. rewrite (on_node_is_path_update f _ s j Hnd Hres) in Hon.
    exact (local_change_lifts t f fv _ s s' j x' Hw Hl Hnd Hb Hres Hf Hview Hok Hon). }
  destruct c as [p k v|p k|p pos vs|p pos num|p pos vs]; cbn [call_path canon_call plain_call] in *.
  - (* put *)
    destruct (create t v 0) as [child i1] eqn:Ec. assert (Ech : child = fst (create t v 0)) by (rewrite Ec; reflexivity).
    destruct (on_node s (jc j) (fun j0 => obj_put j0 k child)) as [s1|] eqn:Hon; [|discriminate]. injection Hd as <- _.
    assert (Hx : exists x', obj_put j k child = Some x').
    { rewrite (on_node_is_path_update _ _ s j Hnd Hres) in Hon. destruct (upd_path_nodes _ _ _ _ _ Hres Hon) as [x' [_ [Hf _]]]. eauto. }
    destruct Hx as [x' Hx]. pose proof Hx as Hx0. rewrite Ech in Hx0.
    destruct (put_local_ok t j k v x' Ht Hc Wj Tj Nj Bj Hx0) as [V K].
    exact (Lift (fun j0 => obj_put j0 k child) (vput k v) x' Hx V K Hon).
  - (* remove *)
    destruct (on_node s (jc j) (fun j0 => obj_remove_local j0 k t)) as [s1|] eqn:Hon; [|discriminate]. injection Hd as <- _.
    assert (Hx : exists x', obj_remove_local j k t = Some x').
    { rewrite (on_node_is_path_update _ _ s j Hnd Hres) in Hon. destruct (upd_path_nodes _ _ _ _ _ Hres Hon) as [x' [_ [Hf _]]]. eauto. }
    destruct Hx as [x' Hx].
    destruct (remove_local_ok t j k x' Ht Wj Tj Nj Bj Hx) as [V K].
    exact (Lift (fun j0 => obj_remove_local j0 k t) (vrm k) x' Hx V K Hon).
  - (* insert *)
    destruct j as [| |c d l sz]; try discriminate.
    destruct (create_many t vs 0) as [ns i1] eqn:Ec. assert (Ens : ns = fst (create_many t vs 0)) by (rewrite Ec; reflexivity).
    destruct (ains_local l (Z.to_nat pos) (map (fun n => (jtime n, n)) ns)) as [[l' target]|] eqn:Ea; [|discriminate].
    match type of Hd with option_map _ (on_node _ _ ?f) = _ => set (g := f) in * end.
    destruct (on_node s (jc (JA c d l sz)) g) as [s1|] eqn:Hon; [|discriminate]. injection Hd as <- _.
    destruct (created_many_facts t vs Hc) as [F1 [F2 [F3 F4]]]. rewrite <- Ens in F1, F2, F3, F4.
    pose proof Wj as [Hsz _]. apply andb_true_iff in Hv. destruct Hv as [Hv1 Hv2]. apply Z.leb_le in Hv1, Hv2.
    destruct (ains_local_spec (map (fun n => (jtime n, n)) ns) l (Z.to_nat pos) ltac:(lia)) as [l2 [t2 [E2 V2]]].
    rewrite Ea in E2. injection E2 as <- <-. rewrite Ens, (create_many_view t vs Hc 0) in V2.
    apply (Lift g (varr (fun a => plain_insert a (Z.to_nat pos) vs)) (JA c d l' (sz + Z.of_nat (length ns)))); [reflexivity| |  |exact Hon].
    + rewrite !jview_arr. cbn [varr]. rewrite V2. reflexivity.
    + apply (array_local_ok t c d l sz l' _ ns Ht Wj Tj Nj Bj (ains_local_ledit t ns _ _ _ _ Ea) F1 F2 F3).
      rewrite V2, !app_length, firstn_length, skipn_length, F4. lia.
  - (* delete *)
    destruct j as [| |c d l sz]; try discriminate.
    destruct (adel_local l (Z.to_nat pos) (Z.to_nat num) t 0) as [[l' targets]|] eqn:Ea; [|discriminate].
    match type of Hd with option_map _ (on_node _ _ ?f) = _ => set (g := f) in * end.
    destruct (on_node s (jc (JA c d l sz)) g) as [s1|] eqn:Hon; [|discriminate]. injection Hd as <- _.
    pose proof Wj as [Hsz _]. unfold valid_range in Hv. rewrite !andb_true_iff, !Z.leb_le in Hv. destruct Hv as [[[Hv1 Hv2] Hv3] Hv4].
    destruct (adel_local_spec t l (Z.to_nat pos) (Z.to_nat num) 0 ltac:(lia)) as [l2 [t2 [E2 [V2 _]]]].
    rewrite Ea in E2. injection E2 as <- <-.
    apply (Lift g (varr (fun a => plain_delete a (Z.to_nat pos) (Z.to_nat num))) (JA c d l' (sz - num)%Z)); [reflexivity| | |exact Hon].
    + rewrite !jview_arr. cbn [varr]. rewrite V2. reflexivity.
    + apply (array_local_ok t c d l sz l' _ [] Ht Wj Tj Nj Bj (adel_local_ledit t _ _ _ _ _ _ Ea)); [constructor|constructor|constructor|].
      rewrite V2, !app_length, firstn_length, skipn_length. lia.
  - (* update *)
    destruct j as [| |c d l sz]; try discriminate.
    destruct (aupd_local l (Z.to_nat pos) vs t 0) as [[l' targets]|] eqn:Ea; [|discriminate].
    match type of Hd with option_map _ (on_node _ _ ?f) = _ => set (g := f) in * end.
    destruct (on_node s (jc (JA c d l sz)) g) as [s1|] eqn:Hon; [|discriminate]. injection Hd as <- _.
    destruct (created_many_facts t vs Hc) as [F1 [F2 [F3 F4]]].
    pose proof Wj as [Hsz _]. unfold valid_range in Hv. rewrite !andb_true_iff, !Z.leb_le in Hv. destruct Hv as [[[Hv1 Hv2] Hv3] Hv4].
    destruct (aupd_local_spec t vs l (Z.to_nat pos) 0 Hc ltac:(lia)) as [l2 [t2 [E2 V2]]].
    rewrite Ea in E2. injection E2 as <- <-.
    apply (Lift g (varr (fun a => plain_update a (Z.to_nat pos) vs)) (JA c d l' sz)); [reflexivity| | |exact Hon].
    + rewrite !jview_arr. cbn [varr]. rewrite V2. reflexivity.
    + apply (array_local_ok t c d l sz l' _ _ Ht Wj Tj Nj Bj (aupd_local_ledit t _ _ _ _ _ _ Ea) F1 F2 F3).
      rewrite V2, !app_length, firstn_length, skipn_length. lia.
Qed.

(* ---------- any sequence of local calls ---------- *)
(* the replica invariant after the operations stamped up to t *)
Definition Inv' (t : ts) (s : jt) : Prop := wft s /\ jtomb s = false /\ NoDup (all_cs s) /\ Forall (upton t) (nodes s).

Lemma upton_below t t2 n : ts_bounded t -> klt (key_of t) (key_of t2) = true -> upton t n -> below t2 n.
Proof.
  intros Ht Hlt. assert (G : forall x, upto t x -> older t2 x).
  { intros x [[Hx H]|[k ->]]; split; [exact Hx|eapply klt_trans; eauto|exact Ht|exact Hlt]. }
  intros [H1 H2]. split; [apply G, H1|]. destruct (snd n); [apply G, H2|exact I].
Qed.
Lemma Inv'_next t t2 s : ts_bounded t -> klt (key_of t) (key_of t2) = true -> Inv' t s -> Inv t2 s.
Proof.
  intros Ht Hlt [Hw [Hl [Hn Hu]]]. split; [exact Hw|]. split; [exact Hl|]. split; [exact Hn|].
  eapply Forall_impl; [intros n; apply (upton_below t t2 n Ht Hlt)|exact Hu].
Qed.
Lemma Inv'_init : Inv' oldest_ts doc_init.
Proof.
  split; [split; [constructor|exact I]|]. split; [reflexivity|]. split; [repeat constructor; intros []|].
  constructor; [|constructor]. split; [right; exists 0; reflexivity|exact I].
Qed.

(* the API: a call is validated, then executed with the next operation identifier *)
Fixpoint run_calls (s : jt) (cs : list (dcall * opid)) : option jt :=
  match cs with
  | [] => Some s
  | (c, i) :: r => if doc_validate s c then match doc_local s c i with Some (s', _) => run_calls s' r | None => None end else None
  end.
(* identifiers with increasing timestamps (Lamport clock), none wrapped *)
Fixpoint increasing (t : ts) (cs : list (dcall * opid)) : Prop :=
  match cs with
  | [] => True
  | (_, i) :: r => ts_bounded (opid_ts i) /\ klt (key_of t) (key_of (opid_ts i)) = true /\ increasing (opid_ts i) r
  end.

Theorem doc_calls_refine : forall cs t s s',
  ts_bounded t -> Inv' t s -> increasing t cs -> Forall (fun ci => canon_call (fst ci)) cs ->
  run_calls s cs = Some s' ->
  jview s' = fold_left (fun v ci => plain_call (fst ci) v) cs (jview s) /\ exists t', Inv' t' s'.
Proof.
  induction cs as [|[c i] r IH]; intros t s s' Ht HI Hinc Hc; cbn [run_calls fold_left fst].
  - intros [= <-]. split; [reflexivity|exists t; exact HI].
  - destruct Hinc as [Hb [Hlt Hinc]]. inversion Hc as [|? ? Hc1 Hc2]; subst. cbn [fst] in Hc1.
    destruct (doc_validate s c) eqn:Hv; [|discriminate]. destruct (doc_local s c i) as [[s1 o]|] eqn:Hd; [|discriminate].
    intros Hr. pose proof (Inv'_next t (opid_ts i) s Ht Hlt HI) as HI1.
    destruct (doc_local_step s c i s1 o Hb HI1 Hc1 Hv Hd) as [V [W [T [N U]]]].
    destruct (IH (opid_ts i) s1 s' Hb (conj W (conj T (conj N U))) Hinc Hc2 Hr) as [V' K]. split; [rewrite V', V; reflexivity|exact K].
Qed.

(* from the empty document *)
Corollary doc_calls_refine_init cs s' :
  increasing oldest_ts cs -> Forall (fun ci => canon_call (fst ci)) cs -> run_calls doc_init cs = Some s' ->
  jview s' = fold_left (fun v ci => plain_call (fst ci) v) cs (VObj []).
Proof.
  intros Hi Hc Hr. assert (Hb : ts_bounded oldest_ts) by (unfold ts_bounded, oldest_ts, two31, two63; cbn; lia).
  exact (proj1 (doc_calls_refine cs oldest_ts doc_init s' Hb Inv'_init Hi Hc Hr)).
Qed.

(* ---------- JSON patch: the pointer is resolved on the tree exactly as it resolves on the readable value ---------- *)
Fixpoint vtokens (v : val) (toks : list str) : option (list pseg * val) :=
  match toks with
  | [] => Some ([], v)
  | t :: rest =>
      match v with
      | VObj l => match alookup str_eqb t l with
                  | Some c => match vtokens c rest with Some (p, x) => Some (PKey t :: p, x) | None => None end
                  | None => None
                  end
      | VArr l => match atoi t with
                  | Some i => if (0 <=? i)%Z && (i <? Z.of_nat (length l))%Z
                              then match nth_error l (Z.to_nat i) with
                                   | Some c => match vtokens c rest with Some (p, x) => Some (PIdx i :: p, x) | None => None end
                                   | None => None
                                   end
                              else None
                  | None => None
                  end
      | _ => None
      end
  end.
(* RFC 6902 add / remove / replace as calls on the plain value: the last token is a member name of an object, or an
   index (or "-", the end) of an array *)
Definition vpatch_call (v : val) (p : patch) : option dcall :=
  match map unescape (split_slash (pt_path p) []) with
  | _ :: toks =>
      match rev toks with
      | key :: rparent =>
          match vtokens v (rev rparent) with
          | Some (path, VObj _) =>
              match pt_type p with
              | PAdd | PReplace => Some (DPut path key (pt_val p))
              | PRemove => Some (DRmv path key)
              end
          | Some (path, VArr a) =>
              match pt_type p with
              | PAdd => if str_eqb key [45] then Some (DIns path (Z.of_nat (length a)) [pt_val p])
                        else option_map (fun i => DIns path i [pt_val p]) (atoi key)
              | PRemove => option_map (fun i => DDel path i 1%Z) (atoi key)
              | PReplace => option_map (fun i => DUpd path i [pt_val p]) (atoi key)
              end
          | _ => None
          end
      | [] => None
      end
  | [] => None
  end.

Lemma alookup_omem_full m k : NoDup (map fst m) ->
  alookup str_eqb k (omem m) = match alookup str_eqb k m with Some c => if jtomb c then None else Some (jview c) | None => None end.
Proof.
  induction m as [|[k0 c] m IH]; cbn [alookup map fst omem flat_map]; [reflexivity|]. intros Hnd. inversion Hnd as [|? ? Hn Hd]; subst.
  fold (omem m). destruct (str_eqb k k0) eqn:E.
  - apply str_eqb_eq in E. subst k0. destruct (jtomb c); cbn [app alookup]; [|rewrite str_eqb_refl; reflexivity].
    destruct (alookup str_eqb k (omem m)) eqn:El; [|reflexivity]. exfalso. apply Hn. apply omem_keys_in. eapply alookup_some_in; eauto.
  - destruct (jtomb c); cbn [app alookup]; [apply IH, Hd|]. rewrite E. apply IH, Hd.
Qed.
Lemma nth_live_some l : forall n, (n < length (amem l))%nat -> exists ch, nth_live l n = Some ch.
Proof.
  induction l as [|x l IH]; intros n; [cbn; lia|]. cbn [nth_live]. destruct (alive x) eqn:Lx.
  - rewrite (amem_cons_live _ _ Lx). cbn [length]. destruct n as [|n]; [eauto|]. intros H. apply IH. lia.
  - rewrite (amem_cons_dead _ _ Lx). apply IH.
Qed.

Lemma tokens_view : forall toks j, wft j ->
  match tokens_path j toks with
  | Some (p, x) => vtokens (jview j) toks = Some (p, jview x) /\ wft x
  | None => vtokens (jview j) toks = None
  end.
Proof.
  induction toks as [|t rest IH]; intros j Hw; cbn [tokens_path vtokens]; [auto|].
  destruct j as [c d v|c d m s|c d l s].
  - cbn [jview]. destruct v; try reflexivity; destruct Hw.
  - destruct Hw as [Hnd Hch]. rewrite jview_obj.
    rewrite <- (alookup_perm (omem m) (sort_by_key (omem m)) t (omem_nodup _ Hnd) (sort_perm _)), (alookup_omem_full m t Hnd).
    destruct (alookup str_eqb t m) as [ch|] eqn:E; [|reflexivity]. destruct (jtomb ch); [reflexivity|].
    specialize (IH ch (wft_obj_child _ _ _ Hch E)). destruct (tokens_path ch rest) as [[p x]|].
    + destruct IH as [-> W]. auto.
    + rewrite IH. reflexivity.
  - destruct Hw as [Hs Hch]. rewrite jview_arr. destruct (atoi t) as [i|]; [|reflexivity]. rewrite <- Hs.
    destruct ((0 <=? i)%Z && (i <? s)%Z) eqn:Hr; [|reflexivity].
    apply andb_true_iff in Hr. destruct Hr as [H0 H1]. apply Z.leb_le in H0. apply Z.ltb_lt in H1.
    destruct (nth_live_some l (Z.to_nat i) ltac:(lia)) as [ch E]. rewrite E, (nth_live_amem _ _ _ E).
    specialize (IH ch (wft_arr_child _ _ _ Hch E)). destruct (tokens_path ch rest) as [[p x]|].
    + destruct IH as [-> W]. auto.
    + rewrite IH. reflexivity.
Qed.

Theorem patch_call_view s p : wft s -> patch_call s p = vpatch_call (jview s) p.
Proof.
  intros Hw. unfold patch_call, vpatch_call. destruct (map unescape (split_slash (pt_path p) [])) as [|t0 toks]; [reflexivity|].
  destruct (rev toks) as [|key rparent]; [reflexivity|].
  pose proof (tokens_view (rev rparent) s Hw) as H. destruct (tokens_path s (rev rparent)) as [[path x]|]; [|rewrite H; reflexivity].
  destruct H as [-> Wx]. destruct x as [c d v|c d m sz|c d l sz].
  - cbn [jview]. destruct v; try reflexivity; destruct Wx.
  - rewrite jview_obj. reflexivity.
  - rewrite jview_arr. destruct Wx as [-> _]. reflexivity.
Qed.

(* a patch script inside one transaction: each operation validated, resolved and executed on the current tree *)
Fixpoint run_patches (s : jt) (ps : list (patch * opid)) : option jt :=
  match ps with
  | [] => Some s
  | (p, i) :: r => if u_validate s (UPatch p) then match u_local s (UPatch p) i with Some (s', _) => run_patches s' r | None => None end
                   else None
  end.
Fixpoint increasing_ids (t : ts) (is : list opid) : Prop :=
  match is with
  | [] => True
  | i :: r => ts_bounded (opid_ts i) /\ klt (key_of t) (key_of (opid_ts i)) = true /\ increasing_ids (opid_ts i) r
  end.
(* one RFC 6902 operation on a plain JSON value *)
Definition plain_patch (v : val) (p : patch) : val :=
  match vpatch_call v p with Some c => plain_call c v | None => v end.

Theorem patches_refine : forall ps t s s',
  ts_bounded t -> Inv' t s -> increasing_ids t (map snd ps) -> Forall (fun pi => canon (pt_val (fst pi))) ps ->
  run_patches s ps = Some s' ->
  jview s' = fold_left (fun v pi => plain_patch v (fst pi)) ps (jview s) /\ exists t', Inv' t' s'.
Proof.
  induction ps as [|[p i] r IH]; intros t s s' Ht HI Hinc Hc; cbn [run_patches fold_left fst map snd].
  - intros [= <-]. split; [reflexivity|exists t; exact HI].
  - destruct Hinc as [Hb [Hlt Hinc]]. inversion Hc as [|? ? Hc1 Hc2]; subst. cbn [fst] in Hc1.
    cbn [u_validate u_local]. pose proof HI as [Hw _]. unfold plain_patch at 2. rewrite <- (patch_call_view s p Hw).
    destruct (patch_call s p) as [c|] eqn:Ep; [|discriminate].
    destruct (doc_validate s c) eqn:Hv; [|discriminate]. destruct (doc_local s c i) as [[s1 o]|] eqn:Hd; [|discriminate].
    intros Hr. pose proof (Inv'_next t (opid_ts i) s Ht Hlt HI) as HI1.
    assert (Cc : canon_call c).
    { unfold patch_call in Ep. destruct (map unescape (split_slash (pt_path p) [])) as [|t0 toks]; [discriminate|].
      destruct (rev toks) as [|key rparent]; [discriminate|]. destruct (tokens_path s (rev rparent)) as [[path x]|]; [|discriminate].
      destruct x as [| |c0 d0 l0 sz0]; [discriminate| |].
      - destruct (pt_type p); injection Ep as <-; cbn; auto.
      - destruct (pt_type p).
        + destruct (str_eqb key [45]); [injection Ep as <-; cbn; auto|]. destruct (atoi key); [|discriminate]. injection Ep as <-. cbn. auto.
        + destruct (atoi key); [|discriminate]. injection Ep as <-. exact I.
        + destruct (atoi key); [|discriminate]. injection Ep as <-. cbn. auto. }
    destruct (doc_local_step s c i s1 o Hb HI1 Cc Hv Hd) as [V [W [T [N U]]]].
    destruct (IH (opid_ts i) s1 s' Hb (conj W (conj T (conj N U))) Hinc Hc2 Hr) as [V' K]. split; [rewrite V', V; reflexivity|exact K].
Qed.

(* ---------- Patch as the user transaction of the datatype machinery ---------- *)
From Orda.Model Require Import Datatype CheckDoc.

Fixpoint next_ids (i : opid) (n : nat) : list opid :=
  match n with O => [] | S n' => opid_next i :: next_ids (opid_next i) n' end.
Lemma next_ids_length i n : length (next_ids i n) = n.
Proof. revert i; induction n as [|n IH]; intros i; cbn; [reflexivity|rewrite IH; reflexivity]. Qed.

Lemma opid_next_increasing i : o_lam i + 1 < two63 -> klt (key_of (opid_ts i)) (key_of (opid_ts (opid_next i))) = true.
Proof.
  intros H. unfold klt, key_of, key_cmp, opid_ts, opid_next. cbn [era lam cuid o_era o_lam o_cuid].
  rewrite N.compare_refl. assert (E : (o_lam i + 1) mod two64 = o_lam i + 1) by (apply N.mod_small; unfold two63, two64 in *; lia).
  rewrite E. assert (L : (o_lam i ?= o_lam i + 1) = Lt) by (apply N.compare_lt_iff; lia). rewrite L. reflexivity.
Qed.
Lemma next_ids_increasing n : forall i, o_era i < two31 -> o_lam i + N.of_nat n < two63 ->
  increasing_ids (opid_ts i) (next_ids i n).
Proof.
  induction n as [|n IH]; intros i He Hl; cbn [next_ids increasing_ids]; [exact I|].
  assert (E : (o_lam i + 1) mod two64 = o_lam i + 1) by (apply N.mod_small; unfold two63, two64 in *; lia).
  split; [|split].
  - unfold ts_bounded, opid_ts, opid_next. cbn [era lam o_era o_lam]. rewrite E. split; [exact He|lia].
  - apply opid_next_increasing. lia.
  - apply IH; unfold opid_next; cbn [o_era o_lam]; [exact He|rewrite E; lia].
Qed.

Lemma tx_body_patches : forall ps d d' ops ents rs,
  tx_body jt ucall unit jt u_validate d_local' d (map UPatch ps) = (d', ops, ents, rs) ->
  Forall (fun r => exists x : unit, r = Done x) rs ->
  run_patches (d_snap d) (combine ps (next_ids (d_oid d) (length ps))) = Some (d_snap d').
Proof.
  induction ps as [|p r IH]; intros d d' ops ents rs; cbn [map tx_body length next_ids combine run_patches].
  - intros [= <- _ _ _] _. reflexivity.
  - unfold local_step. destruct (u_validate (d_snap d) (UPatch p)) eqn:Hv.
    + unfold d_local' at 1. destruct (u_local (d_snap d) (UPatch p) (opid_next (d_oid d))) as [[s1 o1]|] eqn:Hu.
      * match goal with |- context [tx_body _ _ _ _ _ _ ?dd _] => set (d1 := dd) end.
        destruct (tx_body jt ucall unit jt u_validate d_local' d1 (map UPatch r)) as [[[d2 ops2] ents2] rs2] eqn:Hb.
        intros [= <- _ _ <-] Hf. inversion Hf as [|? ? _ Hf2]; subst. exact (IH d1 d2 ops2 ents2 rs2 Hb Hf2).
      * match goal with |- context [tx_body _ _ _ _ _ _ ?dd _] => set (d1 := dd) end.
        destruct (tx_body jt ucall unit jt u_validate d_local' d1 (map UPatch r)) as [[[d2 ops2] ents2] rs2] eqn:Hb.
        intros [= _ _ _ <-] Hf. inversion Hf as [|? ? [x Hx] _]; subst. discriminate Hx.
    + destruct (tx_body jt ucall unit jt u_validate d_local' d (map UPatch r)) as [[[d2 ops2] ents2] rs2] eqn:Hb.
      intros [= _ _ _ <-] Hf. inversion Hf as [|? ? [x Hx] _]; subst. discriminate Hx.
Qed.

(* Patch(p1..pn) on a replica whose identifier counters have not wrapped: when every operation of the script is
   accepted, the document reads what RFC 6902 (add / remove / replace, pointers per RFC 6901) gives on its value *)
Theorem patch_transaction_refines d tag ps :
  let '(d', rs) := d_tx d tag (map UPatch ps) false in
  Inv' (opid_ts (d_oid d)) (d_snap d) ->
  o_era (d_oid d) < two31 -> o_lam (d_oid d) + N.of_nat (S (length ps)) < two63 ->
  Forall (fun p => canon (pt_val p)) ps ->
  Forall (fun r => exists x : unit, r = Done x) rs ->
  jview (d_snap d') = fold_left plain_patch ps (jview (d_snap d)).
Proof.
  unfold d_tx, transaction.
  match goal with |- context [tx_body _ _ _ _ _ _ ?dd _] => set (d0 := dd) end.
  destruct (tx_body jt ucall unit jt u_validate d_local' d0 (map UPatch ps)) as [[[d1 ops] ents] rs] eqn:Hb.
  intros HI He Hl Hc Hf. cbn [d_snap].
  pose proof (tx_body_patches ps d0 d1 ops ents rs Hb Hf) as Hr. cbn [d_snap d_oid d0] in Hr.
  set (ti := opid_next (d_oid d)) in *.
  assert (E1 : (o_lam (d_oid d) + 1) mod two64 = o_lam (d_oid d) + 1) by (apply N.mod_small; unfold two63, two64 in *; lia).
  assert (Hbt : ts_bounded (opid_ts ti)).
  { unfold ts_bounded, opid_ts, ti, opid_next. cbn [era lam o_era o_lam]. rewrite E1. split; [exact He|lia]. }
  assert (Hb0 : ts_bounded (opid_ts (d_oid d))) by (unfold ts_bounded, opid_ts; cbn [era lam]; split; [exact He|lia]).
  assert (HI1 : Inv' (opid_ts ti) (d_snap d)).
  { destruct HI as [Hw [Ht [Hn Hu]]]. split; [exact Hw|]. split; [exact Ht|]. split; [exact Hn|].
    eapply Forall_impl; [|exact Hu]. intros n Hn'. apply below_upton. apply (upton_below (opid_ts (d_oid d)) (opid_ts ti) n Hb0); [|exact Hn'].
    apply opid_next_increasing. lia. }
  assert (Hinc : increasing_ids (opid_ts ti) (map snd (combine ps (next_ids ti (length ps))))).
  { assert (Em : map snd (combine ps (next_ids ti (length ps))) = next_ids ti (length ps)).
    { generalize ti. clear. induction ps as [|p r IH]; intros i; cbn; [reflexivity|]. rewrite IH. reflexivity. }
    rewrite Em. apply next_ids_increasing; unfold ti, opid_next; cbn [o_era o_lam]; [exact He|rewrite E1; lia]. }
  assert (Hc' : Forall (fun pi : patch * opid => canon (pt_val (fst pi))) (combine ps (next_ids ti (length ps)))).
  { apply Forall_forall. intros [p i] Hin. apply in_combine_l in Hin. rewrite Forall_forall in Hc. exact (Hc p Hin). }
  destruct (patches_refine _ (opid_ts ti) _ _ Hbt HI1 Hinc Hc' Hr) as [V _]. rewrite V.
  generalize (jview (d_snap d)). generalize ti. clear. induction ps as [|p r IH]; intros i v; cbn; [reflexivity|]. apply IH.
Qed.

Corollary patch_reaches_target d tag ps target :
  let '(d', rs) := d_tx d tag (map UPatch ps) false in
  Inv' (opid_ts (d_oid d)) (d_snap d) ->
  o_era (d_oid d) < two31 -> o_lam (d_oid d) + N.of_nat (S (length ps)) < two63 ->
  Forall (fun p => canon (pt_val p)) ps ->
  Forall (fun r => exists x : unit, r = Done x) rs ->
  fold_left plain_patch ps (jview (d_snap d)) = target ->
  jview (d_snap d') = target.
Proof.
  pose proof (patch_transaction_refines d tag ps) as H. destruct (d_tx d tag (map UPatch ps) false) as [d' rs].
  intros HI He Hl Hc Hf <-. exact (H HI He Hl Hc Hf).
Qed.

(* ====================================================================================================================
   Remote operations: the structural part of the invariant (well-formed, live root, creation timestamps pairwise
   distinct) is kept by every remote operation whose identifier is new to the tree — which operation identifiers,
   unique per client and sequence number, guarantee for an operation delivered once.
   ==================================================================================================================== *)

(* the table lookup replaces exactly one node *)
Lemma on_list_split {K} onx (m m' : list (K * jt)) : on_list onx m = Some m' ->
  exists m1 k x x' m2, m = m1 ++ (k, x) :: m2 /\ m' = m1 ++ (k, x') :: m2 /\ onx x = Some x'.
Proof.
  revert m'. induction m as [|[k x] r IH]; intros m'; cbn [on_list]; [discriminate|].
  destruct (onx x) as [x'|] eqn:E.
  - intros [= <-]. exists [], k, x, x', r. auto.
  - destruct (on_list onx r) as [r'|]; [|discriminate]. intros [= <-].
    destruct (IH r' eq_refl) as [m1 [k0 [x0 [x0' [m2 [E1 [E2 E3]]]]]]]. exists ((k, x) :: m1), k0, x0, x0', m2.
    rewrite E1, E2. auto.
Qed.

Theorem on_node_nodes p f : forall j j', on_node j p f = Some j' ->
  exists tg x' rest, f tg = Some x' /\ jc tg = p /\
    Permutation (nodes j) (nodes tg ++ rest) /\ Permutation (nodes j') (nodes x' ++ rest).
Proof.
  induction j as [c d v|c d m s IH|c d l s IH] using jt_ind'; intros j'; rewrite on_node_unfold; cbn [jc].
  - destruct (ts_eqb c p) eqn:E; [|discriminate]. apply ts_eqb_eq in E. intros H. exists (JE c d v), j', []. rewrite !app_nil_r. auto.
  - destruct (ts_eqb c p) eqn:E.
    + apply ts_eqb_eq in E. intros H. exists (JO c d m s), j', []. rewrite !app_nil_r. auto.
    + destruct (on_list (fun x => on_node x p f) m) as [m'|] eqn:El; [|discriminate]. intros [= <-].
      destruct (on_list_split _ _ _ El) as [m1 [k [x [x' [m2 [E1 [E2 E3]]]]]]].
      assert (Hx : forall y', on_node x p f = Some y' -> exists tg x0 rest, f tg = Some x0 /\ jc tg = p /\
                     Permutation (nodes x) (nodes tg ++ rest) /\ Permutation (nodes y') (nodes x0 ++ rest)).
      { rewrite Forall_forall in IH. apply (IH (k, x)). rewrite E1. apply in_or_app. right. left. reflexivity. }
      destruct (Hx x' E3) as [tg [x0 [r0 [Hf [Hp [P1 P2]]]]]].
      exists tg, x0, ((c, d) :: nodes_of m1 ++ r0 ++ nodes_of m2). split; [exact Hf|]. split; [exact Hp|].
      rewrite !nodes_obj, E1, E2, !nodes_of_app, !nodes_of_cons. cbn [snd]. split; apply perm_ctx; assumption.
  - destruct (ts_eqb c p) eqn:E.
    + apply ts_eqb_eq in E. intros H. exists (JA c d l s), j', []. rewrite !app_nil_r. auto.
    + destruct (on_list (fun x => on_node x p f) l) as [l'|] eqn:El; [|discriminate]. intros [= <-].
      destruct (on_list_split _ _ _ El) as [l1 [k [x [x' [l2 [E1 [E2 E3]]]]]]].
      assert (Hx : forall y', on_node x p f = Some y' -> exists tg x0 rest, f tg = Some x0 /\ jc tg = p /\
                     Permutation (nodes x) (nodes tg ++ rest) /\ Permutation (nodes y') (nodes x0 ++ rest)).
      { rewrite Forall_forall in IH. apply (IH (k, x)). rewrite E1. apply in_or_app. right. left. reflexivity. }
      destruct (Hx x' E3) as [tg [x0 [r0 [Hf [Hp [P1 P2]]]]]].
      exists tg, x0, ((c, d) :: nodes_of l1 ++ r0 ++ nodes_of l2). split; [exact Hf|]. split; [exact Hp|].
      rewrite !nodes_arr, E1, E2, !nodes_of_app, !nodes_of_cons. cbn [snd]. split; apply perm_ctx; assumption.
Qed.

(* well-formedness through the table lookup: the replaced node keeps its deletion mark, so no size changes above it *)
Lemma Wm_app m1 m2 : Wm (m1 ++ m2) <-> Wm m1 /\ Wm m2.
Proof.
  induction m1 as [|[k c] m IH]; cbn [app Wm fold_right]; [tauto|]. change (fold_right _ True (m ++ m2)) with (Wm (m ++ m2)).
  change (fold_right _ True m) with (Wm m). rewrite IH. tauto.
Qed.
Lemma Wl_app l1 l2 : Wl (l1 ++ l2) <-> Wl l1 /\ Wl l2.
Proof.
  induction l1 as [|[k c] m IH]; cbn [app Wl fold_right]; [tauto|]. change (fold_right _ True (m ++ l2)) with (Wl (m ++ l2)).
  change (fold_right _ True m) with (Wl m). rewrite IH. tauto.
Qed.
Lemma amem_len_replace l1 o x x' l2 : jtomb x' = jtomb x ->
  length (amem (l1 ++ (o, x') :: l2)) = length (amem (l1 ++ (o, x) :: l2)).
Proof.
  intros H. rewrite !amem_app, !app_length. f_equal. unfold amem. cbn [flat_map]. rewrite H. destruct (jtomb x); reflexivity.
Qed.

Theorem on_node_wft p f : (forall tg x', wft tg -> f tg = Some x' -> wft x' /\ jtomb x' = jtomb tg) ->
  forall j j', wft j -> on_node j p f = Some j' -> wft j' /\ jtomb j' = jtomb j.
Proof.
  intros Hf. induction j as [c d v|c d m s IH|c d l s IH] using jt_ind'; intros j' Hw; rewrite on_node_unfold; cbn [jc].
  - destruct (ts_eqb c p); [apply Hf; exact Hw|discriminate].
  - destruct (ts_eqb c p); [apply Hf; exact Hw|].
    destruct (on_list (fun x => on_node x p f) m) as [m'|] eqn:El; [|discriminate]. intros [= <-].
    destruct (on_list_split _ _ _ El) as [m1 [k [x [x' [m2 [E1 [E2 E3]]]]]]]. destruct Hw as [Hnd Hch]. split; [|reflexivity].
    subst m m'. apply Wm_app in Hch. destruct Hch as [H1 [Hx H2]].
    rewrite Forall_forall in IH. destruct (IH (k, x) ltac:(apply in_or_app; right; left; reflexivity) x' Hx E3) as [Wx' _].
    split.
    + rewrite map_app in *. cbn [map fst] in *. exact Hnd.
    + apply Wm_app. split; [exact H1|split; [exact Wx'|exact H2]].
  - destruct (ts_eqb c p); [apply Hf; exact Hw|].
    destruct (on_list (fun x => on_node x p f) l) as [l'|] eqn:El; [|discriminate]. intros [= <-].
    destruct (on_list_split _ _ _ El) as [l1 [k [x [x' [l2 [E1 [E2 E3]]]]]]]. destruct Hw as [Hs Hch]. split; [|reflexivity].
    subst l l'. apply Wl_app in Hch. destruct Hch as [H1 [Hx H2]].
    rewrite Forall_forall in IH. destruct (IH (k, x) ltac:(apply in_or_app; right; left; reflexivity) x' Hx E3) as [Wx' Tx'].
    split.
    + rewrite (amem_len_replace l1 k x x' l2 Tx'). exact Hs.
    + apply Wl_app. split; [exact H1|split; [exact Wx'|exact H2]].
Qed.

(* ---------- what the five remote operations leave at the container they address: well-formedness ---------- *)
Lemma Wm_snoc m k ch : Wm m -> wft ch -> Wm (m ++ [(k, ch)]).
Proof. intros H1 H2. apply Wm_app. split; [exact H1|split; [exact H2|exact I]]. Qed.

Lemma put_remote_wft tg k child x' : wft tg -> wft child -> obj_put tg k child = Some x' -> wft x' /\ jtomb x' = jtomb tg.
Proof.
  intros Hw Wc. destruct tg as [|c d m s|]; try discriminate. destruct Hw as [Hk Hm]. cbn [obj_put].
  destruct (alookup str_eqb k m) as [old|] eqn:E.
  - destruct (ts_lt (jtime old) (jtime child)); intros [= <-]; (split; [|reflexivity]).
    + split; [apply aset_nodup, Hk|apply Wm_aset; assumption].
    + split; assumption.
  - intros [= <-]. split; [|reflexivity]. split.
    + rewrite map_app. cbn [map fst]. apply nodup_snoc''; [exact Hk|apply alookup_none_notin, E].
    + apply Wm_snoc; assumption.
Qed.

Lemma remove_remote_wft tg k t x' : wft tg -> obj_remove_remote tg k t = Some x' -> wft x' /\ jtomb x' = jtomb tg.
Proof.
  intros Hw. destruct tg as [|c d m s|]; try discriminate. destruct Hw as [Hk Hm]. cbn [obj_remove_remote].
  destruct (alookup str_eqb k m) as [old|] eqn:E; [|discriminate].
  destruct (ts_lt (jtime old) t); intros [= <-]; (split; [|reflexivity]).
  - split; [apply aset_nodup, Hk|apply Wm_aset; [exact Hm|apply wft_set_d; exact (wft_obj_child _ _ _ Hm E)]].
  - split; assumption.
Qed.

(* remote insertion is one pass over the stored list as well *)
Lemma ains_many_ledit t : forall ns l, ledit t l ns (ains_many l ns).
Proof.
  induction ns as [|n ns IH]; intros l; cbn [ains_many]; [apply ledit_refl|].
  assert (G : forall l, exists a b, askip_gt l (jtime n) = (a, b) /\ l = a ++ b).
  { clear. induction l as [|x xs IHl]; cbn [askip_gt]; [exists [], []; auto|].
    destruct (ts_gt (fst x) (jtime n)); [|exists [], (x :: xs); auto].
    destruct IHl as [a [b [E1 E2]]]. rewrite E1. exists (x :: a), b. rewrite E2. auto. }
  destruct (G l) as [a [b [E1 E2]]]. rewrite E1, E2. clear E1 E2 G.
  induction a as [|x a IHa]; cbn [app]; [constructor; apply IH|constructor; exact IHa].
Qed.
Lemma ains_at_ledit t ns : forall l target l', ains_at l target ns = Some l' -> ledit t l ns l'.
Proof.
  induction l as [|x l IH]; intros target l'; cbn [ains_at]; [discriminate|].
  destruct (ts_eqb (fst x) target).
  - intros [= <-]. constructor. apply ains_many_ledit.
  - destruct (ains_at l target ns) as [l0|] eqn:E; [|discriminate]. intros [= <-]. constructor. eapply IH; eauto.
Qed.


Lemma amem_len_app a b : length (amem (a ++ b)) = (length (amem a) + length (amem b))%nat.
Proof. rewrite amem_app, app_length. reflexivity. Qed.
Lemma amem_len_cons_live o n l : jtomb n = false -> length (amem ((o, n) :: l)) = S (length (amem l)).
Proof. intros H. unfold amem. cbn [flat_map]. rewrite H. reflexivity. Qed.

Lemma ains_many_len : forall ns l, Forall (fun n => jtomb n = false) ns ->
  length (amem (ains_many l ns)) = (length (amem l) + length ns)%nat.
Proof.
  induction ns as [|n ns IH]; intros l Hn; cbn [ains_many length]; [lia|]. inversion Hn as [|? ? H1 H2]; subst.
  assert (G : exists a b, askip_gt l (jtime n) = (a, b) /\ l = a ++ b).
  { clear. induction l as [|x xs IHl]; cbn [askip_gt]; [exists [], []; auto|].
    destruct (ts_gt (fst x) (jtime n)); [|exists [], (x :: xs); auto].
    destruct IHl as [a [b [E1 E2]]]. rewrite E1. exists (x :: a), b. rewrite E2. auto. }
  destruct G as [a [b [E1 E2]]]. rewrite E1, E2, !amem_len_app, (amem_len_cons_live _ _ _ H1), (IH b H2). lia.
Qed.
Lemma ains_at_len ns : Forall (fun n => jtomb n = false) ns -> forall l target l', ains_at l target ns = Some l' ->
  length (amem l') = (length (amem l) + length ns)%nat.
Proof.
  intros Hn. induction l as [|x l IH]; intros target l'; cbn [ains_at]; [discriminate|].
  change (x :: l) with ([x] ++ l). destruct (ts_eqb (fst x) target).
  - intros [= <-]. change (x :: ains_many l ns) with ([x] ++ ains_many l ns). rewrite !amem_len_app, (ains_many_len ns l Hn). lia.
  - destruct (ains_at l target ns) as [l0|] eqn:E; [|discriminate]. intros [= <-]. change (x :: l0) with ([x] ++ l0).
    rewrite !amem_len_app, (IH target l0 E). lia.
Qed.

(* a node addressed by its order timestamp *)
Lemma afind_split l tg x : afind l tg = Some x ->
  exists l1 o l2, l = l1 ++ (o, x) :: l2 /\ forall f, aupd_node l tg f = l1 ++ (o, f x) :: l2.
Proof.
  unfold afind. induction l as [|[o y] l IH]; cbn [find]; [discriminate|]. cbn [fst]. destruct (ts_eqb o tg) eqn:E.
  - cbn. intros [= ->]. exists [], o, l. split; [reflexivity|]. intros f. cbn [aupd_node fst snd]. rewrite E. reflexivity.
  - intros H. destruct (IH H) as [l1 [o1 [l2 [E1 E2]]]]. exists ((o, y) :: l1), o1, l2. split; [rewrite E1; reflexivity|].
    intros f. cbn [aupd_node fst]. rewrite E, E2. reflexivity.
Qed.

Lemma adel_remote_wft t : forall targets l sz i l' sz',
  sz = Z.of_nat (length (amem l)) -> Wl l -> adel_remote l sz targets t i = (l', sz') ->
  sz' = Z.of_nat (length (amem l')) /\ Wl l' /\ cs_of l' = cs_of l /\
  Forall (fun n => In n (nodes_of l) \/ exists c k, n = (c, Some (ts_at t k)) /\ In c (cs_of l)) (nodes_of l').
Proof.
  induction targets as [|tg tgs IH]; intros l sz i l' sz' Hs Hw; cbn [adel_remote].
  - intros [= <- <-]. split; [exact Hs|]. split; [exact Hw|]. split; [reflexivity|]. apply Forall_forall. auto.
  - destruct (afind l tg) as [x|] eqn:Ef; [|apply IH; assumption].
    destruct (afind_split _ _ _ Ef) as [l1 [o [l2 [E1 E2]]]].
    assert (Step : forall sz1, sz1 = Z.of_nat (length (amem (aupd_node l tg (fun x0 => set_d x0 (ts_at t i))))) ->
              adel_remote (aupd_node l tg (fun x0 => set_d x0 (ts_at t i))) sz1 tgs t (i + 1) = (l', sz') ->
              sz' = Z.of_nat (length (amem l')) /\ Wl l' /\ cs_of l' = cs_of l /\
              Forall (fun n => In n (nodes_of l) \/ exists c k, n = (c, Some (ts_at t k)) /\ In c (cs_of l)) (nodes_of l')).
    { intros sz1 Hs1 H. rewrite E2 in *.
      assert (Hw1 : Wl (l1 ++ (o, set_d x (ts_at t i)) :: l2)).
      { rewrite E1 in Hw. apply Wl_app in Hw. destruct Hw as [W1 [Wx W2]]. apply Wl_app. split; [exact W1|split; [apply wft_set_d, Wx|exact W2]]. }
      destruct (IH _ _ _ _ _ Hs1 Hw1 H) as [K1 [K2 [K3 K4]]]. split; [exact K1|]. split; [exact K2|].
      assert (Ecs : cs_of (l1 ++ (o, set_d x (ts_at t i)) :: l2) = cs_of l).
      { rewrite E1. unfold cs_of. rewrite !flat_map_app. cbn [flat_map snd]. rewrite all_cs_set_d. reflexivity. }
      split; [rewrite K3; exact Ecs|]. eapply Forall_impl; [|exact K4]. intros n [Hn|[c [k [-> Hc]]]].
      - rewrite nodes_of_app, nodes_of_cons in Hn. cbn [snd] in Hn. rewrite nodes_set_d in Hn.
        apply in_app_or in Hn. destruct Hn as [Hn|[Hn|Hn]].
        + left. rewrite E1, nodes_of_app. apply in_or_app. left. exact Hn.
        + right. exists (jc x), i. split; [symmetry; exact Hn|]. rewrite E1. unfold cs_of. rewrite flat_map_app. apply in_or_app. right.
          cbn [flat_map snd]. apply in_or_app. left. apply jc_in_all_cs.
        + apply in_app_or in Hn. left. rewrite E1, nodes_of_app, nodes_of_cons. cbn [snd]. apply in_or_app. right. apply in_or_app.
          destruct Hn as [Hn|Hn]; [left; rewrite (nodes_head x); right; exact Hn|right; exact Hn].
      - right. exists c, k. split; [reflexivity|]. rewrite <- Ecs. exact Hc. }
    assert (Lx : length (amem (l1 ++ (o, set_d x (ts_at t i)) :: l2)) = (length (amem l) - (if jtomb x then 0 else 1))%nat).
    { rewrite E1, !amem_len_app. change ((o, set_d x (ts_at t i)) :: l2) with ([(o, set_d x (ts_at t i))] ++ l2).
      change ((o, x) :: l2) with ([(o, x)] ++ l2). rewrite !amem_len_app. unfold amem at 2 5. cbn [flat_map]. rewrite set_d_tomb.
      destruct (jtomb x); cbn [app length]; lia. }
    destruct (negb (jtomb x)) eqn:Tx.
    + apply Step. rewrite E2, Lx. apply negb_true_iff in Tx. rewrite Tx.
      assert (0 < length (amem l))%nat.
      { rewrite E1, amem_len_app. change ((o, x) :: l2) with ([(o, x)] ++ l2). rewrite amem_len_app. unfold amem at 2. cbn [flat_map]. rewrite Tx. cbn. lia. }
      lia.
    + apply negb_false_iff in Tx. destruct (ts_lt (jtime x) (ts_at t i)); [|apply IH; assumption].
      apply Step. rewrite E2, Lx, Tx. lia.
Qed.

(* the trees an update operation creates: one per (target, value) pair, used or not *)
Fixpoint upd_created (t : ts) (targets : list ts) (vs : list val) (i : N) : list jt :=
  match targets, vs with
  | _ :: tgs, v :: vs' => let '(n, i1) := create t v i in n :: upd_created t tgs vs' i1
  | _, _ => []
  end.
Lemma upd_created_many t : forall targets vs i,
  upd_created t targets vs i = fst (create_many t (firstn (length targets) vs) i).
Proof.
  induction targets as [|tg tgs IH]; intros vs i; [reflexivity|]. destruct vs as [|v vs']; [reflexivity|].
  cbn [upd_created length firstn create_many]. destruct (create t v i) as [n i1]. rewrite IH.
  destruct (create_many t (firstn (length tgs) vs') i1). reflexivity.
Qed.

Lemma perm_move_tail {A} (a x b n e : list A) : Permutation ((a ++ x ++ b) ++ n ++ e) (((a ++ n ++ b) ++ e) ++ x).
Proof.
  rewrite <- !app_assoc. apply Permutation_app_head.
  (* x ++ b ++ n ++ e  ~  n ++ b ++ e ++ x *)
  eapply Permutation_trans; [apply Permutation_app_comm|]. rewrite <- !app_assoc.
  (* b ++ n ++ e ++ x ~ n ++ b ++ e ++ x *)
  apply Permutation_app_swap_app.
Qed.
Lemma perm_drop_tail {A} (l n e : list A) : Permutation (l ++ n ++ e) ((l ++ e) ++ n).
Proof. rewrite <- app_assoc. apply Permutation_app_head, Permutation_app_comm. Qed.

Lemma aupd_remote_spec t : forall targets vs l i,
  Wl l -> Forall canon vs ->
  let l' := aupd_remote l targets vs t i in
  length (amem l') = length (amem l) /\ Wl l' /\
  exists dropped, Permutation (cs_of l ++ flat_map all_cs (upd_created t targets vs i)) (cs_of l' ++ dropped).
Proof.
  induction targets as [|tg tgs IH]; intros vs l i Hw Hc; cbn [aupd_remote upd_created].
  - cbv zeta. split; [reflexivity|]. split; [exact Hw|]. exists []. reflexivity.
  - destruct vs as [|v vs']; [cbv zeta; split; [reflexivity|]; split; [exact Hw|]; exists []; reflexivity|].
    inversion Hc as [|? ? Cv Cvs]; subst.
    pose proof (create_wft t v Cv i) as Wn. pose proof (create_not_tomb t v i) as Tn.
    destruct (create t v i) as [n i1]. cbn [fst] in Wn, Tn. cbn [flat_map].
    assert (Skip : let l' := aupd_remote l tgs vs' t i1 in
              length (amem l') = length (amem l) /\ Wl l' /\
              exists dropped, Permutation (cs_of l ++ all_cs n ++ flat_map all_cs (upd_created t tgs vs' i1)) (cs_of l' ++ dropped)).
    { destruct (IH vs' l i1 Hw Cvs) as [K1 [K2 [dr P]]]. cbv zeta. split; [exact K1|]. split; [exact K2|].
      exists (dr ++ all_cs n). eapply Permutation_trans; [apply perm_drop_tail|]. rewrite (app_assoc _ dr (all_cs n)). apply Permutation_app_tail. exact P. }
    destruct (afind l tg) as [x|] eqn:Ef; [|exact Skip].
    destruct (negb (jtomb x) && ts_lt (jtime x) (jc n)) eqn:Eg; [|exact Skip].
    apply andb_true_iff in Eg. destruct Eg as [Tx _]. apply negb_true_iff in Tx.
    destruct (afind_split _ _ _ Ef) as [l1 [o [l2 [E1 E2]]]]. rewrite E2.
    assert (Hw1 : Wl (l1 ++ (o, n) :: l2)).
    { rewrite E1 in Hw. apply Wl_app in Hw. destruct Hw as [W1 [_ W2]]. apply Wl_app. split; [exact W1|split; [exact Wn|exact W2]]. }
    destruct (IH vs' _ i1 Hw1 Cvs) as [K1 [K2 [dr P]]]. cbv zeta. split; [|split; [exact K2|]].
    + rewrite K1, E1. apply amem_len_replace. rewrite Tn, Tx. reflexivity.
    + exists (dr ++ all_cs x). rewrite E1. unfold cs_of at 1. rewrite flat_map_app. cbn [flat_map snd].
      eapply Permutation_trans; [apply perm_move_tail|]. rewrite (app_assoc _ dr (all_cs x)). apply Permutation_app_tail.
      unfold cs_of in P at 1. rewrite flat_map_app in P. cbn [flat_map snd] in P. exact P.
Qed.

(* ---------- the structural invariant under remote operations ---------- *)
Definition SInv (s : jt) : Prop := wft s /\ NoDup (all_cs s).
(* no node of the tree was created by the operation stamped t: the operation is new to this replica *)
Definition new_to (t : ts) (cs : list ts) : Prop := forall y k, In y cs -> y <> ts_at t k.

Lemma cs_step' t c (old_cs new_cs extra dropped : list ts) :
  NoDup (c :: old_cs) -> new_to t (c :: old_cs) ->
  NoDup extra -> (forall y, In y extra -> exists k, y = ts_at t k) ->
  Permutation (old_cs ++ extra) (new_cs ++ dropped) ->
  NoDup (c :: new_cs) /\ (forall y, In y (c :: new_cs) -> In y (c :: old_cs) \/ exists k, y = ts_at t k).
Proof.
  intros Hnd Hold Hex Hnew P. inversion Hnd as [|? ? Hc Ho]; subst.
  assert (Hsub : forall y, In y new_cs -> In y old_cs \/ In y extra).
  { intros y Hy. apply in_app_or. apply (Permutation_in _ (Permutation_sym P)). apply in_or_app. left. exact Hy. }
  assert (N1 : NoDup (old_cs ++ extra)).
  { apply NoDup_app_intro; [exact Ho|exact Hex|]. intros y Hy He. destruct (Hnew y He) as [k E].
    exact (Hold y k (or_intror Hy) E). }
  pose proof (Permutation_NoDup P N1) as N2. apply NoDup_app_inv in N2. destruct N2 as [N2 _]. split.
  - constructor; [|exact N2]. intros Hin. destruct (Hsub c Hin) as [H|H]; [exact (Hc H)|].
    destruct (Hnew c H) as [k E]. exact (Hold c k (or_introl eq_refl) E).
  - intros y [<-|Hy]; [left; left; reflexivity|]. destruct (Hsub y Hy) as [H|H]; [left; right; exact H|right; exact (Hnew y H)].
Qed.

Definition cs_ok (t : ts) (tg x' : jt) : Prop :=
  NoDup (all_cs x') /\ (forall y, In y (all_cs x') -> In y (all_cs tg) \/ exists k, y = ts_at t k).

Lemma cs_ok_refl t tg : NoDup (all_cs tg) -> cs_ok t tg tg.
Proof. intros H. split; [exact H|auto]. Qed.

Lemma created_cs_new t v i y : In y (all_cs (fst (create t v i))) -> exists k, y = ts_at t k.
Proof. intros H. exact (newnode_cs t _ y (create_clean t v i) H). Qed.

Lemma put_remote_cs t tg k v x' : NoDup (all_cs tg) -> new_to t (all_cs tg) ->
  obj_put tg k (fst (create t v 0)) = Some x' -> cs_ok t tg x'.
Proof.
  intros Hnd Hnew. destruct tg as [|c d m s|]; try discriminate. set (child := fst (create t v 0)).
  pose proof (create_ids_distinct t v 0) as Nch. fold child in Nch. rewrite all_cs_obj in Hnd, Hnew. cbn [obj_put].
  destruct (alookup str_eqb k m) as [old|] eqn:E.
  - destruct (ts_lt (jtime old) (jtime child)); intros [= <-]; [|apply cs_ok_refl; rewrite all_cs_obj; exact Hnd].
    destruct (alookup_split _ _ _ E) as [m1 [m2 [E1 E2]]]. unfold cs_ok. rewrite !all_cs_obj.
    apply (cs_step' t c (cs_of m) _ (all_cs child) (all_cs old) Hnd Hnew Nch (fun y => created_cs_new t v 0 y)).
    rewrite (E2 child), E1. unfold cs_of. rewrite !flat_map_app. cbn [flat_map snd]. rewrite <- !app_assoc.
    apply Permutation_app_head. eapply Permutation_trans; [apply Permutation_app_comm|]. rewrite <- app_assoc.
    apply Permutation_app_swap_app.
  - intros [= <-]. unfold cs_ok. rewrite !all_cs_obj.
    apply (cs_step' t c (cs_of m) _ (all_cs child) [] Hnd Hnew Nch (fun y => created_cs_new t v 0 y)).
    unfold cs_of. rewrite flat_map_app. cbn [flat_map snd]. rewrite !app_nil_r. reflexivity.
Qed.

Lemma remove_remote_cs t tg k d0 x' : NoDup (all_cs tg) -> obj_remove_remote tg k d0 = Some x' -> cs_ok t tg x'.
Proof.
  intros Hnd. destruct tg as [|c d m s|]; try discriminate. cbn [obj_remove_remote].
  destruct (alookup str_eqb k m) as [old|] eqn:E; [|discriminate].
  destruct (ts_lt (jtime old) d0); intros [= <-]; [|apply cs_ok_refl; exact Hnd].
  destruct (alookup_split _ _ _ E) as [m1 [m2 [E1 E2]]].
  assert (Ecs : all_cs (JO c d (aset str_eqb k (set_d old d0) m) (if jtomb old then s else (s - 1)%Z)) = all_cs (JO c d m s)).
  { rewrite !all_cs_obj, E2, E1. unfold cs_of. rewrite !flat_map_app. cbn [flat_map snd]. rewrite all_cs_set_d. reflexivity. }
  unfold cs_ok. rewrite Ecs. split; [exact Hnd|auto].
Qed.

Lemma created_many_cs_new t vs i y : In y (flat_map all_cs (fst (create_many t vs i))) -> exists k, y = ts_at t k.
Proof. destruct (create_many_ids t vs i) as [n E]. rewrite E. intros H. apply in_map_iff in H. destruct H as [k [<- _]]. eauto. Qed.
Lemma created_many_cs_nodup t vs i : NoDup (flat_map all_cs (fst (create_many t vs i))).
Proof. destruct (create_many_ids t vs i) as [n E]. rewrite E. apply map_ts_at_nodup, nrange_nodup. Qed.

Lemma array_remote_cs t c d l sz l' sz' extra dropped :
  NoDup (all_cs (JA c d l sz)) -> new_to t (all_cs (JA c d l sz)) ->
  NoDup extra -> (forall y, In y extra -> exists k, y = ts_at t k) ->
  Permutation (cs_of l ++ extra) (cs_of l' ++ dropped) -> cs_ok t (JA c d l sz) (JA c d l' sz').
Proof. intros Hnd Hnew He Hn P. unfold cs_ok. rewrite !all_cs_arr in *. exact (cs_step' t c _ _ extra dropped Hnd Hnew He Hn P). Qed.

Theorem on_node_SInv t p f s s' :
  SInv s -> new_to t (all_cs s) -> on_node s p f = Some s' ->
  (forall tg x', wft tg -> f tg = Some x' -> wft x' /\ jtomb x' = jtomb tg) ->
  (forall tg x', NoDup (all_cs tg) -> new_to t (all_cs tg) -> f tg = Some x' -> cs_ok t tg x') ->
  SInv s' /\ jtomb s' = jtomb s.
Proof.
  intros [Hw Hnd] Hnew Hon Hfw Hfc. destruct (on_node_wft p f Hfw s s' Hw Hon) as [W T]. split; [|exact T]. split; [exact W|].
  destruct (on_node_nodes p f s s' Hon) as [tg [x' [rest [Hf [_ [P1 P2]]]]]].
  rewrite (all_cs_nodes s) in Hnd, Hnew. rewrite (all_cs_nodes s').
  assert (Q1 := Permutation_map fst P1). assert (Q2 := Permutation_map fst P2). rewrite map_app in Q1, Q2.
  apply (Permutation_NoDup (Permutation_sym Q2)). pose proof (Permutation_NoDup Q1 Hnd) as Hnd'.
  apply NoDup_app_inv in Hnd'. destruct Hnd' as [Ntg [Hr Hdis]].
  assert (Hnew_tg : new_to t (all_cs tg)).
  { intros y k Hy. apply Hnew. apply (Permutation_in _ (Permutation_sym Q1)). apply in_or_app. left. rewrite <- all_cs_nodes. exact Hy. }
  rewrite <- all_cs_nodes in Ntg. destruct (Hfc tg x' Ntg Hnew_tg Hf) as [Nx Sx].
  apply NoDup_app_intro; [rewrite <- all_cs_nodes; exact Nx|exact Hr|].
  intros y Hy Hyr. rewrite <- all_cs_nodes in Hy. destruct (Sx y Hy) as [Hin|[k E]].
  - rewrite all_cs_nodes in Hin. exact (Hdis y Hin Hyr).
  - apply (Hnew y k); [|exact E]. apply (Permutation_in _ (Permutation_sym Q1)). apply in_or_app. right. exact Hyr.
Qed.

Definition canon_op (o : op) : Prop :=
  match o with ODocPut _ _ _ v => canon v | ODocIns _ _ _ vs | ODocUpd _ _ _ vs => Forall canon vs | _ => True end.

(* every remote operation that is new to the replica keeps the tree well-formed, its creation timestamps pairwise
   distinct and the root as it was; the snapshot operation puts the initial document in its place *)
Theorem doc_remote_keeps_structure s o :
  SInv s -> new_to (opid_ts (op_id o)) (all_cs s) -> canon_op o ->
  SInv (doc_remote s o) /\ (is_snap o = false -> jtomb (doc_remote s o) = jtomb s).
Proof.
  intros HI Hnew Hc. unfold doc_remote.
  assert (Keep : SInv s /\ (is_snap o = false -> jtomb s = jtomb s)) by (split; [exact HI|reflexivity]).
  destruct o as [i| | | | | | | |i p k v|i p k|i p target vs|i p targets|i p targets vs]; try exact Keep; cbn [op_id canon_op] in *.
  - split; [|discriminate]. split; [split; [constructor|exact I]|repeat constructor; intros []].
  - (* put *)
    set (t := opid_ts i) in *. destruct (create t v 0) as [child i1] eqn:Ec.
    assert (Ech : child = fst (create t v 0)) by (rewrite Ec; reflexivity).
    destruct (on_node s p (fun j => obj_put j k child)) as [s'|] eqn:Hon; [|exact Keep].
    destruct (on_node_SInv t p _ s s' HI Hnew Hon) as [K1 K2]; [| |split; [exact K1|intros _; exact K2]].
    + intros tg x' Hw Hx. apply (put_remote_wft tg k child x' Hw); [rewrite Ech; apply create_wft, Hc|exact Hx].
    + intros tg x' Hn Hnw Hx. rewrite Ech in Hx. exact (put_remote_cs t tg k v x' Hn Hnw Hx).
  - (* remove *)
    set (t := opid_ts i) in *.
    destruct (on_node s p (fun j => obj_remove_remote j k t)) as [s'|] eqn:Hon; [|exact Keep].
    destruct (on_node_SInv t p _ s s' HI Hnew Hon) as [K1 K2]; [| |split; [exact K1|intros _; exact K2]].
    + intros tg x' Hw Hx. exact (remove_remote_wft tg k t x' Hw Hx).
    + intros tg x' Hn _ Hx. exact (remove_remote_cs t tg k t x' Hn Hx).
  - (* insert *)
    set (t := opid_ts i) in *. destruct (create_many t vs 0) as [ns i1] eqn:Ec.
    assert (Ens : ns = fst (create_many t vs 0)) by (rewrite Ec; reflexivity).
    destruct (created_many_facts t vs Hc) as [F1 [F2 [F3 F4]]]. rewrite <- Ens in F1, F2, F3, F4.
    assert (Live : Forall (fun n => jtomb n = false) ns).
    { destruct (create_many_shape t vs 0) as [Hs _]. rewrite <- Ens in Hs. eapply Forall_impl; [|exact Hs].
      intros n [x [ix [_ ->]]]. apply create_not_tomb. }
    match goal with |- context [on_node s p ?f] => set (g := f) end.
    destruct (on_node s p g) as [s'|] eqn:Hon; [|exact Keep].
    destruct (on_node_SInv t p g s s' HI Hnew Hon) as [K1 K2]; [| |split; [exact K1|intros _; exact K2]].
    + intros tg x' Hw. unfold g. destruct tg as [| |c d l sz]; try discriminate. destruct Hw as [Hs Hch].
      destruct (ts_eqb target oldest_ts).
      * intros [= <-]. split; [|reflexivity]. split; [rewrite (ains_many_len ns l Live); lia|].
        exact (ledit_wl t l ns _ (ains_many_ledit t ns l) Hch F1).
      * destruct (ains_at l target ns) as [l'|] eqn:Ea; [|discriminate]. intros [= <-]. split; [|reflexivity].
        split; [rewrite (ains_at_len ns Live l target l' Ea); lia|exact (ledit_wl t l ns l' (ains_at_ledit t ns l target l' Ea) Hch F1)].
    + intros tg x' Hn Hnw. unfold g. destruct tg as [| |c d l sz]; try discriminate.
      assert (G : forall l', ledit t l ns l' -> cs_ok t (JA c d l sz) (JA c d l' (sz + Z.of_nat (length ns)))).
      { intros l' He. destruct (ledit_cs t l ns l' He) as [dr P].
        apply (array_remote_cs t c d l sz l' _ (flat_map all_cs ns) dr Hn Hnw F2); [|exact P].
        intros y Hy. rewrite Ens in Hy. exact (created_many_cs_new t vs 0 y Hy). }
      destruct (ts_eqb target oldest_ts).
      * intros [= <-]. apply G, ains_many_ledit.
      * destruct (ains_at l target ns) as [l'|] eqn:Ea; [|discriminate]. intros [= <-]. apply G. eapply ains_at_ledit; eauto.
  - (* delete *)
    set (t := opid_ts i) in *.
    match goal with |- context [on_node s p ?f] => set (g := f) end.
    destruct (on_node s p g) as [s'|] eqn:Hon; [|exact Keep].
    destruct (on_node_SInv t p g s s' HI Hnew Hon) as [K1 K2]; [| |split; [exact K1|intros _; exact K2]].
    + intros tg x' Hw. unfold g. destruct tg as [| |c d l sz]; try discriminate. destruct Hw as [Hs Hch].
      destruct (adel_remote l sz targets t 0) as [l' sz'] eqn:Ea. intros [= <-].
      destruct (adel_remote_wft t targets l sz 0 l' sz' Hs Hch Ea) as [A1 [A2 _]]. split; [split; assumption|reflexivity].
    + intros tg x' Hn Hnw. unfold g. destruct tg as [| |c d l sz]; try discriminate.
      destruct (adel_remote l sz targets t 0) as [l' sz'] eqn:Ea. intros [= <-]. unfold cs_ok. rewrite !all_cs_arr in *.
      (* the creation timestamps do not change: any Wl/size premise is irrelevant here, so the list-level fact is re-derived *)
      assert (Ecs : cs_of l' = cs_of l).
      { clear -Ea. revert l sz l' sz' Ea. generalize 0. induction targets as [|tg tgs IH]; intros i0 l sz l' sz'; cbn [adel_remote]; [intros [= <- _]; reflexivity|].
        assert (Eupd : forall f, (forall x, all_cs (f x) = all_cs x) -> cs_of (aupd_node l tg f) = cs_of l).
        { intros f Hf. clear -Hf. induction l as [|[o x] l IHl]; [reflexivity|]. cbn [aupd_node fst snd]. destruct (ts_eqb o tg).
          - rewrite !cs_of_cons. cbn [snd]. rewrite Hf. reflexivity.
          - rewrite !cs_of_cons. cbn [snd]. rewrite IHl. reflexivity. }
        destruct (afind l tg) as [x|]; [|apply IH].
        destruct (negb (jtomb x)); [intros H; rewrite (IH _ _ _ _ _ H); apply Eupd; intros; apply all_cs_set_d|].
        destruct (ts_lt (jtime x) (ts_at t i0)); [intros H; rewrite (IH _ _ _ _ _ H); apply Eupd; intros; apply all_cs_set_d|apply IH]. }
      rewrite Ecs. split; [exact Hn|auto].
  - (* update *)
    set (t := opid_ts i) in *.
    match goal with |- context [on_node s p ?f] => set (g := f) end.
    destruct (on_node s p g) as [s'|] eqn:Hon; [|exact Keep].
    destruct (on_node_SInv t p g s s' HI Hnew Hon) as [K1 K2]; [| |split; [exact K1|intros _; exact K2]].
    + intros tg x' Hw. unfold g. destruct tg as [| |c d l sz]; try discriminate. destruct Hw as [Hs Hch]. intros [= <-].
      destruct (aupd_remote_spec t targets vs l 0 Hch Hc) as [A1 [A2 _]]. split; [split; [rewrite A1; exact Hs|exact A2]|reflexivity].
    + intros tg x' Hn Hnw. unfold g. destruct tg as [| |c d l sz]; try discriminate. intros [= <-].
      assert (Wl_any : exists dr, Permutation (cs_of l ++ flat_map all_cs (upd_created t targets vs 0)) (cs_of (aupd_remote l targets vs t 0) ++ dr)).
      { clear -Hc. revert vs l Hc. generalize 0. induction targets as [|tg tgs IH]; intros i0 vs l Hc; cbn [aupd_remote upd_created]; [exists []; reflexivity|].
        destruct vs as [|v vs']; [exists []; reflexivity|]. inversion Hc as [|? ? Cv Cvs]; subst.
        destruct (create t v i0) as [n i1]. cbn [flat_map].
        assert (Skip : exists dr, Permutation (cs_of l ++ all_cs n ++ flat_map all_cs (upd_created t tgs vs' i1)) (cs_of (aupd_remote l tgs vs' t i1) ++ dr)).
        { destruct (IH i1 vs' l Cvs) as [dr P]. exists (dr ++ all_cs n). eapply Permutation_trans; [apply perm_drop_tail|].
          rewrite (app_assoc _ dr (all_cs n)). apply Permutation_app_tail. exact P. }
        destruct (afind l tg) as [x|] eqn:Ef; [|exact Skip]. destruct (negb (jtomb x) && ts_lt (jtime x) (jc n)); [|exact Skip].
        destruct (afind_split _ _ _ Ef) as [l1 [o [l2 [E1 E2]]]]. rewrite E2. destruct (IH i1 vs' (l1 ++ (o, n) :: l2) Cvs) as [dr P].
        exists (dr ++ all_cs x). rewrite E1. unfold cs_of at 1. rewrite flat_map_app. cbn [flat_map snd].
        eapply Permutation_trans; [apply perm_move_tail|]. rewrite (app_assoc _ dr (all_cs x)). apply Permutation_app_tail.
        unfold cs_of in P at 1. rewrite flat_map_app in P. cbn [flat_map snd] in P. exact P. }
      destruct Wl_any as [dr P].
      apply (array_remote_cs t c d l sz _ sz (flat_map all_cs (upd_created t targets vs 0)) dr Hn Hnw); [| |exact P].
      * rewrite upd_created_many. apply created_many_cs_nodup.
      * intros y Hy. rewrite upd_created_many in Hy. exact (created_many_cs_new t _ 0 y Hy).
Qed.

(* ---------- local calls and remote operations in any interleaving ---------- *)
(* a step of a replica: an API call with its identifier, or the delivery of a remote operation *)
Inductive dstep := SLocal (c : dcall) (i : opid) | SRemote (o : op).
Definition live_root (s : jt) : Prop := jtomb s = false.

Definition do_step (s : jt) (st : dstep) : option jt :=
  match st with
  | SLocal c i => if doc_validate s c then option_map fst (doc_local s c i) else None
  | SRemote o => Some (doc_remote s o)
  end.
(* what the surrounding machinery guarantees at each step (C15: the local clock has passed every applied timestamp, an
   identifier is never reused; C05/C07: an operation is delivered once): a local call is stamped with a bounded
   timestamp newer than everything in the tree, a remote operation is new to the tree, and the values are canonical *)
Definition step_ok (s : jt) (st : dstep) : Prop :=
  match st with
  | SLocal c i => ts_bounded (opid_ts i) /\ Forall (below (opid_ts i)) (nodes s) /\ canon_call c
  | SRemote o => new_to (opid_ts (op_id o)) (all_cs s) /\ canon_op o /\ is_snap o = false
  end.
Fixpoint run_steps (s : jt) (sts : list dstep) : option jt :=
  match sts with
  | [] => Some s
  | st :: r => match do_step s st with Some s' => run_steps s' r | None => None end
  end.
Fixpoint steps_ok (s : jt) (sts : list dstep) : Prop :=
  match sts with
  | [] => True
  | st :: r => step_ok s st /\ match do_step s st with Some s' => steps_ok s' r | None => True end
  end.

Theorem step_keeps_structure s st s' :
  SInv s -> live_root s -> step_ok s st -> do_step s st = Some s' ->
  SInv s' /\ live_root s' /\
  match st with SLocal c _ => jview s' = plain_call c (jview s) | SRemote _ => True end.
Proof.
  intros [Hw Hn] Hl Hok. destruct st as [c i|o]; cbn [do_step step_ok] in *.
  - destruct Hok as [Hb [Hbel Hc]]. destruct (doc_validate s c) eqn:Hv; [|discriminate].
    destruct (doc_local s c i) as [[s1 o1]|] eqn:Hd; [|discriminate]. cbn [option_map fst]. intros [= <-].
    destruct (doc_local_step s c i s1 o1 Hb (conj Hw (conj Hl (conj Hn Hbel))) Hc Hv Hd) as [V [W [T [N _]]]].
    split; [split; assumption|]. split; [exact T|exact V].
  - destruct Hok as [Hnew [Hc Hs]]. intros [= <-].
    destruct (doc_remote_keeps_structure s o (conj Hw Hn) Hnew Hc) as [K1 K2]. split; [exact K1|]. split; [|exact I].
    unfold live_root. rewrite (K2 Hs). exact Hl.
Qed.

(* every reachable state of a replica — any interleaving of API calls and deliveries — is well-formed with pairwise
   distinct creation timestamps and a live root; in particular every later API call and every later patch script acts
   on the readable value as the plain JSON operation (doc_local_step, patches_refine) *)
Theorem steps_keep_structure : forall sts s s',
  SInv s -> live_root s -> steps_ok s sts -> run_steps s sts = Some s' -> SInv s' /\ live_root s'.
Proof.
  induction sts as [|st r IH]; intros s s' HI Hl Hok; cbn [run_steps steps_ok] in *.
  - intros [= <-]. auto.
  - destruct Hok as [H1 H2]. destruct (do_step s st) as [s1|] eqn:E; [|discriminate]. intros Hr.
    destruct (step_keeps_structure s st s1 HI Hl H1 E) as [K1 [K2 _]]. exact (IH s1 s' K1 K2 H2 Hr).
Qed.
