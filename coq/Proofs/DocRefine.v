(* Document: local operations refine the plain JSON value they show (objects; see the end for what is covered). *)
From Coq Require Import List NArith ZArith Bool Lia Permutation.
From Orda.Model Require Import Base Time Ops Doc.
From Orda.Proofs Require Import TimeFacts MapFacts SortFacts DocFacts.
Import ListNotations.
Open Scope N_scope.

(* the live members of an object, in storage order, as (key, readable value) *)
Definition omem (m : list (str * jt)) : list (str * val) :=
  flat_map (fun kc => match kc with (k, c) => if jtomb c then [] else [(k, jview c)] end) m.
Lemma jview_obj c d m s : jview (JO c d m s) = VObj (sort_by_key (omem m)).
Proof. reflexivity. Qed.

Definition rmkey {V} (k : str) (l : list (str * V)) : list (str * V) := filter (fun kv => negb (str_eqb (fst kv) k)) l.

Lemma omem_keys_in m k : In k (map fst (omem m)) -> In k (map fst m).
Proof.
  induction m as [|[k0 c] m IH]; cbn; [auto|]. destruct (jtomb c); cbn; [right; auto|]. intros [<-|H]; [left; reflexivity|right; auto].
Qed.
Lemma omem_nodup m : NoDup (map fst m) -> NoDup (map fst (omem m)).
Proof.
  induction m as [|[k c] m IH]; cbn; intros H; [constructor|]. inversion H as [|? ? Hn Hd]; subst.
  destruct (jtomb c); cbn; [apply IH, Hd|]. constructor; [|apply IH, Hd]. intros Hin. apply Hn, omem_keys_in, Hin.
Qed.

Lemma rmkey_notin {V} k (l : list (str * V)) : ~ In k (map fst l) -> rmkey k l = l.
Proof.
  induction l as [|[k0 v] l IH]; cbn; intros H; [reflexivity|]. destruct (str_eqb k0 k) eqn:E.
  - apply str_eqb_eq in E. subst. exfalso. apply H. left. reflexivity.
  - cbn. f_equal. apply IH. intros Hin. apply H. right. exact Hin.
Qed.

(* a key's child replaced by a live child: the member list changes exactly at that key *)
Lemma omem_aset m k child : NoDup (map fst m) -> jtomb child = false -> In k (map fst m) ->
  Permutation (omem (aset str_eqb k child m)) ((k, jview child) :: rmkey k (omem m)).
Proof.
  induction m as [|[k0 c] m IH]; cbn [map aset omem flat_map]; intros Hnd Hl Hin; [destruct Hin|].
  inversion Hnd as [|? ? Hn Hd]; subst. cbn [fst] in *. destruct (str_eqb k k0) eqn:E.
  - apply str_eqb_eq in E. subst k0. cbn [flat_map]. rewrite Hl. cbn [app].
    fold (omem m). assert (R : rmkey k (omem m) = omem m) by (apply rmkey_notin; intros H; apply Hn, omem_keys_in, H).
    destruct (jtomb c); cbn [app rmkey filter fst].
    + fold (@rmkey val k (omem m)). rewrite R. reflexivity.
    + rewrite str_eqb_refl. cbn [negb]. fold (@rmkey val k (omem m)). rewrite R. reflexivity.
  - cbn [flat_map]. fold (omem (aset str_eqb k child m)). fold (omem m).
    assert (Hin' : In k (map fst m)). { destruct Hin as [->|H]; [rewrite str_eqb_refl in E; discriminate|exact H]. }
    specialize (IH Hd Hl Hin'). destruct (jtomb c); cbn [app]; [exact IH|].
    unfold rmkey at 1. cbn [filter fst]. rewrite str_eqb_sym, E. cbn [negb]. fold (@rmkey val k (omem m)).
    eapply Permutation_trans; [apply perm_skip, IH|]. apply perm_swap.
Qed.
Lemma omem_app m k child : jtomb child = false -> omem (m ++ [(k, child)]) = omem m ++ [(k, jview child)].
Proof. intros H. unfold omem. rewrite flat_map_app. cbn. rewrite H. reflexivity. Qed.

Lemma alookup_none_notin {V} k (m : list (str * V)) : alookup str_eqb k m = None -> ~ In k (map fst m).
Proof.
  induction m as [|[k0 v] m IH]; cbn; [auto|]. destruct (str_eqb k k0) eqn:E; [discriminate|].
  intros H [<-|Hin]; [rewrite str_eqb_refl in E; discriminate|exact (IH H Hin)].
Qed.
Lemma alookup_some_in {V} k (m : list (str * V)) v : alookup str_eqb k m = Some v -> In k (map fst m).
Proof.
  induction m as [|[k0 v0] m IH]; cbn; [discriminate|]. destruct (str_eqb k k0) eqn:E; [apply str_eqb_eq in E; subst; auto|auto].
Qed.

Lemma nodup_snoc'' {A} (l : list A) x : NoDup l -> ~ In x l -> NoDup (l ++ [x]).
Proof.
  induction l as [|a l IH]; cbn; intros H Hn; [constructor; [intros []|constructor]|].
  inversion H as [|? ? Ha Hl]; subst. constructor.
  - intros Hin. apply in_app_or in Hin. destruct Hin as [Hin|[Hin|[]]]; [contradiction|]. apply Hn. left. symmetry. exact Hin.
  - apply IH; [exact Hl|]. intros Hx. apply Hn. right. exact Hx.
Qed.

(* the plain JSON operations on an object value (members kept in key order) *)
Definition vput (k : str) (v : val) (o : val) : val :=
  match o with VObj l => VObj (sort_by_key ((k, v) :: rmkey k l)) | _ => o end.
Definition vrm (k : str) (o : val) : val :=
  match o with VObj l => VObj (rmkey k l) | _ => o end.

Lemma rmkey_perm {V} k (l1 l2 : list (str * V)) : Permutation l1 l2 -> Permutation (rmkey k l1) (rmkey k l2).
Proof.
  induction 1; cbn; try constructor; auto.
  - destruct (negb (str_eqb (fst x) k)); [constructor|]; auto.
  - destruct (negb (str_eqb (fst x) k)); destruct (negb (str_eqb (fst y) k)); try constructor; try apply Permutation_refl.
  - eapply Permutation_trans; eauto.
Qed.
Lemma rmkey_keys {V} k (l : list (str * V)) x : In x (map fst (rmkey k l)) <-> In x (map fst l) /\ x <> k.
Proof.
  induction l as [|[k0 v] l IH]; cbn; [tauto|]. destruct (str_eqb k0 k) eqn:E; cbn.
  - apply str_eqb_eq in E. subst. rewrite IH. intuition congruence.
  - apply str_eqb_neq in E. rewrite IH. intuition congruence.
Qed.
Lemma rmkey_nodup {V} k (l : list (str * V)) : NoDup (map fst l) -> NoDup (map fst (rmkey k l)).
Proof.
  induction l as [|[k0 v] l IH]; cbn; intros H; [constructor|]. inversion H as [|? ? Hn Hd]; subst.
  destruct (str_eqb k0 k); cbn; [apply IH, Hd|]. constructor; [|apply IH, Hd]. intros Hin. apply rmkey_keys in Hin. apply Hn, Hin.
Qed.

(* put into an object whose child (if any) is older than the new one: the readable value is the plain put *)
Theorem obj_put_view c d m s k child j' :
  NoDup (map fst m) -> jtomb child = false ->
  (forall old, alookup str_eqb k m = Some old -> ts_lt (jtime old) (jtime child) = true) ->
  obj_put (JO c d m s) k child = Some j' ->
  jview j' = vput k (jview child) (jview (JO c d m s)).
Proof.
  intros Hnd Hl Hnew. cbn [obj_put]. destruct (alookup str_eqb k m) as [old|] eqn:E.
  - rewrite (Hnew old eq_refl). intros [= <-]. rewrite !jview_obj. cbn [vput]. f_equal.
    apply sort_canonical.
    + apply omem_nodup, aset_nodup, Hnd.
    + cbn [map fst]. constructor; [intros H; apply rmkey_keys in H; tauto|apply rmkey_nodup]. 
      eapply Permutation_NoDup; [apply Permutation_map, sort_perm|apply omem_nodup, Hnd].
    + eapply Permutation_trans; [apply omem_aset; [exact Hnd|exact Hl|eapply alookup_some_in; eauto]|].
      apply perm_skip, rmkey_perm, sort_perm.
  - intros [= <-]. rewrite !jview_obj. cbn [vput]. f_equal. rewrite omem_app by exact Hl.
    pose proof (alookup_none_notin _ _ E) as Hn.
    assert (Hn' : ~ In k (map fst (omem m))) by (intros H; apply Hn, omem_keys_in, H).
    apply sort_canonical.
    + rewrite map_app. cbn. apply nodup_snoc''; [apply omem_nodup, Hnd|exact Hn'].
    + cbn [map fst]. constructor; [intros H; apply rmkey_keys in H; tauto|apply rmkey_nodup].
      eapply Permutation_NoDup; [apply Permutation_map, sort_perm|apply omem_nodup, Hnd].
    + eapply Permutation_trans; [apply Permutation_sym, Permutation_cons_append|]. apply perm_skip.
      rewrite <- (rmkey_notin k (omem m) Hn') at 1. apply rmkey_perm, sort_perm.
Qed.

Lemma omem_aset_tomb m k child : NoDup (map fst m) -> jtomb child = true ->
  omem (aset str_eqb k child m) = rmkey k (omem m) \/ ~ In k (map fst m).
Proof.
  intros Hnd Ht. destruct (in_dec (list_eq_dec N.eq_dec) k (map fst m)) as [Hin|Hn]; [left|right; exact Hn].
  induction m as [|[k0 c] m IH]; [destruct Hin|]. cbn [map fst] in *. inversion Hnd as [|? ? Hn Hd]; subst.
  cbn [aset]. destruct (str_eqb k k0) eqn:E.
  - apply str_eqb_eq in E. subst k0. cbn [omem flat_map]. rewrite Ht. cbn [app]. fold (omem m).
    assert (R : rmkey k (omem m) = omem m) by (apply rmkey_notin; intros H; apply Hn, omem_keys_in, H).
    destruct (jtomb c); cbn [app rmkey filter fst]; [fold (@rmkey val k (omem m)); rewrite R; reflexivity|].
    rewrite str_eqb_refl. cbn [negb]. fold (@rmkey val k (omem m)). rewrite R. reflexivity.
  - assert (Hin' : In k (map fst m)) by (destruct Hin as [->|H]; [rewrite str_eqb_refl in E; discriminate|exact H]).
    cbn [omem flat_map]. fold (omem (aset str_eqb k child m)). fold (omem m). rewrite (IH Hd Hin').
    destruct (jtomb c); cbn [app]; [reflexivity|]. unfold rmkey at 2. cbn [filter fst]. rewrite str_eqb_sym, E. reflexivity.
Qed.

Lemma ksorted_filter {V} (p : str * V -> bool) (l : list (str * V)) : ksorted l -> ksorted (filter p l).
Proof.
  induction l as [|x l IH]; cbn; [auto|]. intros [H1 H2]. destruct (p x); cbn; [|auto]. split; [|auto].
  apply Forall_forall. intros y Hy. apply filter_In in Hy. rewrite Forall_forall in H1. apply H1, Hy.
Qed.
Lemma ksorted_nodup {V} (l : list (str * V)) : ksorted l -> NoDup (map fst l).
Proof.
  induction l as [|x l IH]; cbn; intros H; [constructor|]. destruct H as [H1 H2]. constructor; [|auto].
  intros Hin. apply in_map_iff in Hin. destruct Hin as [y [E Hy]]. rewrite Forall_forall in H1. specialize (H1 y Hy).
  rewrite E in H1. exact (klt_irrefl' _ H1).
Qed.
Lemma sort_rmkey {V} k (l : list (str * V)) : NoDup (map fst l) -> sort_by_key (rmkey k l) = rmkey k (sort_by_key l).
Proof.
  intros H. apply sorted_perm_eq.
  - apply sort_sorted', rmkey_nodup, H.
  - apply ksorted_filter, sort_sorted', H.
  - eapply Permutation_trans; [apply Permutation_sym, sort_perm|apply rmkey_perm, sort_perm].
Qed.

(* removing a present key: the readable value is the plain removal *)
Theorem obj_remove_view c d m s k t j' :
  NoDup (map fst m) -> obj_remove_local (JO c d m s) k t = Some j' -> jview j' = vrm k (jview (JO c d m s)).
Proof.
  intros Hnd. cbn [obj_remove_local]. destruct (alookup str_eqb k m) as [old|] eqn:E; [|discriminate].
  destruct (negb (jtomb old) && ts_lt (jtime old) t); [|discriminate]. intros [= <-]. rewrite !jview_obj. cbn [vrm]. f_equal.
  assert (Ht : jtomb (set_d old t) = true) by (destruct old; reflexivity).
  destruct (omem_aset_tomb m k (set_d old t) Hnd Ht) as [R|Hn]; [|exfalso; apply Hn; eapply alookup_some_in; eauto].
  rewrite R. apply sort_rmkey, omem_nodup, Hnd.
Qed.

(* ---------- arrays ---------- *)
Definition amem (l : list (ts * jt)) : list val :=
  flat_map (fun oc => match oc with (_, c) => if jtomb c then [] else [jview c] end) l.
Lemma jview_arr c d l s : jview (JA c d l s) = VArr (amem l).
Proof. reflexivity. Qed.
Lemma amem_app a b : amem (a ++ b) = amem a ++ amem b.
Proof. apply flat_map_app. Qed.
Lemma amem_cons_live x l : alive x = true -> amem (x :: l) = jview (snd x) :: amem l.
Proof. destruct x as [o c]. unfold alive. cbn. destruct (jtomb c); [discriminate|reflexivity]. Qed.
Lemma amem_cons_dead x l : alive x = false -> amem (x :: l) = amem l.
Proof. destruct x as [o c]. unfold alive. cbn. destruct (jtomb c); [reflexivity|discriminate]. Qed.

Lemma ains_local_spec ns : forall l pos,
  (pos <= length (amem l))%nat ->
  exists l' t, ains_local l pos ns = Some (l', t) /\ amem l' = firstn pos (amem l) ++ amem ns ++ skipn pos (amem l).
Proof.
  induction l as [|x l IH]; intros pos Hp.
  - cbn in Hp. assert (pos = 0%nat) by lia. subst. cbn [ains_local]. eexists _, _. split; [reflexivity|]. rewrite amem_app. reflexivity.
  - destruct pos as [|p].
    + cbn [ains_local]. eexists _, _. split; [reflexivity|]. rewrite amem_app. reflexivity.
    + cbn [ains_local]. destruct (alive x) eqn:Lx.
      * rewrite (amem_cons_live _ _ Lx) in Hp |- *. cbn [length] in Hp. destruct p as [|p'].
        -- eexists _, _. split; [reflexivity|]. rewrite (amem_cons_live _ _ Lx), amem_app. reflexivity.
        -- destruct (IH (S p') ltac:(lia)) as [l' [t [E V]]]. rewrite E. eexists _, _. split; [reflexivity|].
           rewrite (amem_cons_live _ _ Lx), V. reflexivity.
      * rewrite (amem_cons_dead _ _ Lx) in Hp |- *. destruct (IH (S p) Hp) as [l' [t [E V]]]. rewrite E. eexists _, _. split; [reflexivity|].
        rewrite (amem_cons_dead _ _ Lx). exact V.
Qed.

Lemma set_d_tomb j t : jtomb (set_d j t) = true.
Proof. destruct j; reflexivity. Qed.

Lemma adel_local_spec t : forall l pos num i,
  (pos + num <= length (amem l))%nat ->
  exists l' targets, adel_local l pos num t i = Some (l', targets) /\
    amem l' = firstn pos (amem l) ++ skipn (pos + num) (amem l) /\ length targets = num.
Proof.
  induction l as [|x l IH]; intros pos num i Hp.
  - cbn in Hp. assert (pos = 0%nat /\ num = 0%nat) as [-> ->] by lia. cbn. eexists _, _. repeat split.
  - destruct num as [|num'].
    + cbn [adel_local]. eexists _, _. split; [reflexivity|]. rewrite Nat.add_0_r, firstn_skipn. repeat split.
    + cbn [adel_local]. destruct (alive x) eqn:Lx.
      * rewrite (amem_cons_live _ _ Lx) in Hp |- *. cbn [length] in Hp. destruct pos as [|pos'].
        -- destruct (IH 0%nat num' (i + 1)%N ltac:(lia)) as [l' [tg [E [V1 V3]]]]. rewrite E.
           eexists _, _. split; [reflexivity|]. cbn [firstn skipn Nat.add app] in *.
           rewrite amem_cons_dead by (unfold alive; cbn [snd]; rewrite set_d_tomb; reflexivity). rewrite V1. split; [reflexivity|cbn; lia].
        -- destruct (IH pos' (S num') i ltac:(lia)) as [l' [tg [E [V1 V3]]]]. rewrite E.
           eexists _, _. split; [reflexivity|]. rewrite (amem_cons_live _ _ Lx), V1. cbn. split; auto.
      * rewrite (amem_cons_dead _ _ Lx) in Hp |- *. destruct (IH pos (S num') i Hp) as [l' [tg [E [V1 V3]]]]. rewrite E.
        eexists _, _. split; [reflexivity|]. rewrite (amem_cons_dead _ _ Lx). auto.
Qed.

Lemma aupd_local_spec t : forall vs l pos i,
  Forall canon vs -> (pos + length vs <= length (amem l))%nat ->
  exists l' targets, aupd_local l pos vs t i = Some (l', targets) /\
    amem l' = firstn pos (amem l) ++ vs ++ skipn (pos + length vs) (amem l).
Proof.
  intros vs l. revert vs. induction l as [|x l IH]; intros vs pos i Hc Hp.
  - cbn in Hp. assert (pos = 0%nat) by lia. destruct vs; [|cbn in Hp; lia]. subst. cbn. eexists _, _. repeat split.
  - destruct vs as [|v vs'].
    + cbn [aupd_local length]. eexists _, _. split; [reflexivity|]. rewrite Nat.add_0_r. cbn [app firstn]. rewrite firstn_skipn. auto.
    + inversion Hc as [|? ? Cv Cvs]; subst. cbn [aupd_local]. destruct (alive x) eqn:Lx.
      * rewrite (amem_cons_live _ _ Lx) in Hp |- *. cbn [length] in Hp. destruct pos as [|pos'].
        -- pose proof (create_view t v Cv i) as Ev. pose proof (create_not_tomb t v i) as Tv. destruct (create t v i) as [n i1]. cbn [fst] in Ev, Tv.
           destruct (IH vs' 0%nat i1 Cvs ltac:(lia)) as [l' [tg [E V1]]]. rewrite E.
           eexists _, _. split; [reflexivity|]. cbn [firstn skipn Nat.add app length] in *.
           rewrite amem_cons_live by (unfold alive; cbn [snd]; rewrite Tv; reflexivity). cbn [snd]. rewrite Ev, V1. reflexivity.
        -- destruct (IH (v :: vs') pos' i Hc ltac:(cbn [length]; lia)) as [l' [tg [E V1]]]. rewrite E.
           eexists _, _. split; [reflexivity|]. rewrite (amem_cons_live _ _ Lx), V1. cbn. auto.
      * rewrite (amem_cons_dead _ _ Lx) in Hp |- *. destruct (IH (v :: vs') pos i Hc Hp) as [l' [tg [E V1]]]. rewrite E.
        eexists _, _. split; [reflexivity|]. rewrite (amem_cons_dead _ _ Lx). auto.
Qed.

(* ---------- a container reached by a path: the update of the tree and the update of the readable value ---------- *)
From Orda.Proofs Require Import SnapshotFacts.

Fixpoint set_nth_live (l : list (ts * jt)) (n : nat) (c' : jt) : list (ts * jt) :=
  match l with
  | [] => []
  | x :: xs => if alive x then match n with O => (fst x, c') :: xs | S n' => x :: set_nth_live xs n' c' end
               else x :: set_nth_live xs n c'
  end.

(* well-formed tree: object keys are distinct, array sizes count the live elements *)
Fixpoint wft (j : jt) : Prop :=
  match j with
  | JE _ _ _ => True
  | JO _ _ m _ => NoDup (map fst m) /\ fold_right (fun kc P => match kc with (_, c) => wft c /\ P end) True m
  | JA _ _ l s => s = Z.of_nat (length (amem l)) /\ fold_right (fun oc P => match oc with (_, c) => wft c /\ P end) True l
  end.

Fixpoint vset_nth (l : list val) (n : nat) (v : val) : list val :=
  match l, n with
  | [], _ => []
  | _ :: xs, O => v :: xs
  | x :: xs, S n' => x :: vset_nth xs n' v
  end.
(* the plain JSON value with the sub-value at [path] replaced by f of it *)
Fixpoint vupd (v : val) (path : list pseg) (f : val -> val) : val :=
  match path with
  | [] => f v
  | PKey k :: rest =>
      match v with
      | VObj l => match alookup str_eqb k l with Some x => vput k (vupd x rest f) v | None => v end
      | _ => v
      end
  | PIdx i :: rest =>
      match v with
      | VArr l => match nth_error l (Z.to_nat i) with Some x => VArr (vset_nth l (Z.to_nat i) (vupd x rest f)) | None => v end
      | _ => v
      end
  end.

Lemma wft_obj_child m k ch : fold_right (fun kc P => match kc with (_, c) => wft c /\ P end) True m ->
  alookup str_eqb k m = Some ch -> wft ch.
Proof.
  induction m as [|[k0 c] m IH]; cbn; [discriminate|]. intros [H1 H2]. destruct (str_eqb k k0); [intros [= <-]; exact H1|apply IH, H2].
Qed.
Lemma wft_arr_child l n ch : fold_right (fun oc P => match oc with (_, c) => wft c /\ P end) True l ->
  nth_live l n = Some ch -> wft ch.
Proof.
  revert n. induction l as [|[o c] l IH]; intros n; cbn [nth_live fold_right]; [discriminate|]. intros [H1 H2].
  unfold alive. cbn [snd]. destruct (jtomb c); cbn [negb]; [apply IH, H2|]. destruct n as [|n]; [intros [= <-]; exact H1|apply IH, H2].
Qed.

Lemma alookup_omem m k ch : NoDup (map fst m) -> alookup str_eqb k m = Some ch -> jtomb ch = false ->
  alookup str_eqb k (omem m) = Some (jview ch).
Proof.
  induction m as [|[k0 c] m IH]; cbn [alookup map fst omem flat_map]; [discriminate|]. intros Hnd. inversion Hnd as [|? ? Hn Hd]; subst.
  destruct (str_eqb k k0) eqn:E.
  - intros [= <-] Hl. rewrite Hl. cbn. rewrite E. reflexivity.
  - intros H Hl. fold (omem m). destruct (jtomb c); cbn [app]; [apply IH; auto|]. cbn [alookup]. rewrite E. apply IH; auto.
Qed.

Lemma obj_set_view c d m s k ch' : NoDup (map fst m) -> jtomb ch' = false -> In k (map fst m) ->
  jview (JO c d (aset str_eqb k ch' m) s) = vput k (jview ch') (jview (JO c d m s)).
Proof.
  intros Hnd Hl Hin. rewrite !jview_obj. cbn [vput]. f_equal. apply sort_canonical.
  - apply omem_nodup, aset_nodup, Hnd.
  - cbn [map fst]. constructor; [intros H; apply rmkey_keys in H; tauto|apply rmkey_nodup].
    eapply Permutation_NoDup; [apply Permutation_map, sort_perm|apply omem_nodup, Hnd].
  - eapply Permutation_trans; [apply omem_aset; assumption|]. apply perm_skip, rmkey_perm, sort_perm.
Qed.

Lemma nth_live_amem l : forall n ch, nth_live l n = Some ch -> nth_error (amem l) n = Some (jview ch).
Proof.
  induction l as [|x l IH]; intros n ch; cbn [nth_live]; [discriminate|]. destruct (alive x) eqn:Lx.
  - rewrite (amem_cons_live _ _ Lx). destruct n as [|n]; [intros [= <-]; reflexivity|cbn; apply IH].
  - rewrite (amem_cons_dead _ _ Lx). apply IH.
Qed.
Lemma amem_set_nth_live l c' : jtomb c' = false -> forall n ch, nth_live l n = Some ch ->
  amem (set_nth_live l n c') = vset_nth (amem l) n (jview c').
Proof.
  intros Hl. induction l as [|x l IH]; intros n ch; cbn [nth_live set_nth_live]; [discriminate|]. destruct (alive x) eqn:Lx.
  - rewrite (amem_cons_live _ _ Lx). destruct n as [|n].
    + intros _. rewrite amem_cons_live by (unfold alive; cbn [snd]; rewrite Hl; reflexivity). reflexivity.
    + intros H. rewrite (amem_cons_live _ _ Lx). cbn [vset_nth]. f_equal. eapply IH; eauto.
  - rewrite (amem_cons_dead _ _ Lx). intros H. rewrite (amem_cons_dead _ _ Lx). eapply IH; eauto.
Qed.

Fixpoint upd_path (j : jt) (path : list pseg) (f : jt -> option jt) : option jt :=
  match path with
  | [] => f j
  | PKey k :: rest =>
      match j with
      | JO c d m s =>
          match alookup str_eqb k m with
          | Some ch => if jtomb ch then None
                       else match upd_path ch rest f with Some ch' => Some (JO c d (aset str_eqb k ch' m) s) | None => None end
          | None => None
          end
      | _ => None
      end
  | PIdx i :: rest =>
      match j with
      | JA c d l s =>
          if (0 <=? i)%Z && (i <? s)%Z
          then match nth_live l (Z.to_nat i) with
               | Some ch => match upd_path ch rest f with Some ch' => Some (JA c d (set_nth_live l (Z.to_nat i) ch') s) | None => None end
               | None => None
               end
          else None
      | _ => None
      end
  end.

(* updating the container at [path] by f changes the readable value exactly at [path], by the plain counterpart of f *)
Theorem upd_path_view (f : jt -> option jt) (fv : val -> val) :
  (forall x x', wft x -> jtomb x = false -> f x = Some x' -> jview x' = fv (jview x) /\ jtomb x' = false) ->
  forall path j j', wft j -> jtomb j = false -> upd_path j path f = Some j' ->
    jview j' = vupd (jview j) path fv /\ jtomb j' = false.
Proof.
  intros Hf. induction path as [|seg rest IH]; intros j j' Hw Hl; cbn [upd_path vupd]; [apply Hf; assumption|].
  destruct seg as [k|i].
  - destruct j as [| c d m s |]; try discriminate. destruct Hw as [Hnd Hch].
    destruct (alookup str_eqb k m) as [ch|] eqn:E; [|discriminate]. destruct (jtomb ch) eqn:Tch; [discriminate|].
    destruct (upd_path ch rest f) as [ch'|] eqn:Eu; [|discriminate]. intros [= <-].
    destruct (IH ch ch' (wft_obj_child _ _ _ Hch E) Tch Eu) as [V T]. split; [|exact Hl].
    rewrite (obj_set_view c d m s k ch' Hnd T (alookup_some_in _ _ _ E)). rewrite jview_obj.
    assert (L : alookup str_eqb k (sort_by_key (omem m)) = Some (jview ch)).
    { rewrite <- (alookup_perm (omem m) (sort_by_key (omem m)) k (omem_nodup _ Hnd) (sort_perm _)). apply alookup_omem; assumption. }
    cbn [vupd]. rewrite L, V. reflexivity.
  - destruct j as [| | c d l s]; try discriminate. destruct Hw as [Hs Hch].
    destruct ((0 <=? i)%Z && (i <? s)%Z); [|discriminate]. destruct (nth_live l (Z.to_nat i)) as [ch|] eqn:E; [|discriminate].
    destruct (upd_path ch rest f) as [ch'|] eqn:Eu; [|discriminate]. intros [= <-].
    assert (Tch : jtomb ch = false).
    { clear -E. revert E. generalize (Z.to_nat i). induction l as [|[o c0] l IHl]; intros n; cbn [nth_live]; [discriminate|].
      unfold alive. cbn [snd]. destruct (jtomb c0) eqn:T0; cbn [negb]; [apply IHl|]. destruct n; [intros [= <-]; exact T0|apply IHl]. }
    destruct (IH ch ch' (wft_arr_child _ _ _ Hch E) Tch Eu) as [V T]. split; [|exact Hl].
    rewrite !jview_arr. rewrite (nth_live_amem _ _ _ E). rewrite (amem_set_nth_live l ch' T _ _ E), V. reflexivity.
Qed.
