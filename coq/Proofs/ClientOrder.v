(* C06, the per-client clause: the operations of one client are stored exactly once each and in the order the client
   issued them — for every sequence of requests in which clients push operations they authored (what real clients do;
   the other clauses of C06 hold for arbitrary requests, ServerFacts.v). *)
From Coq Require Import List NArith Bool Lia.
From Orda.Model Require Import Base Time Ops Server.
From Orda.Proofs Require Import TimeFacts MapFacts ServerFacts.
Import ListNotations.
Open Scope N_scope.

Definition authored (u : str) (o : odoc) : bool := str_eqb (o_cuid (op_id (od_op o))) u.
Definition oseq (o : odoc) : N := o_seq (op_id (od_op o)).
(* the sequence numbers of the operations authored by u in the stored log of datatype D, in log order *)
Definition seqs_of (ops : list odoc) (D u : str) : list N := map oseq (filter (authored u) (ops_of ops D)).
(* the client sequence number the server has acknowledged to u for datatype d *)
Definition ack (d : ddoc) (u : str) : N := match alookup str_eqb u (dd_rw d) with Some c => cseq c | None => 0 end.

Definition ClientInv (db : sdb) : Prop :=
  forall d, In d (s_dts db) -> forall u, seqs_of (s_ops db) (dd_duid d) u = nseq 1 (N.to_nat (ack d u)).

Definition honest_pack (cuid : str) (req : ppp) : Prop := Forall (fun o => o_cuid (op_id o) = cuid) (p_ops req).
Definition honest (r : request) : Prop :=
  match r with RPushPull _ cuid packs => Forall (honest_pack cuid) packs | _ => True end.

(* pushOperations on operations authored by the pusher: the accepted ones carry exactly the next sequence numbers *)
Lemma push_authored D col u ops : forall c acc c' out,
  push_ops D col c ops acc = Some (c', out) ->
  Forall (fun o => o_cuid (op_id o) = u) ops ->
  exists new, out = acc ++ new /\ map oseq new = nseq (cseq c + 1) (length new) /\
              cseq c' = cseq c + N.of_nat (length new) /\ Forall (fun o => authored u o = true) new.
Proof.
  induction ops as [|o ops IH]; intros c acc c' out; cbn [push_ops].
  - intros [= <- <-] _. exists []. rewrite app_nil_r. cbn. repeat split; [lia|constructor].
  - intros H Hf. pose proof (Forall_inv Hf) as Ho. pose proof (Forall_inv_tail Hf) as Hf'. cbv beta in Ho.
    destruct (N.eqb_spec (cseq c + 1) (o_seq (op_id o))) as [E|E].
    + apply IH in H; [|exact Hf']. destruct H as [new [H1 [H2 [H3 H4]]]]. cbn [sseq cseq] in *.
      exists (mkOdoc D col (sseq c + 1) o :: new). rewrite <- app_assoc in H1. cbn [app] in H1. split; [exact H1|].
      assert (Em : N.max (cseq c) (o_seq (op_id o)) = cseq c + 1) by lia. rewrite Em in H2, H3.
      cbn [map length nseq]. split; [unfold oseq at 1; cbn [od_op]; rewrite <- E; f_equal; exact H2|].
      split; [lia|]. constructor; [unfold authored; cbn [od_op]; rewrite Ho; apply str_eqb_refl|exact H4].
    + destruct (o_seq (op_id o) <=? cseq c); [|discriminate]. apply IH in H; [|exact Hf']. exact H.
Qed.

Lemma seqs_of_app ops new D u : seqs_of (ops ++ new) D u = seqs_of ops D u ++ seqs_of new D u.
Proof. unfold seqs_of. rewrite ops_of_app, filter_app, map_app. reflexivity. Qed.

(* what a handled pack leaves: refused and unchanged, or the accepted documents appended and the pusher's entry updated *)
Lemma finish_shape db colname col cuid req ro d0 duid ops opt eduid :
  LogInv db -> duid = dd_duid d0 -> dd_col d0 = col ->
  (In d0 (s_dts db) \/
   (find_dt db (dd_duid d0) = None /\ find_dt_by_key db col (dd_key d0) = None /\
    dd_end d0 = 0 /\ dd_rw d0 = [] /\ dd_ro d0 = [])) ->
  let out := finish_pack db colname col cuid req ro d0 duid ops opt eduid in
  fst (fst out) = db \/
  exists cp1 newdocs cp2,
    (if ro then Some (mkCp (dd_end d0) (cseq (match alookup str_eqb cuid (clients_of d0 ro) with Some c => c | None => mkCp 0 0 end)), [])
     else push_ops duid col (mkCp (dd_end d0) (cseq (match alookup str_eqb cuid (clients_of d0 ro) with Some c => c | None => mkCp 0 0 end))) ops [])
    = Some (cp1, newdocs) /\ cseq cp2 = cseq cp1 /\
    fst (fst out) = mkSdb (s_cols db) (s_colctr db) (s_clients db)
                          (upsert_dt (s_dts db) (set_end (set_client d0 ro cuid cp2) (sseq cp2))) (s_ops db ++ newdocs).
Proof.
  intros Hinv -> Hcol Hd0 out. subst out. destruct Hinv as [Hnd Hdt Horph Hkey].
  set (D := dd_duid d0). set (e := dd_end d0).
  assert (Hs : map od_sseq (ops_of (s_ops db) D) = nseq 1 (N.to_nat e)).
  { destruct Hd0 as [Hin|[Hf [_ [He _]]]].
    - apply (di_sseq _ _ (Hdt d0 Hin)).
    - unfold e. rewrite He. cbn. replace (ops_of (s_ops db) D) with (@nil odoc); [reflexivity|].
      symmetry. unfold ops_of. destruct (filter _ (s_ops db)) as [|o l] eqn:Ef; [reflexivity|]. exfalso.
      assert (Ho : In o (filter (fun o => str_eqb (od_duid o) D) (s_ops db))) by (rewrite Ef; left; reflexivity).
      apply filter_In in Ho. destruct Ho as [Ho1 Ho2]. apply str_eqb_eq in Ho2.
      destruct (Horph o Ho1) as [d [Hd1 Hd2]]. apply (find_dt_none _ _ Hf d Hd1). rewrite Hd2, Ho2. reflexivity. }
  rewrite finish_pack_plain. unfold finish_plain.
  set (cp0 := match alookup str_eqb cuid (clients_of d0 ro) with Some c => c | None => mkCp 0 0 end).
  fold e. fold D.
  destruct (if ro then Some (mkCp e (cseq cp0), []) else push_ops D col (mkCp e (cseq cp0)) ops []) as [[cp1 newdocs]|] eqn:Ep;
    [|left; reflexivity].
  assert (Hn : map od_sseq newdocs = nseq (e + 1) (length newdocs) /\ Forall (fun o => od_duid o = D) newdocs).
  { destruct ro.
    - injection Ep as <- <-. split; [reflexivity|constructor].
    - apply push_ops_spec in Ep. destruct Ep as [new [H1 [H2 [_ [_ [H5 _]]]]]]. cbn [app sseq] in *. subst newdocs.
      split; [exact H2|]. eapply Forall_impl; [|exact H5]. intros o [H _]. exact H. }
  destruct Hn as [Hn1 Hdup].
  rewrite (pulled_within db D e (sseq (p_cp req) + 1) Hs), (purge_noop (s_ops db) D e Hs).
  replace (match newdocs with [] => s_ops db | _ :: _ => s_ops db end) with (s_ops db) by (destruct newdocs; reflexivity).
  rewrite (insert_ops_fresh D newdocs (s_ops db) e Hs Hdup Hn1).
  right. eexists cp1, newdocs, _. split; [reflexivity|]. split; [|cbn [fst]; reflexivity].
  destruct (rev (if has (p_opt req) bit_snapshot then [] else get_ops db D (sseq (p_cp req) + 1))); reflexivity.
Qed.

Lemma seqs_of_other new D D' u : D <> D' -> Forall (fun o => od_duid o = D) new -> seqs_of new D' u = [].
Proof. intros Hne Hf. unfold seqs_of. rewrite (ops_of_none new D D' Hne Hf). reflexivity. Qed.

Lemma ack_set_end d e u : ack (set_end d e) u = ack d u.
Proof. reflexivity. Qed.
Lemma ack_set_client d ro c x u :
  ack (set_client d ro c x) u = if negb ro && str_eqb u c then cseq x else ack d u.
Proof.
  unfold ack. change (dd_rw (set_client d ro c x)) with (clients_of (set_client d ro c x) false).
  rewrite set_client_lookup. destruct ro; cbn [Bool.eqb negb andb]; [reflexivity|]. destruct (str_eqb u c); reflexivity.
Qed.

Lemma finish_client db colname col cuid req ro d0 duid ops opt eduid :
  LogInv db -> ClientInv db -> duid = dd_duid d0 -> dd_col d0 = col ->
  (In d0 (s_dts db) \/
   (find_dt db (dd_duid d0) = None /\ find_dt_by_key db col (dd_key d0) = None /\
    dd_end d0 = 0 /\ dd_rw d0 = [] /\ dd_ro d0 = [])) ->
  Forall (fun o => o_cuid (op_id o) = cuid) ops ->
  ClientInv (fst (fst (finish_pack db colname col cuid req ro d0 duid ops opt eduid))).
Proof.
  intros Hinv Hc Hduid Hcol Hd0 Hhon.
  destruct (finish_shape db colname col cuid req ro d0 duid ops opt eduid Hinv Hduid Hcol Hd0) as [E|[cp1 [newdocs [cp2 [Ep [Ecs E]]]]]];
    rewrite E; [exact Hc|]. clear E. subst duid. destruct Hinv as [Hnd Hdt Horph Hkey].
  set (D := dd_duid d0) in *.
  set (cp0 := match alookup str_eqb cuid (clients_of d0 ro) with Some c => c | None => mkCp 0 0 end) in *.
  set (d1 := set_end (set_client d0 ro cuid cp2) (sseq cp2)).
  assert (G1 : dd_duid d1 = D) by (unfold d1, set_end; cbn; apply set_client_fields).
  (* the accepted documents *)
  assert (Hnew : Forall (fun o => od_duid o = D) newdocs /\
                 (ro = true -> newdocs = [] /\ cseq cp1 = cseq cp0) /\
                 (ro = false -> map oseq newdocs = nseq (cseq cp0 + 1) (length newdocs) /\
                                cseq cp1 = cseq cp0 + N.of_nat (length newdocs) /\ Forall (fun o => authored cuid o = true) newdocs)).
  { destruct ro.
    - injection Ep as <- <-. split; [constructor|]. split; [auto|discriminate].
    - pose proof (push_ops_spec _ _ _ _ _ _ _ Ep) as [new0 [H1 [_ [_ [_ [H5 _]]]]]]. cbn [app] in H1. subst new0.
      destruct (push_authored D col cuid ops _ _ _ _ Ep Hhon) as [new [K1 [K2 [K3 K4]]]]. cbn [app cseq] in *. subst new.
      split; [eapply Forall_impl; [|exact H5]; intros o [H _]; exact H|]. split; [discriminate|]. intros _. auto. }
  destruct Hnew as [Hdup [Hro Hrw]].
  (* the stored log of d0 authored by u, before *)
  assert (Hold : forall u, seqs_of (s_ops db) D u = nseq 1 (N.to_nat (ack d0 u))).
  { intros u. destruct Hd0 as [Hin|[Hf [_ [_ [Hrw0 _]]]]]; [exact (Hc d0 Hin u)|].
    unfold ack. rewrite Hrw0. cbn. unfold seqs_of. replace (ops_of (s_ops db) D) with (@nil odoc); [reflexivity|].
    symmetry. unfold ops_of. destruct (filter _ (s_ops db)) as [|o l] eqn:Ef; [reflexivity|]. exfalso.
    assert (Ho : In o (filter (fun o => str_eqb (od_duid o) D) (s_ops db))) by (rewrite Ef; left; reflexivity).
    apply filter_In in Ho. destruct Ho as [Ho1 Ho2]. apply str_eqb_eq in Ho2.
    destruct (Horph o Ho1) as [d [Hd1 Hd2]]. apply (find_dt_none _ _ Hf d Hd1). rewrite Hd2, Ho2. reflexivity. }
  intros x Hx u. cbn [s_dts s_ops] in *. apply (upsert_in _ _ _ Hnd) in Hx. destruct Hx as [->|[Hx Hne]].
  - rewrite G1, seqs_of_app, Hold. unfold d1. rewrite ack_set_end, ack_set_client.
    destruct ro; cbn [negb andb].
    + destruct (Hro eq_refl) as [-> _]. unfold seqs_of at 1. cbn. rewrite app_nil_r. reflexivity.
    + destruct (Hrw eq_refl) as [K2 [K3 K4]]. destruct (str_eqb u cuid) eqn:Eu.
      * apply str_eqb_eq in Eu. subst u.
        assert (Ea : ack d0 cuid = cseq cp0) by (unfold ack, cp0; cbn [clients_of]; destruct (alookup str_eqb cuid (dd_rw d0)); reflexivity).
        rewrite Ea. unfold seqs_of at 1. rewrite (ops_of_all newdocs D Hdup).
        assert (Ef : filter (authored cuid) newdocs = newdocs).
        { clear -K4. induction K4 as [|o l Ho _ IH]; cbn; [reflexivity|]. rewrite Ho, IH. reflexivity. }
        rewrite Ef, K2, Ecs, K3.
        replace (N.to_nat (cseq cp0 + N.of_nat (length newdocs))) with (N.to_nat (cseq cp0) + length newdocs)%nat by lia.
        rewrite nseq_app. do 2 f_equal. lia.
      * unfold seqs_of at 1. rewrite (ops_of_all newdocs D Hdup).
        assert (Ef : filter (authored u) newdocs = []).
        { clear -K4 Eu. induction K4 as [|o l Ho _ IH]; cbn; [reflexivity|]. unfold authored in *. apply str_eqb_eq in Ho. rewrite Ho.
          assert (E : str_eqb cuid u = false) by (rewrite str_eqb_sym; exact Eu). rewrite E. exact IH. }
        rewrite Ef. cbn. rewrite app_nil_r. reflexivity.
  - rewrite G1 in Hne. rewrite seqs_of_app, (seqs_of_other newdocs D (dd_duid x) u); [rewrite app_nil_r; exact (Hc x Hx u)| |exact Hdup].
    intros E. apply Hne. symmetry. exact E.
Qed.

Lemma handle_pack_client db colname col cuid req :
  LogInv db -> ClientInv db -> honest_pack cuid req -> ClientInv (fst (fst (handle_pack db colname col cuid req))).
Proof.
  intros Hinv Hc Hh. unfold handle_pack, handle_pack_f; fold finish_pack.
  destruct (has (p_opt req) bit_readonly && _) eqn:Ev; [exact Hc|].
  destruct (evaluate db col cuid (has (p_opt req) bit_readonly) req) as [c d] eqn:He.
  pose proof (decide_spec _ _ _ _ _ _ _ He) as S.
  destruct (decide col req c d) as [| | |code].
  - destruct S as [_ [S2 S3]]. apply finish_client; auto. right. cbn. auto.
  - destruct S as [d0 [-> [S1 [S2 S3]]]]. apply finish_client; auto.
  - destruct S as [d0 [-> [S1 [S2 S3]]]]. apply finish_client; auto.
  - destruct d; exact Hc.
Qed.

Lemma fold_packs_client colname col cuid packs : forall db acc,
  LogInv db -> ClientInv db -> Forall (honest_pack cuid) packs ->
  ClientInv (fst (fold_left (fun '(db, acc) req =>
                 let '(db', resp, pubs) := handle_pack db colname col cuid req in
                 (db', acc ++ [(resp, pubs)])) packs (db, acc))).
Proof.
  induction packs as [|p packs IH]; intros db acc H Hc Hh; cbn [fold_left]; [exact Hc|].
  pose proof (handle_pack_spec db colname col cuid p H) as S.
  pose proof (handle_pack_client db colname col cuid p H Hc (Forall_inv Hh)) as C.
  destruct (handle_pack db colname col cuid p) as [[db' resp] pubs]. apply IH; [apply S|exact C|exact (Forall_inv_tail Hh)].
Qed.

Lemma clientinv_tables db db' : s_dts db' = s_dts db -> s_ops db' = s_ops db -> ClientInv db -> ClientInv db'.
Proof. intros E1 E2 H. unfold ClientInv. rewrite E1, E2. exact H. Qed.

Theorem serve_client db r : LogInv db -> ClientInv db -> honest r -> ClientInv (serve db r).
Proof.
  intros H Hc Hh. destruct r as [name|col cuid|col cuid packs]; cbn [serve].
  - unfold create_collection. destruct (alookup str_eqb name (s_cols db)); [exact Hc|].
    eapply clientinv_tables; [| |exact Hc]; reflexivity.
  - unfold process_client. destruct (alookup str_eqb col (s_cols db)); [|exact Hc].
    destruct (alookup str_eqb cuid (s_clients db)) as [ccol|]; [destruct (N.eqb ccol n); exact Hc|].
    eapply clientinv_tables; [| |exact Hc]; reflexivity.
  - unfold process_pushpull, process_pushpull_f; fold handle_pack. destruct (alookup str_eqb col (s_cols db)) as [n|]; [|exact Hc].
    destruct (alookup str_eqb cuid (s_clients db)) as [ccol|]; [|exact Hc].
    destruct (N.eqb ccol n); [|exact Hc].
    pose proof (fold_packs_client col n cuid packs db [] H Hc Hh) as F.
    destruct (fold_left _ packs (db, [])) as [db' out]. exact F.
Qed.

(* C06, per-client clause: after ANY sequence of requests in which every pushed operation carries its pusher's
   identifier — arbitrary batches, re-pushes of acknowledged operations, gaps (refused), any option bits and
   checkpoints — for every datatype and every client u, the operations authored by u in the stored log carry the client
   sequence numbers 1, 2, ..., k in log order, each exactly once, where k is the sequence number the server has
   acknowledged to u (0 when u never pushed) *)
Theorem client_order rs : Forall honest rs -> ClientInv (fold_left serve rs sdb_init).
Proof.
  assert (G : forall rs db, LogInv db -> ClientInv db -> Forall honest rs -> ClientInv (fold_left serve rs db)).
  { clear rs. induction rs as [|r rs IH]; intros db H Hc Hh; cbn; [exact Hc|].
    apply IH; [apply serve_inv, H|apply serve_client; [exact H|exact Hc|exact (Forall_inv Hh)]|exact (Forall_inv_tail Hh)]. }
  intros Hh. apply G; [apply loginv_init| |exact Hh]. intros d [].
Qed.
