(* C17: ResetCollection (Model/Server.v reset_collection) removes exactly one collection's data and keeps the store well-formed. *)
From Coq Require Import List NArith ZArith Bool Lia.
From Orda.Model Require Import Base Time Ops Server.
From Orda.Proofs Require Import TimeFacts MapFacts ServerFacts.
Import ListNotations.
Open Scope N_scope.

(* every stored operation carries the collection number of its datatype *)
Definition ColOfOps (db : sdb) : Prop :=
  forall o, In o (s_ops db) -> exists d, In d (s_dts db) /\ dd_duid d = od_duid o /\ dd_col d = od_col o.

Lemma colofops_init : ColOfOps sdb_init.
Proof. intros o []. Qed.

Lemma colofops_pack db colname col cuid req :
  LogInv db -> ColOfOps db -> ColOfOps (fst (fst (handle_pack db colname col cuid req))).
Proof.
  intros HL HC. pose proof (handle_pack_spec db colname col cuid req HL) as S.
  destruct (handle_pack db colname col cuid req) as [[db' resp] pubs]. cbn [fst]. destruct S as [_ [_ S]].
  destruct (p_err resp); [destruct S as [-> _]; exact HC|].
  destruct S as [d1 [new [E1 [E2 [F [Hc [_ Hsame]]]]]]]. intros o Ho. rewrite E1 in Ho. rewrite E2.
  apply in_app_or in Ho. destruct Ho as [Ho|Ho].
  - destruct (HC o Ho) as [d [D1 [D2 D3]]].
    destruct (str_eqb (dd_duid d) (dd_duid d1)) eqn:E.
    + apply str_eqb_eq in E. exists d1. split; [apply (upsert_in _ _ _ (li_nodup _ HL)); left; reflexivity|].
      destruct (Hsame d D1 E) as [S1 _]. split; congruence.
    + apply str_eqb_neq in E. exists d. split; [apply (upsert_in _ _ _ (li_nodup _ HL)); right; auto|auto].
  - rewrite Forall_forall in F. destruct (F o Ho) as [F1 F2]. exists d1.
    split; [apply (upsert_in _ _ _ (li_nodup _ HL)); left; reflexivity|]. split; congruence.
Qed.

Lemma colofops_packs colname col cuid packs : forall db acc,
  LogInv db -> ColOfOps db ->
  ColOfOps (fst (fold_left (fun '(db, acc) req =>
                 let '(db', resp, pubs) := handle_pack db colname col cuid req in
                 (db', acc ++ [(resp, pubs)])) packs (db, acc))).
Proof.
  induction packs as [|p packs IH]; intros db acc HL HC; cbn [fold_left]; [exact HC|].
  pose proof (handle_pack_spec db colname col cuid p HL) as S. pose proof (colofops_pack db colname col cuid p HL HC) as C.
  destruct (handle_pack db colname col cuid p) as [[db' resp] pubs]. apply IH; [apply S|exact C].
Qed.

Lemma colofops_serve db r : LogInv db -> ColOfOps db -> ColOfOps (serve db r).
Proof.
  intros HL HC. destruct r as [name|col cuid|col cuid packs]; cbn [serve].
  - unfold create_collection. destruct (alookup str_eqb name (s_cols db)); exact HC.
  - unfold process_client. destruct (alookup str_eqb col (s_cols db)); [|exact HC].
    destruct (alookup str_eqb cuid (s_clients db)) as [ccol|]; [destruct (N.eqb ccol n); exact HC|exact HC].
  - unfold process_pushpull, process_pushpull_f; fold handle_pack. destruct (alookup str_eqb col (s_cols db)) as [n|]; [|exact HC].
    destruct (alookup str_eqb cuid (s_clients db)) as [ccol|]; [|exact HC]. destruct (N.eqb ccol n); [|exact HC].
    pose proof (colofops_packs col n cuid packs db [] HL HC) as F. destruct (fold_left _ packs (db, [])) as [db' out]. exact F.
Qed.

(* ---------- what a reset removes and what it keeps ---------- *)
Theorem reset_exact db name n : alookup str_eqb name (s_cols db) = Some n ->
  let db' := reset_collection db name in
  s_cols db' = s_cols db /\
  (forall d, In d (s_dts db') <-> In d (s_dts db) /\ dd_col d <> n) /\
  (forall o, In o (s_ops db') <-> In o (s_ops db) /\ od_col o <> n) /\
  (forall c, In c (s_clients db') <-> In c (s_clients db) /\ snd c <> n).
Proof.
  intros H. unfold reset_collection. rewrite H. cbn. split; [reflexivity|].
  assert (G : forall {A} (f : A -> N) (l : list A) x,
            In x (filter (fun y => negb (N.eqb (f y) n)) l) <-> In x l /\ f x <> n).
  { intros A f l x. rewrite filter_In, negb_true_iff, N.eqb_neq. reflexivity. }
  split; [intros d; apply (G _ dd_col)|]. split; [intros o; apply (G _ od_col)|]. intros c. apply (G _ snd).
Qed.

Lemma nodup_map_filter {A B} (f : A -> B) (p : A -> bool) l : NoDup (map f l) -> NoDup (map f (filter p l)).
Proof.
  induction l as [|x l IH]; cbn; intros H; [constructor|]. inversion H as [|? ? Hn Hd]; subst.
  destruct (p x); cbn; [constructor; [|apply IH, Hd]|apply IH, Hd].
  intros Hin. apply Hn. apply in_map_iff in Hin. destruct Hin as [y [E Hy]]. apply filter_In in Hy. rewrite <- E. apply in_map, Hy.
Qed.
Lemma filter_all {A} (p : A -> bool) l : (forall x, In x l -> p x = true) -> filter p l = l.
Proof.
  induction l as [|x l IH]; cbn; intros H; [reflexivity|]. rewrite (H x (or_introl eq_refl)). f_equal. apply IH. intros y Hy. apply H. right. exact Hy.
Qed.
Lemma ops_of_filter q l D : ops_of (filter q l) D = filter q (ops_of l D).
Proof. unfold ops_of. rewrite !filter_filter. apply filter_ext. intros o. apply andb_comm. Qed.

Theorem reset_inv db name : LogInv db -> ColOfOps db -> LogInv (reset_collection db name) /\ ColOfOps (reset_collection db name).
Proof.
  intros HL HC. unfold reset_collection. destruct (alookup str_eqb name (s_cols db)) as [n|] eqn:E.
  2:{ unfold create_collection. rewrite E. split; [eapply loginv_tables; [| |exact HL]; reflexivity|exact HC]. }
  set (keepd := fun d => negb (N.eqb (dd_col d) n)). set (keepo := fun o => negb (N.eqb (od_col o) n)).
  assert (Hops : forall d, In d (s_dts db) -> dd_col d <> n -> forall o, In o (s_ops db) -> od_duid o = dd_duid d -> keepo o = true).
  { intros d Hd Hn o Ho Eo. destruct (HC o Ho) as [d' [D1 [D2 D3]]].
    assert (d' = d) by (eapply (nodup_map_in_inj dd_duid); [apply (li_nodup _ HL)|exact D1|exact Hd|congruence]).
    subst d'. unfold keepo. apply negb_true_iff, N.eqb_neq. congruence. }
  split.
  - constructor; cbn [s_dts s_ops].
    + apply nodup_map_filter, (li_nodup _ HL).
    + intros d Hd. apply filter_In in Hd. destruct Hd as [Hd Hk]. unfold keepd in Hk. apply negb_true_iff, N.eqb_neq in Hk.
      destruct (li_dt _ HL d Hd) as [A B C]. constructor; [|exact B|exact C].
      rewrite ops_of_filter, filter_all; [exact A|]. intros o Ho. unfold ops_of in Ho. apply filter_In in Ho. destruct Ho as [Ho Eo].
      apply str_eqb_eq in Eo. eapply Hops; eauto.
    + intros o Ho. apply filter_In in Ho. destruct Ho as [Ho Hk]. destruct (HC o Ho) as [d [D1 [D2 D3]]]. exists d.
      split; [|exact D2]. apply filter_In. split; [exact D1|]. unfold keepd, keepo in *. congruence.
    + intros d1 d2 H1 H2. apply filter_In in H1, H2. apply (li_key _ HL); tauto.
  - intros o Ho. cbn [s_ops s_dts] in *. apply filter_In in Ho. destruct Ho as [Ho Hk]. destruct (HC o Ho) as [d [D1 [D2 D3]]].
    exists d. split; [|auto]. apply filter_In. split; [exact D1|]. unfold keepd, keepo in *. congruence.
Qed.

(* ---------- requests and resets in any order ---------- *)
Inductive request2 := Req (r : request) | Reset (name : str).
Definition serve2 (db : sdb) (r : request2) : sdb :=
  match r with Req r => serve db r | Reset name => reset_collection db name end.

Theorem log_invariant_with_resets rs : LogInv (fold_left serve2 rs sdb_init).
Proof.
  assert (G : forall rs db, LogInv db /\ ColOfOps db -> LogInv (fold_left serve2 rs db) /\ ColOfOps (fold_left serve2 rs db)).
  { clear rs. induction rs as [|r rs IH]; intros db [HL HC]; cbn [fold_left]; [auto|]. apply IH. destruct r as [r|name]; cbn [serve2].
    - split; [apply serve_inv, HL|apply colofops_serve; assumption].
    - apply reset_inv; assumption. }
  apply (G rs sdb_init). split; [apply loginv_init|apply colofops_init].
Qed.
