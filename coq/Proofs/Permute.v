From Coq Require Import List Permutation Lia.
Import ListNotations.

Section Permute.
  Variables St Op Id : Type.
  Variable oid : Op -> Id.
  Variable apply : St -> Op -> St.
  Variable ready : St -> Op -> Prop.
  (* a state invariant (e.g. "all clocks below the wrap") under which the kernel lemmas hold *)
  Variable good : St -> Prop.
  Hypothesis good_step : forall s a, good s -> ready s a -> good (apply s a).
  Hypothesis ready_mono : forall s a b, good s -> oid a <> oid b -> ready s a -> ready s b -> ready (apply s a) b.
  Hypothesis comm : forall s a b, good s -> oid a <> oid b -> ready s a -> ready s b ->
      apply (apply s a) b = apply (apply s b) a.

  Fixpoint exec_ok (s : St) (l : list Op) : Prop :=
    match l with
    | [] => True
    | a :: l' => ready s a /\ exec_ok (apply s a) l'
    end.

  Lemma bubble b q : forall p s, good s ->
      ready s b -> ~ In (oid b) (map oid p) -> exec_ok s (p ++ b :: q) ->
      exec_ok s (b :: p ++ q) /\
      fold_left apply (p ++ b :: q) s = fold_left apply (b :: p ++ q) s.
  Proof.
    induction p as [|a p IH]; intros s Hg Hb Hnin Hex.
    - cbn in *. split; [exact Hex|reflexivity].
    - cbn [app exec_ok fold_left] in *. destruct Hex as [Ha Hex].
      assert (Hab : oid a <> oid b) by (intro E; apply Hnin; left; exact E).
      assert (Hnin' : ~ In (oid b) (map oid p)) by (intro E; apply Hnin; right; exact E).
      assert (Hb' : ready (apply s a) b) by (apply ready_mono; assumption).
      assert (Hg' : good (apply s a)) by (apply good_step; assumption).
      destruct (IH (apply s a) Hg' Hb' Hnin' Hex) as [Hex' Hfold].
      cbn [exec_ok fold_left] in Hex', Hfold. destruct Hex' as [_ Hex'].
      rewrite (comm s a b Hg Hab Ha Hb) in Hex', Hfold.
      split.
      + split; [exact Hb|]. split; [apply ready_mono; auto|exact Hex'].
      + exact Hfold.
  Qed.

  Theorem executable_permutations_agree : forall l2 l1 s, good s ->
      NoDup (map oid l1) -> Permutation l1 l2 -> exec_ok s l1 -> exec_ok s l2 ->
      fold_left apply l1 s = fold_left apply l2 s.
  Proof.
    induction l2 as [|b l2 IH]; intros l1 s Hg Hnd Hp H1 H2.
    - apply Permutation_sym, Permutation_nil in Hp. subst. reflexivity.
    - assert (Hin : In b l1) by (eapply Permutation_in; [apply Permutation_sym; exact Hp|left; reflexivity]).
      apply in_split in Hin. destruct Hin as [p [q ->]].
      cbn [exec_ok] in H2. destruct H2 as [Hb H2].
      assert (Hnin : ~ In (oid b) (map oid p)).
      { rewrite map_app in Hnd. cbn in Hnd. apply NoDup_remove_2 in Hnd. intro E. apply Hnd. apply in_or_app. left; exact E. }
      destruct (bubble b q p s Hg Hb Hnin H1) as [Hex Hfold].
      rewrite Hfold. cbn [fold_left exec_ok] in *. destruct Hex as [_ Hex].
      apply IH.
      + apply good_step; assumption.
      + rewrite map_app in *. cbn in Hnd. apply NoDup_remove_1 in Hnd. exact Hnd.
      + apply Permutation_sym. apply Permutation_cons_app_inv with (a := b).
        apply Permutation_sym. exact Hp.
      + exact Hex.
      + exact H2.
  Qed.
End Permute.
Print Assumptions executable_permutations_agree.
