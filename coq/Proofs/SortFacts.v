(* sort_by_key is canonical: association lists with duplicate-free keys that are permutations of each
   other sort to the same list — so equal lookups give equal JSON views and equal marshalled snapshots *)
From Coq Require Import List NArith Bool Lia Permutation.
From Orda.Model Require Import Base.
From Orda.Proofs Require Import TimeFacts MapFacts.
Import ListNotations.

Section Sort.
  Context {V : Type}.
  Notation kv := (str * V)%type.

  Definition klt' (a b : str) : Prop := str_cmp a b = Lt.
  Fixpoint ksorted (l : list kv) : Prop :=
    match l with
    | [] => True
    | x :: l' => Forall (fun y => klt' (fst x) (fst y)) l' /\ ksorted l'
    end.

  Lemma klt_trans' a b c : klt' a b -> klt' b c -> klt' a c.
  Proof. apply str_cmp_lt_trans. Qed.
  Lemma klt_irrefl' a : ~ klt' a a.
  Proof. unfold klt'. intros H. assert (E : str_cmp a a = Eq) by (apply str_cmp_eq; reflexivity). congruence. Qed.
  Lemma cmp_gt_lt a b : str_cmp a b = Gt -> klt' b a.
  Proof. unfold klt'. intros H. rewrite (str_cmp_antisym a b), H. reflexivity. Qed.

  Lemma ins_sorted_perm k v (l : list kv) : Permutation ((k, v) :: l) (ins_sorted k v l).
  Proof.
    induction l as [|[k' v'] l IH]; cbn; [apply Permutation_refl|].
    destruct (str_cmp k k'); try apply Permutation_refl.
    eapply Permutation_trans; [apply perm_swap|]. apply perm_skip. exact IH.
  Qed.
  Lemma sort_perm (l : list kv) : Permutation l (sort_by_key l).
  Proof.
    induction l as [|[k v] l IH]; cbn; [constructor|].
    eapply Permutation_trans; [apply perm_skip; exact IH|]. apply ins_sorted_perm.
  Qed.

  Lemma ins_sorted_sorted k v (l : list kv) :
    ksorted l -> ~ In k (map fst l) -> ksorted (ins_sorted k v l).
  Proof.
    induction l as [|[k' v'] l IH]; cbn; intros Hs Hn; [split; [constructor|exact I]|].
    destruct Hs as [H1 H2]. destruct (str_cmp k k') eqn:E.
    - apply str_cmp_eq in E. exfalso. apply Hn. left. symmetry. exact E.
    - split; [|split; assumption]. constructor; [exact E|].
      eapply Forall_impl; [|exact H1]. intros y Hy. eapply klt_trans'; [exact E|exact Hy].
    - split.
      + assert (P : Permutation ((k, v) :: l) (ins_sorted k v l)) by apply ins_sorted_perm.
        apply Forall_forall. intros y Hy. eapply Permutation_in in Hy; [|apply Permutation_sym; exact P].
        destruct Hy as [<-|Hy]; [apply cmp_gt_lt; exact E|]. rewrite Forall_forall in H1. apply H1. exact Hy.
      + apply IH; [exact H2|]. intros Hin. apply Hn. right. exact Hin.
  Qed.

  Lemma sort_sorted' (l : list kv) : NoDup (map fst l) -> ksorted (sort_by_key l).
  Proof.
    induction l as [|[k v] l IH]; cbn; intros H; [exact I|]. inversion H as [|? ? Hn Hd]; subst.
    apply ins_sorted_sorted; [apply IH; exact Hd|].
    intros Hin. apply Hn. eapply Permutation_in; [|exact Hin]. apply Permutation_map, Permutation_sym, sort_perm.
  Qed.

  (* two strictly sorted lists with the same elements are equal *)
  Lemma sorted_perm_eq (l1 l2 : list kv) : ksorted l1 -> ksorted l2 -> Permutation l1 l2 -> l1 = l2.
  Proof.
    revert l2. induction l1 as [|x l1 IH]; intros l2 S1 S2 P.
    - apply Permutation_nil in P. subst. reflexivity.
    - destruct l2 as [|y l2]; [apply Permutation_sym, Permutation_nil in P; discriminate|].
      destruct S1 as [A1 B1], S2 as [A2 B2].
      assert (x = y).
      { assert (Hx : In x (y :: l2)) by (eapply Permutation_in; [exact P|left; reflexivity]).
        assert (Hy : In y (x :: l1)) by (eapply Permutation_in; [apply Permutation_sym; exact P|left; reflexivity]).
        destruct Hx as [->|Hx]; [reflexivity|]. destruct Hy as [->|Hy]; [reflexivity|].
        rewrite Forall_forall in A1, A2. exfalso. apply (klt_irrefl' (fst x)).
        eapply klt_trans'; [apply A1; exact Hy|apply A2; exact Hx]. }
      subst y. f_equal. apply IH; auto. eapply Permutation_cons_inv. exact P.
  Qed.

  Theorem sort_canonical (l1 l2 : list kv) :
    NoDup (map fst l1) -> NoDup (map fst l2) -> Permutation l1 l2 -> sort_by_key l1 = sort_by_key l2.
  Proof.
    intros N1 N2 P. apply sorted_perm_eq; try apply sort_sorted'; auto.
    eapply Permutation_trans; [apply Permutation_sym, sort_perm|]. eapply Permutation_trans; [exact P|apply sort_perm].
  Qed.
End Sort.
