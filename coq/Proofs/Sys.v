From Coq Require Import List Permutation Lia Arith.
Import ListNotations.
From Orda.Proofs Require Import Permute.

(* Abstract replicated system: N replicas, one server log, delivery in log order. *)
Section Sys.
  Variables St Op Id : Type.
  Variable oid : Op -> Id.
  Variable author : Op -> nat.
  Variable apply : St -> Op -> St.
  Variable ready : St -> Op -> Prop.
  Variable init : St.
  (* dependency satisfaction as a function of the *set* of applied operations *)
  Variable dsat : list Op -> Op -> Prop.
  Hypothesis dsat_mono : forall l l' o, incl l l' -> dsat l o -> dsat l' o.
  Variable good : St -> Prop.
  Hypothesis good_init : good init.
  Hypothesis good_step : forall s a, good s -> ready s a -> good (apply s a).
  Hypothesis ready_mono : forall s a b, good s -> oid a <> oid b -> ready s a -> ready s b -> ready (apply s a) b.
  Hypothesis comm : forall s a b, good s -> oid a <> oid b -> ready s a -> ready s b ->
      apply (apply s a) b = apply (apply s b) a.

  Notation run l := (fold_left apply l init).
  Notation ok l := (exec_ok St Op apply ready init l).
  (* [fr l o]: the part of readiness that is not monotone in the applied set — the operation's identifier is new to the
     replica (the list needs it; counter and map take [fun _ _ => True]).  It follows from uniqueness of identifiers. *)
  Variable fr : list Op -> Op -> Prop.
  Hypothesis fr_new : forall l o, ok l -> ~ In (oid o) (map oid l) -> fr l o.
  Hypothesis ready_iff : forall l o, ok l -> (ready (run l) o <-> dsat l o /\ fr l o).

  Record replica := { applied : list Op; pending : list Op; cursor : nat }.
  Record sys := { log : list Op; reps : nat -> replica }.

  Definition upd (f : nat -> replica) (r : nat) (x : replica) : nat -> replica :=
    fun r' => if Nat.eq_dec r' r then x else f r'.

  Definition all_ops (s : sys) (o : Op) : Prop :=
    In o (log s) \/ exists r, In o (pending (reps s r)) \/ In o (applied (reps s r)).

  Inductive step : sys -> sys -> Prop :=
  | Gen s r o :
      author o = r -> (forall o', all_ops s o' -> oid o' <> oid o) -> ready (run (applied (reps s r))) o ->
      step s {| log := log s;
                reps := upd (reps s) r {| applied := applied (reps s r) ++ [o];
                                          pending := pending (reps s r) ++ [o];
                                          cursor := cursor (reps s r) |} |}
  | Push s r :
      step s {| log := log s ++ pending (reps s r);
                reps := upd (reps s) r {| applied := applied (reps s r);
                                          pending := [];
                                          cursor := cursor (reps s r) |} |}
  | DeliverOther s r o :
      nth_error (log s) (cursor (reps s r)) = Some o -> author o <> r ->
      step s {| log := log s;
                reps := upd (reps s) r {| applied := applied (reps s r) ++ [o];
                                          pending := pending (reps s r);
                                          cursor := S (cursor (reps s r)) |} |}
  | SkipOwn s r o :
      nth_error (log s) (cursor (reps s r)) = Some o -> author o = r ->
      step s {| log := log s;
                reps := upd (reps s) r {| applied := applied (reps s r);
                                          pending := pending (reps s r);
                                          cursor := S (cursor (reps s r)) |} |}.

  Definition init_sys : sys := {| log := []; reps := fun _ => {| applied := []; pending := []; cursor := 0 |} |}.

  Inductive reachable : sys -> Prop :=
  | R0 : reachable init_sys
  | RS s s' : reachable s -> step s s' -> reachable s'.

  (* ---- invariant ---- *)
  Record Inv (s : sys) : Prop := {
    inv_ok : forall r, ok (applied (reps s r));
    inv_nodup_app : forall r, NoDup (applied (reps s r));
    inv_nodup_all : NoDup (log s) /\ (forall r, NoDup (pending (reps s r))) /\
                    (forall r o, In o (pending (reps s r)) -> ~ In o (log s));
    inv_inj : forall o o', all_ops s o -> all_ops s o' -> oid o = oid o' -> o = o';
    inv_pend_author : forall r o, In o (pending (reps s r)) -> author o = r;
    inv_cursor : forall r, cursor (reps s r) <= length (log s);
    (* applied r = own ops (in log or pending) + foreign ops of the log prefix *)
    inv_applied : forall r o, In o (applied (reps s r)) <->
        (author o = r /\ (In o (log s) \/ In o (pending (reps s r)))) \/
        (author o <> r /\ In o (firstn (cursor (reps s r)) (log s)));
    (* dependencies of every logged op are satisfied by what precedes it in the log *)
    inv_log_dsat : forall i o, nth_error (log s) i = Some o -> dsat (firstn i (log s)) o;
    inv_pend_dsat : forall r j o, nth_error (pending (reps s r)) j = Some o ->
        dsat (log s ++ firstn j (pending (reps s r))) o
  }.

  Lemma ok_app l o : ok (l ++ [o]) <-> ok l /\ ready (run l) o.
  Proof.
    generalize init. induction l as [|a l IH]; intros s0; cbn.
    - tauto.
    - rewrite IH. tauto.
  Qed.

  Lemma upd_same f r x : upd f r x r = x.
  Proof. unfold upd. destruct (Nat.eq_dec r r); congruence. Qed.
  Lemma upd_other f r x r' : r' <> r -> upd f r x r' = f r'.
  Proof. unfold upd. destruct (Nat.eq_dec r' r); congruence. Qed.

  Lemma firstn_app_le {A} (l l' : list A) n : n <= length l -> firstn n (l ++ l') = firstn n l.
  Proof. intros H. rewrite firstn_app. replace (n - length l) with 0 by lia. cbn. apply app_nil_r. Qed.

  Lemma nth_error_firstn_S {A} (l : list A) i o :
    nth_error l i = Some o -> firstn (S i) l = firstn i l ++ [o].
  Proof.
    revert i. induction l as [|a l IH]; intros [|i] H; cbn in *; try discriminate.
    - injection H as ->. reflexivity.
    - f_equal. apply IH. exact H.
  Qed.

  Lemma nodup_snoc {A} (l : list A) o : NoDup l -> ~ In o l -> NoDup (l ++ [o]).
  Proof.
    intros H Hn. induction H as [|a l Ha H IH]; cbn.
    - constructor; [intros []|constructor].
    - constructor.
      + rewrite in_app_iff. intros [H1|[<-|[]]]; [tauto|apply Hn; left; reflexivity].
      + apply IH. intro; apply Hn; right; assumption.
  Qed.

  Lemma nodup_map_inj {A B} (f : A -> B) (l : list A) :
    NoDup l -> (forall x y, In x l -> In y l -> f x = f y -> x = y) -> NoDup (map f l).
  Proof.
    induction 1 as [|a l Ha H IH]; intros Hinj; cbn; constructor.
    - rewrite in_map_iff. intros [x [E Hx]]. apply Ha.
      assert (x = a) by (apply Hinj; [right; exact Hx|left; reflexivity|exact E]). subst. exact Hx.
    - apply IH. intros x y Hx Hy. apply Hinj; right; assumption.
  Qed.

  Lemma in_firstn {A} (l : list A) n x : In x (firstn n l) -> In x l.
  Proof.
    revert n; induction l as [|a l IH]; intros [|n]; cbn; try tauto.
    intros [H|H]; [left; exact H|right; eapply IH; exact H].
  Qed.

  Lemma nodup_nth_not_before {A} (l : list A) i o :
    NoDup l -> nth_error l i = Some o -> ~ In o (firstn i l).
  Proof.
    intros Hnd. revert i. induction Hnd as [|a l Ha Hnd IH]; intros [|i] H; cbn in *; try discriminate; try tauto.
    intros [<-|Hin].
    - apply Ha. eapply nth_error_In; exact H.
    - eapply IH; eauto.
  Qed.

  Lemma nodup_app_disj {A} (l1 l2 : list A) :
    NoDup l1 -> NoDup l2 -> (forall x, In x l2 -> ~ In x l1) -> NoDup (l1 ++ l2).
  Proof.
    intros H1 H2 Hd. induction H1 as [|a l Ha H1 IH]; cbn; [exact H2|].
    constructor.
    - rewrite in_app_iff. intros [H|H]; [tauto|]. apply (Hd a H). left; reflexivity.
    - apply IH. intros x Hx Hin. apply (Hd x Hx). right; exact Hin.
  Qed.

  Lemma all_ops_upd L f r X x :
    all_ops {| log := L; reps := upd f r X |} x <->
    In x L \/ In x (pending X) \/ In x (applied X) \/
    exists r', r' <> r /\ (In x (pending (f r')) \/ In x (applied (f r'))).
  Proof.
    unfold all_ops; cbn. split.
    - intros [H|[r' H]]; [tauto|]. destruct (Nat.eq_dec r' r) as [->|Hne].
      + rewrite upd_same in H. tauto.
      + rewrite upd_other in H by exact Hne. right. right. right. exists r'. tauto.
    - intros [H|[H|[H|[r' [Hne H]]]]].
      + left; exact H.
      + right. exists r. rewrite upd_same. tauto.
      + right. exists r. rewrite upd_same. tauto.
      + right. exists r'. rewrite upd_other by exact Hne. exact H.
  Qed.

  Lemma all_ops_old (s : sys) r x :
    In x (log s) \/ In x (pending (reps s r)) \/ In x (applied (reps s r)) \/
    (exists r', r' <> r /\ (In x (pending (reps s r')) \/ In x (applied (reps s r')))) -> all_ops s x.
  Proof.
    unfold all_ops. intros [H|[H|[H|[r' [_ H]]]]]; [left; exact H|right; exists r; tauto|right; exists r; tauto|right; exists r'; exact H].
  Qed.

  Lemma inv_init : Inv init_sys.
  Proof.
    constructor; cbn.
    - intros _. exact I.
    - intros _. constructor.
    - repeat split; intros; try constructor. intros [].
    - intros o o' [[]|[r [[]|[]]]].
    - intros _ o [].
    - intros _. lia.
    - intros r o. tauto.
    - intros [|i] o H; discriminate.
    - intros r [|j] o H; discriminate.
  Qed.

  Lemma inv_step s s' : Inv s -> step s s' -> Inv s'.
  Proof.
    intros I H. destruct I as [Iok Ind Inall Iinj Ipa Icur Iapp Ilog Ipend].
    destruct Inall as [Indl [Indp Idisj]].
    destruct H as [s r o Ha Hfresh Hready | s r | s r o Hn Ha | s r o Hn Ha].
    - (* Gen *)
      assert (Hfresh' : ~ all_ops s o) by (intro A; exact (Hfresh o A eq_refl)).
      assert (Hnl : ~ In o (log s)) by (intro; apply Hfresh'; left; assumption).
      assert (Hnp : forall r', ~ In o (pending (reps s r'))) by (intros r' ?; apply Hfresh'; right; exists r'; tauto).
      assert (Hna : forall r', ~ In o (applied (reps s r'))) by (intros r' ?; apply Hfresh'; right; exists r'; tauto).
      constructor; cbn.
      + intros r'. destruct (Nat.eq_dec r' r) as [->|Hne].
        * rewrite upd_same; cbn. apply ok_app. split; [apply Iok|exact Hready].
        * rewrite upd_other by exact Hne. apply Iok.
      + intros r'. destruct (Nat.eq_dec r' r) as [->|Hne].
        * rewrite upd_same; cbn. apply nodup_snoc; auto.
        * rewrite upd_other by exact Hne. apply Ind.
      + split; [exact Indl|]. split.
        * intros r'. destruct (Nat.eq_dec r' r) as [->|Hne].
          -- rewrite upd_same; cbn. apply nodup_snoc; auto.
          -- rewrite upd_other by exact Hne. apply Indp.
        * intros r' o'. destruct (Nat.eq_dec r' r) as [->|Hne].
          -- rewrite upd_same; cbn. rewrite in_app_iff. intros [H|[<-|[]]]; [eapply Idisj; eauto|exact Hnl].
          -- rewrite upd_other by exact Hne. apply Idisj.
      + assert (Old : forall x, all_ops {| log := log s; reps := upd (reps s) r {| applied := applied (reps s r) ++ [o]; pending := pending (reps s r) ++ [o]; cursor := cursor (reps s r) |} |} x -> all_ops s x \/ x = o).
        { intros x Hx. apply all_ops_upd in Hx. cbn in Hx. rewrite !in_app_iff in Hx. cbn in Hx.
          destruct Hx as [H|[[H|[<-|[]]]|[[H|[<-|[]]]|H]]]; try (right; reflexivity); left; apply (all_ops_old s r); tauto. }
        intros x y Hx Hy E. apply Old in Hx. apply Old in Hy.
        destruct Hx as [Ox| ->], Hy as [Oy| ->].
        * eapply Iinj; eauto.
        * exfalso. exact (Hfresh x Ox E).
        * exfalso. exact (Hfresh y Oy (eq_sym E)).
        * reflexivity.
      + intros r' o'. destruct (Nat.eq_dec r' r) as [->|Hne].
        * rewrite upd_same; cbn. rewrite in_app_iff. intros [H|[<-|[]]]; [eapply Ipa; eauto|exact Ha].
        * rewrite upd_other by exact Hne. apply Ipa.
      + intros r'. destruct (Nat.eq_dec r' r) as [->|Hne]; [rewrite upd_same|rewrite upd_other by exact Hne]; cbn; apply Icur.
      + intros r' o'. destruct (Nat.eq_dec r' r) as [->|Hne].
        * rewrite upd_same; cbn. rewrite !in_app_iff, Iapp. cbn.
          intuition (subst; tauto).
        * rewrite upd_other by exact Hne. apply Iapp.
      + exact Ilog.
      + intros r' j o'. destruct (Nat.eq_dec r' r) as [->|Hne].
        * rewrite upd_same; cbn. intros Hj.
          destruct (Nat.lt_ge_cases j (length (pending (reps s r)))) as [Hlt|Hge].
          -- rewrite nth_error_app1 in Hj by exact Hlt.
             rewrite firstn_app_le by lia. apply Ipend. exact Hj.
          -- rewrite nth_error_app2 in Hj by exact Hge.
             destruct (j - length (pending (reps s r))) eqn:E; cbn in Hj; [|destruct n; discriminate].
             injection Hj as <-.
             assert (j = length (pending (reps s r))) by lia. subst j.
             rewrite firstn_app_le by lia. rewrite firstn_all.
             apply (ready_iff _ _ (Iok r)) in Hready. destruct Hready as [Hready _].
             eapply dsat_mono; [|exact Hready].
             intros x Hx. apply Iapp in Hx. apply in_or_app.
             destruct Hx as [[_ [H|H]]|[_ H]]; [left; exact H|right; exact H|left; eapply in_firstn; exact H].
        * rewrite upd_other by exact Hne. apply Ipend.
    - (* Push *)
      constructor; cbn.
      + intros r'. destruct (Nat.eq_dec r' r) as [->|Hne]; [rewrite upd_same|rewrite upd_other by exact Hne]; cbn; apply Iok.
      + intros r'. destruct (Nat.eq_dec r' r) as [->|Hne]; [rewrite upd_same|rewrite upd_other by exact Hne]; cbn; apply Ind.
      + split; [|split].
        * apply nodup_app_disj; auto. intros x Hx. eapply Idisj; eauto.
        * intros r'. destruct (Nat.eq_dec r' r) as [->|Hne]; [rewrite upd_same; cbn; constructor|rewrite upd_other by exact Hne; apply Indp].
        * intros r' o'. destruct (Nat.eq_dec r' r) as [->|Hne]; [rewrite upd_same; cbn; tauto|].
          rewrite upd_other by exact Hne. intros Hin. rewrite in_app_iff. intros [H|H].
          -- eapply Idisj; eauto.
          -- apply Ipa in Hin. apply Ipa in H. congruence.
      + intros x y Hx Hy E. apply all_ops_upd in Hx. apply all_ops_upd in Hy. cbn in Hx, Hy. rewrite in_app_iff in Hx, Hy.
        eapply Iinj; [apply (all_ops_old s r); tauto|apply (all_ops_old s r); tauto|exact E].
      + intros r' o'. destruct (Nat.eq_dec r' r) as [->|Hne]; [rewrite upd_same; cbn; tauto|rewrite upd_other by exact Hne; apply Ipa].
      + intros r'. rewrite app_length. pose proof (Icur r) as C1. pose proof (Icur r') as C2.
        destruct (Nat.eq_dec r' r) as [->|Hne]; [rewrite upd_same|rewrite upd_other by exact Hne]; cbn; lia.
      + intros r' o'. destruct (Nat.eq_dec r' r) as [->|Hne].
        * rewrite upd_same; cbn. rewrite firstn_app_le by apply Icur. rewrite Iapp, in_app_iff. tauto.
        * rewrite upd_other by exact Hne. rewrite firstn_app_le by apply Icur. rewrite Iapp, in_app_iff.
          split; [tauto|]. intros [[H1 [[H2|H2]|H2]]|H]; try tauto.
          apply Ipa in H2. congruence.
      + intros i o' Hi.
        destruct (Nat.lt_ge_cases i (length (log s))) as [Hlt|Hge].
        * rewrite nth_error_app1 in Hi by exact Hlt. rewrite firstn_app_le by lia. apply Ilog. exact Hi.
        * rewrite nth_error_app2 in Hi by exact Hge. rewrite firstn_app.
          rewrite firstn_all2 by lia. apply Ipend. exact Hi.
      + intros r' j o'. destruct (Nat.eq_dec r' r) as [->|Hne].
        * rewrite upd_same; cbn. destruct j; discriminate.
        * rewrite upd_other by exact Hne. intros Hj. eapply dsat_mono; [|apply (Ipend r' j o' Hj)].
          intros x. rewrite !in_app_iff. tauto.
    - (* DeliverOther *)
      assert (Hlt : cursor (reps s r) < length (log s)) by (apply nth_error_Some; congruence).
      assert (Hsub : incl (firstn (cursor (reps s r)) (log s)) (applied (reps s r))).
      { intros x Hx. apply Iapp. destruct (Nat.eq_dec (author x) r) as [E|E].
        - left. split; [exact E|left; eapply in_firstn; exact Hx].
        - right. tauto. }
      assert (Hnew : ~ In o (applied (reps s r))).
      { rewrite Iapp. intros [[H _]|[_ H]]; [congruence|]. eapply nodup_nth_not_before; eauto. }
      constructor; cbn.
      + intros r'. destruct (Nat.eq_dec r' r) as [->|Hne]; [rewrite upd_same; cbn|rewrite upd_other by exact Hne; apply Iok].
        apply ok_app. split; [apply Iok|]. apply (ready_iff _ _ (Iok r)). split.
        * eapply dsat_mono; [exact Hsub|]. apply Ilog. exact Hn.
        * apply fr_new; [apply Iok|]. intros Hin. apply in_map_iff in Hin. destruct Hin as [x [Ex Hx]].
          assert (x = o); [|subst x; exact (Hnew Hx)].
          apply Iinj; [right; exists r; right; exact Hx|left; eapply nth_error_In; exact Hn|exact Ex].
      + intros r'. destruct (Nat.eq_dec r' r) as [->|Hne]; [rewrite upd_same; cbn|rewrite upd_other by exact Hne; apply Ind].
        apply nodup_snoc; auto.
      + split; [exact Indl|split].
        * intros r'. destruct (Nat.eq_dec r' r) as [->|Hne]; [rewrite upd_same|rewrite upd_other by exact Hne]; cbn; apply Indp.
        * intros r' o'. destruct (Nat.eq_dec r' r) as [->|Hne]; [rewrite upd_same|rewrite upd_other by exact Hne]; cbn; apply Idisj.
      + assert (Ho : In o (log s)) by (eapply nth_error_In; exact Hn).
        intros x y Hx Hy E. apply all_ops_upd in Hx. apply all_ops_upd in Hy. cbn in Hx, Hy. rewrite in_app_iff in Hx, Hy. cbn in Hx, Hy.
        eapply Iinj; [apply (all_ops_old s r)|apply (all_ops_old s r)|exact E].
        * destruct Hx as [H|[H|[[H|[<-|[]]]|H]]]; tauto.
        * destruct Hy as [H|[H|[[H|[<-|[]]]|H]]]; tauto.
      + intros r' o'. destruct (Nat.eq_dec r' r) as [->|Hne]; [rewrite upd_same|rewrite upd_other by exact Hne]; cbn; apply Ipa.
      + intros r'. destruct (Nat.eq_dec r' r) as [->|Hne]; [rewrite upd_same; cbn; lia|rewrite upd_other by exact Hne; apply Icur].
      + intros r' o'. destruct (Nat.eq_dec r' r) as [->|Hne]; [rewrite upd_same; cbn [applied cursor pending]|rewrite upd_other by exact Hne; apply Iapp].
        rewrite (nth_error_firstn_S _ _ _ Hn), !in_app_iff, Iapp. cbn [In].
        intuition (subst; tauto).
      + exact Ilog.
      + intros r' j o'. destruct (Nat.eq_dec r' r) as [->|Hne]; [rewrite upd_same|rewrite upd_other by exact Hne]; cbn; apply Ipend.
    - (* SkipOwn *)
      assert (Hlt : cursor (reps s r) < length (log s)) by (apply nth_error_Some; congruence).
      constructor; cbn.
      + intros r'. destruct (Nat.eq_dec r' r) as [->|Hne]; [rewrite upd_same|rewrite upd_other by exact Hne]; cbn; apply Iok.
      + intros r'. destruct (Nat.eq_dec r' r) as [->|Hne]; [rewrite upd_same|rewrite upd_other by exact Hne]; cbn; apply Ind.
      + split; [exact Indl|split].
        * intros r'. destruct (Nat.eq_dec r' r) as [->|Hne]; [rewrite upd_same|rewrite upd_other by exact Hne]; cbn; apply Indp.
        * intros r' o'. destruct (Nat.eq_dec r' r) as [->|Hne]; [rewrite upd_same|rewrite upd_other by exact Hne]; cbn; apply Idisj.
      + intros x y Hx Hy E. apply all_ops_upd in Hx. apply all_ops_upd in Hy. cbn in Hx, Hy.
        eapply Iinj; [apply (all_ops_old s r); tauto|apply (all_ops_old s r); tauto|exact E].
      + intros r' o'. destruct (Nat.eq_dec r' r) as [->|Hne]; [rewrite upd_same|rewrite upd_other by exact Hne]; cbn; apply Ipa.
      + intros r'. destruct (Nat.eq_dec r' r) as [->|Hne]; [rewrite upd_same; cbn; lia|rewrite upd_other by exact Hne; apply Icur].
      + intros r' o'. destruct (Nat.eq_dec r' r) as [->|Hne]; [rewrite upd_same; cbn [applied cursor pending]|rewrite upd_other by exact Hne; apply Iapp].
        rewrite (nth_error_firstn_S _ _ _ Hn), !in_app_iff, Iapp. cbn [In].
        intuition (subst; tauto).
      + exact Ilog.
      + intros r' j o'. destruct (Nat.eq_dec r' r) as [->|Hne]; [rewrite upd_same|rewrite upd_other by exact Hne]; cbn; apply Ipend.
  Qed.

  Lemma inv_reachable s : reachable s -> Inv s.
  Proof. induction 1; [apply inv_init|eapply inv_step; eauto]. Qed.

  Definition state_of (s : sys) (r : nat) : St := run (applied (reps s r)).

  Theorem convergence s r1 r2 :
    reachable s ->
    Permutation (applied (reps s r1)) (applied (reps s r2)) ->
    state_of s r1 = state_of s r2.
  Proof.
    intros Hr Hp. apply inv_reachable in Hr. destruct Hr as [Iok Ind _ Iinj _ _ _ _ _].
    unfold state_of. eapply executable_permutations_agree with (oid := oid) (good := good); eauto.
    apply nodup_map_inj; [apply Ind|].
    intros x y Hx Hy E. apply Iinj; auto; right; exists r1; tauto.
  Qed.
End Sys.
Print Assumptions convergence.
