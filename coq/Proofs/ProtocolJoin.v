(* C05, late subscribers: the system of ProtocolLate.v extended with clients that join later (Subscribe on an existing
   key).  The joiner is answered with the whole log, executes all of it in log order, and from then on is one of the
   clients of Protocol.v; the invariant — hence exactly-once, in-order delivery for everybody — survives. *)
From Coq Require Import List NArith ZArith Bool Lia.
From Orda.Model Require Import Base Time Ops Server Wire.
From Orda.Proofs Require Import TimeFacts MapFacts ServerFacts ClientOrder WireFacts ExchangeFacts Protocol ProtocolLate.
Import ListNotations.
Open Scope N_scope.

Lemma find_key_of_in db d : LogInv db -> In d (s_dts db) -> find_dt_by_key db (dd_col d) (dd_key d) = Some d.
Proof.
  intros [_ _ _ Hkey] Hin. destruct (find_dt_by_key db (dd_col d) (dd_key d)) as [x|] eqn:E.
  - destruct (find_key_spec _ _ _ _ E) as [Hx [Hc Hk]]. rewrite (Hkey x d Hx Hin Hc Hk). reflexivity.
  - exfalso. apply (find_key_none _ _ _ E d Hin). auto.
Qed.

(* the answer to Subscribe(key) of a client that is not yet among the datatype's clients: the whole log, the end of the
   log as checkpoint, nothing stored *)
Lemma subscribe_pack db colname col v req d0 :
  LogInv db -> In d0 (s_dts db) -> dd_col d0 = col -> p_key req = dd_key d0 -> p_type req = dd_type d0 ->
  (p_opt req = bit_subscribe \/ p_opt req = bit_subscribe + bit_create) -> sseq (p_cp req) = 0 -> alookup str_eqb v (dd_rw d0) = None ->
  handle_pack db colname col v req =
  (mkSdb (s_cols db) (s_colctr db) (s_clients db)
         (upsert_dt (s_dts db) (set_end (set_client d0 false v (mkCp (dd_end d0) 0)) (dd_end d0))) (s_ops db),
   mkPpp (p_key req) (dd_duid d0) bit_subscribe (mkCp (dd_end d0) 0) (p_type req) (map od_op (get_ops db (dd_duid d0) 1)) None,
   []).
Proof.
  intros Hinv Hin Hcol Hkey Hty Hopt Hs Hnew. pose proof Hinv as [Hnd Hdt Horph Hk].
  assert (B1 : has (p_opt req) bit_readonly = false) by (destruct Hopt as [-> | ->]; reflexivity).
  assert (B2 : has (p_opt req) bit_create || has (p_opt req) bit_subscribe = true) by (destruct Hopt as [-> | ->]; reflexivity).
  assert (B3 : has (p_opt req) bit_subscribe = true) by (destruct Hopt as [-> | ->]; reflexivity).
  assert (B4 : has (p_opt req) bit_snapshot = false) by (destruct Hopt as [-> | ->]; reflexivity).
  unfold handle_pack, handle_pack_f; fold finish_pack. rewrite B1. cbn [andb].
  unfold evaluate. rewrite B2.
  rewrite Hkey, <- Hcol, (find_key_of_in db d0 Hinv Hin), Hty, N.eqb_refl. cbn [clients_of]. rewrite Hnew.
  assert (Ed : decide (dd_col d0) req NotSubscribed (Some d0) = ASubscribe).
  { unfold decide. rewrite B3. destruct (has (p_opt req) bit_create); reflexivity. }
  rewrite Ed.
  rewrite finish_pack_plain. unfold finish_plain. cbn [clients_of]. rewrite Hnew. cbn [cseq push_ops].
  rewrite ?B1, ?B4. cbv iota.
  assert (Hlog : map od_sseq (ops_of (s_ops db) (dd_duid d0)) = nseq 1 (N.to_nat (dd_end d0))) by (apply (di_sseq _ _ (Hdt d0 Hin))).
  rewrite (pulled_within db (dd_duid d0) (dd_end d0) (sseq (p_cp req) + 1) Hlog). rewrite Hs. cbn [N.add insert_ops].
  assert (Ecp : match rev (get_ops db (dd_duid d0) 1) with
                | [] => mkCp (dd_end d0) 0
                | lst :: _ => mkCp (od_sseq lst + N.of_nat (length (@nil odoc))) 0
                end = mkCp (dd_end d0) 0).
  { pose proof (get_ops_last db (dd_duid d0) (dd_end d0) 1 Hlog ltac:(lia)) as Hl.
    destruct (rev (get_ops db (dd_duid d0) 1)) as [|lst r]; [reflexivity|]. rewrite Hl. cbn [length]. f_equal. lia. }
  rewrite Ecp. cbn [sseq]. rewrite ?Hkey, ?Hty. reflexivity.
Qed.

Lemma owns_none_foreign_all u l : length (owns u l) = 0%nat -> foreign u l = l.
Proof.
  unfold owns, foreign. induction l as [|x l IH]; cbn [filter]; [reflexivity|]. destruct (own_of u x); cbn [length negb]; [discriminate|].
  intros H. rewrite (IH H). reflexivity.
Qed.

Section Join.
  Variables (colname : str) (col : N) (D key : str) (ty : N).
  Notation pstep' := (pstep colname col D key ty).
  Notation lstep' := (lstep colname col D key ty).

  (* the store after a step of the base system: unchanged, or the datatype's document updated and operations appended *)
  Lemma pstep_db st ev : PInv col D st ->
    ps_db (pstep' st ev) = ps_db st \/
    exists d0 u x e' newdocs, In d0 (s_dts (ps_db st)) /\ dd_duid d0 = D /\
      ps_db (pstep' st ev) = mkSdb (s_cols (ps_db st)) (s_colctr (ps_db st)) (s_clients (ps_db st))
                                  (upsert_dt (s_dts (ps_db st)) (set_end (set_client d0 false u x) e')) (s_ops (ps_db st) ++ newdocs).
  Proof.
    intros [Hinv [Hci [Hnd [d0 [Hin [Hd [Hcol Hcl]]]]]]]. destruct ev as [i o|i lost]; cbn [pstep].
    - left. destruct (nth_error (ps_cl st) i) as [c|]; [|reflexivity]. destruct (_ && _); reflexivity.
    - destruct (nth_error (ps_cl st) i) as [c|] eqn:En; [|left; reflexivity].
      pose proof Hinv as [Hndd _ _ _].
      assert (Ef : find_dt (ps_db st) D = Some d0) by (rewrite <- Hd; apply find_dt_of_in; assumption). rewrite Ef.
      destruct ((dd_end d0 + N.of_nat (length (pc_buf c)) <? big) && (cseq (rec_of d0 (pc_cuid c)) + N.of_nat (length (pc_buf c)) <? big)) eqn:Eg;
        [|left; reflexivity]. apply andb_true_iff in Eg. destruct Eg as [B1 B2]. apply N.ltb_lt in B1, B2.
      rewrite Forall_forall in Hcl. pose proof (Hcl c (nth_error_In _ _ En)) as Hc.
      destruct (sync_effect colname col D key ty (ps_db st) d0 c Hinv Hin Hd Hcol Hc B1 B2) as [newdocs [Hhp [_ [_ [_ Hinc]]]]].
      cbv zeta in Hhp, Hinc. rewrite Hhp. cbn [p_err]. right.
      exists d0, (pc_cuid c), (mkCp (dd_end d0 + N.of_nat (length newdocs)) (cseq (rec_of d0 (pc_cuid c)) + N.of_nat (length newdocs))),
             (dd_end d0 + N.of_nat (length newdocs)), newdocs.
      split; [exact Hin|]. split; [exact Hd|]. destruct lost; [reflexivity|]. cbn [p_cp sseq cseq]. rewrite Hinc. reflexivity.
  Qed.

  (* the datatype keeps its key and type *)
  Definition KInv (db : sdb) : Prop := forall d, In d (s_dts db) -> dd_duid d = D -> dd_key d = key /\ dd_type d = ty.

  Lemma kinv_pstep st ev : PInv col D st -> KInv (ps_db st) -> KInv (ps_db (pstep' st ev)).
  Proof.
    intros HP HK. destruct (pstep_db st ev HP) as [E|[d0 [u [x [e' [newdocs [Hin [Hd E]]]]]]]]; rewrite E; [exact HK|].
    destruct HP as [[Hndd _ _ _] _]. intros d Hdin Hdd. cbn [s_dts] in Hdin. apply (upsert_in _ _ _ Hndd) in Hdin.
    destruct Hdin as [->|[Hdin _]]; [|exact (HK d Hdin Hdd)].
    destruct (HK d0 Hin Hd) as [K1 K2]. unfold set_end, set_client. cbn. auto.
  Qed.

  (* ---------- the system with late subscribers ---------- *)
  (* a client joins: Subscribe(key) ([orc] = None), or SubscribeOrCreate(key) carrying its own snapshot operation
     ([orc] = Some o1) — the datatype exists, so the server subscribes it and ignores the operation *)
  Inductive jev := JBase (ev : lev) | JJoin (v Dv : str) (orc : option op).

  Definition join_req (Dv : str) (orc : option op) : ppp :=
    match orc with
    | None => mkPpp key Dv bit_subscribe (mkCp 0 0) ty [] None
    | Some o1 => mkPpp key Dv (bit_subscribe + bit_create) (mkCp 0 1) ty [o1] None
    end.
  Definition own_snapshot (v : str) (orc : option op) : bool :=
    match orc with None => true | Some o1 => str_eqb (o_cuid (op_id o1)) v end.

  Definition jstep (st : lsys) (ev : jev) : lsys :=
    match ev with
    | JBase ev => lstep' st ev
    | JJoin v Dv orc =>
        let b := l_base st in
        if existsb (fun c => str_eqb (pc_cuid c) v) (ps_cl b) || negb (own_snapshot v orc) then st else
        match find_dt (ps_db b) D with
        | Some d0 =>
            match alookup str_eqb v (dd_rw d0) with
            | Some _ => st
            | None =>
                (* the client's own provisional DUID, checkpoint (0,0) — (0,1) and the snapshot operation when it would also create *)
                let req := join_req Dv orc in
                let '(db', resp, _) := handle_pack (ps_db b) colname col v req in
                match p_err resp with
                | Some _ => mkLs (mkPs db' (ps_cl b)) (l_fly st)
                | None =>
                    (* ApplyPushPullPack, subscribe branch: the datatype is reset (its buffer emptied), its checkpoint set to the
                       answer's sseq minus the number of operations, every operation of the answer is a candidate *)
                    let c0 := mkCp (u64sub (sseq (p_cp resp)) (N.of_nat (length (p_ops resp)))) (cseq (p_cp resp)) in
                    match incoming v true c0 resp with
                    | Some ops =>
                        mkLs (mkPs db' (ps_cl b ++ [mkPc v (N.max (sseq c0) (sseq (p_cp resp))) (N.max (cseq c0) (cseq (p_cp resp))) [] ops]))
                             (l_fly st)
                    | None => mkLs (mkPs db' (ps_cl b)) (l_fly st)
                    end
                end
            end
        | None => st
        end
    end.

  Definition JInv (st : lsys) : Prop :=
    LInv col D st /\ KInv (ps_db (l_base st)) /\ (forall i, (length (ps_cl (l_base st)) <= i)%nat -> fly_of st i = []).

  Lemma upd_nth_length {A} (l : list A) : forall i x, length (upd_nth l i x) = length l.
  Proof. induction l as [|y l IH]; intros i x; [destruct i; reflexivity|]. destruct i; cbn; [reflexivity|rewrite IH; reflexivity]. Qed.

  Lemma pstep_clients_length st ev : length (ps_cl (pstep' st ev)) = length (ps_cl st).
  Proof.
    destruct ev as [i o|i lost]; cbn [pstep].
    - destruct (nth_error (ps_cl st) i); [|reflexivity]. destruct (_ && _); [cbn [ps_cl]; apply upd_nth_length|reflexivity].
    - destruct (nth_error (ps_cl st) i); [|reflexivity]. destruct (find_dt (ps_db st) D); [|reflexivity].
      destruct (_ && _); [|reflexivity]. destruct (handle_pack _ _ _ _ _) as [[db' resp] pubs].
      destruct (p_err resp); [reflexivity|]. destruct lost; [reflexivity|]. destruct (incoming _ _ _ _); [cbn [ps_cl]; apply upd_nth_length|reflexivity].
  Qed.

  Lemma jbase_inv st ev : JInv st -> JInv (jstep st (JBase ev)).
  Proof.
    intros [HL [HK HB]]. cbn [jstep]. split; [apply lstep_inv; exact HL|].
    destruct ev as [ev|i j]; cbn [lstep l_base].
    - split; [apply kinv_pstep; [exact (proj1 HL)|exact HK]|]. rewrite pstep_clients_length. intros i0 Hi. unfold fly_of. cbn [l_fly].
      destruct ev as [i o|i lost]; [exact (HB i0 Hi)|]. unfold answer_now.
      destruct (nth_error (ps_cl (l_base st)) i) as [c|] eqn:En; [|exact (HB i0 Hi)].
      assert (Hlt : (i < length (ps_cl (l_base st)))%nat) by (apply nth_error_Some; congruence).
      destruct (find_dt _ D); [|exact (HB i0 Hi)]. destruct (_ && _); [|exact (HB i0 Hi)].
      destruct (handle_pack _ _ _ _ _) as [[db' resp] pubs]. destruct (p_err resp); [exact (HB i0 Hi)|].
      rewrite nth_add_fly. destruct (Nat.eqb_spec i0 i); [lia|exact (HB i0 Hi)].
    - destruct (nth_error (ps_cl (l_base st)) i) as [c|]; [|split; assumption].
      destruct (nth_error (fly_of st i) j) as [resp|]; [|split; assumption].
      destruct (incoming _ _ _ resp); [|split; assumption]. cbn [l_base ps_db ps_cl l_fly]. split; [exact HK|].
      rewrite upd_nth_length. exact HB.
  Qed.

  Lemma incoming_subscribe v resp e :
    p_cp resp = mkCp e 0 -> length (p_ops resp) = N.to_nat e -> e < big ->
    incoming v true (mkCp (u64sub e (N.of_nat (length (p_ops resp)))) 0) resp = Some (p_ops resp).
  Proof.
    intros Hcp Hlen Hb. rewrite Hlen, N2Nat.id, u64sub_ge by (unfold big, two64 in *; lia). rewrite N.sub_diag.
    unfold incoming. rewrite Hcp. cbn [sseq cseq]. rewrite pulled_count by (unfold big in *; lia). f_equal.
    replace (length (p_ops resp) - Z.to_nat (Z.max 0 (Z.of_N e - Z.of_N 0 - (Z.of_N 0 - Z.of_N 0))))%nat with 0%nat by lia. reflexivity.
  Qed.

  Lemma join_inv st v Dv orc : JInv st -> JInv (jstep st (JJoin v Dv orc)).
  Proof.
    intros HJ. pose proof HJ as [HL [HK HB]]. pose proof HL as [HP HF]. cbn [jstep].
    destruct (existsb (fun c => str_eqb (pc_cuid c) v) (ps_cl (l_base st))) eqn:Eex; [exact HJ|]. cbn [orb].
    destruct (own_snapshot v orc) eqn:Eown; [cbn [negb]|exact HJ].
    pose proof HP as [Hinv [Hci [Hnd [d0 [Hin [Hd [Hcol Hcl]]]]]]]. pose proof Hinv as [Hndd Hdt _ _].
    assert (Ef : find_dt (ps_db (l_base st)) D = Some d0) by (rewrite <- Hd; apply find_dt_of_in; assumption). rewrite Ef.
    destruct (alookup str_eqb v (dd_rw d0)) as [x|] eqn:Enew; [exact HJ|].
    destruct (HK d0 Hin Hd) as [Hkey Hty]. destruct (HF d0 Hin Hd) as [Hbig Hfl].
    set (db := ps_db (l_base st)) in *. set (e := dd_end d0) in *.
    set (req := join_req Dv orc).
    assert (Rk : p_key req = key) by (unfold req, join_req; destruct orc; reflexivity).
    assert (Rt : p_type req = ty) by (unfold req, join_req; destruct orc; reflexivity).
    assert (Ro : p_opt req = bit_subscribe \/ p_opt req = bit_subscribe + bit_create) by (unfold req, join_req; destruct orc; auto).
    assert (Rs : sseq (p_cp req) = 0) by (unfold req, join_req; destruct orc; reflexivity).
    pose proof (subscribe_pack db colname col v req d0 Hinv Hin Hcol (eq_trans Rk (eq_sym Hkey)) (eq_trans Rt (eq_sym Hty)) Ro Rs Enew) as SP.
    fold e in SP. rewrite Hd in SP. rewrite SP. cbn [p_err p_cp p_ops sseq cseq].
    destruct (logops_len D db d0 Hinv Hin Hd) as [Hseq Hlen]. fold e in Hseq, Hlen.
    assert (Eall : map od_op (get_ops db D 1) = logops D db).
    { change 1 with (0 + 1). rewrite (log_beyond db D e 0 Hseq). reflexivity. }
    set (resp := mkPpp (p_key req) D bit_subscribe (mkCp e 0) (p_type req) (map od_op (get_ops db D 1)) None) in *.
    assert (Hl : length (p_ops resp) = N.to_nat e) by (unfold resp; cbn [p_ops]; rewrite Eall; exact Hlen).
    pose proof (incoming_subscribe v resp e eq_refl Hl Hbig) as Hinc. unfold resp in Hinc at 1 3. cbn [p_ops] in Hinc. rewrite Hinc.
    rewrite map_length in *. 
    assert (Eu : u64sub e (N.of_nat (length (get_ops db D 1))) = 0).
    { unfold resp in Hl. cbn [p_ops] in Hl. rewrite map_length in Hl. rewrite Hl, N2Nat.id, u64sub_ge by (unfold big, two64 in *; lia). lia. }
    rewrite Eu. rewrite (N.max_r 0 e) by lia. rewrite N.max_id. unfold resp. cbn [p_ops]. rewrite Eall.
    set (L := logops D db) in *.
    set (d1 := set_end (set_client d0 false v (mkCp e 0)) e).
    set (db' := mkSdb (s_cols db) (s_colctr db) (s_clients db) (upsert_dt (s_dts db) d1) (s_ops db)).
    set (cnew := mkPc v e 0 [] L).
    (* the store *)
    assert (Hhon : honest_pack v req).
    { unfold honest_pack, req, join_req. destruct orc as [o1|]; cbn [p_ops]; [|constructor]. constructor; [|constructor]. apply str_eqb_eq. exact Eown. }
    pose proof (handle_pack_spec db colname col v req Hinv) as HS. rewrite SP in HS. destruct HS as [Hinv' _].
    pose proof (handle_pack_client db colname col v req Hinv Hci Hhon) as HC. rewrite SP in HC. cbn [fst] in HC.
    assert (HLL : logops D db' = L) by reflexivity.
    assert (Hin1 : In d1 (s_dts db')) by (unfold db'; cbn [s_dts]; apply (upsert_in _ _ _ Hndd); left; reflexivity).
    assert (Hd1 : dd_duid d1 = D) by (unfold d1, set_end, set_client; cbn; exact Hd).
    assert (Hc1 : dd_col d1 = col) by (unfold d1, set_end, set_client; cbn; exact Hcol).
    assert (Hd1e : forall dx, In dx (s_dts db') -> dd_duid dx = D -> dx = d1).
    { intros dx Hx Hdx. unfold db' in Hx. cbn [s_dts] in Hx. apply (upsert_in _ _ _ Hndd) in Hx. destruct Hx as [->|[Hx Hne]]; [reflexivity|].
      exfalso. apply Hne. assert (dx = d0) by (eapply (nodup_map_in_inj dd_duid); eauto; congruence). subst dx. unfold d1, set_end, set_client. cbn. reflexivity. }
    assert (Hvnew : forall c, In c (ps_cl (l_base st)) -> pc_cuid c <> v).
    { intros c Hc E. assert (existsb (fun c0 => str_eqb (pc_cuid c0) v) (ps_cl (l_base st)) = true).
      { apply existsb_exists. exists c. split; [exact Hc|]. rewrite E. apply str_eqb_refl. }
      congruence. }
    pose proof Hcl as Hcl'. rewrite Forall_forall in Hcl'.
    assert (Hno : length (owns v L) = 0%nat).
    { pose proof (own_total D db d0 v Hinv Hci Hin Hd) as T. unfold rec_of in T. rewrite Enew in T. cbn [cseq] in T. fold L in T. lia. }
    split; [split|split].
    - (* the base invariant *)
      cbn [l_base]. split; [exact Hinv'|]. split; [exact HC|]. cbn [ps_cl ps_db]. split.
      + rewrite map_app. cbn [map pc_cuid cnew]. apply nodup_snoc'; [exact Hnd|]. intros Hi. apply in_map_iff in Hi. destruct Hi as [c [Ec Hc]].
        exact (Hvnew c Hc Ec).
      + exists d1. split; [exact Hin1|]. split; [exact Hd1|]. split; [exact Hc1|]. apply Forall_app. split.
        * apply Forall_forall. intros c Hc. pose proof (cinv_other D db d0 c v (mkCp e 0) 0 [] (Hvnew c Hc) Hlen ltac:(constructor) (Hcl' c Hc) db') as CO.
          rewrite N.add_0_r in CO. apply CO. rewrite HLL, app_nil_r. reflexivity.
        * constructor; [|constructor]. unfold cinv, cnew. cbn [pc_cuid pc_s pc_cc pc_buf pc_exec]. unfold d1. rewrite rec_of_set, str_eqb_refl. cbn [cseq length dd_end set_end]. rewrite HLL.
          split; [lia|]. split; [lia|]. split; [lia|]. split; [rewrite <- Hlen, skipn_all; cbn; lia|]. split; [constructor|]. split; [reflexivity|].
          rewrite <- Hlen, firstn_all. symmetry. apply (owns_none_foreign_all v L Hno).
    - (* the network *)
      cbn [l_base ps_db ps_cl]. intros dx Hx Hdx. rewrite (Hd1e dx Hx Hdx). cbn [dd_end d1 set_end]. split; [exact Hbig|]. rewrite HLL.
      intros i c En. unfold fly_of. cbn [l_fly]. destruct (Nat.lt_ge_cases i (length (ps_cl (l_base st)))) as [Hlt|Hge].
      + rewrite nth_error_app1 in En by exact Hlt. exact (Hfl i c En).
      + pose proof (HB i Hge) as E0. unfold fly_of in E0. rewrite E0. constructor.
    - (* key and type *)
      cbn [l_base ps_db]. intros dx Hx Hdx. rewrite (Hd1e dx Hx Hdx). unfold d1, set_end, set_client. cbn. auto.
    - cbn [l_base ps_cl]. rewrite app_length. cbn [length]. intros i Hi. pose proof (HB i ltac:(lia)) as E0. unfold fly_of in *. cbn [l_fly]. exact E0.
  Qed.

  Theorem jstep_inv st ev : JInv st -> JInv (jstep st ev).
  Proof. destruct ev as [ev|v Dv orc]; [apply jbase_inv|apply join_inv]. Qed.

  Definition jrun (st : lsys) (evs : list jev) : lsys := fold_left jstep evs st.
  Theorem jrun_inv evs : forall st, JInv st -> JInv (jrun st evs).
  Proof. induction evs as [|ev evs IH]; intros st H; cbn; [exact H|]. apply IH, jstep_inv, H. Qed.

  (* C05 with late subscribers: clients join at any time, issue operations, exchange; answers are lost, delayed, repeated.
     In every reachable state every client — founders and late joiners alike — has executed exactly the other clients'
     operations of the log prefix it has seen, in log order, each once. *)
  Theorem joiners_exactly_once st0 evs :
    JInv st0 ->
    let st := l_base (jrun st0 evs) in
    LogInv (ps_db st) /\
    (forall c, In c (ps_cl st) ->
       pc_exec c = foreign (pc_cuid c) (firstn (N.to_nat (pc_s c)) (logops D (ps_db st)))) /\
    (forall d u, In d (s_dts (ps_db st)) -> seqs_of (s_ops (ps_db st)) (dd_duid d) u = nseq 1 (N.to_nat (ack d u))).
  Proof.
    intros H st. destruct (jrun_inv evs st0 H) as [[[Hinv [Hci [_ [d0 [_ [_ [_ Hcl]]]]]]] _] _]. fold st in Hinv, Hci, Hcl.
    split; [exact Hinv|]. split; [|intros d u Hd; exact (Hci d Hd u)].
    intros c Hc. rewrite Forall_forall in Hcl. destruct (Hcl c Hc) as [_ [_ [_ [_ [_ [_ C7]]]]]]. exact C7.
  Qed.

  Lemma JInv_of_LInv st : LInv col D st -> KInv (ps_db (l_base st)) -> l_fly st = [] -> JInv st.
  Proof. intros H1 H2 H3. split; [exact H1|]. split; [exact H2|]. intros i _. unfold fly_of. rewrite H3. destruct i; reflexivity. Qed.
End Join.
